import DAVerif.CData.Record
/-!
Specification-side vocabulary of C17: what "the same table", "strict record specification", "record-keyed table",
"complete blocks" and "the record view" mean.  Written independently of how `blocksToRows` / `rowsToBlocks`
compute (they only use `look`, `proj`, `keyOf` from the model's cell layer).  All predicates are decidable.
-/
namespace DAVerif.CData

/-! ## the same table (up to row and column order) -/

/-- `t ≈ u`: the same column labels up to order, and the same rows (read through the labels) up to order. -/
def Table.Equiv (t u : Table) : Prop :=
  t.cols.Perm u.cols ∧ (t.rows.map (proj t.cols)).Perm (u.rows.map (proj t.cols))

infix:50 " ≈ₜ " => Table.Equiv

instance (t u : Table) : Decidable (t ≈ₜ u) := by unfold Table.Equiv; infer_instance

instance exceptDecEq {ε α : Type} [DecidableEq ε] [DecidableEq α] : DecidableEq (Except ε α) := fun a b =>
  match a, b with
  | .ok x, .ok y => if h : x = y then isTrue (h ▸ rfl) else isFalse fun e => h (Except.ok.inj e)
  | .error x, .error y => if h : x = y then isTrue (h ▸ rfl) else isFalse fun e => h (Except.error.inj e)
  | .ok _, .error _ => isFalse fun e => nomatch e
  | .error _, .ok _ => isFalse fun e => nomatch e

/-! ## strict record specification -/

/-- A strict, multi-row record specification accepted by `RecordSpecification.__init__`, whose block form has
distinct column labels (`NamesDistinct`: scope – the constructor accepts a record key that is also a control-table
column, or repeated key names, but then no data frame has that block form and every transform raises). -/
structure Spec.Good (s : Spec) : Prop where
  /-- the constructor's validations pass -/
  valid : mkSpec s.ct s.recordKeys (some s.ctKeys) s.strict = .ok s
  strict : s.strict = true
  /-- at least two control rows (`RecordMap` treats a one-row specification as row records) -/
  multi : 2 ≤ s.ct.rows.length
  /-- scope: record keys and control-table columns are pairwise distinct labels -/
  names : (s.recordKeys ++ s.ct.cols).Nodup
  /-- scope: control-table keys are not repeated -/
  ckNodup : s.ctKeys.Nodup

instance (s : Spec) : Decidable s.Good :=
  if h : mkSpec s.ct s.recordKeys (some s.ctKeys) s.strict = .ok s ∧ s.strict = true ∧ 2 ≤ s.ct.rows.length ∧
      (s.recordKeys ++ s.ct.cols).Nodup ∧ s.ctKeys.Nodup
  then isTrue ⟨h.1, h.2.1, h.2.2.1, h.2.2.2.1, h.2.2.2.2⟩
  else isFalse fun g => h ⟨g.valid, g.strict, g.multi, g.names, g.ckNodup⟩

/-- a frame whose rows carry exactly the frame's columns, in order (as every parsed data frame does) -/
def Table.Normal (t : Table) : Prop := ∀ r ∈ t.rows, r.map Prod.fst = t.cols

instance (t : Table) : Decidable t.Normal := by unfold Table.Normal; infer_instance

/-! ## conforming tables -/

/-- the record keys of the listed records are present (no null cell) and identify the record -/
def RecKeys (rk : List String) (rows : List Row) : Prop :=
  (∀ r ∈ rows, noNull (keyOf rk r) = true) ∧ (rows.map (keyOf rk)).Nodup

instance (rk : List String) (rows : List Row) : Decidable (RecKeys rk rows) := by unfold RecKeys; infer_instance

/-- A row-record table for `s`: exactly the row-form columns (any order), one row per record key. -/
def KeyedRows (s : Spec) (t : Table) : Prop :=
  t.cols.Perm s.rowColumns ∧ RecKeys s.recordKeys t.rows

instance (s : Spec) (t : Table) : Decidable (KeyedRows s t) := by unfold KeyedRows; infer_instance

/-- A block-record table for `s` with complete blocks: exactly the block-form columns (any order); record keys
present; every row's control key is one of the control table's; no two rows with the same record key and control
key; and every record has a row for every control-table row. -/
def CompleteBlocks (s : Spec) (t : Table) : Prop :=
  t.cols.Perm s.blockColumns ∧
  (∀ r ∈ t.rows, noNull (keyOf s.recordKeys r) = true) ∧
  (∀ r ∈ t.rows, ∃ cr ∈ s.ct.rows, keyOf s.ctKeys r = keyOf s.ctKeys cr) ∧
  (t.rows.map (keyOf (s.recordKeys ++ s.ctKeys))).Nodup ∧
  (∀ r ∈ t.rows, ∀ cr ∈ s.ct.rows, ∃ r' ∈ t.rows,
      keyOf s.recordKeys r' = keyOf s.recordKeys r ∧ keyOf s.ctKeys r' = keyOf s.ctKeys cr)

instance (s : Spec) (t : Table) : Decidable (CompleteBlocks s t) := by unfold CompleteBlocks; infer_instance

/-! ## the record view:  record key ↦ content key ↦ value -/

/-- the content key written in control row `cr` under value column `vc` -/
def contentName (cr : Row) (vc : String) : String := (look cr vc).toName

/-- Block form of a list of records (each record a row: record-key cells and one cell per content key): one row
per record and control row, holding the record's key cells, the control row's key cells, and under each value
column the record's cell for the content key the control row names there. -/
def specBlocks (s : Spec) (records : List Row) : List Row :=
  s.ct.rows.flatMap fun cr => records.map fun r =>
    (s.recordKeys.map fun k => (k, look r k)) ++ (s.ctKeys.map fun k => (k, look cr k)) ++
    (s.valueCols.map fun vc => (vc, look r (contentName cr vc)))

/-- `t` in block form carries the records `records` (up to row order, read through `s`'s block columns) -/
def IsBlocks (s : Spec) (records : List Row) (t : Table) : Prop :=
  (∀ c ∈ s.blockColumns, c ∈ t.cols) ∧
  (t.rows.map (proj s.blockColumns)).Perm ((specBlocks s records).map (proj s.blockColumns))

/-- `t` in row form carries the records `records` (up to row order, read through `s`'s row columns) -/
def IsRows (s : Spec) (records : List Row) (t : Table) : Prop :=
  (∀ c ∈ s.rowColumns, c ∈ t.cols) ∧
  (t.rows.map (proj s.rowColumns)).Perm (records.map (proj s.rowColumns))

/-! ## record maps -/

/-- A strict `RecordMap` accepted by `RecordMap.__init__`, between good specifications. -/
structure RecordMap.Good (m : RecordMap) : Prop where
  valid : mkMap m.blocksIn m.blocksOut m.strict = .ok m
  strict : m.strict = true
  goodIn : ∀ a, m.blocksIn = some a → a.Good
  goodOut : ∀ b, m.blocksOut = some b → b.Good

/-- the table conforms to the incoming side of the map -/
def Conforms (m : RecordMap) (t : Table) : Prop :=
  match m.blocksIn, m.blocksOut with
  | some a, _ => CompleteBlocks a t
  | none, some b => KeyedRows b t
  | none, none => False

instance (m : RecordMap) (t : Table) : Decidable (Conforms m t) := by
  unfold Conforms; split <;> infer_instance

/-- Two specifications describe the same block layout: the same control keys, the same control-table columns up
to order, and the same control-table rows (read through those columns) up to order. -/
def SameLayout (a b : Spec) : Prop :=
  a.ctKeys = b.ctKeys ∧ a.ct.cols.Perm b.ct.cols ∧
  (a.ct.rows.map (proj b.ct.cols)).Perm (b.ct.rows.map (proj b.ct.cols))

instance (a b : Spec) : Decidable (SameLayout a b) := by unfold SameLayout; infer_instance

/-- `m₂` reads the form `m₁` writes: both row records, or `m₂`'s incoming specification has the layout of `m₁`'s
outgoing specification (record keys may be listed in another order, control rows/columns too). -/
def Interface (m₁ m₂ : RecordMap) : Prop :=
  match m₁.blocksOut, m₂.blocksIn with
  | none, none => True
  | some b, some a => SameLayout a b
  | _, _ => False

instance (m₁ m₂ : RecordMap) : Decidable (Interface m₁ m₂) := by
  unfold Interface; split <;> infer_instance

/-- the incoming control table of the map (if any) is a parsed frame: its rows carry exactly its columns -/
def NormalIn (m : RecordMap) : Prop :=
  match m.blocksIn with
  | some a => a.ct.Normal
  | none => True

instance (m : RecordMap) : Decidable (NormalIn m) := by unfold NormalIn; split <;> infer_instance

end DAVerif.CData
