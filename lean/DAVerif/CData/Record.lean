/-
Model of the record-transform machinery of /repo/data_algebra/cdata.py
(`RecordSpecification`, `RecordMap.__init__ / transform / inverse / compose / example_input`) and of the
Pandas executor's `blocks_to_rowrecs` / `rowrecs_to_blocks` (/repo/data_algebra/pandas_base.py).

Level of abstraction.  A data frame is a list of column names plus a list of rows; a row is an association
list `column ↦ cell` (`look` reads a cell by name).  Every frame operation of the code is modelled by its
*by-name* effect (`.loc[:, cols]` = `select`, `s.columns = [...]` after dropping the key columns = the value
columns renamed through the control-table row, `pd.concat(axis=1)` = row-wise append, `pd.concat(axis=0)` =
list append, `sort_values` = stable (insertion) sort with nulls last, `groupby` = groups in ascending key order with
null keys dropped).  Frames with duplicate column labels are outside the model (Pandas itself raises on them in
`groupby`/`loc`); the property excludes them through `Spec.NamesDistinct` (see Props/C17.lean).

`compose` is modelled as **repaired** by `fixes/cdata-compose-row-forms.diff` (the unrepaired method names the
composite's content keys "`<key> value`", which is wrong whenever either end of the composite is in row form).

No imports: this file is part of the compiled driver.
-/
namespace DAVerif.CData

/-! ## Cells, rows, frames -/

/-- A cell.  `None`/`NaN`/`NaT` are one value `null`; numbers are integers (the generator uses no others). -/
inductive Val where
  | null
  | num (i : Int)
  | str (s : String)
  deriving DecidableEq, Repr, Inhabited

/-- Exception classes the code can raise on the modelled paths (compared by class name only). -/
inductive Err where
  | KeyError | ValueError | TypeError | AssertionError | IndexError | AttributeError
  deriving DecidableEq, Repr

/-- A row: association list column ↦ cell. -/
abbrev Row := List (String × Val)

/-- `row[c]`; an absent column reads as `null` (never relied upon: every read is guarded by a column check). -/
def look : Row → String → Val
  | [], _ => .null
  | (k, v) :: r, c => if k = c then v else look r c

/-- the row restricted to (and re-ordered as) the columns `cs` -/
def proj (cs : List String) (r : Row) : Row := cs.map fun c => (c, look r c)

/-- the tuple of cells under the columns `ks` -/
def keyOf (ks : List String) (r : Row) : List Val := ks.map (look r)

structure Table where
  cols : List String
  rows : List Row
  deriving DecidableEq, Repr

/-- `data.loc[:, cs]` : KeyError when a label is missing. -/
def Table.select (t : Table) (cs : List String) : Except Err Table :=
  if ∀ c ∈ cs, c ∈ t.cols then .ok ⟨cs, t.rows.map (proj cs)⟩ else .error .KeyError

/-- `d.drop(cs, axis=1)` (all of `cs` present on the modelled paths) -/
def Table.drop (t : Table) (cs : List String) : Table :=
  let keep := t.cols.filter (fun c => c ∉ cs)
  ⟨keep, t.rows.map (proj keep)⟩

/-! ## Order used by `sort_values` / `groupby` (assumed Pandas behaviour, validated by the correspondence)

Ascending, `null` last, integers by value, strings by code point.  A column mixing integers and strings makes
Pandas raise `TypeError`; the model orders integers before strings there (outside the generated scope: key
columns are kind-uniform). -/

def Val.le : Val → Val → Bool
  | _, .null => true
  | .null, _ => false
  | .num a, .num b => decide (a ≤ b)
  | .num _, .str _ => true
  | .str _, .num _ => false
  | .str a, .str b => decide (a ≤ b)

/-- lexicographic order on key tuples (tuples compared have equal length) -/
def keyLe : List Val → List Val → Bool
  | [], _ => true
  | _ :: _, [] => false
  | a :: as, b :: bs => if a = b then keyLe as bs else Val.le a b

/-- stable insertion: `x` goes in front of the first element it is `≤` to -/
def insSorted {α : Type} (le : α → α → Bool) (x : α) : List α → List α
  | [] => [x]
  | y :: l => if le x y then x :: y :: l else y :: insSorted le x l

/-- stable insertion sort (structural recursion, so that concrete instances reduce in the kernel) -/
def isort {α : Type} (le : α → α → Bool) (l : List α) : List α := l.foldr (insSorted le) []

/-- `df.sort_values(by=ks, ignore_index=True)` : stable, ascending, nulls last. -/
def sortBy (ks : List String) (rows : List Row) : List Row :=
  isort (fun a b => keyLe (keyOf ks a) (keyOf ks b)) rows

/-- duplicates removed (keeps the last occurrence of each element; only used before sorting) -/
def dedup {α : Type} [DecidableEq α] : List α → List α
  | [] => []
  | a :: l => if a ∈ l then dedup l else a :: dedup l

/-- duplicates removed, first occurrences kept, order kept
```
cvs_seen = set()
for v in cvs_orig:
    if v not in cvs_seen: cvs.append(v); cvs_seen.add(v)
``` -/
def dedupFirst {α : Type} [DecidableEq α] : List α → List α
  | [] => []
  | a :: l => a :: (dedupFirst l).filter (fun b => b ≠ a)

/-- a key tuple without missing cells (`groupby` drops the others: `dropna=True` is the Pandas default) -/
def noNull (k : List Val) : Bool := k.all (fun v => v ≠ .null)

/-- `for k, v in data.groupby(ks)` : the distinct null-free key tuples in ascending order, each with its rows
in original order. -/
def groups (ks : List String) (rows : List Row) : List (List Val × List Row) :=
  let keys := isort keyLe (dedup ((rows.map (keyOf ks)).filter noNull))
  keys.map fun k => (k, rows.filter fun r => keyOf ks r = k)

/-- `table_is_keyed_by_columns` (pandas_base.py):
```
if table.shape[0] < 2: return True
if column_names is None: return False
missing_columns = set(column_names) - set(table.columns)
if len(missing_columns) > 0: return False
if len(column_names) < 1: return False
counts = table.groupby(column_names, observed=True, dropna=False).size()
return max(counts) <= 1
```
`dropna=False`: rows with a null key cell are counted too (null cells compare equal to each other).
The result type keeps `Except` for the callers' uniform error plumbing; this function itself never raises. -/
def tableIsKeyedBy (t : Table) (ks : List String) : Except Err Bool :=
  if t.rows.length < 2 then .ok true
  else if ¬ (∀ c ∈ ks, c ∈ t.cols) then .ok false
  else if ks = [] then .ok false
  else .ok (decide (t.rows.map (keyOf ks)).Nodup)

/-! ## RecordSpecification -/

/-- the text of a control-table cell used as a column name (`NaN` label when the merge found no row) -/
def Val.toName : Val → String
  | .str s => s
  | .num i => toString i
  | .null => "nan"

/-- A constructed `RecordSpecification`: `control_table`, `record_keys`, `control_table_keys`, `strict`.
`content_keys`, `row_columns`, `block_columns` are functions of these (below). -/
structure Spec where
  ct : Table
  recordKeys : List String
  ctKeys : List String
  strict : Bool
  deriving DecidableEq, Repr

/-- control-table columns that are not keys (the value columns of the block form), in control-table order -/
def Spec.valueCols (s : Spec) : List String := s.ct.cols.filter (fun c => c ∉ s.ctKeys)

/-- `cvs` before de-duplication: column by column, row by row
```
for c in self.control_table.columns:
    if c not in self.control_table_keys:
        for i in range(len(col)): cvs.append(col[i])
``` -/
def Spec.rawContent (s : Spec) : List String :=
  s.valueCols.flatMap fun c => s.ct.rows.map fun r => (look r c).toName

/-- `self.content_keys` (equal to `rawContent` for a strict specification: the constructor rejects duplicates) -/
def Spec.contentKeys (s : Spec) : List String := dedupFirst s.rawContent

/-- `self.row_columns = self.record_keys + cvs` -/
def Spec.rowColumns (s : Spec) : List String := s.recordKeys ++ s.contentKeys

/-- `self.block_columns = self.record_keys + list(self.control_table.columns)` -/
def Spec.blockColumns (s : Spec) : List String := s.recordKeys ++ s.ct.cols

def isStr : Val → Bool
  | .str _ => true
  | _ => false

/-- The per-column check of the constructor's content loop; `none` = passed.
```
isnull = local_data_model.bad_column_positions(col)
if any(isnull): raise ValueError("column " + c + " has null(s)")
for i in range(len(col)):
    v = col[i]
    assert isinstance(v, str)
    assert len(v) > 0
``` -/
def checkValueCol (ct : Table) (c : String) : Option Err :=
  let cells := ct.rows.map (fun r => look r c)
  if cells.any (fun v => v = .null) then some .ValueError
  else if cells.any (fun v => !isStr v || v = .str "") then some .AssertionError
  else none

/-- first failing column wins (the loop runs column by column) -/
def checkValueCols (ct : Table) : List String → Option Err
  | [] => none
  | c :: cs => match checkValueCol ct c with
    | some e => some e
    | none => checkValueCols ct cs

/-- `RecordSpecification.__init__` (cdata.py), check by check, in the code's order. `ctKeys = none` is the
default (`[first column]` for a multi-row control table, `[]` for a single row). -/
def mkSpec (ct : Table) (recordKeys : List String) (ctKeys : Option (List String)) (strict : Bool) :
    Except Err Spec :=
  -- if control_table.shape[0] < 1: raise ValueError
  if ct.rows.length < 1 then .error .ValueError else
  -- if control_table.shape[1] < 2: raise ValueError
  if ct.cols.length < 2 then .error .ValueError else
  -- if len(control_table.columns) != len(set(control_table.columns)): raise ValueError
  if ¬ ct.cols.Nodup then .error .ValueError else
  let ck : List String := match ctKeys with
    | some k => k
    | none => if ct.rows.length > 1 then ct.cols.take 1 else []
  -- if strict: if control_table.shape[0] > 1: assert len(keys) > 0; assert table_is_keyed_by_columns(...)
  let strictCheck : Except Err Unit :=
    if strict ∧ ct.rows.length > 1 then
      if ck = [] then .error .AssertionError else
      match tableIsKeyedBy ct ck with
      | .error e => .error e
      | .ok false => .error .AssertionError
      | .ok true => .ok ()
    else .ok ()
  match strictCheck with
  | .error e => .error e
  | .ok () =>
  -- if self.control_table.shape[0] > 1: if len(control_table_keys) <= 0: raise ValueError
  if ct.rows.length > 1 ∧ ck = [] then .error .ValueError else
  -- unknown = set(self.control_table_keys) - set(control_table.columns)
  if ¬ (∀ k ∈ ck, k ∈ ct.cols) then .error .ValueError else
  -- if len(self.control_table_keys) >= control_table.shape[1]: raise ValueError
  if ck.length ≥ ct.cols.length then .error .ValueError else
  -- confused = set(record_keys).intersection(control_table_keys)
  if recordKeys.any (fun k => k ∈ ck) then .error .ValueError else
  -- for ck in self.control_table_keys: if any(bad_column_positions(control_table[ck])): raise ValueError
  if ck.any (fun k => ct.rows.any (fun r => look r k = .null)) then .error .ValueError else
  -- if not table_is_keyed_by_columns(control_table, control_table_keys): raise ValueError
  match tableIsKeyedBy ct ck with
  | .error e => .error e
  | .ok false => .error .ValueError
  | .ok true =>
  let s : Spec := ⟨ct, recordKeys, ck, strict⟩
  match checkValueCols ct s.valueCols with
  | some e => .error e
  | none =>
  -- confused = set(record_keys).intersection(cvs)
  if recordKeys.any (fun k => k ∈ s.rawContent) then .error .ValueError else
  -- if len(set(cvs)) != len(cvs): if strict: raise ValueError("duplicate content keys")
  if ¬ s.rawContent.Nodup ∧ strict then .error .ValueError else
  .ok s

/-! ## blocks_to_rowrecs / rowrecs_to_blocks (Pandas) -/

/-- `keying.merge(control_table, on=control_table_keys, how="left")` : the control-table row with this key
(the constructor made the control table keyed, so there is at most one) -/
def ctRowFor (s : Spec) (key : List Val) : Option Row :=
  s.ct.rows.find? (fun cr => keyOf s.ctKeys cr = key)

/-- `keys.iloc[0, i]` : the new name of value column `vc` for the block with that control row;
a block key absent from the control table yields the label `NaN`. -/
def nameOf (cr : Option Row) (vc : String) : String :=
  match cr with
  | some r => (look r vc).toName
  | none => "nan"

def Val.kind : Val → Nat
  | .null => 0
  | .num _ => 1
  | .str _ => 2

/-- pandas `merge` refuses to join a numeric key column with a string one ("You are trying to merge on int64 and
str columns", ValueError).  Column dtypes are not part of the model; for kind-uniform key columns (the generated
scope) the dtype test is: the block's key cell has a kind that no cell of the control table's key column has. -/
def mergeKindClash (s : Spec) (key : List Val) : Bool :=
  (s.ctKeys.zip key).any fun kv => s.ct.rows.all fun cr => (look cr kv.1).kind != kv.2.kind

/-- `pd.concat(frames, axis=1)` of frames with the same number of rows (the code asserts it) -/
def hcat : List (List Row) → List Row
  | [] => []
  | [f] => f
  | f :: fs => List.zipWith (· ++ ·) f (hcat fs)

/-- the tail of `blocks_to_rowrecs` once the groups `g0 :: rest` (key, rows) are known to be equally long:
```
if len(record_keys) > 0:
    split = [s.sort_values(by=record_keys) for s in split];  sk = split[0][record_keys]
split = [limit_and_rename_cols(s) for s in split]     # value columns renamed through the control row
res = pd.concat([sk] + split, axis=1)                 # (without sk when there are no record keys)
if len(record_keys) > 0: res = res.sort_values(by=record_keys)
```
With no record keys `sk` is a frame without columns and the sorts are the identity (stable sort, all keys equal),
so the two branches of the code coincide with the single expression below. -/
def assembleRowRecs (s : Spec) (g0 : List Val × List Row) (rest : List (List Val × List Row)) : Table :=
  let split := (g0 :: rest).map fun g => (g.1, sortBy s.recordKeys g.2)
  let sk := (sortBy s.recordKeys g0.2).map (proj s.recordKeys)
  let renamed := split.map fun g =>
    g.2.map fun r => s.valueCols.map fun vc => (nameOf (ctRowFor s g.1) vc, look r vc)
  let cols := s.recordKeys ++ split.flatMap fun g => s.valueCols.map (nameOf (ctRowFor s g.1))
  ⟨cols, sortBy s.recordKeys (hcat (sk :: renamed))⟩

/-- `PandasModelBase.blocks_to_rowrecs`:
```
data = data.loc[:, blocks_in.block_columns]
if data.shape[0] < 1: return DataFrame({c: [] for c in blocks_in.row_columns})
if not table_is_keyed_by_columns(data, record_keys + control_table_keys): raise ValueError
split = [v for k, v in data.groupby(control_table_keys)]
for i in range(1, len(split)): assert split[i].shape[0] == split[0].shape[0]
... (see `assembleRowRecs`; `limit_and_rename_cols` merges each block's key with the control table)
``` -/
def blocksToRows (s : Spec) (data : Table) : Except Err Table :=
  if s.ctKeys = [] then .error .AssertionError else
  match data.select s.blockColumns with
  | .error e => .error e
  | .ok d =>
    if d.rows = [] then .ok ⟨s.rowColumns, []⟩ else
    match tableIsKeyedBy d (s.recordKeys ++ s.ctKeys) with
    | .error e => .error e
    | .ok false => .error .ValueError
    | .ok true =>
      match groups s.ctKeys d.rows with
      | [] =>  -- only a single row with a null control key gets here
        if s.recordKeys = [] then .error .ValueError /- "No objects to concatenate" -/
        else .error .IndexError /- split[0] -/
      | g0 :: rest =>
        if rest.any (fun g => g.2.length != g0.2.length) then .error .AssertionError else
        if (g0 :: rest).any (fun g => mergeKindClash s g.1) then .error .ValueError else
        .ok (assembleRowRecs s g0 rest)

/-- one output row of `extract_rows(i)`: record keys, the control row's key cells, and under each value column
the cell of the incoming row named by the control row -/
def blockRow (s : Spec) (cr : Row) (r : Row) : Row :=
  proj s.recordKeys r ++ proj s.ctKeys cr ++ s.valueCols.map fun vc => (vc, look r (look cr vc).toName)

/-- `PandasModelBase.rowrecs_to_blocks`:
```
data = data.loc[:, blocks_out.row_columns]
if data.shape[0] < 1: return DataFrame({c: [] for c in blocks_out.block_columns})
if not table_is_keyed_by_columns(data, record_keys): raise ValueError
rows = [extract_rows(i) for i in range(ct.shape[0])]   # record keys + control keys of row i + renamed values
res = pd.concat(rows, axis=0)
res = res.sort_values(by=record_keys + control_table_keys)
``` -/
def rowsToBlocks (s : Spec) (data : Table) : Except Err Table :=
  if s.ctKeys = [] then .error .AssertionError else
  match data.select s.rowColumns with
  | .error e => .error e
  | .ok d =>
    if d.rows = [] then .ok ⟨s.blockColumns, []⟩ else
    match tableIsKeyedBy d s.recordKeys with
    | .error e => .error e
    | .ok false => .error .ValueError
    | .ok true =>
      let rows := s.ct.rows.flatMap fun cr => d.rows.map (blockRow s cr)
      .ok ⟨s.recordKeys ++ s.ctKeys ++ s.valueCols, sortBy (s.recordKeys ++ s.ctKeys) rows⟩

/-! ## RecordMap -/

/-- A constructed `RecordMap` (`blocks_in`, `blocks_out`, `strict`); `none` = row records. -/
structure RecordMap where
  blocksIn : Option Spec
  blocksOut : Option Spec
  strict : Bool
  deriving DecidableEq, Repr

/-- `if blocks.control_table.shape[0] <= 1: blocks = None` (after `assert blocks.strict` when strict) -/
def normSide (b : Option Spec) (strict : Bool) : Except Err (Option Spec) :=
  match b with
  | none => .ok none
  | some s =>
    if strict ∧ ¬ s.strict then .error .AssertionError
    else if s.ct.rows.length ≤ 1 then .ok none else .ok (some s)

/-- `RecordMap.__init__` -/
def mkMap (blocksIn blocksOut : Option Spec) (strict : Bool) : Except Err RecordMap :=
  match normSide blocksIn strict with
  | .error e => .error e
  | .ok bi =>
  -- ck = [k for k in blocks_in.content_keys if k is not None]; duplicates -> ValueError
  if (match bi with | some a => decide (¬ a.contentKeys.Nodup) | none => false) then .error .ValueError else
  match normSide blocksOut strict with
  | .error e => .error e
  | .ok bo =>
  match bi, bo with
  | none, none => .error .ValueError
  | some a, some b =>
    -- unknown = set(blocks_out.record_keys) - set(blocks_in.record_keys)
    if ¬ (∀ k ∈ b.recordKeys, k ∈ a.recordKeys) then .error .ValueError else
    -- unknown = set(blocks_out.content_keys) - set(blocks_in.content_keys)
    if ¬ (∀ k ∈ b.contentKeys, k ∈ a.contentKeys) then .error .ValueError else
    -- if strict: assert set(blocks_out.record_keys) == set(blocks_in.record_keys)
    if strict ∧ ¬ (∀ k ∈ a.recordKeys, k ∈ b.recordKeys) then .error .AssertionError else
    .ok ⟨bi, bo, strict⟩
  | _, _ => .ok ⟨bi, bo, strict⟩

/-- `self.columns_needed` -/
def RecordMap.columnsNeeded (m : RecordMap) : List String :=
  match m.blocksIn, m.blocksOut with
  | some a, _ => a.blockColumns
  | none, some b => b.rowColumns
  | none, none => []

/-- `RecordMap.record_keys()` -/
def RecordMap.recordKeys (m : RecordMap) : List String :=
  match m.blocksIn, m.blocksOut with
  | some a, _ => a.recordKeys
  | none, some b => b.recordKeys
  | none, none => []

/-- `RecordMap.transform`:
```
unknown = set(self.columns_needed) - set(X.columns)
if len(unknown) > 0: raise ValueError
if self.blocks_in is not None:  X = blocks_to_rowrecs(X, blocks_in=self.blocks_in)
if self.blocks_out is not None: X = rowrecs_to_blocks(X, blocks_out=self.blocks_out)
``` -/
def RecordMap.transform (m : RecordMap) (x : Table) : Except Err Table :=
  if ¬ (∀ c ∈ m.columnsNeeded, c ∈ x.cols) then .error .ValueError else
  match (match m.blocksIn with | some a => blocksToRows a x | none => .ok x) with
  | .error e => .error e
  | .ok y => match m.blocksOut with
    | some b => rowsToBlocks b y
    | none => .ok y

/-- `RecordMap.inverse`: `assert self.strict; RecordMap(blocks_in=self.blocks_out, blocks_out=self.blocks_in, strict=True)` -/
def RecordMap.inverse (m : RecordMap) : Except Err RecordMap :=
  if ¬ m.strict then .error .AssertionError else mkMap m.blocksOut m.blocksIn true

/-- `RecordSpecification.map_to_rows` / `map_from_rows` -/
def Spec.mapToRows (s : Spec) : Except Err RecordMap :=
  if s.ct.rows.length ≤ 1 then .error .ValueError else mkMap (some s) none s.strict
def Spec.mapFromRows (s : Spec) : Except Err RecordMap :=
  if s.ct.rows.length ≤ 1 then .error .ValueError else mkMap none (some s) s.strict

/-- `RecordMap.example_input(value_suffix, record_key_suffix)`: the incoming control table with every value cell
`c` replaced by `f"{c}{value_suffix}"` (row form: one row whose cells are `f"{column}{value_suffix}"`), and the
record key columns, holding `f"{k}{record_key_suffix}"`, in front. -/
def RecordMap.exampleInput (m : RecordMap) (valueSuffix recordKeySuffix : String) : Table :=
  let rk := m.recordKeys
  let ex : Table := match m.blocksIn, m.blocksOut with
    | some a, _ =>
      ⟨a.ct.cols, a.ct.rows.map fun cr => a.ct.cols.map fun c =>
        (c, if c ∈ a.ctKeys then look cr c else .str ((look cr c).toName ++ valueSuffix))⟩
    | none, some b =>
      let cs := b.rowColumns.filter (fun k => k ∉ rk)
      ⟨cs, [cs.map fun k => (k, .str (k ++ valueSuffix))]⟩
    | none, none => ⟨[], []⟩
  if rk = [] then ex
  else ⟨rk ++ ex.cols, ex.rows.map fun r => (rk.map fun k => (k, Val.str (k ++ recordKeySuffix))) ++ r⟩

/-- `landing = {rso.iloc[0, j]: rso.columns[j] for j in range(rso.shape[1])}` looked up at `v`
(a later column wins, as in a dict comprehension) -/
def landing (rso : Table) (v : Val) : Option String :=
  match rso.rows with
  | [] => none
  | r0 :: _ => rso.cols.reverse.find? (fun c => look r0 c = v)

/-- the repaired block of `compose` for a row-form result: every value cell of `rsi` is renamed to the
outgoing column it lands in; a cell that lands nowhere raises ValueError. -/
def renameThroughLanding (rsi rso : Table) (ctKeys : List String) : Except Err Table :=
  let valueCols := rsi.cols.filter (fun c => c ∉ ctKeys)
  if rsi.rows.any (fun r => valueCols.any (fun c => (landing rso (look r c)).isNone)) then .error .ValueError
  else .ok ⟨rsi.cols, rsi.rows.map fun r => rsi.cols.map fun c =>
    (c, if c ∈ ctKeys then look r c else
      match landing rso (look r c) with
      | some n => .str n
      | none => look r c)⟩

def sameSet (a b : List String) : Bool := a.all (fun x => x ∈ b) && b.all (fun x => x ∈ a)

/-- `RecordMap.compose` (`s2.compose(s1)`, also `s1 >> s2`), as repaired by fixes/cdata-compose-row-forms.diff:
```
rk = s1.record_keys()
if set(rk) != set(s2.record_keys()): raise ValueError
inp = s1.example_input(value_suffix="")
out = s2.transform(s1.transform(inp))
rsi = inp.drop(rk, axis=1); rso = out.drop(rk, axis=1)
strict = self.strict and other.strict
if inp.shape[0] >= 2 and out.shape[0] < 2:  rsi = <value cells renamed through landing, ValueError if lost>
if inp.shape[0] < 2:
    if out.shape[0] < 2: return None
    return RecordMap(blocks_out=RecordSpecification(rso, record_keys=rk,
                     control_table_keys=s2.blocks_out.control_table_keys, strict=strict), strict=strict)
if out.shape[0] < 2:
    return RecordMap(blocks_in=RecordSpecification(rsi, rk, s1.blocks_in.control_table_keys, strict), strict=strict)
return RecordMap(blocks_in=RecordSpecification(rsi, …), blocks_out=RecordSpecification(rso, …), strict=strict)
``` -/
def compose (s2 s1 : RecordMap) : Except Err (Option RecordMap) :=
  let rk := s1.recordKeys
  if ¬ sameSet rk s2.recordKeys then .error .ValueError else
  let inp := s1.exampleInput "" " record key"
  match s1.transform inp with
  | .error e => .error e
  | .ok mid =>
  match s2.transform mid with
  | .error e => .error e
  | .ok out =>
  let rsi := inp.drop rk
  let rso := out.drop rk
  let strict := s2.strict && s1.strict
  let ckIn : Except Err (List String) := match s1.blocksIn with
    | some a => .ok a.ctKeys | none => .error .AttributeError
  let ckOut : Except Err (List String) := match s2.blocksOut with
    | some b => .ok b.ctKeys | none => .error .AttributeError
  if inp.rows.length < 2 then
    if out.rows.length < 2 then .ok none else
    match ckOut with
    | .error e => .error e
    | .ok cko =>
    match mkSpec rso rk (some cko) strict with
    | .error e => .error e
    | .ok bo => match mkMap none (some bo) strict with
      | .error e => .error e
      | .ok m => .ok (some m)
  else
    match ckIn with
    | .error e => .error e
    | .ok cki =>
    if out.rows.length < 2 then
      match renameThroughLanding rsi rso cki with
      | .error e => .error e
      | .ok rsi' =>
      match mkSpec rsi' rk (some cki) strict with
      | .error e => .error e
      | .ok bi => match mkMap (some bi) none strict with
        | .error e => .error e
        | .ok m => .ok (some m)
    else
      match mkSpec rsi rk (some cki) strict with
      | .error e => .error e
      | .ok bi =>
      match ckOut with
      | .error e => .error e
      | .ok cko =>
      match mkSpec rso rk (some cko) strict with
      | .error e => .error e
      | .ok bo => match mkMap (some bi) (some bo) strict with
        | .error e => .error e
        | .ok m => .ok (some m)

end DAVerif.CData
