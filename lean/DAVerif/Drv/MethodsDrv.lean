import DAVerif.Drv.OpsJson
import DAVerif.Sem.ThetaC05
import DAVerif.Spec.DocSem
/-!
Driver suite `k1_methods` (C05): one single-method pipeline = one function symbol applied to every row / group /
window of a small table.  Answers, for the same case the harness runs on the real code,

  "vals": what the backend model computes (`ThetaX` for pandas, `ThetaSqlX` for sqlite)
  "doc" : what the documentation determines (`Doc.docScalar/docAgg/docWin`), `{"undef": true}` where it determines nothing

Case: {"backend", "mop", "cls", "args": [["c", i] | ["k", Val] | ["l", [Val..]] | ["d", [[Val, Val]..]]] | null,
       "chain": sep?, "cargs": [Val..]?, "ints": bool?, "rows": [[Val..]..] | "groups": [[key, [Val..]]..], "ungrouped": bool?}
-/
namespace DAVerif.Drv.MethodsDrv
open Lean DAVerif DAVerif.Drv

inductive ArgSpec where
  | col (i : Nat)
  | const (a : ArgV)

def argSpecOfJson (j : Json) : Except String ArgSpec := do
  match (← j.getArr?).toList with
  | [.str "c", i] => return .col (← i.getNat?)
  | [.str "k", v] => return .const (.v (← valOfJson v))
  | [.str "l", l] => return .const (.l (← (← l.getArr?).toList.mapM valOfJson))
  | [.str "d", d] => do
    let kvs ← (← d.getArr?).toList.mapM fun kv => do
      match (← kv.getArr?).toList with
      | [k, v] => return (← valOfJson k, ← valOfJson v)
      | _ => throw "bad dict entry"
    return .const (.d kvs)
  | _ => throw "bad arg spec"

def mkArgs (spec : List ArgSpec) (row : List Val) : List ArgV :=
  spec.map fun s => match s with
    | .col i => .v (row.getD i .null)
    | .const a => a

def docToJson : Option Val → Json
  | some v => valToJson v
  | none => Json.mkObj [("undef", .bool true)]

structure Backend where
  scalar : String → List ArgV → Val
  agg : String → List Val → Val
  win : String → List Val → List Val → Nat → Val

def backendOf (name : String) (ints : Bool) : Except String Backend :=
  match name with
  | "pandas" => .ok ⟨ThetaX.scalar, ThetaX.agg, ThetaX.win⟩
  | "sqlite" => .ok ⟨ThetaSqlX.scalar ints, ThetaSqlX.agg, ThetaSqlX.win⟩
  | "shared_pandas" => .ok ⟨Theta.scalar, Theta.agg, Theta.win⟩
  | "shared_sqlite" => .ok ⟨ThetaSql.scalar, ThetaSql.agg, ThetaSql.win⟩
  | b => .error s!"no model for backend {b}"

/-- the argument cells of an aggregate / window over a group: the group's column, a constant, or (zero arguments) ones -/
def groupValues (spec : List ArgSpec) (items : List Val) : List Val :=
  match spec with
  | .col _ :: _ => items
  | .const (.v c) :: _ => items.map (fun _ => c)
  | _ => items.map (fun _ => Val.num 1)

def run (c : Json) : Except String Json := do
  let backend ← str c "backend"
  let op ← str c "mop"
  let cls ← str c "cls"
  let ints := (bool c "ints").toOption.getD false
  let b ← backendOf backend ints
  let cargs ← match optKey c "cargs" with
    | some a => (← a.getArr?).toList.mapM valOfJson
    | none => pure []
  match optKey c "rows" with
  | some rowsJ => do
    let rows ← (← rowsJ.getArr?).toList.mapM fun r => do (← r.getArr?).toList.mapM valOfJson
    match optKey c "chain" with
    | some sepJ => do
      -- `s %+% sep %+% t` = concat(concat(s, sep), t)
      let sep ← sepJ.getStr?
      let vals := rows.map fun r =>
        b.scalar op [.v (b.scalar op [.v (r.getD 0 .null), .v (.str sep)]), .v (r.getD 1 .null)]
      let docs := rows.map fun r =>
        match Doc.docScalar op [.v (r.getD 0 .null), .v (.str sep)] with
        | some x => Doc.docScalar op [.v x, .v (r.getD 1 .null)]
        | none => none
      return Json.mkObj [("vals", Json.arr (vals.map valToJson).toArray), ("doc", Json.arr (docs.map docToJson).toArray)]
    | none => do
      let spec ← (← arr c "args").toList.mapM argSpecOfJson
      let vals := rows.map fun r => b.scalar op (mkArgs spec r)
      let docs := rows.map fun r => Doc.docScalar op (mkArgs spec r)
      return Json.mkObj [("vals", Json.arr (vals.map valToJson).toArray), ("doc", Json.arr (docs.map docToJson).toArray)]
  | none => do
    let spec ← (← arr c "args").toList.mapM argSpecOfJson
    let groups ← (← arr c "groups").toList.mapM fun g => do
      match (← g.getArr?).toList with
      | [_, items] => (← items.getArr?).toList.mapM valOfJson
      | _ => throw "bad group"
    let ungrouped := (bool c "ungrouped").toOption.getD false
    if cls == "p" || cls == "up" then
      let gs := if ungrouped then [groups.flatten] else groups
      let vals := gs.map fun g => b.agg op (groupValues spec g)
      let docs := gs.map fun g => Doc.docAgg op (groupValues spec g)
      return Json.mkObj [("vals", Json.arr (vals.map valToJson).toArray), ("doc", Json.arr (docs.map docToJson).toArray)]
    else
      let per := fun (g : List Val) =>
        let vs := groupValues spec g
        (List.range g.length).map fun pos => (b.win op cargs vs pos, Doc.docWin op cargs vs pos)
      let all := groups.flatMap per
      return Json.mkObj [("vals", Json.arr (all.map (fun p => valToJson p.1)).toArray),
                         ("doc", Json.arr (all.map (fun p => docToJson p.2)).toArray)]

def handlers : List (String × Handler) := [("k1_methods", run)]

end DAVerif.Drv.MethodsDrv
