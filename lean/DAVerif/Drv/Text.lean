import DAVerif.Drv.Util
import DAVerif.Text.Quote
import DAVerif.Text.Lex
/-! Driver suites of C14: `quote` (the code's quoting functions), `lex` (the dialect lexer models, validated
against SQLite and Spark). -/
namespace DAVerif.Drv.TextDrv
open Lean DAVerif.Drv DAVerif.Text

def parseDialect (s : String) : Except String Dialect :=
  match s with
  | "sqlite" => pure .sqlite
  | "postgres" => pure .postgres
  | "mysql" => pure .mysql
  | "spark" => pure .spark
  | "bigquery" => pure .bigquery
  | o => throw s!"bad-op dialect {o}"

def chars (j : Json) (k : String) : Except String (List Char) := do return (← str j k).toList
def out (l : List Char) : Json := Json.str (String.ofList l)
def charsList (j : Json) (k : String) : Except String (List (List Char)) := do
  let a ← arr j k
  a.toList.mapM fun x => do return (← x.getStr?).toList

def errName : Err → String
  | .valueError => "ValueError" | .assertionError => "AssertionError" | .typeError => "TypeError"

def res (r : Except Err Json) : Json :=
  match r with
  | .ok j => Json.mkObj [("ok", j)]
  | .error e => Json.mkObj [("err", errName e)]

partial def parseVal (j : Json) : Except String PyVal :=
  match j with
  | .null => pure .none
  | .bool b => pure (.bool b)
  | _ =>
    match j.getObjVal? "i", j.getObjVal? "s", j.getObjVal? "f", j.getObjVal? "l" with
    | .ok i, _, _, _ => do return .int (← i.getInt?)
    | _, .ok s, _, _ => do return .str (← s.getStr?).toList
    | _, _, .ok f, _ => do return .float (← f.getStr?).toList
    | _, _, _, .ok l => do
      let a ← l.getArr?
      return .list (← a.toList.mapM parseVal)
    | _, _, _, _ => throw "bad-op value"

def parseSpec (j : Json) : Except String RecSpec := do
  let rows ← arr j "rows"
  let rows ← rows.toList.mapM fun r => do
    let a ← r.getArr?
    a.toList.mapM fun x => do return (← x.getStr?).toList
  return { recordKeys := ← charsList j "record_keys", controlKeys := ← charsList j "control_keys",
           cols := ← charsList j "cols", rows := rows }

def linesOut (l : List (List Char)) : Json := Json.arr (l.toArray.map out)
def pairOut (p : List (List Char) × List (List Char)) : Json :=
  Json.mkObj [("pre", linesOut p.1), ("suf", linesOut p.2)]

def handleQuote (c : Json) : Except String Json := do
  let d ← parseDialect (← str c "d")
  match ← str c "fn" with
  | "quote_string" => return res (.ok (out (quoteString d (← chars c "s"))))
  | "quote_identifier" => return res ((quoteIdent d (← chars c "s")).map out)
  | "value_to_sql" => return res (.ok (out (valueToSql d (← parseVal (← obj c "v")))))
  | "clean_annotation" => return res (.ok (out (cleanAnnotation (← chars c "s"))))
  | "select_line" => return res (.ok (out (annotatedSelectLine (← chars c "s"))))
  | "table_values" =>
    let sp ← parseSpec (← obj c "spec")
    return res ((tableValuesToSql d sp.cols sp.rows).map linesOut)
  | "row_recs_to_blocks" => return res ((rowRecsToBlocks d (← parseSpec (← obj c "spec"))).map pairOut)
  | "blocks_to_row_recs" => return res ((blocksToRowRecs d (← parseSpec (← obj c "spec"))).map pairOut)
  | f => throw s!"bad-op {f}"

def tokOut : Tok → Json
  | .str s => Json.mkObj [("str", out s)]
  | .ident s => Json.mkObj [("ident", out s)]
  | .word w => Json.mkObj [("word", out w)]
  | .num n => Json.mkObj [("num", toJson n)]
  | .sym c => Json.mkObj [("sym", out [c])]

/-- `kind = "str"`: the text is one string literal (plus white space / comments) → its value;
`kind = "ident"`: one quoted identifier; `kind = "tokens"`: the whole token stream. -/
def handleLex (c : Json) : Except String Json := do
  let d ← parseDialect (← str c "d")
  let t ← chars c "t"
  match ← str c "kind" with
  | "str" =>
    match lexSql d t with
    | some [.str s] => return Json.mkObj [("ok", out s)]
    | _ => return Json.str "err"
  | "ident" =>
    match lexSql d t with
    | some [.ident s] => return Json.mkObj [("ok", out s)]
    | _ => return Json.str "err"
  | "tokens" =>
    match lexSql d t with
    | some l => return Json.mkObj [("ok", Json.arr (l.toArray.map tokOut))]
    | none => return Json.str "err"
  | k => throw s!"bad-op {k}"

/-- end to end: quote with the model of the code, read back with the model of the dialect.
`kind = "str"`: `SELECT (<quote_string(s)>\n)`; `kind = "ident"`: `SELECT 1 AS <quote_identifier(s)>\n`. -/
def handleQuoteLex (c : Json) : Except String Json := do
  let d ← parseDialect (← str c "d")
  let s ← chars c "s"
  match ← str c "kind" with
  | "str" =>
    let t := quoteString d s
    let v : Json := match lexSql d t with
      | some [.str r] => Json.mkObj [("ok", out r)]
      | _ => Json.str "err"
    return Json.mkObj [("t", out t), ("v", v)]
  | "ident" =>
    match quoteIdent d s with
    | .error e => return Json.mkObj [("err", errName e)]
    | .ok t =>
      let v : Json := match lexSql d t with
        | some [.ident r] => Json.mkObj [("ok", out r)]
        | _ => Json.str "err"
      return Json.mkObj [("t", out t), ("v", v)]
  | k => throw s!"bad-op {k}"

def handlers : List (String × Handler) :=
  [("quote", handleQuote), ("lex", handleLex), ("quote_lex", handleQuoteLex)]

end DAVerif.Drv.TextDrv
