import DAVerif.Drv.OpsJson
import DAVerif.Ops.UsedDag
/-! Driver suite `k3_used_dag`: `columns_used()` of a pipeline with shared node objects.
Case: `{"ops": Tree, "ids": {"id": n, "kids": [..]}}` (ids parallel to the tree, one number per Python object).
Answer: `{"ok": {table: [cols]}}`, `{"err": class}` or `{"bad_ids": true}` when the ids do not fit the tree. -/
namespace DAVerif.Drv.UsedDagDrv
open Lean DAVerif DAVerif.Drv DAVerif.Ops

partial def idsOfJson (j : Json) : Except String IdTree := do
  let i ← nat j "id"
  let kids ← arr j "kids"
  match kids.toList with
  | [] => return .leaf i
  | [k] => return .un i (← idsOfJson k)
  | [a, b] => return .bin i (← idsOfJson a) (← idsOfJson b)
  | _ => throw "ids: more than two kids"

def handleUsedDag (c : Json) : Except String Json := do
  let ops ← opsOfJson (← obj c "ops")
  let ids ← idsOfJson (← obj c "ids")
  if !(idsConsistent ops ids) then return Json.mkObj [("bad_ids", .bool true)]
  match columnsUsedShared ops ids with
  | .ok u => return Json.mkObj [("ok", Json.mkObj (u.map (fun kv => (kv.1, strListOut kv.2))))]
  | .error e => return errToJson e

def handlers : List (String × Handler) := [("k3_used_dag", handleUsedDag)]

end DAVerif.Drv.UsedDagDrv
