import DAVerif.Drv.TermJson
import DAVerif.Expr.Print
import DAVerif.Expr.Parse
import DAVerif.Expr.Canon
import DAVerif.Generated.ExprTables
/-!
Driver suites of the expression layer (C13, expression part of C12):

* `expr_walk`   {"cols": [...], "tree": Cst}      → {"ok": Term} | {"err": class}     `_walk_lark_tree` + the final assert
* `expr_parse`  {"toks": [Tok…]}                  → {"ok": Cst} | {"err": "syntax"|"unsupported"|"fuel"}
* `expr_print`  {"term": Term}                    → {"text": str, "toks": [[kind, text]…]}
* `expr_rt`     {"cols": [...], "term": Term}     → walk (parse (printToks term)) as `expr_walk` answers

  Cst := {"t": rule, "ch": [Cst…]} | {"k": LARK_TERMINAL, "s": text} | null
-/
namespace DAVerif.Drv.ExprDrv
open Lean DAVerif DAVerif.Drv DAVerif.Expr DAVerif.Drv.TermJson

/-- lark terminal name → token kind (every punctuation / keyword / anonymous terminal is `op`) -/
def kindOfLark : String → TokKind
  | "NAME" => .name
  | "DEC_NUMBER" => .dec
  | "FLOAT_NUMBER" => .float
  | "STRING" => .string
  | "LONG_STRING" => .lstring
  | "HEX_NUMBER" | "OCT_NUMBER" | "BIN_NUMBER" | "IMAG_NUMBER" => .other
  | _ => .op

def kindName : TokKind → String
  | .name => "NAME" | .dec => "DEC_NUMBER" | .float => "FLOAT_NUMBER" | .string => "STRING"
  | .lstring => "LONG_STRING" | .other => "OTHER_NUMBER" | .op => "OP"

def tokOfJson (j : Json) : Except String Token := do
  return ⟨kindOfLark (← str j "k"), ← str j "s"⟩

def tokToJson (t : Token) : Json := Json.mkObj [("k", Json.str (kindName t.kind)), ("s", Json.str t.text)]

partial def cstOfJson (j : Json) : Except String Cst :=
  match j with
  | Json.null => .ok .none
  | _ =>
    match j.getObjVal? "t" with
    | .ok r => do
      let ch ← arr j "ch"
      return .node (← r.getStr?) (← ch.toList.mapM cstOfJson)
    | .error _ => do return .tok (← tokOfJson j)

partial def cstToJson : Cst → Json
  | .none => Json.null
  | .tok t => tokToJson t
  | .node r ch => Json.mkObj [("t", Json.str r), ("ch", Json.arr (ch.map cstToJson).toArray)]

def outcome (r : Expr.R Term) : Json :=
  match r with
  | .ok t => Json.mkObj [("ok", termToJson t)]
  | .error e => Json.mkObj [("err", Json.str e.name)]

def handleWalk (c : Json) : Except String Json := do
  let cols ← strList (← obj c "cols")
  let tree ← cstOfJson (← obj c "tree")
  return outcome (walkTop (Generated.env cols) tree)

def perrName : PErr → String
  | .syntax => "syntax" | .fuel => "fuel" | .unsupported => "unsupported"

def handleParse (c : Json) : Except String Json := do
  let toks ← (← arr c "toks").toList.mapM tokOfJson
  match parseToks toks with
  | .ok t => return Json.mkObj [("ok", cstToJson t)]
  | .error e => return Json.mkObj [("err", Json.str (perrName e))]

def handlePrint (c : Json) : Except String Json := do
  let t ← termOfJson (← obj c "term")
  return Json.mkObj [("text", Json.str (printText t)),
    ("toks", Json.arr ((printToks t).map fun k => Json.arr #[Json.str (kindName k.kind), Json.str k.text]).toArray)]

def handleRoundTrip (c : Json) : Except String Json := do
  let cols ← strList (← obj c "cols")
  let t ← termOfJson (← obj c "term")
  match parseToks (printToks t) with
  | .ok cst => return outcome (walkTop (Generated.env cols) cst)
  | .error e => return Json.mkObj [("err", Json.str ("parse-" ++ perrName e))]

/-- the statements of `C13_print_parse` / `C13_walk_wf` evaluated on one term: is it well-formed, are the printed
tokens `tk`, do they parse to `cst t`, does `cst t` walk back to `t` -/
def handleCanon (c : Json) : Except String Json := do
  let cols ← strList (← obj c "cols")
  let t ← termOfJson (← obj c "term")
  let env := Generated.env cols
  let parseOk := match parseToks (tk t false) with
    | .ok x => x == cst t
    | .error _ => false
  return Json.mkObj [("wf", Json.bool (wf env t)), ("tk", Json.bool (tk t false == printToks t)),
    ("parse", Json.bool parseOk), ("walk", Json.bool (okEq (walk env (cst t)) t))]

def handlers : List (String × Handler) :=
  [("expr_walk", handleWalk), ("expr_parse", handleParse), ("expr_print", handlePrint), ("expr_rt", handleRoundTrip),
   ("expr_canon", handleCanon)]

end DAVerif.Drv.ExprDrv
