import DAVerif.Drv.OpsDrv
import DAVerif.Spec.Polars
/-! Driver suite `k6_polars`: the Polars executor model `semPl` with the concrete interpretation `ThetaPl`,
plus the guards (`Pl.violations`) of `C03_polars_sound_partial` evaluated on the same case. -/
namespace DAVerif.Drv.PolarsDrv
open Lean DAVerif DAVerif.Drv

def cfgOfJson (c : Json) : Pl.Cfg :=
  match optKey c "cfg" with
  | some j =>
    let b := fun k => match j.getObjVal? k with | .ok (.bool v) => v | _ => true
    ⟨b "nulls_last", b "full_coalesce_keys", b "max_propagates_null", b "nunique_drops_null"⟩
  | none => Pl.Cfg.fixed

/-- does some step raise whatever the data (method lookup / removed Polars API / cross join)? -/
partial def staticRaises : Ops → Bool
  | .table _ _ => false
  | .extend s ops _ _ _ w =>
    staticRaises s || (if w then ops.any (fun kv => aggRaises false kv.2) else ops.any (fun kv => Pl.termRaises false kv.2))
  | .project s ops _ => staticRaises s || ops.any (fun kv => aggRaises true kv.2)
  | .selectRows s e => staticRaises s || Pl.termRaises false e
  | .selectCols s _ | .dropCols s _ | .order s _ _ _ | .rename s _ | .mapCols s _ _ | .convert s _ => staticRaises s
  | .join a b oa _ jt => staticRaises a || staticRaises b || jt == .cross || oa.isEmpty
  | .concat a b _ _ _ => staticRaises a || staticRaises b

/-- model-supported fragment: the symbols whose Polars value `ThetaPl` transcribes -/
def supportedWinPl : List String := ["shift", "rank", "ffill", "bfill"] ++ Theta.supportedAgg

partial def supported : Ops → Option String
  | .table _ _ => none
  | .extend s ops _ _ _ w =>
    (supported s).orElse fun _ =>
      if w then
        if ops.all (fun kv => supportedWinPl.contains (opName kv.2)) then none else some "window op"
      else if ops.all (fun kv => OpsDrv.scalarSupported kv.2) then none else some "scalar op"
  | .project s ops _ =>
    (supported s).orElse fun _ =>
      if ops.all (fun kv => Theta.supportedAgg.contains (opName kv.2)) then none else some "aggregate op"
  | .selectRows s e => (supported s).orElse fun _ => if OpsDrv.scalarSupported e then none else some "scalar op"
  | .selectCols s _ | .dropCols s _ | .order s _ _ _ | .rename s _ | .mapCols s _ _ => supported s
  | .join a b oa ob _ =>
    (supported a).orElse fun _ => (supported b).orElse fun _ =>
      if joinKeysSane a.cols b.cols oa ob then none else some "join key spec"
  | .concat a b _ _ _ => (supported a).orElse fun _ => supported b
  | .convert _ _ => some "convert_records"

def guardsJson (vs : List Pl.GuardId) : Json :=
  strListOut ((vs.map Pl.GuardId.toStr).eraseDups)

def handlePolars (c : Json) : Except String Json := do
  let ops ← opsOfJson (← obj c "ops")
  let env ← envOfJson (← obj c "tables")
  let cfg := cfgOfJson c
  if staticRaises ops then return Json.mkObj [("err", .str "raise"), ("guards", guardsJson [])]
  match supported ops with
  | some why => return Json.mkObj [("unsupported", .str why)]
  | none =>
    let Θ := Theta.concrete OpsDrv.noConvert
    let guards := guardsJson (Pl.violations cfg Θ env ops ++ Pl.finalOrderViol cfg Θ env ops)
    match semPl cfg (ThetaPl.concrete cfg OpsDrv.noConvert) env ops with
    | .ok t => return Json.mkObj [("ok", tableToJson t), ("guards", guards)]
    | .error _ => return Json.mkObj [("err", .str "raise"), ("guards", guards)]

def handlers : List (String × Handler) := [("k6_polars", handlePolars)]

end DAVerif.Drv.PolarsDrv
