import DAVerif.Drv.Util
import DAVerif.Schema.Schema
/-!
Driver suites for data_schema (C22):
* `schema`        one decorated call: (decorator, arg specs, return spec, signature, args, kwargs, switch, what the
                  function body does) → how the call ends
* `schema_check`  `_check_spec(_prep_schema_specification(spec), value)` → message kind / null
* `schema_prep`   `_prep_schema_specification(spec)` → normalised specification
* `schema_sub`    `issubclass(a, b)` on the concrete type universe
-/
namespace DAVerif.Drv.SchemaDrv
open Lean DAVerif.Drv DAVerif.Schema

def tyNames : List (String × PyType) :=
  [("object", .object), ("bool", .bool), ("int", .int), ("float", .float), ("str", .str),
   ("NoneType", .noneType), ("np.int64", .npInt64), ("np.float64", .npFloat64), ("np.bool", .npBool),
   ("np.str", .npStr), ("np.number", .npNumber), ("np.generic", .npGeneric), ("NAType", .naType),
   ("pd.DataFrame", .pandasDF), ("pl.DataFrame", .polarsDF)]

def parseTy (s : String) : Except String PyType :=
  match tyNames.lookup s with
  | some t => pure t
  | none => throw s!"bad-op type {s}"

def tyName (t : PyType) : String := ((tyNames.find? (fun p => p.2 == t)).map (·.1)).getD "?"

def parseScalar (j : Json) : Except String (Scalar PyType) := do
  let t ← parseTy (← str j "t")
  if t == .pandasDF || t == .polarsDF then throw "bad-op frame class as scalar"
  return ⟨t, ← bool j "null"⟩

def parseValue (j : Json) : Except String (Value PyType) := do
  match optKey j "frame" with
  | some k =>
    let kind ← match k.getStr? with
      | .ok "pandas" => pure FrameKind.pandas
      | .ok "polars" => pure FrameKind.polars
      | _ => throw "bad-op frame kind"
    let nrows ← nat j "nrows"
    let cols ← (← arr j "cols").toList.mapM fun cj => do
      let a ← cj.getArr?
      if a.size != 2 then throw "bad-op column"
      let name ← a[0]!.getStr?
      let cells ← (← a[1]!.getArr?).toList.mapM parseScalar
      return (name, cells)
    let f : Frame PyType := ⟨kind, nrows, cols⟩
    if decide f.Rect then return .frame f else throw "bad-op non-rectangular frame"
  | none => return .scalar (← parseScalar j)

def parseAtom (j : Json) : Except String (Atom PyType) := do
  if j.isNull then return .none
  match optKey j "ty", optKey j "ex" with
  | some t, _ => return .ty (← parseTy (← t.getStr?))
  | _, some t => return .exampleOf (← parseTy (← t.getStr?))
  | _, _ => throw "bad-op atom"

mutual
partial def parseSpec (j : Json) : Except String (Spec PyType) := do
  match optKey j "set", optKey j "cols" with
  | some ms, _ => return .oneOf (← (← ms.getArr?).toList.mapM parseAtom)
  | _, some cs => return .frame (← parseCols cs)
  | _, _ => return .atom (← parseAtom j)
partial def parseCols (j : Json) : Except String (List (String × Spec PyType)) := do
  (← j.getArr?).toList.mapM fun cj => do
    let a ← cj.getArr?
    if a.size != 2 then throw "bad-op column spec"
    return (← a[0]!.getStr?, ← parseSpec a[1]!)
end

partial def nspecOut : NSpec PyType → Json
  | .none => Json.null
  | .ty t => Json.mkObj [("ty", tyName t)]
  | .oneOf ts => Json.mkObj [("set", Json.arr (((ts.map tyName).toArray.qsort (· < ·)).map Json.str))]
  | .frame cols => Json.mkObj [("cols", Json.arr (cols.toArray.map fun (c, s) => Json.arr #[Json.str c, nspecOut s]))]

def colIssueOut : ColIssue → Json
  | .missingColumn c => Json.arr #["missing", c]
  | .badCell c => Json.arr #["bad", c]

def msgOut : Option Msg → Json
  | none => Json.null
  | some .wrongType => Json.mkObj [("msg", "wrongType")]
  | some .notOneOf => Json.mkObj [("msg", "notOneOf")]
  | some .notAFrame => Json.mkObj [("msg", "notAFrame")]
  | some (.columns is) => Json.mkObj [("msg", "columns"), ("issues", Json.arr (is.toArray.map colIssueOut))]

def argIssueOut : ArgIssue → Json
  | .bad k => Json.arr #["bad", k]
  | .missing k => Json.arr #["missing", k]

def handleSub (c : Json) : Except String Json := do
  return toJson (PyType.sub (← parseTy (← str c "a")) (← parseTy (← str c "b")))

def handlePrep (c : Json) : Except String Json := do
  return nspecOut (normalize (← parseSpec (← obj c "spec")))

def handleCheck (c : Json) : Except String Json := do
  let s ← parseSpec (← obj c "spec")
  let v ← parseValue (← obj c "value")
  return msgOut (checkSpec (normalize s) v)

def handleCall (c : Json) : Except String Json := do
  let deco ← str c "deco"
  let argSpecs ← match optKey c "arg_specs" with
    | none => pure none
    | some j => some <$> parseCols j
  let retSpec ← parseSpec (← obj c "return_spec")
  let params ← (← arr c "params").toList.mapM fun pj => do
    let a ← pj.getArr?
    if a.size < 2 then throw "bad-op param"
    return (← a[0]!.getStr?, ← a[1]!.getStr?)
  let names := params.map (·.1)
  let npos := (params.takeWhile fun p => p.2 == "posonly" || p.2 == "pos").length
  let args ← (← arr c "args").toList.mapM parseValue
  let kwargs ← (← arr c "kwargs").toList.mapM fun kj => do
    let a ← kj.getArr?
    if a.size != 2 then throw "bad-op kwarg"
    return (← a[0]!.getStr?, ← parseValue a[1]!)
  let sw ← bool c "switch"
  let binds ← bool c "binds"
  let fj ← obj c "f"
  let setSw : Option Bool ← match optKey c "set_switch" with
    | none => pure none
    | some b => some <$> b.getBool?
  let body : Except String (Value PyType) ← match optKey fj "ret", optKey fj "raises" with
    | some r, _ => pure (.ok (← parseValue r))
    | _, some e => pure (.error (← e.getStr?))
    | _, _ => throw "bad-op f"
  -- the undecorated function: Python's own binding TypeError when the call does not bind (body not run)
  let f : PyFn PyType String := fun sw _ _ =>
    if !binds then (.error "TypeError", sw) else (body, setSw.getD sw)
  let sc := mkSchema argSpecs retSpec
  let (out, sw') ← match deco with
    | "raises" => pure (wrapped sc names f sw args kwargs)
    | "mock" => pure (mockWrapped sc f sw args kwargs)
    | d => throw s!"bad-op deco {d}"
  let guards : List Json := if decide (args.length ≤ npos) then [] else [Json.str "G1"]
  let fields : List (String × Json) := match out with
    | .returned _ => [("ok", "same")]
    | .ownRaise e => [("err", e), ("kind", "own")]
    | .argsError =>
      let issues := match sc.argSpecs with
        | some specs => (match argIssues specs names args kwargs with | .ok l => l | .error _ => [])
        | none => []
      [("err", "TypeError"), ("kind", "args"), ("issues", Json.arr (issues.toArray.map argIssueOut))]
    | .returnError => [("err", "TypeError"), ("kind", "return")]
    | .internalError .indexError => [("err", "IndexError"), ("kind", "internal")]
    | .internalError .typeError => [("err", "TypeError"), ("kind", "internal")]
  return Json.mkObj (fields ++ [("sw", toJson sw'), ("guards", Json.arr guards.toArray)])

def handlers : List (String × Handler) :=
  [("schema", handleCall), ("schema_check", handleCheck), ("schema_prep", handlePrep), ("schema_sub", handleSub)]

end DAVerif.Drv.SchemaDrv
