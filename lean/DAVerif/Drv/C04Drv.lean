import DAVerif.Drv.SqlDrv
import DAVerif.Sql.WithFormG
/-! Driver suite of C04: `c04_stub`, hand-built NearSQL trees through the generalised WITH form of Sql/WithFormG.lean. -/
namespace DAVerif.Drv.C04Drv
open Lean DAVerif DAVerif.Drv DAVerif.Sql DAVerif.Drv.SqlDrv

/-! `c04_stub`: hand-built trees over the table `d(x)` with arbitrary `ops_key`s through `toWithFormG` (code as it is; with
`"old": true` through `toWithFormOld`, the stub before fix N28); key function = `cacheKey` (`f"{ops_key}_{list(columns)}"`).
tree: `["t"]` | `["s", name, key, sub]` | `["u", name, key, l, r]` -/

partial def treeOfJson : Json → Except String Near
  | .arr a =>
    match a.toList with
    | [.str "t"] => return .table "d" ["x"]
    | [.str "s", .str name, .str key, sub] => do
      return .unary name (some [("x", STerm.pass)]) false (← treeOfJson sub) (some ["x"]) .none false none (some key)
    | [.str "u", .str name, .str key, l, r] => do
      return .union name ["x"] (← treeOfJson l) (← treeOfJson r) ["x"] (some key)
    | _ => throw "bad tree"
  | _ => throw "bad tree"

partial def cteRefs : Near → List String
  | .table .. => []
  | .cte n => [n]
  | .unary _ _ _ s .. => cteRefs s
  | .join _ _ l _ _ r .. => cteRefs l ++ cteRefs r
  | .union _ _ l r .. => cteRefs l ++ cteRefs r

def sortStrs (l : List String) : List String := l.mergeSort (fun a b => a ≤ b)

def handleStub (c : Json) : Except String Json := do
  let near ← treeOfJson (← obj c "tree")
  let cache : Option Cache := if boolOpt c "cache" true then some [] else none
  let r := if boolOpt c "old" false then toWithFormOld cacheKey cache near else toWithFormG cacheKey cache near
  return Json.mkObj [
    ("steps", Json.arr (r.2.1.map (fun st => Json.arr #[.str st.name, strListOut (sortStrs (cteRefs st.near))])).toArray),
    ("last", strListOut (sortStrs (cteRefs r.1)))]

def handlers : List (String × Handler) := [("c04_stub", handleStub)]

end DAVerif.Drv.C04Drv
