import DAVerif.Drv.SqlDrv
import DAVerif.Sql.WithFormG
/-! Driver suite of C04 for the REPAIRED `to_with_form_stub` (fixes/c04-cte-elim-lookup-before-recursion.diff):
`c04_semopt_fix` = `k5_semopt` with `semToSqlFix` (the cache is consulted before a sub-query is converted). -/
namespace DAVerif.Drv.C04Drv
open Lean DAVerif DAVerif.Drv DAVerif.Sql DAVerif.Drv.SqlDrv

def handleSqlOptFix (c : Json) : Except String Json := do
  let ops ← opsOfJson (← obj c "ops")
  let env ← envOfJson (← obj c "tables")
  let dialectPg := match optKey c "dialect" with | some (.str "postgres") => true | _ => false
  match (OpsDrv.supported ops).orElse (fun _ =>
      if dialectPg && opsMention ["is_nan", "is_inf", "is_bad"] ops then some "dialect-specific op" else none) with
  | some why => return Json.mkObj [("unsupported", .str why)]
  | none =>
    match toNearSql (cfgOfJson c) ops with
    | .error e => return errToJson e
    | .ok n =>
      match semToSqlFix ThetaSql.concrete (engineOfJson c) env (boolOpt c "use_with" true)
          (boolOpt c "cte_elim" false && dialectPg) n with
      | .ok t => return Json.mkObj [("ok", tableToJson t)]
      | .error e => return errToJson e

/-! `c04_stub`: hand-built trees over the table `d(x)` with arbitrary `ops_key`s through `toWithFormG` (code as it is)
or `toWithFormFix` (repaired stub); key function = `cacheKey` (`f"{ops_key}_{list(columns)}"`).
tree: `["t"]` | `["s", name, key, sub]` | `["u", name, key, l, r]` -/

partial def treeOfJson : Json → Except String Near
  | .arr a =>
    match a.toList with
    | [.str "t"] => return .table "d" ["x"]
    | [.str "s", .str name, .str key, sub] => do
      return .unary name (some [("x", STerm.pass)]) false (← treeOfJson sub) (some ["x"]) .none false none (some key)
    | [.str "u", .str name, .str key, l, r] => do
      return .union name ["x"] (← treeOfJson l) (← treeOfJson r) ["x"] (some key)
    | _ => throw "bad tree"
  | _ => throw "bad tree"

partial def cteRefs : Near → List String
  | .table .. => []
  | .cte n => [n]
  | .unary _ _ _ s .. => cteRefs s
  | .join _ _ l _ _ r .. => cteRefs l ++ cteRefs r
  | .union _ _ l r .. => cteRefs l ++ cteRefs r

def sortStrs (l : List String) : List String := l.mergeSort (fun a b => a ≤ b)

def handleStub (c : Json) : Except String Json := do
  let near ← treeOfJson (← obj c "tree")
  let cache : Option Cache := if boolOpt c "cache" true then some [] else none
  let r := if boolOpt c "fixed" false then toWithFormFix cacheKey cache near else toWithFormG cacheKey cache near
  return Json.mkObj [
    ("steps", Json.arr (r.2.1.map (fun st => Json.arr #[.str st.name, strListOut (sortStrs (cteRefs st.near))])).toArray),
    ("last", strListOut (sortStrs (cteRefs r.1)))]

def handlers : List (String × Handler) := [("c04_semopt_fix", handleSqlOptFix), ("c04_stub", handleStub)]

end DAVerif.Drv.C04Drv
