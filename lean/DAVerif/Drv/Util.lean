import Lean.Data.Json
/-! JSON helpers for the line-protocol driver (not part of the model). -/
namespace DAVerif.Drv
open Lean

abbrev Handler := Json → Except String Json

def arr (j : Json) (k : String) : Except String (Array Json) := do (← j.getObjVal? k).getArr?
def str (j : Json) (k : String) : Except String String := do (← j.getObjVal? k).getStr?
def int (j : Json) (k : String) : Except String Int := do (← j.getObjVal? k).getInt?
def nat (j : Json) (k : String) : Except String Nat := do (← j.getObjVal? k).getNat?
def bool (j : Json) (k : String) : Except String Bool := do (← j.getObjVal? k).getBool?
def obj (j : Json) (k : String) : Except String Json := j.getObjVal? k
def optKey (j : Json) (k : String) : Option Json :=
  match j.getObjVal? k with
  | .ok .null => none
  | .ok v => some v
  | .error _ => none

/-- elements of opaque collections travel as their compressed JSON text -/
def elems (a : Array Json) : List String := a.toList.map Json.compress
def elemsOut (l : List String) : Json :=
  Json.arr (l.toArray.map fun s => match Json.parse s with | .ok j => j | .error _ => Json.str s)

def strList (j : Json) : Except String (List String) := do
  let a ← j.getArr?
  a.toList.mapM (·.getStr?)

def strListOut (l : List String) : Json := Json.arr (l.toArray.map Json.str)

end DAVerif.Drv
