import DAVerif.Drv.Util
import DAVerif.CData.Record
/-! Driver suite `cdata`: RecordSpecification / RecordMap construction, transform, inverse round trip, compose.

Encodings (local to this suite):
```
Val   := null | int | "text"
Table := {"cols":[str…], "rows":[[Val…]…]}
Spec  := {"control":Table, "record_keys":[str…], "control_keys":[str…]|null, "strict":bool}
Map   := {"in":Spec|null, "out":Spec|null, "strict":bool}
Out   := {"ok":Table} | {"err":"ValueError"|…}
```
-/
namespace DAVerif.Drv.CDataDrv
open Lean DAVerif.Drv DAVerif.CData

def parseVal (j : Json) : Except String Val :=
  match j with
  | .null => .ok .null
  | .str s => .ok (.str s)
  | .num _ => do return .num (← j.getInt?)
  | _ => .error "bad-val"

def valOut : Val → Json
  | .null => Json.null
  | .num i => toJson i
  | .str s => Json.str s

def parseTable (j : Json) : Except String Table := do
  let cols ← strList (← obj j "cols")
  let rows ← (← arr j "rows").toList.mapM fun r => do
    let cells ← (← r.getArr?).toList.mapM parseVal
    if cells.length != cols.length then throw "bad-row-length"
    return cols.zip cells
  return ⟨cols, rows⟩

def tableOut (t : Table) : Json :=
  Json.mkObj [("cols", strListOut t.cols),
              ("rows", Json.arr (t.rows.toArray.map fun r => Json.arr (r.toArray.map fun kv => valOut kv.2)))]

def errName : Err → String
  | .KeyError => "KeyError" | .ValueError => "ValueError" | .TypeError => "TypeError"
  | .AssertionError => "AssertionError" | .IndexError => "IndexError" | .AttributeError => "AttributeError"

def errOut (e : Err) : Json := Json.mkObj [("err", errName e)]
def out (r : Except Err Table) : Json :=
  match r with
  | .ok t => Json.mkObj [("ok", tableOut t)]
  | .error e => errOut e

structure RawSpec where
  ct : Table
  rk : List String
  ck : Option (List String)
  strict : Bool

def parseSpec (j : Json) : Except String RawSpec := do
  let ct ← parseTable (← obj j "control")
  let rk ← strList (← obj j "record_keys")
  let ck ← match optKey j "control_keys" with
    | none => pure none
    | some k => do pure (some (← strList k))
  return ⟨ct, rk, ck, ← bool j "strict"⟩

def RawSpec.build (r : RawSpec) : Except Err Spec := mkSpec r.ct r.rk r.ck r.strict

def parseOptSpec (j : Json) (k : String) : Except String (Option RawSpec) :=
  match optKey j k with
  | none => pure none
  | some s => do pure (some (← parseSpec s))

structure RawMap where
  bi : Option RawSpec
  bo : Option RawSpec
  strict : Bool

def parseMap (j : Json) : Except String RawMap := do
  return ⟨← parseOptSpec j "in", ← parseOptSpec j "out", ← bool j "strict"⟩

/-- Python evaluates `RecordMap(blocks_in=RecordSpecification(…), blocks_out=RecordSpecification(…))`
left to right. -/
def RawMap.build (r : RawMap) : Except Err RecordMap := do
  let bi ← match r.bi with | none => pure none | some s => do pure (some (← s.build))
  let bo ← match r.bo with | none => pure none | some s => do pure (some (← s.build))
  mkMap bi bo r.strict

def specOut (s : Spec) : Json :=
  Json.mkObj [("control", tableOut s.ct), ("record_keys", strListOut s.recordKeys),
              ("control_keys", strListOut s.ctKeys), ("strict", toJson s.strict)]

def optSpecOut : Option Spec → Json
  | none => Json.null
  | some s => specOut s

def mapOut (m : RecordMap) : Json :=
  Json.mkObj [("in", optSpecOut m.blocksIn), ("out", optSpecOut m.blocksOut), ("strict", toJson m.strict)]

def handle (c : Json) : Except String Json := do
  match ← str c "op" with
  | "spec" =>
    match (← parseSpec (← obj c "spec")).build with
    | .error e => return errOut e
    | .ok s => return Json.mkObj [("ok", Json.mkObj [
        ("record_keys", strListOut s.recordKeys), ("control_keys", strListOut s.ctKeys),
        ("content_keys", strListOut s.contentKeys), ("row_columns", strListOut s.rowColumns),
        ("block_columns", strListOut s.blockColumns)])]
  | "to_rows" =>
    let rs ← parseSpec (← obj c "spec")
    let t ← parseTable (← obj c "table")
    return out (do let s ← rs.build; let m ← s.mapToRows; m.transform t)
  | "to_blocks" =>
    let rs ← parseSpec (← obj c "spec")
    let t ← parseTable (← obj c "table")
    return out (do let s ← rs.build; let m ← s.mapFromRows; m.transform t)
  | "transform" =>
    let rm ← parseMap (← obj c "map")
    let t ← parseTable (← obj c "table")
    return out (do let m ← rm.build; m.transform t)
  | "inverse_roundtrip" =>
    let rm ← parseMap (← obj c "map")
    let t ← parseTable (← obj c "table")
    match rm.build with
    | .error e => return Json.mkObj [("build", errName e)]
    | .ok m =>
      let fwd := m.transform t
      let inv := m.inverse
      let back : Json := match fwd, inv with
        | .ok f, .ok i => out (i.transform f)
        | _, _ => Json.null
      return Json.mkObj [("build", "ok"), ("fwd", out fwd),
        ("inverse", match inv with | .ok i => mapOut i | .error e => Json.str (errName e)),
        ("back", back)]
  | "compose" =>
    let r1 ← parseMap (← obj c "m1")
    let r2 ← parseMap (← obj c "m2")
    let t ← parseTable (← obj c "table")
    match (do let m1 ← r1.build; let m2 ← r2.build; pure (m1, m2) : Except Err (RecordMap × RecordMap)) with
    | .error e => return Json.mkObj [("build", errName e)]
    | .ok (m1, m2) =>
      let seq := do let y ← m1.transform t; m2.transform y
      let cm := compose m2 m1
      let (cj, comp) : Json × Json := match cm with
        | .error e => (Json.str (errName e), Json.null)
        | .ok none => (Json.str "none", Json.null)
        | .ok (some m) => (mapOut m, out (m.transform t))
      return Json.mkObj [("build", "ok"), ("compose", cj), ("seq", out seq), ("comp", comp)]
  | o => throw s!"bad-op {o}"

def handlers : List (String × Handler) := [("cdata", handle)]

end DAVerif.Drv.CDataDrv
