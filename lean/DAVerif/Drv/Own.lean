import DAVerif.Drv.Util
import DAVerif.Heap.Own
/-!
Driver suite `own`: a pipeline tree (node kinds, the parameters the Pandas executor looks at, observed hints) and the
caller's frames in; per executed step (in completion order): what it returned (`src0` / `src1` = the very frame its
source step returned, `loc` = a frame it allocated), the returned frame's columns and rows, and every in-place write
with its target class (`src0` / `src1` / `loc` / `input` = one of the caller's frames) out.
-/
namespace DAVerif.Drv.OwnDrv
open Lean DAVerif.Drv DAVerif.Own

def strs (j : Json) (k : String) : Except String (List String) := do strList (← obj j k)

def optNat (j : Json) (k : String) : Except String (Option Nat) :=
  match optKey j k with
  | none => pure none
  | some v => do pure (some (← v.getNat?))

def pairs (j : Json) (k : String) : Except String (List (String × String)) := do
  (← arr j k).toList.mapM fun p => do
    let a ← p.getArr?
    match a.toList with
    | [x, y] => pure (← x.getStr?, ← y.getStr?)
    | _ => throw "bad pair"

def parseArg0 (j : Json) : Except String Arg0 :=
  match j with
  | .null => pure .none
  | _ => match j.getObjVal? "c" with
    | .ok c => do pure (.col (← c.getStr?))
    | .error _ => do pure (.val (← str j "v"))

def parseArgs (j : Json) : Except String (List Arg0) := do
  (← arr j "arg0").toList.mapM parseArg0

def parseFail (j : Json) : Except String (Option Fail) :=
  match optKey j "fail" with
  | none => pure none
  | some f => do pure (some ⟨← nat f "writes", ← str f "cls"⟩)

def parseSpec (j : Json) : Except String RecSpec := do
  let cells ← (← arr j "cells").toList.mapM strList
  pure ⟨← strs j "record_keys", ← strs j "control_keys", ← strs j "control_cols", cells,
        ← strs j "row_cols", ← strs j "block_cols"⟩

def optSpec (j : Json) (k : String) : Except String (Option RecSpec) :=
  match optKey j k with
  | none => pure none
  | some v => do pure (some (← parseSpec v))

partial def parsePipe (j : Json) : Except String Pipe := do
  let k ← str j "k"
  match k with
  | "table" => pure (.table ⟨← str j "name", ← strs j "cols", ← optNat j "head"⟩)
  | "natural_join" =>
    let op : JoinOp := ⟨← strs j "on_a", ← strs j "on_b", ← strs j "produced", ← nat j "rows"⟩
    pure (.bin (.join op) (← parseFail j) (← parsePipe (← obj j "l")) (← parsePipe (← obj j "r")))
  | "concat_rows" =>
    let idc := match optKey j "id_column" with | some (.str s) => some s | _ => none
    pure (.bin (.concat ⟨idc⟩) (← parseFail j) (← parsePipe (← obj j "l")) (← parsePipe (← obj j "r")))
  | _ =>
    let src ← parsePipe (← obj j "src")
    let fail ← parseFail j
    let kind : UnKind ← match k with
      | "extend" => pure (UnKind.extend ⟨← strs j "keys", ← parseArgs j, ← bool j "windowed", ← strs j "partition_by",
                                  ← strs j "order_by", ← bool j "all_scalars"⟩)
      | "project" => pure (.project ⟨← strs j "keys", ← parseArgs j, ← strs j "group_by", ← nat j "groups"⟩)
      | "select_rows" => pure (.selectRows (← nat j "keep"))
      | "select_columns" => pure (.selectCols (← strs j "cols"))
      | "drop_columns" => pure (.dropCols (← strs j "cols"))
      | "order_rows" => pure (.orderRows (← optNat j "limit"))
      | "map_columns" => pure (.mapCols (← pairs j "remap") (← strs j "dels"))
      | "rename_columns" => pure (.renameCols (← pairs j "remap"))
      | "convert_records" =>
        pure (.convert ⟨← optSpec j "blocks_in", ← optSpec j "blocks_out", ← nat j "groups_in"⟩)
      | o => throw s!"bad-op {o}"
    pure (.un kind fail src)

/-- number of sources of every node, in completion (post-) order -/
def postArity : Pipe → List Nat
  | .table _ => [0]
  | .un _ _ src => postArity src ++ [1]
  | .bin _ _ l r => postArity l ++ postArity r ++ [2]

def wkName : WKind → String
  | .setitem => "setitem" | .delitem => "delitem" | .locset => "locset" | .setcol => "setitem"
  | .resetIndex => "reset_index" | .setColumns => "set_columns"

def errName : Err → String
  | .keyError => "KeyError" | .valueError => "ValueError" | .assertionError => "AssertionError"
  | .raised cls => cls | .internal m => "INTERNAL:" ++ m

structure Acc where
  stack : List FrameId := []          -- ids returned by completed steps whose consumer has not completed yet
  arities : List Nat
  locals : List FrameId := []         -- ids allocated since the last return
  writes : List (WKind × FrameId × String) := []   -- in-place writes since the last return
  out : Array Json := #[]

def classOf (n0 : Nat) (srcs locals : List FrameId) (id : FrameId) : String :=
  if srcs[0]? == some id then "src0"
  else if srcs[1]? == some id then "src1"
  else if locals.contains id then "loc"
  else if id < n0 then "input"
  else "other"

def writesOut (n0 : Nat) (srcs locals : List FrameId) (ws : List (WKind × FrameId × String)) : Json :=
  Json.arr (ws.toArray.map fun w => Json.arr #[Json.str (wkName w.1), Json.str (classOf n0 srcs locals w.2.1), Json.str w.2.2])

def takeSrcs (a : Acc) : List FrameId × List FrameId :=
  let k := a.arities.headD 0
  ((a.stack.take k).reverse, a.stack.drop k)

def stepEv (n0 : Nat) (a : Acc) (e : Ev) : Acc :=
  match e with
  | .alloc id _ => { a with locals := id :: a.locals }
  | .write k id c => { a with writes := a.writes ++ [(k, id, c)] }
  | .ret id f =>
    let (srcs, rest) := takeSrcs a
    let node := Json.mkObj [
      ("ret", Json.str (classOf n0 srcs a.locals id)),
      ("cols", strListOut f.cols), ("rows", toJson f.nrows),
      ("writes", writesOut n0 srcs a.locals a.writes)]
    { stack := id :: rest, arities := a.arities.drop 1, locals := [], writes := [], out := a.out.push node }

def handleOwn (c : Json) : Except String Json := do
  let heap ← (← arr c "heap").toList.mapM fun f => do
    pure (Frame.mk (← strs f "cols") (← nat f "rows") 0)
  let dm : DataMap ← (← arr c "dm").toList.mapM fun p => do
    let a ← p.getArr?
    match a.toList with
    | [x, y] => pure ((← x.getStr?, ← y.getNat?) : String × FrameId)
    | _ => throw "bad dm"
  let x0 : FrameId := match dm with | (_, x) :: _ => x | [] => 0
  let p ← parsePipe (← obj c "pipe")
  let s0 : St := ⟨heap, []⟩
  let (res, s1) := match (← str c "entry") with
    | "transform" => transform id x0 p s0
    | "act_on" => actOn id x0 p s0
    | "ex" => ex id p s0
    | _ => eval id dm p s0
  let n0 := heap.length
  let a := s1.log.foldl (stepEv n0) { arities := postArity p }
  let err : Json := match res with
    | .ok _ => Json.null
    | .error e =>
      let (srcs, _) := takeSrcs a
      Json.mkObj [("cls", Json.str (errName e)), ("writes", writesOut n0 srcs a.locals a.writes)]
  let inputWrites := s1.log.filter fun (e : Ev) => match e with | Ev.write _ id _ => decide (id < n0) | _ => false
  return Json.mkObj [("nodes", Json.arr a.out), ("err", err),
    ("input_writes", toJson inputWrites.length),
    ("inputs_unchanged", toJson (decide (s1.heap.take n0 = heap))),
    ("result_fresh", toJson (match res with | .ok (r, _) => decide (n0 ≤ r) | .error _ => true))]

def handlers : List (String × Handler) := [("own", handleOwn)]

end DAVerif.Drv.OwnDrv
