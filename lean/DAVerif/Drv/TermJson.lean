import DAVerif.Drv.Util
import DAVerif.Expr.Term
/-!
JSON encoding of `Lit` and `Term` for the line protocol (shared by all suites that exchange expressions):

  Lit  := null | true | false | {"i": int} | {"f": [num, den]} | {"f": "nan"|"inf"|"-inf"} | {"s": "text"}
  Term := {"v": Lit} | {"c": "col"} | {"list": [Lit…]} | {"dict": [[Lit, Lit]…]}
        | {"op": "name", "args": [Term…], "inline": bool, "method": bool}

Python side: `harness/termjson.py`.
-/
namespace DAVerif.Drv.TermJson
open Lean DAVerif DAVerif.Drv

def litToJson : Lit → Json
  | .none => Json.null
  | .bool b => Json.bool b
  | .int i => Json.mkObj [("i", Json.num (JsonNumber.fromInt i))]
  | .flt q => Json.mkObj [("f", Json.arr #[Json.num (JsonNumber.fromInt q.num), Json.num (JsonNumber.fromNat q.den)])]
  | .nan => Json.mkObj [("f", Json.str "nan")]
  | .inf => Json.mkObj [("f", Json.str "inf")]
  | .ninf => Json.mkObj [("f", Json.str "-inf")]
  | .str s => Json.mkObj [("s", Json.str s)]

def litOfJson (j : Json) : Except String Lit :=
  match j with
  | Json.null => .ok .none
  | Json.bool b => .ok (.bool b)
  | _ =>
    match j.getObjVal? "i" with
    | .ok v => do return .int (← v.getInt?)
    | .error _ =>
      match j.getObjVal? "s" with
      | .ok v => do return .str (← v.getStr?)
      | .error _ =>
        match j.getObjVal? "f" with
        | .ok (Json.str "nan") => .ok .nan
        | .ok (Json.str "inf") => .ok .inf
        | .ok (Json.str "-inf") => .ok .ninf
        | .ok (Json.arr a) =>
          if h : a.size = 2 then do
            let n ← a[0].getInt?
            let d ← a[1].getNat?
            if d == 0 then throw "bad float" else return .flt (mkRat n d)
          else throw "bad float"
        | _ => throw "bad literal"

mutual
partial def termToJson : Term → Json
  | .value v => Json.mkObj [("v", litToJson v)]
  | .col c => Json.mkObj [("c", Json.str c)]
  | .list vs => Json.mkObj [("list", Json.arr (vs.map litToJson).toArray)]
  | .dict kvs => Json.mkObj [("dict", Json.arr (kvs.map fun kv => Json.arr #[litToJson kv.1, litToJson kv.2]).toArray)]
  | .app op args inline method =>
    Json.mkObj [("op", Json.str op), ("args", Json.arr (args.map termToJson).toArray), ("inline", Json.bool inline),
      ("method", Json.bool method)]
end

partial def termOfJson (j : Json) : Except String Term :=
  match j.getObjVal? "v" with
  | .ok v => do return .value (← litOfJson v)
  | .error _ =>
    match j.getObjVal? "c" with
    | .ok v => do return .col (← v.getStr?)
    | .error _ =>
      match j.getObjVal? "list" with
      | .ok v => do
        let a ← v.getArr?
        return .list (← a.toList.mapM litOfJson)
      | .error _ =>
        match j.getObjVal? "dict" with
        | .ok v => do
          let a ← v.getArr?
          let kvs ← a.toList.mapM fun kv => do
            let p ← kv.getArr?
            if h : p.size = 2 then return ((← litOfJson p[0]), (← litOfJson p[1])) else throw "bad dict entry"
          return .dict kvs
        | .error _ => do
          let op ← str j "op"
          let args ← arr j "args"
          let inline ← bool j "inline"
          let method ← bool j "method"
          return .app op (← args.toList.mapM termOfJson) inline method

end DAVerif.Drv.TermJson
