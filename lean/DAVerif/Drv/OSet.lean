import DAVerif.Drv.Util
import DAVerif.Core.OrderedSet
/-! Driver suite `oset`: histories on one OrderedSet, queries and the three helpers. -/
namespace DAVerif.Drv.OSetDrv
open Lean DAVerif.Drv DAVerif.OSet

def listArg (j : Json) (k : String) : Except String (List String) := do return elems (← arr j k)
def listsArg (j : Json) (k : String) : Except String (List (List String)) := do
  (← arr j k).toList.mapM fun a => do return elems (← a.getArr?)

def parseOp (j : Json) : Except String (Op String) := do
  match ← str j "op" with
  | "add" => return .add (← obj j "x").compress
  | "discard" => return .discard (← obj j "x").compress
  | "remove" => return .remove (← obj j "x").compress
  | "pop" => return .pop
  | "clear" => return .clear
  | "update" => return .update (← listsArg j "args")
  | "ior" => return .ior (← listArg j "o")
  | "iand" => return .iand (← listArg j "o")
  | "isub" => return .isub (← listArg j "o")
  | "ixor" => return .ixor (← listArg j "o")
  | "reinit" => return .reinit (← listArg j "o")
  | "assign_copy" => return .assignCopy
  | "assign_union" => return .assignUnion (← listsArg j "args")
  | "assign_sub" => return .assignSub (← listArg j "o")
  | "assign_and" => return .assignAnd (← listArg j "o")
  | "assign_or" => return .assignOr (← listArg j "o")
  | "assign_xor" => return .assignXor (← listArg j "o")
  | o => throw s!"bad-op {o}"

/-- queries: no state change, a Bool/Nat result -/
def query (s : List String) (j : Json) : Except String (Option Json) := do
  match ← str j "op" with
  | "q_le" => return some (toJson (le s (ofList (← listArg j "o"))))
  | "q_ge" => return some (toJson (ge s (ofList (← listArg j "o"))))
  | "q_lt" => return some (toJson (lt s (ofList (← listArg j "o"))))
  | "q_gt" => return some (toJson (gt s (ofList (← listArg j "o"))))
  | "q_eq" => return some (toJson (eq s (ofList (← listArg j "o"))))
  | "q_isdisjoint" => return some (toJson (isdisjoint s (← listArg j "o")))
  | "q_contains" => return some (toJson (s.contains (← obj j "x").compress))
  | "q_len" => return some (toJson s.length)
  -- a second set built FROM this one, then changed / passed to a helper: `s` itself must be unaffected
  | "q_fork_add" => return some (elemsOut (add (ofList s) (← obj j "x").compress))
  | "q_fork_discard" => return some (elemsOut (discard (ofList s) (← obj j "x").compress))
  | "q_fork_update" => return some (elemsOut (addAll (ofList s) (← listArg j "o")))
  | "q_helper_union" => return some (elemsOut (orderedUnion s (← listArg j "o")))
  | "q_helper_intersect" => return some (elemsOut (orderedIntersect s (← listArg j "o")))
  | "q_helper_diff" => return some (elemsOut (orderedDiff s (← listArg j "o")))
  | _ => return none

def handleHistory (c : Json) : Except String Json := do
  let init ← listArg c "init"
  let ops ← arr c "ops"
  let mut s := ofList init
  let mut out : Array Json := #[]
  for o in ops do
    match ← query s o with
    | some r => out := out.push (Json.mkObj [("s", elemsOut s), ("r", r)])
    | none =>
      let op ← parseOp o
      match step s op with
      | none => out := out.push (Json.mkObj [("s", elemsOut s), ("err", "KeyError")])
      | some s' =>
        let r : Json := match op, s with
          | .pop, x :: _ => (match Json.parse x with | .ok j => j | .error _ => Json.null)
          | _, _ => Json.null
        s := s'
        out := out.push (Json.mkObj [("s", elemsOut s), ("r", r)])
  return Json.arr out

def handleHelper (c : Json) : Except String Json := do
  let a ← listArg c "a"
  let b ← listArg c "b"
  match ← str c "fn" with
  | "ordered_union" => return elemsOut (orderedUnion a b)
  | "ordered_intersect" => return elemsOut (orderedIntersect a b)
  | "ordered_diff" => return elemsOut (orderedDiff a b)
  | f => throw s!"bad-op {f}"

def handlers : List (String × Handler) := [("oset", handleHistory), ("oset_helper", handleHelper)]

end DAVerif.Drv.OSetDrv
