import DAVerif.Drv.OpsJson
import DAVerif.Ops.Compose
/-! Driver suites for the operator layer: `k2_build` (builders), `k4_sem` (Pandas executor semantics). -/
namespace DAVerif.Drv.OpsDrv
open Lean DAVerif DAVerif.Drv

/-- run a chain of builder calls; answer the built tree or the error class and the failing step index -/
def handleBuild (c : Json) : Except String Json := do
  let start ← opsOfJson (← obj c "start")
  let steps ← (← arr c "steps").toList.mapM stepOfJson
  let mut cur := start
  let mut i := 0
  for s in steps do
    match build cur s with
    | .ok n => cur := n
    | .error e => return Json.mkObj [("err", .str e.toStr), ("at", toJson i)]
    i := i + 1
  return Json.mkObj [("ok", opsToJson cur)]

/-! model-supported fragment for the executable semantics -/
partial def scalarSupported : Term → Bool
  | .app op args _ _ => Theta.supportedScalar.contains op && args.all scalarSupported
  | _ => true

partial def supported : Ops → Option String
  | .table _ _ => none
  | .extend s ops _ _ _ w =>
    (supported s).orElse fun _ =>
      if w then
        if ops.all (fun kv => Theta.supportedWin.contains (opName kv.2)) then none else some "window op"
      else if ops.all (fun kv => scalarSupported kv.2) then none else some "scalar op"
  | .project s ops _ =>
    (supported s).orElse fun _ =>
      if ops.all (fun kv => Theta.supportedAgg.contains (opName kv.2)) then none else some "aggregate op"
  | .selectRows s e => (supported s).orElse fun _ => if scalarSupported e then none else some "scalar op"
  | .selectCols s _ | .dropCols s _ | .order s _ _ _ | .rename s _ | .mapCols s _ _ => supported s
  | .join a b oa ob _ =>
    (supported a).orElse fun _ => (supported b).orElse fun _ =>
      if joinKeysSane a.cols b.cols oa ob then none else some "join key spec"
  | .concat a b _ _ _ => (supported a).orElse fun _ => supported b
  | .convert _ _ => some "convert_records"

def noConvert : RecMap → Table → Except Err Table := fun _ _ => .error .other

def handleSem (c : Json) : Except String Json := do
  let ops ← opsOfJson (← obj c "ops")
  let env ← envOfJson (← obj c "tables")
  let cfg := match optKey c "cfg" with
    | some (.str "ref") => SemCfg.ref
    | _ => SemCfg.pandas
  match supported ops with
  | some why => return Json.mkObj [("unsupported", .str why)]
  | none =>
    match sem (Theta.concrete noConvert) cfg env ops with
    | .ok t => return Json.mkObj [("ok", tableToJson t)]
    | .error e => return errToJson e

def handleUsed (c : Json) : Except String Json := do
  let ops ← opsOfJson (← obj c "ops")
  match ops.columnsUsed with
  | .ok u => return Json.mkObj [("ok", Json.mkObj (u.map (fun kv => (kv.1, strListOut kv.2))))]
  | .error e => return errToJson e

def handleEq (c : Json) : Except String Json := do
  let p ← opsOfJson (← obj c "p")
  let q ← opsOfJson (← obj c "q")
  return Json.mkObj [("pq", .bool (Ops.eqOps p q)), ("qp", .bool (Ops.eqOps q p)), ("pp", .bool (Ops.eqOps p p))]

/-- `a >> b` = `b.act_on(a)` -/
def handleCompose (c : Json) : Except String Json := do
  let a ← opsOfJson (← obj c "a")
  let b ← opsOfJson (← obj c "b")
  match Ops.actOn b a with
  | .ok r => return Json.mkObj [("ok", opsToJson r)]
  | .error e => return errToJson e

def handlers : List (String × Handler) :=
  [("k2_build", handleBuild), ("k4_sem", handleSem), ("k3_used", handleUsed), ("k3_eq", handleEq),
   ("k3_compose", handleCompose)]

end DAVerif.Drv.OpsDrv
