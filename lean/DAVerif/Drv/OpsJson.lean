import DAVerif.Drv.Util
import DAVerif.Sem.Theta
/-! JSON encodings of Lit / Val / Term / Table / Ops tree / Step (DESIGN Appendix C, notes/pipegen_brief.md). -/
namespace DAVerif.Drv
open Lean DAVerif

def ratOfJson (j : Json) : Except String Rat := do
  let a ← j.getArr?
  match a.toList with
  | [n, d] => do
    let n ← n.getInt?
    let d ← d.getInt?
    if d == 0 then throw "zero denominator" else return (n : Rat) / (d : Rat)
  | _ => throw "bad rational"

def litOfJson (j : Json) : Except String Lit :=
  match j with
  | .null => pure .none
  | .bool b => pure (.bool b)
  | _ =>
    match j.getObjVal? "i" with
    | .ok v => do return .int (← v.getInt?)
    | .error _ =>
      match j.getObjVal? "f" with
      | .ok (.str "nan") => pure .nan
      | .ok (.str "inf") => pure .inf
      | .ok (.str "-inf") => pure .ninf
      | .ok v => do return .flt (← ratOfJson v)
      | .error _ =>
        match j.getObjVal? "s" with
        | .ok v => do return .str (← v.getStr?)
        | .error _ => throw s!"bad literal {j.compress}"

def valOfJson (j : Json) : Except String Val := do return (← litOfJson j).toVal

def ratToJson (q : Rat) : Json := Json.mkObj [("f", Json.arr #[toJson q.num, toJson (q.den : Int)])]

def valToJson : Val → Json
  | .null => .null
  | .bool b => .bool b
  | .num q => ratToJson q
  | .str s => Json.mkObj [("s", .str s)]

def litToJson : Lit → Json
  | .none => .null
  | .bool b => .bool b
  | .int i => Json.mkObj [("i", toJson i)]
  | .flt q => ratToJson q
  | .nan => Json.mkObj [("f", "nan")]
  | .inf => Json.mkObj [("f", "inf")]
  | .ninf => Json.mkObj [("f", "-inf")]
  | .str s => Json.mkObj [("s", .str s)]

partial def termOfJson (j : Json) : Except String Term := do
  match j.getObjVal? "v" with
  | .ok v => return .value (← litOfJson v)
  | .error _ =>
  match j.getObjVal? "c" with
  | .ok c => return .col (← c.getStr?)
  | .error _ =>
  match j.getObjVal? "list" with
  | .ok l => do return .list (← (← l.getArr?).toList.mapM litOfJson)
  | .error _ =>
  match j.getObjVal? "dict" with
  | .ok d => do
    let kvs ← (← d.getArr?).toList.mapM fun kv => do
      match (← kv.getArr?).toList with
      | [k, v] => return (← litOfJson k, ← litOfJson v)
      | _ => throw "bad dict entry"
    return .dict kvs
  | .error _ => do
    let op ← str j "op"
    let args ← (← arr j "args").toList.mapM termOfJson
    return .app op args (← bool j "inline") (← bool j "method")

partial def termToJson : Term → Json
  | .value v => Json.mkObj [("v", litToJson v)]
  | .col c => Json.mkObj [("c", .str c)]
  | .list vs => Json.mkObj [("list", Json.arr (vs.map litToJson).toArray)]
  | .dict kvs => Json.mkObj [("dict", Json.arr (kvs.map (fun kv => Json.arr #[litToJson kv.1, litToJson kv.2])).toArray)]
  | .app op args i m => Json.mkObj [("op", .str op), ("args", Json.arr (args.map termToJson).toArray),
      ("inline", .bool i), ("method", .bool m)]

def assignOfJson (j : Json) : Except String Assign := do
  (← j.getArr?).toList.mapM fun kv => do
    match (← kv.getArr?).toList with
    | [k, t] => return (← k.getStr?, ← termOfJson t)
    | _ => throw "bad assignment"

def assignToJson (a : Assign) : Json :=
  Json.arr (a.map (fun kv => Json.arr #[.str kv.1, termToJson kv.2])).toArray

def strs (j : Json) (k : String) : Except String (List String) := do strList (← obj j k)
def strsOpt (j : Json) (k : String) : Except String (List String) :=
  match optKey j k with
  | none => pure []
  | some v => match v with
    | .str s => pure [s]
    | _ => strList v

def pairsOfJson (j : Json) : Except String (List (String × String)) := do
  (← j.getArr?).toList.mapM fun kv => do
    match (← kv.getArr?).toList with
    | [a, b] => return (← a.getStr?, ← b.getStr?)
    | _ => throw "bad pair"

def pairsToJson (m : List (String × String)) : Json :=
  Json.arr (m.map (fun kv => Json.arr #[.str kv.1, .str kv.2])).toArray

def tableOfJson (j : Json) : Except String Table := do
  let cols ← strs j "cols"
  let rows ← (← arr j "rows").toList.mapM fun r => do
    let vs ← (← r.getArr?).toList.mapM valOfJson
    if vs.length != cols.length then throw "row width" else return cols.zip vs
  return ⟨cols, rows⟩

def tableToJson (t : Table) : Json :=
  Json.mkObj [("cols", strListOut t.cols),
    ("rows", Json.arr (t.rows.map (fun r => Json.arr ((t.cols.map (fun c => valToJson (r.get c))).toArray))).toArray)]

def envOfJson (j : Json) : Except String Env := do
  match j with
  | .obj kvs => kvs.toList.mapM fun (k, v) => do return (k, ← tableOfJson v)
  | _ => throw "bad tables"

def recMapOfJson (j : Json) : Except String RecMap := do
  return { needed := ← strs j "needed", produced := ← strs j "produced", repr := ← str j "repr" }

def recMapToJson (rm : RecMap) : Json :=
  Json.mkObj [("needed", strListOut rm.needed), ("produced", strListOut rm.produced), ("repr", .str rm.repr)]

partial def opsOfJson (j : Json) : Except String Ops := do
  match ← str j "node" with
  | "table" => return .table (← str j "name") (← strs j "cols")
  | "extend" => return (.extend (← opsOfJson (← obj j "src")) (← assignOfJson (← obj j "ops")) (← strsOpt j "partition") (← strsOpt j "order") (← strsOpt j "reverse") (← bool j "windowed"))
  | "project" => return .project (← opsOfJson (← obj j "src")) (← assignOfJson (← obj j "ops")) (← strsOpt j "group")
  | "select_rows" => return .selectRows (← opsOfJson (← obj j "src")) (← termOfJson (← obj j "expr"))
  | "select_columns" => return .selectCols (← opsOfJson (← obj j "src")) (← strs j "cols")
  | "drop_columns" => return .dropCols (← opsOfJson (← obj j "src")) (← strs j "cols")
  | "order" => return (.order (← opsOfJson (← obj j "src")) (← strs j "cols") (← strsOpt j "reverse") (← (optKey j "limit").mapM (·.getNat?)))
  | "rename" => return .rename (← opsOfJson (← obj j "src")) (← pairsOfJson (← obj j "map"))
  | "map_columns" => return .mapCols (← opsOfJson (← obj j "src")) (← pairsOfJson (← obj j "map")) (← strsOpt j "deletions")
  | "join" =>
    match JoinType.parse (← str j "type") with
    | some t => return .join (← opsOfJson (← obj j "a")) (← opsOfJson (← obj j "b")) (← strs j "on_a") (← strs j "on_b") t
    | none => throw "bad join type"
  | "concat" => return (.concat (← opsOfJson (← obj j "a")) (← opsOfJson (← obj j "b")) (← (optKey j "id").mapM (·.getStr?)) (← str j "a_name") (← str j "b_name"))
  | "convert_records" => return .convert (← opsOfJson (← obj j "src")) (← recMapOfJson (← obj j "rm"))
  | n => throw s!"bad-op node {n}"

/-- canonical rendering of a built node tree (compared with the harness' rendering of the real nodes) -/
partial def opsToJson (o : Ops) : Json :=
  let cn : (String × Json) := ("column_names", strListOut o.cols)
  match o with
  | .table n cs => Json.mkObj [("node", "table"), ("name", .str n), ("cols", strListOut cs), cn]
  | .extend s ops p od rv w => Json.mkObj [("node", "extend"), ("src", opsToJson s), ("ops", assignToJson ops),
      ("partition", strListOut p), ("order", strListOut od), ("reverse", strListOut rv), ("windowed", .bool w), cn]
  | .project s ops g => Json.mkObj [("node", "project"), ("src", opsToJson s), ("ops", assignToJson ops),
      ("group", strListOut g), cn]
  | .selectRows s e => Json.mkObj [("node", "select_rows"), ("src", opsToJson s), ("expr", termToJson e), cn]
  | .selectCols s cs => Json.mkObj [("node", "select_columns"), ("src", opsToJson s), ("cols", strListOut cs), cn]
  | .dropCols s cs => Json.mkObj [("node", "drop_columns"), ("src", opsToJson s), ("cols", strListOut cs), cn]
  | .order s cs rv lim => Json.mkObj [("node", "order"), ("src", opsToJson s), ("cols", strListOut cs),
      ("reverse", strListOut rv), ("limit", match lim with | none => .null | some n => toJson n), cn]
  | .rename s m => Json.mkObj [("node", "rename"), ("src", opsToJson s), ("map", pairsToJson m), cn]
  | .mapCols s m d => Json.mkObj [("node", "map_columns"), ("src", opsToJson s), ("map", pairsToJson m),
      ("deletions", strListOut d), cn]
  | .join a b oa ob t => Json.mkObj [("node", "join"), ("a", opsToJson a), ("b", opsToJson b), ("on_a", strListOut oa),
      ("on_b", strListOut ob), ("type", .str t.toStr), cn]
  | .concat a b idc an bn => Json.mkObj [("node", "concat"), ("a", opsToJson a), ("b", opsToJson b),
      ("id", match idc with | none => .null | some c => .str c), ("a_name", .str an), ("b_name", .str bn), cn]
  | .convert s rm => Json.mkObj [("node", "convert_records"), ("src", opsToJson s), ("rm", recMapToJson rm), cn]

def partArgOfJson (j : Json) (k : String) : Except String PartArg :=
  match optKey j k with
  | none => pure .none
  | some (.num _) => pure .one
  | some (.str s) => pure (.cols [s])
  | some v => do return .cols (← strList v)

def stepOfJson (j : Json) : Except String Step := do
  match ← str j "call" with
  | "extend" => return (.extend (← assignOfJson (← obj j "ops")) (← partArgOfJson j "partition_by") (← strsOpt j "order_by") (← strsOpt j "reverse"))
  | "project" => return .project (← assignOfJson (← obj j "ops")) (← strsOpt j "group_by")
  | "select_rows" => return .selectRows (← (optKey j "expr").mapM termOfJson)
  | "select_columns" => return .selectCols (← strsOpt j "cols")
  | "drop_columns" => return .dropCols (← strsOpt j "cols")
  | "order_rows" => return .order (← strsOpt j "cols") (← strsOpt j "reverse") (← (optKey j "limit").mapM (·.getNat?))
  | "rename_columns" => return .rename (← pairsOfJson (← obj j "map"))
  | "map_columns" => do
    let m ← (← arr j "map").toList.mapM fun kv => do
      match (← kv.getArr?).toList with
      | [a, .null] => return (← a.getStr?, none)
      | [a, b] => return (← a.getStr?, some (← b.getStr?))
      | _ => throw "bad map pair"
    return .mapCols m
  | "natural_join" => return (.join (← opsOfJson (← obj j "b")) (← strs j "on_a") (← strs j "on_b") (← str j "jointype") (← bool j "check"))
  | "concat_rows" => return (.concat (← (optKey j "b").mapM opsOfJson) (← (optKey j "id_column").mapM (·.getStr?)) (← str j "a_name") (← str j "b_name"))
  | "convert_records" => return .convert (← (optKey j "rm").mapM recMapOfJson)
  | c => throw s!"bad-op call {c}"

def errToJson (e : Err) : Json := Json.mkObj [("err", .str e.toStr)]

end DAVerif.Drv
