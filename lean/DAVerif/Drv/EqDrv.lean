import DAVerif.Drv.OpsJson
import DAVerif.Ops.Eq
/-! Driver suite `k3_eq_c11`: `==` on two operator trees (model `Eq.eqOps`, the code with the C11 fixes):
case `{"p": Tree, "q": Tree}` → `{"pq": bool, "qp": bool, "pp": bool}`. -/
namespace DAVerif.Drv.EqDrv
open Lean DAVerif DAVerif.Drv

def handleEq (c : Json) : Except String Json := do
  let p ← opsOfJson (← obj c "p")
  let q ← opsOfJson (← obj c "q")
  return Json.mkObj [("pq", .bool (Eq.eqOps p q)), ("qp", .bool (Eq.eqOps q p)), ("pp", .bool (Eq.eqOps p p))]

def handlers : List (String × Handler) := [("k3_eq_c11", handleEq)]

end DAVerif.Drv.EqDrv
