import DAVerif.Drv.SqlDrv
import DAVerif.Solutions.RankToAverage
import DAVerif.Solutions.Locf
import DAVerif.Solutions.Replicate
import DAVerif.Solutions.MultiColumnMap
import DAVerif.Solutions.ReplicateInterp
/-! Driver suites for the models of `data_algebra/solutions.py`:

* `k2_solutions` – the node tree each modelled helper builds from its parameters (compared with
  `to_model_tree(real helper(...))`), for `replicate_rows_query` also the count frame;
* `k4_solutions` – `sem` (Pandas configuration) of a helper pipeline with the interpretation `thetaSol` (the shared
  concrete interpretation + the stand-ins of `ReplicateInterp` + the record transforms of `MultiColumnMap`);
* `k5_solutions` – `semSql` of `toNearSql SqlCfg.sqlite` of a helper pipeline with `thetaSqlSol`;
* `c21_clog2` – the exact `⌈log₂ c⌉` table used by the exhaustive discharge of `hlog`.
-/
namespace DAVerif.Drv.SolutionsDrv
open Lean DAVerif DAVerif.Drv DAVerif.Sql DAVerif.Solutions

def optStrs (c : Json) (k : String) : Except String (Option (List String)) :=
  match optKey c k with
  | none => pure none
  | some v => do return some (← strList v)

def optStr (c : Json) (k : String) (dflt : String) : String :=
  match optKey c k with
  | some (.str s) => s
  | _ => dflt

def handleBuild (c : Json) : Except String Json := do
  let d ← opsOfJson (← obj c "d")
  match ← str c "helper" with
  | "rank_to_average" =>
    let r := rankToAverage d (← strs c "order_by") (← optStrs c "partition_by") (← str c "rank_column_name")
      (optStr c "tie_breaker_column_name" "rank_tie_breaker")
    match r with
    | .ok p => return Json.mkObj [("ok", opsToJson p)]
    | .error e => return errToJson e
  | "last_observed_carried_forward" =>
    let r := lastObservedCarriedForward d (← strs c "order_by") (← optStrs c "partition_by")
      (← str c "value_column_name") (optStr c "locf_to_use_column_name" "locf_to_use")
      (optStr c "locf_non_null_rank_column_name" "locf_non_null_rank")
      (optStr c "locf_tiebreaker_column_name" "locf_tiebreaker")
    match r with
    | .ok p => return Json.mkObj [("ok", opsToJson p)]
    | .error e => return errToJson e
  | "replicate_rows_query" =>
    let r := replicateRowsQuery clog2 d (← str c "count_column_name") (← str c "seq_column_name")
      (← str c "join_temp_name") (← nat c "max_count")
    match r with
    | .ok (p, frame) => return Json.mkObj [("ok", opsToJson p), ("count_frame", tableToJson frame)]
    | .error e => return errToJson e
  | "def_multi_column_map" =>
    let m ← opsOfJson (← obj c "mapping_table")
    let cv ← (optKey c "coalesce_value").mapM litOfJson
    let r := defMultiColumnMap d m (← strs c "row_keys") (← strs c "cols_to_map")
      (optStr c "col_name_key" "column_name") (optStr c "col_value_key" "column_value")
      (optStr c "mapped_value_key" "mapped_value") cv (← optStrs c "cols_to_map_back")
    match r with
    | .ok p => return Json.mkObj [("ok", opsToJson p)]
    | .error e => return errToJson e
  | h => throw s!"bad-op helper {h}"

/-- scalar functions the extended interpretations cover -/
partial def scalarSupported : Term → Bool
  | .app op args _ _ =>
    (Theta.supportedScalar.contains op || ["log", "as_int64"].contains op) && args.all scalarSupported
  | _ => true

partial def supported (allowConvert : Bool) : Ops → Option String
  | .table _ _ => none
  | .extend s ops _ _ _ w =>
    (supported allowConvert s).orElse fun _ =>
      if w then
        if ops.all (fun kv => Theta.supportedWin.contains (opName kv.2)) then none else some "window op"
      else if ops.all (fun kv => scalarSupported kv.2) then none else some "scalar op"
  | .project s ops _ =>
    (supported allowConvert s).orElse fun _ =>
      if ops.all (fun kv => Theta.supportedAgg.contains (opName kv.2)) then none else some "aggregate op"
  | .selectRows s e => (supported allowConvert s).orElse fun _ => if scalarSupported e then none else some "scalar op"
  | .selectCols s _ | .dropCols s _ | .order s _ _ _ | .rename s _ | .mapCols s _ _ => supported allowConvert s
  | .join a b oa ob _ =>
    (supported allowConvert a).orElse fun _ => (supported allowConvert b).orElse fun _ =>
      if joinKeysSane a.cols b.cols oa ob then none else some "join key spec"
  | .concat a b _ _ _ => (supported allowConvert a).orElse fun _ => supported allowConvert b
  | .convert s _ => if allowConvert then supported allowConvert s else some "convert_records"

/-- the record-transform interpretation named by the case (`"mcm"`: the parameters of `def_multi_column_map`) -/
def convertOfJson (c : Json) : Except String (RecMap → Table → Except Err Table) :=
  match optKey c "mcm" with
  | none => pure OpsDrv.noConvert
  | some m => do
    return mcmConvert (← strs m "row_keys") (optStr m "col_name_key" "column_name")
      (optStr m "col_value_key" "column_value") (optStr m "mapped_value_key" "mapped_value") (← strs m "cols_to_map")

def handleSem (c : Json) : Except String Json := do
  let ops ← opsOfJson (← obj c "ops")
  let env ← envOfJson (← obj c "tables")
  let cv ← convertOfJson c
  match supported true ops with
  | some why => return Json.mkObj [("unsupported", .str why)]
  | none =>
    match sem (thetaSol cv) SemCfg.pandas env ops with
    | .ok t => return Json.mkObj [("ok", tableToJson t)]
    | .error e => return errToJson e

def handleSqlSem (c : Json) : Except String Json := do
  let ops ← opsOfJson (← obj c "ops")
  let env ← envOfJson (← obj c "tables")
  match supported false ops with
  | some why => return Json.mkObj [("unsupported", .str why)]
  | none =>
    match toNearSql (SqlDrv.cfgOfJson c) ops with
    | .error e => return errToJson e
    | .ok n =>
      match semSql thetaSqlSol (SqlDrv.engineOfJson c) env n with
      | .ok t => return Json.mkObj [("ok", tableToJson t)]
      | .error e => return errToJson e

/-- `{"from": a, "to": b}` → the list `[clog2 a, …, clog2 b]` -/
def handleClog2 (c : Json) : Except String Json := do
  let a ← nat c "from"
  let b ← nat c "to"
  return Json.mkObj [("ok", Json.arr (((List.range (b + 1 - a)).map (fun i => toJson (clog2 (a + i)))).toArray))]

def handlers : List (String × Handler) :=
  [("k2_solutions", handleBuild), ("k4_solutions", handleSem), ("k5_solutions", handleSqlSem),
   ("c21_clog2", handleClog2)]

end DAVerif.Drv.SolutionsDrv
