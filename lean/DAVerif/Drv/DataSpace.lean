import DAVerif.Drv.Util
import DAVerif.Space.DataSpace
/-! Driver suites `dspace_mem` / `dspace_db`: one history of data-space operations in, per-step outcome,
counter and contents out (plus, for the database space, the table names of the database after every step,
the database after `close()`, and the steps that violate the finding guard). -/
namespace DAVerif.Drv.DataSpaceDrv
open Lean DAVerif.Drv DAVerif.Space

/-- the harness' tables: named columns, of which `x` carries integer tokens (compared as a multiset) -/
structure Tbl where
  cols : List String
  xs : List Int
  deriving DecidableEq

/-- the harness' pipelines -/
inductive POps where
  | table (src : String)                 -- describe_table(src)
  | shift (src : String) (d : Int)       -- describe_table(src).extend({'x': 'x + d'})
  | concat (a b : String)                -- describe_table(a).concat_rows(describe_table(b), id_column=None)
  | bad                                  -- not a pipeline object

def isort (l : List Int) : List Int := l.mergeSort (fun a b => decide (a ≤ b))
def ssort (l : List String) : List String := l.mergeSort (fun a b => decide (a < b) || a == b)

/-- pipeline evaluation; `missing` = error class when a source table does not exist
(pandas: KeyError from `data_map[k]`; SQLite: OperationalError = Other) -/
def evalOps (missing : Err) (ops : POps) (look : String → Option Tbl) : Except Err Tbl :=
  match ops with
  | .table src => match look src with
    | some t => .ok ⟨["x"], isort t.xs⟩
    | none => .error missing
  | .shift src d => match look src with
    | some t => .ok ⟨["x"], isort (t.xs.map (· + d))⟩
    | none => .error missing
  | .concat a b => match look a, look b with
    | some ta, some tb => .ok ⟨["x"], isort (ta.xs ++ tb.xs)⟩
    | _, _ => .error missing
  | .bad => .error .Other

def params (missing : Err) : Params String Tbl (List String) POps :=
  ⟨daTemp, fun t => t.cols, evalOps missing⟩

def parseKeyArg (j : Json) : KeyArg String :=
  match j with
  | .null => .auto
  | .str s => .str s
  | _ => .bad

def parseStrKey (j : Json) : Option String :=
  match j with
  | .str s => some s
  | _ => none

def parseOw (j : Json) : Option Bool :=
  match j with
  | .bool b => some b
  | _ => none

def parseTbl (j : Json) : Option Tbl :=
  match j.getObjVal? "cols", j.getObjVal? "x" with
  | .ok c, .ok x =>
    match strList c, x.getArr? with
    | .ok cols, .ok xs => match xs.toList.mapM (·.getInt?) with
      | .ok is => some ⟨cols, isort is⟩
      | .error _ => none
    | _, _ => none
  | _, _ => none

def parseOps (j : Json) : POps :=
  match j.getObjVal? "k" >>= Json.getStr? with
  | .ok "table" => match str j "src" with | .ok s => .table s | _ => .bad
  | .ok "shift" => match str j "src", int j "d" with | .ok s, .ok d => .shift s d | _, _ => .bad
  | .ok "concat" => match str j "a", str j "b" with | .ok a, .ok b => .concat a b | _, _ => .bad
  | _ => .bad

def parseOp (j : Json) : Except String (Op String Tbl POps) := do
  match ← str j "op" with
  | "insert" => return .insert (parseKeyArg (← obj j "key")) (parseTbl (← obj j "value")) (parseOw (← obj j "ow"))
  | "execute" => return .execute (parseOps (← obj j "ops")) (parseKeyArg (← obj j "key")) (parseOw (← obj j "ow"))
  | "remove" => return .remove (parseStrKey (← obj j "key"))
  | "describe" => return .describe (parseStrKey (← obj j "key"))
  | "retrieve" => return .retrieve (parseStrKey (← obj j "key"))
  | "keys" => return .keys
  | o => throw s!"bad-op {o}"

def errName : Err → String
  | .KeyError => "KeyError" | .ValueError => "ValueError" | .AssertionError => "AssertionError"
  | .TypeError => "TypeError" | .Other => "Other"

def tblOut (t : Tbl) : Json :=
  Json.mkObj [("cols", strListOut t.cols), ("x", Json.arr ((isort t.xs).toArray.map (fun i => toJson i)))]

def outJson : Except Err (Out String Tbl (List String)) → Json
  | .error e => Json.mkObj [("err", errName e)]
  | .ok .unit => Json.mkObj [("ok", Json.null)]
  | .ok (.descr k d) => Json.mkObj [("ok", Json.mkObj [("key", k), ("cols", strListOut d)])]
  | .ok (.table t) => Json.mkObj [("ok", tblOut t)]
  | .ok (.keys ks) => Json.mkObj [("ok", strListOut (ssort ks))]

/-- contents as the harness observes them: `[[key, retrieve(key)] for key in sorted(keys())]` -/
def snapshot (ks : List String) (look : String → Option Tbl) : Json :=
  Json.arr ((ssort ks).toArray.map fun k =>
    Json.arr #[Json.str k, match look k with | some t => tblOut t | none => Json.null])

def handleMem (c : Json) : Except String Json := do
  let P := params .KeyError
  let ops ← arr c "ops"
  let mut s : Mem.State String Tbl := Mem.init
  let mut out : Array Json := #[]
  for o in ops do
    let op ← parseOp o
    let r := Mem.step P s op
    s := r.2
    out := out.push (Json.mkObj [("r", outJson r.1), ("n", toJson s.nTmp),
      ("s", snapshot (AL.keys s.map) (AL.lookup s.map))])
  return Json.mkObj [("steps", Json.arr out), ("final", Json.null)]

def handleDb (c : Json) : Except String Json := do
  let P := params .Other
  let ops ← arr c "ops"
  let foreign ← arr c "foreign"
  let drop ← bool c "close_drop"
  let mut db0 : List (String × Tbl) := []
  for f in foreign do
    let a ← f.getArr?
    match a.toList with
    | [k, t] =>
      match parseTbl t with
      | some tb => db0 := db0 ++ [(← k.getStr?, tb)]
      | none => throw "bad foreign table"
    | _ => throw "bad foreign entry"
  let mut s : DB.State String Tbl (List String) := DB.init db0
  let mut out : Array Json := #[]
  let mut guards : Array Json := #[]
  let mut i : Nat := 0
  for o in ops do
    let op ← parseOp o
    if !DB.guardExec P s op then guards := guards.push (toJson i)
    let r := DB.step P s op
    s := r.2
    -- the space's view: keys() and retrieve() (a described key without table reads as null)
    let look := fun k => if AL.has s.descr k then AL.lookup s.db k else none
    out := out.push (Json.mkObj [("r", outJson r.1), ("n", toJson s.nTmp),
      ("s", snapshot (AL.keys s.descr) look), ("t", strListOut (ssort (AL.keys s.db)))])
    i := i + 1
  let cl := DB.close drop s
  let fin := Json.mkObj [
    ("close", match cl.1 with | .ok _ => Json.str "ok" | .error e => Json.str (errName e)),
    ("tables", snapshot (AL.keys cl.2.db) (AL.lookup cl.2.db))]
  return Json.mkObj [("steps", Json.arr out), ("final", fin), ("guards", Json.arr guards)]

def handlers : List (String × Handler) := [("dspace_mem", handleMem), ("dspace_db", handleDb)]

end DAVerif.Drv.DataSpaceDrv
