import DAVerif.Drv.Util
import DAVerif.Core.CC
/-!
Driver suite `cc`: `{"f":[...], "g":[...]}` (optionally `"keys":[...]`, an enumeration of the Python set
`keys`) → `{"ok":[labels…]}` | `{"err":"KeyError"}`.  Vertices are all integers (model at `Int`) or all
strings (model at `String`, compared by code point like Python `str`).
-/
namespace DAVerif.Drv.CCDrv
open Lean DAVerif.Drv DAVerif.CC

def ints (a : Array Json) : Option (List Int) := a.toList.mapM (fun j => (j.getInt?).toOption)
def strs (a : Array Json) : Option (List String) := a.toList.mapM (fun j => (j.getStr?).toOption)

def outcome {V : Type} [DecidableEq V] [LT V] [DecidableLT V] (toJ : V → Json)
    (keys : Option (List V)) (f g : List V) : Json :=
  let r := match keys with
    | some ks => connectedComponentsWith ks f g
    | none => connectedComponents f g
  match r with
  | some labels => Json.mkObj [("ok", Json.arr (labels.toArray.map toJ))]
  | none => Json.mkObj [("err", "KeyError")]

def handle (c : Json) : Except String Json := do
  let f ← arr c "f"
  let g ← arr c "g"
  let ks : Option (Array Json) := match optKey c "keys" with
    | some j => j.getArr?.toOption
    | none => none
  match ints f, ints g with
  | some fi, some gi =>
    match ks with
    | none => return outcome (fun (v : Int) => toJson v) none fi gi
    | some k => match ints k with
      | some ki => return outcome (fun (v : Int) => toJson v) (some ki) fi gi
      | none => throw "bad-op mixed vertex types"
  | _, _ =>
    match strs f, strs g with
    | some fs, some gs =>
      match ks with
      | none => return outcome Json.str none fs gs
      | some k => match strs k with
        | some ksl => return outcome Json.str (some ksl) fs gs
        | none => throw "bad-op mixed vertex types"
    | _, _ => throw "bad-op vertices must be all ints or all strings"

def handlers : List (String × Handler) := [("cc", handle)]

end DAVerif.Drv.CCDrv
