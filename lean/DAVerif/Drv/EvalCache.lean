import DAVerif.Drv.Util
import DAVerif.Space.EvalCache
/-!
Driver suites for C25:
* `evalcache_key`  – the literal key text of `hash_data_frame` / `make_cache_key` (digest and the set of
                     non-printable non-ASCII code points are inputs),
* `evalcache_pair` – do two frames share a key / are they `.equals` (model: hash view),
* `evalcache`      – store/get histories with in-place mutation of caller-held frames.
-/
namespace DAVerif.Drv.EvalCacheDrv
open Lean DAVerif.Drv DAVerif.EvalCache

def sOut (s : Str) : Json := Json.str (String.ofList s)

/-! ### frames over the wire -/

def parseOCell (j : Json) : Except String OCell :=
  match j with
  | .null => return .null
  | _ =>
    match j.getObjVal? "s", j.getObjVal? "i" with
    | .ok s, _ => return .str (← s.getStr?).toList
    | _, .ok i => return .int (← i.getInt?)
    | _, _ => throw "bad-op object cell"

def parseOptStr (j : Json) : Except String (Option Str) :=
  match j with
  | .null => return none
  | _ => return some (← j.getStr?).toList

def parseColumn (j : Json) : Except String Column := do
  let v := (← arr j "v").toList
  match ← str j "t" with
  | "int64" => return .int64 (← v.mapM (·.getInt?))
  | "float64" => return .float64 (← v.mapM (·.getNat?))
  | "bool" => return .bool (← v.mapM (·.getBool?))
  | "str" => return .str (← v.mapM parseOptStr)
  | "object" => return .object (← v.mapM parseOCell)
  | t => throw s!"bad-op dtype {t}"

def parseFrame (j : Json) : Except String Frame := do
  let names := (← strList (← obj j "names")).map String.toList
  let cols ← (← arr j "cols").toList.mapM parseColumn
  let index ← (← arr j "index").toList.mapM (·.getInt?)
  let d : Frame := { names := names, cols := cols, index := index }
  if d.wf then return d else throw "bad-op ill-formed frame"

def ocellOut : OCell → Json
  | .null => Json.null
  | .str s => Json.mkObj [("s", sOut s)]
  | .int n => Json.mkObj [("i", toJson n)]

def columnOut : Column → Json
  | .int64 xs => Json.mkObj [("t", "int64"), ("v", Json.arr (xs.toArray.map toJson))]
  | .float64 xs => Json.mkObj [("t", "float64"), ("v", Json.arr (xs.toArray.map toJson))]
  | .bool xs => Json.mkObj [("t", "bool"), ("v", Json.arr (xs.toArray.map toJson))]
  | .str xs => Json.mkObj [("t", "str"), ("v", Json.arr (xs.toArray.map fun | none => Json.null | some s => sOut s))]
  | .object xs => Json.mkObj [("t", "object"), ("v", Json.arr (xs.toArray.map ocellOut))]

def frameOut (d : Frame) : Json :=
  Json.mkObj [("names", Json.arr (d.names.toArray.map sOut)), ("cols", Json.arr (d.cols.toArray.map columnOut)),
              ("index", Json.arr (d.index.toArray.map toJson))]

/-! ### suite `evalcache_key` -/

structure TableDesc where
  name : Str
  rows : Nat
  names : List Str
  digest : Str

def handleKey (c : Json) : Except String Json := do
  let npl ← (← arr c "np").toList.mapM (·.getNat?)
  let np : Char → Bool := fun ch => npl.contains ch.toNat
  let dialect := (← str c "dialect").toList
  let sql := (← str c "sql").toList
  let tables ← (← arr c "tables").toList.mapM fun t => do
    return ({ name := (← str t "name").toList, rows := ← nat t "rows",
              names := (← strList (← obj t "names")).map String.toList,
              digest := (← str t "digest").toList } : TableDesc)
  let hk : TableDesc → Str := fun t => hashDataFrame np t.rows t.names.length t.names t.digest
  let key := makeKey hk dialect sql (tables.map fun t => (t.name, t))
  return Json.mkObj [
    ("frames", Json.arr (tables.toArray.map fun t => sOut (hk t))),
    ("key", Json.arr #[sOut key.dialect, sOut key.sql,
       Json.arr (key.dat.toArray.map fun p => Json.arr #[sOut p.1, sOut p.2])])]

/-! ### suite `evalcache_pair` -/

/-- the stand-in for the key text in the frame-level suites: by `key_encoding_injective` and the
collision-freeness assumption the text is equal iff these three components are -/
abbrev MK := (Nat × Nat) × List Str × List (List Atom)
def mk (d : Frame) : MK := (d.shape, d.names, hview d)

def handlePair (c : Json) : Except String Json := do
  let a ← parseFrame (← obj c "a")
  let b ← parseFrame (← obj c "b")
  return Json.mkObj [("same_key", toJson (decide (mk a = mk b))), ("equals", toJson (a.equals b)),
    ("guards_ok", toJson (a.objPlain && b.objPlain && sameDtypes a b))]

/-! ### suite `evalcache` -/

def setAt {α : Type} (l : List α) (i : Nat) (v : α) : Except String (List α) :=
  if i < l.length then return l.set i v else throw "bad-op row out of range"

def setCell (c : Column) (r : Nat) (v : Json) : Except String Column := do
  match c with
  | .int64 xs => return .int64 (← setAt xs r (← v.getInt?))
  | .float64 xs => return .float64 (← setAt xs r (← v.getNat?))
  | .bool xs => return .bool (← setAt xs r (← v.getBool?))
  | .str xs => return .str (← setAt xs r (← parseOptStr v))
  | .object xs => return .object (← setAt xs r (← parseOCell v))

def parseArgs (s : State Frame MK) (refs : Array Nat) (j : Json) : Except String Args := do
  let data ← (← arr j "data").toList.mapM fun p => do
    let pr ← p.getArr?
    match pr.toList with
    | [n, r] =>
      let id : Nat := match r.getNat? with
        | .ok k => (refs[k]?).getD (s.heap.length + 1000000)
        | .error _ => s.heap.length + 1000000      -- not a data frame
      return ((← n.getStr?).toList, id)
    | _ => throw "bad-op data entry"
  return { valid := ← bool j "valid", dialect := (← str j "dialect").toList, sql := (← str j "sql").toList,
           data := data }

def refOf (s : State Frame MK) (refs : Array Nat) (j : Json) (k : String) : Except String Nat := do
  match optKey j k with
  | none => return s.heap.length + 1000000
  | some r =>
    match refs[← r.getNat?]? with
    | some i => return i
    | none => throw "bad-op unknown reference"

def errOut : Err → String
  | .assertion => "AssertionError"
  | .key => "KeyError"

def handleHistory (c : Json) : Except String Json := do
  let ops ← arr c "ops"
  let mut s : State Frame MK := State.init
  let mut out : Array Json := #[]
  let mut lastGet : Option Nat := none     -- the object the last successful get returned
  let mut refs : Array Nat := #[]          -- reference number n = the n-th object made by `new`
  for o in ops do
    let opOpt : Option (Op Frame) ← (do
      match ← str o "op" with
      | "new" => return some (Op.new (← parseFrame (← obj o "frame")))
      | "setcell" =>
        let i ← refOf s refs o "obj"
        match s.heap[i]? with
        | none => throw "bad-op dead reference"
        | some d =>
          let j ← nat o "col"
          match d.cols[j]? with
          | none => throw "bad-op column out of range"
          | some col =>
            let col' ← setCell col (← nat o "row") (← obj o "val")
            return some (Op.mutate i { d with cols := d.cols.set j col' })
      | "addcol" =>
        let i ← refOf s refs o "obj"
        match s.heap[i]? with
        | none => throw "bad-op dead reference"
        | some d =>
          let vals ← (← arr o "vals").toList.mapM (·.getInt?)
          let d' : Frame := { d with names := d.names ++ [(← str o "name").toList], cols := d.cols ++ [.int64 vals] }
          if d'.wf then return some (Op.mutate i d') else throw "bad-op ill-formed addcol"
      | "mut_last_get" =>
        -- harness-level sugar: change the object the most recent successful get returned
        match lastGet with
        | none => return none
        | some i =>
          match s.heap[i]? with
          | none => return none
          | some d =>
            let v ← int o "val"
            let cell := (← str o "how") == "cell"
            match cell, d.index, d.cols with
            | true, _ :: _, .int64 (_ :: xs) :: cs =>
              return some (Op.mutate i { d with cols := .int64 (v :: xs) :: cs })
            | _, _, _ =>
              if d.names.contains ['_', 'm'] then return none
              else return some (Op.mutate i { d with names := d.names ++ [['_', 'm']],
                                                     cols := d.cols ++ [.int64 (d.index.map fun _ => v)] })
      | "store" => return some (Op.store (← parseArgs s refs o) (← refOf s refs o "res"))
      | "get" => return some (Op.get (← parseArgs s refs o))
      | "data_off" => return some Op.dataOff
      | x => throw s!"bad-op {x}")
    match opOpt with
    | none => pure ()
    | some op =>
      let (s', r) := step mk Frame.equals s op
      let res : Json := match r, op with
        | .err e, _ => Json.mkObj [("r", errOut e)]
        | .noRef, _ => Json.mkObj [("r", "bad-ref")]
        | .obj i, .get _ => Json.mkObj [("r", "ok"), ("frame", match s'.heap[i]? with | some d => frameOut d | none => Json.null)]
        | _, _ => Json.mkObj [("r", "ok")]
      let res := match op with
        | .store _ _ => res.setObjVal! "dirty" (toJson s'.dirty)
            |>.setObjVal! "n_result" (toJson s'.result.length)
            |>.setObjVal! "n_data" (match s'.data with | none => Json.null | some dc => toJson dc.length)
        | _ => res
      match r, op with
      | .obj i, .get _ => lastGet := some i
      | .obj i, .new _ => refs := refs.push i
      | _, _ => pure ()
      s := s'
      out := out.push res
  let contents (ids : List Nat) : Json :=
    Json.arr (ids.toArray.map fun i => match s.heap[i]? with | some d => frameOut d | none => Json.null)
  let fin := Json.mkObj [
    ("result", contents (s.result.map Prod.snd)),
    ("data", match s.data with | none => Json.null | some dc => contents (dc.map Prod.snd))]
  return Json.mkObj [("steps", Json.arr out), ("final", fin)]

def handlers : List (String × Handler) :=
  [("evalcache_key", handleKey), ("evalcache_pair", handlePair), ("evalcache", handleHistory)]

end DAVerif.Drv.EvalCacheDrv
