import DAVerif.Drv.OpsJson
import DAVerif.Spec.Rename
import DAVerif.Spec.WithText
/-! Driver suites of C15: the reserved-name classification and the guard `NoReserved`, computed by the definitions the
theorems mention (`lean/DAVerif/Spec/Rename.lean`). -/
namespace DAVerif.Drv.RenameDrv
open Lean DAVerif DAVerif.Drv DAVerif.Sql

/-- `{"cols": [name…], "tabs": [name…]}` → which names are reserved -/
def handleReserved (c : Json) : Except String Json := do
  let cols ← strList (← obj c "cols")
  let tabs ← strList (← obj c "tabs")
  return Json.mkObj [("cols", Json.arr (cols.toArray.map (fun s => Json.bool (Reserved.isReservedCol s)))),
    ("tabs", Json.arr (tabs.toArray.map (fun s => Json.bool (Reserved.isReservedTable s))))]

def pairs (j : Json) : Except String (List (String × String)) := do
  let a ← j.getArr?
  a.toList.mapM fun p => do
    let l ← strList p
    match l with
    | [x, y] => pure (x, y)
    | _ => throw "pair expected"

def renOf (m : List (String × String)) : String → String := fun s => (m.lookup s).getD s

/-- `{"ops", "tables", "cmap": [[old,new]…], "tmap": [[old,new]…]}` → the guard of the known findings and whether the
renaming is injective on the names involved, for the pipeline and inputs of the case -/
def handleGuard (c : Json) : Except String Json := do
  let ops ← opsOfJson (← obj c "ops")
  let env ← envOfJson (← obj c "tables")
  let ρc := renOf (← pairs (← obj c "cmap"))
  let ρt := renOf (← pairs (← obj c "tmap"))
  -- the exact guard of the WITH-form theorem, for the renamed pipeline, both dialect configurations
  let cteFree := fun (cfg : SqlCfg) => match withFormOf cfg (ops.ren ρc ρt) with
    | .ok ls => CteNamesFree ls.2 ls.1
    | .error _ => true
  return Json.mkObj [("no_reserved", .bool (NoReserved ρc ρt ops env)),
    ("cte_names_free", .bool (cteFree SqlCfg.sqlite && cteFree SqlCfg.generic)),
    ("no_reserved_tables", .bool (NoReservedTables ρt ops env)),
    ("inj_cols", .bool (decide (InjOn ρc (names ops env)))),
    ("inj_tabs", .bool (decide (InjOn ρt (tabNames ops env))))]

def handlers : List (String × Handler) := [("c15_reserved", handleReserved), ("c15_guard", handleGuard)]

end DAVerif.Drv.RenameDrv
