import DAVerif.Drv.OpsJson
import DAVerif.Ops.PrintCalls
import DAVerif.Ops.Eq
/-! Driver suite `k3_calls` (C12): pipeline tree → the printed call tree as JSON, the pipeline the printed calls
rebuild to, whether it compares equal (`Eq.eqOps`, the model of `==`) and the guard `noRemerge`. -/
namespace DAVerif.Drv.CallsDrv
open Lean DAVerif DAVerif.Drv DAVerif.C12

def partToJson : PartArg → Json
  | .none => .null
  | .one => toJson (1 : Nat)
  | .cols cs => strListOut cs

def optMapToJson (m : List (String × Option String)) : Json :=
  Json.arr (m.map (fun kv => Json.arr #[.str kv.1, match kv.2 with | none => .null | some v => .str v])).toArray

def onToJson (on : List (String × String)) : Json :=
  Json.arr (on.map (fun ab => if ab.1 == ab.2 then Json.str ab.1 else Json.arr #[.str ab.1, .str ab.2])).toArray

def callToJson : Call → Json
  | .extend ops pa o r => Json.mkObj [("call", "extend"), ("ops", assignToJson ops), ("partition_by", partToJson pa),
      ("order_by", strListOut o), ("reverse", strListOut r)]
  | .project ops g => Json.mkObj [("call", "project"), ("ops", assignToJson ops), ("group_by", strListOut g)]
  | .selectRows e => Json.mkObj [("call", "select_rows"), ("expr", termToJson e)]
  | .selectCols cs => Json.mkObj [("call", "select_columns"), ("cols", strListOut cs)]
  | .dropCols cs => Json.mkObj [("call", "drop_columns"), ("cols", strListOut cs)]
  | .order cs r l => Json.mkObj [("call", "order_rows"), ("cols", strListOut cs), ("reverse", strListOut r),
      ("limit", match l with | none => .null | some n => toJson n)]
  | .rename m => Json.mkObj [("call", "rename_columns"), ("map", pairsToJson m)]
  | .mapCols m => Json.mkObj [("call", "map_columns"), ("map", optMapToJson m)]
  | .convert rm => Json.mkObj [("call", "convert_records"), ("rm", recMapToJson rm)]

/-- (start table, calls of the main chain in call order) -/
partial def flat : Printed → (String × List String) × List Json
  | .table n cs => ((n, cs), [])
  | .call r c => let (t, cs) := flat r; (t, cs ++ [callToJson c])
  | .join r b on jt =>
    let (t, cs) := flat r
    (t, cs ++ [Json.mkObj [("call", "natural_join"), ("b", printedToJson b), ("on", onToJson on), ("jointype", .str jt)]])
  | .concat r b idc an bn =>
    let (t, cs) := flat r
    (t, cs ++ [Json.mkObj [("call", "concat_rows"), ("b", printedToJson b),
      ("id_column", match idc with | none => .null | some c => .str c), ("a_name", .str an), ("b_name", .str bn)]])
where
  printedToJson (p : Printed) : Json :=
    let (t, cs) := flat p
    Json.mkObj [("table", Json.mkObj [("name", .str t.1), ("cols", strListOut t.2)]), ("calls", Json.arr cs.toArray)]

def handleCalls (c : Json) : Except String Json := do
  let p ← opsOfJson (← obj c "ops")
  let pr := toCalls p
  let rebuilt : Json × Json := match rebuild pr with
    | .ok q => (Json.mkObj [("ok", opsToJson q)], .bool (Eq.eqOps p q && Eq.eqOps q p))
    | .error e => (errToJson e, .bool false)
  return Json.mkObj [("printed", flat.printedToJson pr), ("rebuilt", rebuilt.1), ("equal", rebuilt.2),
    ("no_remerge", .bool (noRemerge p))]

def handlers : List (String × Handler) := [("k3_calls", handleCalls)]

end DAVerif.Drv.CallsDrv
