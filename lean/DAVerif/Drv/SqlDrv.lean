import DAVerif.Drv.OpsDrv
import DAVerif.Sql.ThetaSql
import DAVerif.Sql.WithForm
/-! Driver suites for the SQL layer: `k5_near` (NearSQL skeleton of a pipeline), `k5_sem` (result of the generated SQL). -/
namespace DAVerif.Drv.SqlDrv
open Lean DAVerif DAVerif.Drv DAVerif.Sql

def cfgOfJson (c : Json) : SqlCfg :=
  let dialect := match optKey c "dialect" with | some (.str s) => s | _ => "sqlite"
  let merges := match optKey c "merges" with | some (.bool b) => b | _ => true
  { merges := merges, emulateRightFull := dialect == "sqlite" }

def engineOfJson (c : Json) : EngineCfg :=
  match (optKey c "engine").orElse (fun _ => optKey c "dialect") with
  | some (.str "postgres") => EngineCfg.postgres
  | _ => EngineCfg.sqlite

def termsSkel (ts : Terms) : Json :=
  Json.arr (ts.map (fun kv => Json.arr #[.str kv.1, .bool (isPass kv.2)])).toArray

/-- join terms also say WHICH side leads a coalesce / qualifies a pass-through column -/
def joinTermShape : STerm → String
  | .pass => "pass"
  | .coalesce true _ => "coalesce:l:r"
  | .coalesce false _ => "coalesce:r:l"
  | .qual true _ => "qual:l"
  | .qual false _ => "qual:r"
  | _ => "other"

def joinTermsSkel (ts : Terms) : Json :=
  Json.arr (ts.map (fun kv => Json.arr #[.str kv.1, .bool (isPass kv.2), .str (joinTermShape kv.2)])).toArray

def optStrs : Option (List String) → Json
  | none => .null
  | some cs => strListOut cs

/-- the observable skeleton of a NearSQL tree (what the harness can read off the real objects) -/
partial def nearSkel : Near → Json
  | .table n ts => Json.mkObj [("cls", "table"), ("name", .str n), ("terms", strListOut ts)]
  | .cte n => Json.mkObj [("cls", "cte"), ("name", .str n)]
  | .unary n ts _ sub sc sf mg _ _ =>
    Json.mkObj [("cls", "unary"), ("name", .str n),
      ("terms", match ts with | none => .null | some ts => termsSkel ts),
      ("sub", nearSkel sub), ("sub_cols", optStrs sc),
      ("suffix", .str (match sf with | .none => "" | .whereE _ => "WHERE" | .groupBy _ => "GROUP BY"
                                       | .orderBy cs _ lim => if cs.isEmpty then (if lim.isSome then "LIMIT" else "") else "ORDER BY")),
      ("mergeable", .bool mg)]
  | .join n ts l lc ln r rc rn jt oa ob _ =>
    Json.mkObj [("cls", "join"), ("name", .str n), ("terms", joinTermsSkel ts), ("l", nearSkel l), ("l_cols", strListOut lc),
      ("l_name", .str ln), ("r", nearSkel r), ("r_cols", strListOut rc), ("r_name", .str rn),
      ("joiner", .str (jt.toStr ++ " JOIN")), ("on_a", strListOut oa), ("on_b", strListOut ob)]
  | .union n ts l r cs _ =>
    Json.mkObj [("cls", "union"), ("name", .str n), ("terms", strListOut ts), ("l", nearSkel l), ("r", nearSkel r),
      ("cols", strListOut cs)]

def handleNear (c : Json) : Except String Json := do
  let ops ← opsOfJson (← obj c "ops")
  match toNearSql (cfgOfJson c) ops with
  | .ok n => return Json.mkObj [("ok", nearSkel n)]
  | .error e => return errToJson e

def handleSqlSem (c : Json) : Except String Json := do
  let ops ← opsOfJson (← obj c "ops")
  let env ← envOfJson (← obj c "tables")
  match OpsDrv.supported ops with
  | some why => return Json.mkObj [("unsupported", .str why)]
  | none =>
    match toNearSql (cfgOfJson c) ops with
    | .error e => return errToJson e
    | .ok n =>
      match semSql ThetaSql.concrete (engineOfJson c) env n with
      | .ok t => return Json.mkObj [("ok", tableToJson t)]
      | .error e => return errToJson e

/-- `is_nan` / `is_inf` are rendered per dialect (Python user functions on SQLite, comparisons with float literals on
PostgreSQL); the concrete interpretation `ThetaSql` is SQLite's, so pipelines using them are not compared for the
PostgreSQL dialect text -/
partial def mentions (names : List String) : Term → Bool
  | .app op args _ _ => names.contains op || args.any (mentions names)
  | _ => false

partial def opsMention (names : List String) : Ops → Bool
  | .table _ _ => false
  | .extend s ops _ _ _ _ | .project s ops _ => ops.any (fun kv => mentions names kv.2) || opsMention names s
  | .selectRows s e => mentions names e || opsMention names s
  | .selectCols s _ | .dropCols s _ | .order s _ _ _ | .rename s _ | .mapCols s _ _ | .convert s _ => opsMention names s
  | .join a b _ _ _ | .concat a b _ _ _ => opsMention names a || opsMention names b

def boolOpt (c : Json) (k : String) (d : Bool) : Bool :=
  match optKey c k with | some (.bool b) => b | _ => d

/-- WITH-form skeleton: names of the emitted CTEs in order, with their bound columns, and the last step -/
def handleWith (c : Json) : Except String Json := do
  let ops ← opsOfJson (← obj c "ops")
  match toNearSql (cfgOfJson c) ops with
  | .error e => return errToJson e
  | .ok n =>
    let (last, steps, _) := toWithForm (if boolOpt c "cte_elim" false then some [] else none) n
    return Json.mkObj [("ok", Json.mkObj [
      ("steps", Json.arr (steps.map (fun st => Json.mkObj [("name", .str st.name), ("near", nearSkel st.near),
          ("cols", optStrs st.cols), ("force", .bool st.force)])).toArray),
      ("last", nearSkel last)])]

/-- result of `to_sql` under formatting / optimisation options -/
def handleSqlOpt (c : Json) : Except String Json := do
  let ops ← opsOfJson (← obj c "ops")
  let env ← envOfJson (← obj c "tables")
  let dialectPg := match optKey c "dialect" with | some (.str "postgres") => true | _ => false
  match (OpsDrv.supported ops).orElse (fun _ =>
      if dialectPg && opsMention ["is_nan", "is_inf", "is_bad"] ops then some "dialect-specific op" else none) with
  | some why => return Json.mkObj [("unsupported", .str why)]
  | none =>
    match toNearSql (cfgOfJson c) ops with
    | .error e => return errToJson e
    | .ok n =>
      -- `supports_cte_elim` is True for the PostgreSQL dialect only (SQLiteModel leaves the default False)
      match semToSql ThetaSql.concrete (engineOfJson c) env (boolOpt c "use_with" true)
          (boolOpt c "cte_elim" false && dialectPg) n with
      | .ok t => return Json.mkObj [("ok", tableToJson t)]
      | .error e => return errToJson e

def handlers : List (String × Handler) :=
  [("k5_near", handleNear), ("k5_sem", handleSqlSem), ("k5_with", handleWith), ("k5_semopt", handleSqlOpt)]

end DAVerif.Drv.SqlDrv
