import DAVerif.Sem.Eval
/-!
The windowed extend **with the Pandas executor's sort key** (finding D30, `pandas_base.py::_extend_step`):

```
col_list = partition_by (set order) ++ order_by ++ [first-argument column of every op, in op order]   (no repeats)
ascending = [c not in reverse for c in col_list]
if len(partition_by) + len(order_by) > 0:  subframe = subframe.sort_values(by=col_list, ascending=ascending)
```

`sort_values` on several keys is a stable lexicographic sort, so inside a partition rows that tie on `order_by` are
ordered by the ops' value columns and only then by their original position.  `Sem/Eval.lean::semExtendWindow` (the
shared model, validated for window orders that are total within each partition) sorts by `order_by` alone.  This
file gives the variant with the executor's key; it is used only to state the tie-break finding in `Props/C10.lean`.

No imports beyond model files.
-/
namespace DAVerif

/-- the columns the executor appends to the sort key: `opk.args[0].column_name` for every op, in op order -/
def valueCols (ops : Assign) : List String :=
  ops.filterMap (fun kv => match kv.2 with
    | .app _ (.col c :: _) _ _ => some c
    | _ => none)

/-- stable insertion sort (structural, so that closed instances evaluate in the kernel) -/
def insertBy {α : Type} (le : α → α → Bool) (a : α) : List α → List α
  | [] => [a]
  | b :: l => if le a b then a :: b :: l else b :: insertBy le a l

def isortBy {α : Type} (le : α → α → Bool) : List α → List α
  | [] => []
  | a :: l => insertBy le a (isortBy le l)

def semExtendWindowTies (Θ : Interp) (ops : Assign) (partition order reverse : List String) (t : Table)
    (outCols : List String) : Table :=
  let idx := t.rows.zipIdx
  let key := appendNew (appendNew partition order) (valueCols ops)
  ⟨outCols, idx.map (fun ri =>
    let r := ri.1
    let part := idx.filter (fun rj => keyOf rj.1 partition == keyOf r partition)
    let sorted := if partition.isEmpty && order.isEmpty then part
                  else isortBy (fun a b => rowLe key reverse a.1 b.1) part
    let pos := sorted.findIdx (fun rj => rj.2 == ri.2)
    let srows := sorted.map (·.1)
    (r.setAll (ops.map (fun kv =>
      (kv.1, Θ.win (opName kv.2) (constArgs kv.2) (argValues kv.2 srows) pos)))).select outCols)⟩

end DAVerif
