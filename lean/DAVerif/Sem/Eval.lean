import DAVerif.Core.Table
import DAVerif.Ops.Builder
/-
Relational semantics of operator trees over an abstract interpretation `Θ` of the scalar, aggregate and
window functions.  One definition, two configurations:

* `SemCfg.pandas` – what `pandas_base.py`'s `_*_step` methods compute (A.3 of DESIGN.md), after fix D13:
  join keys match null with null (`pandas.merge`);
* `SemCfg.ref`    – the reference meaning the properties talk about (standard SQL joins: null never matches,
  CROSS is the plain product).

Row order of results is modelled (lists) but only claimed where a property claims it (`order_rows`);
column order inside a row follows the declared `column_names` and is compared as a set except after
`select_columns`.

No imports beyond model files: part of the compiled driver.
-/
namespace DAVerif

/-- evaluated argument of a scalar function: a cell, a list constant or a dict constant -/
inductive ArgV where
  | v (x : Val)
  | l (xs : List Val)
  | d (kvs : List (Val × Val))
  deriving DecidableEq, Repr, Inhabited

/-- interpretation of the function symbols -/
structure Interp where
  /-- row-wise functions and operators -/
  scalar : String → List ArgV → Val
  /-- aggregates: op, the group's argument values in row order -/
  agg : String → List Val → Val
  /-- window functions: op, extra constant arguments, the partition's argument values in window order,
      position of the current row in that order -/
  win : String → List Val → List Val → Nat → Val
  /-- record transforms (C17's model) -/
  convert : RecMap → Table → Except Err Table

structure SemCfg where
  nullKeysMatch : Bool
  crossAsOuter : Bool
  deriving DecidableEq, Repr

/-- after fix 1a3e0a8 Pandas evaluates CROSS as an inner join on a constant key (`crossAsOuter` false); the flag is
kept so that the pre-fix behaviour stays expressible -/
def SemCfg.pandas : SemCfg := ⟨true, false⟩
def SemCfg.ref : SemCfg := ⟨false, false⟩

/-! ### expressions, row-wise -/
mutual
def evalTerm (Θ : Interp) (r : Row) : Term → ArgV
  | .value v => .v v.toVal
  | .col c => .v (r.get c)
  | .list vs => .l (vs.map Lit.toVal)
  | .dict kvs => .d (kvs.map (fun kv => (kv.1.toVal, kv.2.toVal)))
  | .app op args _ _ => .v (Θ.scalar op (evalArgs Θ r args))
def evalArgs (Θ : Interp) (r : Row) : List Term → List ArgV
  | [] => []
  | t :: ts => evalTerm Θ r t :: evalArgs Θ r ts
end

def evalCell (Θ : Interp) (r : Row) (t : Term) : Val :=
  match evalTerm Θ r t with
  | .v x => x
  | _ => .null

/-! ### ordering rows -/

/-- `a` sorts before-or-equal `b` on one column; nulls last in both directions (pandas `sort_values`) -/
def cellLe (rev : Bool) (a b : Val) : Bool :=
  match a.isNull, b.isNull with
  | true, true => true
  | true, false => false
  | false, true => true
  | false, false => if rev then !(Val.lt a b) else !(Val.lt b a)

def cellEq (a b : Val) : Bool := a == b

/-- lexicographic ≤ on the order columns -/
def rowLe (order reverse : List String) (r1 r2 : Row) : Bool :=
  match order with
  | [] => true
  | c :: cs =>
    let a := r1.get c
    let b := r2.get c
    if cellEq a b then rowLe cs reverse r1 r2
    else cellLe (reverse.contains c) a b

/-- stable sort by the order columns -/
def sortRows (order reverse : List String) (rows : List Row) : List Row :=
  rows.mergeSort (fun a b => rowLe order reverse a b)

def sortIdx (order reverse : List String) (rows : List (Row × Nat)) : List (Row × Nat) :=
  rows.mergeSort (fun a b => rowLe order reverse a.1 b.1)

/-! ### the operators -/

def keyOf (r : Row) (cs : List String) : List Val := r.vals cs

def semExtendPlain (Θ : Interp) (ops : Assign) (t : Table) (outCols : List String) : Table :=
  ⟨outCols, t.rows.map (fun r => (r.setAll (ops.map (fun kv => (kv.1, evalCell Θ r kv.2)))).select outCols)⟩

/-- argument values of a window/aggregate op over a list of rows: first argument a column, a constant, or
absent (then a column of ones, as the executors' stand-in columns) -/
def argValues (t : Term) (rows : List Row) : List Val :=
  match t with
  | .app _ (.col c :: _) _ _ => rows.map (fun r => r.get c)
  | .app _ (.value v :: _) _ _ => rows.map (fun _ => v.toVal)
  | _ => rows.map (fun _ => Val.num 1)

def constArgs (t : Term) : List Val :=
  match t with
  | .app _ (_ :: rest) _ _ => rest.map (fun a => match a with | .value v => v.toVal | _ => Val.null)
  | _ => []

def opName (t : Term) : String :=
  match t with
  | .app op _ _ _ => op
  | _ => ""

def semExtendWindow (Θ : Interp) (ops : Assign) (partition order reverse : List String) (t : Table)
    (outCols : List String) : Table :=
  let idx := t.rows.zipIdx
  ⟨outCols, idx.map (fun ri =>
    let r := ri.1
    let part := idx.filter (fun rj => keyOf rj.1 partition == keyOf r partition)
    let sorted := sortIdx order reverse part
    let pos := sorted.findIdx (fun rj => rj.2 == ri.2)
    let srows := sorted.map (·.1)
    (r.setAll (ops.map (fun kv =>
      (kv.1, Θ.win (opName kv.2) (constArgs kv.2) (argValues kv.2 srows) pos)))).select outCols)⟩

def semProject (Θ : Interp) (ops : Assign) (group : List String) (t : Table) (outCols : List String) : Table :=
  if group.isEmpty then
    ⟨outCols, [Row.select (ops.map (fun kv => (kv.1, Θ.agg (opName kv.2) (argValues kv.2 t.rows)))) outCols]⟩
  else
    let keys := (t.rows.map (fun r => keyOf r group)).eraseDups
    ⟨outCols, keys.map (fun k =>
      let g := t.rows.filter (fun r => keyOf r group == k)
      Row.select (group.zip k ++ ops.map (fun kv => (kv.1, Θ.agg (opName kv.2) (argValues kv.2 g)))) outCols)⟩

def semSelectRows (Θ : Interp) (e : Term) (t : Table) : Table :=
  ⟨t.cols, t.rows.filter (fun r => evalCell Θ r e == .bool true)⟩

def semOrder (cs reverse : List String) (limit : Option Nat) (t : Table) : Table :=
  let s := sortRows cs reverse t.rows
  ⟨t.cols, match limit with | none => s | some n => s.take n⟩

def keyMatch (cfg : SemCfg) (ka kb : List Val) : Bool :=
  ka == kb && (cfg.nullKeysMatch || ka.all (fun v => !v.isNull))

/-- one output row of a join from an optional left and an optional right row -/
def joinRow (ca cb outCols : List String) (ra rb : Option Row) : Row :=
  outCols.map (fun c =>
    let av : Val := match ra with | some r => if ca.contains c then r.get c else .null | none => .null
    let bv : Val := match rb with | some r => if cb.contains c then r.get c else .null | none => .null
    (c, if av.isNull then bv else av))

def semJoin (cfg : SemCfg) (jt : JoinType) (onA onB : List String) (ta tb : Table) (outCols : List String) :
    Table :=
  let isCross := jt == .cross
  let allMatch := isCross || onA.isEmpty
  let m := fun (ra rb : Row) => allMatch || keyMatch cfg (keyOf ra onA) (keyOf rb onB)
  let mk := joinRow ta.cols tb.cols outCols
  let pairs := ta.rows.flatMap (fun ra => (tb.rows.filter (fun rb => m ra rb)).map (fun rb => mk (some ra) (some rb)))
  let leftOnly := (ta.rows.filter (fun ra => !(tb.rows.any (fun rb => m ra rb)))).map (fun ra => mk (some ra) none)
  let rightOnly := (tb.rows.filter (fun rb => !(ta.rows.any (fun ra => m ra rb)))).map (fun rb => mk none (some rb))
  let keepL := jt == .left || jt == .full || jt == .outer || (isCross && cfg.crossAsOuter)
  let keepR := jt == .right || jt == .full || jt == .outer || (isCross && cfg.crossAsOuter)
  ⟨outCols, pairs ++ (if keepL then leftOnly else []) ++ (if keepR then rightOnly else [])⟩

def semConcat (idc : Option String) (an bn : String) (ta tb : Table) (outCols : List String) : Table :=
  let tag := fun (name : String) (r : Row) => match idc with
    | none => r.select outCols
    | some c => (r.set c (.str name)).select outCols
  ⟨outCols, ta.rows.map (tag an) ++ tb.rows.map (tag bn)⟩

/-- fragment of join key specifications the model covers: each key pair either has the same name on both
sides, or the left name is not a column of the right side and the right name not a column of the left. -/
def joinKeysSane (ca cb onA onB : List String) : Bool :=
  (onA.zip onB).all (fun ab => ab.1 == ab.2 || (!cb.contains ab.1 && !ca.contains ab.2))

def sem (Θ : Interp) (cfg : SemCfg) (env : Env) : Ops → Except Err Table
  | .table name cs =>
    match env.lookup name with
    | none => .error .valueError
    | some t => if subset cs t.cols then .ok (t.selectCols cs) else .error .valueError
  | n@(.extend src ops partition order reverse windowed) => do
    let t ← sem Θ cfg env src
    if windowed then return semExtendWindow Θ ops partition order reverse t n.cols
    else return semExtendPlain Θ ops t n.cols
  | n@(.project src ops group) => do
    let t ← sem Θ cfg env src
    return semProject Θ ops group t n.cols
  | .selectRows src e => do
    let t ← sem Θ cfg env src
    return semSelectRows Θ e t
  | .selectCols src cs => do
    let t ← sem Θ cfg env src
    return t.selectCols cs
  | n@(.dropCols src _) => do
    let t ← sem Θ cfg env src
    return t.selectCols n.cols
  | .order src cs reverse limit => do
    let t ← sem Θ cfg env src
    return semOrder cs reverse limit t
  | n@(.rename src m) => do
    let t ← sem Θ cfg env src
    let rev := m.map (fun kv => (kv.2, kv.1))
    return ⟨n.cols, t.rows.map (fun r => r.rename (fun c => (lookupLast rev c).getD c))⟩
  | n@(.mapCols src m dels) => do
    let t ← sem Θ cfg env src
    return ⟨n.cols, t.rows.map (fun r => (r.drop dels).rename (fun c => (lookupLast m c).getD c))⟩
  | n@(.join a b onA onB jt) => do
    let ta ← sem Θ cfg env a
    let tb ← sem Θ cfg env b
    return semJoin cfg jt onA onB ta tb (appendNew a.cols b.cols) |>.selectCols n.cols
  | n@(.concat a b idc an bn) => do
    let ta ← sem Θ cfg env a
    let tb ← sem Θ cfg env b
    return semConcat idc an bn ta tb n.cols
  | .convert src rm => do
    let t ← sem Θ cfg env src
    Θ.convert rm t

end DAVerif
