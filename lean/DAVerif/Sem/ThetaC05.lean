import DAVerif.Sql.ThetaSql
/-
C05: the two backend models completed for the single-method pipelines of the method catalogue.

The shared interpretations `Theta` (pandas/numpy) and `ThetaSql` (generated SQL on SQLite) were validated on random
pipelines whose generator keeps away from a few corners (bool columns with nulls, `%` on fractions, `round`, `**` with a
null, `remainder`, `as_int64`, negative `%` operands, `all` over groups with nulls …).  C05 quantifies over exactly those
corners, so this file adds, *without touching the shared files*,

  `ThetaX`     what the Pandas executor really computes   (= `Theta` except for the overrides below)
  `ThetaSqlX`  what the generated SQL really computes on SQLite, with a flag `ints` = "all operand columns are stored as
               INTEGER" (SQLite decides `/` and `%` by storage class, which a `Val` does not carry)

Each override quotes the code or engine behaviour it transcribes; suite `k1_methods` compares both with the real
executor / the real SQL on SQLite on every run.  `Props/C05.lean` states where the shared models and these agree
(`C05_shared_models_partial`) and has a witness for every place where they do not.

No imports beyond model files: part of the compiled driver.
-/
namespace DAVerif.ThetaX
open DAVerif DAVerif.Theta

/-- truncation toward zero (`astype("int64")`, `CAST(x AS INTEGER)`, C integer division) -/
def truncZ (x : Rat) : Int := if x < 0 then -((-x).floor : Int) else (x.floor : Int)

/-- Python truth value of an object cell (`None` is falsy, NaN is truthy but never reaches here: object bool columns
carry `None`) -/
def falsy : Val → Bool
  | .null => true
  | .bool b => !b
  | .num q => q == 0
  | .str s => s == ""

/-- `numpy.logical_and` on object arrays is Python's `a and b`; on bool arrays it is the same function -/
def pyAnd (a b : Val) : Val := if falsy a then a else b
def pyOr (a b : Val) : Val := if falsy a then b else a

/-- `numpy.logical_and/or` return bools for bool inputs and the selected *object* for object inputs; the harness reads a
result cell as null / True / False -/
def scalar (op : String) (args : List ArgV) : Val :=
  match op with
  -- _k_and / _k_or: left fold of numpy.logical_and / logical_or
  | "and" =>
    match args.map cell with
    | a :: rest@(_ :: _) => rest.foldl pyAnd a
    | _ => .null
  | "or" =>
    match args.map cell with
    | a :: rest@(_ :: _) => rest.foldl pyOr a
    | _ => .null
  -- numpy.power: IEEE pow, `nan ** 0 = 1` and `1 ** nan = 1`
  | "**" =>
    match args.map cell with
    | [a, b] =>
      if num? b == some 0 && (a.isNull || (num? a).isSome) then .num 1
      else if num? a == some 1 && (b.isNull || (num? b).isSome) then .num 1
      else Theta.scalar "**" args
    | _ => .null
  -- not in impl_map: `Series.round()` = numpy.around(x, 0), half to even
  | "round" =>
    match args with
    | [a] => Theta.scalar "around" [a, .v (.num 0)]
    | _ => .null
  -- not in impl_map: falls through to numpy.remainder = numpy.mod
  | "remainder" => Theta.scalar "mod" args
  -- "as_int64": lambda x: x.astype("int64")   truncation toward zero (a null makes the whole column raise: not modelled)
  | "as_int64" =>
    match args.map cell with
    | [.num x] => .num (truncZ x)
    | _ => .null
  -- "concat": numpy.char.add(numpy.asarray(a, dtype=str), …): a missing cell of a str column is the text 'nan'
  | "concat" =>
    match args.map cell with
    | [a, b] =>
      let txt : Val → Option String := fun v => match v with | .str s => some s | .null => some "nan" | _ => none
      match txt a, txt b with
      | some x, some y => .str (x ++ y)
      | _, _ => .null
    | _ => .null
  -- "as_str": lambda x: x.astype("str")   (a string is unchanged; the text of a number is class 3, not modelled)
  | "as_str" =>
    match args.map cell with
    | [.str s] => .str s
    | _ => .null
  | _ => Theta.scalar op args

def agg (op : String) (vs : List Val) : Val := Theta.agg op vs

def win (op : String) (cargs : List Val) (vs : List Val) (pos : Nat) : Val := Theta.win op cargs vs pos

end DAVerif.ThetaX

namespace DAVerif.ThetaSqlX
open DAVerif DAVerif.Theta
open DAVerif.ThetaX (truncZ)

/-- SQLite `%`: both operands are cast to INTEGER, the result has the sign of the dividend, NULL for a zero divisor -/
def sqliteMod (x y : Rat) : Option Rat :=
  let a := truncZ x
  let b := truncZ y
  if b == 0 then none else some ((a - b * truncZ ((a : Rat) / (b : Rat)) : Int) : Rat)

def scalar (ints : Bool) (op : String) (args : List ArgV) : Val :=
  match op with
  -- SQLite_formatters: "remainder", "%", "mod" all render as `(a % b)`
  | "%" => (match args.map cell with | [a, b] => arith2 sqliteMod a b | _ => .null)
  | "mod" => (match args.map cell with | [a, b] => arith2 sqliteMod a b | _ => .null)
  | "remainder" => (match args.map cell with | [a, b] => arith2 sqliteMod a b | _ => .null)
  -- inline `a / b`: integer division when both columns are stored as INTEGER (documented destination difference)
  | "/" =>
    if ints then
      (match args.map cell with
       | [a, b] => arith2 (fun x y => if y == 0 then none else some ((truncZ (x / y) : Int) : Rat)) a b
       | _ => .null)
    else ThetaSql.scalar op args
  -- _db_int_divide_expr: FLOOR(a / b) – over INTEGER columns the division has already truncated
  | "//" =>
    if ints then
      (match args.map cell with
       | [a, b] => arith2 (fun x y => if y == 0 then none else some ((truncZ (x / y) : Int) : Rat)) a b
       | _ => .null)
    else ThetaSql.scalar op args
  -- _db_round_expr: ROUND(x), half away from zero
  | "round" =>
    match args with
    | [a] => ThetaSql.scalar "around" [a, .v (.num 0)]
    | _ => .null
  -- _as_int64: CAST(x AS INT64)  (integer affinity: truncation toward zero)
  | "as_int64" =>
    match args.map cell with
    | [.num x] => .num (truncZ x)
    | _ => .null
  -- _as_str: CAST(x AS TEXT)   (a string is unchanged; the text of a number is class 3, not modelled)
  | "as_str" =>
    match args.map cell with
    | [.str s] => .str s
    | _ => .null
  | _ => ThetaSql.scalar op args

/-- `_all_expr` after fix C05-sql-all-ignores-null:
`MIN(CASE WHEN a THEN 1 WHEN NOT a THEN 0 ELSE NULL END) >= 1` – NULL items are ignored, NULL when no item is left
(before the fix `… ELSE 0`: a NULL item counted as False) -/
def agg (op : String) (vs : List Val) : Val :=
  match op with
  | "all" => if (nonNull vs).isEmpty then .null else .bool ((nonNull vs).all (fun v => truthy v == some true))
  | _ => ThetaSql.agg op vs

def win (op : String) (cargs : List Val) (vs : List Val) (pos : Nat) : Val :=
  match op with
  | "all" => agg op vs
  | _ => ThetaSql.win op cargs vs pos

end DAVerif.ThetaSqlX
