import DAVerif.Prim.Polars
import DAVerif.Sem.Theta
/-!
# `semPl` — what `data_algebra/polars_model.py` computes (`PolarsModel._*_step`), step by step

`semPl cfg Θ env p : Except Err Table` follows `PolarsModel.eval` → `_compose_polars_ops` → the `_*_step`
methods over the ASSUMED Polars primitives of `Prim/Polars.lean`.  `cfg : Pl.Cfg` selects the code as found
(`Pl.Cfg.orig`) or the code after the small fixes of this property (`Pl.Cfg.fixed`).

* A step or method that raises is `.error`.  The property only distinguishes "returns a table" from "raises", so
  every run-time raise is the one class `Err.other`; `Err.valueError` is kept for what `ViewRepresentation.eval`
  itself checks before dispatch (missing table / column, shared with `sem`).  Raises that depend on Polars dtypes
  are not modelled (frames are untyped here, see the note at the end of `Prim/Polars.lean`).
* Where Polars computes what the Pandas executor computes, the node functions of `Sem/Eval.lean` are re-used
  with the Polars interpretation of the function symbols; own definitions only where the code deviates:
  the join (`semJoinPl`), the project over an empty frame (`semProjectPl`), null placement of sorts
  (`Pl.sortHead`, `semExtendWindowPl`), the scalar / aggregate / window interpretation `ThetaPl`.
* Row order of results is only modelled for `order_rows` (`sort` is not stable, `group_by` and `join` return
  rows in arbitrary order); everything else is compared as a multiset of rows.

No imports beyond model files: part of the compiled driver.
-/
namespace DAVerif

/-! ## the Polars interpretation of the function symbols (`_populate_expr_impl_map`, `impl_map_arbitrary_arity`)

Only where Polars deviates from the Pandas interpretation `Theta` (the predicates of `Prim/Polars.lean`) the
Polars value is written out; on every other symbol and argument constellation `ThetaPl` is `Theta` (the assumption
"Polars computes what numpy computes there", validated by `k6_polars`). -/
namespace ThetaPl
open Theta

/-- Kleene conjunction (`_reduce_and`: `res & args[i]` on Boolean expressions) -/
def and3 (a b : Val) : Val :=
  match truthy a, truthy b with
  | some false, _ => .bool false
  | _, some false => .bool false
  | some true, some true => .bool true
  | _, _ => .null

/-- Kleene disjunction (`_reduce_or`) -/
def or3 (a b : Val) : Val :=
  match truthy a, truthy b with
  | some true, _ => .bool true
  | _, some true => .bool true
  | some false, some false => .bool false
  | _, _ => .null

/-- the value of a comparison / logical operation that has a null operand: null, except that `and` / `or` are Kleene -/
def nullLogicVal (op : String) (vs : List Val) : Val :=
  match vs with
  | a :: rest => if op == "and" then rest.foldl and3 a else if op == "or" then rest.foldl or3 a else .null
  | [] => .null

def scalar (cfg : Pl.Cfg) (op : String) (args : List ArgV) : Val :=
  let vs := args.map cell
  -- `"==": lambda a, b: a == b` ..., `_reduce_and`, `_reduce_or`, `x.is_nan()`, `x.is_infinite()`, `a.is_in(b)`
  if Pl.nullLogicDev op vs args then nullLogicVal op vs
  -- `"maximum": pl.max_horizontal(args)`, `"minimum": pl.min_horizontal(args)` (before fix D27)
  else if Pl.maxNullDev cfg op vs then (if op == "maximum" then Pl.maxHorizontal vs else Pl.minHorizontal vs)
  else Theta.scalar op args

/-- aggregates in `group_by(...).agg` and, broadcast, in `.over(partition)` -/
def agg (cfg : Pl.Cfg) (op : String) (vs : List Val) : Val :=
  -- `"nunique": x.n_unique()` counts null as a value (before fix N6)
  if Pl.nuniqueDev cfg op vs then .num vs.eraseDups.length
  -- `"any_value": x.min()`
  else if Pl.anyValueDev op vs then minV vs
  -- `"first": x.first()`, `"last": x.last()`: the first / last cell, null included
  else if Pl.firstDev op vs then vs.headD .null
  else if Pl.lastDev op vs then vs.getLastD .null
  else Theta.agg op vs

/-- window functions under `.over(partition)` on the frame sorted by `order_by`.  The cumulative functions and the
row counters raise on Polars 1.44 (`Pl.implStatus`); `shift ffill bfill rank` and the aggregates remain, and differ
from Pandas exactly where the aggregates do. -/
def win (cfg : Pl.Cfg) (op : String) (cargs : List Val) (vs : List Val) (pos : Nat) : Val :=
  if Pl.nuniqueDev cfg op vs || Pl.anyValueDev op vs || Pl.firstDev op vs || Pl.lastDev op vs then agg cfg op vs
  else Theta.win op cargs vs pos

def concrete (cfg : Pl.Cfg) (convert : RecMap → Table → Except Err Table) : Interp :=
  { scalar := scalar cfg, agg := agg cfg, win := win cfg, convert := convert }

end ThetaPl

/-! ## the steps -/

/-- `_project_step`: `res.group_by(group_by).agg(produced_columns)`; without `group_by` the frame is grouped by a
constant scratch column, and
```
if (op.group_by is None) or (len(op.group_by) == 0):
    if res.shape[0] <= 0:
        res = pl.DataFrame({c: [None] for c in res.columns}, ...)      # make an all None frame
```
an empty input (no group at all) yields one row of nulls. -/
def semProjectPl (Θ : Interp) (ops : Assign) (group : List String) (t : Table) (outCols : List String) : Table :=
  if group.isEmpty && t.rows.isEmpty then
    ⟨outCols, [Row.select (ops.map (fun kv => (kv.1, Val.null))) outCols]⟩
  else Pl.groupByAgg Θ ops group t outCols

/-- `_extend_step`, windowed situation:
```
if len(op.order_by) > 0:
    res = res.sort(by=op.order_by, descending=reversed_cols [, nulls_last=True])
res = res.with_columns([fld_k.over(partition_by).alias(k) ...])
```
Each window expression is evaluated per partition in frame order, i.e. in the order of `Pl.rowLe nullsLast`
(ties: the order is then arbitrary; the theorems need a total window order).  Same shape as `semExtendWindow`,
with Polars' null placement.  The returned frame is sorted; its row order is not modelled. -/
def semExtendWindowPl (nullsLast : Bool) (Θ : Interp) (ops : Assign) (partition order reverse : List String)
    (t : Table) (outCols : List String) : Table :=
  let idx := t.rows.zipIdx
  ⟨outCols, idx.map (fun ri =>
    let r := ri.1
    let part := idx.filter (fun rj => keyOf rj.1 partition == keyOf r partition)
    let sorted := Pl.sortIdx nullsLast order reverse part
    let pos := sorted.findIdx (fun rj => rj.2 == ri.2)
    let srows := sorted.map (·.1)
    (r.setAll (ops.map (fun kv =>
      (kv.1, Θ.win (opName kv.2) (constArgs kv.2) (argValues kv.2 srows) pos)))).select outCols)⟩

/-- number of arguments of the method application at the top of an expression (after the promotion of a lone
constant argument to a scratch column the arity is unchanged) -/
def topArity (t : Term) : Nat :=
  match t with
  | .app _ args _ _ => args.length
  | _ => 0

/-- window / aggregate expression `col.fn(consts...)`: does looking up and calling `fn` raise? -/
def aggRaises (project : Bool) (t : Term) : Bool :=
  match t with
  | .app op args _ _ => Pl.implStatus project args.length op != .ok
  | _ => true      -- a bare column or constant has no `polars_term` aggregate: `group_by.agg` of a non-aggregate

/-! ### `_natural_join_step` -/

def rightTmp : String := "_da_right_tmp"
def leftTmp : String := "_da_left_tmp"
def keyTmp (c : String) : String := c ++ "_da_join_tmp_key"

/-- `coalesce_columns` (before fix D20 the key columns are always removed) -/
def coalesceColsOf (cfg : Pl.Cfg) (how : Pl.How) (onP pc sc : List String) : List String :=
  let common := pc.filter (fun c => sc.contains c)
  if how == .full && cfg.fullCoalesceKeys then common else common.filter (fun c => !onP.contains c)

/-- `orphan_keys = [c for c in on_S if c not in set(on_P)]` -/
def orphanOf (onP onS : List String) : List String := (onS.filter (fun c => !onP.contains c)).eraseDups

/-- `S.with_columns([pl.col(c).alias(f"{c}_da_join_tmp_key") for c in orphan_keys])`, one row -/
def extRow (orphan : List String) (r : Row) : Row := r ++ orphan.map (fun c => (keyTmp c, r.get c))

/-- `pl.when(<first>.is_null()).then(<second>).otherwise(<first>)`: `first` is `P`'s cell when `preferP` -/
def coalVal (preferP : Bool) (p s : Val) : Val :=
  if preferP then (if p.isNull then s else p) else (if s.isNull then p else s)

/-- the common part of both branches of `_natural_join_step`, with `P` the frame that `.join` is called on and `S`
its argument (`(P, S) = (inputs[0], inputs[1])` unless the join type is RIGHT, then swapped with `how="left"`):
```
coalesce_columns = set(P columns) ∩ set(S columns) - set(on_P)           [fix D20: keep the keys when how == "outer"]
orphan_keys = [c for c in on_S if c not in set(on_P)]
S = S.with_columns([pl.col(c).alias(f"{c}_da_join_tmp_key") for c in orphan_keys])
res = P.join(S, left_on=on_P, right_on=on_S, how=how, suffix=suffix)
res = res.with_columns([pl.when(<first>.is_null()).then(<second>).otherwise(<first>).alias(c) for c in coalesce_columns])
res = res.rename({f"{c}_da_join_tmp_key": c for c in orphan_keys})
res = res.select(op.columns_produced())
```
`preferP`: branch 1 takes `P`'s cell unless it is null (`pl.when(pl.col(c).is_null()).then(pl.col(c + suffix))`),
the RIGHT branch takes `S`'s cell unless it is null (`pl.when(pl.col(c + "_da_left_tmp").is_null()).then(pl.col(c))`);
both prefer the pipeline's *left* input. -/
def joinCore (cfg : Pl.Cfg) (how : Pl.How) (preferP : Bool) (suffix : String) (onP onS : List String)
    (P S : Table) (outCols : List String) : Except Err Table :=
  let coalesceCols := coalesceColsOf cfg how onP P.cols S.cols
  let orphan := orphanOf onP onS
  let S' : Table := ⟨S.cols ++ orphan.map keyTmp, S.rows.map (extRow orphan)⟩
  match Pl.join how onP onS suffix P S' with
  | .error e => .error e
  | .ok res =>
    -- with_columns of the coalesced cells: both source columns must exist
    if ¬ coalesceCols.all (fun c => res.cols.contains (c ++ suffix)) then .error .other
    else
      let res1 : Table := ⟨res.cols, res.rows.map (fun r => r.setAll (coalesceCols.map (fun c =>
        (c, coalVal preferP (r.get c) (r.get (c ++ suffix))))))⟩
      match Pl.rename (orphan.map (fun c => (keyTmp c, c))) res1 with
      | .error e => .error e
      | .ok res2 =>
        if ¬ outCols.all (fun c => res2.cols.contains c) then .error .other
        else .ok (res2.selectCols outCols)

/-- `_natural_join_step`:
```
how = op.jointype.lower();  if how == "full": how = "outer"
if how != "right":  <joinCore with P = inputs[0], S = inputs[1], suffix "_da_right_tmp">
else:               <joinCore with P = inputs[1], S = inputs[0], how = "left", suffix "_da_left_tmp">
```
`how = "cross"` reaches `inputs[0].join(input_right, left_on=[], right_on=[], how="cross")`, which Polars 1.44
rejects (keys passed to a cross join). -/
def semJoinPl (cfg : Pl.Cfg) (jt : JoinType) (onA onB : List String) (ta tb : Table) (outCols : List String) :
    Except Err Table :=
  match jt with
  | .cross => .error .other
  | .right => joinCore cfg .left false leftTmp onB onA tb ta outCols
  | .inner => joinCore cfg .inner true rightTmp onA onB ta tb outCols
  | .left => joinCore cfg .left true rightTmp onA onB ta tb outCols
  | .full | .outer => joinCore cfg .full true rightTmp onA onB ta tb outCols

/-! ## the executor -/

def semPl (cfg : Pl.Cfg) (Θ : Interp) (env : Env) : Ops → Except Err Table
  -- `ViewRepresentation.eval`'s own checks (missing table / column → ValueError), then
  -- `_table_step`: `data_map[op.table_name].select(op.columns_produced())`
  | .table name cs =>
    match env.lookup name with
    | none => .error .valueError
    | some t => if subset cs t.cols then .ok (t.selectCols cs) else .error .valueError
  -- `_extend_step`
  | n@(.extend src ops partition order reverse windowed) => do
    let t ← semPl cfg Θ env src
    if windowed then
      -- every op is `col.fn(consts)`; `fld_k.over(partition_by)`
      if ops.any (fun kv => aggRaises false kv.2) then .error .other
      return semExtendWindowPl cfg.nullsLast Θ ops partition order reverse t n.cols
    else
      if ops.any (fun kv => Pl.termRaises false kv.2) then .error .other
      return Pl.withColumns Θ ops t n.cols
  -- `_project_step`
  | n@(.project src ops group) => do
    let t ← semPl cfg Θ env src
    if ops.any (fun kv => aggRaises true kv.2) then .error .other
    return semProjectPl Θ ops group t n.cols
  -- `_select_rows_step`: `res.filter(selection.polars_term)` (expression in extend context)
  | .selectRows src e => do
    let t ← semPl cfg Θ env src
    if Pl.termRaises false e then .error .other
    return Pl.filter Θ e t
  -- `_select_columns_step`, `_drop_columns_step`: `res.select(op.columns_produced())`
  | .selectCols src cs => do
    let t ← semPl cfg Θ env src
    return t.selectCols cs
  | n@(.dropCols src _) => do
    let t ← semPl cfg Θ env src
    return t.selectCols n.cols
  -- `_order_rows_step`: `res.sort(by=op.order_columns, descending=reversed_cols [, nulls_last=True])`, `res.head(op.limit)`
  | .order src cs reverse limit => do
    let t ← semPl cfg Θ env src
    return Pl.sortHead cfg.nullsLast cs reverse limit t
  -- `_rename_columns_step`: `res.rename(op.reverse_mapping).select(op.columns_produced())`
  | n@(.rename src m) => do
    let t ← semPl cfg Θ env src
    let rev := m.map (fun kv => (kv.2, kv.1))
    return ⟨n.cols, t.rows.map (fun r => r.rename (fun c => (lookupLast rev c).getD c))⟩
  -- `_map_columns_step`: `res.rename(op.column_remapping).select(op.columns_produced())`
  | n@(.mapCols src m dels) => do
    let t ← semPl cfg Θ env src
    return ⟨n.cols, t.rows.map (fun r => (r.drop dels).rename (fun c => (lookupLast m c).getD c))⟩
  -- `_natural_join_step`
  | n@(.join a b onA onB jt) => do
    let ta ← semPl cfg Θ env a
    let tb ← semPl cfg Θ env b
    semJoinPl cfg jt onA onB ta tb n.cols
  -- `_concat_rows_step`
  | n@(.concat a b idc an bn) => do
    let ta ← semPl cfg Θ env a
    let tb ← semPl cfg Θ env b
    return Pl.concatVertical idc an bn ta tb n.cols
  -- `_convert_records_step`: `op.record_map.transform(res, local_data_model=self)` (C17's model)
  | .convert src rm => do
    let t ← semPl cfg Θ env src
    Θ.convert rm t

end DAVerif
