import DAVerif.Sem.Eval
/-
A concrete interpretation of function symbols over exact rationals, used by the driver for the
correspondence suites (the relational theorems are stated for an arbitrary `Interp`).

It transcribes what the Pandas executor computes for the *model-supported* operators (numpy/pandas
behaviour on null = NaN/None): arithmetic propagates null; ordered comparisons with a null give `False`,
`!=` gives `True`; aggregates skip nulls.  Everything else answers `null`; the correspondence generator only
uses supported names (listed in `supportedScalar/Agg/Win`).

No imports beyond model files: part of the compiled driver.
-/
namespace DAVerif.Theta
open DAVerif

def num? : Val → Option Rat
  | .num q => some q
  | .bool b => some (if b then 1 else 0)       -- numpy treats bools as 0/1 in arithmetic
  | _ => none

def cell : ArgV → Val
  | .v x => x
  | _ => .null

def arith2 (f : Rat → Rat → Option Rat) (a b : Val) : Val :=
  match num? a, num? b with
  | some x, some y => match f x y with | some z => .num z | none => .null
  | _, _ => .null

def floorDiv (x y : Rat) : Option Rat := if y == 0 then none else some ((x / y).floor : Int)
def pyMod (x y : Rat) : Option Rat := if y == 0 then none else some (x - y * ((x / y).floor : Int))
def ratPow (x : Rat) (n : Nat) : Rat := (List.replicate n x).foldl (· * ·) 1
def pow (x y : Rat) : Option Rat :=
  if y.den == 1 then
    if y.num ≥ 0 then some (ratPow x y.num.toNat)
    else if x == 0 then none else some (1 / ratPow x (-y.num).toNat)
  else none

/-- comparison of two cells as numpy does on float/object columns: any null operand → `dflt` -/
def cmp2 (f : Val → Val → Bool) (dflt : Bool) (a b : Val) : Val :=
  if a.isNull || b.isNull then .bool dflt else .bool (f a b)

def valEq (a b : Val) : Bool :=
  match num? a, num? b with
  | some x, some y => x == y
  | _, _ => a == b

def truthy : Val → Option Bool
  | .bool b => some b
  | .num q => some (q != 0)
  | _ => none

def kAnd (vs : List Val) : Val :=
  if vs.any (fun v => (truthy v).isNone) then .null else .bool (vs.all (fun v => truthy v == some true))
def kOr (vs : List Val) : Val :=
  if vs.any (fun v => (truthy v).isNone) then .null else .bool (vs.any (fun v => truthy v == some true))

/-- `numpy.around(x, k)` for a NEGATIVE whole number of decimals `k` (tens, hundreds, …), half to even; written with
the scale `p = 1 / 10^|k|` so that it reads like the branch for `k ≥ 0` -/
def aroundNeg (x k : Rat) : Val :=
  if k.den == 1 then
    let p : Rat := 1 / ratPow 10 (-k.num).toNat
    let y := x * p
    let f : Int := y.floor
    let d := y - f
    let r : Int := if d < 1/2 then f else if d > 1/2 then f + 1 else (if f % 2 == 0 then f else f + 1)
    .num ((r : Rat) / p)
  else .null

def scalar (op : String) (args : List ArgV) : Val :=
  let vs := args.map cell
  match op, vs with
  | "+", a :: rest@(_ :: _) => rest.foldl (arith2 (fun x y => some (x + y))) a
  | "*", a :: rest@(_ :: _) => rest.foldl (arith2 (fun x y => some (x * y))) a
  | "-", [a] => (match num? a with | some x => .num (-x) | none => .null)
  | "-", [a, b] => arith2 (fun x y => some (x - y)) a b
  | "/", [a, b] => arith2 (fun x y => if y == 0 then none else some (x / y)) a b
  | "%/%", [a, b] => arith2 (fun x y => if y == 0 then none else some (x / y)) a b
  | "//", [a, b] => arith2 floorDiv a b
  | "%", [a, b] => arith2 pyMod a b
  | "mod", [a, b] => arith2 pyMod a b
  | "**", [a, b] => arith2 pow a b
  | "==", [a, b] => cmp2 valEq false a b
  | "!=", [a, b] => cmp2 (fun x y => !valEq x y) true a b
  | "<", [a, b] => cmp2 (fun x y => Val.lt x y) false a b
  | "<=", [a, b] => cmp2 (fun x y => !Val.lt y x) false a b
  | ">", [a, b] => cmp2 (fun x y => Val.lt y x) false a b
  | ">=", [a, b] => cmp2 (fun x y => !Val.lt x y) false a b
  | "and", _ => kAnd vs
  | "or", _ => kOr vs
  | "abs", [a] => (match num? a with | some x => .num (if x < 0 then -x else x) | none => .null)
  | "sign", [a] => (match num? a with | some x => .num (if x < 0 then -1 else if x == 0 then 0 else 1) | none => .null)
  | "floor", [a] => (match num? a with | some x => .num (x.floor : Int) | none => .null)
  | "ceil", [a] => (match num? a with | some x => .num (x.ceil : Int) | none => .null)
  | "maximum", [a, b] => arith2 (fun x y => some (if x < y then y else x)) a b
  | "minimum", [a, b] => arith2 (fun x y => some (if y < x then y else x)) a b
  | "fmax", [a, b] => if a.isNull then b else if b.isNull then a else arith2 (fun x y => some (if x < y then y else x)) a b
  | "fmin", [a, b] => if a.isNull then b else if b.isNull then a else arith2 (fun x y => some (if y < x then y else x)) a b
  | "is_nan", [a] => .bool a.isNull
  | "is_inf", [_] => .bool false
  | "concat", [.str a, .str b] => .str (a ++ b)
  | "trimstr", [.str s, .num i, .num j] =>
    if i.den == 1 && j.den == 1 && i.num ≥ 0 && j.num ≥ 0 then
      .str (String.ofList ((s.toList.drop i.num.toNat).take (j.num.toNat - i.num.toNat)))
    else .null
  | "around", [a, .num k] =>
    (match num? a with
     | some x =>
       if k.den == 1 && k.num ≥ 0 then
         let p : Rat := ratPow 10 k.num.toNat
         let y := x * p
         let f : Int := y.floor
         let d := y - f
         -- numpy.around: round half to even
         let r : Int := if d < 1/2 then f else if d > 1/2 then f + 1 else (if f % 2 == 0 then f else f + 1)
         .num ((r : Rat) / p)
       else aroundNeg x k
     | none => .null)
  | "is_null", [a] => .bool a.isNull
  | "is_bad", [a] => .bool a.isNull
  | "coalesce", [a, b] => if a.isNull then b else a
  | "if_else", [c, a, b] => (match c with | .bool true => a | .bool false => b | _ => .null)
  | "where", [c, a, b] => (match c with | .bool true => a | _ => b)
  | _, _ =>
    match op, args with
    | "is_in", [.v a, .l xs] => .bool (xs.any (fun x => valEq a x))
    | "mapv", [.v a, .d kvs] => ((kvs.find? (fun kv => valEq kv.1 a)).map (·.2)).getD .null
    | "mapv", [.v a, .d kvs, .v dflt] => ((kvs.find? (fun kv => valEq kv.1 a)).map (·.2)).getD dflt
    | _, _ => .null

def supportedScalar : List String :=
  ["+", "*", "-", "/", "%/%", "//", "%", "mod", "**", "==", "!=", "<", "<=", ">", ">=", "and", "or", "abs", "sign",
   "floor", "ceil", "maximum", "minimum", "fmax", "fmin", "is_null", "is_bad", "coalesce", "if_else", "where",
   "is_in", "mapv", "is_nan", "is_inf", "concat", "trimstr", "around"]

/-! ### aggregates (nulls skipped) -/
def nonNull (vs : List Val) : List Val := vs.filter (fun v => !v.isNull)
def nums (vs : List Val) : List Rat := vs.filterMap num?
def sumR (xs : List Rat) : Rat := xs.foldl (· + ·) 0

def minV (vs : List Val) : Val :=
  match nonNull vs with
  | [] => .null
  | x :: xs => xs.foldl (fun m v => if Val.lt v m then v else m) x
def maxV (vs : List Val) : Val :=
  match nonNull vs with
  | [] => .null
  | x :: xs => xs.foldl (fun m v => if Val.lt m v then v else m) x

def meanV (vs : List Val) : Val :=
  let xs := nums vs
  if xs.isEmpty then .null else .num (sumR xs / xs.length)

def varV (vs : List Val) : Val :=
  let xs := nums vs
  if xs.length < 2 then .null else
    let m := sumR xs / xs.length
    .num (sumR (xs.map (fun x => (x - m) * (x - m))) / (xs.length - 1 : Nat))

def medianV (vs : List Val) : Val :=
  let xs := (nums vs).mergeSort (fun a b => a ≤ b)
  let n := xs.length
  if n == 0 then .null
  else if n % 2 == 1 then .num (xs.getD (n / 2) 0)
  else .num ((xs.getD (n / 2 - 1) 0 + xs.getD (n / 2) 0) / 2)

def agg (op : String) (vs : List Val) : Val :=
  match op with
  | "sum" => .num (sumR (nums vs))
  | "mean" => meanV vs
  | "min" => minV vs
  | "max" => maxV vs
  | "count" => .num (nonNull vs).length
  | "size" | "_size" | "_count" => .num vs.length
  | "nunique" => .num (nonNull vs).eraseDups.length
  | "any_value" | "first" => (nonNull vs).headD .null
  | "last" => (nonNull vs).getLastD .null
  | "median" => medianV vs
  | "var" => varV vs
  | "any" => .bool ((nonNull vs).any (fun v => truthy v == some true))
  | "all" => .bool ((nonNull vs).all (fun v => truthy v == some true))
  | _ => .null

def supportedAgg : List String :=
  ["sum", "mean", "min", "max", "count", "size", "_size", "_count", "nunique", "any_value", "first", "last",
   "median", "var", "any", "all"]

/-! ### window functions: `vs` = the partition's argument values in window order, `pos` = current row -/

/-- running fold that skips nulls and answers null at a null position (pandas `cumsum` & friends) -/
def cumulate (f : Rat → Rat → Rat) (vs : List Val) (pos : Nat) : Val :=
  match vs.getD pos .null with
  | .null => .null
  | _ =>
    match nums (vs.take (pos + 1)) with
    | [] => .null
    | x :: xs => .num (xs.foldl f x)

/-- average rank among the non-null values of the partition -/
def rankAvg (vs : List Val) (pos : Nat) : Val :=
  match vs.getD pos .null with
  | .null => .null
  | v =>
    let nn := nonNull vs
    let less := (nn.filter (fun w => Val.lt w v)).length
    let eq := (nn.filter (fun w => w == v)).length
    .num (((less : Rat) + 1 + ((less : Rat) + eq)) / 2)

def win (op : String) (cargs : List Val) (vs : List Val) (pos : Nat) : Val :=
  match op with
  | "cumsum" => cumulate (· + ·) vs pos
  | "cumprod" => cumulate (· * ·) vs pos
  | "cummax" => cumulate (fun a b => if a < b then b else a) vs pos
  | "cummin" => cumulate (fun a b => if b < a then b else a) vs pos
  | "cumcount" => .num pos
  | "_row_number" | "_count" => .num (pos + 1)
  | "shift" =>
    (match cargs with
     | [.num k] =>
       if k.den == 1 then
         let i : Int := (pos : Int) - k.num
         if i < 0 then .null else vs.getD i.toNat .null
       else .null
     | [] => if pos == 0 then .null else vs.getD (pos - 1) .null
     | _ => .null)
  | "rank" => rankAvg vs pos
  | "ffill" => ((nonNull (vs.take (pos + 1))).getLast?).getD .null
  | "bfill" => ((nonNull (vs.drop pos)).head?).getD .null
  | _ => agg op vs          -- group aggregates broadcast to every row of the partition

def supportedWin : List String :=
  ["cumsum", "cumprod", "cummax", "cummin", "cumcount", "_row_number", "_count", "shift", "rank", "ffill", "bfill"]
  ++ supportedAgg

def concrete (convert : RecMap → Table → Except Err Table) : Interp :=
  { scalar := scalar, agg := agg, win := win, convert := convert }

end DAVerif.Theta
