import DAVerif.Core.OrderedSet
/-
Model of /repo/data_algebra/data_schema.py  (`_prep_schema_specification`, `SchemaRaises._check_spec`,
`_check_data_frame_matches_schema`, `check_args`, `check_return`, `__call__`, `SchemaCheckSwitch`, `SchemaMock`).

The model transcribes the code *with the two repairs of* `/verif/fixes/C22-*.diff` applied
(set branch of `_prep_schema_specification`; `arg_specs=None` in `check_args`) — both are quoted where they
are modelled.  Everything else is the code as it is, including the positional-argument walk that indexes
`arg_names` without looking at parameter kinds (known finding `C22-positional-by-index`).

Python `dict` → association list in insertion order; Python `set` → list (iteration order is a parameter:
every definition and theorem holds for every order).  Exceptions → `Except Err`.

Imports only another model file: this file is part of the compiled driver.
-/
namespace DAVerif.Schema

/-- The part of Python's type lattice the checker can see: `sub a b` is `issubclass(a, b)`; the two
data-frame classes are named because `is_data_frame` tests for them.  All definitions and theorems are
generic in the universe; the driver instantiates it with `PyType` below. -/
class TypeUniverse (T : Type) where
  sub : T → T → Bool
  pandasFrame : T
  polarsFrame : T

inductive FrameKind where
  | pandas | polars
  deriving DecidableEq, Repr

/-- A non-frame Python value as far as the checker can observe it: its class (`type(v)`) and whether
`pd.isnull(v)` holds (None, NaN, pd.NA, NaT). -/
structure Scalar (T : Type) where
  ty : T
  isNull : Bool
  deriving DecidableEq, Repr

/-- A Pandas or Polars data frame: `d.shape[0]`, and `d.columns` with what iterating `d[col]` yields. -/
structure Frame (T : Type) where
  kind : FrameKind
  nrows : Nat
  cols : List (String × List (Scalar T))
  deriving DecidableEq, Repr

inductive Value (T : Type) where
  | scalar (x : Scalar T)
  | frame (f : Frame T)
  deriving DecidableEq, Repr

/-- Representation invariant of `Frame`: every column has `nrows` cells (a data frame is rectangular). -/
def Frame.Rect {T : Type} (f : Frame T) : Prop := ∀ p ∈ f.cols, p.2.length = f.nrows

instance {T : Type} (f : Frame T) : Decidable f.Rect := by unfold Frame.Rect; infer_instance

/-- Representation invariant of `Value`. -/
def Value.WF {T : Type} : Value T → Prop
  | .scalar _ => True
  | .frame f => f.Rect

instance {T : Type} (v : Value T) : Decidable v.WF := by cases v <;> unfold Value.WF <;> infer_instance

variable {T : Type} [U : TypeUniverse T]

def frameType : FrameKind → T
  | .pandas => U.pandasFrame
  | .polars => U.polarsFrame

/-- `type(v)` -/
def typeOf : Value T → T
  | .scalar x => x.ty
  | .frame f => frameType f.kind

/-- `isinstance(v, t)` = `issubclass(type(v), t)` -/
def isinstance (v : Value T) (t : T) : Bool := U.sub (typeOf v) t

/-! ### Specifications as the user writes them -/

/-- What can stand where a type is expected, alone or as a member of a set (members must be hashable, so a
Python `set` can contain neither a `set` nor a `dict`: the assertion `assert not isinstance(vi, set)` in the
set branch cannot fire): `None`, a class, or an *example value* (any other object; `t` is its class). -/
inductive Atom (T : Type) where
  | none
  | ty (t : T)
  | exampleOf (t : T)
  deriving DecidableEq, Repr

/-- A user-level specification: `None` / type / example value, a `set` of those, or a `dict`
column name → specification (data frame). -/
inductive Spec (T : Type) where
  | atom (a : Atom T)
  | oneOf (ms : List (Atom T))
  | frame (cols : List (String × Spec T))
  deriving Repr

/-- The standard form `_prep_schema_specification` returns: `None`, a type, a set of types, a dict. -/
inductive NSpec (T : Type) where
  | none
  | ty (t : T)
  | oneOf (ts : List T)
  | frame (cols : List (String × NSpec T))
  deriving Repr

/-- `_prep_schema_specification` on a non-set, non-dict argument:
```
    if v is None:            return None
    elif isinstance(v, type): return v
    ...
    else:                     return type(v)
```
`none` = Python `None`. -/
def Atom.declared : Atom T → Option T
  | .none => Option.none
  | .ty t => some t
  | .exampleOf t => some t

def normalizeAtom : Atom T → NSpec T
  | .none => .none
  | .ty t => .ty t
  | .exampleOf t => .ty t

variable [DecidableEq T]

/-- The set branch, **as repaired by `fixes/C22-schema-set-normalization.diff`**:
```
    elif isinstance(v, set):
        new_set = {_prep_schema_specification(vi) for vi in v}
        new_set = {vi for vi in new_set if vi is not None}     # was: {vi for vi in v if v is not None}
        for vi in new_set:
            assert not isinstance(vi, set)
        return new_set
```
(the unrepaired line rebuilds the set from the raw members `v`, and its filter tests the set itself, so
example values and `None` stay in the set and every later `isinstance(x, member)` raises TypeError).
The result is a Python set: duplicates collapse (`{int, 1}` ↦ `{int}`). -/
def normalizeSet (ms : List (Atom T)) : List T := OSet.ofList (ms.filterMap Atom.declared)

mutual
/-- `_prep_schema_specification(v)` -/
def normalize : Spec T → NSpec T
  | .atom a => normalizeAtom a
  | .oneOf ms => .oneOf (normalizeSet ms)
  | .frame cols => .frame (normalizeCols cols)
/-- the dict branch: `{ki: _prep_schema_specification(vi) for ki, vi in v.items()}` (the following loop
`for vi in new_set: assert not isinstance(vi, dict)` walks the *keys*, which are hashable, so it cannot fire) -/
def normalizeCols : List (String × Spec T) → List (String × NSpec T)
  | [] => []
  | (c, s) :: rest => (c, normalize s) :: normalizeCols rest
end

/-! ### `_check_spec` and `_check_data_frame_matches_schema` -/

/-- one entry of `msgs` in `_check_data_frame_matches_schema` -/
inductive ColIssue where
  | missingColumn (c : String)     -- f"missing required column '{col_name}'"
  | badCell (c : String)           -- f" column '{col_name}' {msg_i}"
  deriving DecidableEq, Repr

/-- the message `_check_spec` returns (its kind; the text is not modelled) -/
inductive Msg where
  | wrongType        -- "expected type T, found type U"
  | notOneOf         -- "expected type one of {..}, found type U"
  | notAFrame        -- "expected a Pandas or Polars data frame, had U"
  | columns (issues : List ColIssue)
  deriving DecidableEq, Repr

/-- The cell loop of `_check_data_frame_matches_schema`:
```
    for vi in d[col_name]:
        if not _is_null(vi):
            msg_i = self._check_spec(expected_type=spec_i, observed_value=vi)
            if msg_i is not None:
                msgs.append(f" column '{col_name}' {msg_i}")
                break
```
`bad x` = "`_check_spec` returns a message for cell `x`". -/
def firstBad (bad : Scalar T → Bool) (c : String) : List (Scalar T) → List ColIssue
  | [] => []
  | x :: xs => if x.isNull then firstBad bad c xs
               else if bad x then [.badCell c] else firstBad bad c xs

/-- `d[col_name]` / `col_name not in set(d.columns)` -/
def Frame.column (f : Frame T) (c : String) : Option (List (Scalar T)) := f.cols.lookup c

/-- `spec_i is None` -/
def NSpec.isNone : NSpec T → Bool
  | .none => true
  | _ => false

/-- One round of the column loop of `_check_data_frame_matches_schema`:
```
    if col_name not in col_set:
        msgs.append(f"missing required column '{col_name}'")
    else:
        if (spec_i is not None) and (d.shape[0] > 0):
            <cell loop>
```
`unconstrained` = `spec_i is None`. -/
def columnIssues (bad : Scalar T → Bool) (unconstrained : Bool) (f : Frame T) (c : String) : List ColIssue :=
  match f.column c with
  | Option.none => [.missingColumn c]
  | some cells => if !unconstrained && decide (f.nrows > 0) then firstBad bad c cells else []

mutual
/-- `SchemaRaises._check_spec(expected_type, observed_value)`; `none` = returns `None`:
```
    if expected_type is None:                  return None
    elif isinstance(expected_type, type):
        if not isinstance(observed_value, expected_type):      return "expected type …"
    elif isinstance(expected_type, set):
        if not np.any([isinstance(observed_value, ti) for ti in expected_type]):   return "expected type one of …"
    elif isinstance(expected_type, dict):
        schema_issue = self._check_data_frame_matches_schema(d=observed_value, expected_type=expected_type)
        if schema_issue is not None:           return schema_issue
    else: raise ValueError(...)                # unreachable for a normalised specification
    return None
```
and the head of `_check_data_frame_matches_schema`:
```
    if not is_data_frame(d):   return "expected a Pandas or Polars data frame, had …"
    if expected_type is None:  return None          # dead: only called with a dict
    msgs = [] ... ;  if len(msgs) < 1: return None  else: return " ,".join(msgs)
``` -/
def checkSpec : NSpec T → Value T → Option Msg
  | .none, _ => Option.none
  | .ty t, v => if isinstance v t then Option.none else some .wrongType
  | .oneOf ts, v => if ts.any (fun t => isinstance v t) then Option.none else some .notOneOf
  | .frame cols, v =>
    match v with
    | .scalar _ => some .notAFrame
    | .frame f =>
      match checkCols cols f with
      | [] => Option.none
      | i :: is => some (.columns (i :: is))
/-- the column loop of `_check_data_frame_matches_schema`:
```
    col_set = set(d.columns)
    for col_name, spec_i in expected_type.items():
        <columnIssues>
``` -/
def checkCols : List (String × NSpec T) → Frame T → List ColIssue
  | [], _ => []
  | (c, s) :: rest, f =>
    columnIssues (fun x => (checkSpec s (.scalar x)).isSome) s.isNone f c
    ++ checkCols rest f
end

/-! ### `check_args`, `check_return`, the wrapper -/

inductive Err where
  | typeError
  | indexError
  deriving DecidableEq, Repr

/-- one entry of `msgs` in `check_args` -/
inductive ArgIssue where
  | bad (k : String)        -- f"arg {k} {msg}"
  | missing (k : String)    -- f"expected arg {k} missing"
  deriving DecidableEq, Repr

/-- positional loop of `check_args` (run on `zip(arg_names, args)`):
```
    for i in range(len(args)):
        k = arg_names[i]
        observed_value = args[i]
        seen.add(k)
        if k in self.arg_specs.keys():
            msg = self._check_spec(expected_type=self.arg_specs[k], observed_value=observed_value)
            if msg is not None: msgs.append(f"arg {k} {msg}")
``` -/
def posIssues (specs : List (String × NSpec T)) : List (String × Value T) → List ArgIssue
  | [] => []
  | (k, v) :: rest =>
    (match specs.lookup k with
     | Option.none => []
     | some s => if (checkSpec s v).isSome then [.bad k] else []) ++ posIssues specs rest

/-- named loop of `check_args` (`todo` runs over `self.arg_specs.items()`):
```
    for k, expected_type in self.arg_specs.items():
        if k not in seen:
            if k not in kwargs.keys():  msgs.append(f"expected arg {k} missing")
            else:
                msg = self._check_spec(expected_type=expected_type, observed_value=kwargs[k])
                if msg is not None: msgs.append(f"arg {k} {msg}")
``` -/
def kwIssues (seen : List String) (kwargs : List (String × Value T)) :
    List (String × NSpec T) → List ArgIssue
  | [] => []
  | (k, s) :: rest =>
    (if seen.contains k then []
     else match kwargs.lookup k with
       | Option.none => [.missing k]
       | some v => if (checkSpec s v).isSome then [.bad k] else []) ++ kwIssues seen kwargs rest

/-- The issues `check_args` collects, or `IndexError` from `arg_names[i]` when there are more positional
arguments than parameter names (the loop is left before anything observable happened; `msgs` is local). -/
def argIssues (specs : List (String × NSpec T)) (names : List String) (args : List (Value T))
    (kwargs : List (String × Value T)) : Except Err (List ArgIssue) :=
  if names.length < args.length then .error .indexError
  else .ok (posIssues specs (names.zip args) ++ kwIssues (names.take args.length) kwargs specs)

/-- `SchemaRaises.check_args`, **as repaired by `fixes/C22-schema-none-arg-specs.diff`**:
```
    if not SchemaCheckSwitch().is_on(): return
    if self.arg_specs is None:          return       # added: arg_specs defaults to None (was AttributeError)
    ...
    if len(msgs) > 0: raise TypeError("\nfunction " + fname + "(), issues:\n" + "  \n".join(msgs))
```
`on` is the switch at the time of the call. -/
def checkArgs (on : Bool) (specs : Option (List (String × NSpec T))) (names : List String)
    (args : List (Value T)) (kwargs : List (String × Value T)) : Except Err Unit :=
  if !on then .ok ()
  else match specs with
    | Option.none => .ok ()
    | some specs =>
      match argIssues specs names args kwargs with
      | .error e => .error e
      | .ok [] => .ok ()
      | .ok (_ :: _) => .error .typeError

/-- `SchemaRaises.check_return`:
```
    if not SchemaCheckSwitch().is_on(): return
    msg = self._check_spec(expected_type=self.return_spec, observed_value=return_value)
    if msg is not None: raise TypeError(f"{fname}() return value: {msg}", return_value)
``` -/
def checkReturn (on : Bool) (spec : NSpec T) (r : Value T) : Except Err Unit :=
  if !on then .ok ()
  else match checkSpec spec r with
    | Option.none => .ok ()
    | some _ => .error .typeError

/-- `SchemaBase.__init__`: both specifications are normalised once, at decoration time. -/
structure Schema (T : Type) where
  argSpecs : Option (List (String × NSpec T))
  returnSpec : NSpec T

def mkSchema (argSpecs : Option (List (String × Spec T))) (returnSpec : Spec T) : Schema T :=
  ⟨argSpecs.map normalizeCols, normalize returnSpec⟩

/-- How a call of the wrapped function ends. `E` = the exceptions the undecorated function raises itself
(including Python's own binding TypeError). -/
inductive Outcome (T E : Type) where
  | returned (v : Value T)          -- the function's own return value (the same object)
  | ownRaise (e : E)                -- the function's own exception
  | argsError                       -- TypeError raised by check_args
  | returnError                     -- TypeError raised by check_return
  | internalError (e : Err)         -- any other exception escaping the checker (IndexError)
  deriving DecidableEq

/-- A Python function as the wrapper sees it: given the global switch state, `*args` and `**kwargs`, it
returns or raises, and leaves the switch in some state (the switch is a process-wide singleton which the
function body may flip; the wrapper reads it before *and* after the call). -/
abbrev PyFn (T E : Type) := Bool → List (Value T) → List (String × Value T) → Except E (Value T) × Bool

/-- `SchemaRaises.__call__(type_check_fn)` → `wrapped_fn(*args, **kwargs)`:
```
    type_check_self.check_args(fname=…, arg_names=type_check_arg_names, args=args, kwargs=kwargs)
    type_check_return_value = type_check_fn(*args, **kwargs)
    type_check_self.check_return(fname=…, return_value=type_check_return_value)
    return type_check_return_value
```
`names` = `[k for k, v in signature(type_check_fn).parameters.items()]`.  Result: outcome and final switch. -/
def wrapped {E : Type} (sc : Schema T) (names : List String) (f : PyFn T E) (sw : Bool)
    (args : List (Value T)) (kwargs : List (String × Value T)) : Outcome T E × Bool :=
  match checkArgs sw sc.argSpecs names args kwargs with
  | .error .typeError => (.argsError, sw)
  | .error e => (.internalError e, sw)
  | .ok () =>
    match f sw args kwargs with
    | (.error e, sw') => (.ownRaise e, sw')
    | (.ok r, sw') =>
      match checkReturn sw' sc.returnSpec r with
      | .error _ => (.returnError, sw')
      | .ok () => (.returned r, sw')

/-- `SchemaMock.__call__`: "Does nothing." – returns the function itself. -/
def mockWrapped {E : Type} (_sc : Schema T) (f : PyFn T E) (sw : Bool)
    (args : List (Value T)) (kwargs : List (String × Value T)) : Outcome T E × Bool :=
  match f sw args kwargs with
  | (.error e, sw') => (.ownRaise e, sw')
  | (.ok r, sw') => (.returned r, sw')

/-! ### The concrete universe used by the driver (validated against `issubclass` on every run) -/

inductive PyType where
  | object | bool | int | float | str | noneType
  | npInt64 | npFloat64 | npBool | npStr | npNumber | npGeneric
  | naType | pandasDF | polarsDF
  deriving DecidableEq, Repr

/-- `issubclass(a, b)` on the fifteen classes: reflexive, everything ≤ object, bool ≤ int,
numpy.float64 ≤ float, numpy.str_ ≤ str, numpy.int64/float64 ≤ numpy.number ≤ numpy.generic,
numpy.bool/str_ ≤ numpy.generic. -/
def PyType.sub (a b : PyType) : Bool :=
  a == b || b == .object ||
  (match a, b with
   | .bool, .int => true
   | .npFloat64, .float => true
   | .npStr, .str => true
   | .npInt64, .npNumber => true
   | .npFloat64, .npNumber => true
   | .npInt64, .npGeneric => true
   | .npFloat64, .npGeneric => true
   | .npBool, .npGeneric => true
   | .npStr, .npGeneric => true
   | .npNumber, .npGeneric => true
   | _, _ => false)

instance : TypeUniverse PyType := ⟨PyType.sub, .pandasDF, .polarsDF⟩

end DAVerif.Schema
