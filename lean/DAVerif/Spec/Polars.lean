import DAVerif.Sem.Polars
/-!
Specification-side vocabulary of C03 ("the Polars executor agrees with Pandas whenever it returns a result").

* `Table.EquivPl` (`t ≈ₚₗ t'`): the same set of columns and the same multiset of rows, rows read through the column
  names (i.e. up to column order).
* The **known deviations** of the Polars executor from the Pandas executor, each a decidable predicate on the
  data that reaches one operator (`GuardId`), collected over a pipeline by `violations`; `Guards` = no deviation
  occurs.  The driver (`k6_polars`) evaluates the very same `violations` to attribute a failing case.
* Nothing here mentions how Polars computes a step: the predicates speak about the pipeline and the
  intermediate tables of the *Pandas* executor (`sem … SemCfg.pandas`).

No imports beyond model files: part of the compiled driver.
-/
namespace DAVerif

/-! ### equivalence up to row order and column order -/

/-- the same columns as a set (no column twice on either side is part of well-formedness, not of this relation)
and the same multiset of rows once every row is read in the column order of the left table -/
def Table.EquivPl (t t' : Table) : Prop :=
  t.cols.Perm t'.cols ∧ (t.rows.map (fun r => r.select t.cols)).Perm (t'.rows.map (fun r => r.select t.cols))

@[inherit_doc] infix:50 " ≈ₚₗ " => Table.EquivPl

instance (t t' : Table) : Decidable (t ≈ₚₗ t') :=
  inferInstanceAs (Decidable (_ ∧ _))

namespace Pl

/-- the known deviations (finding guards `G_k`) and the scope conditions (`S_k`) of C03 -/
inductive GuardId where
  /-- N1: a comparison / `is_in` / `is_nan` / `is_inf` / `and` / `or` sees a null operand: Polars answers null
  (Kleene logic), Pandas `False` (`True` for `!=`) -/
  | nullCompare
  /-- D27 (code before the fix): `maximum` / `minimum` with a null argument: Polars ignores it, numpy propagates it -/
  | maxNull
  /-- D18: a join whose key columns contain a null on both sides: Pandas matches null with null, Polars does not -/
  | nullKeys
  /-- D20 (before the fix): a full join with a right row that has no partner: its key is lost (no key coalescing) -/
  | fullJoinKeys
  /-- D21 (before the fix): `order_rows(limit=…)` over an order column with a null: Polars nulls first, Pandas last -/
  | orderNullLimit
  /-- D21 (before the fix), row order of a final `order_rows` over an order column with a null -/
  | orderNullFinal
  /-- N12 (before the fix): ordered window whose `order_by` column has a null (null placement of the window order) -/
  | windowOrderNull
  /-- ungrouped `project` over an empty input: Polars returns one all-null row, Pandas the aggregates of the empty
  group (`0` for `sum count size nunique`, `False`/`True` for `any`/`all`) -/
  | emptyProject
  /-- N6 (before the fix): `nunique` over values containing a null: Polars counts null as a value -/
  | nuniqueNull
  /-- `first` / `last` whose first / last cell is null while another is not: Polars returns the null, Pandas skips it -/
  | firstLastNull
  /-- scope (Appendix B): `any_value` over a group whose non-null values are not all equal -/
  | anyValueNonConst
  deriving DecidableEq, Repr, Inhabited

def GuardId.toStr : GuardId → String
  | .nullCompare => "null_compare" | .maxNull => "max_null" | .nullKeys => "null_keys"
  | .fullJoinKeys => "full_join_keys" | .orderNullLimit => "order_null_limit" | .orderNullFinal => "order_null_final"
  | .windowOrderNull => "window_order_null" | .emptyProject => "empty_project" | .nuniqueNull => "nunique_null"
  | .firstLastNull => "first_last_null" | .anyValueNonConst => "any_value_nonconst"

/-! ### deviations of one method application, on its evaluated arguments -/

/-- deviations of the row-wise method `op` applied to `args` (the predicates are those of `Prim/Polars.lean`) -/
def scalarViol (cfg : Cfg) (op : String) (args : List ArgV) : List GuardId :=
  let vs := args.map Theta.cell
  (if nullLogicDev op vs args then [GuardId.nullCompare] else []) ++
  (if maxNullDev cfg op vs then [GuardId.maxNull] else [])

/-- deviations of the aggregate `op` over the values `vs` of one group (in group / window order) -/
def aggViol (cfg : Cfg) (op : String) (vs : List Val) : List GuardId :=
  (if nuniqueDev cfg op vs then [GuardId.nuniqueNull] else []) ++
  (if anyValueDev op vs then [GuardId.anyValueNonConst] else []) ++
  (if firstDev op vs || lastDev op vs then [GuardId.firstLastNull] else [])

mutual
/-- deviations met while evaluating an expression on row `r` (arguments evaluated by the Pandas interpretation) -/
def termViol (cfg : Cfg) (Θ : Interp) (r : Row) : Term → List GuardId
  | .app op args _ _ => termsViol cfg Θ r args ++ scalarViol cfg op (evalArgs Θ r args)
  | _ => []
def termsViol (cfg : Cfg) (Θ : Interp) (r : Row) : List Term → List GuardId
  | [] => []
  | t :: ts => termViol cfg Θ r t ++ termsViol cfg Θ r ts
end

/-! ### deviations of one operator, on the input table(s) the Pandas executor gives it -/

def hasNullIn (cs : List String) (rows : List Row) : Bool :=
  rows.any (fun r => cs.any (fun c => (r.get c).isNull))

def extendPlainViol (cfg : Cfg) (Θ : Interp) (ops : Assign) (t : Table) : List GuardId :=
  t.rows.flatMap (fun r => ops.flatMap (fun kv => termViol cfg Θ r kv.2))

def selectRowsViol (cfg : Cfg) (Θ : Interp) (e : Term) (t : Table) : List GuardId :=
  t.rows.flatMap (fun r => termViol cfg Θ r e)

/-- the window of row `r`: its partition in the Pandas window order -/
def windowOf (partition order reverse : List String) (rows : List Row) (r : Row) : List Row :=
  DAVerif.sortRows order reverse (rows.filter (fun r' => keyOf r' partition == keyOf r partition))

def extendWindowViol (cfg : Cfg) (ops : Assign) (partition order reverse : List String) (t : Table) : List GuardId :=
  (if !cfg.nullsLast && !order.isEmpty && hasNullIn order t.rows then [GuardId.windowOrderNull] else []) ++
  t.rows.flatMap (fun r => ops.flatMap (fun kv =>
    aggViol cfg (opName kv.2) (argValues kv.2 (windowOf partition order reverse t.rows r))))

def projectViol (cfg : Cfg) (Θ : Interp) (ops : Assign) (group : List String) (t : Table) : List GuardId :=
  if group.isEmpty then
    if t.rows.isEmpty then
      (if ops.all (fun kv => Θ.agg (opName kv.2) (argValues kv.2 []) == .null) then [] else [GuardId.emptyProject])
    else ops.flatMap (fun kv => aggViol cfg (opName kv.2) (argValues kv.2 t.rows))
  else
    ((t.rows.map (fun r => keyOf r group)).eraseDups).flatMap (fun k =>
      ops.flatMap (fun kv => aggViol cfg (opName kv.2) (argValues kv.2 (t.rows.filter (fun r => keyOf r group == k)))))

def orderViol (cfg : Cfg) (cs : List String) (limit : Option Nat) (t : Table) : List GuardId :=
  if !cfg.nullsLast && limit.isSome && hasNullIn cs t.rows then [GuardId.orderNullLimit] else []

def joinViol (cfg : Cfg) (jt : JoinType) (onA onB : List String) (ta tb : Table) : List GuardId :=
  (if (onA.zip onB).any (fun ab => ta.rows.any (fun r => (r.get ab.1).isNull) && tb.rows.any (fun r => (r.get ab.2).isNull))
   then [GuardId.nullKeys] else []) ++
  (if (jt == .full || jt == .outer) && !cfg.fullCoalesceKeys &&
      !(tb.rows.all (fun rb => ta.rows.any (fun ra => keyMatch (keyOf ra onA) (keyOf rb onB))))
   then [GuardId.fullJoinKeys] else [])

/-- the result of a sub-pipeline on the Pandas executor, for the guards of the operator consuming it -/
def onInput (r : Except Err Table) (f : Table → List GuardId) : List GuardId :=
  match r with
  | .ok t => f t
  | .error _ => []

/-- **all deviations a pipeline meets on an environment** (sub-pipelines first).  Each operator is judged on the
input the *Pandas* executor (`sem Θ SemCfg.pandas`) computes for it. -/
def violations (cfg : Cfg) (Θ : Interp) (env : Env) : Ops → List GuardId
  | .table _ _ => []
  | .extend src ops partition order reverse windowed =>
    violations cfg Θ env src ++ onInput (sem Θ SemCfg.pandas env src) (fun t =>
      if windowed then extendWindowViol cfg ops partition order reverse t else extendPlainViol cfg Θ ops t)
  | .project src ops group =>
    violations cfg Θ env src ++ onInput (sem Θ SemCfg.pandas env src) (projectViol cfg Θ ops group)
  | .selectRows src e =>
    violations cfg Θ env src ++ onInput (sem Θ SemCfg.pandas env src) (selectRowsViol cfg Θ e)
  | .order src cs _ limit =>
    violations cfg Θ env src ++ onInput (sem Θ SemCfg.pandas env src) (orderViol cfg cs limit)
  | .selectCols src _ | .dropCols src _ | .rename src _ | .mapCols src _ _ | .convert src _ => violations cfg Θ env src
  | .join a b onA onB jt =>
    violations cfg Θ env a ++ violations cfg Θ env b ++
      onInput (sem Θ SemCfg.pandas env a) (fun ta => onInput (sem Θ SemCfg.pandas env b) (joinViol cfg jt onA onB ta))
  | .concat a b _ _ _ => violations cfg Θ env a ++ violations cfg Θ env b

/-- the additional guard of the claim about the *row order* after a final `order_rows` -/
def finalOrderViol (cfg : Cfg) (Θ : Interp) (env : Env) : Ops → List GuardId
  | .order src cs _ _ => onInput (sem Θ SemCfg.pandas env src) (fun t =>
      if !cfg.nullsLast && hasNullIn cs t.rows then [GuardId.orderNullFinal] else [])
  | _ => []

/-- **Guards**: none of the known deviations occurs anywhere in the pipeline on this environment -/
def Guards (cfg : Cfg) (Θ : Interp) (env : Env) (p : Ops) : Prop := violations cfg Θ env p = []

instance (cfg : Cfg) (Θ : Interp) (env : Env) (p : Ops) : Decidable (Guards cfg Θ env p) :=
  inferInstanceAs (Decidable (_ = _))

/-- the deviations that remain after the four fixes -/
def Remaining (g : GuardId) : Prop :=
  g = .nullCompare ∨ g = .nullKeys ∨ g = .emptyProject ∨ g = .firstLastNull ∨ g = .anyValueNonConst


end Pl
end DAVerif
