import DAVerif.Sem.Eval
/-
C05, specification side: the *documented* meaning of the catalogued methods.

`docScalar`, `docAgg`, `docWin` transcribe the docstrings of `data_algebra.expr_rep.Term` (quoted next to every
clause) and, for the operators that have no docstring (`+ - * / // % ** == != < <= > >= and or not`), the meaning of
the Python operator of the same spelling on values of the right kind.  They are written independently of the two
backend models (`Theta`: pandas/numpy, `ThetaSql`: the generated SQL) and never mention them.

`none` = the documentation does not determine a value:
  * the arguments are outside the mathematical domain (division by zero, `0 ** -1`, non-integer exponent: class 3),
  * the arguments are ill-kinded (a string where a number is documented),
  * the docstring is *silent* about this argument (a null operand of an arithmetic or comparison operator, a tie of
    `round`, a null item of a cumulative window function …).
Where a docstring *does* speak about nulls ("propogate missing", "ignore missing", "None propagating behavior",
"where(None, 1, 2) -> 2", "number of non-NA cells", "Replace missing values") the clause has a null case.
Null and NaN are one value (DESIGN Appendix B); all numbers are finite rationals.

Aggregates: the source places them under "pandas style definitions
https://pandas.pydata.org/pandas-docs/stable/reference/groupby.html" and `count` is documented as "number of non-NA
cells": the documented reading of an aggregate is over the non-NA items of the group.

No imports beyond `Sem/Eval` (for `Val`, `ArgV`): part of the compiled driver (suite `k1_methods` prints it next to the
backend models so that the harness can compare it with its own plain-Python reference).
-/
namespace DAVerif.Doc
open DAVerif

/-! ### small helpers (specification side; nothing of `Theta` is used) -/

/-- strict order of two cells of the same kind (Python `<` on bool / float / str) -/
def lt : Val → Val → Bool
  | .bool a, .bool b => !a && b
  | .num a, .num b => a < b
  | .str a, .str b => a < b
  | _, _ => false

/-- two non-null cells of the same kind -/
def sameKind : Val → Val → Bool
  | .bool _, .bool _ => true
  | .num _, .num _ => true
  | .str _, .str _ => true
  | _, _ => false

def ipow (x : Rat) : Nat → Rat
  | 0 => 1
  | n + 1 => ipow x n * x

def maxR (x y : Rat) : Rat := if x < y then y else x
def minR (x y : Rat) : Rat := if y < x then y else x

/-- nearest integer; `none` on an exact tie (the docstring of `round` says "subject to some rules" and names none) -/
def nearest? (y : Rat) : Option Int :=
  let f : Int := y.floor
  let d := y - f
  if d < 1/2 then some f else if 1/2 < d then some (f + 1) else none

def cells? : List ArgV → Option (List Val)
  | [] => some []
  | .v x :: r => (cells? r).map (x :: ·)
  | _ :: _ => none

def nums? : List Val → Option (List Rat)
  | [] => some []
  | .num q :: r => (nums? r).map (q :: ·)
  | _ :: _ => none

def bools? : List Val → Option (List Bool)
  | [] => some []
  | .bool b :: r => (bools? r).map (b :: ·)
  | _ :: _ => none

/-! ### argument-shape combinators -/

/-- one numeric argument -/
def num1 (f : Rat → Option Val) : List ArgV → Option Val
  | [.v (.num x)] => f x
  | _ => none

/-- two numeric arguments -/
def num2 (f : Rat → Rat → Option Val) : List ArgV → Option Val
  | [.v (.num x), .v (.num y)] => f x y
  | _ => none

/-- k ≥ 2 numeric arguments folded from the left (`x + y + z` is one k-ary node of the expression tree) -/
def numK (f : Rat → Rat → Rat) (args : List ArgV) : Option Val :=
  match (cells? args).bind nums? with
  | some (x :: y :: r) => some (.num ((y :: r).foldl f x))
  | _ => none

/-- k ≥ 2 boolean arguments -/
def boolK (f : List Bool → Bool) (args : List ArgV) : Option Val :=
  match (cells? args).bind bools? with
  | some (x :: y :: r) => some (.bool (f (x :: y :: r)))
  | _ => none

/-- comparison of two non-null cells of the same kind -/
def cmp (f : Val → Val → Bool) : List ArgV → Option Val
  | [.v a, .v b] => if sameKind a b then some (.bool (f a b)) else none
  | _ => none

/-- "propogate missing": null as soon as one argument is missing -/
def propagate2 (f : Rat → Rat → Rat) : List ArgV → Option Val
  | [.v (.num x), .v (.num y)] => some (.num (f x y))
  | [.v .null, .v (.num _)] => some .null
  | [.v (.num _), .v .null] => some .null
  | [.v .null, .v .null] => some .null
  | _ => none

/-- "ignore missing": the other argument when one is missing -/
def ignore2 (f : Rat → Rat → Rat) : List ArgV → Option Val
  | [.v (.num x), .v (.num y)] => some (.num (f x y))
  | [.v .null, .v (.num y)] => some (.num y)
  | [.v (.num x), .v .null] => some (.num x)
  | [.v .null, .v .null] => some .null
  | _ => none

/-- a test of one cell of a numeric column (number or missing) -/
def test1 (onNull : Bool) : List ArgV → Option Val
  | [.v .null] => some (.bool onNull)
  | [.v (.num _)] => some (.bool false)          -- every number of the model is finite and not NaN
  | _ => none

/-- the keys of a value map are non-null cells of the kind of the mapped cell (which may be missing) -/
def keysOk (a : Val) (kvs : List (Val × Val)) : Bool :=
  kvs.all (fun kv => kv.1 != .null && (a == .null || sameKind a kv.1))

/-! ### row-wise methods -/

/-- the documented value of `op` applied to `args`, `none` where the documentation determines none -/
def docScalar (op : String) (args : List ArgV) : Option Val :=
  match op with
  -- Python operators on numbers (no docstring: `__add__` … are one-line wrappers).  A null operand: silent.
  | "+" => numK (· + ·) args
  | "*" => numK (· * ·) args
  | "-" =>
    match args with
    | [.v (.num x)] => some (.num (-x))
    | [.v (.num x), .v (.num y)] => some (.num (x - y))
    | _ => none
  | "/" => num2 (fun x y => if y = 0 then none else some (.num (x / y))) args
  -- `float_divide`: the same quotient ("%/%" exists so that SQL does not divide integers)
  | "%/%" => num2 (fun x y => if y = 0 then none else some (.num (x / y))) args
  | "//" => num2 (fun x y => if y = 0 then none else some (.num ((x / y).floor : Int))) args
  -- Python `%`; `mod` "Return modulo of items (vectorized)."; `remainder` "Return remainder of items (vectorized)."
  -- sql_model.py: "they do [agree] in numpy, which we will use as the reference implementation"
  --               np.mod([5, 5, -5, 5], [2, -2, 2, -2]) = [1, -1, 1, -1]   (sign of the divisor)
  | "%" => num2 (fun x y => if y = 0 then none else some (.num (x - y * ((x / y).floor : Int)))) args
  | "mod" => num2 (fun x y => if y = 0 then none else some (.num (x - y * ((x / y).floor : Int)))) args
  | "remainder" => num2 (fun x y => if y = 0 then none else some (.num (x - y * ((x / y).floor : Int)))) args
  -- Python `**` for an integer exponent (a fractional exponent is class 3: transcendental, not modelled)
  | "**" => num2 (fun x y =>
      if y.den = 1 then
        if 0 ≤ y.num then some (.num (ipow x y.num.toNat))
        else if x = 0 then none else some (.num (1 / ipow x (-y.num).toNat))
      else none) args
  -- Python comparisons on two values of one kind.  A null operand: silent.
  | "==" => cmp (fun a b => a == b) args
  | "!=" => cmp (fun a b => a != b) args
  | "<" => cmp (fun a b => lt a b) args
  | "<=" => cmp (fun a b => !lt b a) args
  | ">" => cmp (fun a b => lt b a) args
  | ">=" => cmp (fun a b => !lt a b) args
  -- Python `and` / `or` on booleans (`not a`: the parser turns it into `a == False`, covered by "==").  A null operand: silent.
  | "and" => boolK (fun bs => bs.all id) args
  | "or" => boolK (fun bs => bs.any id) args
  -- "Return -1, 0, 1 as sign of item (vectorized)."
  | "sign" => num1 (fun x => some (.num (if x < 0 then -1 else if x = 0 then 0 else 1))) args
  -- "Return absolute value of items (vectorized)."
  | "abs" => num1 (fun x => some (.num (if x < 0 then -x else x))) args
  -- "Return floor() (largest int no larger than, as real type) of item (vectorized)."
  | "floor" => num1 (fun x => some (.num (x.floor : Int))) args
  -- "Return ceil() (smallest int no smaller than, as real type) of item (vectorized)."
  | "ceil" => num1 (fun x => some (.num (x.ceil : Int))) args
  -- "Return rounded values (nearest integer, subject to some rules) as real (vectorized)."   (ties: no rule named)
  | "round" => num1 (fun x => (nearest? x).map (fun r => .num (r : Rat))) args
  -- "Return rounded values (given numer of decimals) as real (vectorized)."
  --  a negative whole number of decimals rounds to tens, hundreds, … (numpy.around): scale 1 / 10^|k|
  | "around" => num2 (fun x k =>
      if k.den = 1 ∧ 0 ≤ k.num then
        (nearest? (x * ipow 10 k.num.toNat)).map (fun r => .num ((r : Rat) / ipow 10 k.num.toNat))
      else if k.den = 1 then
        (nearest? (x * (1 / ipow 10 (-k.num).toNat))).map (fun r => .num ((r : Rat) / (1 / ipow 10 (-k.num).toNat)))
      else none) args
  -- "Return per row maximum of items and other (propogate missing, vectorized)."
  | "maximum" => propagate2 maxR args
  -- "Return per row minimum of items and other (propogate missing, vectorized)."
  | "minimum" => propagate2 minR args
  -- "Return per row fmax of items and other (ignore missing, vectorized)."
  | "fmax" => ignore2 maxR args
  -- "Return per row fmin of items and other (ignore missing, vectorized)."
  | "fmin" => ignore2 minR args
  -- "Return which items are null (vectorized)."
  | "is_null" =>
    match args with
    | [.v a] => some (.bool (a == .null))
    | _ => none
  -- "Return which items are nan (vectorized)."   null and NaN are one value
  | "is_nan" => test1 true args
  -- "Return which items are inf (vectorized)."
  | "is_inf" => test1 false args
  -- "Return which items in a numeric column are bad (null, None, nan, or infinite) (vectorized)."
  | "is_bad" => test1 true args
  -- "Vectorized selection between two argument vectors. if_else(True, 1, 2) > 1, if_else(False, 1, 2) -> 2.
  --  None propagating behavior if_else(None, 1, 2) -> None."
  | "if_else" =>
    match args with
    | [.v (.bool true), .v a, .v _] => some a
    | [.v (.bool false), .v _, .v b] => some b
    | [.v .null, .v _, .v _] => some .null
    | _ => none
  -- "Vectorized selection between two argument vectors. … numpy.where behavior: where(None, 1, 2) -> 2"
  | "where" =>
    match args with
    | [.v (.bool true), .v a, .v _] => some a
    | [.v (.bool false), .v _, .v b] => some b
    | [.v .null, .v _, .v b] => some b
    | _ => none
  -- "Replace missing values with alternative (vectorized)."   (`coalesce_0`: "Replace missing values with zero")
  | "coalesce" =>
    match args with
    | [.v a, .v b] => some (if a == .null then b else a)
    | _ => none
  -- "Set membership (vectorized)."   of a non-missing item in a set of values of its kind (a missing item: silent)
  | "is_in" =>
    match args with
    | [.v a, .l xs] => if xs.all (sameKind a) then some (.bool (xs.contains a)) else none
    | _ => none
  -- "Map values to values (vectorized)."   mapv(value_map, default_value=None): values not in the map get the default
  | "mapv" =>
    match args with
    | [.v a, .d kvs] => if keysOk a kvs then some ((kvs.lookup a).getD .null) else none
    | [.v a, .d kvs, .v dflt] => if keysOk a kvs then some ((kvs.lookup a).getD dflt) else none
    | _ => none
  -- "Concatinate strings (vectorized)."   a missing string: silent
  | "concat" =>
    match args with
    | [.v (.str a), .v (.str b)] => some (.str (a ++ b))
    | _ => none
  -- "Trim string start (inclusive) to stop (exclusive) (vectorized)."
  | "trimstr" =>
    match args with
    | [.v (.str s), .v (.num i), .v (.num j)] =>
      if i.den = 1 ∧ j.den = 1 ∧ 0 ≤ i.num ∧ i.num ≤ j.num then
        some (.str (String.ofList ((s.toList.drop i.num.toNat).take (j.num.toNat - i.num.toNat))))
      else none
    | _ => none
  -- "Cast as int (vectorized)."   the value itself when it is an integer (a fraction: the rounding is not named)
  | "as_int64" => num1 (fun x => if x.den = 1 then some (.num x) else none) args
  -- "Cast as string (vectorized)."   a string is unchanged (the text of a number is not specified: class 3)
  | "as_str" =>
    match args with
    | [.v (.str s)] => some (.str s)
    | _ => none
  | _ => none

/-! ### aggregates (classes g, p, up): the group's argument cells in row order -/

def nonNull (vs : List Val) : List Val := vs.filter (· != .null)

def sumQ : List Rat → Rat
  | [] => 0
  | x :: r => x + sumQ r

/-- every non-null item is a number -/
def numItems? (vs : List Val) : Option (List Rat) := nums? (nonNull vs)
def boolItems? (vs : List Val) : Option (List Bool) := bools? (nonNull vs)

def leastBy (lt : Val → Val → Bool) : List Val → Option Val
  | [] => none
  | x :: r => match leastBy lt r with
    | none => some x
    | some m => some (if lt m x then m else x)

/-- all items are non-null cells of one kind -/
def oneKind : List Val → Bool
  | [] => true
  | [x] => x != .null
  | x :: y :: r => sameKind x y && oneKind (y :: r)

def insertSorted (x : Rat) : List Rat → List Rat
  | [] => [x]
  | y :: r => if x ≤ y then x :: y :: r else y :: insertSorted x r
def sortQ : List Rat → List Rat
  | [] => []
  | x :: r => insertSorted x (sortQ r)

def docAgg (op : String) (vs : List Val) : Option Val :=
  match op with
  -- "Return sum() of items (vectorized)."   (a group without non-NA items: 0, the pandas sum of nothing; SQL says NULL –
  -- the documented destination difference of C01)
  | "sum" => (numItems? vs).map (fun xs => .num (sumQ xs))
  -- "Return number of non-NA cells (vectorized)."
  | "count" => some (.num (nonNull vs).length)
  -- "Return number of items (vectorized)."      `_size()`: the zero-argument spelling
  | "size" => some (.num vs.length)
  | "_size" => some (.num vs.length)
  -- "Return mean (vectorized)."   of at least one non-NA item
  | "mean" => (numItems? vs).bind (fun xs => if xs.isEmpty then none else some (.num (sumQ xs / xs.length)))
  -- "Return max (vectorized)." / "Return min (vectorized)."   of at least one non-NA item, all of one kind
  | "max" => if oneKind (nonNull vs) then leastBy (fun a b => lt b a) (nonNull vs) else none
  | "min" => if oneKind (nonNull vs) then leastBy lt (nonNull vs) else none
  -- "Return median (vectorized)."
  | "median" => (numItems? vs).bind (fun xs =>
      let s := sortQ xs
      let n := s.length
      if n = 0 then none
      else if n % 2 = 1 then some (.num (s.getD (n / 2) 0))
      else some (.num ((s.getD (n / 2 - 1) 0 + s.getD (n / 2) 0) / 2)))
  -- "Return sample variance (vectorized)."   needs two non-NA items
  | "var" => (numItems? vs).bind (fun xs =>
      if xs.length < 2 then none else
        let m := sumQ xs / xs.length
        some (.num (sumQ (xs.map (fun x => (x - m) * (x - m))) / ((xs.length : Rat) - 1))))
  -- "Return number of unique items (vectorized)."   (non-NA items)
  | "nunique" => some (.num (nonNull vs).eraseDups.length)
  -- "Return True if all items True (vectorized)." / "Return True if any items True (vectorized)."  (non-NA items)
  | "all" => (boolItems? vs).map (fun bs => .bool (bs.all id))
  | "any" => (boolItems? vs).map (fun bs => .bool (bs.any id))
  -- "Return any_value (vectorized)."   scope (Appendix B): the column is constant within the group
  | "any_value" =>
    match vs with
    | [] => none
    | x :: r => if r.all (· == x) then some x else none
  | _ => none

/-! ### window functions (class w; classes g broadcast the aggregate): the partition's argument cells in window order,
the position of the current row, the constant arguments -/

def noNull (vs : List Val) : Bool := vs.all (· != .null)

/-- cumulative fold over the first `pos + 1` items when none of them is missing (a missing item: silent) -/
def cumulative (f : Rat → Rat → Rat) (vs : List Val) (pos : Nat) : Option Val :=
  if pos < vs.length then
    match nums? (vs.take (pos + 1)) with
    | some (x :: r) => some (.num (r.foldl f x))
    | _ => none
  else none

def docWin (op : String) (cargs : List Val) (vs : List Val) (pos : Nat) : Option Val :=
  match op with
  -- "Return cumsum() of items (vectorized)." … "Return cumulative maximum (vectorized)."
  | "cumsum" => cumulative (· + ·) vs pos
  | "cumprod" => cumulative (· * ·) vs pos
  | "cummax" => cumulative maxR vs pos
  | "cummin" => cumulative minR vs pos
  -- "Return cumulative number of non-NA cells (vectorized)."
  | "cumcount" => if pos < vs.length then some (.num (nonNull (vs.take (pos + 1))).length) else none
  -- `_row_number()`: 1-based position in the window order (no docstring; the name)
  | "_row_number" => if pos < vs.length then some (.num ((pos : Rat) + 1)) else none
  -- "Return shifted items (vectorized)."   shift(periods=1): the item `periods` rows earlier, missing outside
  | "shift" =>
    if pos < vs.length then
      match cargs with
      | [] => some (if pos = 0 then .null else vs.getD (pos - 1) .null)
      | [.num k] =>
        if k.den = 1 ∧ k.num ≠ 0 then
          let i : Int := (pos : Int) - k.num
          some (if i < 0 then .null else vs.getD i.toNat .null)
        else none
      | _ => none
    else none
  -- "Return vector with missing vallues filled (vectorized)."   ffill: from the last non-missing item before
  | "ffill" => if pos < vs.length then some (((nonNull (vs.take (pos + 1))).getLast?).getD .null) else none
  -- bfill: from the next non-missing item after
  | "bfill" => if pos < vs.length then some (((nonNull (vs.drop pos)).head?).getD .null) else none
  -- "Return item rangings (vectorized)."   1 + number of smaller items, for distinct non-missing numbers (ties: no rule named)
  | "rank" =>
    if pos < vs.length then
      match nums? vs with
      | some xs => if xs.eraseDups.length = xs.length
                   then some (.num (((xs.filter (fun w => w < xs.getD pos 0)).length : Rat) + 1)) else none
      | none => none
    else none
  -- "Return first (vectorized)." / "Return last (vectorized)."   of a window whose end item is not missing
  | "first" => match vs.head? with | some x => if x != .null then some x else none | none => none
  | "last" => match vs.getLast? with | some x => if x != .null then some x else none | none => none
  | _ => docAgg op vs

/-! ### classes of the catalogue rows (DESIGN §6 C05) -/

/-- class 1 (null / logic / order structure) and class 2 (exact arithmetic over `Rat` / strings): provable here -/
def provableOps : List String :=
  ["!=", "%", "%/%", "*", "**", "+", "-", "/", "//", "<", "<=", "==", ">", ">=", "abs", "and", "around", "as_int64",
   "ceil", "coalesce", "concat", "floor", "fmax", "fmin", "if_else", "is_bad", "is_in", "is_inf", "is_nan", "is_null",
   "mapv", "maximum", "minimum", "mod", "or", "remainder", "round", "sign", "trimstr", "where",
   "_size", "count", "max", "mean", "median", "min", "nunique", "size", "sum", "var", "all", "any", "any_value",
   "_row_number", "bfill", "cumcount", "cummax", "cummin", "cumprod", "cumsum", "ffill", "first", "last", "rank", "shift"]

/-- class 3 (transcendental, date/time, text of numbers, random, undocumented zero-argument functions):
correspondence only, listed in the evidence as sampled, not proven -/
def sampledOps : List String :=
  ["arccos", "arccosh", "arcsin", "arcsinh", "arctan", "arctan2", "arctanh", "cos", "cosh", "exp", "expm1", "log", "log10",
   "log1p", "sin", "sinh", "sqrt", "tanh", "as_str", "std",
   "base_Sunday", "date_diff", "datetime_to_date", "dayofmonth", "dayofweek", "dayofyear", "format_date",
   "format_datetime", "month", "parse_date", "parse_datetime", "quarter", "timestamp_diff", "weekofyear", "year",
   "_uniform", "_count", "_ngroup"]

end DAVerif.Doc
