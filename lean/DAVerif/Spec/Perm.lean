import DAVerif.Sem.Eval
/-!
Specification-side vocabulary for "results do not depend on input row order" (C18; re-used by C01, C06, C07).

* `Table.Equiv` (`t ≈ t'`): same columns, rows equal as multisets;  `Env.Equiv`: same table names, tables
  pointwise equivalent;  `ResEquiv`: the lift to results (`both fail with the same error, or both succeed with
  equivalent tables`).
* Laws on the interpretation `Θ` of function symbols, per operator name (the theorems quantify over every `Θ`):
  `AggOrderFree`, `WinOrderFree`, and the global forms `AggPermInvariant`, `ConvertPermInvariant`.
* Totality conditions on data: `TotalOn` (an ordering has no ties between different rows) and `WinTotal`
  (a window ordering has no ties between two rows of one partition), `IsKey`, `CutClean`; the scope of C18 as a
  predicate over the pipeline, `WindowsTotal` (it speaks about the intermediate tables, hence mentions `sem`).
* `CellBefore`, `LexLe`: what "sorted by the given columns with the given reversals, nulls last" means.

Apart from `WindowsTotal` nothing here mentions how the operators are computed.
-/
namespace DAVerif

/-! ### equivalence up to row order -/

/-- same columns (in the same order) and the same multiset of rows -/
def Table.Equiv (t t' : Table) : Prop := t.cols = t'.cols ∧ t.rows.Perm t'.rows

instance : HasEquiv Table := ⟨Table.Equiv⟩

instance (t t' : Table) : Decidable (t ≈ t') :=
  inferInstanceAs (Decidable (t.cols = t'.cols ∧ t.rows.Perm t'.rows))

theorem Table.equiv_iff {t t' : Table} : t ≈ t' ↔ t.cols = t'.cols ∧ t.rows.Perm t'.rows := Iff.rfl

namespace Table.Equiv
theorem refl (t : Table) : t ≈ t := ⟨rfl, List.Perm.refl _⟩
theorem symm {t t' : Table} (h : t ≈ t') : t' ≈ t := ⟨h.1.symm, h.2.symm⟩
theorem trans {t t' t'' : Table} (h : t ≈ t') (h' : t' ≈ t'') : t ≈ t'' := ⟨h.1.trans h'.1, h.2.trans h'.2⟩
theorem of_eq {t t' : Table} (h : t = t') : t ≈ t' := h ▸ refl t
theorem cols_eq {t t' : Table} (h : t ≈ t') : t.cols = t'.cols := h.1
theorem rows_perm {t t' : Table} (h : t ≈ t') : t.rows.Perm t'.rows := h.2
theorem mem_iff {t t' : Table} (h : t ≈ t') {r : Row} : r ∈ t.rows ↔ r ∈ t'.rows := h.2.mem_iff
theorem length_eq {t t' : Table} (h : t ≈ t') : t.rows.length = t'.rows.length := h.2.length_eq
/-- well-formedness is a property of the multiset of rows -/
theorem wf {t t' : Table} (h : t ≈ t') (hw : t.WF) : t'.WF :=
  fun r hr => h.1 ▸ hw r (h.mem_iff.mpr hr)
end Table.Equiv

/-- two environments bind the same names, in the same order, to equivalent tables -/
def Env.Equiv : Env → Env → Prop
  | [], [] => True
  | (n, t) :: e, (n', t') :: e' => n = n' ∧ t ≈ t' ∧ Env.Equiv e e'
  | _, _ => False

/-- results of evaluation agree up to row order: the same error, or equivalent tables -/
def ResEquiv : Except Err Table → Except Err Table → Prop
  | .ok t, .ok t' => t ≈ t'
  | .error e, .error e' => e = e'
  | _, _ => False

/-! ### laws on the interpretation of function symbols -/

/-- the aggregate `op` only depends on the multiset of its argument values -/
def AggOrderFree (Θ : Interp) (op : String) : Prop :=
  ∀ vs vs' : List Val, vs.Perm vs' → Θ.agg op vs = Θ.agg op vs'

/-- every aggregate only depends on the multiset of its argument values -/
def AggPermInvariant (Θ : Interp) : Prop := ∀ op, AggOrderFree Θ op

/-- the window function `op` only depends on the multiset of the partition's argument values and on the
current row's own value (e.g. a group aggregate broadcast to the rows, `rank`); **not** on where the current
row stands in the window order (`cumsum`, `shift`, `_row_number` do not satisfy this). -/
def WinOrderFree (Θ : Interp) (op : String) : Prop :=
  ∀ (cargs vs vs' : List Val) (pos pos' : Nat), vs.Perm vs' → pos < vs.length → vs[pos]? = vs'[pos']? →
    Θ.win op cargs vs pos = Θ.win op cargs vs' pos'

/-- record transforms respect row order equivalence -/
def ConvertPermInvariant (Θ : Interp) : Prop :=
  ∀ rm t t', t ≈ t' → ResEquiv (Θ.convert rm t) (Θ.convert rm t')

/-! ### totality of orderings on data -/

/-- **Totality of an ordering on a list of rows**: no two *different* rows of the list tie on all order
columns (fully identical duplicate rows are allowed; see `totalOn_iff` for the reading "rows that agree on
every order column are the same row"). -/
def TotalOn (cs rev : List String) (rows : List Row) : Prop :=
  ∀ a ∈ rows, ∀ b ∈ rows, rowLe cs rev a b = true → rowLe cs rev b a = true → a = b

instance (cs rev : List String) (rows : List Row) : Decidable (TotalOn cs rev rows) := by
  unfold TotalOn; exact inferInstance

/-- **Totality of a window ordering within each partition**: no two rows at different positions of the table
that lie in the same partition tie on all order columns (so here even identical duplicates are excluded: their
relative position in the window would be arbitrary).  See `winTotal_iff_getElem` for the index form. -/
def WinTotal (partition order rev : List String) (rows : List Row) : Prop :=
  rows.Pairwise (fun a b => keyOf a partition = keyOf b partition →
    ¬ (rowLe order rev a b = true ∧ rowLe order rev b a = true))

instance (p o rv : List String) (rows : List Row) : Decidable (WinTotal p o rv rows) := by
  unfold WinTotal; exact inferInstance

/-- a set of columns is a key of the rows: no two rows at different positions agree on all of them -/
def IsKey (ks : List String) (rows : List Row) : Prop :=
  rows.Pairwise (fun a b => keyOf a ks ≠ keyOf b ks)

instance (ks : List String) (rows : List Row) : Decidable (IsKey ks rows) := by
  unfold IsKey; exact inferInstance

/-! ### what "sorted by the given columns with the given reversals, nulls last" means -/

/-- the cell `x` comes strictly before the cell `y` in a column sorted ascending (`rev = false`) or descending
(`rev = true`); nulls come last in both directions -/
def CellBefore (rev : Bool) (x y : Val) : Prop :=
  (x.isNull = false ∧ y.isNull = true) ∨
  (x.isNull = false ∧ y.isNull = false ∧ if rev then Val.lt y x = true else Val.lt x y = true)

/-- row `a` may stand before row `b`: they agree on all order columns, or at the first order column where they
differ the cell of `a` comes strictly before the cell of `b` (descending if that column is reversed) -/
def LexLe (cs rev : List String) (a b : Row) : Prop :=
  (∀ c ∈ cs, a.get c = b.get c) ∨
  ∃ pre c post, cs = pre ++ c :: post ∧ (∀ d ∈ pre, a.get d = b.get d) ∧ a.get c ≠ b.get c ∧
    CellBefore (rev.contains c) (a.get c) (b.get c)

/-! ### the scope of C18 -/

/-- the side condition of one windowed `extend` on its input rows: the window order is total within each
partition, **or** every window function used is order free (then ties and missing `order_by` are harmless) -/
def WinOK (Θ : Interp) (ops : Assign) (partition order reverse : List String) (rows : List Row) : Prop :=
  WinTotal partition order reverse rows ∨ ∀ kv ∈ ops, WinOrderFree Θ (opName kv.2)

/-- the cut of `order_rows(limit = n)` does not fall inside a tie: the rows split into `n` kept rows (all rows
if there are fewer) and dropped rows, each kept row *strictly* before each dropped row -/
def CutClean (cs rev : List String) (n : Nat) (rows : List Row) : Prop :=
  ∃ kept dropped : List Row, rows.Perm (kept ++ dropped) ∧ kept.length = min n rows.length ∧
    ∀ a ∈ kept, ∀ b ∈ dropped, rowLe cs rev b a = false

/-- the side condition of one `order_rows` with a limit on its input rows: the order columns determine which
rows are kept -/
def LimitOK (cs rev : List String) (n : Nat) (rows : List Row) : Prop :=
  TotalOn cs rev rows ∨ CutClean cs rev n rows

/-- **Scope of C18** ("window orderings are total within each partition", and a limit does not cut through a
tie), stated on the intermediate tables the pipeline actually computes from `env`: every windowed `extend`
in `p` satisfies `WinOK` on its input, every `order_rows` with a limit satisfies `LimitOK` on its input. -/
def WindowsTotal (Θ : Interp) (cfg : SemCfg) (env : Env) : Ops → Prop
  | .table _ _ => True
  | .extend src ops partition order reverse windowed =>
      WindowsTotal Θ cfg env src ∧
      (windowed = true → ∀ t, sem Θ cfg env src = .ok t → WinOK Θ ops partition order reverse t.rows)
  | .order src cs reverse limit =>
      WindowsTotal Θ cfg env src ∧
      (∀ n, limit = some n → ∀ t, sem Θ cfg env src = .ok t → LimitOK cs reverse n t.rows)
  | .project src _ _ | .selectRows src _ | .selectCols src _ | .dropCols src _ | .rename src _
  | .mapCols src _ _ | .convert src _ => WindowsTotal Θ cfg env src
  | .join a b _ _ _ | .concat a b _ _ _ => WindowsTotal Θ cfg env a ∧ WindowsTotal Θ cfg env b

/-- every aggregate used by a `project` node of the pipeline is order free -/
def AggsOrderFree (Θ : Interp) : Ops → Prop
  | .table _ _ => True
  | .project src ops _ => AggsOrderFree Θ src ∧ ∀ kv ∈ ops, AggOrderFree Θ (opName kv.2)
  | .extend src _ _ _ _ _ | .order src _ _ _ | .selectRows src _ | .selectCols src _ | .dropCols src _
  | .rename src _ | .mapCols src _ _ | .convert src _ => AggsOrderFree Θ src
  | .join a b _ _ _ | .concat a b _ _ _ => AggsOrderFree Θ a ∧ AggsOrderFree Θ b

end DAVerif
