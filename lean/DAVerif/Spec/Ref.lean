import DAVerif.Sem.Eval
/-!
Specification-side definitions for the four properties that say "the executor computes the reference meaning"
(C08 declared columns, C09 one row per group, C16 SQL joins, C27 ordered windows).

Everything here is written from the textbook meaning of the operators and **does not mention `sem`** or any of
its helper functions (`semJoin`, `semProject`, `semExtendWindow`, `rowLe`, `keyMatch`, `joinRow`, …).  The only
things taken from the model files are the data types (`Val`, `Row`, `Table`, `JoinType`, `Term`, the record of
function symbols `Interp`), the cell lookup `Row.get` and the strict order of cells `Val.lt`.

* C08 needs nothing beyond `Ops.cols` (the declared `column_names`).
* C09: `distinctKeys group rows` – how many different key tuples occur (null is a key value like any other).
* C16: `refJoin jt onA onB ta tb` – the five standard SQL joins as a nested loop.
* C27: `windowRef Θ f cargs arg partition order reverse rows i` – the value of a window function for the row at
  position `i`: its partition, sorted by the order columns (reversed columns descending, nulls last), the
  function applied to the values in that order and to the position of the row in it.
-/
namespace DAVerif
namespace Ref

/-! ### C09: distinct key tuples -/

/-- the key tuple of a row: its cells in the key columns (a null cell is a value like any other) -/
def keyTuple (group : List String) (r : Row) : List Val := group.map (fun c => r.get c)

/-- the number of different key tuples that occur among the rows -/
def distinctKeys (group : List String) (rows : List Row) : Nat :=
  ((rows.map (keyTuple group)).eraseDups).length

/-! ### C16: the standard SQL joins -/

/-- the SQL join condition `l.a₁ = r.b₁ AND … AND l.aₙ = r.bₙ` in three-valued logic: true only if every pair
of key cells is non-null and equal (a null key never matches, not even another null) -/
def keysEqual (onA onB : List String) (ra rb : Row) : Bool :=
  (onA.zip onB).all (fun ab => !(ra.get ab.1).isNull && !(rb.get ab.2).isNull && ra.get ab.1 == rb.get ab.2)

/-- output columns of a join: the left columns, then the right columns that are new -/
def joinCols (ca cb : List String) : List String := ca ++ cb.filter (fun c => !ca.contains c)

/-- the cell a (possibly absent) row contributes to column `c`: null when the row is absent (padding) or its
table has no such column -/
def sideCell (cols : List String) (r : Option Row) (c : String) : Val :=
  match r with
  | some r => if cols.contains c then r.get c else .null
  | none => .null

/-- `COALESCE(l.c, r.c)` -/
def coalesce (a b : Val) : Val := if a.isNull then b else a

/-- one output row from an optional left row and an optional right row: every output column is
`COALESCE(left cell, right cell)`.  For a column of one side only that is the side's cell (null padding when the
side is absent); a column of both sides – a same-named key or a shared non-key column – takes the left value,
or the right value where the left is null/absent. -/
def combine (ca cb : List String) (ra rb : Option Row) : Row :=
  (joinCols ca cb).map (fun c => (c, coalesce (sideCell ca ra c) (sideCell cb rb c)))

/-- do two rows join?  CROSS: always; otherwise by the key condition (no keys: always) -/
def joins (jt : JoinType) (onA onB : List String) (ra rb : Row) : Bool :=
  jt == .cross || keysEqual onA onB ra rb

/-- LEFT, FULL (and its synonym OUTER) keep unmatched left rows -/
def keepsLeft (jt : JoinType) : Bool := jt == .left || jt == .full || jt == .outer
/-- RIGHT, FULL (and its synonym OUTER) keep unmatched right rows -/
def keepsRight (jt : JoinType) : Bool := jt == .right || jt == .full || jt == .outer

/-- **The reference join** (textbook nested loop).  For each left row in turn: the combinations with all right
rows it joins with; if there are none and the join type keeps left rows, the left row padded with nulls.
Then, if the join type keeps right rows, every right row that joined with no left row, padded with nulls. -/
def refJoin (jt : JoinType) (onA onB : List String) (ta tb : Table) : Table :=
  let ca := ta.cols
  let cb := tb.cols
  let left := ta.rows.flatMap (fun ra =>
    let partners := tb.rows.filter (fun rb => joins jt onA onB ra rb)
    if partners.isEmpty then (if keepsLeft jt then [combine ca cb (some ra) none] else [])
    else partners.map (fun rb => combine ca cb (some ra) (some rb)))
  let right := if keepsRight jt then
      (tb.rows.filter (fun rb => ta.rows.all (fun ra => !joins jt onA onB ra rb))).map
        (fun rb => combine ca cb none (some rb))
    else []
  ⟨joinCols ca cb, left ++ right⟩

/-- **Guard of finding D18** (`pandas.merge` matches null keys): for every pair of key columns, the left key
column or the right key column is free of nulls – so no left row and right row can agree on a null key cell. -/
def G_nonNullKeys (ta tb : Table) (onA onB : List String) : Prop :=
  ∀ ab ∈ onA.zip onB,
    (∀ r ∈ ta.rows, (r.get ab.1).isNull = false) ∨ (∀ r ∈ tb.rows, (r.get ab.2).isNull = false)

instance (ta tb : Table) (onA onB : List String) : Decidable (G_nonNullKeys ta tb onA onB) := by
  unfold G_nonNullKeys; exact inferInstance

/-! ### C27: ordered windows -/

/-- two rows are in the same partition: equal cells in every partition column (null equals null: the rows whose
key is null form a partition of their own) -/
def samePartition (partition : List String) (a b : Row) : Bool :=
  partition.all (fun c => a.get c == b.get c)

/-- cell `x` sorts strictly before cell `y` in an ascending (`desc = false`) or descending (`desc = true`)
column; a null sorts after every value in both directions -/
def cellBefore (desc : Bool) (x y : Val) : Bool :=
  match x, y with
  | .null, _ => false
  | _, .null => true
  | x, y => if desc then Val.lt y x else Val.lt x y

/-- row `a` may stand before row `b` in the window order: lexicographic over the order columns, a column listed
in `reverse` descending -/
def windowLe : (order reverse : List String) → Row → Row → Bool
  | [], _, _, _ => true
  | c :: cs, reverse, a, b =>
    if a.get c = b.get c then windowLe cs reverse a b
    else cellBefore (reverse.contains c) (a.get c) (b.get c)

/-- the positions (in `rows`) of the rows of the partition of row `i`, stably sorted by the window order (rows
that tie on every order column keep their input order) -/
def windowOf (partition order reverse : List String) (rows : List Row) (i : Nat) : List Nat :=
  ((List.range rows.length).filter (fun j => samePartition partition (rows.getD j []) (rows.getD i []))).mergeSort
    (fun j k => windowLe order reverse (rows.getD j []) (rows.getD k []))

/-- the argument a window / aggregate call reads from a row: its first argument if that is a column or a
constant; a call without arguments (`_row_number()`, `_size()`) reads the constant 1 -/
def callArg (t : Term) (r : Row) : Val :=
  match t with
  | .app _ (.col c :: _) _ _ => r.get c
  | .app _ (.value v :: _) _ _ => v.toVal
  | _ => .num 1

/-- **The reference window value** for the row at position `i`: the window function `f` (with its constant
arguments `cargs`) applied to the argument values of the row's partition in window order and to the position of
the row in that order. -/
def windowRef (Θ : Interp) (f : String) (cargs : List Val) (arg : Row → Val)
    (partition order reverse : List String) (rows : List Row) (i : Nat) : Val :=
  let w := windowOf partition order reverse rows i
  Θ.win f cargs (w.map (fun j => arg (rows.getD j []))) (w.idxOf i)

/-! ### readable meanings of the window functions (for the characterisation lemmas of `Theta.win`) -/

/-- the numbers among a list of cells (nulls and non-numbers skipped; a bool counts as 0/1) -/
def numbers (vs : List Val) : List Rat :=
  vs.filterMap (fun v => match v with | .num q => some q | .bool b => some (if b then 1 else 0) | _ => none)

def total (xs : List Rat) : Rat := xs.foldr (· + ·) 0
def product (xs : List Rat) : Rat := xs.foldr (· * ·) 1

/-- `m` is the greatest of the numbers `xs` -/
def IsMax (m : Rat) (xs : List Rat) : Prop := m ∈ xs ∧ ∀ x ∈ xs, x ≤ m
/-- `m` is the least of the numbers `xs` -/
def IsMin (m : Rat) (xs : List Rat) : Prop := m ∈ xs ∧ ∀ x ∈ xs, m ≤ x

end Ref
end DAVerif
