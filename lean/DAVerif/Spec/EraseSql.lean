import DAVerif.Spec.Erase
import DAVerif.Spec.Rename
import DAVerif.Sql.WithForm
/-!
# Specification side of the SQL half of C11 ("… and the same SQL in every dialect")

The model of the SQL generator (`Sql/ToNearSql.lean`) produces a NearSQL tree whose SELECT-list entries and WHERE
conditions carry the *expression tree* where the real code carries the SQL text `expr_to_sql(term)`.  The real
`expr_to_sql` (sql_model.py: `SQLModel.expr_to_sql` → `_expr_to_sql_inner` / the `sql_formatters`) never reads
`Expression.method` (the flag only chooses between the Python spellings `x.f()` and `f(x)` in `to_python`), so the
SQL text of an expression is a function of the expression with the flag forgotten.  The *text renderer itself is not
modelled*; "the same SQL" at the level the model offers is therefore

  `Near.sqlShape`: the NearSQL tree with the `method` flag of every carried expression forgotten (`eraseM`) and the
  `ops_key` strings forgotten (`eraseKeys`, Spec/Rename.lean).

Everything that `to_sql_str_list` prints is in the shape: step kinds, generated query names and join aliases, the term
dictionaries in order (entry kind, expression up to the flag, window specification), bound column lists, suffixes
(WHERE / GROUP BY / ORDER BY / LIMIT), join type and keys.  The `ops_key` is *not* printed: it is only compared for
equality by CTE elimination (`use_cte_elim`), and it is `str(node)` in the real code, i.e. it **does** contain the
printing form of every expression — see `Props/C11sql.lean` for what that means for `==`.

No imports beyond model / spec files.
-/
namespace DAVerif.Sql
open DAVerif

/-- forget the `method` flag in one SELECT-list entry -/
def STerm.eraseM : STerm → STerm
  | .pass => .pass
  | .ident c => .ident c
  | .expr t w => .expr t.erase w
  | .coalesce lf c => .coalesce lf c
  | .qual l c => .qual l c

def Terms.eraseM (ts : Terms) : Terms := ts.map (fun kv => (kv.1, kv.2.eraseM))

def Suffix.eraseM : Suffix → Suffix
  | .none => .none
  | .whereE e => .whereE e.erase
  | .groupBy cs => .groupBy cs
  | .orderBy cs rv lim => .orderBy cs rv lim

/-- forget the `method` flag of every expression a NearSQL tree carries; nothing else changes -/
def Near.eraseM : Near → Near
  | .table name terms => .table name terms
  | .cte name => .cte name
  | .unary name terms agg sub subCols suffix mg deps key =>
      .unary name (terms.map Terms.eraseM) agg (Near.eraseM sub) subCols suffix.eraseM mg deps key
  | .join name terms l lc ln r rc rn jt oa ob key =>
      .join name (Terms.eraseM terms) (Near.eraseM l) lc ln (Near.eraseM r) rc rn jt oa ob key
  | .union name terms l r cols key => .union name terms (Near.eraseM l) (Near.eraseM r) cols key

/-- **what the SQL text is a function of**: the tree without `method` flags and without `ops_key`s -/
def Near.sqlShape (n : Near) : Near := n.eraseM.eraseKeys

/-- one `name AS ( … )` entry of a WITH query with the `method` flags forgotten (name, bound columns and `force_sql`
flag stay) -/
def WithStep.eraseM (st : WithStep) : WithStep := ⟨st.name, st.near.eraseM, st.cols, st.force⟩

/-- a WITH form (last step, earlier steps) with the `method` flags forgotten -/
def withShape (ls : Near × List WithStep) : Near × List WithStep := (ls.1.eraseM, ls.2.map WithStep.eraseM)

end DAVerif.Sql
