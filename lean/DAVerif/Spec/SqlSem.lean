import DAVerif.Sql.Sem
import DAVerif.Spec.Perm
/-!
Specification-side vocabulary for C01/C02 ("the SQL produced by `to_sql` returns the same table as the Pandas
evaluation"), shared by `Proofs/Sql*.lean`, `Props/C01core.lean` and the follow-up proofs (extend merge, joins).

* `semG le` – the relational semantics `sem` with the row comparison used by `order_rows` and by window orderings
  as a parameter: `semG rowLe = sem` (pandas: nulls last, `semG_rowLe`), `semG (sqlRowLe ec)` = the same operators
  with the engine's NULL placement.  The translation proof (stage A) relates the SQL to `semG (sqlRowLe ec)` with
  **list** equality and without any hypothesis on data or on `Θ`; stage B relates `semG (sqlRowLe ec)` to `sem`.
* `Table.EquivS` – same column *set*, same row multiset (column order ignored).
* `SqlWF` – the structural facts about a pipeline the translation relies on beyond `WF` (all established by the
  builders); `MapsOK` – dictionaries have unique keys (a modelling artefact: Python dicts) and a
  `rename_columns` does not name one source column twice (guard of a finding, see `C08_rename_twice_necessary`).
* `EnvOK` – the environment has the pipeline's tables with (at least | exactly) the declared columns.
* `Sound` – **the invariant of the translation**: what a translated sub-query `q` owes its consumer.
* the data-side scope conditions (`NullFreeOn`, `OrdersNullFree`, `SqlScope`).
-/
namespace DAVerif
namespace Sql

/-! ### the semantics with the comparison as a parameter -/

/-- a row comparison for `ORDER BY`: order columns, reversed columns, two rows -/
abbrev RowCmp := List String → List String → Row → Row → Bool

def semOrderG (le : RowCmp) (cs reverse : List String) (limit : Option Nat) (t : Table) : Table :=
  let s := t.rows.mergeSort (fun a b => le cs reverse a b)
  ⟨t.cols, match limit with | none => s | some n => s.take n⟩

/-- value of one window expression on the row `ri` of the indexed rows `idx` -/
def winCell (le : RowCmp) (Θ : Interp) (partition order reverse : List String) (idx : List (Row × Nat))
    (ri : Row × Nat) (t : Term) : Val :=
  let part := idx.filter (fun rj => keyOf rj.1 partition == keyOf ri.1 partition)
  let sorted := part.mergeSort (fun a b => le order reverse a.1 b.1)
  let pos := sorted.findIdx (fun rj => rj.2 == ri.2)
  Θ.win (opName t) (constArgs t) (argValues t (sorted.map (·.1))) pos

def semExtendWindowG (le : RowCmp) (Θ : Interp) (ops : Assign) (partition order reverse : List String) (t : Table)
    (outCols : List String) : Table :=
  let idx := t.rows.zipIdx
  ⟨outCols, idx.map (fun ri =>
    (ri.1.setAll (ops.map (fun kv => (kv.1, winCell le Θ partition order reverse idx ri kv.2)))).select outCols)⟩

/-- `sem` with the comparison `le` in `order_rows` and in window orderings -/
def semG (le : RowCmp) (Θ : Interp) (cfg : SemCfg) (env : Env) : Ops → Except Err Table
  | .table name cs =>
    match env.lookup name with
    | none => .error .valueError
    | some t => if subset cs t.cols then .ok (t.selectCols cs) else .error .valueError
  | n@(.extend src ops partition order reverse windowed) => do
    let t ← semG le Θ cfg env src
    if windowed then return semExtendWindowG le Θ ops partition order reverse t n.cols
    else return semExtendPlain Θ ops t n.cols
  | n@(.project src ops group) => do
    let t ← semG le Θ cfg env src
    return semProject Θ ops group t n.cols
  | .selectRows src e => do
    let t ← semG le Θ cfg env src
    return semSelectRows Θ e t
  | .selectCols src cs => do
    let t ← semG le Θ cfg env src
    return t.selectCols cs
  | n@(.dropCols src _) => do
    let t ← semG le Θ cfg env src
    return t.selectCols n.cols
  | .order src cs reverse limit => do
    let t ← semG le Θ cfg env src
    return semOrderG le cs reverse limit t
  | n@(.rename src m) => do
    let t ← semG le Θ cfg env src
    let rev := m.map (fun kv => (kv.2, kv.1))
    return ⟨n.cols, t.rows.map (fun r => r.rename (fun c => (lookupLast rev c).getD c))⟩
  | n@(.mapCols src m dels) => do
    let t ← semG le Θ cfg env src
    return ⟨n.cols, t.rows.map (fun r => (r.drop dels).rename (fun c => (lookupLast m c).getD c))⟩
  | n@(.join a b onA onB jt) => do
    let ta ← semG le Θ cfg env a
    let tb ← semG le Θ cfg env b
    return semJoin cfg jt onA onB ta tb (appendNew a.cols b.cols) |>.selectCols n.cols
  | n@(.concat a b idc an bn) => do
    let ta ← semG le Θ cfg env a
    let tb ← semG le Θ cfg env b
    return semConcat idc an bn ta tb n.cols
  | .convert src rm => do
    let t ← semG le Θ cfg env src
    Θ.convert rm t

/-- the operators as the SQL engine `ec` orders rows (NULL smallest: SQLite, MySQL; NULL largest: PostgreSQL) -/
abbrev semE (ec : EngineCfg) := semG (sqlRowLe ec)

/-! ### comparison of results up to column order -/

/-- same column set, and after re-ordering the columns of `t` as in `t'`, the same multiset of rows -/
def _root_.DAVerif.Table.EquivS (t t' : Table) : Prop :=
  (∀ c, c ∈ t.cols ↔ c ∈ t'.cols) ∧ (t.rows.map (fun r => r.select t'.cols)).Perm t'.rows

/-- same column set, and after re-ordering the columns of `t` as in `t'`, the same list of rows -/
def _root_.DAVerif.Table.EqS (t t' : Table) : Prop :=
  (∀ c, c ∈ t.cols ↔ c ∈ t'.cols) ∧ t.rows.map (fun r => r.select t'.cols) = t'.rows

/-! ### the fragment and its well-formedness -/

/-- the node kinds covered by `Props/C01core.lean` -/
def InFrag : Ops → Bool
  | .table _ _ => true
  | .extend s _ _ _ _ _ | .project s _ _ | .selectRows s _ | .selectCols s _ | .dropCols s _
  | .order s _ _ _ | .rename s _ | .mapCols s _ _ => InFrag s
  | .join .. | .concat .. | .convert .. => false

/-- facts the builders establish and the translation relies on, beyond `WF` (Boolean, hence decidable):
project: group and used columns are source columns, assignment keys unique and disjoint from the group;
select_rows / order_rows: the columns mentioned are source columns; rename / map_columns: the sources are source
columns and no new name collides with a column that stays. -/
def sqlWFb : Ops → Bool
  | .table _ _ => true
  | .extend s _ _ _ _ _ => sqlWFb s
  | .project s ops group =>
    sqlWFb s && subset group s.cols && subset (ops.flatMap (fun kv => Term.colsRaw kv.2)) s.cols
      && nodupB (ops.map (·.1)) && disjoint (ops.map (·.1)) group
  | .selectRows s e => sqlWFb s && subset (Term.colsRaw e) s.cols
  | .selectCols s _ => sqlWFb s
  | .dropCols s _ => sqlWFb s
  | .order s cs _ _ => sqlWFb s && subset cs s.cols
  | .rename s m =>
    sqlWFb s && subset (m.map (·.2)) s.cols
      && m.all (fun kv => !s.cols.contains kv.1 || (m.map (·.2)).contains kv.1)
  | .mapCols s m dels =>
    sqlWFb s && subset (m.map (·.1)) s.cols && subset dels s.cols
      && m.all (fun kv => !s.cols.contains kv.2 || (m.map (·.1)).contains kv.2 || dels.contains kv.2)
  | .join a b _ _ _ | .concat a b _ _ _ => sqlWFb a && sqlWFb b
  | .convert s _ => sqlWFb s

def SqlWF (p : Ops) : Prop := sqlWFb p = true
instance (p : Ops) : Decidable (SqlWF p) := by unfold SqlWF; exact inferInstance

/-- dictionaries are dictionaries (unique keys: `rename_columns` new names, `map_columns` old names, a
`map_columns` source is not both renamed and deleted, no two sources get the same new name), **and** a
`rename_columns` names every source column at most once (guard, see `C08_rename_twice_necessary`). -/
def mapsOKb : Ops → Bool
  | .table _ _ => true
  | .extend s _ _ _ _ _ | .project s _ _ | .selectRows s _ | .selectCols s _ | .dropCols s _
  | .order s _ _ _ | .convert s _ => mapsOKb s
  | .rename s m => mapsOKb s && nodupB (m.map (·.1)) && nodupB (m.map (·.2))
  | .mapCols s m dels => mapsOKb s && nodupB (m.map (·.1)) && nodupB (m.map (·.2)) && disjoint (m.map (·.1)) dels
  | .join a b _ _ _ | .concat a b _ _ _ => mapsOKb a && mapsOKb b

def MapsOK (p : Ops) : Prop := mapsOKb p = true
instance (p : Ops) : Decidable (MapsOK p) := by unfold MapsOK; exact inferInstance

/-- the environment binds every table of the pipeline to a table with at least (`exact = false`) or exactly
(`exact = true`, as a set) the declared columns -/
def EnvOK (exact : Bool) (env : Env) (p : Ops) : Prop :=
  ∀ nc ∈ p.tables, ∃ t, env.lookup nc.1 = some t ∧ (∀ c ∈ nc.2, c ∈ t.cols) ∧
    (exact = true → ∀ c ∈ t.cols, c ∈ nc.2)

/-! ### the invariant -/

/-- **What a translated sub-query owes its consumer.**  `q` is the near-SQL of a pipeline with declared columns
`pcols`, translated for the requested column set `u`; `tp` is the pipeline's table (reference semantics).

`req`: whichever sub-set `u'` of `u` the consumer binds (`NearSQLContainer.columns`), as a sub-query or as a
forced SELECT, the query evaluates; its result has at least the columns `u'`; and its rows are, **in order**, the
rows of `tp` as far as the columns `u'` go (for `u' = []`: as many rows).

`keys`: if anything was requested, the step has term keys (it is not a `SELECT *`); they are what it renders when
bound with `columns = None` (at the root); they are declared columns and include everything requested. -/
structure Sound (Θ : Interp) (ec : EngineCfg) (env : Env) (q : Near) (u pcols : List String) (tp : Table) : Prop where
  req : ∀ u' : List String, (∀ c ∈ u', c ∈ u) → ∀ force : Bool,
    ∃ T, semNear Θ ec env [] q (some u') force = .ok T ∧ (∀ c ∈ u', c ∈ T.cols) ∧
      T.rows.map (fun r => r.select u') = tp.rows.map (fun r => r.select u')
  keys : u ≠ [] → ∃ ks, q.termKeys = some ks ∧ (∀ k ∈ ks, k ∈ pcols) ∧ (∀ c ∈ u, c ∈ ks)

/-! ### data-side scope conditions -/

/-- no row has a null in one of the columns `cs` -/
def NullFreeOn (cs : List String) (rows : List Row) : Prop := ∀ r ∈ rows, ∀ c ∈ cs, (r.get c).isNull = false

instance (cs : List String) (rows : List Row) : Decidable (NullFreeOn cs rows) := by
  unfold NullFreeOn; exact inferInstance

/-- **strong scope**: at every `order_rows` and every ordered window of the pipeline, the order columns of the
rows that reach it are null free (then the engine's and pandas' row comparisons coincide there) -/
def OrdersNullFree (Θ : Interp) (cfg : SemCfg) (env : Env) : Ops → Prop
  | .table _ _ => True
  | .extend src _ _ order _ _ =>
      OrdersNullFree Θ cfg env src ∧ (∀ t, sem Θ cfg env src = .ok t → NullFreeOn order t.rows)
  | .order src cs _ _ =>
      OrdersNullFree Θ cfg env src ∧ (∀ t, sem Θ cfg env src = .ok t → NullFreeOn cs t.rows)
  | .project src _ _ | .selectRows src _ | .selectCols src _ | .dropCols src _ | .rename src _
  | .mapCols src _ _ | .convert src _ => OrdersNullFree Θ cfg env src
  | .join a b _ _ _ | .concat a b _ _ _ => OrdersNullFree Θ cfg env a ∧ OrdersNullFree Θ cfg env b

/-- **scope of the multiset theorem**: an ordered window sees null-free order columns unless all its functions are
order free (windows without `order_by` are always in scope); an `order_rows` with a limit sees null-free order
columns (an `order_rows` without limit may order nulls: only the row order is affected) -/
def SqlScope (Θ : Interp) (cfg : SemCfg) (env : Env) : Ops → Prop
  | .table _ _ => True
  | .extend src ops _ order _ windowed =>
      SqlScope Θ cfg env src ∧
      (windowed = true → ∀ t, sem Θ cfg env src = .ok t →
        NullFreeOn order t.rows ∨ ∀ kv ∈ ops, WinOrderFree Θ (opName kv.2))
  | .order src cs _ limit =>
      SqlScope Θ cfg env src ∧ (limit ≠ none → ∀ t, sem Θ cfg env src = .ok t → NullFreeOn cs t.rows)
  | .project src _ _ | .selectRows src _ | .selectCols src _ | .dropCols src _ | .rename src _
  | .mapCols src _ _ | .convert src _ => SqlScope Θ cfg env src
  | .join a b _ _ _ | .concat a b _ _ _ => SqlScope Θ cfg env a ∧ SqlScope Θ cfg env b

end Sql
end DAVerif
