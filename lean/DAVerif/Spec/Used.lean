import DAVerif.Sem.Eval
import DAVerif.Ops.Compose
/-!
Specification side of C10 ("columns not reported as used never influence a pipeline's result").

What the property *means*, written independently of `usedFromSources` / `columnsUsed`:

* two rows agree on a set of columns; two row lists agree when they have the same length and agree row by row,
  in order; two input environments agree on a report `U` (table ↦ columns) when, for every reported table, both
  have the table with the same columns and the rows agree on the reported columns;
* narrowing a pipeline to a report: every table description keeps only the reported columns (in its own order),
  nothing else changes; restricting an environment to a report: every input table keeps only the reported columns.

Imports model files only.
-/
namespace DAVerif

/-- two rows read the same on every column of `cs` -/
def Row.agreeOn (cs : List String) (r r' : Row) : Prop := ∀ c ∈ cs, r.get c = r'.get c

/-- two lists of the same length whose elements are related position by position -/
inductive Forall₂ {α β : Type} (R : α → β → Prop) : List α → List β → Prop
  | nil : Forall₂ R [] []
  | cons {a : α} {b : β} {l : List α} {l' : List β} : R a b → Forall₂ R l l' → Forall₂ R (a :: l) (b :: l')

/-- same number of rows, in the same order, agreeing row by row on the columns `cs` -/
def RowsAgree (cs : List String) (l l' : List Row) : Prop := Forall₂ (Row.agreeOn cs) l l'

/-- same declared columns, and the rows agree on `cs` -/
def Table.agreeOn (cs : List String) (t t' : Table) : Prop := t.cols = t'.cols ∧ RowsAgree cs t.rows t'.rows

/-- the two environments differ at most in the values of columns that the report `U` does not list:
for every reported table, either both lack it or both have it with the same columns, the same number of rows, and
rows that agree (in order) on the listed columns -/
def EnvAgree (U : Ops.Used) (env env' : Env) : Prop :=
  ∀ k cs, (k, cs) ∈ U →
    match env.lookup k, env'.lookup k with
    | some t, some t' => Table.agreeOn cs t t'
    | none, none => True
    | _, _ => False

/-- outcome agreement on the columns `u`: both fail with the same error, or both succeed with rows agreeing on `u` -/
def ResAgree (u : List String) (x y : Except Err Table) : Prop :=
  match x, y with
  | .ok t, .ok t' => RowsAgree u t.rows t'.rows
  | .error e, .error e' => e = e'
  | _, _ => False

namespace Ops

/-- all columns a report lists for table `k` -/
def Used.colsOf (U : Used) (k : String) : List String := (U.filter (fun kv => kv.1 == k)).flatMap (·.2)

/-- replace every table description `table k cs` by `table k (V k cs)`; every other node keeps its parameters
(its `cols` is recomputed from the narrowed sources, as the constructors do) -/
def narrowWith (V : String → List String → List String) : Ops → Ops
  | table k cs => table k (V k cs)
  | extend s ops p od rv w => extend (narrowWith V s) ops p od rv w
  | project s ops g => project (narrowWith V s) ops g
  | selectRows s e => selectRows (narrowWith V s) e
  | selectCols s cs => selectCols (narrowWith V s) cs
  | dropCols s ds => dropCols (narrowWith V s) ds
  | order s cs rv lim => order (narrowWith V s) cs rv lim
  | rename s m => rename (narrowWith V s) m
  | mapCols s m ds => mapCols (narrowWith V s) m ds
  | join a b oa ob jt => join (narrowWith V a) (narrowWith V b) oa ob jt
  | concat a b idc an bn => concat (narrowWith V a) (narrowWith V b) idc an bn
  | convert s rm => convert (narrowWith V s) rm

/-- the columns of a table description that the report lists, in the description's order -/
def narrowCols (U : Used) (k : String) (cs : List String) : List String :=
  cs.filter (fun c => (U.colsOf k).contains c)

/-- the pipeline with every table description narrowed to the reported columns -/
def narrow (U : Used) (p : Ops) : Ops := narrowWith (narrowCols U) p

end Ops

/-- every input table restricted to the reported columns (its own column order) -/
def restrictEnv (U : Ops.Used) (env : Env) : Env :=
  env.map (fun kt => (kt.1, kt.2.restrict (U.colsOf kt.1)))

/-- every table description of the pipeline is present in the environment with (at least) the declared columns -/
def Conforms (p : Ops) (env : Env) : Prop :=
  ∀ k cs, (k, cs) ∈ p.tables → ∃ t, env.lookup k = some t ∧ subset cs t.cols = true

end DAVerif
