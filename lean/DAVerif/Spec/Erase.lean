import DAVerif.Ops.Node
/-
Specification side of C11 ("pipelines that compare equal behave identically").

`==` is meant to be *structural identity up to the data it deliberately ignores*.  The only thing the
comparison of expressions ignores is the `method` flag of an `Expression` (whether `f(x)` was written
`x.f()`), which only the Python printer looks at.  `erase` forgets exactly that, so "structurally identical up
to ignored data" is `erase p = erase q`.  Written independently of the model of `__eq__` (Ops/Eq.lean).

The two side conditions are representation invariants of the real objects, not restrictions of the claim:
* `DictWF`: the assignments of an extend/project step are a Python `dict`, so their keys are distinct;
* `RecCoherent`: a `RecordMap`'s needed columns are a function of its two specifications (in the model a
  `RecMap` is an abstract summary: needed, produced, printed specifications).
-/
namespace DAVerif

mutual
/-- forget the `method` flag everywhere in an expression -/
def Term.erase : Term → Term
  | .value v => .value v
  | .col c => .col c
  | .list vs => .list vs
  | .dict kvs => .dict kvs
  | .app op args inline _ => .app op (Term.eraseList args) inline false
def Term.eraseList : List Term → List Term
  | [] => []
  | t :: ts => t.erase :: Term.eraseList ts
end

def eraseAssign (a : Assign) : Assign := a.map (fun kv => (kv.1, kv.2.erase))

namespace Ops

/-- forget the `method` flag of every expression of the pipeline; nothing else changes -/
def erase : Ops → Ops
  | table n cs => table n cs
  | extend s ops p od rv w => extend s.erase (eraseAssign ops) p od rv w
  | project s ops g => project s.erase (eraseAssign ops) g
  | selectRows s e => selectRows s.erase e.erase
  | selectCols s cs => selectCols s.erase cs
  | dropCols s ds => dropCols s.erase ds
  | order s cs rv lim => order s.erase cs rv lim
  | rename s m => rename s.erase m
  | mapCols s m ds => mapCols s.erase m ds
  | join a b oa ob t => join a.erase b.erase oa ob t
  | concat a b idc an bn => concat a.erase b.erase idc an bn
  | convert s rm => convert s.erase rm

/-- the assignments of every extend/project step have pairwise distinct keys (they are Python dicts) -/
def DictWF : Ops → Prop
  | table _ _ => True
  | extend s ops _ _ _ _ => (ops.map (·.1)).Nodup ∧ s.DictWF
  | project s ops _ => (ops.map (·.1)).Nodup ∧ s.DictWF
  | selectRows s _ | selectCols s _ | dropCols s _ | order s _ _ _ | rename s _ | mapCols s _ _
  | convert s _ => s.DictWF
  | join a b _ _ _ | concat a b _ _ _ => a.DictWF ∧ b.DictWF

/-- the record maps used in the pipeline -/
def recmaps : Ops → List RecMap
  | table _ _ => []
  | extend s _ _ _ _ _ | project s _ _ | selectRows s _ | selectCols s _ | dropCols s _ | order s _ _ _
  | rename s _ | mapCols s _ _ => s.recmaps
  | join a b _ _ _ | concat a b _ _ _ => a.recmaps ++ b.recmaps
  | convert s rm => rm :: s.recmaps

/-- record maps of `p` and `q` with the same printed specifications (and produced columns) are the same record
map, i.e. also need the same columns -/
def RecCoherent (p q : Ops) : Prop :=
  ∀ r1 ∈ p.recmaps, ∀ r2 ∈ q.recmaps, r1.produced = r2.produced → r1.repr = r2.repr → r1.needed = r2.needed

end Ops
end DAVerif
