/-
Specification side of C23: what "connected" and "least vertex of the component" mean.
Written without reference to the implementation model (`Core/CC.lean`); no imports.
-/
namespace DAVerif.CCSpec

/-- `Conn es a b`: `a` and `b` are in the same connected component of the undirected graph whose edges are
the pairs in `es` – the reflexive, symmetric, transitive closure of the edge relation. -/
inductive Conn {V : Type} (es : List (V × V)) : V → V → Prop
  | refl (a : V) : Conn es a a
  | edge {a b : V} : (a, b) ∈ es → Conn es a b
  | symm {a b : V} : Conn es a b → Conn es b a
  | trans {a b c : V} : Conn es a b → Conn es b c → Conn es a c

/-- `m` is the least vertex of the component of `a`: it is in the component, and it is `≤` every vertex of
the component. -/
def IsLeastOfClass {V : Type} [LE V] (es : List (V × V)) (a m : V) : Prop :=
  Conn es a m ∧ ∀ v, Conn es a v → m ≤ v

end DAVerif.CCSpec
