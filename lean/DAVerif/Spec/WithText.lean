import DAVerif.Sql.WithForm
import DAVerif.Spec.Rename
/-!
# What the *text* of a WITH query means (specification side of C15's finding D24)

The model of the SQL semantics (`semNear`, `semWith`) keeps two kinds of references apart: `Near.table name` is looked
up among the base tables, `Near.cte name` among the common table expressions.  The SQL text does not: both render as the
identifier `name`, and the engine resolves an identifier in a FROM clause to a common table expression of that name if
one is in scope, else to the base table.  `semWithText` is `semWith` with that resolution rule.  The two agree when no
base table referenced by the query carries the name of one of its common table expressions (`CteNamesFree`, decidable;
proved in `Proofs/WithText.lean`) - which is what the table half of the guard `NoReserved` is for: the generator only
invents names of the reserved shapes (that implication is not proved).

No imports beyond model files.
-/
namespace DAVerif.Sql
open DAVerif

/-- the base tables a NearSQL tree reads -/
def Near.baseTables : Near → List String
  | .table name _ => [name]
  | .cte _ => []
  | .unary _ _ _ sub _ _ _ _ _ => Near.baseTables sub
  | .join _ _ l _ _ r _ _ _ _ _ _ => Near.baseTables l ++ Near.baseTables r
  | .union _ _ l r _ _ => Near.baseTables l ++ Near.baseTables r

/-- text-level meaning of `WITH s₁ AS (…), …, sₙ AS (…) <last>`: in every FROM clause an identifier names the most
recent earlier common table expression of that name if there is one, else the base table -/
def semWithText (Θ : Interp) (ec : EngineCfg) (env : Env) (steps : List WithStep) (last : Near) : Except Err Table := do
  let ctes ← steps.foldlM (fun (ctes : List (String × Table)) st => do
    let t ← semNear Θ ec (ctes.reverse ++ env) ctes st.near st.cols st.force
    return ctes ++ [(st.name, t)]) []
  semNear Θ ec (ctes.reverse ++ env) ctes last none true

/-- **guard**: no base table read by the query is named like one of its common table expressions -/
def CteNamesFree (steps : List WithStep) (last : Near) : Bool :=
  (steps.flatMap (fun st => st.near.baseTables) ++ last.baseTables).all
    (fun name => !(steps.map (·.name)).contains name)

/-- the WITH form of a pipeline (no CTE elimination; `ops_key`s, which only CTE elimination reads, erased) -/
def withFormOf (cfg : SqlCfg) (p : Ops) : Except Err (Near × List WithStep) :=
  (toNearSql cfg p).map (fun q => let r := toWithForm none q.eraseKeys; (r.1, r.2.1))

/-- the SQL meaning of a pipeline rendered in WITH form, as the model has it … -/
def withMeaning (Θ : Interp) (ec : EngineCfg) (cfg : SqlCfg) (env : Env) (p : Ops) : Except Err Table :=
  withFormOf cfg p >>= fun ls => semWith Θ ec env ls.2 ls.1

/-- … and as the text means it -/
def withTextMeaning (Θ : Interp) (ec : EngineCfg) (cfg : SqlCfg) (env : Env) (p : Ops) : Except Err Table :=
  withFormOf cfg p >>= fun ls => semWithText Θ ec env ls.2 ls.1

end DAVerif.Sql
