import DAVerif.Spec.Chain
/-!
Specification-side vocabulary for the unguarded, unscoped semantic half of C12: a comparison of results that
forgets the order of the **columns** only.

* `t ≈ʳ t'` (`Table.EquivR`) – the same rows **in the same order**, the columns possibly listed in another order
  (`≈ᶜ`, `Spec/Chain.lean`, also forgets the order of the rows); `ResEquivR` its lift to results;
* `ConvertColInvariant` – record transforms read and write columns by name: permuting the columns of the input
  permutes the columns of the output and nothing else.
-/
namespace DAVerif

/-- two well-formed tables with the same columns up to order and, once the columns of the second are put in the
order of the first, the same list of rows -/
def Table.EquivR (t t' : Table) : Prop :=
  t.WF ∧ t'.WF ∧ t.cols.Nodup ∧ t.cols.Perm t'.cols ∧ t.rows = t'.rows.map (fun r => r.select t.cols)

@[inherit_doc] infix:50 " ≈ʳ " => Table.EquivR

/-- results agree up to column order: the same error, or `≈ʳ` tables -/
def ResEquivR : Except Err Table → Except Err Table → Prop
  | .ok t, .ok t' => t ≈ʳ t'
  | .error e, .error e' => e = e'
  | _, _ => False

/-- record transforms (whose produced columns are pairwise different) respect `≈ʳ`: they read and write columns
by name, the order of the input's columns influences nothing but the order of the output's columns -/
def ConvertColInvariant (Θ : Interp) : Prop :=
  ∀ rm t t', rm.produced.Nodup → t ≈ʳ t' → ResEquivR (Θ.convert rm t) (Θ.convert rm t')

end DAVerif
