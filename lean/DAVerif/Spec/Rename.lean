import DAVerif.Sem.Eval
import DAVerif.Sql.Sem
/-!
# Renaming of tables and columns (specification side of C15)

The action of a column renaming `ρc : ColRen` and a table renaming `ρt : TabRen` on everything a pipeline and its
inputs are made of: expressions, assignment dictionaries, operator trees (every column occurrence: declared table
columns, assignment keys, expression columns, partition / order / reverse / group lists, select / drop lists,
rename / map pairs, join keys, the concat id column, the needed / produced columns of a record map), builder
steps, rows, tables, environments, and - on the SQL side - NearSQL trees (column occurrences and *base table* names;
the query names the generator invents are **not** renamed: they come from the generator's counter).

Also here, because the driver computes it: the reserved names (the names the executors and the SQL generator invent,
DESIGN A.5) and the decidable guard `NoReserved` of C15's known findings D23 / D24.

No imports beyond model files: part of the compiled driver.
-/
namespace DAVerif

abbrev ColRen := String → String
abbrev TabRen := String → String

/-! ## expressions -/
mutual
def Term.rename (ρ : ColRen) : Term → Term
  | .value v => .value v
  | .col c => .col (ρ c)
  | .list vs => .list vs
  | .dict kvs => .dict kvs
  | .app op args i m => .app op (Term.renameList ρ args) i m
def Term.renameList (ρ : ColRen) : List Term → List Term
  | [] => []
  | t :: ts => Term.rename ρ t :: Term.renameList ρ ts
end

/-- an assignment dictionary: keys and expression columns -/
def Assign.rename (ρ : ColRen) (ops : Assign) : Assign := ops.map (fun kv => (ρ kv.1, kv.2.rename ρ))

/-- a record map: the columns it needs and produces.  `repr` (the opaque text that decides `RecordMap.__eq__`) is left
alone: what a renamed record map *does* is the business of the interpretation's `convert`, see `ConvertEquivariant`. -/
def RecMap.rename (ρ : ColRen) (rm : RecMap) : RecMap := ⟨rm.needed.map ρ, rm.produced.map ρ, rm.repr⟩

/-! ## operator trees and builder steps  (`Ops.ren`, `Step.ren`: `rename` is a constructor of both types) -/
def Ops.ren (ρc : ColRen) (ρt : TabRen) : Ops → Ops
  | .table name cs => .table (ρt name) (cs.map ρc)
  | .extend src ops part od rv w =>
      .extend (Ops.ren ρc ρt src) (Assign.rename ρc ops) (part.map ρc) (od.map ρc) (rv.map ρc) w
  | .project src ops g => .project (Ops.ren ρc ρt src) (Assign.rename ρc ops) (g.map ρc)
  | .selectRows src e => .selectRows (Ops.ren ρc ρt src) (e.rename ρc)
  | .selectCols src cs => .selectCols (Ops.ren ρc ρt src) (cs.map ρc)
  | .dropCols src ds => .dropCols (Ops.ren ρc ρt src) (ds.map ρc)
  | .order src cs rv lim => .order (Ops.ren ρc ρt src) (cs.map ρc) (rv.map ρc) lim
  | .rename src m => .rename (Ops.ren ρc ρt src) (m.map (fun kv => (ρc kv.1, ρc kv.2)))
  | .mapCols src m ds => .mapCols (Ops.ren ρc ρt src) (m.map (fun kv => (ρc kv.1, ρc kv.2))) (ds.map ρc)
  | .join a b oa ob jt => .join (Ops.ren ρc ρt a) (Ops.ren ρc ρt b) (oa.map ρc) (ob.map ρc) jt
  | .concat a b idc an bn => .concat (Ops.ren ρc ρt a) (Ops.ren ρc ρt b) (idc.map ρc) an bn
  | .convert src rm => .convert (Ops.ren ρc ρt src) (rm.rename ρc)

def PartArg.rename (ρ : ColRen) : PartArg → PartArg
  | .none => .none
  | .one => .one
  | .cols cs => .cols (cs.map ρ)

def Step.ren (ρc : ColRen) (ρt : TabRen) : Step → Step
  | .extend ops part od rv => .extend (Assign.rename ρc ops) (part.rename ρc) (od.map ρc) (rv.map ρc)
  | .project ops g => .project (Assign.rename ρc ops) (g.map ρc)
  | .selectRows e => .selectRows (e.map (Term.rename ρc))
  | .selectCols cs => .selectCols (cs.map ρc)
  | .dropCols cs => .dropCols (cs.map ρc)
  | .order cs rv lim => .order (cs.map ρc) (rv.map ρc) lim
  | .rename m => .rename (m.map (fun kv => (ρc kv.1, ρc kv.2)))
  | .mapCols m => .mapCols (m.map (fun kv => (ρc kv.1, kv.2.map ρc)))
  | .join b oa ob jt chk => .join (Ops.ren ρc ρt b) (oa.map ρc) (ob.map ρc) jt chk
  | .concat b idc an bn => .concat (b.map (Ops.ren ρc ρt)) (idc.map ρc) an bn
  | .convert rm => .convert (rm.map (RecMap.rename ρc))

/-! ## data -/
/-- a row with its column names renamed (cells untouched) -/
abbrev Row.renameCols (ρ : ColRen) (r : Row) : Row := r.rename ρ

/-- a table with its columns renamed: the declared column list and every row -/
def Table.rename (ρ : ColRen) (t : Table) : Table := ⟨t.cols.map ρ, t.rows.map (fun r => Row.renameCols ρ r)⟩

/-- an environment with its tables renamed (`ρt`) and the columns of every table renamed (`ρc`) -/
def Env.rename (ρc : ColRen) (ρt : TabRen) (env : Env) : Env := env.map (fun nt => (ρt nt.1, nt.2.rename ρc))

/-! ## the names involved

`InjOn ρ L`: `ρ` is injective on the finitely many names of `L` - all a renaming of a concrete pipeline and
concrete inputs can be asked to satisfy. -/
def InjOn (ρ : String → String) (L : List String) : Prop := ∀ a ∈ L, ∀ b ∈ L, ρ a = ρ b → a = b
instance (ρ : String → String) (L : List String) : Decidable (InjOn ρ L) := by unfold InjOn; exact inferInstance

mutual
def Term.allCols : Term → List String
  | .value _ => []
  | .col c => [c]
  | .list _ => []
  | .dict _ => []
  | .app _ args _ _ => Term.allColsList args
def Term.allColsList : List Term → List String
  | [] => []
  | t :: ts => Term.allCols t ++ Term.allColsList ts
end

def Assign.allCols (ops : Assign) : List String := ops.flatMap (fun kv => kv.1 :: kv.2.allCols)

/-- every column name occurring anywhere in a pipeline -/
def Ops.colNames : Ops → List String
  | .table _ cs => cs
  | .extend src ops part od rv _ => Ops.colNames src ++ Assign.allCols ops ++ part ++ od ++ rv
  | .project src ops g => Ops.colNames src ++ Assign.allCols ops ++ g
  | .selectRows src e => Ops.colNames src ++ e.allCols
  | .selectCols src cs => Ops.colNames src ++ cs
  | .dropCols src ds => Ops.colNames src ++ ds
  | .order src cs rv _ => Ops.colNames src ++ cs ++ rv
  | .rename src m => Ops.colNames src ++ m.map (·.1) ++ m.map (·.2)
  | .mapCols src m ds => Ops.colNames src ++ m.map (·.1) ++ m.map (·.2) ++ ds
  | .join a b oa ob _ => Ops.colNames a ++ Ops.colNames b ++ oa ++ ob
  | .concat a b idc _ _ => Ops.colNames a ++ Ops.colNames b ++ idc.toList
  | .convert src rm => Ops.colNames src ++ rm.needed ++ rm.produced

/-- every column name of the input tables: declared columns and the keys of every row -/
def Env.colNames (env : Env) : List String :=
  env.flatMap (fun nt => nt.2.cols ++ nt.2.rows.flatMap Row.keys)

/-- the column names a renaming of `p` on `env` has to keep apart -/
def names (p : Ops) (env : Env) : List String := p.colNames ++ env.colNames

/-- the table names a renaming of `p` on `env` has to keep apart -/
def tabNames (p : Ops) (env : Env) : List String := p.tables.map (·.1) ++ env.map (·.1)

/-! ## SQL side -/
namespace Sql

def Win.rename (ρ : ColRen) (w : Win) : Win := ⟨w.partition.map ρ, w.order.map ρ, w.reverse.map ρ⟩

def STerm.rename (ρ : ColRen) : STerm → STerm
  | .pass => .pass
  | .ident c => .ident (ρ c)
  | .expr t w => .expr (t.rename ρ) (w.map (Win.rename ρ))
  | .coalesce lf c => .coalesce lf (ρ c)
  | .qual l c => .qual l (ρ c)

def Suffix.rename (ρ : ColRen) : Suffix → Suffix
  | .none => .none
  | .whereE e => .whereE (e.rename ρ)
  | .groupBy cs => .groupBy (cs.map ρ)
  | .orderBy cs rv lim => .orderBy (cs.map ρ) (rv.map ρ) lim

def Terms.rename (ρ : ColRen) (ts : Terms) : Terms := ts.map (fun kv => (ρ kv.1, kv.2.rename ρ))

/-- renaming of a NearSQL tree: every column occurrence by `ρc`, base-table names by `ρt`.  The query names
(`extend_3`, `join_source_left_0`, …) and the names of common table expressions are generated by the translation and
stay as they are.  `ops_key` (a text only compared for equality by CTE elimination) is not touched either: statements
about renamed trees are made modulo keys (`Near.eraseKeys`). -/
def Near.rename (ρc : ColRen) (ρt : TabRen) : Near → Near
  | .table name terms => .table (ρt name) (terms.map ρc)
  | .cte name => .cte name
  | .unary name terms agg sub subCols suffix mg deps key =>
      .unary name (terms.map (Terms.rename ρc)) agg (Near.rename ρc ρt sub) (subCols.map (·.map ρc))
        (suffix.rename ρc) mg (deps.map (·.map (fun kv => (ρc kv.1, kv.2.map ρc)))) key
  | .join name terms l lc ln r rc rn jt oa ob key =>
      .join name (Terms.rename ρc terms) (Near.rename ρc ρt l) (lc.map ρc) ln (Near.rename ρc ρt r) (rc.map ρc) rn jt
        (oa.map ρc) (ob.map ρc) key
  | .union name terms l r cols key =>
      .union name (terms.map ρc) (Near.rename ρc ρt l) (Near.rename ρc ρt r) (cols.map ρc) key

/-- forget the `ops_key` of every step (the base table's key is its name, which stays) -/
def Near.eraseKeys : Near → Near
  | .table name terms => .table name terms
  | .cte name => .cte name
  | .unary name terms agg sub subCols suffix mg deps _ =>
      .unary name terms agg (Near.eraseKeys sub) subCols suffix mg deps none
  | .join name terms l lc ln r rc rn jt oa ob _ =>
      .join name terms (Near.eraseKeys l) lc ln (Near.eraseKeys r) rc rn jt oa ob none
  | .union name terms l r cols _ => .union name terms (Near.eraseKeys l) (Near.eraseKeys r) cols none

end Sql

/-! ## reserved names (DESIGN A.5) and the guard of the known findings D23 / D24

The names the executors and the SQL generator invent.  A user column or table with such a name can be overwritten,
dropped or captured by the real system (the executor model `sem` has no scratch columns, so it cannot exhibit this:
these are findings of the oracle, see `Props/C15.lean`).  The guard is decidable so that the driver computes it with the
same definition the theorems mention. -/
namespace Reserved

/-- scratch columns with a fixed name: Pandas executor (`pandas_base.py`), Polars executor (`polars_model.py`) -/
def exactCols : List String :=
  ["_data_algebra_temp_g", "_data_algebra_orig_index", "_data_table_temp_col", "data_algebra_temp_merge_col",
   "_da_temp_zero_column", "_da_temp_one_column", "_da_extend_temp_partition_column",
   "_da_project_temp_group_by_column", "_da_count_tmp"]

/-- scratch columns `<prefix><n>` -/
def numberedColPrefixes : List String :=
  ["data_algebra_extend_temp_col_", "data_algebra_project_temp_col_", "_da_extend_temp_v_column_",
   "_da_project_temp_v_column_"]

/-- scratch columns `<user column><suffix>` made by the join steps -/
def colSuffixes : List String := ["_tmp_right_col", "_da_join_tmp_key", "_da_right_tmp", "_da_left_tmp"]

/-- query names `<prefix><n>` the SQL generator gives to sub-queries / common table expressions -/
def numberedTablePrefixes : List String :=
  ["table_reference_", "extend_", "project_", "select_rows_", "order_rows_", "map_columns_", "rename_",
   "natural_join_", "join_source_left_", "join_source_right_", "concat_rows_", "convert_records_blocks_in_",
   "convert_records_blocks_out_"]

/-- `s = pre ++ digits` with at least one digit -/
def isNumbered (pre s : String) : Bool :=
  let p := pre.toList
  let l := s.toList
  p.isPrefixOf l && (let rest := l.drop p.length; !rest.isEmpty && rest.all Char.isDigit)

def isReservedCol (c : String) : Bool :=
  exactCols.contains c || numberedColPrefixes.any (fun p => isNumbered p c)
    || colSuffixes.any (fun s => s.toList.isSuffixOf c.toList)

def isReservedTable (t : String) : Bool := numberedTablePrefixes.any (fun p => isNumbered p t)

end Reserved

/-- **Guard of the known findings D23 (scratch columns) and D24 (generated query names)**: after the renaming no
column of the pipeline or the inputs carries a name the executors invent, and no table a name the SQL generator
invents. -/
def NoReserved (ρc : ColRen) (ρt : TabRen) (p : Ops) (env : Env) : Bool :=
  (names p env).all (fun c => !Reserved.isReservedCol (ρc c))
    && (tabNames p env).all (fun t => !Reserved.isReservedTable (ρt t))

/-- the table half alone (what the SQL side can be asked for) -/
def NoReservedTables (ρt : TabRen) (p : Ops) (env : Env) : Bool :=
  (tabNames p env).all (fun t => !Reserved.isReservedTable (ρt t))

end DAVerif
