import DAVerif.Core.Table
/-!
# What the documentation of the helpers of `data_algebra/solutions.py` promises (specification side of C21)

Written independently of the pipelines the helpers build and of the executor model: plain functions on lists of
rows (`Core/Table.lean`: a row is an association list column ↦ cell).

* `tieGroupMeanRank` – `rank_to_average`: "the rank of each item is the average of all items with same order
  position, e.g. `rank_to_average([1, 1, 2]) = [1.5, 1.5, 3]`";
* `locfValue` / `locfSpec` – `last_observed_carried_forward`: "copy last observed non-null value forward using order
  `order_by` and optional partition";
* `replicateSpec` – `replicate_rows_query`: "replicate each row by `count_column_name` copies", numbered in
  `seq_column_name`;
* `multiMapSpec` – `def_multi_column_map`: "map all columns in list `cols_to_map` through the mapping in mapping
  table (key by column name and value)", "if not None, coalesce to this value", "new names for resulting columns".

The order of rows "by `order_by`" is a parameter `le : Row → Row → Bool` (a total preorder on rows): the engines differ
in where they sort missing values (Pandas last, SQLite first), the documentation does not say; the theorems instantiate
`le` with the comparison of the engine they are about.
-/
namespace DAVerif.Spec21
open DAVerif

/-- `s` lies in the partition of `r`: equal cells (missing = missing) in every `partition_by` column -/
def samePart (part : List String) (r s : Row) : Bool := s.vals part == r.vals part

/-- `s` sorts strictly before `r` -/
def strictlyBefore (le : Row → Row → Bool) (s r : Row) : Bool := le s r && !le r s

/-- `s` and `r` have the same order position -/
def tiesWith (le : Row → Row → Bool) (s r : Row) : Bool := le s r && le r s

/-! ### rank_to_average -/

/-- number of rows of `r`'s partition that sort strictly before `r` -/
def lessCount (le : Row → Row → Bool) (part : List String) (rows : List Row) (r : Row) : Nat :=
  (rows.filter (samePart part r)).countP (fun s => strictlyBefore le s r)

/-- size of `r`'s tie group: rows of its partition with the same order position (`r` itself included) -/
def tieCount (le : Row → Row → Bool) (part : List String) (rows : List Row) (r : Row) : Nat :=
  (rows.filter (samePart part r)).countP (fun s => tiesWith le s r)

/-- **Mean position of the tie group.**  In every total order of `r`'s partition that refines `le`, the tie group
of `r` occupies the 1-based positions `less + 1, …, less + ties`; the promised rank is their mean. -/
def tieGroupMeanRank (le : Row → Row → Bool) (part : List String) (rows : List Row) (r : Row) : Rat :=
  let less := lessCount le part rows r
  let ties := tieCount le part rows r
  ((((List.range ties).map (fun i => less + i + 1)).sum : Nat) : Rat) / (ties : Rat)

/-- the table `rank_to_average` promises: every input row once, in input order, with its rank in a new column -/
def rankSpec (le : Row → Row → Bool) (part : List String) (rankCol : String) (t : Table) : Table :=
  ⟨t.cols ++ [rankCol], t.rows.map (fun r => r ++ [(rankCol, Val.num (tieGroupMeanRank le part t.rows r))])⟩

/-! ### last_observed_carried_forward

Rows are addressed by position (two rows may be equal).  Within a tie of `order_by` the helper breaks the tie by a row
number it computes itself (`locf_tiebreaker`); `tb j` is that number for the row at position `j`. -/

/-- the row at position `j` comes strictly before the row at position `i` in the order (`order_by`, tie breaker) -/
def locfBefore (le : Row → Row → Bool) (tb : Nat → Nat) (rows : List Row) (j i : Nat) : Bool :=
  let rj := rows.getD j []
  let ri := rows.getD i []
  strictlyBefore le rj ri || (tiesWith le rj ri && tb j < tb i)

/-- positions of the rows of `i`'s partition, strictly earlier than `i`, whose value is not missing -/
def locfCandidates (le : Row → Row → Bool) (tb : Nat → Nat) (part : List String) (v : String) (rows : List Row)
    (i : Nat) : List Nat :=
  (List.range rows.length).filter (fun j =>
    samePart part (rows.getD i []) (rows.getD j []) && !((rows.getD j []).get v).isNull && locfBefore le tb rows j i)

/-- **The carried-forward value** of the row at position `i`: its own value if that is not missing; otherwise the
value of the latest earlier row of its partition whose value is not missing (the candidate that no other candidate
comes after); missing if there is none. -/
def locfValue (le : Row → Row → Bool) (tb : Nat → Nat) (part : List String) (v : String) (rows : List Row)
    (i : Nat) : Val :=
  let r := rows.getD i []
  if !(r.get v).isNull then r.get v
  else
    let cands := locfCandidates le tb part v rows i
    match cands.find? (fun j => cands.all (fun k => k == j || locfBefore le tb rows k j)) with
    | some j => (rows.getD j []).get v
    | none => .null

/-- the rows `last_observed_carried_forward` promises: every input row once with the value column filled
(`Row.set` overwrites the cell in place) -/
def locfSpec (le : Row → Row → Bool) (tb : Nat → Nat) (part : List String) (v : String) (rows : List Row) :
    List Row :=
  rows.zipIdx.map (fun ri => ri.1.set v (locfValue le tb part v rows ri.2))

/-! ### replicate_rows_query -/

/-- the number of copies a row asks for: its count cell read as a natural number (anything else: no copy) -/
def countOf (countCol : String) (r : Row) : Nat :=
  match r.get countCol with
  | .num q => if q.den == 1 then q.num.toNat else 0
  | _ => 0

/-- each row `count` times, the copies numbered `0 … count-1` in the new column `seq` -/
def replicateSpec (countCol seqCol : String) (t : Table) : Table :=
  ⟨t.cols ++ [seqCol],
    t.rows.flatMap (fun r => (List.range (countOf countCol r)).map (fun i => r ++ [(seqCol, Val.num (i : Nat))]))⟩

/-! ### def_multi_column_map -/

/-- the mapping table read as a function of (column name, value): the mapped value of the (first) mapping row with
that name and that value, missing when there is none -/
def mapLookup (nameKey valueKey mappedKey : String) (m : List Row) (c : String) (x : Val) : Val :=
  match m.find? (fun mr => mr.get nameKey == Val.str c && mr.get valueKey == x) with
  | some mr => mr.get mappedKey
  | none => .null

/-- "if not None, coalesce to this value" -/
def coalesceTo (dflt : Option Val) (v : Val) : Val :=
  match dflt with
  | some d => if v.isNull then d else v
  | none => v

/-- one promised output row: the row keys, then every listed column mapped (under its new name) -/
def multiMapRow (nameKey valueKey mappedKey : String) (m : List Row) (rowKeys : List String)
    (colsBack : List (String × String)) (dflt : Option Val) (r : Row) : Row :=
  rowKeys.map (fun k => (k, r.get k)) ++
  colsBack.map (fun cb => (cb.2, coalesceTo dflt (mapLookup nameKey valueKey mappedKey m cb.1 (r.get cb.1))))

/-- the promised table; `colsBack` pairs every column to map with the name of its result column -/
def multiMapSpec (nameKey valueKey mappedKey : String) (m : List Row) (rowKeys : List String)
    (colsBack : List (String × String)) (dflt : Option Val) (d : Table) : Table :=
  ⟨rowKeys ++ colsBack.map (·.2), d.rows.map (multiMapRow nameKey valueKey mappedKey m rowKeys colsBack dflt)⟩

end DAVerif.Spec21
