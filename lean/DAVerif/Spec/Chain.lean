import DAVerif.Spec.Perm
import DAVerif.Ops.Compose
/-!
Specification-side vocabulary of C06 ("builder simplifications never change what a pipeline means") and
C07 ("composition equals sequential application"):

* (`Reachable p` – `p` is a pipeline a user can write: obtained from table descriptions by builder calls – is
  defined in `Props/C26.lean`; `Step.argOps` is the same function as `Rules26.stepArgs`);
* `buildRaw self s` – the **unsimplified** builder: the user-level argument checks of a builder call followed by
  the plain node constructor `mk*` (no extend merging, no `order_rows` elimination, no select collapsing);
* `semStep Θ cfg env n s t` – the meaning of ONE step on a materialised table `t`: the raw node for the step over
  a fresh table description `n` of `t`, evaluated with `n` bound to `t` (the other inputs, e.g. the right side of
  a join, are read from `env`);
* `t ≈ᶜ t'` (`Table.EquivC`) – the same table up to the order of rows **and** the order of columns (the
  comparison rule of the framework: column order is not part of a result), `ResEquivC` its lift to results;
* `StepScope` – C18's scope condition for the new step (window order total per partition or order free window
  functions; order free aggregates; a limit that does not cut through a tie);
* `ConvertInvariant` – record transforms respect `≈ᶜ`.
-/
namespace DAVerif

/-- the pipelines a step takes as arguments (the right side of a join / concat) -/
def Step.argOps : Step → List Ops
  | .join b _ _ _ _ => [b]
  | .concat (some b) _ _ _ => [b]
  | _ => []

/-- the argument checks `extend` makes before it constructs anything (`_work_col_group_arg`, disjointness of the
produced columns from the partition and order columns, `reverse ⊆ order_by`) -/
def extendChecks (cols : List String) (ops : Assign) (partition : PartArg) (order reverse : List String) :
    Except Err Unit := do
  match partition with
  | .cols cs => workColGroup cs cols
  | _ => pure ()
  workColGroup order cols
  workColGroup reverse cols
  match partition with
  | .cols cs =>
    if !cs.isEmpty then
      ok? (disjoint (ops.map (·.1)) cs) .valueError
      ok? (disjoint cs order) .valueError
  | _ => pure ()
  ok? (disjoint (ops.map (·.1)) order) .valueError
  ok? (subset reverse order) .valueError

/-- the argument checks `project` makes before it constructs anything -/
def projectChecks (cols : List String) (ops : Assign) (group : List String) : Except Err Unit := do
  workColGroup group cols
  ok? (!(ops.isEmpty && group.isEmpty)) .valueError
  ok? (disjoint (ops.map (·.1)) group) .valueError

/-- **One builder call without any simplification**: the same argument checks and early exits as `build`, then
the node constructor applied to `self` itself. -/
def buildRaw (self : Ops) : Step → Except Err Ops
  | .extend ops partition order reverse => do
      let parsed ← parseAssignments self.cols ops
      if parsed.isEmpty then return self
      extendChecks self.cols parsed partition order reverse
      mkExtend self parsed partition order reverse
  | .project ops group => do
      let parsed ← parseAssignments self.cols ops
      projectChecks self.cols parsed group
      mkProject self parsed group
  | .selectRows none => .ok self
  | .selectRows (some e) => do
      let _ ← parseAssignments self.cols [("expr", e)]
      .ok (.selectRows self e)
  | .selectCols cs => do
      ok? (!cs.isEmpty) .valueError
      mkSelectCols self cs
  | .dropCols cs => if cs.isEmpty then .ok self else mkDropCols self cs
  | .order cs reverse limit => if cs.isEmpty && limit.isNone then .ok self else mkOrder self cs reverse limit
  | .rename m => if m.isEmpty then .ok self else mkRename self m
  | .mapCols m => if m.isEmpty then .ok self else mkMapCols self m
  | .join b onA onB jt check => mkJoin self b onA onB jt check
  | .concat none _ _ _ => .ok self
  | .concat (some b) idc an bn => mkConcat self b idc an bn
  | .convert none => .ok self
  | .convert (some rm) => mkConvert self rm

/-- **The meaning of one step on a materialised table** `t`: describe `t` as a fresh table `n`, construct the raw
node for the step over that description, and evaluate it with `n` bound to `t`. -/
def semStep (Θ : Interp) (cfg : SemCfg) (env : Env) (n : String) (s : Step) (t : Table) : Except Err Table :=
  buildRaw (.table n t.cols) s >>= sem Θ cfg ((n, t) :: env)

/-- applying a list of steps in turn, materialising every intermediate result -/
def semSteps (Θ : Interp) (cfg : SemCfg) (env : Env) (n : String) (steps : List Step) (t : Table) :
    Except Err Table :=
  steps.foldlM (fun t s => semStep Θ cfg env n s t) t

/-- the name `n` is not a table of the pipelines the step takes as arguments -/
def Step.Fresh (n : String) (s : Step) : Prop := ∀ b ∈ Step.argOps s, n ∉ b.tables.map (·.1)

/-! ### equivalence up to row order and column order -/

/-- two well-formed tables with the same columns up to order and, once the columns of the second are put in the
order of the first, the same multiset of rows -/
def Table.EquivC (t t' : Table) : Prop :=
  t.WF ∧ t'.WF ∧ t.cols.Nodup ∧ t.cols.Perm t'.cols ∧ t.rows.Perm (t'.rows.map (fun r => r.select t.cols))

@[inherit_doc] infix:50 " ≈ᶜ " => Table.EquivC

/-- results agree up to row and column order: the same error, or `≈ᶜ` tables -/
def ResEquivC : Except Err Table → Except Err Table → Prop
  | .ok t, .ok t' => t ≈ᶜ t'
  | .error e, .error e' => e = e'
  | _, _ => False

/-- two environments bind the same names, in the same order, to `≈ᶜ` tables -/
def Env.EquivC : Env → Env → Prop
  | [], [] => True
  | (n, t) :: e, (n', t') :: e' => n = n' ∧ t ≈ᶜ t' ∧ Env.EquivC e e'
  | _, _ => False

/-- record transforms (whose produced columns are pairwise different) respect `≈ᶜ`: they read and write columns
by name -/
def ConvertInvariant (Θ : Interp) : Prop :=
  ∀ rm t t', rm.produced.Nodup → t ≈ᶜ t' → ResEquivC (Θ.convert rm t) (Θ.convert rm t')

/-! ### scope of one step (C18's conditions for the new step, on the rows of the materialised table) -/

/-- the partition columns an `extend` step names -/
def PartArg.cols' : PartArg → List String
  | .cols cs => cs
  | _ => []

/-- does an `extend` step with these arguments evaluate as a window computation? -/
def stepWindowed (ops : Assign) (partition : PartArg) (order : List String) : Bool :=
  impliesWindowed ops || (match partition with | .none => false | .one => true | .cols cs => !cs.isEmpty)
    || !order.isEmpty

/-- **Scope of one step**: a windowed `extend` has a window order that is total within each partition or uses
only order free window functions; a `project` uses order free aggregates; an `order_rows` with a limit does not
cut through a tie.  All other steps are always in scope. -/
def StepScope (Θ : Interp) (s : Step) (rows : List Row) : Prop :=
  match s with
  | .extend ops partition order reverse =>
      stepWindowed ops partition order = true → WinOK Θ ops partition.cols' order reverse rows
  | .project ops _ => ∀ kv ∈ ops, AggOrderFree Θ (opName kv.2)
  | .order cs reverse (some n) => LimitOK cs reverse n rows
  | _ => True

end DAVerif
