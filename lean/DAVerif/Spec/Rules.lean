import DAVerif.Ops.Builder
/-
C26 – the documented construction rules of the builder methods, written as a specification:
a predicate on the *declared columns of the prefix* (and, for the two-table steps, the declared columns and
table descriptions of the second argument) and the step.  Nothing here mentions `build` or any node constructor
of `Ops/Builder.lean`; the only model notions used are the syntax (`Step`, `Term`, `Term.colsRaw` = the columns an
expression mentions, `Ops.cols`/`Ops.tables` of the *argument* `b` of a join/concat) and the function-name
classes regenerated from `expr_rep.py` (`DAVerif.Gen.*`).

Each rule carries the error class the library documents for it; the rules of a step are listed in the order in
which the library checks them, so that "which error is raised" is the class of the first violated rule.

No imports beyond model files (the compiled driver does not need this file, but it stays Mathlib-free).
-/
namespace DAVerif
namespace Rules26

/-- one documented rule: what it says, whether it holds, the error class raised when it is the first violated -/
structure Rule where
  name : String
  holds : Bool
  err : Err
  deriving Repr

/-- the verdict of an ordered rule list: `.ok ()` when every rule holds, otherwise the error class of the first
violated rule -/
def verdictOf : List Rule → Except Err Unit
  | [] => .ok ()
  | r :: rs => if r.holds then verdictOf rs else .error r.err

/-! ### vocabulary -/

/-- the names an assignment list produces -/
abbrev keys (ops : Assign) : List String := ops.map (·.1)

/-- the columns mentioned by any expression of an assignment list -/
abbrev usedBy (ops : Assign) : List String := ops.flatMap (fun kv => Term.colsRaw kv.2)

/-- the partition columns of a `partition_by` argument (`None` and `1` name no column) -/
def partCols : PartArg → List String
  | .none => [] | .one => [] | .cols cs => cs

/-- "windowed situation": a window function is used, or a partition (`1` included) or an ordering is given -/
def windowedSituation (ops : Assign) (partition : PartArg) (order : List String) : Bool :=
  (ops.any fun kv => match kv.2 with
      | .app op _ _ _ => Gen.impliesWindowed.contains op
      | _ => false)
  || (match partition with | .none => false | .one => true | .cols cs => !cs.isEmpty)
  || !order.isEmpty

def isConst : Term → Bool
  | .value _ => true
  | _ => false

/-- a window expression is one function applied to nothing, or to one known column or one constant, followed by
constants only ("in windowed situations only simple operators are allowed"), and its name fits the situation:
not a function that contradicts windowing; with an ordering none of the plain aggregates
(`count max min prod sum std var`); without an ordering none of the order-dependent functions
(`cumsum shift row_number …`). -/
def windowExprOk (cols : List String) (ordered : Bool) : Term → Bool
  | .app op [] _ _ => nameOk op
  | .app op (.col c :: rest) _ _ => cols.contains c && rest.all isConst && nameOk op
  | .app op (.value _ :: rest) _ _ => rest.all isConst && nameOk op
  | _ => false
where
  nameOk (op : String) : Bool :=
    !Gen.contradictWindowed.contains op
    && (if ordered then !Gen.contradictOrdered.contains op else !Gen.impliesOrdered.contains op)

/-- a project expression is one aggregation applied to nothing, one column or one constant, and is not an
order-dependent or otherwise excluded function (`fn_names_not_allowed_in_project`). -/
def projectExprOk : Term → Bool
  | .app op [] _ _ => nameOk op
  | .app op [.col _] _ _ => nameOk op
  | .app op [.value _] _ _ => nameOk op
  | _ => false
where
  nameOk (op : String) : Bool := !Gen.impliesOrdered.contains op && !Gen.notAllowedInProject.contains op

/-- two sets of table descriptions agree: the same table name never stands for two different column lists -/
def TablesAgree (ta tb : List (String × List String)) : Prop :=
  ∀ x ∈ ta, ∀ y ∈ tb, x.1 = y.1 → x.2 = y.2

instance (ta tb) : Decidable (TablesAgree ta tb) := by unfold TablesAgree; exact inferInstance

/-- `rename_columns` (new ↦ old): the column list after renaming; for a source named twice the last entry wins -/
def renamed (cols : List String) (m : List (String × String)) : List String :=
  cols.map fun c => match m.reverse.find? (fun kv => kv.2 == c) with
    | some kv => kv.1
    | none => c

/-- `map_columns` (old ↦ new, `None` = delete): deletions removed, then renamed (last entry for a source wins
among the renamings) -/
def mapped (cols : List String) (m : List (String × Option String)) : List String :=
  let dels := (m.filter (fun kv => kv.2.isNone)).map (·.1)
  let ren : List (String × String) := m.filterMap (fun kv => kv.2.map (fun v => (kv.1, v)))
  (cols.filter (fun c => !dels.contains c)).map fun c => match ren.reverse.find? (fun kv => kv.1 == c) with
    | some kv => kv.2
    | none => c

/-- the new names a `map_columns` dictionary introduces / the columns it mentions as sources -/
def mapTargets (m : List (String × Option String)) : List String := m.filterMap (fun kv => kv.2)
def mapSources (m : List (String × Option String)) : List String := m.map (fun kv => kv.1)

/-- the join types `standardize_join_type` knows (any letter case) -/
def knownJoinTypes : List String := ["INNER", "LEFT", "RIGHT", "OUTER", "FULL", "CROSS"]

/-! ### the rules, step by step

`cols` are the declared columns of the prefix, `tabs` its table descriptions (only the two-table steps look at
them). -/

/-- the three rules `parse_assignments_in_context` documents for a set of assignments -/
def assignRules (cols : List String) (ops : Assign) : List Rule :=
  [ ⟨"assignment keys are unique", decide ((keys ops).Nodup), .valueError⟩,
    ⟨"expressions refer to known columns only", decide (∀ c ∈ usedBy ops, c ∈ cols), .nameError⟩,
    ⟨"no column is produced by one assignment and used by another of the same step",
      decide (∀ kv ∈ ops, ∀ c ∈ Term.colsRaw kv.2, c ≠ kv.1 → c ∉ keys ops), .valueError⟩ ]

def stepRules (cols : List String) (tabs : List (String × List String)) : Step → List Rule
  | .extend ops partition order reverse =>
    if ops.isEmpty then []            -- an extend without assignments is the identity
    else
      let part := partCols partition
      assignRules cols ops ++
      [ ⟨"partition_by: no duplicates, known columns", decide (part.Nodup ∧ ∀ c ∈ part, c ∈ cols), .assertionError⟩,
        ⟨"order_by: no duplicates, known columns", decide (order.Nodup ∧ ∀ c ∈ order, c ∈ cols), .assertionError⟩,
        ⟨"reverse: no duplicates, known columns", decide (reverse.Nodup ∧ ∀ c ∈ reverse, c ∈ cols), .assertionError⟩,
        ⟨"must not change partition_by columns", decide (∀ k ∈ keys ops, k ∉ part), .valueError⟩,
        ⟨"order_by and partition_by columns must be disjoint", decide (∀ c ∈ part, c ∉ order), .valueError⟩,
        ⟨"must not change order_by columns", decide (∀ k ∈ keys ops, k ∉ order), .valueError⟩,
        ⟨"all columns in reverse must be in order_by", decide (∀ c ∈ reverse, c ∈ order), .valueError⟩,
        ⟨"windowed situation: only simple window expressions of a fitting function",
          !windowedSituation ops partition order || ops.all (fun kv => windowExprOk cols (!order.isEmpty) kv.2),
          .valueError⟩ ]
  | .project ops group =>
      assignRules cols ops ++
      [ ⟨"group_by: no duplicates, known columns", decide (group.Nodup ∧ ∀ c ∈ group, c ∈ cols), .assertionError⟩,
        ⟨"project must have ops or group_by", !(ops.isEmpty && group.isEmpty), .valueError⟩,
        ⟨"project can not alter grouping columns", decide (∀ k ∈ keys ops, k ∉ group), .valueError⟩,
        ⟨"only simple aggregation expressions", ops.all (fun kv => projectExprOk kv.2), .valueError⟩ ]
  | .selectRows none => []
  | .selectRows (some e) =>
      [ ⟨"expression refers to known columns only", decide (∀ c ∈ Term.colsRaw e, c ∈ cols), .nameError⟩ ]
  | .selectCols cs =>
      [ ⟨"must select at least one column", !cs.isEmpty, .valueError⟩,
        ⟨"selected columns are known", decide (∀ c ∈ cs, c ∈ cols), .keyError⟩,
        ⟨"no column selected twice", decide cs.Nodup, .assertionError⟩ ]
  | .dropCols cs =>
      if cs.isEmpty then []
      else
      [ ⟨"dropped columns are known", decide (∀ c ∈ cs, c ∈ cols), .keyError⟩,
        ⟨"can not drop all columns", decide (∃ c ∈ cols, c ∉ cs), .valueError⟩ ]
  | .order cs reverse limit =>
      if cs.isEmpty && limit.isNone then []
      else
      [ ⟨"order columns are known", decide (∀ c ∈ cs, c ∈ cols), .valueError⟩,
        ⟨"reverse columns are order columns", decide (∀ c ∈ reverse, c ∈ cs), .valueError⟩ ]
  | .rename m =>
      if m.isEmpty then []
      else
      [ ⟨"renamed sources are known columns", decide (∀ kv ∈ m, kv.2 ∈ cols), .valueError⟩,
        ⟨"no new name collides with a column that stays", decide (∀ kv ∈ m, kv.1 ∈ cols → kv.1 ∈ m.map (·.2)), .valueError⟩,
        ⟨"the renamed column list has no duplicates", decide (renamed cols m).Nodup, .assertionError⟩ ]
  | .mapCols m =>
      if m.isEmpty then []
      else
      [ ⟨"mapped sources are known columns", decide (∀ kv ∈ m, kv.1 ∈ cols), .valueError⟩,
        ⟨"no new name collides with a column that stays",
          decide (∀ v ∈ mapTargets m, v ∈ cols → v ∈ mapSources m), .valueError⟩,
        ⟨"can not drop all columns", !(mapped cols m).isEmpty, .assertionError⟩,
        ⟨"the mapped column list has no duplicates", decide (mapped cols m).Nodup, .assertionError⟩ ]
  | .join b onA onB jt check =>
      [ ⟨"both sides describe shared tables the same way", decide (TablesAgree tabs b.tables), .valueError⟩,
        ⟨"as many left keys as right keys", onA.length == onB.length, .assertionError⟩,
        ⟨"left table has the join keys", decide (∀ c ∈ onA, c ∈ cols), .keyError⟩,
        ⟨"right table has the join keys", decide (∀ c ∈ onB, c ∈ b.cols), .keyError⟩,
        ⟨"check requested: every common column is a key on both sides",
          !check || decide (∀ c ∈ cols, c ∈ b.cols → c ∈ onA ∧ c ∈ onB), .keyError⟩,
        ⟨"known join type", knownJoinTypes.contains jt.toUpper, .keyError⟩,
        ⟨"CROSS joins must have an empty on list", !(jt.toUpper == "CROSS") || onA.isEmpty, .valueError⟩ ]
  | .concat none _ _ _ => []
  | .concat (some b) idc _ _ =>
      [ ⟨"both sides describe shared tables the same way", decide (TablesAgree tabs b.tables), .valueError⟩,
        ⟨"a and b have the same set of column names", decide ((∀ c ∈ cols, c ∈ b.cols) ∧ ∀ c ∈ b.cols, c ∈ cols), .valueError⟩,
        ⟨"id_column is not an input column", (match idc with | none => true | some c => !cols.contains c), .valueError⟩ ]
  | .convert none => []
  | .convert (some rm) =>
      [ ⟨"the record map's needed columns are present", decide (∀ c ∈ rm.needed, c ∈ cols), .valueError⟩,
        ⟨"the record map produces at least one column, none twice",
          decide (rm.produced ≠ [] ∧ rm.produced.Nodup), .assertionError⟩ ]

/-- **the documented rules hold** for adding step `s` to a prefix with declared columns `cols` and table
descriptions `tabs` -/
def Rules (cols : List String) (tabs : List (String × List String)) (s : Step) : Prop :=
  ∀ r ∈ stepRules cols tabs s, r.holds = true

instance (cols tabs s) : Decidable (Rules cols tabs s) := by unfold Rules; exact inferInstance

/-- Boolean version -/
def rulesB (cols : List String) (tabs : List (String × List String)) (s : Step) : Bool :=
  (stepRules cols tabs s).all (·.holds)

/-- the verdict the documentation predicts: accepted, or the error class of the first violated rule -/
def verdict (cols : List String) (tabs : List (String × List String)) (s : Step) : Except Err Unit :=
  verdictOf (stepRules cols tabs s)

/-! ### the documented column list of the new node -/

def resultCols (cols : List String) : Step → List String
  | .extend ops _ _ _ => cols ++ (keys ops).filter (fun k => !cols.contains k)   -- old columns, then the new names in order
  | .project ops group => group ++ keys ops
  | .selectRows _ => cols
  | .selectCols cs => cs
  | .dropCols cs => cols.filter (fun c => !cs.contains c)
  | .order _ _ _ => cols
  | .rename m => if m.isEmpty then cols else renamed cols m
  | .mapCols m => if m.isEmpty then cols else mapped cols m
  | .join b _ _ _ _ =>
      -- a's columns followed by b's new ones; the library re-uses one side's tuple when it has the same *set*
      if b.cols.all (fun c => cols.contains c) then cols
      else if cols.all (fun c => b.cols.contains c) then b.cols
      else cols ++ b.cols.filter (fun c => !cols.contains c)
  | .concat none _ _ _ => cols
  | .concat (some _) idc _ _ => match idc with | none => cols | some c => cols ++ [c]
  | .convert none => cols
  | .convert (some rm) => rm.produced

/-- the pipelines a step takes as further arguments -/
def stepArgs : Step → List Ops
  | .join b _ _ _ _ => [b]
  | .concat (some b) _ _ _ => [b]
  | _ => []

end Rules26
end DAVerif
