import DAVerif.Core.Val
/-
Tables: a column list and rows as association lists (column ↦ cell) – the model of a data frame as the
properties see it (no index, no dtypes; None/NaN/NaT are one null).

Invariant `Table.WF`: every row has exactly the table's columns, in the table's order.

No imports beyond model files: part of the compiled driver.
-/
namespace DAVerif

abbrev Row := List (String × Val)

namespace Row
/-- cell lookup; a missing column reads as null (never happens in well-formed tables) -/
def get (r : Row) (c : String) : Val := (r.lookup c).getD .null

/-- `frame[c] = v`: overwrite in place or append -/
def set : Row → String → Val → Row
  | [], c, v => [(c, v)]
  | (k, x) :: r, c, v => if k == c then (k, v) :: r else (k, x) :: set r c v

def setAll (r : Row) (kvs : List (String × Val)) : Row := kvs.foldl (fun r kv => set r kv.1 kv.2) r

/-- keep the listed columns, in the order listed -/
def select (r : Row) (cs : List String) : Row := cs.map (fun c => (c, get r c))

def drop (r : Row) (cs : List String) : Row := r.filter (fun kv => !cs.contains kv.1)

def rename (r : Row) (f : String → String) : Row := r.map (fun kv => (f kv.1, kv.2))

def keys (r : Row) : List String := r.map (·.1)

def vals (r : Row) (cs : List String) : List Val := cs.map (get r)
end Row

structure Table where
  cols : List String
  rows : List Row
  deriving DecidableEq, Repr, Inhabited

namespace Table
def WF (t : Table) : Prop := ∀ r ∈ t.rows, Row.keys r = t.cols
instance (t : Table) : Decidable t.WF := by unfold WF; exact inferInstance

def empty (cs : List String) : Table := ⟨cs, []⟩

def column (t : Table) (c : String) : List Val := t.rows.map (fun r => r.get c)

def selectCols (t : Table) (cs : List String) : Table := ⟨cs, t.rows.map (fun r => r.select cs)⟩

/-- restrict to the columns in `u`, keeping the table's own column order -/
def restrict (t : Table) (u : List String) : Table :=
  selectCols t (t.cols.filter (fun c => u.contains c))
end Table

/-- an environment: the input tables by name -/
abbrev Env := List (String × Table)

/-! ### Ordering of cells (for `order_rows` and window ordering)

Within a column all non-null cells have one kind.  Order: numbers numerically, strings lexicographically
(Python/pandas object order on `str` = code-point order), `False < True`.  Cross-kind comparisons never arise in
well-kinded pipelines; they are given the arbitrary total order bool < num < str so that `cmp` is total. -/
namespace Val
def rank : Val → Nat
  | .bool _ => 0 | .num _ => 1 | .str _ => 2 | .null => 3

/-- strict "less than" on non-null cells -/
def lt : Val → Val → Bool
  | .bool a, .bool b => !a && b
  | .num a, .num b => a < b
  | .str a, .str b => a < b
  | a, b => rank a < rank b
end Val

end DAVerif
