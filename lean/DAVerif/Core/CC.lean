/-
Model of /repo/data_algebra/connected_components.py, the algorithm AS WRITTEN.

```python
class Component:
    def __init__(self, item):
        self.id = item
        self.items = {item}

def connected_components(f, g):
    keys = set([k for k in f]).union((k for k in g))
    components = {k: Component(k) for k in keys}
    for fi, gi in zip(f, g):
        component_f = components[fi]
        component_g = components[gi]
        if component_f.id != component_g.id:
            if len(component_f.items) >= len(component_g.items):
                merged = component_f
                donor = component_g
            else:
                merged = component_g
                donor = component_f
            merged.items.update(donor.items)
            merged.id = min(merged.id, donor.id)
            for k in donor.items:
                components[k] = merged
    assignments = [components[k].id for k in f]
    return assignments
```

Aliasing.  Several dictionary entries hold a reference to the *same* mutable `Component` object, and
`merged.id = ...` / `merged.items.update(...)` are seen through every alias.  The model makes that
explicit: a `Component` object lives in a heap (a list of records), a reference to it is its position in
that list (`Handle := Nat`, the allocation order of the dict comprehension), and the dictionary
`components` maps a vertex to a handle.

Python `dict` → association list in insertion order with `dictGet` (`none` = `KeyError`) / `dictSet`;
Python `set` → duplicate-free list, `set.update` → `setUpdate`.  The iteration order of the Python set
`keys` is not defined (hash order): the model takes the enumeration `ks` as a parameter
(`connectedComponentsWith`) and the theorems quantify over every enumeration.

`none` results: `components[k]` raising `KeyError`, or a dangling handle (impossible in Python; kept as an
error outcome so that no totalised lookup hides it).  Theorem `C23_total` shows neither ever happens.

No imports: this file is part of the compiled driver.
-/
namespace DAVerif.CC

/-- `class Component`: `self.id`, `self.items` (a set, here a duplicate-free list). -/
structure Component (V : Type) where
  id : V
  items : List V
  deriving Repr

/-- `Component(item)`: `self.id = item; self.items = {item}` -/
def Component.new {V : Type} (item : V) : Component V := { id := item, items := [item] }

/-- a reference to a `Component` object = its allocation index -/
abbrev Handle := Nat

section dict
variable {V β : Type} [DecidableEq V]

/-- `d[k]` on a dict given as association list; `none` = `KeyError`. -/
def dictGet : List (V × β) → V → Option β
  | [], _ => none
  | (k', v') :: d, k => if k' = k then some v' else dictGet d k

/-- `d[k] = v`: an existing key keeps its position, a new key goes to the end. -/
def dictSet : List (V × β) → V → β → List (V × β)
  | [], k, v => [(k, v)]
  | (k', v') :: d, k, v => if k' = k then (k', v) :: d else (k', v') :: dictSet d k v

/-- `s.add(x)` on a set given as duplicate-free list -/
def setAdd (s : List V) (x : V) : List V := if x ∈ s then s else s ++ [x]

/-- `s.update(t)`: `for x in t: s.add(x)` -/
def setUpdate (s t : List V) : List V := t.foldl setAdd s

/-- `set([k for k in f]).union((k for k in g))` in first-occurrence order (one possible enumeration). -/
def keysOf (f g : List V) : List V := setUpdate (setUpdate [] f) g

end dict

/-- `min(a, b)` of Python: `b if b < a else a` (the first argument wins a tie). -/
def pyMin {V : Type} [LT V] [DecidableLT V] (a b : V) : V := if b < a then b else a

/-- The two mutable things of the function body: the dict `components` and the heap of `Component` objects. -/
structure State (V : Type) where
  components : List (V × Handle)
  heap : List (Component V)
  deriving Repr

section algo
variable {V : Type} [DecidableEq V] [LT V] [DecidableLT V]

/-- `components = {k: Component(k) for k in keys}`: the i-th key gets the i-th allocated object. -/
def initFrom : List V → Nat → List (V × Handle)
  | [], _ => []
  | k :: ks, n => (k, n) :: initFrom ks (n + 1)

def init (ks : List V) : State V :=
  { components := initFrom ks 0, heap := ks.map Component.new }

/-- `components[k]` followed by dereferencing the object. -/
def deref (σ : State V) (k : V) : Option (Handle × Component V) := do
  let h ← dictGet σ.components k
  let c ← σ.heap[h]?
  return (h, c)

/-- `for k in donor.items: components[k] = merged` -/
def repoint (comps : List (V × Handle)) (items : List V) (hm : Handle) : List (V × Handle) :=
  items.foldl (fun d k => dictSet d k hm) comps

/-- One iteration of `for fi, gi in zip(f, g)`. -/
def step (σ : State V) (e : V × V) : Option (State V) := do
  let (hf, cf) ← deref σ e.1                 -- component_f = components[fi]
  let (hg, cg) ← deref σ e.2                 -- component_g = components[gi]
  if cf.id ≠ cg.id then                      -- if component_f.id != component_g.id:
    -- if len(component_f.items) >= len(component_g.items): merged, donor = f, g  else: g, f
    let (hm, m, d) := if cf.items.length ≥ cg.items.length then (hf, cf, cg) else (hg, cg, cf)
    -- merged.items.update(donor.items); merged.id = min(merged.id, donor.id)   (mutation of the object `hm`)
    let m' : Component V := { id := pyMin m.id d.id, items := setUpdate m.items d.items }
    -- for k in donor.items: components[k] = merged
    return { components := repoint σ.components d.items hm, heap := σ.heap.set hm m' }
  else
    return σ

/-- `[components[k].id for k in f]` -/
def assignments (σ : State V) (f : List V) : Option (List V) :=
  f.mapM (fun k => do let (_, c) ← deref σ k; return c.id)

/-- The loop over `zip(f, g)` (zip stops at the shorter list). -/
def runEdges (σ : State V) (es : List (V × V)) : Option (State V) := es.foldlM step σ

/-- `connected_components(f, g)` for a given enumeration `ks` of the Python set `keys`. -/
def connectedComponentsWith (ks f g : List V) : Option (List V) := do
  let σ ← runEdges (init ks) (f.zip g)
  assignments σ f

/-- `connected_components(f, g)` with `keys` enumerated in first-occurrence order. -/
def connectedComponents (f g : List V) : Option (List V) :=
  connectedComponentsWith (keysOf f g) f g

end algo
end DAVerif.CC
