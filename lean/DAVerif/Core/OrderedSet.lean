/-
Model of /repo/data_algebra/OrderedSet.py.

An `OrderedSet` wraps a `collections.OrderedDict` whose values are all `None`; the model is the list of
its keys in iteration order.  Everything the class inherits from `collections.abc.MutableSet` / `Set`
is modelled from CPython's `_collections_abc.py` (the mixin bodies are quoted at each definition).

No imports: this file is part of the compiled driver.
-/
namespace DAVerif.OSet

variable {α : Type} [DecidableEq α]

/-- `self.impl[elem] = None` : an existing key keeps its position, a new key goes to the end. -/
def add (s : List α) (x : α) : List α := if x ∈ s then s else s ++ [x]

/-- `self.impl.pop(elem, None)` : removes the (only) key equal to `elem`. -/
def discard (s : List α) (x : α) : List α := s.erase x

/-- `for val in v: self.add(val)` -/
def addAll (s : List α) (v : List α) : List α := v.foldl add s

/-- `OrderedSet(v)` -/
def ofList (v : List α) : List α := addAll [] v

/-- `update(*args)` -/
def update (s : List α) (args : List (List α)) : List α := args.foldl addAll s

/-- `copy()` / `__copy__` : `OrderedSet(self.impl.keys())` -/
def copy (s : List α) : List α := ofList s

/-- `union(*args)`: a fresh set with self's keys, then `if k not in res: res.add(k)` per other. -/
def union (s : List α) (args : List (List α)) : List α :=
  args.foldl (fun r o => o.foldl (fun r k => if k ∈ r then r else add r k) r) (ofList s)

/-- `MutableSet.remove`: `if value not in self: raise KeyError(value)`; `self.discard(value)` -/
def remove (s : List α) (x : α) : Option (List α) := if x ∈ s then some (discard s x) else none

/-- `MutableSet.pop`: `it = iter(self); value = next(it)` (KeyError when empty); `self.discard(value)` -/
def pop : List α → Option (α × List α)
  | [] => none
  | x :: s => some (x, discard (x :: s) x)

/-- `MutableSet.clear`: `while True: self.pop()` until KeyError.  Fuel = length (each pop removes one). -/
def clearAux : Nat → List α → List α
  | 0, s => s
  | n+1, s => match pop s with
    | none => s
    | some (_, s') => clearAux n s'
def clear (s : List α) : List α := clearAux s.length s

/-- `Set.__sub__`: `self._from_iterable(value for value in self if value not in other)` -/
def sub (s o : List α) : List α := ofList (s.filter (fun v => !(o.contains v)))

/-- `Set.__and__`: `self._from_iterable(value for value in other if value in self)` – ordered by *other*. -/
def and (s o : List α) : List α := ofList (o.filter (fun v => s.contains v))

/-- `Set.__or__`: `self._from_iterable(e for s in (self, other) for e in s)` -/
def or (s o : List α) : List α := ofList (s ++ o)

/-- `Set.__xor__`: `(self - other) | (other - self)` -/
def xor (s o : List α) : List α := or (sub s o) (sub o s)

/-- `MutableSet.__ior__`: `for value in it: self.add(value)` -/
def ior (s o : List α) : List α := addAll s o

/-- `MutableSet.__iand__`: `for value in (self - it): self.discard(value)` -/
def iand (s o : List α) : List α := (sub s o).foldl discard s

/-- `MutableSet.__isub__` (it is not self): `for value in it: self.discard(value)` -/
def isub (s o : List α) : List α := o.foldl discard s

/-- `MutableSet.__ixor__` (it is not self; `it` is first turned into a set of our class):
    `for value in it: if value in self: self.discard(value) else: self.add(value)` -/
def ixor (s o : List α) : List α :=
  (ofList o).foldl (fun s v => if v ∈ s then discard s v else add s v) s

/-- `__le__`: `all(e in other for e in self)` -/
def le (s o : List α) : Bool := s.all (fun e => o.contains e)
/-- `__ge__`: `all(e in self for e in other)` -/
def ge (s o : List α) : Bool := o.all (fun e => s.contains e)
/-- `Set.__eq__`: `len(self) == len(other) and self.__le__(other)` -/
def eq (s o : List α) : Bool := s.length == o.length && le s o
def lt (s o : List α) : Bool := le s o && !(eq s o)
def gt (s o : List α) : Bool := ge s o && !(eq s o)
/-- `Set.isdisjoint`: `for value in other: if value in self: return False` -/
def isdisjoint (s o : List α) : Bool := o.all (fun v => !(s.contains v))

/-- `ordered_intersect(a, b)`: `OrderedSet([v for v in a if v in set(b)])` -/
def orderedIntersect (a b : List α) : List α := ofList (a.filter (fun v => b.contains v))
/-- `ordered_union(a, b)`: `a = OrderedSet(a); for v in b: if v not in a: a.add(v)` -/
def orderedUnion (a b : List α) : List α := b.foldl (fun r v => if v ∈ r then r else add r v) (ofList a)
/-- `ordered_diff(a, b)`: `OrderedSet([v for v in a if v not in set(b)])` -/
def orderedDiff (a b : List α) : List α := ofList (a.filter (fun v => !(b.contains v)))

/-! ### Histories: one OrderedSet `s` mutated by a sequence of operations -/

inductive Op (α : Type) where
  | add (x : α) | discard (x : α) | remove (x : α) | pop | clear
  | update (args : List (List α))
  | ior (o : List α) | iand (o : List α) | isub (o : List α) | ixor (o : List α)
  | reinit (v : List α)            -- `s = OrderedSet(v)`
  | assignCopy                     -- `s = s.copy()`
  | assignUnion (args : List (List α))  -- `s = s.union(*args)`
  | assignSub (o : List α) | assignAnd (o : List α) | assignOr (o : List α) | assignXor (o : List α)
  deriving Repr

/-- One step; `none` = the real code raises `KeyError` (state unchanged). -/
def step (s : List α) : Op α → Option (List α)
  | .add x => some (add s x)
  | .discard x => some (discard s x)
  | .remove x => remove s x
  | .pop => (pop s).map (·.2)
  | .clear => some (clear s)
  | .update a => some (update s a)
  | .ior o => some (ior s o)
  | .iand o => some (iand s o)
  | .isub o => some (isub s o)
  | .ixor o => some (ixor s o)
  | .reinit v => some (ofList v)
  | .assignCopy => some (copy s)
  | .assignUnion a => some (union s a)
  | .assignSub o => some (sub s (ofList o))
  | .assignAnd o => some (and s (ofList o))
  | .assignOr o => some (or s (ofList o))
  | .assignXor o => some (xor s (ofList o))

/-- A failed step leaves the state unchanged (the exception is raised before any mutation). -/
def stepT (s : List α) (op : Op α) : List α := (step s op).getD s

def run (s : List α) (h : List (Op α)) : List α := h.foldl stepT s

end DAVerif.OSet
