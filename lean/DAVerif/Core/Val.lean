/-
Values.

* `Lit` — the payload of an expression constant (`data_algebra.expr_rep.Value.value`): `None`, `bool`,
  `int`, `float`, `str`.  `int`, `float` and `bool` constants are kept apart (they print differently and
  translate to different SQL: `x / 2` vs `x / 2.0`); a float is an exact rational (the harness only generates
  dyadic values, which are exact in float64) or one of the three non-finite floats.
* `Val` — a table cell as the comparison rule of the properties sees it: null (None/NaN/NaT are one value),
  bool, number (ints and floats are compared numerically, so a cell is a rational), string.

No imports: part of the compiled driver.
-/
namespace DAVerif

inductive Lit where
  | none
  | bool (b : Bool)
  | int (i : Int)
  | flt (q : Rat)
  | nan | inf | ninf                       -- float('nan'), float('inf'), float('-inf')
  | str (s : String)
  deriving DecidableEq, Repr, Inhabited

inductive Val where
  | null
  | bool (b : Bool)
  | num (q : Rat)
  | str (s : String)
  deriving DecidableEq, Repr, Inhabited

namespace Lit
/-- the cell value a constant broadcasts to (`None` and `nan` are null; ±inf are outside the modelled cells and
    are only used by C05's method tables, they map to null here) -/
def toVal : Lit → Val
  | .none => .null
  | .bool b => .bool b
  | .int i => .num i
  | .flt q => .num q
  | .nan | .inf | .ninf => .null
  | .str s => .str s

/-- Python `type(v)` as far as `Value` distinguishes payload types -/
inductive Ty | noneT | boolT | intT | floatT | strT
  deriving DecidableEq, Repr

def ty : Lit → Ty
  | .none => .noneT | .bool _ => .boolT | .int _ => .intT
  | .flt _ | .nan | .inf | .ninf => .floatT
  | .str _ => .strT
end Lit

namespace Val
def isNull : Val → Bool
  | .null => true
  | _ => false
end Val

end DAVerif
