import DAVerif.Expr.Lex
/-!
Model of `data_algebra.parse_by_lark._walk_lark_tree` (lark tree → `Term`) together with the `Term` builder methods
of `data_algebra.expr_rep` it calls through `getattr` (`__op_expr__`, `__uop_expr__`, `__triop_expr__`, `kop_expr`,
`Expression.__init__`, `Value.__neg__`, the named methods).

The code modelled is `/repo` **with** `fixes/c13-comparison-chain.diff` (a comparison chain `a < b <= c` is walked to
`(a < b) and (b <= c)`; before the fix it was the linear chain `(a < b) <= c`) and
`fixes/c13-single-element-list.diff` (a one-element list literal `[e]`, whose element lark inlines, is walked as the
element itself; before the fix the *children of the element* were walked, so `[True]` became the empty list).

Exceptions are the error classes; the first one raised (in Python's evaluation order) is the outcome.
`unmodelled` marks places where the code does something this model does not describe (calling a non-builder attribute
such as `x.is_equal(y)`, comparison dunders of `object` on a ListTerm, nested collections as dictionary values, number
spellings outside `Lex`); the generators stay away from them.

No imports beyond model files: part of the compiled driver.
-/
namespace DAVerif.Expr

inductive Err where
  | nameError | attributeError | valueError | typeError | keyError | assertionError | indexError | unmodelled
  deriving DecidableEq, Repr, Inhabited

namespace Err
def name : Err → String
  | nameError => "NameError" | attributeError => "AttributeError" | valueError => "ValueError"
  | typeError => "TypeError" | keyError => "KeyError" | assertionError => "AssertionError"
  | indexError => "IndexError" | unmodelled => "Unmodelled"
end Err

/-- shape of the body of a builder method of `expr_rep.Term` (regenerated from the source, `Generated/ExprTables.lean`)

* `uop op inline`                  `return self.__uop_expr__(op, inline=inline)`
* `bin op inline method check`     `return self.__op_expr__(op, other, inline=…, method=…, check_types=…)`
* `rbin op`                        `return self.__rop_expr__(op, other)`
* `tri op inline method`           `return self.__triop_expr__(op, x, y, inline=…, method=…)`
* `special name`                   a body with its own logic, modelled by name in `applySpecial`
* `unmodelled`                     a body of a shape the translator does not know -/
inductive MethodKind where
  | uop (op : String) (inline : Bool)
  | bin (op : String) (inline method check : Bool)
  | rbin (op : String)
  | tri (op : String) (inline method : Bool)
  | special (name : String)
  | unmodelled
  deriving DecidableEq, Repr, Inhabited

/-- what the walk depends on besides the tree: the columns in scope (`data_def`) and the tables read from the source -/
structure Env where
  cols : List String
  methods : List (String × MethodKind)
  otherTermAttrs : List String
  listAttrs : List String
  dictAttrs : List String
  valueNegFolds : Bool
  opRemap : List (String × String)
  factorRemap : List (String × String)
  knownOps : List String
  deriving Repr, Inhabited

abbrev R := Except Err

/-! ## `expr_rep` builders -/

/-- `_is_none_value` -/
def isNoneValue : Term → Bool
  | .value .none => true
  | _ => false

/-- `data_algebra.util.compatible_types` on the payload types of constants (NoneType is ignored, `{int, float}` is
compatible, otherwise at most one type) -/
def compatibleTys (ts : List Lit.Ty) : Bool :=
  let s := (ts.filter (· ≠ .noneT)).eraseDups
  s.length ≤ 1 || (s.length == 2 && s.contains .intT && s.contains .floatT)

/-- `_check_expr_incompatible_types`: only two constants can be "obviously" incompatible -/
def obviousTypeProblem : Term → Term → Bool
  | .value a, .value b => !compatibleTys [a.ty, b.ty]
  | _, _ => false

/-- `Expression.__init__`: KeyError unless `_can_find_method_by_name(op)`; ValueError for inline ∧ method -/
def mkExpr (env : Env) (op : String) (args : List Term) (inline method : Bool) : R Term :=
  if !env.knownOps.contains op then .error .keyError
  else if inline && method then .error .valueError
  else .ok (.app op args inline method)

/-- `Term.__op_expr__` -/
def opExpr (env : Env) (op : String) (self other : Term) (inline method check : Bool) : R Term :=
  if isNoneValue self || isNoneValue other then .error .assertionError
  else if check && obviousTypeProblem self other then .error .typeError
  else mkExpr env op [self, other] inline method

/-- `Term.__rop_expr__` -/
def ropExpr (env : Env) (op : String) (self other : Term) : R Term :=
  if isNoneValue self || isNoneValue other then .error .assertionError
  else if obviousTypeProblem self other then .error .typeError
  else mkExpr env op [other, self] true false

/-- `Term.__uop_expr__` -/
def uopExpr (env : Env) (op : String) (self : Term) (inline : Bool) : R Term :=
  if isNoneValue self then .error .assertionError
  else mkExpr env op [self] inline (!inline)

/-- `Term.__triop_expr__` -/
def triopExpr (env : Env) (op : String) (self x y : Term) (inline method : Bool) : R Term :=
  if isNoneValue self then .error .assertionError
  else mkExpr env op [self, x, y] inline method

/-- `kop_expr` (no checks besides `Expression.__init__`) -/
def kopExpr (env : Env) (op : String) (args : List Term) : R Term := mkExpr env op args true false

/-- Python's unary minus on a constant payload (`Value.__neg__`: `Value(-self.value)`) -/
def negLit : Lit → R Lit
  | .bool b => .ok (.int (if b then -1 else 0))
  | .int i => .ok (.int (-i))
  | .flt q => .ok (.flt (-q))
  | .nan => .ok .nan
  | .inf => .ok .ninf
  | .ninf => .ok .inf
  | .none => .error .typeError
  | .str _ => .error .typeError

def isValue : Term → Bool
  | .value _ => true
  | _ => false

/-- the result of `getattr(receiver, name)` as far as it is modelled: a builder bound to the receiver -/
inductive Bound where
  | builder (k : MethodKind)
  | valueNeg                               -- `Value.__neg__`
  deriving Repr

/-- `getattr(recv, name)`.  ListTerm/DictTerm are not `Term`s: none of their attributes is a builder. -/
def getMethod (env : Env) (recv : Term) (name : String) : R Bound :=
  match recv with
  | .list _ => if env.listAttrs.contains name then .error .unmodelled else .error .attributeError
  | .dict _ => if env.dictAttrs.contains name then .error .unmodelled else .error .attributeError
  | _ =>
    if name == "__neg__" && isValue recv && env.valueNegFolds then .ok .valueNeg
    else match env.methods.lookup name with
      | some k => .ok (.builder k)
      | none => if env.otherTermAttrs.contains name then .error .unmodelled else .error .attributeError

/-- `shift`: periods must be an int constant (bool passes `isinstance(…, int)`), not 0 -/
def shiftWith (env : Env) (self p : Term) : R Term :=
  match p with
  | .value (.int 0) => .error .valueError
  | .value (.bool false) => .error .valueError            -- `False == 0`
  | .value (.int _) => opExpr env "shift" self p false true true
  | .value (.bool _) => opExpr env "shift" self p false true true
  | _ => .error .assertionError
def mapvWith (env : Env) (self m d : Term) : R Term :=
  match m with
  | .dict _ => if !isValue d then .error .assertionError else triopExpr env "mapv" self m d false true
  | _ => .error .assertionError

/-- bodies with their own logic: `__pos__`, `shift`, `around`, `mapv`, `trimstr`, `coalesce_0`,
`parse_datetime`, `parse_date`, `format_datetime`, `format_date` -/
def applySpecial (env : Env) (name : String) (self : Term) (args : List Term) : R Term :=
  match name, args with
  | "__pos__", [] => .ok self
  | "shift", [] => shiftWith env self (.value (.int 1))
  | "shift", [p] => shiftWith env self p
  | "around", [o] =>
    if !isValue o then .error .assertionError else opExpr env "around" self o false false true
  | "mapv", [m] => mapvWith env self m (.value .none)
  | "mapv", [m, d] => mapvWith env self m d
  | "trimstr", [a, b] =>
    if !isValue a || !isValue b then .error .assertionError else triopExpr env "trimstr" self a b false true
  | "coalesce_0", [] =>
    -- `return self.coalesce(Value(0))`
    match env.methods.lookup "coalesce" with
    | some (.bin op i m c) => opExpr env op self (.value (.int 0)) i m c
    | _ => .error .unmodelled
  | "parse_datetime", [] => opExpr env "parse_datetime" self (.value (.str "%Y-%m-%d %H:%M:%S")) false true false
  | "parse_datetime", [f] =>
    if !isValue f then .error .assertionError else opExpr env "parse_datetime" self f false true false
  | "format_datetime", [] => opExpr env "format_datetime" self (.value (.str "%Y-%m-%d %H:%M:%S")) false true false
  | "format_datetime", [f] =>
    if !isValue f then .error .assertionError else opExpr env "format_datetime" self f false true false
  | "parse_date", [] => opExpr env "parse_date" self (.value (.str "%Y-%m-%d")) false true false
  | "parse_date", [f] => opExpr env "parse_date" self f false true false
  | "format_date", [] => opExpr env "format_date" self (.value (.str "%Y-%m-%d")) false true false
  | "format_date", [f] => opExpr env "format_date" self f false true false
  | n, _ =>
    if ["__pos__", "shift", "around", "mapv", "trimstr", "coalesce_0", "parse_datetime", "parse_date",
        "format_datetime", "format_date"].contains n then .error .typeError   -- wrong number of arguments
    else .error .unmodelled

/-- calling a bound builder with the walked arguments (a wrong argument count is Python's TypeError) -/
def applyBound (env : Env) (b : Bound) (self : Term) (args : List Term) : R Term :=
  match b with
  | .valueNeg =>
    match self, args with
    | .value v, [] => (negLit v).map .value
    | _, [] => .error .unmodelled
    | _, _ => .error .typeError
  | .builder k =>
    match k, args with
    | .uop op inline, [] => uopExpr env op self inline
    | .uop _ _, _ => .error .typeError
    | .bin op i m c, [o] => opExpr env op self o i m c
    | .bin _ _ _ _, _ => .error .typeError
    | .rbin op, [o] => ropExpr env op self o
    | .rbin _, _ => .error .typeError
    | .tri op i m, [x, y] => triopExpr env op self x y i m
    | .tri _ _ _, _ => .error .typeError
    | .special n, _ => applySpecial env n self args
    | .unmodelled, _ => .error .unmodelled

/-- `getattr(recv, name)(*args)` with the arguments already walked -/
def callMethod (env : Env) (recv : Term) (name : String) (args : List Term) : R Term := do
  let b ← getMethod env recv name
  applyBound env b recv args

def remap (tbl : List (String × String)) (s : String) : String := (tbl.lookup s).getD s

/-! ## collections -/

/-- items of `[…]`, `(…,)`, `{…}`: all must be constants, none `None`, of compatible types (three `assert`s) -/
def valueLit? : Term → Option Lit
  | .value l => some l
  | _ => none

def mkList (vs : List Term) : R Term :=
  let lits := vs.filterMap valueLit?
  if lits.length ≠ vs.length then .error .assertionError
  else if lits.any (· == .none) then .error .assertionError
  else if !compatibleTys (lits.map Lit.ty) then .error .assertionError
  else .ok (.list lits)

/-- Python `dict.__setitem__` on payload keys: an equal key (`1 == 1.0 == True`) keeps its first spelling and position -/
def dictInsert (d : List (Lit × Lit)) (k v : Lit) : List (Lit × Lit) :=
  if d.any (fun kv => Term.pyEqLit kv.1 k) then d.map (fun kv => if Term.pyEqLit kv.1 k then (kv.1, v) else kv)
  else d ++ [(k, v)]

/-- the `dict` rule: merge the one-entry DictTerms of the `key_value` children -/
def dictEntries : Term → R (List (Lit × Lit))
  | .dict kvs => .ok kvs
  | _ => .error .attributeError                                -- `s.value.items()`

def mkDict (parts : List Term) : R Term := do
  let kvss ← parts.mapM dictEntries
  let kvs := kvss.flatten
  if kvs.any (·.1 == .none) then .error .assertionError
  else
    let comb := kvs.foldl (fun d kv => dictInsert d kv.1 kv.2) []
    if !compatibleTys (comb.map (·.1.ty)) then .error .typeError
    else if !compatibleTys (comb.map (·.2.ty)) then .error .typeError
    else .ok (.dict comb)

/-- the `key_value` rule: `DictTerm({k.value: v.value})` -/
def mkKeyValue (k v : Term) : R Term :=
  match k, v with
  | .value a, .value b => .ok (.dict [(a, b)])
  | .value _, .list _ => .error .unmodelled                    -- a list / dict as dictionary value is kept by the code
  | .value _, .dict _ => .error .unmodelled
  | .value _, _ => .error .attributeError
  | .list _, .value _ => .error .typeError                     -- unhashable key
  | .list _, .list _ => .error .typeError
  | .list _, .dict _ => .error .typeError
  | .dict _, .value _ => .error .typeError
  | .dict _, .list _ => .error .typeError
  | .dict _, .dict _ => .error .typeError
  | _, _ => .error .attributeError

/-! ## the walk -/

/-- `str(child)` for an operator position -/
def opText : Cst → Option String
  | .tok t => some t.text
  | _ => none

/-- the operator texts of `(op v)*` (positions 0, 2, … of the list after the first operand); `none` when a position
does not hold a token or the list has odd length -/
def opTexts : List Cst → Option (List String)
  | [] => some []
  | o :: _ :: rest =>
    match opText o, opTexts rest with
    | some s, some ss => some (s :: ss)
    | _, _ => none
  | [_] => none

/-- `len(set(ops_seen)) == 1` -/
def allSame : List String → Bool
  | [] => false
  | o :: os => os.all (· == o)

def walkTok (env : Env) (t : Token) : R Term :=
  match t.kind with
  | .dec => match decodeDec t.text with
    | some n => .ok (.value (.int n))
    | none => .error .unmodelled
  | .float => match decodeFloat t.text with
    | some q => .ok (.value (.flt q))
    | none => .error .unmodelled
  | .string => match decodeStr t.text with
    | some s => .ok (.value (.str s))
    | none => .error .unmodelled
  | .name => if env.cols.contains t.text then .ok (.col t.text) else .error .nameError
  | .op => .error .valueError
  | .other => .error .valueError
  | .lstring => .error .valueError

/-- the pairwise comparisons of a chain: `getattr(operands[i], op_i)(operands[i+1])` -/
def chainComparisons (env : Env) : List Term → List String → R (List Term)
  | a :: b :: rest, o :: os => do
    let c ← callMethod env a (remap env.opRemap o) [b]
    let cs ← chainComparisons env (b :: rest) os
    return c :: cs
  | _, _ => .ok []

/-- the rule names `_walk_lark_tree` tells apart (`r_op.data == …` / `in […]`), in the order it tests them -/
inductive RuleKind where
  | constTrue | constFalse | constNone
  | wrapper                      -- single_input, number, string, var: walk the first child
  | arith | term | comparison    -- `v (op v)+`
  | power | bitwise              -- power; expr / and_expr / xor_expr (`| & ^`, refused)
  | factor | funccall
  | orTest | andTest             -- or_test(_sym), and_test(_sym)
  | not
  | collection                   -- list, tuple, set
  | dict | keyValue
  | other                        -- expr_stmt and everything else: ValueError
  deriving DecidableEq, Repr

def classify (rule : String) : RuleKind :=
  if rule == "const_true" then .constTrue
  else if rule == "const_false" then .constFalse
  else if rule == "const_none" then .constNone
  else if rule == "single_input" || rule == "number" || rule == "string" || rule == "var" then .wrapper
  else if rule == "arith_expr" then .arith
  else if rule == "term" then .term
  else if rule == "comparison" then .comparison
  else if rule == "power" then .power
  else if rule == "expr" || rule == "and_expr" || rule == "xor_expr" then .bitwise
  else if rule == "factor" then .factor
  else if rule == "funccall" then .funccall
  else if rule == "or_test" || rule == "or_test_sym" then .orTest
  else if rule == "and_test" || rule == "and_test_sym" then .andTest
  else if rule == "not" then .not
  else if rule == "list" || rule == "tuple" || rule == "set" then .collection
  else if rule == "dict" then .dict
  else if rule == "key_value" then .keyValue
  else .other

/-- which of the three readings of `v (op v)+` the walker takes -/
inductive LevelMode where
  | kary (op : String)           -- arith_expr / term whose operators are all `+` or all `*`: one k-ary Expression
  | cmpChain                     -- comparison with two or more operators: conjunction of the pairwise comparisons
  | linear                       -- everything else: left-to-right chain through `op_remap`
  deriving DecidableEq, Repr

def levelMode (kind : RuleKind) (ops : List String) : LevelMode :=
  if allSame ops && (kind == .arith || kind == .term)
      && (ops.head? == some "+" || ops.head? == some "*") then .kary (ops.headD "")
  else if kind == .comparison && ops.length ≥ 2 then .cmpChain          -- `nc > 3`
  else .linear

mutual
def walk (env : Env) : Cst → R Term
  | .tok t => walkTok env t
  | .none => .error .valueError
  | .node rule ch =>
    match classify rule with
    | .constTrue => .ok (.value (.bool true))
    | .constFalse => .ok (.value (.bool false))
    | .constNone => .ok (.value .none)
    | .wrapper =>
      match ch with
      | c :: _ => walk env c
      | [] => .error .indexError
    | .arith => walkLevel env .arith ch
    | .term => walkLevel env .term ch
    | .comparison => walkLevel env .comparison ch
    | .bitwise => .error .valueError                              -- `| & ^` are refused (also: fewer than 2 children)
    | .power =>
      if ch.length < 2 then .error .valueError
      else do
        let subs ← walkAll env ch
        match subs with
        | s :: rest => rest.foldlM (fun res x => callMethod env res "__pow__" [x]) s
        | [] => .error .valueError
    | .factor =>
      match ch with
      | [o, c] =>
        match opText o with
        | some s => do
          let right ← walk env c
          callMethod env right (remap env.factorRemap s) []
        | Option.none => .error .unmodelled
      | _ => .error .valueError
    | .funccall =>
      match ch with
      | [] => .error .indexError
      | carrier :: more =>
        if more.length > 1 then .error .valueError
        else
          match carrier with
          | .node crule cch =>
            if crule == "getattr" then
              match cch with
              | [recv, nm] => do
                let var ← walk env recv
                match opText nm with
                | some name => do
                  let args ← walkArgs env more
                  callMethod env var name args
                | Option.none => .error .unmodelled
              | _ => .error .unmodelled
            else
              match cch with
              | [] => .error .indexError
              | .tok t :: _ => do
                let args ← walkArgs env more
                mkExpr env t.text args false false
              | _ :: _ => do                               -- `str(Tree)` is never a known op name
                let _ ← walkArgs env more
                .error .keyError
          | .tok t => do
            let args ← walkArgs env more
            mkExpr env t.text args false false
          | .none => .error .valueError
    | .orTest =>
      if ch.length < 2 then .error .valueError
      else do
        let children ← walkAll env ch
        kopExpr env "or" children
    | .andTest =>
      if ch.length < 2 then .error .valueError
      else do
        let children ← walkAll env ch
        kopExpr env "and" children
    | .not =>
      match ch with
      | [c] => do
        let left ← walk env c
        callMethod env left "__eq__" [.value (.bool false)]
      | _ => .error .valueError
    | .collection =>
      match ch with
      | [c@(.node r2 items)] =>
        if r2 == "tuplelist_comp" || r2 == "set_comp" then do
          let vs ← walkAll env items
          mkList vs
        else do
          let v ← walk env c
          mkList [v]
      | [c] => do
        let v ← walk env c
        mkList [v]
      | _ => .error .assertionError
    | .dict =>
      match ch with
      | [.node _ items] => do
        let parts ← walkAll env items
        mkDict parts
      | [_] => .error .attributeError
      | _ => .error .assertionError
    | .keyValue =>
      match ch with
      | [k, v] => do
        let kt ← walk env k
        let vt ← walk env v
        mkKeyValue kt vt
      | _ => .error .assertionError
    | .other => .error .valueError
/-- `arith_expr | term | comparison`: `v (op v)+` (an odd number of children, at least 3) -/
def walkLevel (env : Env) (kind : RuleKind) : List Cst → R Term
  | [] => .error .valueError
  | c :: rest =>
    if rest.length < 2 || rest.length % 2 ≠ 0 then .error .valueError
    else
      match opTexts rest with
      | Option.none => .error .unmodelled
      | some ops =>
        match levelMode kind ops with
        | .kary op => do
          let first ← walk env c
          let others ← walkOdd env rest
          kopExpr env op (first :: others)
        | .cmpChain => do
          let first ← walk env c
          let others ← walkOdd env rest
          let comps ← chainComparisons env (first :: others) ops
          kopExpr env "and" comps
        | .linear => do
          let res ← walk env c
          walkChain env res rest
/-- every child, left to right -/
def walkAll (env : Env) : List Cst → R (List Term)
  | [] => .ok []
  | c :: cs => do
    let t ← walk env c
    let ts ← walkAll env cs
    return t :: ts
/-- the arguments of a call: `r_op.children[1].children` when there is a second, non-None child -/
def walkArgs (env : Env) : List Cst → R (List Term)
  | [.node _ a] => walkAll env a
  | [.tok _] => .error .unmodelled
  | _ => .ok []
/-- the operands of `(op v)*`: the children at positions 1, 3, … -/
def walkOdd (env : Env) : List Cst → R (List Term)
  | _ :: c :: cs => do
    let t ← walk env c
    let ts ← walkOdd env cs
    return t :: ts
  | _ => .ok []
/-- the linear chain: `res = getattr(res, op_remap[op])(walk(next))` – the attribute is looked up before the operand
is walked -/
def walkChain (env : Env) (res : Term) : List Cst → R Term
  | o :: c :: rest =>
    match opText o with
    | some s => do
      let b ← getMethod env res (remap env.opRemap s)
      let arg ← walk env c
      let res' ← applyBound env b res [arg]
      walkChain env res' rest
    | none => .error .unmodelled
  | _ => .ok res
end

/-- `parse_by_lark` after parsing: walk, then `assert isinstance(v, Term)` (ListTerm / DictTerm are not Terms) -/
def walkTop (env : Env) (c : Cst) : R Term := do
  let t ← walk env c
  match t with
  | .list _ => .error .assertionError
  | .dict _ => .error .assertionError
  | t => .ok t

end DAVerif.Expr
