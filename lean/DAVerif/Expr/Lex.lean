import DAVerif.Expr.Cst
/-!
Spelling of literals: Python's `repr` of the constants a `Value` can hold, and the reading of number / string
tokens that `_walk_lark_tree` does (`int(tok)`, `float(tok)`, `ast.literal_eval(tok)`).

Scope (stated, and enforced by `Option`/`Except` results — outside it the functions answer `none`):
* ints: decimal digits (`int` also accepts `_` separators: not modelled).
* floats: finite values; the *reading* is exact decimal → rational, which is Python's `float(text)` only when the
  decimal is exactly representable in binary64 (dyadic); the *printing* is the exact decimal expansion, which is
  Python's shortest-round-trip `repr` for dyadic values of at most 15 significant digits.  `-0.0` is not represented.
* strings: characters U+0020..U+007E plus `\n`, `\t`, `\r`; reading understands the escapes `\\ \' \" \n \t \r`
  in `'…'` / `"…"` literals without prefix.

No imports beyond model files: part of the compiled driver.
-/
namespace DAVerif.Expr

/-! ## ints -/

def reprInt (i : Int) : String := toString i

def isDigit (c : Char) : Bool := c.isDigit

def digitsToNat (cs : List Char) : Nat := cs.foldl (fun n c => 10 * n + (c.toNat - '0'.toNat)) 0

/-- `int(text)` for a DEC_NUMBER token -/
def decodeDec (s : String) : Option Nat :=
  let cs := s.toList
  if cs ≠ [] && cs.all isDigit then some (digitsToNat cs) else none

/-! ## floats -/

/-- decimal digits of the fractional part `r` (`0 ≤ r < 1`); stops when the remainder is 0 (dyadic values end) -/
def fracDigits : Nat → Rat → List Char
  | 0, _ => []
  | fuel + 1, r =>
    if r = 0 then [] else
    let x := r * 10
    let d := x.floor.toNat
    Char.ofNat ('0'.toNat + d) :: fracDigits fuel (x - d)

/-- number of decimal digits of the integer part minus 1, for `n ≥ 1` -/
def natDigits (n : Nat) : List Char := (toString n).toList

def stripTrailingZeros (cs : List Char) : List Char := (cs.reverse.dropWhile (· == '0')).reverse

/-- decimal exponent `e` with `10^e ≤ q < 10^(e+1)` for `q > 0` (searches downward/upward from 0; fuel bounds it) -/
def decExp (q : Rat) : Int :=
  if q ≥ 1 then
    ((natDigits q.floor.toNat).length : Int) - 1
  else
    -- count leading zeros of the fraction
    let rec go : Nat → Rat → Int → Int
      | 0, _, e => e
      | fuel + 1, r, e => if r ≥ 1 then e else go fuel (r * 10) (e - 1)
    go 400 q 0

/-- Python `repr(float)` for a finite value: positional for `1e-4 ≤ |q| < 1e16`, else scientific -/
def reprFloat (q : Rat) : String :=
  let neg := q < 0
  let a := if neg then -q else q
  let sign := if neg then "-" else ""
  if a = 0 then sign ++ "0.0" else
  let e := decExp a
  if e < -4 || e ≥ 16 then
    -- scientific: mantissa m = a / 10^e in [1,10)
    let m : Rat := if e ≥ 0 then a / ((10 : Rat) ^ e.toNat) else a * ((10 : Rat) ^ (-e).toNat)
    let ip := m.floor.toNat
    let fd := fracDigits 400 (m - ip)
    let mant := toString ip ++ (if fd.isEmpty then "" else "." ++ String.ofList fd)
    let ea := e.natAbs
    let es := (if ea < 10 then "0" else "") ++ toString ea
    sign ++ mant ++ "e" ++ (if e < 0 then "-" else "+") ++ es
  else
    let ip := a.floor.toNat
    let fd := fracDigits 400 (a - ip)
    sign ++ toString ip ++ "." ++ (if fd.isEmpty then "0" else String.ofList fd)

/-- `float(text)` for a FLOAT_NUMBER token, exact: `digits [. digits] [e [+-] digits]`, `. digits`, `digits .` -/
def decodeFloat (s : String) : Option Rat :=
  let cs := s.toList
  let ip := cs.takeWhile isDigit
  let r1 := cs.dropWhile isDigit
  let (fp, r2) := match r1 with
    | '.' :: t => (t.takeWhile isDigit, t.dropWhile isDigit)
    | _ => ([], r1)
  if ip.isEmpty && fp.isEmpty then none else
  let mant : Rat := (digitsToNat ip : Rat) + (digitsToNat fp : Rat) / ((10 : Rat) ^ fp.length)
  match r2 with
  | [] => some mant
  | c :: t =>
    if c == 'e' || c == 'E' then
      let (sg, ds) := match t with
        | '+' :: d => (false, d)
        | '-' :: d => (true, d)
        | d => (false, d)
      if ds ≠ [] && ds.all isDigit then
        let ex := digitsToNat ds
        some (if sg then mant / ((10 : Rat) ^ ex) else mant * ((10 : Rat) ^ ex))
      else none
    else none

/-! ## strings -/

def strCharOk (c : Char) : Bool := (' ' ≤ c && c ≤ '~') || c == '\n' || c == '\t' || c == '\r'

/-- body of `repr(str)` with quote character `q` -/
def pyReprStrBody (q : Char) : List Char → List Char
  | [] => []
  | c :: cs =>
    (if c == '\\' then ['\\', '\\']
     else if c == q then ['\\', q]
     else if c == '\n' then ['\\', 'n']
     else if c == '\t' then ['\\', 't']
     else if c == '\r' then ['\\', 'r']
     else [c]) ++ pyReprStrBody q cs

/-- Python `repr(str)`: single quotes, unless the string has a single quote and no double quote -/
def pyReprStr (s : String) : String :=
  let cs := s.toList
  let q := if cs.contains '\'' && !cs.contains '"' then '"' else '\''
  String.ofList (q :: pyReprStrBody q cs ++ [q])

/-- read the body of a string literal up to the closing quote `q`; `none` outside the modelled escapes -/
def decodeStrBody (q : Char) : List Char → Option (List Char)
  | [] => none
  | [c] => if c == q then some [] else none
  | '\\' :: e :: cs =>
    let rest := decodeStrBody q cs
    let put (x : Char) := rest.map (x :: ·)
    if e == '\\' then put '\\'
    else if e == '\'' then put '\''
    else if e == '"' then put '"'
    else if e == 'n' then put '\n'
    else if e == 't' then put '\t'
    else if e == 'r' then put '\r'
    else none
  | c :: cs => if c == q then none else (decodeStrBody q cs).map (c :: ·)

/-- `ast.literal_eval(text)` for a STRING token without prefix -/
def decodeStr (s : String) : Option String :=
  match s.toList with
  | q :: cs => if q == '\'' || q == '"' then (decodeStrBody q cs).map String.ofList else none
  | [] => none

/-- Python `repr` of a constant payload -/
def reprLit : Lit → String
  | .none => "None"
  | .bool true => "True"
  | .bool false => "False"
  | .int i => reprInt i
  | .flt q => reprFloat q
  | .nan => "nan"
  | .inf => "inf"
  | .ninf => "-inf"
  | .str s => pyReprStr s

end DAVerif.Expr
