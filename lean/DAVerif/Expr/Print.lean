import DAVerif.Expr.Lex
/-!
Model of `to_python(want_inline_parens)` of `expr_rep` (`Value`, `ColumnReference`, `ListTerm`, `DictTerm`,
`Expression`) including the `PythonText.is_in_parens` bookkeeping, as the code is after fix D6 (one-argument inline
operators and negative numeric constants are parenthesised when `want_inline_parens`).

The printer produces `Piece`s – tokens and the single spaces the code puts between them – so that both the exact
text (`printText`, compared with `str(term)`) and the token list lark's lexer sees (`printToks`, the input of `Parse`)
are read off one definition.

No imports beyond model files: part of the compiled driver.
-/
namespace DAVerif.Expr

inductive Piece where
  | t (tok : Token)
  | sp
  deriving DecidableEq, Repr, Inhabited

namespace Piece
def text : Piece → String
  | .t tok => tok.text
  | .sp => " "
def o (s : String) : Piece := .t (Token.op s)
end Piece

def piecesText (ps : List Piece) : String := String.join (ps.map Piece.text)
def piecesToks (ps : List Piece) : List Token := ps.filterMap fun | .t tok => some tok | .sp => none

/-- tokens of `repr(value)`: a negative number is a `-` followed by the number -/
def litPieces : Lit → List Piece
  | .none => [.o "None"]
  | .bool true => [.o "True"]
  | .bool false => [.o "False"]
  | .int i => if i < 0 then [.o "-", .t ⟨.dec, reprInt (-i)⟩] else [.t ⟨.dec, reprInt i⟩]
  | .flt q => if q < 0 then [.o "-", .t ⟨.float, reprFloat (-q)⟩] else [.t ⟨.float, reprFloat q⟩]
  | .nan => [.t (Token.nm "nan")]
  | .inf => [.t (Token.nm "inf")]
  | .ninf => [.o "-", .t (Token.nm "inf")]
  | .str s => [.t ⟨.string, pyReprStr s⟩]

/-- `isinstance(value, (int, float)) and not isinstance(value, bool) and value < 0` -/
def isNegNum : Lit → Bool
  | .int i => i < 0
  | .flt q => q < 0
  | .ninf => true
  | _ => false

/-- `", ".join(items)` -/
def commaJoin : List (List Piece) → List Piece
  | [] => []
  | [x] => x
  | x :: xs => x ++ [.o ",", .sp] ++ commaJoin xs

/-- `(" " + op + " ").join(items)` -/
def opJoin (op : String) : List (List Piece) → List Piece
  | [] => []
  | [x] => x
  | x :: xs => x ++ [.sp, .o op, .sp] ++ opJoin op xs

def isCol : Term → Bool
  | .col _ => true
  | _ => false

def parens (ps : List Piece) : List Piece := [.o "("] ++ ps ++ [.o ")"]

mutual
/-- `to_python(want_inline_parens=want)`: the text (as pieces) and `is_in_parens` -/
def pp : Term → Bool → List Piece × Bool
  | .value l, want =>
    if want && isNegNum l then (parens (litPieces l), true) else (litPieces l, false)
  | .col c, _ => ([.t (Token.nm c)], false)
  | .list vs, _ => ([.o "["] ++ commaJoin (vs.map litPieces) ++ [.o "]"], false)
  | .dict kvs, _ =>
    ([.o "{"] ++ commaJoin (kvs.map fun kv => litPieces kv.1 ++ [.o ":", .sp] ++ litPieces kv.2) ++ [.o "}"], false)
  | .app op args inline method, want =>
    match args with
    | [] => ([.t (Token.nm op), .o "(", .o ")"], false)
    | [a] =>
      let sub := pp a false
      if inline then
        let result := if sub.2 then [.o op] ++ sub.1 else [.o op] ++ parens sub.1
        if want then (parens result, true) else (result, false)
      else if method then
        if sub.2 || isCol a then (sub.1 ++ [.o ".", .t (Token.nm op), .o "(", .o ")"], false)
        else (parens sub.1 ++ [.o ".", .t (Token.nm op), .o "(", .o ")"], false)
      else ([.t (Token.nm op), .o "("] ++ sub.1 ++ [.o ")"], false)
    | a :: rest =>
      if inline then
        let result := opJoin op (ppArgs (a :: rest) true)
        if want then (parens result, true) else (result, false)
      else
        let s0 := pp a false
        let restPs := commaJoin (ppArgs rest false)
        if method then
          if s0.2 || isCol a then (s0.1 ++ [.o ".", .t (Token.nm op), .o "("] ++ restPs ++ [.o ")"], false)
          else (parens s0.1 ++ [.o ".", .t (Token.nm op), .o "("] ++ restPs ++ [.o ")"], false)
        else ([.t (Token.nm op), .o "("] ++ commaJoin (s0.1 :: ppArgs rest false) ++ [.o ")"], false)
/-- the texts of a list of arguments, each printed with the same `want` -/
def ppArgs : List Term → Bool → List (List Piece)
  | [], _ => []
  | a :: as, want => (pp a want).1 :: ppArgs as want
end

/-! structural equality of terms (every field, including `method`; `Term` itself does not derive `DecidableEq`) -/
mutual
def termBEq : Term → Term → Bool
  | .value a, .value b => a == b
  | .col a, .col b => a == b
  | .list a, .list b => a == b
  | .dict a, .dict b => a == b
  | .app o1 a1 i1 m1, .app o2 a2 i2 m2 => o1 == o2 && i1 == i2 && m1 == m2 && termsBEq a1 a2
  | _, _ => false
def termsBEq : List Term → List Term → Bool
  | [], [] => true
  | a :: as, b :: bs => termBEq a b && termsBEq as bs
  | _, _ => false
end

/-- `str(term)` -/
def printText (t : Term) : String := piecesText (pp t false).1
/-- the tokens of `str(term)` -/
def printToks (t : Term) : List Token := piecesToks (pp t false).1

end DAVerif.Expr
