import DAVerif.Expr.Cst
/-!
A parser for the fragment of `python3_lark.grammar` (start symbol `test`) that expression texts use, producing the
tree lark produces (rule names, `?rule` inlining, anonymous tokens filtered out, `!`-rule tokens kept, `None`
placeholders for absent `[…]` items).

Fragment: `or_test and_test not comparison expr xor_expr and_expr shift_expr arith_expr term factor power`,
calls and attribute access (`funccall`, `getattr`, `arguments` of plain positional arguments), atoms
(names, numbers, strings and adjacent strings, `None True False`, parenthesised tests, tuples, lists, sets, dicts).
Outside the fragment (`inFragment = false`, decided on the token list alone): conditional expressions, lambda, await,
yield, comprehensions, keyword / star arguments, star items, subscripts, assignment.

The parser is a recursive descent with *fuel* (every call spends one unit; `parseToks` supplies enough for any input,
see `Proofs/ExprParse.lean`); operator levels are numbered

  0 or_test · 1 and_test · 2 not · 3 comparison · 4 expr `|` · 5 xor_expr `^` · 6 and_expr `&` · 7 shift_expr ·
  8 arith_expr · 9 term · 10 factor · 11 power (atom_expr with trailers and an optional `** factor`)

No imports beyond model files: part of the compiled driver.
-/
namespace DAVerif.Expr

inductive PErr where
  | syntax | fuel | unsupported
  deriving DecidableEq, Repr, Inhabited

abbrev E := Except PErr

/-- rule name of a binary level -/
def binRule : Nat → Option String
  | 0 => some "or_test" | 1 => some "and_test" | 3 => some "comparison" | 4 => some "expr"
  | 5 => some "xor_expr" | 6 => some "and_expr" | 7 => some "shift_expr" | 8 => some "arith_expr"
  | 9 => some "term" | _ => none

/-- the level below a binary level -/
def nextLevel (n : Nat) : Nat := n + 1

def opIn (t : Token) (ops : List String) : Bool := t.kind == .op && ops.contains t.text

/-- the operator of level `lvl` at the head of the tokens: the tokens lark keeps in the tree, and the rest -/
def matchOp (lvl : Nat) (toks : List Token) : Option (List Cst × List Token) :=
  match toks with
  | [] => none
  | t :: rest =>
    match lvl with
    | 0 => if t.isOp "or" then some ([], rest) else none
    | 1 => if t.isOp "and" then some ([], rest) else none
    | 3 =>
      if opIn t ["<", ">", "==", ">=", "<=", "<>", "!=", "in"] then some ([.tok t], rest)
      else if t.isOp "not" then
        match rest with
        | u :: rest' => if u.isOp "in" then some ([.tok t, .tok u], rest') else none
        | [] => none
      else if t.isOp "is" then
        match rest with
        | u :: rest' => if u.isOp "not" then some ([.tok t, .tok u], rest') else some ([.tok t], rest)
        | [] => some ([.tok t], rest)
      else none
    | 4 => if t.isOp "|" then some ([], rest) else none
    | 5 => if t.isOp "^" then some ([], rest) else none
    | 6 => if t.isOp "&" then some ([], rest) else none
    | 7 => if opIn t ["<<", ">>"] then some ([.tok t], rest) else none
    | 8 => if opIn t ["+", "-"] then some ([.tok t], rest) else none
    | 9 => if opIn t ["*", "/", "%+%", "%?%", "%", "//", "%/%"] then some ([.tok t], rest) else none
    | _ => none

def isCloser (t : Token) : Bool := opIn t [")", "]", "}"]

def isStringTok (t : Token) : Bool := t.kind == .string || t.kind == .lstring

/-- `expect ")"` -/
def expect (s : String) : List Token → Except PErr (List Token)
  | t :: rest => if t.isOp s then .ok rest else .error .syntax
  | [] => .error .syntax

mutual
/-- parse one phrase of level `lvl` -/
def pLevel : Nat → Nat → List Token → E (Cst × List Token)
  | 0, _, _ => .error .fuel
  | fuel + 1, lvl, toks =>
    if lvl == 2 then
      match toks with
      | t :: rest =>
        if t.isOp "not" then do
          let (x, r) ← pLevel fuel 2 rest
          return (.node "not" [x], r)
        else pLevel fuel 3 toks
      | [] => .error .syntax
    else if lvl == 10 then
      match toks with
      | t :: rest =>
        if opIn t ["+", "-", "~"] then do
          let (x, r) ← pLevel fuel 10 rest
          return (.node "factor" [.tok t, x], r)
        else pLevel fuel 11 toks
      | [] => .error .syntax
    else if lvl == 11 then do
      let (a0, r0) ← pAtom fuel toks
      let (a, r) ← pTrailers fuel a0 r0
      match r with
      | t :: r' =>
        if t.isOp "**" then do
          let (b, r2) ← pLevel fuel 10 r'
          return (.node "power" [a, b], r2)
        else return (a, r)
      | [] => return (a, r)
    else
      match binRule lvl with
      | some rule => do
        let (first, r) ← pLevel fuel (lvl + 1) toks
        let (chs, r') ← pLoop fuel lvl [first] r
        if chs.length == 1 then return (first, r') else return (.node rule chs, r')
      | none => .error .syntax
/-- `(op operand)*` of a binary level; `acc` are the children so far -/
def pLoop : Nat → Nat → List Cst → List Token → E (List Cst × List Token)
  | 0, _, _, _ => .error .fuel
  | fuel + 1, lvl, acc, toks =>
    match matchOp lvl toks with
    | some (opc, rest) => do
      let (x, r) ← pLevel fuel (lvl + 1) rest
      pLoop fuel lvl (acc ++ opc ++ [x]) r
    | none => .ok (acc, toks)
/-- trailers of an atom_expr: calls and attribute access -/
def pTrailers : Nat → Cst → List Token → E (Cst × List Token)
  | 0, _, _ => .error .fuel
  | fuel + 1, a, toks =>
    match toks with
    | t :: rest =>
      if t.isOp "(" then
        match rest with
        | u :: rest' =>
          if u.isOp ")" then pTrailers fuel (.node "funccall" [a, .none]) rest'
          else do
            let (items, trailing, r) ← pItems fuel rest
            let r' ← expect ")" r
            pTrailers fuel (.node "funccall" [a, .node "arguments" (items ++ (if trailing then [.none] else []))]) r'
        | [] => .error .syntax
      else if t.isOp "." then
        match rest with
        | n :: rest' =>
          if n.kind == .name then pTrailers fuel (.node "getattr" [a, .tok n]) rest' else .error .syntax
        | [] => .error .syntax
      else if t.isOp "[" then .error .unsupported
      else .ok (a, toks)
    | [] => .ok (a, toks)
/-- `test ("," test)* [","]` up to (not including) a closing bracket; the Bool says whether a trailing comma was seen -/
def pItems : Nat → List Token → E (List Cst × Bool × List Token)
  | 0, _ => .error .fuel
  | fuel + 1, toks => do
    let (x, r) ← pLevel fuel 0 toks
    match r with
    | t :: r' =>
      if t.isOp "," then
        match r' with
        | u :: _ =>
          if isCloser u then return ([x], true, r')
          else do
            let (xs, tr, r'') ← pItems fuel r'
            return (x :: xs, tr, r'')
        | [] => .error .syntax
      else return ([x], false, r)
    | [] => return ([x], false, r)
/-- `key_value ("," key_value)* [","]` up to a closing bracket -/
def pKVs : Nat → List Token → E (List Cst × List Token)
  | 0, _ => .error .fuel
  | fuel + 1, toks => do
    let (k, r) ← pLevel fuel 0 toks
    let r1 ← expect ":" r
    let (v, r2) ← pLevel fuel 0 r1
    let kv := Cst.node "key_value" [k, v]
    match r2 with
    | t :: r3 =>
      if t.isOp "," then
        match r3 with
        | u :: _ =>
          if isCloser u then return ([kv], r3)
          else do
            let (kvs, r4) ← pKVs fuel r3
            return (kv :: kvs, r4)
        | [] => .error .syntax
      else return ([kv], r2)
    | [] => return ([kv], r2)
def pAtom : Nat → List Token → E (Cst × List Token)
  | 0, _ => .error .fuel
  | fuel + 1, toks =>
    match toks with
    | [] => .error .syntax
    | t :: rest =>
      match t.kind with
      | .name => .ok (.node "var" [.tok t], rest)
      | .dec => .ok (.node "number" [.tok t], rest)
      | .float => .ok (.node "number" [.tok t], rest)
      | .other => .ok (.node "number" [.tok t], rest)
      | .string | .lstring =>
        let more := rest.takeWhile isStringTok
        let rest' := rest.dropWhile isStringTok
        if more.isEmpty then .ok (.node "string" [.tok t], rest')
        else .ok (.node "atom" ((t :: more).map fun s => .node "string" [.tok s]), rest')
      | .op =>
        if t.text == "None" then .ok (.node "const_none" [], rest)
        else if t.text == "True" then .ok (.node "const_true" [], rest)
        else if t.text == "False" then .ok (.node "const_false" [], rest)
        else if t.text == "(" then
          match rest with
          | u :: rest' =>
            if u.isOp ")" then .ok (.node "tuple" [.none], rest')
            else do
              let (items, trailing, r) ← pItems fuel rest
              let r' ← expect ")" r
              match items, trailing with
              | [x], false => return (x, r')
              | _, _ => return (.node "tuple" [.node "tuplelist_comp" items], r')
          | [] => .error .syntax
        else if t.text == "[" then
          match rest with
          | u :: rest' =>
            if u.isOp "]" then .ok (.node "list" [.none], rest')
            else do
              let (items, trailing, r) ← pItems fuel rest
              let r' ← expect "]" r
              match items, trailing with
              | [x], false => return (.node "list" [x], r')
              | _, _ => return (.node "list" [.node "tuplelist_comp" items], r')
          | [] => .error .syntax
        else if t.text == "{" then
          match rest with
          | u :: rest' =>
            if u.isOp "}" then .ok (.node "dict" [.none], rest')
            else do
              -- a first test decides between a set and a dict
              let (_, r) ← pLevel fuel 0 rest
              match r with
              | c :: _ =>
                if c.isOp ":" then do
                  let (kvs, r1) ← pKVs fuel rest
                  let r2 ← expect "}" r1
                  return (.node "dict" [.node "dict_comp" kvs], r2)
                else do
                  let (items, _, r1) ← pItems fuel rest
                  let r2 ← expect "}" r1
                  return (.node "set" [.node "set_comp" items], r2)
              | [] => .error .syntax
          | [] => .error .syntax
        else .error .syntax
end

/-! ## the fragment, decided on tokens -/

def supportedOps : List String :=
  ["or", "and", "not", "in", "is", "<", ">", "==", ">=", "<=", "<>", "!=", "|", "^", "&", "<<", ">>", "+", "-", "*", "/",
   "%+%", "%?%", "%", "//", "%/%", "~", "**", "(", ")", "[", "]", "{", "}", ",", ".", ":", "None", "True", "False"]

/-- a token after which `[` is a subscript and `(` a call -/
def endsAtom (t : Token) : Bool :=
  match t.kind with
  | .op => opIn t [")", "]", "}", "None", "True", "False"]
  | _ => true

/-- scan with the previous token: star items (`*x`, `**x` where an item starts) and subscripts are outside -/
def scanFragment : Option Token → List Token → Bool
  | _, [] => true
  | prev, t :: rest =>
    (t.kind != .op || supportedOps.contains t.text) &&
    (!(opIn t ["*", "**"]) || match prev with
      | none => false
      | some p => !(opIn p ["(", ",", "[", "{", ":"])) &&
    (!(t.isOp "[") || match prev with
      | none => true
      | some p => !endsAtom p) &&
    scanFragment (some t) rest

def inFragment (toks : List Token) : Bool := scanFragment none toks

/-- fuel that is enough for every token list: each token can be reached through at most 13 levels, plus loops -/
def fuelFor (toks : List Token) : Nat := 16 * (toks.length + 1)

/-- the parser proper -/
def parseCore (toks : List Token) : Except PErr Cst :=
  match pLevel (fuelFor toks) 0 toks with
  | .ok (c, []) => .ok c
  | .ok (_, _ :: _) => .error .syntax
  | .error e => .error e

/-- text (as tokens) → lark tree.  A token list outside the fragment is never parsed by `parseCore` (it stops at the
first token it does not know); its outcome is reported as `unsupported` whatever lark does with it. -/
def parseToks (toks : List Token) : Except PErr Cst :=
  match parseCore toks with
  | .ok c => .ok c
  | .error e => if !inFragment toks then .error .unsupported else .error e

end DAVerif.Expr
