import DAVerif.Core.Val
/-
Expression trees: model of `data_algebra.expr_rep` (`Value`, `ColumnReference`, `ListTerm`, `DictTerm`,
`Expression`).  `Expression.params` is always `None` in the modelled fragment and is not represented.

No imports beyond model files: part of the compiled driver.
-/
namespace DAVerif

inductive Term where
  | value (v : Lit)
  | col (c : String)
  | list (vs : List Lit)                  -- ListTerm of Values (what the parser builds)
  | dict (kvs : List (Lit × Lit))         -- DictTerm
  | app (op : String) (args : List Term) (inline : Bool) (method : Bool)
  deriving Repr, Inhabited

namespace Term

/-! `get_column_names`: the code adds to a `set`; the model keeps first-occurrence order (depth first, left to
right) and callers treat the result as a set. -/
mutual
def colsRaw : Term → List String
  | .value _ => []
  | .col c => [c]
  | .list _ => []
  | .dict _ => []
  | .app _ args _ _ => colsRawList args
def colsRawList : List Term → List String
  | [] => []
  | t :: ts => colsRaw t ++ colsRawList ts
end

def colsUsed (t : Term) : List String := (colsRaw t).eraseDups

/-- `Value.is_equal` after fix D9: same payload type and equal payload (nan equals nan). -/
def litEq (a b : Lit) : Bool := decide (a = b)

/-- `is_equal`: `Expression.is_equal` compares op, inline, (params), number of args and args pairwise – it
ignores `method`; `ListTerm`/`DictTerm` compare payloads with `==` (Python `==` on lists of plain values:
`1 == 1.0 == True` there – modelled by `pyEqLit`). -/
def pyEqLit : Lit → Lit → Bool
  | .none, .none => true
  | .str a, .str b => a == b
  | .nan, _ | _, .nan => false
  | .inf, .inf | .ninf, .ninf => true
  | a, b =>
    let num : Lit → Option Rat := fun
      | .bool b => some (if b then 1 else 0)
      | .int i => some i
      | .flt q => some q
      | _ => none
    match num a, num b with
    | some x, some y => x == y
    | _, _ => false

def pyEqLits : List Lit → List Lit → Bool
  | [], [] => true
  | a :: as, b :: bs => pyEqLit a b && pyEqLits as bs
  | _, _ => false

mutual
def isEqual : Term → Term → Bool
  | .value a, .value b => litEq a b
  | .col a, .col b => a == b
  -- after fixes f0db6ca / 8df6c90: element-wise, ordered, by type and value
  | .list a, .list b => a.length == b.length && (a.zip b).all (fun ab => litEq ab.1 ab.2)
  | .dict a, .dict b => a.length == b.length &&
      (a.zip b).all (fun ab => litEq ab.1.1 ab.2.1 && litEq ab.1.2 ab.2.2)
  | .app o1 a1 i1 _, .app o2 a2 i2 _ => o1 == o2 && i1 == i2 && isEqualList a1 a2
  | _, _ => false
def isEqualList : List Term → List Term → Bool
  | [], [] => true
  | a :: as, b :: bs => isEqual a b && isEqualList as bs
  | _, _ => false
end

/-- `get_method_names`: only the outermost `Expression` adds its op (the method is not recursive in the code). -/
def methodNames : Term → List String
  | .app op _ _ _ => [op]
  | _ => []

/-- columns used by a dictionary of assignments (`get_columns_used`) -/
def colsUsedOps (ops : List (String × Term)) : List String :=
  (ops.flatMap (fun kv => colsRaw kv.2)).eraseDups

end Term
end DAVerif
