import DAVerif.Expr.Print
import DAVerif.Expr.Parse
import DAVerif.Expr.Walk
/-!
Definitions for the print → parse → walk round trip (C13 / expression part of C12):

* `tk t want`  – the tokens of `to_python(want_inline_parens=want)` written directly (proved equal to
                 `piecesToks (pp t want).1` in `Proofs/ExprPrint.lean`);
* `cst t`      – the lark tree the printed text of `t` parses to (parentheses leave no trace in the tree);
* `wf env t`   – *well-formed* terms: the terms for which re-running the builder that the printed form invokes gives back
                 the node itself (decidable: it runs the builders of `Walk.lean`), with literals whose spelling
                 re-reads to themselves, known columns, non-empty collections.  Every term the walker produces from a
                 text without dunder method names is well-formed (`C13_walk_wf`).

No imports beyond model files: part of the compiled driver (the driver evaluates `wf` on every round-trip case).
-/
namespace DAVerif.Expr

def o (s : String) : Token := Token.op s

/-- tokens of `repr(literal)` -/
def litToks : Lit → List Token
  | .none => [o "None"]
  | .bool true => [o "True"]
  | .bool false => [o "False"]
  | .int i => if i < 0 then [o "-", ⟨.dec, reprInt (-i)⟩] else [⟨.dec, reprInt i⟩]
  | .flt q => if q < 0 then [o "-", ⟨.float, reprFloat (-q)⟩] else [⟨.float, reprFloat q⟩]
  | .nan => [Token.nm "nan"]
  | .inf => [Token.nm "inf"]
  | .ninf => [o "-", Token.nm "inf"]
  | .str s => [⟨.string, pyReprStr s⟩]

def commaToks : List (List Token) → List Token
  | [] => []
  | [x] => x
  | x :: xs => x ++ o "," :: commaToks xs

def opToks (op : String) : List (List Token) → List Token
  | [] => []
  | [x] => x
  | x :: xs => x ++ o op :: opToks op xs

def kvToks (kv : Lit × Lit) : List Token := litToks kv.1 ++ o ":" :: litToks kv.2

def parenToks (ts : List Token) : List Token := o "(" :: ts ++ [o ")"]

mutual
def tk : Term → Bool → List Token
  | .value l, want => if want && isNegNum l then parenToks (litToks l) else litToks l
  | .col c, _ => [Token.nm c]
  | .list vs, _ => o "[" :: commaToks (vs.map litToks) ++ [o "]"]
  | .dict kvs, _ => o "{" :: commaToks (kvs.map kvToks) ++ [o "}"]
  | .app op args inline method, want =>
    match args with
    | [] => [Token.nm op, o "(", o ")"]
    | [a] =>
      if inline then
        let r := o op :: parenToks (tk a false)
        if want then parenToks r else r
      else if method then
        (if isCol a then tk a false else parenToks (tk a false)) ++ [o ".", Token.nm op, o "(", o ")"]
      else Token.nm op :: o "(" :: tk a false ++ [o ")"]
    | a :: rest =>
      if inline then
        let r := opToks op (tkArgs (a :: rest) true)
        if want then parenToks r else r
      else if method then
        (if isCol a then tk a false else parenToks (tk a false))
          ++ o "." :: Token.nm op :: o "(" :: commaToks (tkArgs rest false) ++ [o ")"]
      else Token.nm op :: o "(" :: commaToks (tkArgs (a :: rest) false) ++ [o ")"]
def tkArgs : List Term → Bool → List (List Token)
  | [], _ => []
  | a :: as, want => tk a want :: tkArgs as want
end

/-! ## the tree of the printed text -/

def litCst : Lit → Cst
  | .none => .node "const_none" []
  | .bool true => .node "const_true" []
  | .bool false => .node "const_false" []
  | .int i =>
    if i < 0 then .node "factor" [.tok (o "-"), .node "number" [.tok ⟨.dec, reprInt (-i)⟩]]
    else .node "number" [.tok ⟨.dec, reprInt i⟩]
  | .flt q =>
    if q < 0 then .node "factor" [.tok (o "-"), .node "number" [.tok ⟨.float, reprFloat (-q)⟩]]
    else .node "number" [.tok ⟨.float, reprFloat q⟩]
  | .nan => .node "var" [.tok (Token.nm "nan")]
  | .inf => .node "var" [.tok (Token.nm "inf")]
  | .ninf => .node "factor" [.tok (o "-"), .node "var" [.tok (Token.nm "inf")]]
  | .str s => .node "string" [.tok ⟨.string, pyReprStr s⟩]

/-- the binary level an inline operator is parsed at -/
def opLevel (op : String) : Nat :=
  if op == "or" then 0 else if op == "and" then 1
  else if op == "==" || op == "!=" || op == "<" || op == "<=" || op == ">" || op == ">=" then 3
  else if op == "+" || op == "-" then 8
  else 9

/-- children of a binary-level node: operands, with the operator token between them when the level keeps it -/
def interleave (op : String) : List Cst → List Cst
  | [] => []
  | [x] => [x]
  | x :: xs => x :: .tok (o op) :: interleave op xs

mutual
def cst : Term → Cst
  | .value l => litCst l
  | .col c => .node "var" [.tok (Token.nm c)]
  | .list vs =>
    match vs with
    | [] => .node "list" [.none]
    | [v] => .node "list" [litCst v]
    | _ => .node "list" [.node "tuplelist_comp" (vs.map litCst)]
  | .dict kvs =>
    match kvs with
    | [] => .node "dict" [.none]
    | _ => .node "dict" [.node "dict_comp" (kvs.map fun kv => .node "key_value" [litCst kv.1, litCst kv.2])]
  | .app op args inline method =>
    match args with
    | [] => .node "funccall" [.node "var" [.tok (Token.nm op)], .none]
    | [a] =>
      if inline then .node "factor" [.tok (o op), cst a]
      else if method then .node "funccall" [.node "getattr" [cst a, .tok (Token.nm op)], .none]
      else .node "funccall" [.node "var" [.tok (Token.nm op)], .node "arguments" [cst a]]
    | a :: rest =>
      if inline then
        if op == "**" then .node "power" (csts (a :: rest))
        else if op == "or" then .node "or_test" (csts (a :: rest))
        else if op == "and" then .node "and_test" (csts (a :: rest))
        else .node (if opLevel op == 3 then "comparison" else if opLevel op == 8 then "arith_expr" else "term")
          (interleave op (csts (a :: rest)))
      else if method then
        .node "funccall" [.node "getattr" [cst a, .tok (Token.nm op)], .node "arguments" (csts rest)]
      else .node "funccall" [.node "var" [.tok (Token.nm op)], .node "arguments" (csts (a :: rest))]
def csts : List Term → List Cst
  | [] => []
  | a :: as => cst a :: csts as
end

/-! ## well-formed terms -/

/-- the literal's printed spelling reads back as the literal -/
def litOk : Lit → Bool
  | .none => true
  | .bool _ => true
  | .int _ => true
  | .flt q => let a := if q < 0 then -q else q; decodeFloat (reprFloat a) == some a
  | .str s => decodeStr (pyReprStr s) == some s
  | _ => false

def okEq (r : R Term) (t : Term) : Bool :=
  match r with
  | .ok t' => termBEq t' t
  | .error _ => false

/-- the two-argument inline operators that are not k-ary -/
def bin2Ops : List String := ["-", "/", "//", "%", "%/%", "==", "!=", "<", "<=", ">", ">=", "**"]

def karyOps : List String := ["+", "*", "and", "or"]

/-- the builder the walker calls for a two-argument inline operator -/
def remapX (env : Env) (op : String) : String := if op == "**" then "__pow__" else remap env.opRemap op

/-- no key is Python-equal to an earlier key -/
def nodupKeys : List Lit → Bool
  | [] => true
  | k :: ks => !ks.any (fun k' => Term.pyEqLit k k') && nodupKeys ks

/-- re-running the builder that the printed form of the node invokes gives the node back -/
def shapeOk (env : Env) (op : String) (args : List Term) (inline method : Bool) : Bool :=
  let t := Term.app op args inline method
  match args, inline, method with
  | [], false, false => okEq (mkExpr env op [] false false) t
  | [a], true, false => op == "-" && okEq (callMethod env a (remap env.factorRemap "-") []) t
  | a :: b :: rest, true, false =>
    if karyOps.contains op then okEq (kopExpr env op args) t
    else rest.isEmpty && bin2Ops.contains op && okEq (callMethod env a (remapX env op) [b]) t
  | a :: rest, false, true => okEq (callMethod env a op rest) t
  | _ :: _, false, false => okEq (mkExpr env op args false false) t
  | _, _, _ => false

mutual
def wf (env : Env) : Term → Bool
  | .value l => litOk l
  | .col c => env.cols.contains c
  | .list vs =>
    !vs.isEmpty && vs.all litOk && !vs.any (· == .none) && compatibleTys (vs.map Lit.ty)
  | .dict kvs =>
    !kvs.isEmpty && kvs.all (fun kv => litOk kv.1 && litOk kv.2) && !kvs.any (·.1 == .none)
      && nodupKeys (kvs.map (·.1)) && compatibleTys (kvs.map (·.1.ty)) && compatibleTys (kvs.map (·.2.ty))
  | .app op args inline method => wfs env args && shapeOk env op args inline method
def wfs (env : Env) : List Term → Bool
  | [] => true
  | a :: as => wf env a && wfs env as
end

end DAVerif.Expr
