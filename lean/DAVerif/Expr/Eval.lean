import DAVerif.Expr.Walk
/-!
Row-wise meaning of expressions.

* `Interp` – an interpretation Θ of the operator / function symbols over some value domain.  Scalar arithmetic is
  abstract: the theorems hold for every Θ (satisfying the laws a theorem names).
* `evalTerm Θ ρ t` – the value of the DSL term `t` on the row `ρ` (`ρ c` is the cell of column `c`): an `Expression`
  applies the interpretation of its `op` to the values of its arguments (this is what every executor does:
  `impl_map[op.op](*values)`); the `inline` / `method` flags do not matter.
* `evalPy Θ ρ c` – the **Python reading** of a lark tree (specification side, independent of the walker): binary levels
  associate to the left, `**` to the right (the grammar nests the right operand), a prefix `-`/`+` applies to the
  whole `power` phrase that follows it (so it binds looser than `**` and tighter than `*`), `not` applies to the
  comparison that follows it, `and` / `or` fold their operands, a comparison chain `a < b <= c` is the conjunction
  `(a < b) and (b <= c)`, a call applies the named function to the receiver and the arguments.  `none` means the tree
  has no Python reading that is claimed (shapes the grammar cannot produce, `| & ^ << >> ~ in is`, dunder method
  names, dict literals).

No imports beyond model files: part of the compiled driver.
-/
namespace DAVerif.Expr

structure Interp where
  V : Type
  lit : Lit → V
  listV : List V → V
  dictV : List (V × V) → V
  app : String → List V → V

variable (Θ : Interp) (ρ : String → Θ.V)

mutual
def evalTerm : Term → Θ.V
  | .value l => Θ.lit l
  | .col c => ρ c
  | .list vs => Θ.listV (vs.map Θ.lit)
  | .dict kvs => Θ.dictV (kvs.map fun kv => (Θ.lit kv.1, Θ.lit kv.2))
  | .app op args _ _ => Θ.app op (evalTerms args)
def evalTerms : List Term → List Θ.V
  | [] => []
  | t :: ts => evalTerm t :: evalTerms ts
end

/-! ## the Python reading -/

/-- the operator symbols of the three levels the DSL accepts, and the Θ symbol each denotes (`<>` is `!=`; the DSL's own
`%+% %?%` are its `concat` / `coalesce`) -/
def binSym (kind : RuleKind) (s : String) : Option String :=
  match kind with
  | .arith => if s == "+" || s == "-" then some s else none
  | .term =>
    if s == "*" || s == "/" || s == "//" || s == "%" || s == "%/%" then some s
    else if s == "%+%" then some "concat" else if s == "%?%" then some "coalesce" else none
  | .comparison =>
    if s == "<" || s == ">" || s == "==" || s == ">=" || s == "<=" || s == "!=" then some s
    else if s == "<>" then some "!=" else none
  | _ => none

/-- `v0 op1 v1 op2 v2 …` read left to right: `((v0 op1 v1) op2 v2) …` -/
def foldLeft (kind : RuleKind) (acc : Θ.V) : List String → List Θ.V → Option Θ.V
  | [], [] => some acc
  | o :: os, v :: vs =>
    match binSym kind o with
    | some sym => foldLeft kind (Θ.app sym [acc, v]) os vs
    | none => none
  | _, _ => none

/-- the pairwise comparisons `v0 op1 v1`, `v1 op2 v2`, … of a chain -/
def pairwise : List Θ.V → List String → Option (List Θ.V)
  | a :: b :: rest, o :: os =>
    match binSym .comparison o, pairwise (b :: rest) os with
    | some sym, some cs => some (Θ.app sym [a, b] :: cs)
    | _, _ => none
  | [_], [] => some []
  | _, _ => none

/-- `a and b and c` / `a or b or c`: the binary connective folded over the operands -/
def foldConn (op : String) : List Θ.V → Option Θ.V
  | a :: b :: rest => some ((b :: rest).foldl (fun x y => Θ.app op [x, y]) a)
  | _ => none

/-- what a method call means: the named function applied to receiver and arguments, after the documented defaults
(`shift()` is `shift(1)`, `coalesce_0()` is `coalesce(0)`, `mapv(m)` has default `None`, the date formats) -/
def callMeaning (name : String) (vs : List Θ.V) : Θ.V :=
  match name, vs with
  | "shift", [x] => Θ.app "shift" [x, Θ.lit (.int 1)]
  | "coalesce_0", [x] => Θ.app "coalesce" [x, Θ.lit (.int 0)]
  | "mapv", [x, m] => Θ.app "mapv" [x, m, Θ.lit .none]
  | "parse_datetime", [x] => Θ.app "parse_datetime" [x, Θ.lit (.str "%Y-%m-%d %H:%M:%S")]
  | "format_datetime", [x] => Θ.app "format_datetime" [x, Θ.lit (.str "%Y-%m-%d %H:%M:%S")]
  | "parse_date", [x] => Θ.app "parse_date" [x, Θ.lit (.str "%Y-%m-%d")]
  | "format_date", [x] => Θ.app "format_date" [x, Θ.lit (.str "%Y-%m-%d")]
  | "float_divide", [x, y] => Θ.app "%/%" [x, y]
  | n, vs => Θ.app n vs

/-- the name starts with two underscores -/
def isDunder (s : String) : Bool :=
  match s.toList with
  | '_' :: '_' :: _ => true
  | _ => false

mutual
def evalPy : Cst → Option Θ.V
  | .tok t =>
    match t.kind with
    | .dec => (decodeDec t.text).map fun (n : Nat) => Θ.lit (.int (Int.ofNat n))
    | .float => (decodeFloat t.text).map fun q => Θ.lit (.flt q)
    | .string => (decodeStr t.text).map fun s => Θ.lit (.str s)
    | .name => some (ρ t.text)
    | _ => none
  | .none => none
  | .node rule ch =>
    match classify rule with
    | .constTrue => some (Θ.lit (.bool true))
    | .constFalse => some (Θ.lit (.bool false))
    | .constNone => some (Θ.lit .none)
    | .wrapper =>
      match ch with
      | [c] => evalPy c
      | _ => none
    | .arith => evalPyLevel .arith ch
    | .term => evalPyLevel .term ch
    | .comparison => evalPyLevel .comparison ch
    | .power =>
      match ch with
      | [a, b] =>
        match evalPy a, evalPy b with
        | some x, some y => some (Θ.app "**" [x, y])
        | _, _ => none
      | _ => none
    | .factor =>
      match ch with
      | [o, c] =>
        match opText o, evalPy c with
        | some s, some v => if s == "-" || s == "+" then some (Θ.app s [v]) else none
        | _, _ => none
      | _ => none
    | .funccall =>
      match ch with
      | [.node crule cch, more] =>
        if crule == "getattr" then
          match cch with
          | [recv, .tok nm] =>
            if isDunder nm.text then none
            else
              match evalPy recv, evalPyArgs [more] with
              | some r, some args => some (callMeaning Θ nm.text (r :: args))
              | _, _ => none
          | _ => none
        else if crule == "var" then
          match cch with
          | [.tok f] => (evalPyArgs [more]).map fun args => Θ.app f.text args
          | _ => none
        else none
      | _ => none
    | .orTest =>
      match evalPyAll ch with
      | some vs => foldConn Θ "or" vs
      | none => none
    | .andTest =>
      match evalPyAll ch with
      | some vs => foldConn Θ "and" vs
      | none => none
    | .not =>
      match ch with
      | [c] => (evalPy c).map fun v => Θ.app "not" [v]
      | _ => none
    | .collection =>
      match ch with
      | [c@(.node r2 items)] =>
        if r2 == "tuplelist_comp" || r2 == "set_comp" then (evalPyAll items).map Θ.listV
        else (evalPy c).map fun v => Θ.listV [v]
      | [c] => (evalPy c).map fun v => Θ.listV [v]
      | _ => none
    | _ => none
def evalPyLevel (kind : RuleKind) : List Cst → Option Θ.V
  | [] => none
  | c :: rest =>
    match evalPy c, opTexts rest, evalPyOdd rest with
    | some v0, some ops, some vs =>
      if kind == .comparison && ops.length ≥ 2 then
        match pairwise Θ (v0 :: vs) ops with
        | some cs => foldConn Θ "and" cs
        | none => none
      else if ops.length ≥ 1 then foldLeft Θ kind v0 ops vs
      else none
    | _, _, _ => none
def evalPyAll : List Cst → Option (List Θ.V)
  | [] => some []
  | c :: cs =>
    match evalPy c, evalPyAll cs with
    | some v, some vs => some (v :: vs)
    | _, _ => none
def evalPyOdd : List Cst → Option (List Θ.V)
  | [] => some []
  | _ :: c :: cs =>
    match evalPy c, evalPyOdd cs with
    | some v, some vs => some (v :: vs)
    | _, _ => none
  | [_] => none
def evalPyArgs : List Cst → Option (List Θ.V)
  | [.node _ a] => evalPyAll a
  | [.none] => some []
  | _ => none
end

/-! ## the laws a backend is assumed to satisfy ("operands where Python and the DSL define the operators identically") -/

structure PyLaws (Θ : Interp) : Prop where
  /-- a k-ary `+ * and or` is the left fold of the binary operator -/
  kary : ∀ op, op = "+" ∨ op = "*" ∨ op = "and" ∨ op = "or" →
    ∀ a b c rest, Θ.app op (a :: b :: c :: rest) = Θ.app op (Θ.app op [a, b] :: c :: rest)
  /-- unary minus of a numeric constant is the negated constant (`Value.__neg__` folds it) -/
  negLit : ∀ l l', negLit l = .ok l' → Θ.app "-" [Θ.lit l] = Θ.lit l'
  /-- unary plus is the identity (`Term.__pos__` returns `self`) -/
  pos : ∀ v, Θ.app "+" [v] = v
  /-- `not x` is `x == False` -/
  notEq : ∀ v, Θ.app "==" [v, Θ.lit (.bool false)] = Θ.app "not" [v]

/-! ## a concrete interpretation (booleans and integers), used for non-vacuity and for the witnesses -/

inductive PV where
  | null | b (x : Bool) | i (x : Int) | other
  deriving DecidableEq, Repr, Inhabited

def PV.ofLit : Lit → PV
  | .none => .null | .bool x => .b x | .int x => .i x | _ => .other

def PV.num : PV → Option Int
  | .i x => some x
  | .b x => some (if x then 1 else 0)
  | _ => none

def pvBin (op : String) (x y : PV) : PV :=
  match x.num, y.num with
  | some a, some b =>
    if op == "+" then .i (a + b) else if op == "-" then .i (a - b) else if op == "*" then .i (a * b)
    else if op == "//" then .i (a / b) else if op == "%" then .i (a % b)
    else if op == "**" then .i (a ^ b.toNat)
    else if op == "<" then .b (a < b) else if op == "<=" then .b (a ≤ b) else if op == ">" then .b (a > b)
    else if op == ">=" then .b (a ≥ b) else if op == "==" then .b (a == b) else if op == "!=" then .b (a != b)
    else if op == "and" then (if a == 0 then x else y) else if op == "or" then (if a == 0 then y else x)
    else .other
  | _, _ => .other

def pvApp (op : String) : List PV → PV
  | [] => .other
  | [x] =>
    if op == "+" then x
    else if op == "-" then (match x.num with | some a => .i (-a) | none => .other)
    else if op == "not" then pvBin "==" x (.b false)
    else .other
  | x :: y :: rest => (y :: rest).foldl (pvBin op) x

/-- booleans and integers with Python's operators (`//` and `%` floor, `and`/`or` return an operand) -/
def ΘInt : Interp := { V := PV, lit := PV.ofLit, listV := fun _ => .other, dictV := fun _ => .other, app := pvApp }

end DAVerif.Expr
