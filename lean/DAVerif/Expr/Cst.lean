import DAVerif.Expr.Term
/-!
Tokens and concrete syntax trees of the expression grammar (`data_algebra/python3_lark.py`, start symbol `test`).

* `Token` — what lark's lexer hands to the parser: a terminal kind and the matched text.  Only the kinds the tree
  walker distinguishes are kept apart; every punctuation / operator / keyword terminal (`PLUS`, `LPAR`, `AND`,
  `__ANON_3`, …) is `op`, number terminals other than decimal integers and floats (`HEX_NUMBER`, `IMAG_NUMBER`, …)
  and `LONG_STRING` are `other`.
* `Cst` — lark's `Tree(data, children)` / `Token` / the `None` placeholder that `[optional]` items leave.

No imports beyond model files: part of the compiled driver.
-/
namespace DAVerif.Expr

inductive TokKind where
  | name | dec | float | string | lstring | op | other
  deriving DecidableEq, Repr, Inhabited

structure Token where
  kind : TokKind
  text : String
  deriving DecidableEq, Repr, Inhabited

namespace Token
def op (s : String) : Token := ⟨.op, s⟩
def nm (s : String) : Token := ⟨.name, s⟩
def isOp (t : Token) (s : String) : Bool := t.kind == .op && t.text == s
end Token

inductive Cst where
  | tok (t : Token)
  | none                                   -- lark's placeholder for an absent `[...]` item
  | node (rule : String) (ch : List Cst)
  deriving Repr, Inhabited

namespace Cst
mutual
def beq : Cst → Cst → Bool
  | .tok a, .tok b => a == b
  | .none, .none => true
  | .node r a, .node s b => r == s && beqList a b
  | _, _ => false
def beqList : List Cst → List Cst → Bool
  | [], [] => true
  | a :: as, b :: bs => beq a b && beqList as bs
  | _, _ => false
end
instance : BEq Cst := ⟨beq⟩

/-! number of tokens and nodes (used as a size measure) -/
mutual
def size : Cst → Nat
  | .tok _ => 1
  | .none => 1
  | .node _ ch => 1 + sizeList ch
def sizeList : List Cst → Nat
  | [] => 0
  | c :: cs => size c + sizeList cs
end
end Cst

end DAVerif.Expr
