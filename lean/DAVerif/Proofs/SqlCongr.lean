import DAVerif.Proofs.SqlBasic
/-!
C01/C02: "everything a step computes reads its input rows only through the columns it uses".

* list transport: from `l.map f = l'.map f` to equalities about `map g`, `filter`, `zipIdx`, `mergeSort`;
* expressions, keys, comparisons and aggregate/window arguments are invariant under `Row.select S` when `S`
  contains the columns they mention;
* `winCell` (the value of a window expression) under projection of the indexed rows.
-/
namespace DAVerif
namespace Sql
open DAVerif.Ops (usedFromSources unionL)

/-! ### list transport -/

theorem map_transport {α α' β γ : Type} {f : α → β} {f' : α' → β} {g : α → γ} {g' : α' → γ} :
    ∀ {l : List α} {l' : List α'}, l.map f = l'.map f' → (∀ a ∈ l, ∀ b ∈ l', f a = f' b → g a = g' b) →
      l.map g = l'.map g'
  | [], [], _, _ => rfl
  | [], _ :: _, h, _ => by simp at h
  | _ :: _, [], h, _ => by simp at h
  | a :: l, b :: l', h, hg => by
    simp only [List.map_cons, List.cons.injEq] at h ⊢
    exact ⟨hg a List.mem_cons_self b List.mem_cons_self h.1,
      map_transport h.2 (fun a' ha' b' hb' => hg a' (List.mem_cons_of_mem _ ha') b' (List.mem_cons_of_mem _ hb'))⟩

theorem filter_transport {α α' β : Type} {f : α → β} {f' : α' → β} {p : α → Bool} {p' : α' → Bool} :
    ∀ {l : List α} {l' : List α'}, l.map f = l'.map f' → (∀ a ∈ l, ∀ b ∈ l', f a = f' b → p a = p' b) →
      (l.filter p).map f = (l'.filter p').map f'
  | [], [], _, _ => rfl
  | [], _ :: _, h, _ => by simp at h
  | _ :: _, [], h, _ => by simp at h
  | a :: l, b :: l', h, hp => by
    simp only [List.map_cons, List.cons.injEq] at h
    have e := hp a List.mem_cons_self b List.mem_cons_self h.1
    have ih := filter_transport (p := p) (p' := p') h.2
      (fun a' ha' b' hb' => hp a' (List.mem_cons_of_mem _ ha') b' (List.mem_cons_of_mem _ hb'))
    simp only [List.filter_cons, ← e]
    cases p a
    · simpa using ih
    · simp only [↓reduceIte, List.map_cons, List.cons.injEq]; exact ⟨h.1, ih⟩

theorem map_fst_zipIdx {α : Type} (l : List α) (k : Nat) : (l.zipIdx k).map (·.1) = l := by
  induction l generalizing k with
  | nil => rfl
  | cons a l ih => simp [List.zipIdx_cons, ih]

theorem zipIdx_map_fun_fst {α β : Type} (l : List α) (g : α → β) (k : Nat) :
    (l.zipIdx k).map (fun ri => g ri.1) = l.map g := by
  induction l generalizing k with
  | nil => rfl
  | cons a l ih => simp [List.zipIdx_cons, ih]

theorem take_transport {α α' β : Type} {f : α → β} {f' : α' → β} {l : List α} {l' : List α'}
    (h : l.map f = l'.map f') (n : Nat) : (l.take n).map f = (l'.take n).map f' := by
  rw [List.map_take, List.map_take, h]

theorem length_of_map_eq {α α' β : Type} {f : α → β} {f' : α' → β} {l : List α} {l' : List α'}
    (h : l.map f = l'.map f') : l.length = l'.length := by
  have := congrArg List.length h
  simpa using this

/-! ### reading only the used columns -/

mutual
theorem evalTerm_congr (Θ : Interp) {r r' : Row} :
    ∀ (t : Term), (∀ c ∈ t.colsRaw, r.get c = r'.get c) → evalTerm Θ r t = evalTerm Θ r' t
  | .value _, _ => rfl
  | .col c, h => by simp only [evalTerm]; rw [h c (by simp [Term.colsRaw])]
  | .list _, _ => rfl
  | .dict _, _ => rfl
  | .app op args _ _, h => by
    simp only [evalTerm]
    rw [evalArgs_congr Θ args (by simpa [Term.colsRaw] using h)]
theorem evalArgs_congr (Θ : Interp) {r r' : Row} :
    ∀ (ts : List Term), (∀ c ∈ Term.colsRawList ts, r.get c = r'.get c) → evalArgs Θ r ts = evalArgs Θ r' ts
  | [], _ => rfl
  | t :: ts, h => by
    simp only [evalArgs]
    rw [evalTerm_congr Θ t (fun c hc => h c (by simp [Term.colsRawList, hc])),
      evalArgs_congr Θ ts (fun c hc => h c (by simp [Term.colsRawList, hc]))]
end

theorem evalCell_congr (Θ : Interp) {r r' : Row} (t : Term) (h : ∀ c ∈ t.colsRaw, r.get c = r'.get c) :
    evalCell Θ r t = evalCell Θ r' t := by
  simp only [evalCell, evalTerm_congr Θ t h]

theorem evalCell_select (Θ : Interp) (r : Row) (t : Term) {S : List String} (h : ∀ c ∈ t.colsRaw, c ∈ S) :
    evalCell Θ (r.select S) t = evalCell Θ r t :=
  evalCell_congr Θ t (fun c hc => Row.get_select_mem (h c hc))

theorem keyOf_congr {r r' : Row} {cs : List String} (h : ∀ c ∈ cs, r.get c = r'.get c) :
    keyOf r cs = keyOf r' cs := by
  simp only [keyOf, Row.vals]
  exact List.map_congr_left h

theorem keyOf_select (r : Row) {cs S : List String} (h : ∀ c ∈ cs, c ∈ S) : keyOf (r.select S) cs = keyOf r cs :=
  keyOf_congr (fun c hc => Row.get_select_mem (h c hc))

theorem sqlRowLe_congr (ec : EngineCfg) {cs rev : List String} {a a' b b' : Row}
    (ha : ∀ c ∈ cs, a.get c = a'.get c) (hb : ∀ c ∈ cs, b.get c = b'.get c) :
    sqlRowLe ec cs rev a b = sqlRowLe ec cs rev a' b' := by
  induction cs with
  | nil => rfl
  | cons k cs ih =>
    simp only [sqlRowLe]
    rw [ha k (List.mem_cons_self ..), hb k (List.mem_cons_self ..),
      ih (fun c hc => ha c (List.mem_cons_of_mem _ hc)) (fun c hc => hb c (List.mem_cons_of_mem _ hc))]

/-- a comparison that only reads the order columns -/
def CmpCongr (le : RowCmp) : Prop :=
  ∀ (cs rev : List String) (a a' b b' : Row), (∀ c ∈ cs, a.get c = a'.get c) → (∀ c ∈ cs, b.get c = b'.get c) →
    le cs rev a b = le cs rev a' b'

theorem cmpCongr_sqlRowLe (ec : EngineCfg) : CmpCongr (sqlRowLe ec) :=
  fun _ _ _ _ _ _ ha hb => sqlRowLe_congr ec ha hb

theorem cmpCongr_rowLe : CmpCongr rowLe := fun _ _ _ _ _ _ ha hb => rowLe_congr ha hb

/-- the column a window / aggregate expression takes its argument values from -/
def argCols : Term → List String
  | .app _ (.col c :: _) _ _ => [c]
  | _ => []

theorem argCols_subset_colsRaw (t : Term) : ∀ c ∈ argCols t, c ∈ t.colsRaw := by
  intro c hc
  unfold argCols at hc
  split at hc
  · simp only [List.mem_singleton] at hc
    subst hc
    simp [Term.colsRaw, Term.colsRawList]
  · cases hc

theorem argValues_congr (t : Term) {rows rows' : List Row} {S : List String} (hS : ∀ c ∈ argCols t, c ∈ S)
    (h : rows.map (fun r => r.select S) = rows'.map (fun r => r.select S)) :
    argValues t rows = argValues t rows' := by
  rw [argValues_eq_map, argValues_eq_map]
  apply map_transport h
  intro a _ b _ hab
  unfold argFn
  split
  · rename_i c _ _ _
    exact Row.get_of_select_eq hab (hS c (by simp [argCols]))
  · rfl
  · rfl

theorem argValues_select (t : Term) (rows : List Row) {S : List String} (hS : ∀ c ∈ argCols t, c ∈ S) :
    argValues t (rows.map (fun r => r.select S)) = argValues t rows := by
  apply argValues_congr t hS
  rw [List.map_map]
  apply List.map_congr_left
  intro r _
  exact Row.select_select (fun c hc => hc)

/-! ### window cells under projection -/

/-- projection of indexed rows -/
def projIdx (S : List String) (ri : Row × Nat) : Row × Nat := (ri.1.select S, ri.2)

theorem zipIdx_projIdx (S : List String) (l : List Row) :
    l.zipIdx.map (projIdx S) = (l.map (fun r => r.select S)).zipIdx := by
  rw [List.zipIdx_map]
  rfl

/-- a window cell only depends on the partition, order and argument columns of the indexed rows -/
theorem winCell_proj {le : RowCmp} (hle : CmpCongr le) (Θ : Interp) (part order rev : List String)
    (idx : List (Row × Nat)) (ri : Row × Nat) (t : Term) {S : List String}
    (hp : ∀ c ∈ part, c ∈ S) (ho : ∀ c ∈ order, c ∈ S) (ha : ∀ c ∈ argCols t, c ∈ S) :
    winCell le Θ part order rev (idx.map (projIdx S)) (projIdx S ri) t = winCell le Θ part order rev idx ri t := by
  unfold winCell
  have hfilter : (idx.map (projIdx S)).filter (fun rj => keyOf rj.1 part == keyOf (projIdx S ri).1 part)
      = (idx.filter (fun rj => keyOf rj.1 part == keyOf ri.1 part)).map (projIdx S) := by
    rw [List.filter_map]
    congr 1
    apply List.filter_congr
    intro rj _
    simp only [Function.comp, projIdx, keyOf_select _ hp]
  have hsort : ∀ l : List (Row × Nat),
      (l.map (projIdx S)).mergeSort (fun a b => le order rev a.1 b.1)
        = (l.mergeSort (fun a b => le order rev a.1 b.1)).map (projIdx S) := by
    intro l
    symm
    apply List.map_mergeSort
    intro a _ b _
    exact hle order rev _ _ _ _ (fun c hc => (Row.get_select_mem (ho c hc)).symm)
      (fun c hc => (Row.get_select_mem (ho c hc)).symm)
  simp only [hfilter, hsort]
  have hpos : ∀ l : List (Row × Nat), (l.map (projIdx S)).findIdx (fun rj => rj.2 == (projIdx S ri).2)
      = l.findIdx (fun rj => rj.2 == ri.2) := by
    intro l
    rw [List.findIdx_map]
    rfl
  rw [hpos]
  have harg : ∀ l : List (Row × Nat), argValues t ((l.map (projIdx S)).map (·.1)) = argValues t (l.map (·.1)) := by
    intro l
    have : (l.map (projIdx S)).map (·.1) = (l.map (·.1)).map (fun r => r.select S) := by
      simp only [List.map_map]; rfl
    rw [this, argValues_select t _ ha]
  rw [harg]

/-- window cells of corresponding rows of two row lists that agree on `S` -/
theorem winCell_transport {le : RowCmp} (hle : CmpCongr le) (Θ : Interp) (part order rev : List String)
    {L L' : List Row} {S : List String} (h : L.map (fun r => r.select S) = L'.map (fun r => r.select S))
    (hp : ∀ c ∈ part, c ∈ S) (ho : ∀ c ∈ order, c ∈ S) (t : Term) (ha : ∀ c ∈ argCols t, c ∈ S)
    {ri ri' : Row × Nat} (hri : projIdx S ri = projIdx S ri') :
    winCell le Θ part order rev L.zipIdx ri t = winCell le Θ part order rev L'.zipIdx ri' t := by
  rw [← winCell_proj hle Θ part order rev L.zipIdx ri t hp ho ha,
    ← winCell_proj hle Θ part order rev L'.zipIdx ri' t hp ho ha, zipIdx_projIdx, zipIdx_projIdx, h, hri]

end Sql
end DAVerif
