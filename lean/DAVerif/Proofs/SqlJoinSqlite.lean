import DAVerif.Proofs.SqlJoinRoot
/-!
C16, SQLite: RIGHT join emulated as the LEFT join of the swapped sources with the COALESCE direction reversed.

The emulation changes the **row order** (matched pairs come out right-row-major), so the statement is about row
multisets: `SoundP` / `TransOKP` are `Sound` / `TransOK` with `List.Perm` in place of list equality.

* `perm_pairs_swap`, `joinRowsG_swap` – a join with swapped inputs has the same rows up to order;
* `sound_joinStep_swapped` – the swapped LEFT join step over two sound sub-queries returns the rows of the reference
  RIGHT join (any null pattern in the keys: full strength);
* `toNear_join_sqlite_right`, `transOK_join_sqlite_right` – the induction step.
-/
namespace DAVerif
namespace Sql
open DAVerif.Ops (usedFromSources unionL)

variable {Θ : Interp} {ec : EngineCfg} {env : Env} {G : Near → Prop} {cfg : SqlCfg}

/-! ### multiset version of the invariant -/

/-- `Sound` up to row order -/
structure SoundP (Θ : Interp) (ec : EngineCfg) (env : Env) (q : Near) (u pcols : List String) (tp : Table) : Prop where
  req : ∀ u' : List String, (∀ c ∈ u', c ∈ u) → ∀ force : Bool,
    ∃ T, semNear Θ ec env [] q (some u') force = .ok T ∧ (∀ c ∈ u', c ∈ T.cols) ∧
      (T.rows.map (fun r => r.select u')).Perm (tp.rows.map (fun r => r.select u'))
  keys : u ≠ [] → ∃ ks, q.termKeys = some ks ∧ (∀ k ∈ ks, k ∈ pcols) ∧ (∀ c ∈ u, c ∈ ks)

theorem Sound.toP {q : Near} {u pc : List String} {tp : Table} (h : Sound Θ ec env q u pc tp) :
    SoundP Θ ec env q u pc tp :=
  ⟨fun u' hu' force => by
    obtain ⟨T, h1, h2, h3⟩ := h.req u' hu' force
    exact ⟨T, h1, h2, h3 ▸ List.Perm.refl _⟩, h.keys⟩

/-- `TransOK` up to row order -/
def TransOKP (Θ : Interp) (ec : EngineCfg) (env : Env) (scfg : SemCfg) (G : Near → Prop) (cfg : SqlCfg)
    (fuel : Nat) (p : Ops) : Prop :=
  ∀ (u : List String) (st : Nat) (q : Near) (st' : Nat) (tp : Table),
    (∀ c ∈ u, c ∈ p.cols) → toNear cfg fuel p (some u) st = .ok (q, st') →
    semE ec Θ scfg env p = .ok tp →
    G q ∧ ∃ u₁, (∀ c ∈ u, c ∈ u₁) ∧ (∀ c ∈ u₁, c ∈ p.cols) ∧ SoundP Θ ec env q u₁ p.cols tp

theorem TransOK.toP {scfg : SemCfg} {fuel : Nat} {p : Ops} (h : TransOK Θ ec env scfg G cfg fuel p) :
    TransOKP Θ ec env scfg G cfg fuel p := by
  intro u st q st' tp hu ht hs
  obtain ⟨hg, u₁, h1, h2, h3⟩ := h u st q st' tp hu ht hs
  exact ⟨hg, u₁, h1, h2, h3.toP⟩

/-- the root call (`columns = None`) of a step with term keys `ks` is the call with `columns = ks` -/
theorem root_eval_ju {q : Near} {ks : List String} {T : Table} (hq : q.isJU = true) (hk : q.termKeys = some ks)
    (hksne : ks ≠ []) (h1 : semNear Θ ec env [] q (some ks) true = .ok T) :
    semNear Θ ec env [] q none true = .ok T ∧ T.cols = ks := by
  cases q with
  | cte _ => cases hq
  | table name ts =>
    simp only [Near.termKeys, Option.some.injEq] at hk
    subst hk
    have e : semNear Θ ec env [] (.table name ts) none true = semNear Θ ec env [] (.table name ts) (some ts) true := by
      rw [semNear, semNear]; rfl
    refine ⟨e.trans h1, ?_⟩
    rw [semNear] at h1
    cases hl : env.lookup name with
    | none => rw [hl] at h1; cases h1
    | some t =>
      rw [hl] at h1
      have : ts.isEmpty = false := by simpa using hksne
      simp only [Option.getD_some, ↓reduceIte, this, Bool.false_eq_true] at h1
      split at h1
      · cases h1; rfl
      · cases h1
  | unary nm terms agg sub sc sfx mg dp key =>
    cases terms with
    | none => simp [Near.termKeys] at hk
    | some ts =>
      simp only [Near.termKeys, Option.map_some, Option.some.injEq] at hk
      subst hk
      have e : ∀ fc, outCols (some ts) none fc = outCols (some ts) (some (ts.map (·.1))) fc := by
        intro fc; simp [outCols]
      refine ⟨?_, ?_⟩
      · rw [← h1, semNear_unary, semNear_unary]
        simp only [e]
      · rw [semNear_unary] at h1
        cases hsub : semNear Θ ec env [] sub sc false with
        | error er => rw [hsub] at h1; cases h1
        | ok t0 =>
          rw [hsub] at h1
          simp only [Except.bind, Except.ok.injEq] at h1
          subst h1
          show outCols (some ts) (some (ts.map (·.1))) t0.cols = ts.map (·.1)
          exact outCols_some_mem hksne (by intro hh; cases hh)
  | join n ts l lc ln r rc rn jt oa ob key =>
    simp only [Near.termKeys, Option.some.injEq] at hk
    subst hk
    have e : joinOut (ts.map (·.1)) none = joinOut (ts.map (·.1)) (some (ts.map (·.1))) := by
      rw [joinOut_some_ne hksne]; rfl
    refine ⟨?_, ?_⟩
    · rw [← h1, semNear_join, semNear_join, e]
    · rw [semNear_join] at h1
      cases hl : semNear Θ ec env [] l (some lc) false with
      | error er => rw [hl] at h1; cases h1
      | ok tl =>
        cases hr : semNear Θ ec env [] r (some rc) false with
        | error er => rw [hl, hr] at h1; cases h1
        | ok tr =>
          rw [hl, hr] at h1
          simp only [Except.bind] at h1
          split at h1
          · cases h1
          · cases h1
            exact joinOut_some_ne hksne
  | union n ts l r cs key =>
    simp only [Near.termKeys, Option.some.injEq] at hk
    subst hk
    have e : joinOut ts none = joinOut ts (some ts) := by
      rw [joinOut_some_ne hksne]; rfl
    refine ⟨?_, ?_⟩
    · rw [← h1, semNear_union, semNear_union, e]
    · rw [semNear_union] at h1
      cases hl : semNear Θ ec env [] l (some cs) true with
      | error er => rw [hl] at h1; cases h1
      | ok tl =>
        cases hr : semNear Θ ec env [] r (some cs) true with
        | error er => rw [hl, hr] at h1; cases h1
        | ok tr =>
          rw [hl, hr] at h1
          simp only [Except.bind] at h1
          cases h1
          exact joinOut_some_ne hksne

/-- what the root call returns for a translation that is sound up to row order -/
theorem root_of_soundP {q : Near} {u pc : List String} {tp : Table}
    (hs : SoundP Θ ec env q u pc tp) (hq : q.isJU = true) (hu : ∀ c ∈ pc, c ∈ u) (hne : pc ≠ []) :
    ∃ T, semNear Θ ec env [] q none true = .ok T ∧ (∀ c, c ∈ T.cols ↔ c ∈ pc) ∧
      (T.rows.map (fun r => r.select pc)).Perm (tp.rows.map (fun r => r.select pc)) := by
  have hune : u ≠ [] := ne_nil_of_subset hu hne
  obtain ⟨ks, hk, hks1, hks2⟩ := hs.keys hune
  have hksne : ks ≠ [] := ne_nil_of_subset hks2 hune
  obtain ⟨T, h1, h2, h4⟩ := hs.req ks (fun c hc => hu c (hks1 c hc)) true
  obtain ⟨e1, e2⟩ := root_eval_ju hq hk hksne h1
  refine ⟨T, e1, ?_, ?_⟩
  · intro c
    rw [e2]
    exact ⟨hks1 c, fun hc => hks2 c (hu c hc)⟩
  · have hsub : ∀ c ∈ pc, c ∈ ks := fun c hc => hks2 c (hu c hc)
    have := h4.map (fun r : Row => r.select pc)
    rw [select_map_select _ hsub, select_map_select _ hsub] at this
    exact this

/-! ### a join with swapped inputs -/

theorem flatMap_append_perm {α β : Type} (l : List α) (f g : α → List β) :
    (l.flatMap (fun x => f x ++ g x)).Perm (l.flatMap f ++ l.flatMap g) := by
  induction l with
  | nil => exact List.Perm.refl _
  | cons x l ih =>
    simp only [List.flatMap_cons]
    have h1 : (f x ++ g x ++ List.flatMap (fun x => f x ++ g x) l).Perm
        (f x ++ g x ++ (List.flatMap f l ++ List.flatMap g l)) := List.Perm.append_left _ ih
    refine h1.trans ?_
    rw [List.append_assoc, List.append_assoc]
    apply List.Perm.append_left
    rw [← List.append_assoc, ← List.append_assoc]
    exact List.Perm.append_right _ List.perm_append_comm

theorem flatMap_ite_eq_filter_map {α β : Type} (l : List α) (p : α → Bool) (f : α → β) :
    l.flatMap (fun x => if p x then [f x] else []) = (l.filter p).map f := by
  induction l with
  | nil => rfl
  | cons x l ih =>
    simp only [List.flatMap_cons, List.filter_cons, ih]
    cases p x <;> simp

/-- the matched pairs of a join, left-major and right-major -/
theorem perm_pairs_swap {α β γ : Type} (m : α → β → Bool) (f : α → β → γ) (la : List α) (lb : List β) :
    (la.flatMap (fun a => (lb.filter (fun b => m a b)).map (fun b => f a b))).Perm
      (lb.flatMap (fun b => (la.filter (fun a => m a b)).map (fun a => f a b))) := by
  induction la with
  | nil =>
    have : lb.flatMap (fun b => (([] : List α).filter (fun a => m a b)).map (fun a => f a b)) = [] := by
      induction lb with
      | nil => rfl
      | cons b lb ih => simp
    rw [this]
    exact List.Perm.refl _
  | cons a la ih =>
    have hinner : ∀ b, ((a :: la).filter (fun a => m a b)).map (fun a => f a b) =
        (if m a b then [f a b] else []) ++ (la.filter (fun a => m a b)).map (fun a => f a b) := by
      intro b
      simp only [List.filter_cons]
      cases m a b <;> simp
    simp only [List.flatMap_cons, hinner]
    refine List.Perm.trans ?_ (flatMap_append_perm lb _ _).symm
    rw [flatMap_ite_eq_filter_map]
    exact List.Perm.append_left _ ih

/-- **swapping the inputs of a join** permutes its rows -/
theorem joinRowsG_swap {α : Type} (m : Row → Row → Bool) (mk : Option Row → Option Row → α) (kl kr : Bool)
    (la lb : List Row) :
    (joinRowsG m mk kl kr la lb).Perm (joinRowsG (fun b a => m a b) (fun b a => mk a b) kr kl lb la) := by
  unfold joinRowsG
  rw [List.append_assoc, List.append_assoc]
  exact List.Perm.append (perm_pairs_swap m (fun a b => mk (some a) (some b)) la lb) List.perm_append_comm

/-! ### SQLite: RIGHT join = swapped LEFT join with the COALESCE direction reversed -/

theorem keyMatch_symm (cfg : SemCfg) (ka kb : List Val) : keyMatch cfg ka kb = keyMatch cfg kb ka := by
  unfold keyMatch
  by_cases h : ka = kb
  · subst h; rfl
  · have h1 : (ka == kb) = false := by simpa using h
    have h2 : (kb == ka) = false := by simpa using fun e : kb = ka => h e.symm
    rw [h1, h2]; rfl

theorem joinTerms_keys_sub {lf : Bool} {usg ca cb onA onB : List String} :
    ∀ k ∈ (joinTerms lf usg (sideCols ca usg onA onB) (sideCols cb usg onA onB)).map (·.1), k ∈ ca ∨ k ∈ cb := by
  intro k hk
  rcases mem_joinTerms_keys.mp hk with ⟨h, _, _⟩ | ⟨h, _⟩ | ⟨h, _⟩
  · exact Or.inr (mem_sideCols.mp h).1
  · exact Or.inl (mem_sideCols.mp h).1
  · exact Or.inr (mem_sideCols.mp h).1

theorem joinTerms_keys_sup {lf : Bool} {usg ca cb onA onB : List String} (husg : ∀ c ∈ usg, c ∈ ca ∨ c ∈ cb) :
    ∀ c ∈ usg, c ∈ (joinTerms lf usg (sideCols ca usg onA onB) (sideCols cb usg onA onB)).map (·.1) := by
  intro c hc
  rw [mem_joinTerms_keys]
  by_cases ha : c ∈ ca
  · by_cases hb : c ∈ cb
    · exact Or.inl ⟨mem_sideCols.mpr ⟨hb, Or.inl hc⟩, mem_sideCols.mpr ⟨ha, Or.inl hc⟩, hc⟩
    · exact Or.inr (Or.inl ⟨mem_sideCols.mpr ⟨ha, Or.inl hc⟩, fun h => hb (mem_sideCols.mp h).1⟩)
  · have hb := (husg c hc).resolve_left ha
    exact Or.inr (Or.inr ⟨mem_sideCols.mpr ⟨hb, Or.inl hc⟩, fun h => ha (mem_sideCols.mp h).1⟩)

/-- cell by cell, the SELECT list of the swapped join (left input `b`, right input `a`, `COALESCE(second, first)`)
computes the reference join cell -/
theorem joinTerms_cell_swapped {a b : Ops} {onA onB usg : List String} {jt : JoinType}
    (husg : ∀ c ∈ usg, c ∈ (Ops.join a b onA onB jt).cols) (x y : Option Row) {c : String} (hc : c ∈ usg) :
    sqlCell (sideCols b.cols usg onA onB) (sideCols a.cols usg onA onB)
        (joinTerms false usg (sideCols b.cols usg onA onB) (sideCols a.cols usg onA onB)) y x c =
      refCell a.cols b.cols x y c := by
  apply sqlCell_swapped_eq_refCell
  · rw [mem_sideCols]; exact ⟨fun h => h.1, fun h => ⟨h, Or.inl hc⟩⟩
  · rw [mem_sideCols]; exact ⟨fun h => h.1, fun h => ⟨h, Or.inl hc⟩⟩
  · exact (mem_joinNodeCols a b onA onB jt c).mp (husg c hc)
  · intro ha hb
    exact ⟨c, lookup_joinTerms_common (mem_sideCols.mpr ⟨ha, Or.inl hc⟩) (mem_sideCols.mpr ⟨hb, Or.inl hc⟩) hc⟩
  · intro hn lf c' h
    have := lookup_joinTerms_coalesce h
    exact hn ⟨(mem_sideCols.mp this.1).1, (mem_sideCols.mp this.2).1⟩

/-- **The swapped LEFT join step** (SQLite's rendering of a RIGHT join: left input `b`, right input `a`, keys swapped,
`COALESCE(a.c, b.c)`) over two sound sub-queries returns, up to row order, the reference RIGHT join of the two
reference tables – for every null pattern in the keys. -/
theorem sound_joinStep_swapped {nl nr : Near} {a b : Ops} {onA onB usg Sl Sr : List String} {ta tb : Table}
    (nm ln rn : String) (key : Option String)
    (hoa : ∀ c ∈ onA, c ∈ a.cols) (hob : ∀ c ∈ onB, c ∈ b.cols) (hlen : onA.isEmpty = onB.isEmpty)
    (hta : ta.cols = a.cols) (htb : tb.cols = b.cols)
    (husg : ∀ c ∈ usg, c ∈ (Ops.join a b onA onB .right).cols)
    (hl : Sound Θ ec env nl Sl b.cols tb) (hlS : ∀ c ∈ sideCols b.cols usg onA onB, c ∈ Sl)
    (hr : Sound Θ ec env nr Sr a.cols ta) (hrS : ∀ c ∈ sideCols a.cols usg onA onB, c ∈ Sr) :
    SoundP Θ ec env
      (.join nm (joinTerms false usg (sideCols b.cols usg onA onB) (sideCols a.cols usg onA onB)) nl
        (sideCols b.cols usg onA onB) ln nr (sideCols a.cols usg onA onB) rn .left onB onA key)
      usg (Ops.join a b onA onB .right).cols
      ((semJoin SemCfg.ref .right onA onB ta tb (appendNew a.cols b.cols)).selectCols
        (Ops.join a b onA onB .right).cols) := by
  refine ⟨?_, ?_⟩
  · intro u' hu' force
    obtain ⟨Tl, hTl, _, hTlr⟩ := hl.req _ hlS false
    obtain ⟨Tr, hTr, _, hTrr⟩ := hr.req _ hrS false
    rw [semNear_join, hTl, hTr]
    simp only [Except.bind]
    rw [if_neg (by decide)]
    refine ⟨_, rfl, subset_joinOut _ _, ?_⟩
    have hu'n : ∀ c ∈ u', c ∈ (Ops.join a b onA onB .right).cols := fun c hc => husg c (hu' c hc)
    have hnall : ∀ c ∈ (Ops.join a b onA onB .right).cols, c ∈ appendNew a.cols b.cols := by
      intro c hc; exact mem_appendNew.mpr ((mem_joinNodeCols a b onA onB .right c).mp hc)
    simp only [Table.selectCols]
    rw [joinRows_select _ _ _ (subset_joinOut _ _),
      joinRowsG_transport _ _ hTlr hTrr
        (refMatch_select _ _ (fun c hc => mem_sideCols.mpr ⟨hob c hc, Or.inr (Or.inr hc)⟩)
          (fun c hc => mem_sideCols.mpr ⟨hoa c hc, Or.inr (Or.inl hc)⟩))
        (fun x y => List.map_congr_left (fun c _ => by rw [sqlCell_select])),
      select_map_select _ hu'n, semJoin_eq, joinRowsG_map, hta, htb]
    refine (joinRowsG_swap _ _ _ _ _ _).trans ?_
    have hcell : ∀ x y : Option Row,
        u'.map (fun c => (c, sqlCell (sideCols b.cols usg onA onB) (sideCols a.cols usg onA onB)
          (joinTerms false usg (sideCols b.cols usg onA onB) (sideCols a.cols usg onA onB)) y x c)) =
        (joinRow a.cols b.cols (appendNew a.cols b.cols) x y).select u' := by
      intro x y
      rw [joinRow_eq, select_mkRow _ (fun c hc => hnall c (hu'n c hc))]
      exact List.map_congr_left (fun c hc => by rw [joinTerms_cell_swapped husg x y (hu' c hc)])
    have hm : ∀ ra rb : Row, refMatch SemCfg.ref .left onB onA rb ra = refMatch SemCfg.ref .right onA onB ra rb := by
      intro ra rb
      simp only [refMatch, keyMatch_symm SemCfg.ref (keyOf rb onB), hlen]
      rfl
    have e := joinRowsG_congr (m := fun ra rb => refMatch SemCfg.ref .left onB onA rb ra)
      (m' := refMatch SemCfg.ref .right onA onB)
      (mk := fun x y => u'.map (fun c => (c, sqlCell (sideCols b.cols usg onA onB) (sideCols a.cols usg onA onB)
          (joinTerms false usg (sideCols b.cols usg onA onB) (sideCols a.cols usg onA onB)) y x c)))
      (mk' := fun x y => (joinRow a.cols b.cols (appendNew a.cols b.cols) x y).select u')
      false true (la := ta.rows) (lb := tb.rows)
      (fun ra _ rb _ => hm ra rb) (fun _ _ _ _ => hcell _ _) (fun _ _ => hcell _ _) (fun _ _ => hcell _ _)
    exact e ▸ List.Perm.refl _
  · intro _
    exact ⟨_, rfl, fun k hk => (mem_joinNodeCols a b onA onB .right k).mpr (joinTerms_keys_sub k hk).symm,
      joinTerms_keys_sup (fun c hc => ((mem_joinNodeCols a b onA onB .right c).mp (husg c hc)).symm)⟩

/-- shape of the translation of a RIGHT join on a dialect that emulates it (SQLite): the sources are translated in
swapped order (`b` first) and joined by a LEFT join with swapped keys (fix D31) -/
theorem toNear_join_sqlite_right {fuel : Nat} {a b : Ops} {onA onB u : List String} {st st' : Nat} {q : Near}
    (hemu : cfg.emulateRightFull = true)
    (h : toNear cfg (fuel + 1) (.join a b onA onB .right) (some u) st = .ok (q, st')) :
    ∃ nl nr st1 nm ln rn key,
      joinUsg (.join a b onA onB .right) u ≠ [] ∧
      (∀ c ∈ joinUsg (.join a b onA onB .right) u, c ∈ (Ops.join a b onA onB .right).cols) ∧
      toNear cfg fuel b (some (sideCols b.cols (joinUsg (.join a b onA onB .right) u) onA onB)) (st + 1) = .ok (nl, st1) ∧
      toNear cfg fuel a (some (sideCols a.cols (joinUsg (.join a b onA onB .right) u) onA onB)) st1 = .ok (nr, st') ∧
      q = .join nm (joinTerms false (joinUsg (.join a b onA onB .right) u)
            (sideCols b.cols (joinUsg (.join a b onA onB .right) u) onA onB)
            (sideCols a.cols (joinUsg (.join a b onA onB .right) u) onA onB))
          nl (sideCols b.cols (joinUsg (.join a b onA onB .right) u) onA onB) ln
          nr (sideCols a.cols (joinUsg (.join a b onA onB .right) u) onA onB) rn .left onB onA key := by
  rw [toNear] at h
  have e1 : (JoinType.right == JoinType.right) = true := rfl
  have e2 : (JoinType.right == JoinType.full) = false := rfl
  simp only [Option.getD_some, hemu, e1, e2, Bool.and_true, Bool.and_false, Bool.false_eq_true, ↓reduceIte] at h
  obtain ⟨i, s1, h1, h⟩ := bindM_ok.mp h
  cases fresh_ok.mp h1
  obtain ⟨_, s2, h2, h⟩ := bindM_ok.mp h
  obtain ⟨hne, e2⟩ := guardM_ok.mp h2
  cases e2
  obtain ⟨_, s3, h3, h⟩ := bindM_ok.mp h
  obtain ⟨hsub, e3⟩ := guardM_ok.mp h3
  cases e3
  obtain ⟨nl, s4, h4, h⟩ := bindM_ok.mp h
  obtain ⟨nr, s5, h5, h⟩ := bindM_ok.mp h
  cases pureM_ok.mp h
  refine ⟨nl, nr, s4, _, _, _, _, ?_, subset_iff.mp hsub, h4, h5, rfl⟩
  simpa [joinUsg] using hne

/-- **Induction step for a RIGHT join on SQLite** (emulated as the swapped LEFT join): sound up to row order against
the reference RIGHT join, for every data (null keys included). -/
theorem transOK_join_sqlite_right (hJU : ∀ q : Near, q.isJU = true → G q) (fuel : Nat) (a b : Ops)
    (onA onB : List String) (hemu : cfg.emulateRightFull = true)
    (hoa : ∀ c ∈ onA, c ∈ a.cols) (hob : ∀ c ∈ onB, c ∈ b.cols) (hlen : onA.isEmpty = onB.isEmpty)
    (hca : ∀ ta, semE ec Θ SemCfg.ref env a = .ok ta → ta.cols = a.cols)
    (hcb : ∀ tb, semE ec Θ SemCfg.ref env b = .ok tb → tb.cols = b.cols)
    (iha : TransOK Θ ec env SemCfg.ref G cfg fuel a) (ihb : TransOK Θ ec env SemCfg.ref G cfg fuel b) :
    TransOKP Θ ec env SemCfg.ref G cfg (fuel + 1) (.join a b onA onB .right) := by
  intro u st q st' tp _ h hsem
  obtain ⟨nl, nr, st1, nm, ln, rn, key, _, hsub, hnl, hnr, rfl⟩ := toNear_join_sqlite_right hemu h
  obtain ⟨ta, tb, hta, htb, rfl⟩ := semG_join_ok hsem
  obtain ⟨_, Sl, hSl, _, hsl⟩ := ihb _ _ nl st1 tb (fun c hc => (mem_sideCols.mp hc).1) hnl htb
  obtain ⟨_, Sr, hSr, _, hsr⟩ := iha _ _ nr st' ta (fun c hc => (mem_sideCols.mp hc).1) hnr hta
  exact ⟨hJU _ rfl, _, subset_joinUsg _ u, hsub,
    sound_joinStep_swapped nm ln rn key hoa hob hlen (hca ta hta) (hcb tb htb) hsub hsl hSl hsr hSr⟩

end Sql
end DAVerif
