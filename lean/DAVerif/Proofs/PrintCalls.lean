import DAVerif.Proofs.BuilderReach
import DAVerif.Ops.PrintCalls
/-
C12 – lemmas: the builder normal form `NF` (every node is what the builder call printed for it returns on the
node's own source), its preservation by every builder call (`build_nf`), and `rebuild (toCalls p) = .ok p` for
normal-form pipelines inside the guard `noRemerge`.

All names live in `DAVerif.C12`.
-/
namespace DAVerif.C12
open DAVerif Rules26

set_option linter.unusedSimpArgs false
set_option linter.unusedVariables false

/-! ### the printed `partition_by` is as good as the given one -/

theorem partCols_printPart_of (part : List String) (w : Bool) (h : w = false → part = []) :
    partCols (printPart part w) = part := by
  unfold printPart
  cases w with
  | false => simp [partCols, h rfl]
  | true =>
    cases part with
    | nil => simp [partCols]
    | cons c cs => simp [partCols]

/-- the windowed-situation of a step does not change when the partition argument is replaced by the one the
printer writes for the resulting node -/
theorem windowed_printPart (ops : Assign) (pa : PartArg) (order : List String) :
    windowedSituation ops (printPart (partCols pa) (windowedSituation ops pa order)) order
      = windowedSituation ops pa order := by
  cases hW : windowedSituation ops pa order with
  | true =>
    unfold printPart
    simp only [↓reduceIte]
    cases hp : (partCols pa).isEmpty with
    | true => simp [windowedSituation]
    | false => simp [windowedSituation, hp]
  | false =>
    simp only [printPart, Bool.false_eq_true, ↓reduceIte]
    simp only [windowedSituation, Bool.or_eq_false_iff] at hW ⊢
    exact ⟨⟨hW.1.1, trivial⟩, hW.2⟩

theorem partCols_printPart (ops : Assign) (pa : PartArg) (order : List String) :
    partCols (printPart (partCols pa) (windowedSituation ops pa order)) = partCols pa := by
  apply partCols_printPart_of
  intro hW
  simp only [windowedSituation, Bool.or_eq_false_iff] at hW
  cases pa with
  | none => rfl
  | one => rfl
  | cols cs => simpa [partCols] using hW.1.2

/-- `extendPre` looks at the partition argument through its column list only -/
theorem extendPre_congr (cols : List String) (ops : Assign) (pa pa' : PartArg) (order rev : List String)
    (h : partCols pa' = partCols pa) : extendPre cols ops pa' order rev = extendPre cols ops pa order rev := by
  simp only [extendPre, h]

/-- `ExtendNode.__init__` looks at the partition argument through its column list and the windowed situation -/
theorem mkExtend_congr (src : Ops) (ops : Assign) (pa pa' : PartArg) (order rev : List String)
    (h : partCols pa' = partCols pa) (hw : windowedSituation ops pa' order = windowedSituation ops pa order) :
    mkExtend src ops pa' order rev = mkExtend src ops pa order rev := by
  rw [mkExtend_eq, mkExtend_eq, h, hw]

theorem compatB_eq (pa : PartArg) (part1 : List String) : compatB pa part1 = (partCols pa == part1) := by
  unfold compatB
  cases pa with
  | none => cases part1 <;> simp [partCols]
  | one => cases part1 <;> simp [partCols]
  | cols cs => cases cs <;> cases part1 <;> simp [partCols]

theorem mergeCond_eq (part1 order1 rev1 : List String) (w1 : Bool) (ops : Assign) (pa : PartArg)
    (order rev : List String) :
    mergeCond part1 order1 rev1 w1 ops pa order rev =
      ((partCols pa == part1) && (windowedSituation ops pa order == w1) && order == order1 && rev == rev1) := by
  unfold mergeCond
  rw [compatB_eq, impliesWindowed_eq]

theorem mergeCond_congr (part1 order1 rev1 : List String) (w1 : Bool) (ops : Assign) (pa pa' : PartArg)
    (order rev : List String)
    (h : partCols pa' = partCols pa) (hw : windowedSituation ops pa' order = windowedSituation ops pa order) :
    mergeCond part1 order1 rev1 w1 ops pa' order rev = mergeCond part1 order1 rev1 w1 ops pa order rev := by
  rw [mergeCond_eq, mergeCond_eq, h, hw]

theorem remerges_extend (src : Ops) (ops1 : Assign) (part1 order1 rev1 : List String) (w1 : Bool)
    (ops : Assign) (pa : PartArg) (order rev : List String) :
    remerges (.extend src ops1 part1 order1 rev1 w1) ops pa order rev =
      (mergeCond part1 order1 rev1 w1 ops pa order rev && (tryMergeOps ops1 ops).isSome) := by
  cases pa <;> rfl

/-- what `extend_parsed_` does on a stripped node, in terms of the guard -/
theorem extendTop_of_not_remerges (s : Ops) (ops : Assign) (pa : PartArg) (order rev : List String)
    (h : remerges s ops pa order rev = false) : extendTop s ops pa order rev = mkExtend s ops pa order rev := by
  cases s with
  | extend src ops1 part1 order1 rev1 w1 =>
    rw [remerges_extend] at h
    simp only [extendTop, extendMerge]
    cases hc : mergeCond part1 order1 rev1 w1 ops pa order rev with
    | false => simp
    | true =>
      rw [hc] at h
      simp only [Bool.true_and] at h
      cases hm : tryMergeOps ops1 ops with
      | none => simp
      | some n => rw [hm] at h; simp at h
  | _ => rfl

/-! ### assignments that `parse_assignments_in_context` accepts -/

/-- the three conditions of `parseAssignments` -/
def AssignOK (cols : List String) (ops : Assign) : Prop :=
  (keys ops).Nodup ∧ (∀ c ∈ usedBy ops, c ∈ cols) ∧
  (∀ kv ∈ ops, ∀ c ∈ Term.colsRaw kv.2, c ≠ kv.1 → c ∉ keys ops)

theorem parseAssignments_ok_iff (cols : List String) (ops : Assign) :
    parseAssignments cols ops = .ok ops ↔ AssignOK cols ops := by
  rw [parseAssignments_eq]
  unfold AssignOK
  constructor
  · intro h
    split at h
    · rename_i h1
      split at h
      · rename_i h2
        split at h
        · rename_i h3
          exact ⟨by simpa using h1, by simpa using h2, by simpa using h3⟩
        · exact absurd h (by simp)
      · exact absurd h (by simp)
    · exact absurd h (by simp)
  · rintro ⟨h1, h2, h3⟩
    rw [if_pos (by simpa using h1), if_pos (by simpa using h2), if_pos (by simpa using h3)]

theorem parseAssignments_ok_self {cols : List String} {ops parsed : Assign}
    (h : parseAssignments cols ops = .ok parsed) : parseAssignments cols ops = .ok ops := by
  rw [(parseAssignments_ok h).1] at h; exact h

/-- what a successful `try_to_merge_ops` returns, in the detail the re-parse needs: some of the first step's
assignments (those whose key the second step does not re-assign) followed by the second step's; the kept ones
neither produce nor read a column the second step produces, the second step reads no column the first produced -/
theorem tryMergeOps_some' {ops1 ops2 newOps : Assign} (h : tryMergeOps ops1 ops2 = some newOps) :
    ∃ f : String × Term → Bool, newOps = ops1.filter f ++ ops2 ∧
      (∀ k ∈ keys (ops1.filter f), k ∉ keys ops2) ∧
      (∀ c ∈ usedBy (ops1.filter f), c ∉ keys ops2) ∧
      (∀ c ∈ usedBy ops2, c ∉ keys ops1) := by
  have hu : ∀ (o : Assign) c, c ∈ usedBy o → c ∈ Term.colsUsedOps o := by
    intro o c hc
    obtain ⟨kv, hkv, hc⟩ := List.mem_flatMap.mp hc
    exact mem_colsUsedOps.mpr ⟨kv, hkv, hc⟩
  have h2 := (tryMergeOps_some h).2
  unfold tryMergeOps at h
  simp only [] at h
  split at h
  · repeat (split at h; · exact absurd h (by simp))
    rename_i _ _ _ _ _ _ hk
    simp only [Option.some.injEq] at h
    refine ⟨_, h.symm, ?_, ?_, h2⟩
    · intro k hk1 hk2
      obtain ⟨kv, hkv, rfl⟩ := List.mem_map.mp hk1
      have := (List.mem_filter.mp hkv)
      have hin : kv.1 ∈ inter (List.map (fun x => x.1) ops1) (List.map (fun x => x.1) ops2) :=
        mem_inter.mpr ⟨List.mem_map.mpr ⟨kv, this.1, rfl⟩, hk2⟩
      simpa [hin] using this.2
    · intro c hc hk2
      have := disjoint_iff.mp (by simpa using hk) c (hu _ c hc)
      exact this hk2
  · rename_i hcommon
    repeat (split at h; · exact absurd h (by simp))
    rename_i hd1 _
    simp only [Option.some.injEq] at h
    have hall : ops1.filter (fun _ => true) = ops1 := List.filter_eq_self.mpr (fun _ _ => rfl)
    refine ⟨fun _ => true, by rw [hall]; exact h.symm, ?_, ?_, h2⟩
    · rw [hall]
      intro k hk1 hk2
      have hin : k ∈ inter (List.map (fun x => x.1) ops1) (List.map (fun x => x.1) ops2) :=
        mem_inter.mpr ⟨hk1, hk2⟩
      simp only [Bool.not_eq_eq_eq_not, Bool.not_true, Bool.not_eq_false] at hcommon
      have : inter (List.map (fun x => x.1) ops1) (List.map (fun x => x.1) ops2) = [] := by
        simpa using hcommon
      rw [this] at hin
      simp at hin
    · rw [hall]
      intro c hc hk2
      have := disjoint_iff.mp (by simpa using hd1) c (hu _ c hc)
      exact this hk2

/-- merging keeps the assignments acceptable to the parser, over the lower node's columns -/
theorem assignOK_merge {sc : List String} {ops1 ops2 newOps : Assign}
    (h1 : AssignOK sc ops1) (h2 : AssignOK (appendNew sc (keys ops1)) ops2)
    (hm : tryMergeOps ops1 ops2 = some newOps) : AssignOK sc newOps := by
  obtain ⟨f, rfl, hk, hu1, hu2⟩ := tryMergeOps_some' hm
  obtain ⟨n1, c1, d1⟩ := h1
  obtain ⟨n2, c2, d2⟩ := h2
  have hsub : ∀ k ∈ keys (ops1.filter f), k ∈ keys ops1 := by
    intro k hk
    obtain ⟨kv, hkv, rfl⟩ := List.mem_map.mp hk
    exact List.mem_map.mpr ⟨kv, (List.mem_filter.mp hkv).1, rfl⟩
  refine ⟨?_, ?_, ?_⟩
  · simp only [keys, List.map_append]
    rw [List.nodup_append]
    refine ⟨?_, n2, ?_⟩
    · exact List.Nodup.sublist (List.Sublist.map _ List.filter_sublist) n1
    · intro a ha b hb hab
      subst hab
      exact hk a ha hb
  · intro c hc
    simp only [usedBy, List.flatMap_append, List.mem_append] at hc
    rcases hc with hc | hc
    · obtain ⟨kv, hkv, hc⟩ := List.mem_flatMap.mp hc
      exact c1 c (List.mem_flatMap.mpr ⟨kv, (List.mem_filter.mp hkv).1, hc⟩)
    · rcases mem_appendNew.mp (c2 c hc) with h | h
      · exact h
      · exact absurd h (hu2 c hc)
  · intro kv hkv c hc hne
    simp only [keys, List.map_append, List.mem_append, not_or]
    rcases List.mem_append.mp hkv with hkv | hkv
    · have hkv1 := (List.mem_filter.mp hkv).1
      refine ⟨fun hm' => d1 kv hkv1 c hc hne (hsub c hm'), ?_⟩
      exact hu1 c (List.mem_flatMap.mpr ⟨kv, hkv, hc⟩)
    · refine ⟨fun hm' => hu2 c (List.mem_flatMap.mpr ⟨kv, hkv, hc⟩) (hsub c hm'), ?_⟩
      exact d2 kv hkv c hc hne

/-! ### the builder normal form -/

/-- what an `ExtendNode` over `s` satisfies: non-empty assignments the parser accepts over `s`'s columns, the
argument checks of `extend_parsed_` and the constructor checks of `ExtendNode.__init__` pass for the *printed*
arguments, and the constructor returns exactly this node -/
def ExtLocal (s : Ops) (ops : Assign) (part order rev : List String) (w : Bool) : Prop :=
  ops ≠ [] ∧ parseAssignments s.cols ops = .ok ops ∧
  extendPre s.cols ops (printPart part w) order rev = .ok () ∧
  mkExtend s ops (printPart part w) order rev = .ok (.extend s ops part order rev w)

/-- **Builder normal form.**  At every node: the source is not an `order_rows` without limit (`strip s = s`: the
builders skip those), and the builder call printed for the node, applied to the node's own source, returns the
node.  For an extend node the last part is stated for the path that does not merge (`ExtLocal`); whether a merge
would happen is the guard `noRemerge`. -/
def NF : Ops → Prop
  | .table _ cs => cs ≠ [] ∧ cs.Nodup
  | .extend s ops part order rev w => NF s ∧ strip s = s ∧ ExtLocal s ops part order rev w
  | .project s ops g => NF s ∧ strip s = s ∧ build s (.project ops g) = .ok (.project s ops g)
  | .selectRows s e => NF s ∧ strip s = s ∧ build s (.selectRows (some e)) = .ok (.selectRows s e)
  | .selectCols s cs => NF s ∧ strip s = s ∧ build s (.selectCols cs) = .ok (.selectCols s cs)
  | .dropCols s cs => NF s ∧ strip s = s ∧ build s (.dropCols cs) = .ok (.dropCols s cs)
  | .order s cs rev lim => NF s ∧ strip s = s ∧ build s (.order cs rev lim) = .ok (.order s cs rev lim)
  | .rename s m => NF s ∧ strip s = s ∧ build s (.rename m) = .ok (.rename s m)
  | .mapCols s m dels => NF s ∧ strip s = s ∧ build s (.mapCols (printMap m dels)) = .ok (.mapCols s m dels)
  | .join a b onA onB jt => NF a ∧ strip a = a ∧ NF b ∧ onA.length = onB.length ∧
      build a (.join b onA onB jt.toStr false) = .ok (.join a b onA onB jt)
  | .concat a b idc an bn => NF a ∧ strip a = a ∧ NF b ∧
      build a (.concat (some b) idc an bn) = .ok (.concat a b idc an bn)
  | .convert s rm => NF s ∧ strip s = s ∧ build s (.convert (some rm)) = .ok (.convert s rm)

theorem NF.stripped {p : Ops} (h : NF p) : NF (strip p) := by
  fun_induction strip p with
  | case1 src _ _ ih => exact ih h.1
  | case2 p _ => exact h

theorem NF.wf_table {n : String} {cs : List String} (h : NF (.table n cs)) : mkTable n cs = .ok (.table n cs) := by
  obtain ⟨h1, h2⟩ := h
  have e1 : (!cs.isEmpty) = true := by cases cs <;> simp_all
  simp only [mkTable, e1, nodupB_iff.mpr h2, ok?_true]
  rfl

/-! ### every builder call on `strip p` is the call on `p` (for the calls that are not the identity) -/

theorem build_strip_project (p : Ops) (ops : Assign) (g : List String) :
    build (strip p) (.project ops g) = build p (.project ops g) := by
  simp only [build, projectParsed_strip, strip_cols, strip_idem]

theorem build_strip_selectRows (p : Ops) (e : Term) :
    build (strip p) (.selectRows (some e)) = build p (.selectRows (some e)) := by
  simp only [build, selectRowsB_eq, strip_cols, strip_idem]

theorem selectColsB_strip (p : Ops) (cs : List String) : selectColsB (strip p) cs = selectColsB p cs := by
  fun_induction strip p with
  | case1 src _ _ ih => rw [ih]; simp only [selectColsB]
  | case2 p _ => rfl

theorem build_strip_dropCols (p : Ops) (cs : List String) (h : cs.isEmpty = false) :
    build (strip p) (.dropCols cs) = build p (.dropCols cs) := by
  simp only [build, h, Bool.false_eq_true, ↓reduceIte, dropColsB_eq, strip_idem]

theorem build_strip_order (p : Ops) (cs rev : List String) (lim : Option Nat) (h : (cs.isEmpty && lim.isNone) = false) :
    build (strip p) (.order cs rev lim) = build p (.order cs rev lim) := by
  simp only [build, h, Bool.false_eq_true, ↓reduceIte, orderB_eq, strip_idem]

theorem build_strip_rename (p : Ops) (m : List (String × String)) (h : m.isEmpty = false) :
    build (strip p) (.rename m) = build p (.rename m) := by
  simp only [build, h, Bool.false_eq_true, ↓reduceIte, renameB_eq, strip_idem]

theorem build_strip_mapCols (p : Ops) (m : List (String × Option String)) (h : m.isEmpty = false) :
    build (strip p) (.mapCols m) = build p (.mapCols m) := by
  simp only [build, h, Bool.false_eq_true, ↓reduceIte, mapColsB_eq, strip_idem]

theorem build_strip_join (p b : Ops) (onA onB : List String) (jt : String) (c : Bool) :
    build (strip p) (.join b onA onB jt c) = build p (.join b onA onB jt c) := by
  simp only [build, joinB_eq, strip_idem]

theorem build_strip_concat (p b : Ops) (idc : Option String) (an bn : String) :
    build (strip p) (.concat (some b) idc an bn) = build p (.concat (some b) idc an bn) := by
  simp only [build, concatB_eq, strip_idem]

theorem build_strip_convert (p : Ops) (rm : RecMap) :
    build (strip p) (.convert (some rm)) = build p (.convert (some rm)) := by
  simp only [build, convertB_eq, strip_idem]

theorem build_strip_extend (p : Ops) (ops : Assign) (pa : PartArg) (order rev : List String) (hne : ops ≠ []) :
    build (strip p) (.extend ops pa order rev) = build p (.extend ops pa order rev) := by
  simp only [build, strip_cols]
  cases hpa : parseAssignments p.cols ops with
  | error e => rfl
  | ok parsed =>
    have : parsed = ops := (parseAssignments_ok hpa).1
    subst this
    have hne' : parsed.isEmpty = false := by cases parsed <;> simp_all
    show extendParsed (strip p) parsed pa order rev = extendParsed p parsed pa order rev
    rw [extendParsed_strip _ _ _ _ _ hne', extendParsed_strip _ _ _ _ _ hne', strip_cols, strip_idem]

/-! ### the shape of what each constructor returns -/

theorem mkProject_shape {s : Ops} {ops : Assign} {g : List String} {q : Ops} (h : mkProject s ops g = .ok q) :
    q = .project s ops g := by
  simp only [mkProject, forIn_ok?, ok?_bind_ok, pure_ok] at h
  exact h.2.2.2.2.symm

theorem mkDropCols_shape {s : Ops} {cs : List String} {q : Ops} (h : mkDropCols s cs = .ok q) :
    q = .dropCols s cs := by
  simp only [mkDropCols, ok?_bind_ok, pure_ok] at h
  exact h.2.2.symm

theorem mkOrder_shape {s : Ops} {cs rev : List String} {lim : Option Nat} {q : Ops}
    (h : mkOrder s cs rev lim = .ok q) : q = .order s cs rev lim := by
  simp only [mkOrder, ok?_bind_ok, pure_ok] at h
  exact h.2.2.symm

theorem mkRename_shape {s : Ops} {m : List (String × String)} {q : Ops} (h : mkRename s m = .ok q) :
    q = .rename s m := by
  simp only [mkRename, ok?_bind_ok, pure_ok] at h
  exact h.2.2.2.symm

theorem mkConvert_shape {s : Ops} {rm : RecMap} {q : Ops} (h : mkConvert s rm = .ok q) : q = .convert s rm := by
  simp only [mkConvert, ok?_bind_ok, pure_ok] at h
  exact h.2.2.2.symm

theorem mkConcat_shape {a b : Ops} {idc : Option String} {an bn : String} {q : Ops}
    (h : mkConcat a b idc an bn = .ok q) : q = .concat a b idc an bn := by
  simp only [mkConcat, ok?_bind_ok] at h
  obtain ⟨_, _, h⟩ := h
  cases idc with
  | none => simp only [pure_bind, pure_ok] at h; exact h.symm
  | some c => simp only [ok?_bind_ok, pure_ok] at h; exact h.2.symm

/-- the remapping / deletion parts of a `map_columns` dictionary -/
def remapOf (m : List (String × Option String)) : List (String × String) :=
  m.filterMap (fun kv => kv.2.map (fun v => (kv.1, v)))
def delsOf (m : List (String × Option String)) : List String := (m.filter (fun kv => kv.2.isNone)).map (·.1)

theorem mkMapCols_shape {s : Ops} {m : List (String × Option String)} {q : Ops} (h : mkMapCols s m = .ok q) :
    q = .mapCols s (remapOf m) (delsOf m) := by
  simp only [mkMapCols, ok?_bind_ok, pure_ok] at h
  exact h.2.2.2.2.symm

theorem remapOf_printMap (r : List (String × String)) (d : List String) : remapOf (printMap r d) = r := by
  unfold remapOf printMap
  rw [List.filterMap_append]
  have h1 : ∀ r : List (String × String),
      List.filterMap (fun kv : String × Option String => kv.2.map (fun v => (kv.1, v)))
        (r.map (fun kv => (kv.1, some kv.2))) = r := by
    intro r
    induction r with
    | nil => rfl
    | cons a r ih => simp only [List.map_cons, List.filterMap_cons, Option.map_some]; rw [ih]
  have h2 : ∀ d : List String,
      List.filterMap (fun kv : String × Option String => kv.2.map (fun v => (kv.1, v)))
        (d.map (fun k => (k, none))) = [] := by
    intro d
    induction d with
    | nil => rfl
    | cons a d ih => simp only [List.map_cons, List.filterMap_cons, Option.map_none]; exact ih
  rw [h1, h2, List.append_nil]

theorem delsOf_printMap (r : List (String × String)) (d : List String) : delsOf (printMap r d) = d := by
  unfold delsOf printMap
  rw [List.filter_append, List.map_append]
  have h1 : ∀ r : List (String × String),
      List.filter (fun kv : String × Option String => kv.2.isNone) (r.map (fun kv => (kv.1, some kv.2))) = [] := by
    intro r
    induction r with
    | nil => rfl
    | cons a r ih => simp only [List.map_cons, List.filter_cons, Option.isNone_some, Bool.false_eq_true, ↓reduceIte]; exact ih
  have h2 : ∀ d : List String,
      List.map (·.1) (List.filter (fun kv : String × Option String => kv.2.isNone) (d.map (fun k => (k, none)))) = d := by
    intro d
    induction d with
    | nil => rfl
    | cons a d ih => simp only [List.map_cons, List.filter_cons, Option.isNone_none, ↓reduceIte]; rw [ih]
  rw [h1, h2, List.map_nil, List.nil_append]

theorem keys_printMap (r : List (String × String)) (d : List String) :
    (printMap r d).map (·.1) = r.map (·.1) ++ d := by
  unfold printMap
  rw [List.map_append, List.map_map, List.map_map]
  congr 1
  induction d with
  | nil => rfl
  | cons a d ih => simp only [List.map_cons, Function.comp]; congr 1

theorem mem_remap_dels (m : List (String × Option String)) (k : String) :
    (k ∈ (remapOf m).map (·.1) ∨ k ∈ delsOf m) ↔ k ∈ m.map (·.1) := by
  induction m with
  | nil => simp [remapOf, delsOf]
  | cons kv m ih =>
    obtain ⟨a, v⟩ := kv
    have hr : remapOf ((a, v) :: m) = (match v with | none => [] | some w => [(a, w)]) ++ remapOf m := by
      cases v <;> simp [remapOf, List.filterMap_cons]
    have hd : delsOf ((a, v) :: m) = (match v with | none => [a] | some _ => []) ++ delsOf m := by
      cases v <;> simp [delsOf, List.filter_cons]
    rw [hr, hd]
    cases v with
    | none =>
      simp only [List.nil_append, List.cons_append, List.mem_cons, List.map_cons]
      rw [← ih]
      constructor
      · rintro (h | h | h)
        · exact Or.inr (Or.inl h)
        · exact Or.inl h
        · exact Or.inr (Or.inr h)
      · rintro (h | h | h)
        · exact Or.inr (Or.inl h)
        · exact Or.inl h
        · exact Or.inr (Or.inr h)
    | some w =>
      simp only [List.nil_append, List.cons_append, List.mem_cons, List.map_cons]
      rw [← ih]
      constructor
      · rintro ((h | h) | h)
        · exact Or.inl h
        · exact Or.inr (Or.inl h)
        · exact Or.inr (Or.inr h)
      · rintro (h | h | h)
        · exact Or.inl (Or.inl h)
        · exact Or.inl (Or.inr h)
        · exact Or.inr h

theorem mem_keys_printMap (m : List (String × Option String)) (k : String) :
    k ∈ (printMap (remapOf m) (delsOf m)).map (·.1) ↔ k ∈ m.map (·.1) := by
  rw [keys_printMap, List.mem_append]
  exact mem_remap_dels m k

/-- `MapColumnsNode.__init__`, with the three things it reads from the dictionary made explicit -/
def mkMapColsCore (s : Ops) (ks : List String) (remap : List (String × String)) (dels : List String) :
    Except Err Ops := do
  let newCols := remap.map (·.2)
  let sc := s.cols
  ok? (subset ks sc) .valueError
  let both := inter newCols ks
  ok? (((sc.filter (fun c => !both.contains c)).filter (fun c => newCols.contains c)).isEmpty) .valueError
  let node := Ops.mapCols s remap dels
  ok? (!node.cols.isEmpty) .assertionError
  ok? (nodupB node.cols) .assertionError
  return node

theorem mkMapCols_core (s : Ops) (m : List (String × Option String)) :
    mkMapCols s m = mkMapColsCore s (m.map (·.1)) (remapOf m) (delsOf m) := rfl

/-- `MapColumnsNode.__init__` gives the same answer on the dictionary the printer writes (renamings first, then
deletions) as on the original dictionary -/
theorem mkMapCols_printMap (s : Ops) (m : List (String × Option String)) :
    mkMapCols s (printMap (remapOf m) (delsOf m)) = mkMapCols s m := by
  have hc : ∀ k, ((printMap (remapOf m) (delsOf m)).map (·.1)).contains k = (m.map (·.1)).contains k := by
    intro k
    rw [Bool.eq_iff_iff]
    simp only [List.contains_eq_mem, decide_eq_true_eq]
    exact mem_keys_printMap m k
  have hsub : subset ((printMap (remapOf m) (delsOf m)).map (·.1)) s.cols = subset (m.map (·.1)) s.cols := by
    rw [Bool.eq_iff_iff, subset_iff, subset_iff]
    constructor
    · intro h x hx; exact h x ((mem_keys_printMap m x).mpr hx)
    · intro h x hx; exact h x ((mem_keys_printMap m x).mp hx)
  have hinter : ∀ l : List String, inter l ((printMap (remapOf m) (delsOf m)).map (·.1)) = inter l (m.map (·.1)) := by
    intro l
    unfold inter
    apply List.filter_congr
    intro x _
    exact hc x
  rw [mkMapCols_core, mkMapCols_core, remapOf_printMap, delsOf_printMap]
  simp only [mkMapColsCore, hsub, hinter]

/-- `NaturalJoinNode.__init__` succeeds with the standardized join-type name and without the optional key check
whenever it succeeded with the given spelling and the check -/
theorem parse_toStr (t : JoinType) : JoinType.parse t.toStr = some t := by
  cases t <;> decide +kernel

theorem mkJoin_shape {a b : Ops} {onA onB : List String} {jt : String} {check : Bool} {q : Ops}
    (h : mkJoin a b onA onB jt check = .ok q) :
    ∃ t, q = .join a b onA onB t ∧ onA.length = onB.length ∧ mkJoin a b onA onB t.toStr false = .ok q := by
  simp only [mkJoin, ok?_bind_ok] at h
  obtain ⟨h1, h2, h3, h4, h⟩ := h
  have hlen : onA.length = onB.length := by simpa using h2
  have key : ∀ (h : (match JoinType.parse jt with
        | none => (throw Err.keyError : Except Err Ops)
        | some t => do ok? (!(t == JoinType.cross && !onA.isEmpty)) .valueError; return .join a b onA onB t) = .ok q),
      ∃ t, q = .join a b onA onB t ∧ onA.length = onB.length ∧ mkJoin a b onA onB t.toStr false = .ok q := by
    intro h
    split at h
    · exact absurd h (by simp [throw, throwThe, MonadExceptOf.throw])
    · rename_i t ht
      simp only [ok?_bind_ok, pure_ok] at h
      obtain ⟨hc, rfl⟩ := h
      refine ⟨t, rfl, hlen, ?_⟩
      simp only [mkJoin, h1, h2, h3, h4, ok?_true, parse_toStr, Bool.false_eq_true, ↓reduceIte, hc]
      rfl
  cases check with
  | false => simp only [Bool.false_eq_true, ↓reduceIte] at h; exact key h
  | true => simp only [↓reduceIte, ok?_bind_ok] at h; exact key h.2

theorem selectColsB_shape {p : Ops} (hp : NF p) {cs : List String} {q : Ops} (hne : cs ≠ [])
    (h : selectColsB p cs = .ok q) :
    ∃ s, NF s ∧ strip s = s ∧ q = .selectCols s cs ∧ build s (.selectCols cs) = .ok q := by
  fun_induction selectColsB p cs with
  | case1 src _ _ cs ih => exact ih hp.1 hne h
  | case2 src cs0 cs ih => exact ih hp.1 hne (ok?_bind_ok.mp h).2
  | case3 src dels cs ih => exact ih hp.1 hne (ok?_bind_ok.mp h).2
  | case4 self cs h1 h2 h3 =>
    have hst : strip self = self := by
      unfold strip
      split
      · rename_i src cs' rev; exact absurd rfl (h1 src cs' rev)
      · rfl
    have hq : q = .selectCols self cs := by
      simp only [mkSelectCols, ok?_bind_ok] at h
      obtain ⟨_, _, _, h⟩ := h
      simp only [pure_ok] at h; exact h.symm
    refine ⟨self, hp, hst, hq, ?_⟩
    have hne' : (!cs.isEmpty) = true := by cases cs <;> simp_all
    simp only [build, hne', ok?_true]
    show selectColsB self cs = .ok q
    rw [selectColsB.eq_def]
    split
    · rename_i src cs' rev; exact absurd rfl (h1 src cs' rev)
    · rename_i s c0; exact absurd rfl (h2 s c0)
    · rename_i s d; exact absurd rfl (h3 s d)
    · exact h

/-! ### extend -/

theorem extendPre_ok_iff (cols : List String) (ops : Assign) (pa : PartArg) (order rev : List String) :
    extendPre cols ops pa order rev = .ok () ↔
      ((partCols pa).Nodup ∧ (∀ c ∈ partCols pa, c ∈ cols)) ∧ (order.Nodup ∧ ∀ c ∈ order, c ∈ cols) ∧
      (rev.Nodup ∧ ∀ c ∈ rev, c ∈ cols) ∧ (∀ k ∈ keys ops, k ∉ partCols pa) ∧ (∀ c ∈ partCols pa, c ∉ order) ∧
      (∀ k ∈ keys ops, k ∉ order) ∧ (∀ c ∈ rev, c ∈ order) := by
  simp only [extendPre, workColGroup, bind_assoc, ok?_bind_ok, ok?_ok, nodupB_iff, subset_iff, disjoint_iff,
    and_assoc, keys]

/-- the step's own `ExtendNode` over a stripped normal-form node is in normal form -/
theorem nf_plain_extend {s : Ops} (hs : NF s) (hss : strip s = s) {ops : Assign} {pa : PartArg}
    {order rev : List String} {q : Ops} (hnn : ops ≠ [])
    (hpa : parseAssignments s.cols ops = .ok ops) (hpre : extendPre s.cols ops pa order rev = .ok ())
    (h : mkExtend s ops pa order rev = .ok q) : NF q := by
  obtain ⟨rfl, _⟩ := mkExtend_ok h
  refine ⟨hs, hss, hnn, hpa, ?_, ?_⟩
  · rw [extendPre_congr _ _ pa _ _ _ (partCols_printPart ops pa order)]; exact hpre
  · rw [mkExtend_congr _ _ pa _ _ _ (partCols_printPart ops pa order) (windowed_printPart ops pa order)]; exact h

/-- the merged `ExtendNode` that replaces a normal-form extend node is in normal form (apart from the question
whether it now merges with the node below: the guard) -/
theorem nf_merged_extend {src : Ops} {ops1 : Assign} {part1 order1 rev1 : List String} {w1 : Bool}
    (hs : NF (.extend src ops1 part1 order1 rev1 w1)) (hw : WF (.extend src ops1 part1 order1 rev1 w1))
    {ops newOps : Assign} {pa : PartArg} {order rev : List String} {q : Ops} (hnn : ops ≠ [])
    (hpa : parseAssignments (Ops.extend src ops1 part1 order1 rev1 w1).cols ops = .ok ops)
    (hpre : extendPre (Ops.extend src ops1 part1 order1 rev1 w1).cols ops pa order rev = .ok ())
    (hc : mergeCond part1 order1 rev1 w1 ops pa order rev = true)
    (hm : tryMergeOps ops1 ops = some newOps)
    (h : mkExtend src newOps pa order rev = .ok q) : NF q := by
  obtain ⟨hsrc, hsst, hn1, hpa1, hpre1, hmk1⟩ := hs
  obtain ⟨hwsrc, e1, e2, e3, e4, e5, e6, e7⟩ := hw
  rw [mergeCond_eq] at hc
  simp only [Bool.and_eq_true, beq_iff_eq] at hc
  obtain ⟨⟨⟨hpart, _⟩, hord⟩, hrev⟩ := hc
  subst hord hrev
  obtain ⟨f, hf, hk, hu1, hu2⟩ := tryMergeOps_some' hm
  obtain ⟨rfl, hE⟩ := mkExtend_ok h
  have hkeysub : ∀ k ∈ keys (ops1.filter f), k ∈ keys ops1 := by
    intro k hk
    obtain ⟨kv, hkv, rfl⟩ := List.mem_map.mp hk
    exact List.mem_map.mpr ⟨kv, (List.mem_filter.mp hkv).1, rfl⟩
  refine ⟨hsrc, hsst, ?_, ?_, ?_, ?_⟩
  · rw [hf]; intro he
    exact hnn (List.append_eq_nil_iff.mp he).2
  · exact (parseAssignments_ok_iff _ _).mpr
      (assignOK_merge ((parseAssignments_ok_iff _ _).mp hpa1) ((parseAssignments_ok_iff _ _).mp hpa) hm)
  · rw [extendPre_congr _ _ pa _ _ _ (partCols_printPart newOps pa order)]
    rw [extendPre_ok_iff] at hpre ⊢
    obtain ⟨⟨p1, _⟩, ⟨o1, _⟩, ⟨r1, _⟩, d1, d2, d3, d4⟩ := hpre
    refine ⟨⟨p1, by rw [hpart]; exact e2⟩, ⟨o1, e3⟩, ⟨r1, fun c hc => e3 c (d4 c hc)⟩, ?_, d2, ?_, d4⟩
    · intro k hk
      rw [hf] at hk
      simp only [keys, List.map_append, List.mem_append] at hk
      rcases hk with hk | hk
      · rw [hpart]; exact (e5 k (hkeysub k hk)).1
      · exact d1 k hk
    · intro k hk
      rw [hf] at hk
      simp only [keys, List.map_append, List.mem_append] at hk
      rcases hk with hk | hk
      · exact (e5 k (hkeysub k hk)).2
      · exact d3 k hk
  · rw [mkExtend_congr _ _ pa _ _ _ (partCols_printPart newOps pa order) (windowed_printPart newOps pa order)]
    exact h

theorem extend_nf {p : Ops} (hp : NF p) (hw : WF p) {ops : Assign} {pa : PartArg} {order rev : List String}
    {q : Ops} (h : build p (.extend ops pa order rev) = .ok q) : NF q := by
  unfold build at h
  simp only [] at h
  obtain ⟨parsed, hpa, h2⟩ := bind_ok.mp h
  clear h
  obtain ⟨rfl, _⟩ := parseAssignments_ok hpa
  by_cases hne : parsed.isEmpty = true
  · have : parsed = [] := by simpa using hne
    subst this
    rw [extendParsed.eq_def] at h2
    simp only [List.isEmpty_nil, ↓reduceIte, pure, Except.pure, Except.ok.injEq] at h2
    subst h2
    exact hp
  have hne' : parsed.isEmpty = false := by simpa using hne
  have hnn : parsed ≠ [] := by intro he; subst he; simp at hne
  rw [extendParsed_strip _ _ _ _ _ hne'] at h2
  obtain ⟨_, hpre, h3⟩ := bind_ok.mp h2
  clear h2
  have hps := hp.stripped
  have hws := hw.stripped
  have hss := strip_idem p
  rw [← strip_cols p] at hpa hpre
  generalize strip p = s at hps hws hss hpa hpre h3
  cases s with
  | extend src ops1 part1 order1 rev1 w1 =>
    simp only [extendTop, extendMerge] at h3
    cases hc : mergeCond part1 order1 rev1 w1 parsed pa order rev with
    | false =>
      rw [hc] at h3
      simp only [Bool.false_eq_true, ↓reduceIte] at h3
      exact nf_plain_extend hps hss hnn hpa hpre h3
    | true =>
      rw [hc] at h3
      simp only [↓reduceIte] at h3
      cases hm : tryMergeOps ops1 parsed with
      | none => rw [hm] at h3; exact nf_plain_extend hps hss hnn hpa hpre h3
      | some newOps => rw [hm] at h3; exact nf_merged_extend hps hws hnn hpa hpre hc hm h3
  | _ => exact nf_plain_extend hps hss hnn hpa hpre h3

/-! ### every builder call keeps the normal form -/

theorem build_nf {p : Ops} (hp : NF p) (hw : WF p) {s : Step} (hb : ∀ b ∈ stepArgs s, NF b) {q : Ops}
    (h : build p s = .ok q) : NF q := by
  cases s with
  | extend ops pa order rev => exact extend_nf hp hw h
  | project ops g =>
    have h' := h
    rw [← build_strip_project] at h'
    simp only [build] at h
    obtain ⟨parsed, hpa, h2⟩ := bind_ok.mp h
    obtain ⟨rfl, _⟩ := parseAssignments_ok hpa
    rw [projectParsed_strip] at h2
    obtain ⟨_, _, h3⟩ := bind_ok.mp h2
    have := mkProject_shape h3
    subst this
    exact ⟨hp.stripped, strip_idem p, h'⟩
  | selectRows e =>
    cases e with
    | none => simp only [build, Except.ok.injEq] at h; subst h; exact hp
    | some e =>
      have h' := h
      rw [← build_strip_selectRows] at h'
      simp only [build, selectRowsB_eq] at h
      obtain ⟨_, _, h⟩ := bind_ok.mp h
      simp only [Except.ok.injEq] at h
      subst h
      exact ⟨hp.stripped, strip_idem p, h'⟩
  | selectCols cs =>
    simp only [build, ok?_bind_ok] at h
    have hne : cs ≠ [] := by intro he; subst he; simp at h
    obtain ⟨s, hs, hss, rfl, hb⟩ := selectColsB_shape hp hne h.2
    exact ⟨hs, hss, hb⟩
  | dropCols cs =>
    cases hc : cs.isEmpty with
    | true => simp only [build, hc, ↓reduceIte, Except.ok.injEq] at h; subst h; exact hp
    | false =>
      have h' := h
      rw [← build_strip_dropCols _ _ hc] at h'
      simp only [build, hc, Bool.false_eq_true, ↓reduceIte, dropColsB_eq] at h
      have := mkDropCols_shape h
      subst this
      exact ⟨hp.stripped, strip_idem p, h'⟩
  | order cs rev lim =>
    cases hc : (cs.isEmpty && lim.isNone) with
    | true => simp only [build, hc, ↓reduceIte, Except.ok.injEq] at h; subst h; exact hp
    | false =>
      have h' := h
      rw [← build_strip_order _ _ _ _ hc] at h'
      simp only [build, hc, Bool.false_eq_true, ↓reduceIte, orderB_eq] at h
      have := mkOrder_shape h
      subst this
      exact ⟨hp.stripped, strip_idem p, h'⟩
  | rename m =>
    cases hc : m.isEmpty with
    | true => simp only [build, hc, ↓reduceIte, Except.ok.injEq] at h; subst h; exact hp
    | false =>
      have h' := h
      rw [← build_strip_rename _ _ hc] at h'
      simp only [build, hc, Bool.false_eq_true, ↓reduceIte, renameB_eq] at h
      have := mkRename_shape h
      subst this
      exact ⟨hp.stripped, strip_idem p, h'⟩
  | mapCols m =>
    cases hc : m.isEmpty with
    | true => simp only [build, hc, ↓reduceIte, Except.ok.injEq] at h; subst h; exact hp
    | false =>
      simp only [build, hc, Bool.false_eq_true, ↓reduceIte, mapColsB_eq] at h
      have := mkMapCols_shape h
      subst this
      refine ⟨hp.stripped, strip_idem p, ?_⟩
      have hne : (printMap (remapOf m) (delsOf m)).isEmpty = false := by
        cases m with
        | nil => simp at hc
        | cons kv m =>
          have : kv.1 ∈ (printMap (remapOf (kv :: m)) (delsOf (kv :: m))).map (·.1) :=
            (mem_keys_printMap _ _).mpr (by simp)
          cases hpm : printMap (remapOf (kv :: m)) (delsOf (kv :: m)) with
          | nil => rw [hpm] at this; simp at this
          | cons _ _ => rfl
      simp only [build, hne, Bool.false_eq_true, ↓reduceIte, mapColsB_eq, strip_idem, mkMapCols_printMap]
      exact h
  | join b onA onB jt check =>
    simp only [build, joinB_eq] at h
    obtain ⟨t, rfl, hlen, h'⟩ := mkJoin_shape h
    refine ⟨hp.stripped, strip_idem p, hb b (by simp [stepArgs]), hlen, ?_⟩
    simp only [build, joinB_eq, strip_idem]
    exact h'
  | concat b idc an bn =>
    cases b with
    | none => simp only [build, Except.ok.injEq] at h; subst h; exact hp
    | some b =>
      have h' := h
      rw [← build_strip_concat] at h'
      simp only [build, concatB_eq] at h
      have := mkConcat_shape h
      subst this
      exact ⟨hp.stripped, strip_idem p, hb b (by simp [stepArgs]), h'⟩
  | convert rm =>
    cases rm with
    | none => simp only [build, Except.ok.injEq] at h; subst h; exact hp
    | some rm =>
      have h' := h
      rw [← build_strip_convert] at h'
      simp only [build, convertB_eq] at h
      have := mkConvert_shape h
      subst this
      exact ⟨hp.stripped, strip_idem p, h'⟩

/-! ### evaluating the printed calls of a normal-form pipeline gives the pipeline back -/

theorem ok_bind' {α β : Type} (a : α) (f : α → Except Err β) : (Except.ok a >>= f) = f a := rfl

theorem onLists_printOn {onA onB : List String} (h : onA.length = onB.length) :
    onLists (printOn onA onB) = (onA, onB) := by
  unfold onLists printOn
  have h1 : List.map (fun x : String × String => x.1) (onA.zip onB) = onA := by
    rw [← List.unzip_fst, List.unzip_zip_left (Nat.le_of_eq h)]
  have h2 : List.map (fun x : String × String => x.2) (onA.zip onB) = onB := by
    rw [← List.unzip_snd, List.unzip_zip_right (Nat.le_of_eq h.symm)]
  rw [h1, h2]

theorem build_extend_of_local {s : Ops} (hss : strip s = s) {ops : Assign} {part order rev : List String} {w : Bool}
    (hl : ExtLocal s ops part order rev w)
    (hg : remerges s ops (printPart part w) order rev = false) :
    build s (.extend ops (printPart part w) order rev) = .ok (.extend s ops part order rev w) := by
  obtain ⟨hnn, hpa, hpre, hmk⟩ := hl
  have hne : ops.isEmpty = false := by cases ops <;> simp_all
  simp only [build, hpa, ok_bind']
  rw [extendParsed_strip _ _ _ _ _ hne, hpre, ok_bind', hss, extendTop_of_not_remerges _ _ _ _ _ hg]
  exact hmk

theorem rebuild_of_nf (p : Ops) (h : NF p) (g : noRemerge p = true) : rebuild (toCalls p) = .ok p := by
  induction p with
  | table n cs => exact h.wf_table
  | extend s ops part order rev w ih =>
    simp only [noRemerge, Bool.and_eq_true, Bool.not_eq_eq_eq_not, Bool.not_true] at g
    simp only [toCalls, rebuild, ih h.1 g.1, ok_bind', Call.toStep]
    exact build_extend_of_local h.2.1 h.2.2 g.2
  | project s ops gr ih => simp only [toCalls, rebuild, ih h.1 g, ok_bind', Call.toStep]; exact h.2.2
  | selectRows s e ih => simp only [toCalls, rebuild, ih h.1 g, ok_bind', Call.toStep]; exact h.2.2
  | selectCols s cs ih => simp only [toCalls, rebuild, ih h.1 g, ok_bind', Call.toStep]; exact h.2.2
  | dropCols s cs ih => simp only [toCalls, rebuild, ih h.1 g, ok_bind', Call.toStep]; exact h.2.2
  | order s cs rev lim ih => simp only [toCalls, rebuild, ih h.1 g, ok_bind', Call.toStep]; exact h.2.2
  | rename s m ih => simp only [toCalls, rebuild, ih h.1 g, ok_bind', Call.toStep]; exact h.2.2
  | mapCols s m dels ih => simp only [toCalls, rebuild, ih h.1 g, ok_bind', Call.toStep]; exact h.2.2
  | convert s rm ih => simp only [toCalls, rebuild, ih h.1 g, ok_bind', Call.toStep]; exact h.2.2
  | join a b onA onB jt iha ihb =>
    simp only [noRemerge, Bool.and_eq_true] at g
    obtain ⟨ha, _, hb, hlen, hbuild⟩ := h
    simp only [toCalls, rebuild, iha ha g.1, ihb hb g.2, ok_bind', onLists_printOn hlen]
    exact hbuild
  | concat a b idc an bn iha ihb =>
    simp only [noRemerge, Bool.and_eq_true] at g
    obtain ⟨ha, _, hb, hbuild⟩ := h
    simp only [toCalls, rebuild, iha ha g.1, ihb hb g.2, ok_bind']
    exact hbuild

/-! ### `rebuild` is `buildChain` over the main chain -/

theorem buildChain_snoc (t : Ops) (ss : List Step) (s : Step) :
    buildChain t (ss ++ [s]) = (buildChain t ss >>= fun p => build p s) := by
  simp only [buildChain, List.foldlM_append, List.foldlM_cons, List.foldlM_nil, bind_pure]

theorem rebuildChain_call (r : Printed) (c : Call) :
    rebuildChain (.call r c) = (rebuildChain r >>= fun p => build p c.toStep) := by
  simp only [rebuildChain, Printed.steps, Printed.start, bind_assoc, pure_bind, buildChain_snoc]

/-- a successful evaluation of the text is the `buildChain` of the main chain's steps from the start table, and
conversely -/
theorem rebuild_iff_chain (pr : Printed) (q : Ops) : rebuild pr = .ok q ↔ rebuildChain pr = .ok q := by
  induction pr generalizing q with
  | table n cs =>
    simp only [rebuild, rebuildChain, Printed.steps, Printed.start, ok_bind', buildChain, List.foldlM_nil, bind_pure]
  | call r c ih =>
    rw [rebuildChain_call]
    simp only [rebuild]
    rw [bind_ok, bind_ok]
    constructor
    · rintro ⟨a, h1, h2⟩; exact ⟨a, (ih a).mp h1, h2⟩
    · rintro ⟨a, h1, h2⟩; exact ⟨a, (ih a).mpr h1, h2⟩
  | join r b on jt ihr _ =>
    simp only [rebuild, rebuildChain, Printed.steps, Printed.start, bind_assoc, pure_bind, buildChain_snoc]
    constructor
    · intro h
      obtain ⟨a, h1, h⟩ := bind_ok.mp h
      obtain ⟨b', h2, h⟩ := bind_ok.mp h
      have h1' := (ihr a).mp h1
      simp only [rebuildChain] at h1'
      obtain ⟨ss, hs, h1'⟩ := bind_ok.mp h1'
      rw [hs, ok_bind', h2, ok_bind']
      obtain ⟨t, ht, h1'⟩ := bind_ok.mp h1'
      rw [ht, ok_bind', h1', ok_bind']
      exact h
    · intro h
      obtain ⟨ss, hs, h⟩ := bind_ok.mp h
      obtain ⟨b', h2, h⟩ := bind_ok.mp h
      obtain ⟨t, ht, h⟩ := bind_ok.mp h
      obtain ⟨a, ha, h⟩ := bind_ok.mp h
      have h1 : rebuild r = .ok a := (ihr a).mpr (by simp only [rebuildChain, hs, ok_bind', ht, ha])
      rw [h1, ok_bind', h2, ok_bind']
      exact h
  | concat r b idc an bn ihr _ =>
    simp only [rebuild, rebuildChain, Printed.steps, Printed.start, bind_assoc, pure_bind, buildChain_snoc]
    constructor
    · intro h
      obtain ⟨a, h1, h⟩ := bind_ok.mp h
      obtain ⟨b', h2, h⟩ := bind_ok.mp h
      have h1' := (ihr a).mp h1
      simp only [rebuildChain] at h1'
      obtain ⟨ss, hs, h1'⟩ := bind_ok.mp h1'
      rw [hs, ok_bind', h2, ok_bind']
      obtain ⟨t, ht, h1'⟩ := bind_ok.mp h1'
      rw [ht, ok_bind', h1', ok_bind']
      exact h
    · intro h
      obtain ⟨ss, hs, h⟩ := bind_ok.mp h
      obtain ⟨b', h2, h⟩ := bind_ok.mp h
      obtain ⟨t, ht, h⟩ := bind_ok.mp h
      obtain ⟨a, ha, h⟩ := bind_ok.mp h
      have h1 : rebuild r = .ok a := (ihr a).mpr (by simp only [rebuildChain, hs, ok_bind', ht, ha])
      rw [h1, ok_bind', h2, ok_bind']
      exact h

/-! ### the guard is kept by every builder call that is not a merging extend -/

theorem noRemerge_strip {p : Ops} (h : noRemerge p = true) : noRemerge (strip p) = true := by
  fun_induction strip p with
  | case1 src _ _ ih => exact ih h
  | case2 p _ => exact h

theorem remerges_printPart (s : Ops) (ops : Assign) (pa : PartArg) (order rev : List String) :
    remerges s ops (printPart (partCols pa) (windowedSituation ops pa order)) order rev
      = remerges s ops pa order rev := by
  cases s with
  | extend src ops1 part1 order1 rev1 w1 =>
    rw [remerges_extend, remerges_extend,
      mergeCond_congr _ _ _ _ _ pa _ _ _ (partCols_printPart ops pa order) (windowed_printPart ops pa order)]
  | _ => rfl

theorem selectColsB_guard {p : Ops} (hp : noRemerge p = true) {cs : List String} {q : Ops}
    (h : selectColsB p cs = .ok q) : noRemerge q = true := by
  fun_induction selectColsB p cs with
  | case1 src _ _ cs ih => exact ih hp h
  | case2 src cs0 cs ih => exact ih hp (ok?_bind_ok.mp h).2
  | case3 src dels cs ih => exact ih hp (ok?_bind_ok.mp h).2
  | case4 self cs h1 h2 h3 =>
    simp only [mkSelectCols, ok?_bind_ok] at h
    obtain ⟨_, _, _, h⟩ := h
    simp only [pure_ok] at h
    subst h
    exact hp

theorem build_guard {p : Ops} (hG : noRemerge p = true) {s : Step}
    (hb : ∀ b ∈ stepArgs s, noRemerge b = true) {q : Ops} (h : build p s = .ok q) :
    noRemerge q = true ∨
    ∃ ops pa order rev src ops1 part1 order1 rev1 w1 newOps,
      s = .extend ops pa order rev ∧ strip p = .extend src ops1 part1 order1 rev1 w1 ∧
      tryMergeOps ops1 ops = some newOps ∧ mkExtend src newOps pa order rev = .ok q := by
  have hGs := noRemerge_strip hG
  cases s with
  | extend ops pa order rev =>
    unfold build at h
    simp only [] at h
    obtain ⟨parsed, hpa, h2⟩ := bind_ok.mp h
    clear h
    obtain ⟨rfl, _⟩ := parseAssignments_ok hpa
    by_cases hne : parsed.isEmpty = true
    · have : parsed = [] := by simpa using hne
      subst this
      rw [extendParsed.eq_def] at h2
      simp only [List.isEmpty_nil, ↓reduceIte, pure, Except.pure, Except.ok.injEq] at h2
      subst h2
      exact Or.inl hG
    have hne' : parsed.isEmpty = false := by simpa using hne
    rw [extendParsed_strip _ _ _ _ _ hne'] at h2
    obtain ⟨_, _, h3⟩ := bind_ok.mp h2
    clear h2
    have plain : ∀ (hr : remerges (strip p) parsed pa order rev = false)
        (h : mkExtend (strip p) parsed pa order rev = .ok q), noRemerge q = true := by
      intro hr h
      obtain ⟨rfl, _⟩ := mkExtend_ok h
      simp only [noRemerge, hGs, remerges_printPart, hr, Bool.not_false, Bool.and_self]
    cases hs : strip p with
    | extend src ops1 part1 order1 rev1 w1 =>
      rw [hs] at h3 plain
      simp only [extendTop, extendMerge] at h3
      cases hc : mergeCond part1 order1 rev1 w1 parsed pa order rev with
      | false =>
        rw [hc] at h3
        simp only [Bool.false_eq_true, ↓reduceIte] at h3
        exact Or.inl (plain (by rw [remerges_extend, hc]; rfl) h3)
      | true =>
        rw [hc] at h3
        simp only [↓reduceIte] at h3
        cases hm : tryMergeOps ops1 parsed with
        | none => rw [hm] at h3; exact Or.inl (plain (by rw [remerges_extend, hm]; simp) h3)
        | some newOps =>
          rw [hm] at h3
          exact Or.inr ⟨parsed, pa, order, rev, src, ops1, part1, order1, rev1, w1, newOps, rfl, rfl, hm, h3⟩
    | _ =>
      rw [hs] at h3 plain
      exact Or.inl (plain rfl h3)
  | project ops g =>
    left
    simp only [build] at h
    obtain ⟨parsed, hpa, h2⟩ := bind_ok.mp h
    rw [projectParsed_strip] at h2
    obtain ⟨_, _, h3⟩ := bind_ok.mp h2
    rw [mkProject_shape h3]; exact hGs
  | selectRows e =>
    left
    cases e with
    | none => simp only [build, Except.ok.injEq] at h; subst h; exact hG
    | some e =>
      simp only [build, selectRowsB_eq] at h
      obtain ⟨_, _, h⟩ := bind_ok.mp h
      simp only [Except.ok.injEq] at h
      subst h; exact hGs
  | selectCols cs =>
    left
    simp only [build, ok?_bind_ok] at h
    exact selectColsB_guard hG h.2
  | dropCols cs =>
    left
    cases hc : cs.isEmpty with
    | true => simp only [build, hc, ↓reduceIte, Except.ok.injEq] at h; subst h; exact hG
    | false =>
      simp only [build, hc, Bool.false_eq_true, ↓reduceIte, dropColsB_eq] at h
      rw [mkDropCols_shape h]; exact hGs
  | order cs rev lim =>
    left
    cases hc : (cs.isEmpty && lim.isNone) with
    | true => simp only [build, hc, ↓reduceIte, Except.ok.injEq] at h; subst h; exact hG
    | false =>
      simp only [build, hc, Bool.false_eq_true, ↓reduceIte, orderB_eq] at h
      rw [mkOrder_shape h]; exact hGs
  | rename m =>
    left
    cases hc : m.isEmpty with
    | true => simp only [build, hc, ↓reduceIte, Except.ok.injEq] at h; subst h; exact hG
    | false =>
      simp only [build, hc, Bool.false_eq_true, ↓reduceIte, renameB_eq] at h
      rw [mkRename_shape h]; exact hGs
  | mapCols m =>
    left
    cases hc : m.isEmpty with
    | true => simp only [build, hc, ↓reduceIte, Except.ok.injEq] at h; subst h; exact hG
    | false =>
      simp only [build, hc, Bool.false_eq_true, ↓reduceIte, mapColsB_eq] at h
      rw [mkMapCols_shape h]; exact hGs
  | join b onA onB jt check =>
    left
    simp only [build, joinB_eq] at h
    obtain ⟨t, rfl, _, _⟩ := mkJoin_shape h
    simp only [noRemerge, hGs, hb b (by simp [stepArgs]), Bool.and_self]
  | concat b idc an bn =>
    left
    cases b with
    | none => simp only [build, Except.ok.injEq] at h; subst h; exact hG
    | some b =>
      simp only [build, concatB_eq] at h
      rw [mkConcat_shape h]
      simp only [noRemerge, hGs, hb b (by simp [stepArgs]), Bool.and_self]
  | convert rm =>
    left
    cases rm with
    | none => simp only [build, Except.ok.injEq] at h; subst h; exact hG
    | some rm =>
      simp only [build, convertB_eq] at h
      rw [mkConvert_shape h]; exact hGs

end DAVerif.C12
