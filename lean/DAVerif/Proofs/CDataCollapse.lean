import DAVerif.Proofs.CDataSpec
/-!
Helper lemmas for C17, part 3: a table with complete blocks is the block form of its records (`collapse`).
-/
namespace DAVerif.CData
open List

theorem look_map_of_nodup {α : Type} (n : α → String) (val : α → Val) : ∀ {P : List α}, (P.map n).Nodup →
    ∀ {a}, a ∈ P → look (P.map fun a => (n a, val a)) (n a) = val a
  | x :: P, h, a, ha => by
    rw [map_cons, nodup_cons] at h
    rw [map_cons, look_cons]
    by_cases e : n x = n a
    · rw [if_pos e]
      rcases mem_cons.1 ha with rfl | ha'
      · rfl
      · exact absurd (e ▸ mem_map_of_mem ha') h.1
    · rw [if_neg e]
      rcases mem_cons.1 ha with rfl | ha'
      · exact absurd rfl e
      · exact look_map_of_nodup n val h.2 ha'

/-- the row of `rows` with record key `κ` in the block of control row `cr` (`[]` when there is none) -/
def pickRow (s : Spec) (rows : List Row) (κ : List Val) (cr : Row) : Row :=
  (rows.find? fun r => keyOf s.recordKeys r = κ ∧ keyOf s.ctKeys r = keyOf s.ctKeys cr).getD []

/-- the record with record key `keyOf rk r`, read off the block table: content key ↦ the cell found in the block
row of the control row that names it -/
def recOf (s : Spec) (rows : List Row) (r : Row) : Row :=
  proj s.recordKeys r ++ s.ct.rows.flatMap fun cr => s.valueCols.map fun v =>
    (contentName cr v, look (pickRow s rows (keyOf s.recordKeys r) cr) v)

/-- the records of a block table: one per row of the first control row's block -/
def collapse (s : Spec) (rows : List Row) : List Row :=
  match s.ct.rows with
  | [] => []
  | cr0 :: _ => (rows.filter fun r => keyOf s.ctKeys r = keyOf s.ctKeys cr0).map (recOf s rows)

theorem pickRow_spec {s : Spec} {t : Table} (hc : CompleteBlocks s t) {r cr : Row} (hr : r ∈ t.rows)
    (hcr : cr ∈ s.ct.rows) :
    pickRow s t.rows (keyOf s.recordKeys r) cr ∈ t.rows ∧
    keyOf s.recordKeys (pickRow s t.rows (keyOf s.recordKeys r) cr) = keyOf s.recordKeys r ∧
    keyOf s.ctKeys (pickRow s t.rows (keyOf s.recordKeys r) cr) = keyOf s.ctKeys cr := by
  obtain ⟨r', hr', h1, h2⟩ := hc.2.2.2.2 r hr cr hcr
  unfold pickRow
  cases hf : t.rows.find? fun x => keyOf s.recordKeys x = keyOf s.recordKeys r ∧ keyOf s.ctKeys x = keyOf s.ctKeys cr with
  | none =>
    rw [find?_eq_none] at hf
    have := hf r' hr'
    simp [h1, h2] at this
  | some z =>
    have hz := find?_some hf
    simp only [decide_eq_true_eq] at hz
    exact ⟨mem_of_find?_eq_some hf, hz.1, hz.2⟩

theorem rows_inj {s : Spec} {t : Table} (hc : CompleteBlocks s t) {a b : Row} (ha : a ∈ t.rows) (hb : b ∈ t.rows)
    (h1 : keyOf s.recordKeys a = keyOf s.recordKeys b) (h2 : keyOf s.ctKeys a = keyOf s.ctKeys b) : a = b := by
  apply inj_of_nodup_map hc.2.2.2.1 ha hb
  rw [keyOf_append, keyOf_append, h1, h2]

theorem look_recOf_rk {s : Spec} (rows : List Row) (r : Row) {k : String} (hk : k ∈ s.recordKeys) :
    look (recOf s rows r) k = look r k := by
  unfold recOf
  rw [look_append, proj_keys, if_pos hk, look_proj r hk]

theorem content_pairs_nodup {s : Spec} (f : Facts s) :
    ((s.ct.rows.flatMap fun cr => s.valueCols.map fun v => (cr, v)).map fun p => contentName p.1 p.2).Nodup := by
  rw [map_flatMap]
  have : (fun cr => map (fun p : Row × String => contentName p.1 p.2) (map (fun v => (cr, v)) s.valueCols)) =
      fun cr => s.valueCols.map (contentName cr) := by
    funext cr; rw [map_map]; rfl
  rw [this]
  exact ((contentCols_perm (Perm.refl _)).nodup_iff).2 f.content_nodup

theorem look_recOf_content {s : Spec} (f : Facts s) (rows : List Row) (r : Row) {cr : Row} {v : String}
    (hcr : cr ∈ s.ct.rows) (hv : v ∈ s.valueCols) :
    look (recOf s rows r) (contentName cr v) = look (pickRow s rows (keyOf s.recordKeys r) cr) v := by
  unfold recOf
  have hnot : contentName cr v ∉ s.recordKeys := fun h => f.rk_content _ h (contentName_mem hcr hv)
  rw [look_append, proj_keys, if_neg hnot]
  have hre : (s.ct.rows.flatMap fun cr => s.valueCols.map fun v =>
      (contentName cr v, look (pickRow s rows (keyOf s.recordKeys r) cr) v)) =
      (s.ct.rows.flatMap fun cr => s.valueCols.map fun v => (cr, v)).map fun p =>
        (contentName p.1 p.2, look (pickRow s rows (keyOf s.recordKeys r) p.1) p.2) := by
    rw [map_flatMap]
    apply flatMap_congr'
    intro cr _
    rw [map_map]
    rfl
  rw [hre]
  exact look_map_of_nodup (fun p : Row × String => contentName p.1 p.2)
    (fun p => look (pickRow s rows (keyOf s.recordKeys r) p.1) p.2) (content_pairs_nodup f)
    (a := (cr, v)) (mem_flatMap.2 ⟨cr, hcr, mem_map.2 ⟨v, hv, rfl⟩⟩)

theorem bRow_recOf {s : Spec} (f : Facts s) {t : Table} (hc : CompleteBlocks s t) {r cr : Row} (hr : r ∈ t.rows)
    (hcr : cr ∈ s.ct.rows) :
    bRow s cr (recOf s t.rows r) = proj s.blockColumns (pickRow s t.rows (keyOf s.recordKeys r) cr) := by
  obtain ⟨_, hp1, hp2⟩ := pickRow_spec hc hr hcr
  unfold bRow
  apply proj_congr
  intro c hcm
  rcases mem_blockColumns.1 hcm with h | h
  · rw [look_blockRow_rk _ _ h, look_recOf_rk _ _ h]
    exact (keyOf_eq_iff.1 hp1 c h).symm
  · by_cases hk : c ∈ s.ctKeys
    · rw [look_blockRow_ck f _ _ hk]
      exact (keyOf_eq_iff.1 hp2 c hk).symm
    · have hv : c ∈ s.valueCols := mem_valueCols.2 ⟨h, hk⟩
      rw [look_blockRow_vc f _ _ hv, look_recOf_content f _ _ hcr hv]

theorem collapse_spec {s : Spec} (g : s.Good) {t : Table} (hc : CompleteBlocks s t) :
    RecKeys s.recordKeys (collapse s t.rows) ∧ IsBlocks s (collapse s t.rows) t := by
  have f := g.facts
  obtain ⟨cr0, crs, hct⟩ : ∃ cr0 crs, s.ct.rows = cr0 :: crs := by
    cases h : s.ct.rows with
    | nil => exact absurd h f.rows_ne
    | cons a l => exact ⟨a, l, rfl⟩
  have hcr0 : cr0 ∈ s.ct.rows := by rw [hct]; exact mem_cons_self
  have hcol : collapse s t.rows =
      (t.rows.filter fun r => keyOf s.ctKeys r = keyOf s.ctKeys cr0).map (recOf s t.rows) := by
    unfold collapse; rw [hct]
  have hkeys : ∀ r, keyOf s.recordKeys (recOf s t.rows r) = keyOf s.recordKeys r :=
    fun r => keyOf_congr fun k hk => look_recOf_rk _ _ hk
  have hB0 : ∀ r, r ∈ (t.rows.filter fun r => keyOf s.ctKeys r = keyOf s.ctKeys cr0) ↔
      r ∈ t.rows ∧ keyOf s.ctKeys r = keyOf s.ctKeys cr0 := by
    intro r; simp [mem_filter]
  have hrec : RecKeys s.recordKeys (collapse s t.rows) := by
    rw [hcol]
    constructor
    · intro u hu
      obtain ⟨r, hr, rfl⟩ := mem_map.1 hu
      rw [hkeys]
      exact hc.2.1 r ((hB0 r).1 hr).1
    · rw [map_map]
      have : (keyOf s.recordKeys ∘ recOf s t.rows) = keyOf s.recordKeys := by funext r; exact hkeys r
      rw [this]
      have hnd : (t.rows.filter fun r => keyOf s.ctKeys r = keyOf s.ctKeys cr0).Nodup :=
        (nodup_of_nodup_map _ hc.2.2.2.1).filter _
      apply nodup_map_of_inj hnd
      intro a ha b hb e
      exact rows_inj hc ((hB0 a).1 ha).1 ((hB0 b).1 hb).1 e (((hB0 a).1 ha).2.trans ((hB0 b).1 hb).2.symm)
  refine ⟨hrec, fun c hcm => hc.1.symm.mem_iff.1 hcm, ?_⟩
  rw [eRows_eq]
  have hbc : ∀ c ∈ s.recordKeys ++ s.ctKeys, c ∈ s.blockColumns := by
    intro c hcm
    rcases mem_append.1 hcm with h | h
    · exact rk_sub_bc c h
    · exact ck_sub_bc f c h
  have hRnd : (t.rows.map (proj s.blockColumns)).Nodup := by
    apply nodup_of_nodup_map (keyOf (s.recordKeys ++ s.ctKeys))
    rw [map_map]
    have : (keyOf (s.recordKeys ++ s.ctKeys) ∘ proj s.blockColumns) = keyOf (s.recordKeys ++ s.ctKeys) := by
      funext r; exact keyOf_proj r hbc
    rw [this]
    exact hc.2.2.2.1
  apply perm_of_nodup_mem hRnd (eRows_nodup f hrec)
  intro x
  rw [mem_map, mem_eRows]
  constructor
  · rintro ⟨y, hy, rfl⟩
    obtain ⟨cr, hcr, hycr⟩ := hc.2.2.1 y hy
    obtain ⟨r', hr', h1, h2⟩ := hc.2.2.2.2 y hy cr0 hcr0
    refine ⟨cr, hcr, recOf s t.rows r', ?_, ?_⟩
    · rw [hcol]
      exact mem_map_of_mem ((hB0 r').2 ⟨hr', h2⟩)
    · rw [bRow_recOf f hc hr' hcr]
      obtain ⟨hp0, hp1, hp2⟩ := pickRow_spec hc hr' hcr
      have : pickRow s t.rows (keyOf s.recordKeys r') cr = y :=
        rows_inj hc hp0 hy (hp1.trans h1) (hp2.trans hycr.symm)
      rw [this]
  · rintro ⟨cr, hcr, u, hu, rfl⟩
    rw [hcol] at hu
    obtain ⟨r, hr, rfl⟩ := mem_map.1 hu
    have hrt := ((hB0 r).1 hr).1
    exact ⟨_, (pickRow_spec hc hrt hcr).1, (bRow_recOf f hc hrt hcr).symm⟩

end DAVerif.CData
