import DAVerif.Proofs.RenameBasic
/-!
Renaming, SQL generator, basic layer: the relation "equal up to renaming, modulo `ops_key`" between NearSQL trees, a
relational Hoare-style calculus for the generator's state monad (`M = StateT Nat (Except Err)`: the counter that
numbers the query names), and the equivariance of the generator's helper functions (`mkTerms`, `setTermKeys`,
`nonTrivialTerms`, the term dictionaries).
-/
namespace DAVerif
namespace Ren

open Function (Injective)
open DAVerif.Sql

/-! ### trees equal up to renaming, modulo keys -/

/-- `n'` is the renamed `n`, except possibly for the `ops_key`s -/
def NR (ρc : ColRen) (ρt : TabRen) (n' n : Near) : Prop := n'.eraseKeys = (n.rename ρc ρt).eraseKeys

variable {ρc : ColRen} {ρt : TabRen}

theorem NR.table (name : String) (ts : List String) : NR ρc ρt (.table (ρt name) (ts.map ρc)) (.table name ts) := rfl

theorem NR.unary {s' s : Near} (h : NR ρc ρt s' s) (name : String) (ts : Option Terms) (agg : Bool)
    (sc : Option (List String)) (sf : Suffix) (mg : Bool) (deps : Option (List (String × List String)))
    (k' k : Option String) :
    NR ρc ρt (.unary name (ts.map (Terms.rename ρc)) agg s' (sc.map (·.map ρc)) (sf.rename ρc) mg
        (deps.map (·.map (fun kv => (ρc kv.1, kv.2.map ρc)))) k')
      (.unary name ts agg s sc sf mg deps k) := by
  unfold NR at h ⊢
  simp only [Near.eraseKeys, Near.rename, h]

theorem NR.join {l' l r' r : Near} (hl : NR ρc ρt l' l) (hr : NR ρc ρt r' r) (name : String) (ts : Terms)
    (lc : List String) (ln : String) (rc : List String) (rn : String) (jt : JoinType) (oa ob : List String)
    (k' k : Option String) :
    NR ρc ρt (.join name (Terms.rename ρc ts) l' (lc.map ρc) ln r' (rc.map ρc) rn jt (oa.map ρc) (ob.map ρc) k')
      (.join name ts l lc ln r rc rn jt oa ob k) := by
  unfold NR at hl hr ⊢
  simp only [Near.eraseKeys, Near.rename, hl, hr]

theorem NR.union {l' l r' r : Near} (hl : NR ρc ρt l' l) (hr : NR ρc ρt r' r) (name : String) (ts : List String)
    (cols : List String) (k' k : Option String) :
    NR ρc ρt (.union name (ts.map ρc) l' r' (cols.map ρc) k') (.union name ts l r cols k) := by
  unfold NR at hl hr ⊢
  simp only [Near.eraseKeys, Near.rename, hl, hr]

/-- inversion: what is related to a unary step is a unary step with the renamed parameters -/
theorem NR.unary_inv {n' : Near} {name : String} {ts : Option Terms} {agg : Bool} {s : Near}
    {sc : Option (List String)} {sf : Suffix} {mg : Bool} {deps : Option (List (String × List String))}
    {k : Option String} (h : NR ρc ρt n' (.unary name ts agg s sc sf mg deps k)) :
    ∃ s' k', NR ρc ρt s' s ∧
      n' = .unary name (ts.map (Terms.rename ρc)) agg s' (sc.map (·.map ρc)) (sf.rename ρc) mg
        (deps.map (·.map (fun kv => (ρc kv.1, kv.2.map ρc)))) k' := by
  unfold NR at h
  cases n' with
  | unary n1 t1 a1 s1 c1 f1 m1 d1 k1 =>
    simp only [Near.eraseKeys, Near.rename, Near.unary.injEq] at h
    obtain ⟨rfl, rfl, rfl, hs, rfl, rfl, rfl, rfl, _⟩ := h
    exact ⟨s1, k1, hs, rfl⟩
  | _ => simp [Near.eraseKeys, Near.rename] at h

theorem NR.table_inv {n' : Near} {name : String} {ts : List String} (h : NR ρc ρt n' (.table name ts)) :
    n' = .table (ρt name) (ts.map ρc) := by
  unfold NR at h
  cases n' <;> simp [Near.eraseKeys, Near.rename] at h
  obtain ⟨rfl, rfl⟩ := h
  rfl

theorem NR.cte_inv {n' : Near} {name : String} (h : NR ρc ρt n' (.cte name)) : n' = .cte name := by
  unfold NR at h
  cases n' <;> simp [Near.eraseKeys, Near.rename] at h
  obtain rfl := h
  rfl

theorem NR.join_inv {n' : Near} {name : String} {ts : Terms} {l : Near} {lc : List String} {ln : String} {r : Near}
    {rc : List String} {rn : String} {jt : JoinType} {oa ob : List String} {k : Option String}
    (h : NR ρc ρt n' (.join name ts l lc ln r rc rn jt oa ob k)) :
    ∃ l' r' k', n' = .join name (Terms.rename ρc ts) l' (lc.map ρc) ln r' (rc.map ρc) rn jt (oa.map ρc) (ob.map ρc) k' := by
  unfold NR at h
  cases n' with
  | join n1 t1 l1 lc1 ln1 r1 rc1 rn1 jt1 oa1 ob1 k1 =>
    simp only [Near.eraseKeys, Near.rename, Near.join.injEq] at h
    obtain ⟨rfl, rfl, _, rfl, rfl, _, rfl, rfl, rfl, rfl, rfl, _⟩ := h
    exact ⟨l1, r1, k1, rfl⟩
  | _ => simp [Near.eraseKeys, Near.rename] at h

theorem NR.union_inv {n' : Near} {name : String} {ts : List String} {l r : Near} {cols : List String}
    {k : Option String} (h : NR ρc ρt n' (.union name ts l r cols k)) :
    ∃ l' r' k', n' = .union name (ts.map ρc) l' r' (cols.map ρc) k' := by
  unfold NR at h
  cases n' with
  | union n1 t1 l1 r1 c1 k1 =>
    simp only [Near.eraseKeys, Near.rename, Near.union.injEq] at h
    obtain ⟨rfl, rfl, _, _, rfl, _⟩ := h
    exact ⟨l1, r1, k1, rfl⟩
  | _ => simp [Near.eraseKeys, Near.rename] at h

/-! ### relating two runs of the generator monad -/

/-- two computations, started in the same counter state, fail with the same error or return related values and the
same counter -/
def MRel {α' α : Type} (rel : α' → α → Prop) (x' : M α') (x : M α) : Prop :=
  ∀ s : Nat,
    match x' s, x s with
    | .ok (a', s1'), .ok (a, s1) => rel a' a ∧ s1' = s1
    | .error e', .error e => e' = e
    | _, _ => False

theorem MRel.pure {α' α : Type} {rel : α' → α → Prop} {a' : α'} {a : α} (h : rel a' a) :
    MRel rel (pure a' : M α') (pure a : M α) := by
  intro s
  exact ⟨h, rfl⟩

theorem MRel.bind {α' α β' β : Type} {r1 : α' → α → Prop} {r2 : β' → β → Prop} {x' : M α'} {x : M α}
    {k' : α' → M β'} {k : α → M β} (hx : MRel r1 x' x) (hk : ∀ a' a, r1 a' a → MRel r2 (k' a') (k a)) :
    MRel r2 (x' >>= k') (x >>= k) := by
  intro s
  have h := hx s
  have e1 : (x' >>= k') s = (x' s >>= fun p => k' p.1 p.2) := rfl
  have e2 : (x >>= k) s = (x s >>= fun p => k p.1 p.2) := rfl
  rw [e1, e2]
  cases hx' : x' s with
  | error e' =>
    cases hx0 : x s with
    | error e =>
      rw [hx', hx0] at h
      exact h
    | ok v => rw [hx', hx0] at h; exact h.elim
  | ok v' =>
    cases hx0 : x s with
    | error e => rw [hx', hx0] at h; exact h.elim
    | ok v =>
      rw [hx', hx0] at h
      obtain ⟨a', s1'⟩ := v'
      obtain ⟨a, s1⟩ := v
      obtain ⟨hr, rfl⟩ := h
      exact hk a' a hr s1'

theorem MRel.fresh : MRel (fun (a b : Nat) => a = b) fresh fresh := by
  intro s
  exact ⟨rfl, rfl⟩

theorem MRel.liftE {α' α : Type} {rel : α' → α → Prop} {e' : Except Err α'} {e : Except Err α}
    (h : match e', e with | .ok a', .ok a => rel a' a | .error x', .error x => x' = x | _, _ => False) :
    MRel rel (Sql.liftE e') (Sql.liftE e) := by
  intro s
  cases e' <;> cases e <;> simp_all [DAVerif.Sql.liftE, Except.map]

theorem MRel.error {α' α : Type} {rel : α' → α → Prop} (e : Err) :
    MRel rel (Sql.liftE (Except.error e) : M α') (Sql.liftE (Except.error e) : M α) := by
  intro s; rfl

theorem MRel.guard (c : Bool) (e : Err) : MRel (fun _ _ => True) (guardM c e) (guardM c e) := by
  intro s
  cases c <;> simp [guardM, DAVerif.Sql.liftE, ok?, Except.map]

/-- a guard with the same condition on both sides, then related continuations -/
theorem MRel.guard_bind {β' β : Type} {r2 : β' → β → Prop} {c' c : Bool} (hc : c' = c) (e : Err) {k' : Unit → M β'}
    {k : Unit → M β} (hk : MRel r2 (k' ()) (k ())) : MRel r2 (guardM c' e >>= k') (guardM c e >>= k) := by
  subst hc
  exact MRel.bind (MRel.guard c' e) (fun _ _ _ => hk)

theorem MRel.ite {β' β : Type} {r2 : β' → β → Prop} {c' c : Bool} (hc : c' = c) {a' b' : M β'} {a b : M β}
    (ha : MRel r2 a' a) (hb : MRel r2 b' b) :
    MRel r2 (if c' = true then a' else b') (if c = true then a else b) := by
  subst hc
  cases c' <;> simp [ha, hb]

/-! ### helper functions of the generator -/
variable {f : String → String}

theorem isEmpty_map' {α β : Type} (g : α → β) (l : List α) : (l.map g).isEmpty = l.isEmpty := by
  cases l <;> rfl

theorem mkTerms_rename (ts : Terms) : mkTerms (Terms.rename f ts) = (mkTerms ts).map (Terms.rename f) := by
  unfold mkTerms Terms.rename
  rw [isEmpty_map']
  split <;> rfl

theorem terms_keys' (ts : Terms) : (Terms.rename f ts).map (·.1) = (ts.map (·.1)).map f := by
  simp [Terms.rename, List.map_map, Function.comp_def]

theorem pass_terms (l : List String) :
    (l.map f).map (fun k => (k, STerm.pass)) = Terms.rename f (l.map (fun k => (k, STerm.pass))) := by
  simp [Terms.rename, List.map_map, Function.comp_def, STerm.rename]

theorem filterMap_lookup (hf : Injective f) (ts : Terms) (keys : List String) :
    (keys.map f).filterMap (fun k => (lookupLast (Terms.rename f ts) k).map (fun t => (k, t)))
      = Terms.rename f (keys.filterMap (fun k => (lookupLast ts k).map (fun t => (k, t)))) := by
  induction keys with
  | nil => rfl
  | cons k keys ih =>
    simp only [List.map_cons, List.filterMap_cons]
    have : lookupLast (Terms.rename f ts) (f k) = (lookupLast ts k).map (STerm.rename f) :=
      lookupLast_map hf (STerm.rename f) ts k
    rw [this]
    cases lookupLast ts k with
    | none => simpa using ih
    | some t =>
      simp only [Option.map_some]
      rw [ih]
      rfl

theorem setTermKeys_rename (hf : Injective f) (ρt : TabRen) (n : Near) (keys : List String) (sel : Bool) :
    setTermKeys (n.rename f ρt) (keys.map f) sel = (setTermKeys n keys sel).map (Near.rename f ρt) := by
  cases hk : keys.isEmpty <;> cases n with
  | table name ts =>
    simp only [Near.rename, setTermKeys, subset_map hf, isEmpty_map', hk, Bool.false_eq_true, if_false, if_true] <;>
    first | rfl | (split <;> rfl)
  | cte name => rfl
  | unary name ts agg sub sc sf mg deps key =>
    cases ts with
    | none =>
      simp only [Near.rename, Option.map_none, setTermKeys, isEmpty_map', hk]
      cases sel with
      | true =>
        simp only [if_true, Option.map_some, Near.rename, pass_terms]
      | false =>
        simp only [Bool.false_eq_true, if_false, if_true] <;>
        first | rfl | (split <;> rfl)
    | some ts =>
      simp only [Near.rename, Option.map_some, setTermKeys, terms_keys', subset_map hf, isEmpty_map', hk,
        Bool.false_eq_true, if_false, if_true] <;>
      first
      | rfl
      | (split
         · simp only [Option.map_some, Near.rename, filterMap_lookup hf]
         · rfl)
  | join name ts l lc ln r rc rn jt oa ob key =>
    simp only [Near.rename, setTermKeys, terms_keys', subset_map hf, isEmpty_map', hk, Bool.false_eq_true, if_false,
      if_true] <;>
    first
    | rfl
    | (split
       · simp only [Option.map_some, Near.rename, filterMap_lookup hf]
       · rfl)
  | union name ts l r cs key =>
    simp only [Near.rename, setTermKeys, subset_map hf, isEmpty_map', hk, Bool.false_eq_true, if_false, if_true] <;>
    first | rfl | (split <;> rfl)

theorem setTermKeys_eraseKeys (n : Near) (keys : List String) (sel : Bool) :
    setTermKeys n.eraseKeys keys sel = (setTermKeys n keys sel).map Near.eraseKeys := by
  cases hk : keys.isEmpty <;> cases n with
  | table name ts =>
    simp only [Near.eraseKeys, setTermKeys, hk, Bool.false_eq_true, if_false, if_true] <;>
    first | rfl | (split <;> rfl)
  | cte name => rfl
  | unary name ts agg sub sc sf mg deps key =>
    cases ts with
    | none =>
      simp only [Near.eraseKeys, setTermKeys, hk]
      cases sel with
      | true => rfl
      | false =>
        simp only [Bool.false_eq_true, if_false, if_true] <;>
        first | rfl | (split <;> rfl)
    | some ts =>
      simp only [Near.eraseKeys, setTermKeys, hk, Bool.false_eq_true, if_false, if_true] <;>
      first | rfl | (split <;> rfl)
  | join name ts l lc ln r rc rn jt oa ob key =>
    simp only [Near.eraseKeys, setTermKeys, hk, Bool.false_eq_true, if_false, if_true] <;>
    first | rfl | (split <;> rfl)
  | union name ts l r cs key =>
    simp only [Near.eraseKeys, setTermKeys, hk, Bool.false_eq_true, if_false, if_true] <;>
    first | rfl | (split <;> rfl)

/-- `setTermKeys` on related trees: both fail, or both succeed with related trees -/
theorem setTermKeys_NR (hf : Injective f) {ρt : TabRen} {n' n : Near} (h : NR f ρt n' n) (keys : List String)
    (sel : Bool) :
    match setTermKeys n' (keys.map f) sel, setTermKeys n keys sel with
    | some m', some m => NR f ρt m' m
    | none, none => True
    | _, _ => False := by
  have h1 := setTermKeys_eraseKeys n' (keys.map f) sel
  have h2 := setTermKeys_eraseKeys (n.rename f ρt) (keys.map f) sel
  rw [setTermKeys_rename hf] at h2
  unfold NR at h
  rw [h, h2] at h1
  cases h' : setTermKeys n' (keys.map f) sel <;> cases h0 : setTermKeys n keys sel <;>
    simp only [h', h0, Option.map_none, Option.map_some, reduceCtorEq, Option.some.injEq] at h1
  · trivial
  · exact h1.symm

/-! ### dependency dictionaries -/
abbrev Deps := List (String × List String)
def Deps.rename (f : String → String) (d : Deps) : Deps := d.map (fun kv => (f kv.1, kv.2.map f))

theorem isPass_rename (t : STerm) : isPass (t.rename f) = isPass t := by cases t <;> rfl

/-- the filter predicate of `nonTrivialTerms`, named -/
def ntPred (terms : Terms) (kv : String × List String) : Bool :=
  terms.any (fun t => t.1 == kv.1) &&
    (!(kv.2.filter (fun c => c != kv.1)).isEmpty || !kv.2.contains kv.1 ||
      (match lookupLast terms kv.1 with | some t => !isPass t | none => false))

theorem nonTrivialTerms_eq (deps : Deps) (terms : Terms) :
    nonTrivialTerms deps terms = (deps.filter (ntPred terms)).map (·.1) := rfl

theorem ntPred_rename (hf : Injective f) (terms : Terms) (kv : String × List String) :
    ntPred (Terms.rename f terms) (f kv.1, kv.2.map f) = ntPred terms kv := by
  unfold ntPred
  have h1 : (Terms.rename f terms).any (fun t => t.1 == f kv.1) = terms.any (fun t => t.1 == kv.1) := by
    unfold Terms.rename
    exact any_map' _ terms _ _ (fun x => by simp only [beq_inj hf])
  have h2 : ((kv.2.map f).filter (fun c => c != f kv.1)).isEmpty = (kv.2.filter (fun c => c != kv.1)).isEmpty := by
    rw [filter_map' kv.2 _ (fun c => c != kv.1) (fun x => bne_inj hf x kv.1), isEmpty_map']
  have h3 : lookupLast (Terms.rename f terms) (f kv.1) = (lookupLast terms kv.1).map (STerm.rename f) :=
    lookupLast_map hf (STerm.rename f) terms kv.1
  simp only [h1, h2, h3, contains_map hf]
  cases lookupLast terms kv.1 with
  | none => rfl
  | some t => simp only [Option.map_some, isPass_rename]

theorem nonTrivialTerms_rename (hf : Injective f) (deps : Deps) (terms : Terms) :
    nonTrivialTerms (Deps.rename f deps) (Terms.rename f terms) = (nonTrivialTerms deps terms).map f := by
  rw [nonTrivialTerms_eq, nonTrivialTerms_eq]
  unfold Deps.rename
  rw [List.filter_map, List.map_map, List.map_map]
  rw [List.filter_congr (p := ntPred (Terms.rename f terms) ∘ _) (q := ntPred terms)
    (fun kv _ => ntPred_rename hf terms kv)]
  rfl

theorem deps_needs_rename (hf : Injective f) (deps : Deps) (nt : List String) :
    ((Deps.rename f deps).filter (fun kv => (nt.map f).contains kv.1)).flatMap (·.2)
      = ((deps.filter (fun kv => nt.contains kv.1)).flatMap (·.2)).map f := by
  unfold Deps.rename
  rw [List.filter_map, List.flatMap_map, List.map_flatMap]
  have : (List.filter ((fun kv : String × List String => (nt.map f).contains kv.1) ∘ fun kv => (f kv.1, kv.2.map f)) deps)
      = deps.filter (fun kv => nt.contains kv.1) := by
    apply List.filter_congr
    intro kv _
    simp only [Function.comp, contains_map hf]
  rw [this]

/-- one step of the merge of an extend into its sub-query: `sterms[k] = terms[k]` -/
def setFromT (src : Terms) (d : Terms) (k : String) : Terms :=
  match lookupLast src k with
  | some t => dictSet d k t
  | none => d

def setFromD (src : Deps) (d : Deps) (k : String) : Deps :=
  match lookupLast src k with
  | some v => dictSet d k v
  | none => d

theorem fold_dictSet_terms (hf : Injective f) (terms sterms : Terms) (nt : List String) :
    (nt.map f).foldl (setFromT (Terms.rename f terms)) (Terms.rename f sterms)
      = Terms.rename f (nt.foldl (setFromT terms) sterms) := by
  induction nt generalizing sterms with
  | nil => rfl
  | cons k nt ih =>
    simp only [List.map_cons, List.foldl_cons]
    have h3 : lookupLast (Terms.rename f terms) (f k) = (lookupLast terms k).map (STerm.rename f) :=
      lookupLast_map hf (STerm.rename f) terms k
    have : setFromT (Terms.rename f terms) (Terms.rename f sterms) (f k) = Terms.rename f (setFromT terms sterms k) := by
      unfold setFromT
      rw [h3]
      cases lookupLast terms k with
      | none => rfl
      | some t => exact dictSet_map hf (STerm.rename f) sterms k t
    rw [this]
    exact ih _

theorem fold_dictSet_deps (hf : Injective f) (deps sdeps : Deps) (nt : List String) :
    (nt.map f).foldl (setFromD (Deps.rename f deps)) (Deps.rename f sdeps)
      = Deps.rename f (nt.foldl (setFromD deps) sdeps) := by
  induction nt generalizing sdeps with
  | nil => rfl
  | cons k nt ih =>
    simp only [List.map_cons, List.foldl_cons]
    have h3 : lookupLast (Deps.rename f deps) (f k) = (lookupLast deps k).map (fun v => v.map f) :=
      lookupLast_map hf (fun v : List String => v.map f) deps k
    have : setFromD (Deps.rename f deps) (Deps.rename f sdeps) (f k) = Deps.rename f (setFromD deps sdeps k) := by
      unfold setFromD
      rw [h3]
      cases lookupLast deps k with
      | none => rfl
      | some t => exact dictSet_map hf (fun v : List String => v.map f) sdeps k t
    rw [this]
    exact ih _

theorem deps_flat_rename (d : Deps) : (Deps.rename f d).flatMap (·.2) = (d.flatMap (·.2)).map f := by
  unfold Deps.rename
  rw [List.flatMap_map, List.map_flatMap]

theorem filter_keys_terms (hf : Injective f) (ts : Terms) (use : List String) :
    (Terms.rename f ts).filter (fun kv => (use.map f).contains kv.1)
      = Terms.rename f (ts.filter (fun kv => use.contains kv.1)) := by
  unfold Terms.rename
  rw [List.filter_map]
  congr 1
  apply List.filter_congr
  intro kv _
  simp only [Function.comp, contains_map hf]

theorem filter_keys_deps (hf : Injective f) (ts : Deps) (use : List String) :
    (Deps.rename f ts).filter (fun kv => (use.map f).contains kv.1)
      = Deps.rename f (ts.filter (fun kv => use.contains kv.1)) := by
  unfold Deps.rename
  rw [List.filter_map]
  congr 1
  apply List.filter_congr
  intro kv _
  simp only [Function.comp, contains_map hf]

/-- term dictionary of `map_columns`: `terms[new] = ident old` -/
theorem fold_ident_map (hf : Injective f) (m : List (String × String)) (d : Terms) :
    (m.map (fun kv => (f kv.1, f kv.2))).foldl (fun d kv => dictSet d kv.2 (STerm.ident kv.1)) (Terms.rename f d)
      = Terms.rename f (m.foldl (fun d kv => dictSet d kv.2 (STerm.ident kv.1)) d) := by
  induction m generalizing d with
  | nil => rfl
  | cons kv m ih =>
    simp only [List.map_cons, List.foldl_cons]
    have := dictSet_map hf (STerm.rename f) d kv.2 (STerm.ident kv.1)
    unfold Terms.rename at ih ⊢
    rw [show STerm.rename f (STerm.ident kv.1) = STerm.ident (f kv.1) from rfl] at this
    rw [this]
    exact ih _

/-- term dictionary of `rename_columns`: `terms[new] = ident old` with the pairs the other way round -/
theorem fold_ident_ren (hf : Injective f) (m : List (String × String)) (d : Terms) :
    (m.map (fun kv => (f kv.1, f kv.2))).foldl (fun d kv => dictSet d kv.1 (STerm.ident kv.2)) (Terms.rename f d)
      = Terms.rename f (m.foldl (fun d kv => dictSet d kv.1 (STerm.ident kv.2)) d) := by
  induction m generalizing d with
  | nil => rfl
  | cons kv m ih =>
    simp only [List.map_cons, List.foldl_cons]
    have := dictSet_map hf (STerm.rename f) d kv.1 (STerm.ident kv.2)
    unfold Terms.rename at ih ⊢
    rw [show STerm.rename f (STerm.ident kv.2) = STerm.ident (f kv.2) from rfl] at this
    rw [this]
    exact ih _

theorem fold_ident_map_nil (hf : Injective f) (m : List (String × String)) :
    (m.map (fun kv => (f kv.1, f kv.2))).foldl (fun d kv => dictSet d kv.2 (STerm.ident kv.1)) ([] : Terms)
      = Terms.rename f (m.foldl (fun d kv => dictSet d kv.2 (STerm.ident kv.1)) []) :=
  fold_ident_map hf m []

theorem fold_ident_ren_nil (hf : Injective f) (m : List (String × String)) :
    (m.map (fun kv => (f kv.1, f kv.2))).foldl (fun d kv => dictSet d kv.1 (STerm.ident kv.2)) ([] : Terms)
      = Terms.rename f (m.foldl (fun d kv => dictSet d kv.1 (STerm.ident kv.2)) []) :=
  fold_ident_ren hf m []

theorem fold_pass (hf : Injective f) (l : List String) (d : Terms) :
    (l.map f).foldl (fun d c => dictSet d c STerm.pass) (Terms.rename f d)
      = Terms.rename f (l.foldl (fun d c => dictSet d c STerm.pass) d) := by
  induction l generalizing d with
  | nil => rfl
  | cons c l ih =>
    simp only [List.map_cons, List.foldl_cons]
    have := dictSet_map hf (STerm.rename f) d c STerm.pass
    unfold Terms.rename at ih ⊢
    rw [show STerm.rename f STerm.pass = STerm.pass from rfl] at this
    rw [this]
    exact ih _

theorem headD_map (l : List (List String)) : (l.map (·.map f)).headD [] = (l.headD []).map f := by
  cases l <;> rfl

theorem take_map (n : Nat) (l : List String) : (l.map f).take n = (l.take n).map f := by
  simp [List.map_take]

end Ren
end DAVerif
