import DAVerif.Proofs.SqlJoinMain
/-!
C01/C02/C16: the root call (`using = None`) and stage B for the fragment with joins and `concat_rows`.
-/
namespace DAVerif
namespace Sql
open DAVerif.Ops (usedFromSources unionL)

theorem toNear_none_eq_ju (cfg : SqlCfg) (fuel : Nat) (p : Ops) (hf : InFragJ p = true) :
    toNear cfg fuel p none = toNear cfg fuel p (some p.cols) := by
  cases fuel with
  | zero => rfl
  | succ fuel =>
    cases p with
    | convert => cases hf
    | _ => rfl

/-- what the root call returns for a sound translation of all declared columns (tables, unary steps, joins, unions) -/
theorem root_of_sound_ju {Θ : Interp} {ec : EngineCfg} {env : Env} {q : Near} {u pc : List String} {tp : Table}
    (hs : Sound Θ ec env q u pc tp) (hq : q.isJU = true) (hu : ∀ c ∈ pc, c ∈ u) (hpc : ∀ c ∈ u, c ∈ pc)
    (hne : pc ≠ []) :
    ∃ T, semNear Θ ec env [] q none true = .ok T ∧ (∀ c, c ∈ T.cols ↔ c ∈ pc) ∧
      T.rows.map (fun r => r.select pc) = tp.rows.map (fun r => r.select pc) := by
  have hune : u ≠ [] := ne_nil_of_subset hu hne
  obtain ⟨ks, hk, hks1, hks2⟩ := hs.keys hune
  have hksne : ks ≠ [] := ne_nil_of_subset hks2 hune
  obtain ⟨T, h1, h2, h4⟩ := hs.req ks (fun c hc => hu c (hks1 c hc)) true
  have fin : semNear Θ ec env [] q none true = semNear Θ ec env [] q (some ks) true → T.cols = ks →
      ∃ T, semNear Θ ec env [] q none true = .ok T ∧ (∀ c, c ∈ T.cols ↔ c ∈ pc) ∧
        T.rows.map (fun r => r.select pc) = tp.rows.map (fun r => r.select pc) := by
    intro e1 e2
    refine ⟨T, e1.trans h1, ?_, map_select_mono h4 (fun c hc => hks2 c (hu c hc))⟩
    intro c
    rw [e2]
    exact ⟨hks1 c, fun hc => hks2 c (hu c hc)⟩
  cases q with
  | cte _ => cases hq
  | table name ts => exact root_of_sound hs rfl hu hpc hne
  | unary nm terms agg sub sc sfx mg dp key => exact root_of_sound hs rfl hu hpc hne
  | join n ts l lc ln r rc rn jt oa ob key =>
    simp only [Near.termKeys, Option.some.injEq] at hk
    subst hk
    have e : joinOut (ts.map (·.1)) none = joinOut (ts.map (·.1)) (some (ts.map (·.1))) := by
      rw [joinOut_some_ne hksne]; rfl
    apply fin
    · rw [semNear_join, semNear_join, e]
    · rw [semNear_join] at h1
      cases hl : semNear Θ ec env [] l (some lc) false with
      | error er => rw [hl] at h1; cases h1
      | ok tl =>
        cases hr : semNear Θ ec env [] r (some rc) false with
        | error er => rw [hl, hr] at h1; cases h1
        | ok tr =>
          rw [hl, hr] at h1
          simp only [Except.bind] at h1
          split at h1
          · cases h1
          · cases h1
            exact joinOut_some_ne hksne
  | union n ts l r cs key =>
    simp only [Near.termKeys, Option.some.injEq] at hk
    subst hk
    have e : joinOut ts none = joinOut ts (some ts) := by
      rw [joinOut_some_ne hksne]; rfl
    apply fin
    · rw [semNear_union, semNear_union, e]
    · rw [semNear_union] at h1
      cases hl : semNear Θ ec env [] l (some cs) true with
      | error er => rw [hl] at h1; cases h1
      | ok tl =>
        cases hr : semNear Θ ec env [] r (some cs) true with
        | error er => rw [hl, hr] at h1; cases h1
        | ok tr =>
          rw [hl, hr] at h1
          simp only [Except.bind] at h1
          cases h1
          exact joinOut_some_ne hksne

/-- **Stage A at the root, fragment with joins and `concat_rows`.**  The query `to_sql` renders (no extend merges;
every join rendered natively by the dialect), evaluated as a forced SELECT, returns a table with exactly the declared
column set whose rows, restricted to the declared columns, are **in order** the rows of the pipeline's table under the
engine's row ordering and the standard SQL join semantics (`semE ec Θ SemCfg.ref`). -/
theorem stageA_root_ju (Θ : Interp) (ec : EngineCfg) (env : Env) (cfg : SqlCfg) (hm : cfg.merges = false) (p : Ops)
    (hg : Good cfg env p) {fuel st st' : Nat} {q : Near} {tp : Table}
    (h : toNear cfg fuel p none st = .ok (q, st')) (htp : semE ec Θ SemCfg.ref env p = .ok tp) :
    ∃ T, semNear Θ ec env [] q none true = .ok T ∧ (∀ c, c ∈ T.cols ↔ c ∈ p.cols) ∧
      T.rows.map (fun r => r.select p.cols) = tp.rows := by
  obtain ⟨htpc, htpw⟩ := semG_cols_wf_fragJ _ Θ SemCfg.ref env p hg.frag tp htp
  have hself : tp.rows.map (fun r => r.select p.cols) = tp.rows := by
    rw [← htpc]; exact map_select_self_of_wf htpw (by rw [htpc]; exact hg.wf.cols_nodup)
  rw [toNear_none_eq_ju cfg fuel p hg.frag] at h
  obtain ⟨hju, u₁, hu₁, hu₁', hsound⟩ :=
    transOK_fragJ Θ ec env cfg hm p.size p (Nat.le_refl _) hg fuel p.cols st q st' tp (fun c hc => hc) h htp
  obtain ⟨T, t1, t2, t3⟩ := root_of_sound_ju hsound hju hu₁ hu₁' hg.wf.cols_ne_nil
  exact ⟨T, t1, t2, t3.trans hself⟩

/-! ### stage B on the fragment -/

/-- **Stage B, multiset scope, fragment with joins and `concat_rows`** (as `sem_equiv_semE`, without a hypothesis on
`Θ.convert`: the fragment has no `convert_records`). -/
theorem sem_equiv_semE_fragJ (ec : EngineCfg) (Θ : Interp) (cfg : SemCfg) (env : Env) (p : Ops)
    (hf : InFragJ p = true) (hA : AggsOrderFree Θ p) (hW : WindowsTotal Θ cfg env p)
    (hS : SqlScope Θ cfg env p) : ResEquiv (sem Θ cfg env p) (semE ec Θ cfg env p) := by
  induction p with
  | table name cs => exact ResEquiv.refl _
  | extend src ops part od rv w ih =>
    obtain ⟨hW1, hW2⟩ := hW
    obtain ⟨hS1, hS2⟩ := hS
    cases w with
    | true =>
      simp only [sem, semG, if_true]
      refine ResEquiv.bind (ih hf hA hW1 hS1) (fun t t' hx ht => ?_)
      simp only [pure, Except.pure]
      rcases hS2 rfl t hx with hnull | hfree
      · rw [semExtendWindowG_eq_of_nullFree ec Θ ops part od rv t' _ (hnull.perm ht.2)]
        exact semExtendWindow_equiv Θ ops part od rv ht _ (hW2 rfl t hx)
      · exact semExtendWindowG_equiv_free rowLe (sqlRowLe ec) Θ ops part od rv ht _ hfree
    | false =>
      simp only [sem, semG, Bool.false_eq_true, if_false]
      exact ResEquiv.bind (ih hf hA hW1 hS1) (fun t t' _ ht => semExtendPlain_equiv Θ ops ht _)
  | project src ops g ih =>
    simp only [sem, semG]
    exact ResEquiv.bind (ih hf hA.1 hW hS) (fun t t' _ ht => semProject_equiv Θ ops g ht _ hA.2)
  | selectRows src e ih =>
    simp only [sem, semG]
    exact ResEquiv.bind (ih hf hA hW hS) (fun t t' _ ht => semSelectRows_equiv Θ e ht)
  | selectCols src cs ih =>
    simp only [sem, semG]
    exact ResEquiv.bind (ih hf hA hW hS) (fun t t' _ ht => ht.selectCols cs)
  | dropCols src dels ih =>
    simp only [sem, semG]
    exact ResEquiv.bind (ih hf hA hW hS) (fun t t' _ ht => ht.selectCols _)
  | order src cs rv lim ih =>
    obtain ⟨hW1, hW2⟩ := hW
    obtain ⟨hS1, hS2⟩ := hS
    simp only [sem, semG]
    refine ResEquiv.bind (ih hf hA hW1 hS1) (fun t t' hx ht => ?_)
    simp only [pure, Except.pure]
    cases lim with
    | none =>
      exact ⟨ht.1, (sortRows_perm cs rv t.rows).trans (ht.2.trans (List.mergeSort_perm _ _).symm)⟩
    | some n =>
      rw [semOrderG_eq_of_nullFree ec cs rv (some n) t' ((hS2 (by simp) t hx).perm ht.2)]
      exact semOrder_limit_equiv cs rv n ht (hW2 n rfl t hx)
  | rename src m ih =>
    simp only [sem, semG]
    exact ResEquiv.bind (ih hf hA hW hS) (fun t t' _ ht => semRename_equiv ht _ _)
  | mapCols src m dels ih =>
    simp only [sem, semG]
    exact ResEquiv.bind (ih hf hA hW hS) (fun t t' _ ht => semMapCols_equiv ht _ dels _)
  | join a b oa ob jt iha ihb =>
    simp only [InFragJ, Bool.and_eq_true] at hf
    simp only [sem, semG]
    refine ResEquiv.bind (iha hf.1 hA.1 hW.1 hS.1) (fun ta ta' _ hta => ?_)
    exact ResEquiv.bind (ihb hf.2 hA.2 hW.2 hS.2) (fun tb tb' _ htb =>
      (semJoin_equiv cfg jt oa ob hta htb _).selectCols _)
  | concat a b idc an bn iha ihb =>
    simp only [InFragJ, Bool.and_eq_true] at hf
    simp only [sem, semG]
    refine ResEquiv.bind (iha hf.1 hA.1 hW.1 hS.1) (fun ta ta' _ hta => ?_)
    exact ResEquiv.bind (ihb hf.2 hA.2 hW.2 hS.2) (fun tb tb' _ htb => semConcat_equiv idc an bn hta htb _)
  | convert src rm ih => cases hf

end Sql
end DAVerif
