import DAVerif.Proofs.BuilderReach
import DAVerif.Spec.ColOrder
import DAVerif.Proofs.C07Total
/-!
`t ≈ʳ t'` (same rows in the same order, columns possibly permuted): basic theory, and the fact that every operator
of `sem` respects it **without any scope condition** (`applyNode_congrR`) – the operators read their input rows
through `Row.get` only (`Proofs/OpsGet.lean`: the `…_map` and `…_selectCols` lemmas), so permuting the columns of
an input permutes the columns of the output and changes nothing else.  This is the row-order-keeping counterpart of
`applyNode_congrC` (`Proofs/ApplyCongr.lean`), which forgets the row order and therefore needs C18's scope.
-/
namespace DAVerif

namespace Table.EquivR
variable {t t' t'' : Table}

theorem wf_left (h : t ≈ʳ t') : t.WF := h.1
theorem wf_right (h : t ≈ʳ t') : t'.WF := h.2.1
theorem nodup_left (h : t ≈ʳ t') : t.cols.Nodup := h.2.2.1
theorem cols_perm (h : t ≈ʳ t') : t.cols.Perm t'.cols := h.2.2.2.1
theorem rows_eq (h : t ≈ʳ t') : t.rows = t'.rows.map (fun r => r.select t.cols) := h.2.2.2.2
theorem nodup_right (h : t ≈ʳ t') : t'.cols.Nodup := h.cols_perm.nodup_iff.mp h.nodup_left
theorem mem_cols (h : t ≈ʳ t') (c : String) : c ∈ t.cols ↔ c ∈ t'.cols := h.cols_perm.mem_iff

/-- `≈ʳ` is finer than `≈ᶜ` -/
theorem toC (h : t ≈ʳ t') : t ≈ᶜ t' := ⟨h.1, h.2.1, h.2.2.1, h.2.2.2.1, List.Perm.of_eq h.2.2.2.2⟩

/-- the defining reading: the first table *is* the second with its columns put in the order of the first -/
theorem eq_select (h : t ≈ʳ t') : t = t'.selectCols t.cols := by
  cases t with
  | mk cols rows => exact congrArg (Table.mk cols) h.rows_eq

theorem refl (hw : t.WF) (hn : t.cols.Nodup) : t ≈ʳ t :=
  ⟨hw, hw, hn, List.Perm.refl _, (Table.rows_select_self hw hn).symm⟩

theorem symm (h : t ≈ʳ t') : t' ≈ʳ t := by
  refine ⟨h.wf_right, h.wf_left, h.nodup_right, h.cols_perm.symm, ?_⟩
  rw [h.rows_eq, List.map_map]
  conv => lhs; rw [← List.map_id t'.rows]
  apply List.map_congr_left
  intro r hr
  simp only [Function.comp, id]
  rw [Row.select_select (fun c hc => (h.mem_cols c).mpr hc)]
  exact (Row.select_self (h.wf_right r hr) h.nodup_right).symm

theorem trans (h : t ≈ʳ t') (h' : t' ≈ʳ t'') : t ≈ʳ t'' := by
  refine ⟨h.wf_left, h'.wf_right, h.nodup_left, h.cols_perm.trans h'.cols_perm, ?_⟩
  rw [h.rows_eq, h'.rows_eq, List.map_map]
  apply List.map_congr_left
  intro r _
  simp only [Function.comp]
  exact Row.select_select (fun c hc => (h.mem_cols c).mp hc)

/-- a column re-ordering of a well-formed table is `≈ʳ` to it -/
theorem selectCols_left (hw : t.WF) {cs : List String} (hn : cs.Nodup) (hp : cs.Perm t.cols) :
    t.selectCols cs ≈ʳ t :=
  ⟨Table.wf_selectCols t cs, hw, hn, hp, rfl⟩

theorem of_eq_select (hw : t.WF) (hw' : t'.WF) (hn : t.cols.Nodup) (hp : t.cols.Perm t'.cols)
    (h : t = t'.selectCols t.cols) : t ≈ʳ t' := ⟨hw, hw', hn, hp, congrArg Table.rows h⟩

end Table.EquivR

namespace ResEquivR

theorem toC : ∀ {x y : Except Err Table}, ResEquivR x y → ResEquivC x y
  | .ok _, .ok _, h => Table.EquivR.toC h
  | .error _, .error _, h => h
  | .ok _, .error _, h => h.elim
  | .error _, .ok _, h => h.elim

theorem symm : ∀ {x y : Except Err Table}, ResEquivR x y → ResEquivR y x
  | .ok _, .ok _, h => Table.EquivR.symm h
  | .error _, .error _, h => Eq.symm h
  | .ok _, .error _, h => h.elim
  | .error _, .ok _, h => h.elim

theorem trans : ∀ {x y z : Except Err Table}, ResEquivR x y → ResEquivR y z → ResEquivR x z
  | .ok _, .ok _, .ok _, h, h' => Table.EquivR.trans h h'
  | .error _, .error _, .error _, h, h' => Eq.trans h h'
  | .ok _, .error _, _, h, _ => h.elim
  | .error _, .ok _, _, h, _ => h.elim
  | .ok _, .ok _, .error _, _, h' => h'.elim
  | .error _, .error _, .ok _, _, h' => h'.elim

theorem of_ok {x y : Except Err Table} {t : Table} (h : ResEquivR x y) (hx : x = .ok t) :
    ∃ t', y = .ok t' ∧ t ≈ʳ t' := by
  subst hx
  cases y with
  | ok t' => exact ⟨t', rfl, h⟩
  | error e => exact h.elim

theorem of_eq {x y : Except Err Table} (h : x = y) (hw : ∀ t, x = .ok t → t.WF ∧ t.cols.Nodup) :
    ResEquivR x y := by
  subst h
  cases x with
  | error e => rfl
  | ok t => exact Table.EquivR.refl (hw t rfl).1 (hw t rfl).2

theorem bind {x y : Except Err Table} {f g : Table → Except Err Table} (h : ResEquivR x y)
    (hfg : ∀ t t', x = .ok t → y = .ok t' → t ≈ʳ t' → ResEquivR (f t) (g t')) :
    ResEquivR (x >>= f) (y >>= g) := by
  cases x with
  | error e =>
    cases y with
    | error e' => exact h
    | ok _ => exact h.elim
  | ok t =>
    cases y with
    | error _ => exact h.elim
    | ok t' => exact hfg t t' rfl rfl h

end ResEquivR

/-! ### the operators -/

/-- the general pattern for operators that build their output rows as `… |>.select outCols` from what `get`
reads in the input rows: no condition on the rows -/
theorem getOnly_congrR (F : Table → List String → Table)
    (hcols : ∀ t oc, (F t oc).cols = oc) (hwf : ∀ t oc, (F t oc).WF)
    (hmap : ∀ cs1 cs2 rows f oc, GetEq rows f → F ⟨cs1, rows.map f⟩ oc = F ⟨cs2, rows⟩ oc)
    (hsel : ∀ t oc oc', (∀ c ∈ oc, c ∈ oc') → (F t oc').selectCols oc = F t oc)
    {ta ta' : Table} (ha : ta ≈ʳ ta') {oc oc' : List String} (hn : oc.Nodup) (hp : oc.Perm oc') :
    F ta oc ≈ʳ F ta' oc' := by
  refine Table.EquivR.of_eq_select (hwf _ _) (hwf _ _) (by rw [hcols]; exact hn)
    (by rw [hcols, hcols]; exact hp) ?_
  rw [hcols, hsel ta' oc oc' (fun c hc => hp.mem_iff.mp hc)]
  have h2 : F (ta'.selectCols ta.cols) oc = F ta' oc :=
    hmap ta.cols ta'.cols ta'.rows (fun r => r.select ta.cols) oc
      (getEq_select ha.wf_right (fun c => ha.mem_cols c))
  rw [← h2, ← ha.eq_select]

theorem selectCols_map (cs1 cs2 : List String) (rows : List Row) (f : Row → Row) (oc : List String)
    (h : GetEq rows f) : (Table.mk cs1 (rows.map f)).selectCols oc = (Table.mk cs2 rows).selectCols oc := by
  simp only [Table.selectCols, List.map_map, Table.mk.injEq, true_and]
  apply List.map_congr_left
  intro r hr
  exact Row.select_congr (fun c _ => h r hr c)

/-- **`applyNode` respects `≈ʳ`** – for every operator, without any condition on the rows. -/
theorem applyNode_congrR (Θ : Interp) (cfg : SemCfg) (hR : ConvertColInvariant Θ) (N : Ops)
    {ta ta' tb tb' : Table} (ha : ta ≈ʳ ta') (hb : tb ≈ʳ tb') (hc : NodeColsOK N ta.cols) :
    ResEquivR (applyNode Θ cfg N ta tb) (applyNode Θ cfg N ta' tb') := by
  have hmem := ha.mem_cols
  have hsel : ∀ (oc : List String), GetEq ta'.rows (fun r => r.select ta.cols) :=
    fun _ => getEq_select ha.wf_right (fun c => hmem c)
  cases N with
  | table n cs => exact ha
  | extend s ops part od rv w =>
    have hn : (appendNew ta.cols (ops.map (·.1))).Nodup := nodup_appendNewC ha.nodup_left
    have hp : (appendNew ta.cols (ops.map (·.1))).Perm (appendNew ta'.cols (ops.map (·.1))) :=
      appendNew_perm ha.nodup_left ha.nodup_right (fun c => by rw [hmem c])
    cases w with
    | true =>
      simp only [applyNode, if_true]
      exact getOnly_congrR (fun t oc => semExtendWindow Θ ops part od rv t oc)
        (fun _ _ => rfl) (fun t oc => semExtendWindow_wf Θ ops part od rv t oc)
        (fun cs1 cs2 rows f oc h => semExtendWindow_map Θ ops part od rv cs1 cs2 rows f oc h)
        (fun t oc oc' h => semExtendWindow_selectCols Θ ops part od rv t h) ha hn hp
    | false =>
      simp only [applyNode, Bool.false_eq_true, if_false]
      exact getOnly_congrR (fun t oc => semExtendPlain Θ ops t oc)
        (fun _ _ => rfl) (fun t oc => semExtendPlain_wf Θ ops t oc)
        (fun cs1 cs2 rows f oc h => semExtendPlain_map Θ ops cs1 cs2 rows f oc h)
        (fun t oc oc' h => semExtendPlain_selectCols Θ ops t h) ha hn hp
  | project s ops g =>
    simp only [applyNode]
    exact getOnly_congrR (fun t oc => semProject Θ ops g t oc)
      (fun t oc => (semProject_wf Θ ops g t oc).2) (fun t oc => (semProject_wf Θ ops g t oc).1)
      (fun cs1 cs2 rows f oc h => semProject_map Θ ops g cs1 cs2 rows f oc h)
      (fun t oc oc' h => semProject_selectCols Θ ops g t h) ha (nodup_appendNewC hc) (List.Perm.refl _)
  | selectRows s e =>
    simp only [applyNode]
    refine Table.EquivR.of_eq_select (semSelectRows_wf Θ e ha.wf_left) (semSelectRows_wf Θ e ha.wf_right)
      ha.nodup_left ha.cols_perm ?_
    have h2 := semSelectRows_map Θ e ta.cols ta'.cols ta'.rows (fun r => r.select ta.cols) (hsel [])
    have h3 : semSelectRows Θ e ta = semSelectRows Θ e (ta'.selectCols ta.cols) := by rw [← ha.eq_select]
    rw [h3]
    exact h2
  | selectCols s cs =>
    simp only [applyNode]
    exact getOnly_congrR (fun t oc => t.selectCols oc) (fun _ _ => rfl) (fun t oc => Table.wf_selectCols t oc)
      (fun cs1 cs2 rows f oc h => selectCols_map cs1 cs2 rows f oc h)
      (fun t oc oc' h => Table.selectCols_selectCols t h) ha hc.1 (List.Perm.refl _)
  | dropCols s ds =>
    simp only [applyNode]
    exact getOnly_congrR (fun t oc => t.selectCols oc) (fun _ _ => rfl) (fun t oc => Table.wf_selectCols t oc)
      (fun cs1 cs2 rows f oc h => selectCols_map cs1 cs2 rows f oc h)
      (fun t oc oc' h => Table.selectCols_selectCols t h) ha (nodup_filter _ ha.nodup_left)
      (ha.cols_perm.filter _)
  | order s cs rv lim =>
    simp only [applyNode]
    refine Table.EquivR.of_eq_select (semOrder_wf cs rv lim ha.wf_left) (semOrder_wf cs rv lim ha.wf_right)
      ha.nodup_left ha.cols_perm ?_
    have h2 := semOrder_map cs rv lim ta.cols ta'.cols ta'.rows (fun r => r.select ta.cols) (hsel [])
    have h3 : semOrder cs rv lim ta = semOrder cs rv lim (ta'.selectCols ta.cols) := by rw [← ha.eq_select]
    rw [h3]
    exact h2
  | rename s m =>
    simp only [applyNode]
    have hinj : ∀ c ∈ ta.cols, ∀ k ∈ ta'.cols, renameFn m k = renameFn m c → k = c :=
      fun c hcc k hk e => inj_of_nodup_mapC hc k ((hmem k).mpr hk) c hcc e
    refine ⟨?_, ?_, hc, ha.cols_perm.map _, ?_⟩
    · intro r hr
      simp only [List.mem_map] at hr
      obtain ⟨r0, hr0, rfl⟩ := hr
      rw [Row.keys_rename, ha.wf_left r0 hr0]
    · intro r hr
      simp only [List.mem_map] at hr
      obtain ⟨r0, hr0, rfl⟩ := hr
      rw [Row.keys_rename, ha.wf_right r0 hr0]
    · simp only [List.map_map]
      rw [ha.rows_eq, List.map_map]
      apply List.map_congr_left
      intro r hr
      simp only [Function.comp]
      exact rename_select_eq (fun c hc k hk => hinj c hc k (by rw [← ha.wf_right r hr]; exact hk))
  | mapCols s m ds =>
    simp only [applyNode]
    have hinj : ∀ c ∈ ta.cols.filter (fun c => !ds.contains c), ∀ k ∈ ta'.cols.filter (fun c => !ds.contains c),
        mapFn m k = mapFn m c → k = c :=
      fun c hcc k hk e => inj_of_nodup_mapC (f := mapFn m) hc k
        ((ha.cols_perm.filter _).mem_iff.mpr hk) c hcc e
    refine ⟨?_, ?_, hc, (ha.cols_perm.filter _).map _, ?_⟩
    · intro r hr
      simp only [List.mem_map] at hr
      obtain ⟨r0, hr0, rfl⟩ := hr
      rw [Row.keys_rename, Row.keys_drop, ha.wf_left r0 hr0]
    · intro r hr
      simp only [List.mem_map] at hr
      obtain ⟨r0, hr0, rfl⟩ := hr
      rw [Row.keys_rename, Row.keys_drop, ha.wf_right r0 hr0]
    · simp only [List.map_map]
      rw [ha.rows_eq, List.map_map]
      apply List.map_congr_left
      intro r hr
      simp only [Function.comp]
      rw [drop_select_eq]
      have hsel' : r.select (ta.cols.filter (fun c => !ds.contains c))
          = (r.drop ds).select (ta.cols.filter (fun c => !ds.contains c)) := by
        apply Row.select_congr
        intro c hcc
        rw [Row.get_dropC]
        have : ds.contains c = false := by simpa using (List.mem_filter.mp hcc).2
        simp only [this, Bool.false_eq_true, if_false]
      rw [hsel']
      exact rename_select_eq (fun c hc k hk => hinj c hc k (by
        rw [Row.keys_drop, ha.wf_right r hr] at hk; exact hk))
  | join a b oa ob jt =>
    simp only [applyNode]
    have hmb := hb.mem_cols
    have hjn : (joinCols ta.cols tb.cols).Nodup := nodup_joinCols ha.nodup_left hb.nodup_left
    have hjp : (joinCols ta.cols tb.cols).Perm (joinCols ta'.cols tb'.cols) :=
      perm_of_mem_iff hjn (nodup_joinCols ha.nodup_right hb.nodup_right)
        (fun c => by rw [mem_joinCols, mem_joinCols, hmem c, hmb c])
    have hsub : ∀ {x y : List String}, ∀ c ∈ joinCols x y, c ∈ appendNew x y :=
      fun c hc => mem_appendNewC.mpr (mem_joinCols.mp hc)
    rw [semJoin_selectCols cfg jt oa ob ta tb hsub, semJoin_selectCols cfg jt oa ob ta' tb' hsub]
    refine Table.EquivR.of_eq_select (semJoin_wf _ _ _ _ _ _ _) (semJoin_wf _ _ _ _ _ _ _) hjn hjp ?_
    show semJoin cfg jt oa ob ta tb (joinCols ta.cols tb.cols) =
      (semJoin cfg jt oa ob ta' tb' (joinCols ta'.cols tb'.cols)).selectCols (joinCols ta.cols tb.cols)
    rw [semJoin_selectCols cfg jt oa ob ta' tb' (fun c hc => hjp.mem_iff.mp hc)]
    have h2 := semJoin_map cfg jt oa ob ta.cols ta'.cols tb.cols tb'.cols ta'.rows tb'.rows
      (fun r => r.select ta.cols) (fun r => r.select tb.cols) (joinCols ta.cols tb.cols)
      (fun c => hmem c) (fun c => hmb c) (getEq_select ha.wf_right (fun c => hmem c))
      (getEq_select hb.wf_right (fun c => hmb c))
    have h3 : semJoin cfg jt oa ob ta tb (joinCols ta.cols tb.cols)
        = semJoin cfg jt oa ob (ta'.selectCols ta.cols) (tb'.selectCols tb.cols) (joinCols ta.cols tb.cols) := by
      rw [← ha.eq_select, ← hb.eq_select]
    rw [h3]
    exact h2
  | concat a b idc an bn =>
    simp only [applyNode]
    have hp : (concatCols ta.cols idc).Perm (concatCols ta'.cols idc) := by
      cases idc with
      | none => exact ha.cols_perm
      | some c => exact ha.cols_perm.append_right _
    refine Table.EquivR.of_eq_select (semConcat_wf _ _ _ _ _ _) (semConcat_wf _ _ _ _ _ _) hc hp ?_
    show semConcat idc an bn ta tb (concatCols ta.cols idc) =
      (semConcat idc an bn ta' tb' (concatCols ta'.cols idc)).selectCols (concatCols ta.cols idc)
    rw [semConcat_selectCols idc an bn ta' tb' (fun c hc => hp.mem_iff.mp hc)]
    have h2 := semConcat_map idc an bn ta.cols ta'.cols tb.cols tb'.cols ta'.rows tb'.rows
      (fun r => r.select ta.cols) (fun r => r.select tb.cols) (concatCols ta.cols idc)
      (getEq_select ha.wf_right (fun c => hmem c)) (getEq_select hb.wf_right (fun c => hb.mem_cols c))
    have h3 : semConcat idc an bn ta tb (concatCols ta.cols idc)
        = semConcat idc an bn (ta'.selectCols ta.cols) (tb'.selectCols tb.cols) (concatCols ta.cols idc) := by
      rw [← ha.eq_select, ← hb.eq_select]
    rw [h3]
    exact h2
  | convert s rm => exact hR rm ta ta' hc ha

end DAVerif
