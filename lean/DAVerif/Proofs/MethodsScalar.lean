import DAVerif.Proofs.Methods
/-!
C05, row-wise methods: for every operator of the provable classes, the pandas model `ThetaX.scalar` and the SQLite model
`ThetaSqlX.scalar` compute the documented value wherever the documentation determines one.
One lemma per operator and backend; `Props/C05.lean` assembles them.
-/
namespace DAVerif.C05
open DAVerif DAVerif.Doc

/-! ### arithmetic -/

theorem pandas_add (args v) (h : docScalar "+" args = some v) : ThetaX.scalar "+" args = v := by
  have hd : docScalar "+" args = numK (· + ·) args := rfl
  rw [hd] at h
  obtain ⟨x, y, r, rfl, rfl⟩ := numK_some h
  show ((((x :: y :: r).map (fun q => ArgV.v (.num q))).map Theta.cell).tail.foldl
      (Theta.arith2 (fun a b => some (a + b))) (.num x)) = _
  rw [map_cell_nums]
  exact foldl_arith2 (· + ·) x (y :: r)

theorem pandas_mul (args v) (h : docScalar "*" args = some v) : ThetaX.scalar "*" args = v := by
  have hd : docScalar "*" args = numK (· * ·) args := rfl
  rw [hd] at h
  obtain ⟨x, y, r, rfl, rfl⟩ := numK_some h
  show ((((x :: y :: r).map (fun q => ArgV.v (.num q))).map Theta.cell).tail.foldl
      (Theta.arith2 (fun a b => some (a * b))) (.num x)) = _
  rw [map_cell_nums]
  exact foldl_arith2 (· * ·) x (y :: r)

theorem pandas_sub (args v) : docScalar "-" args = some v → ThetaX.scalar "-" args = v := by
  have hd : docScalar "-" args = (match args with
    | [.v (.num x)] => some (.num (-x))
    | [.v (.num x), .v (.num y)] => some (.num (x - y))
    | _ => none) := rfl
  rw [hd]
  intro h
  split at h
  · simp at h; subst h; rfl
  · simp at h; subst h; rfl
  · simp at h

theorem pandas_div (args v) (h : docScalar "/" args = some v) : ThetaX.scalar "/" args = v := by
  have hd : docScalar "/" args = num2 (fun x y => if y = 0 then none else some (.num (x / y))) args := rfl
  rw [hd] at h
  obtain ⟨x, y, rfl, hf⟩ := num2_some h
  show Theta.arith2 (fun x y => if y == 0 then none else some (x / y)) (.num x) (.num y) = v
  by_cases hy : y = 0 <;> simp_all [Theta.arith2, Theta.num?]

theorem pandas_fdiv (args v) (h : docScalar "%/%" args = some v) : ThetaX.scalar "%/%" args = v := by
  have hd : docScalar "%/%" args = num2 (fun x y => if y = 0 then none else some (.num (x / y))) args := rfl
  rw [hd] at h
  obtain ⟨x, y, rfl, hf⟩ := num2_some h
  show Theta.arith2 (fun x y => if y == 0 then none else some (x / y)) (.num x) (.num y) = v
  by_cases hy : y = 0 <;> simp_all [Theta.arith2, Theta.num?]

theorem pandas_floordiv (args v) (h : docScalar "//" args = some v) : ThetaX.scalar "//" args = v := by
  have hd : docScalar "//" args = num2 (fun x y => if y = 0 then none else some (.num ((x / y).floor : Int))) args := rfl
  rw [hd] at h
  obtain ⟨x, y, rfl, hf⟩ := num2_some h
  show Theta.arith2 Theta.floorDiv (.num x) (.num y) = v
  by_cases hy : y = 0 <;> simp_all [Theta.arith2, Theta.num?, Theta.floorDiv]

theorem theta_pymod (x y : Rat) (v : Val)
    (hf : (if y = 0 then none else some (Val.num (x - y * ((x / y).floor : Int)))) = some v) :
    Theta.arith2 Theta.pyMod (.num x) (.num y) = v := by
  by_cases hy : y = 0 <;> simp_all [Theta.arith2, Theta.num?, Theta.pyMod]

theorem pandas_pct (args v) (h : docScalar "%" args = some v) : ThetaX.scalar "%" args = v := by
  have hd : docScalar "%" args = num2 (fun x y => if y = 0 then none else some (.num (x - y * ((x / y).floor : Int)))) args := rfl
  rw [hd] at h
  obtain ⟨x, y, rfl, hf⟩ := num2_some h
  exact theta_pymod x y v hf

theorem pandas_mod (args v) (h : docScalar "mod" args = some v) : ThetaX.scalar "mod" args = v := by
  have hd : docScalar "mod" args = num2 (fun x y => if y = 0 then none else some (.num (x - y * ((x / y).floor : Int)))) args := rfl
  rw [hd] at h
  obtain ⟨x, y, rfl, hf⟩ := num2_some h
  exact theta_pymod x y v hf

theorem pandas_remainder (args v) (h : docScalar "remainder" args = some v) : ThetaX.scalar "remainder" args = v := by
  have hd : docScalar "remainder" args = num2 (fun x y => if y = 0 then none else some (.num (x - y * ((x / y).floor : Int)))) args := rfl
  rw [hd] at h
  obtain ⟨x, y, rfl, hf⟩ := num2_some h
  exact theta_pymod x y v hf

/-- `Theta`'s power on two numbers is the documented power -/
theorem theta_pow (x y : Rat) (v : Val)
    (hf : (if y.den = 1 then
            if 0 ≤ y.num then some (Val.num (ipow x y.num.toNat))
            else if x = 0 then none else some (.num (1 / ipow x (-y.num).toNat))
          else none) = some v) :
    Theta.arith2 Theta.pow (.num x) (.num y) = v := by
  by_cases hd : y.den = 1
  · by_cases hn : 0 ≤ y.num
    · simp_all [Theta.arith2, Theta.num?, Theta.pow, ratPow_eq_ipow]
    · by_cases hx : x = 0 <;> simp_all [Theta.arith2, Theta.num?, Theta.pow, ratPow_eq_ipow]
  · simp_all

theorem pandas_pow (args v) (h : docScalar "**" args = some v) : ThetaX.scalar "**" args = v := by
  have hd : docScalar "**" args = num2 (fun x y =>
      if y.den = 1 then
        if 0 ≤ y.num then some (.num (ipow x y.num.toNat))
        else if x = 0 then none else some (.num (1 / ipow x (-y.num).toNat))
      else none) args := rfl
  rw [hd] at h
  obtain ⟨x, y, rfl, hf⟩ := num2_some h
  show (if (Theta.num? (.num y) == some 0 && ((Val.num x).isNull || (Theta.num? (.num x)).isSome)) = true then Val.num 1
        else if (Theta.num? (.num x) == some 1 && ((Val.num y).isNull || (Theta.num? (.num y)).isSome)) = true then .num 1
        else Theta.arith2 Theta.pow (.num x) (.num y)) = v
  by_cases hy : y = 0
  · subst hy
    simp [Theta.num?, Val.isNull] 
    simp at hf
    have : ipow x 0 = 1 := rfl
    simp_all
  · by_cases hx : x = 1
    · subst hx
      simp [Theta.num?, Val.isNull, hy]
      have h11 : (1 : Rat) / 1 = 1 := by grind
      by_cases hd : y.den = 1
      · by_cases hn : 0 ≤ y.num <;> simp_all [ipow_one]
      · simp_all
    · simp [Theta.num?, Val.isNull, hy, hx]
      exact theta_pow x y v hf

theorem sqlite_pow (i : Bool) (args v) (h : docScalar "**" args = some v) : ThetaSqlX.scalar i "**" args = v := by
  have hd : docScalar "**" args = num2 (fun x y =>
      if y.den = 1 then
        if 0 ≤ y.num then some (.num (ipow x y.num.toNat))
        else if x = 0 then none else some (.num (1 / ipow x (-y.num).toNat))
      else none) args := rfl
  rw [hd] at h
  obtain ⟨x, y, rfl, hf⟩ := num2_some h
  exact theta_pow x y v hf

theorem pandas_sign (args v) (h : docScalar "sign" args = some v) : ThetaX.scalar "sign" args = v := by
  have hd : docScalar "sign" args = num1 (fun x => some (.num (if x < 0 then -1 else if x = 0 then 0 else 1))) args := rfl
  rw [hd] at h
  obtain ⟨x, rfl, hf⟩ := num1_some h
  show Val.num (if x < 0 then -1 else if x == 0 then 0 else 1) = v
  simp at hf; subst hf
  by_cases h0 : x = 0 <;> simp [h0]

theorem pandas_abs (args v) (h : docScalar "abs" args = some v) : ThetaX.scalar "abs" args = v := by
  have hd : docScalar "abs" args = num1 (fun x => some (.num (if x < 0 then -x else x))) args := rfl
  rw [hd] at h
  obtain ⟨x, rfl, hf⟩ := num1_some h
  simp at hf; subst hf; rfl

theorem pandas_floor (args v) (h : docScalar "floor" args = some v) : ThetaX.scalar "floor" args = v := by
  have hd : docScalar "floor" args = num1 (fun x => some (.num (x.floor : Int))) args := rfl
  rw [hd] at h
  obtain ⟨x, rfl, hf⟩ := num1_some h
  simp at hf; subst hf; rfl

theorem pandas_ceil (args v) (h : docScalar "ceil" args = some v) : ThetaX.scalar "ceil" args = v := by
  have hd : docScalar "ceil" args = num1 (fun x => some (.num (x.ceil : Int))) args := rfl
  rw [hd] at h
  obtain ⟨x, rfl, hf⟩ := num1_some h
  simp at hf; subst hf; rfl

/-! ### comparisons -/

theorem valEq_sameKind (a b : Val) (hk : sameKind a b = true) : Theta.valEq a b = (a == b) := by
  cases a <;> cases b <;> first | (exfalso; simp [sameKind] at hk; done) | skip
  · rename_i x y; cases x <;> cases y <;> decide
  · rename_i x y
    show (x == y) = (Val.num x == Val.num y)
    by_cases hxy : x = y
    · subst hxy; simp
    · have : Val.num x ≠ Val.num y := fun e => hxy (Val.num.inj e)
      rw [beq_eq_false_iff_ne.mpr hxy, beq_eq_false_iff_ne.mpr this]
  · rfl

theorem lt_sameKind (a b : Val) (hk : sameKind a b = true) : Val.lt a b = Doc.lt a b := by
  cases a <;> cases b <;> first | (exfalso; simp [sameKind] at hk; done) | rfl

theorem notNull_of_sameKind {a b : Val} (hk : sameKind a b = true) : a.isNull = false ∧ b.isNull = false := by
  cases a <;> cases b <;> first | (exfalso; simp [sameKind] at hk; done) | exact ⟨rfl, rfl⟩

theorem sameKind_symm {a b : Val} (hk : sameKind a b = true) : sameKind b a = true := by
  cases a <;> cases b <;> first | (exfalso; simp [sameKind] at hk; done) | rfl

theorem cmp2_sameKind (f : Val → Val → Bool) (d : Bool) (a b : Val) (hk : sameKind a b = true) :
    Theta.cmp2 f d a b = .bool (f a b) := by
  obtain ⟨ha, hb⟩ := notNull_of_sameKind hk
  simp [Theta.cmp2, ha, hb]

theorem cmp3_sameKind (f : Val → Val → Bool) (a b : Val) (hk : sameKind a b = true) :
    ThetaSql.cmp3 f a b = .bool (f a b) := by
  obtain ⟨ha, hb⟩ := notNull_of_sameKind hk
  simp [ThetaSql.cmp3, ha, hb]

theorem pandas_eq (args v) (h : docScalar "==" args = some v) : ThetaX.scalar "==" args = v := by
  have hd : docScalar "==" args = cmp (fun a b => a == b) args := rfl
  rw [hd] at h
  obtain ⟨a, b, rfl, hk, rfl⟩ := cmp_some h
  show Theta.cmp2 Theta.valEq false a b = _
  rw [cmp2_sameKind _ _ _ _ hk, valEq_sameKind a b hk]

theorem sqlite_eq (i : Bool) (args v) (h : docScalar "==" args = some v) : ThetaSqlX.scalar i "==" args = v := by
  have hd : docScalar "==" args = cmp (fun a b => a == b) args := rfl
  rw [hd] at h
  obtain ⟨a, b, rfl, hk, rfl⟩ := cmp_some h
  show ThetaSql.cmp3 Theta.valEq a b = _
  rw [cmp3_sameKind _ _ _ hk, valEq_sameKind a b hk]

theorem pandas_ne (args v) (h : docScalar "!=" args = some v) : ThetaX.scalar "!=" args = v := by
  have hd : docScalar "!=" args = cmp (fun a b => a != b) args := rfl
  rw [hd] at h
  obtain ⟨a, b, rfl, hk, rfl⟩ := cmp_some h
  show Theta.cmp2 (fun x y => !Theta.valEq x y) true a b = _
  rw [cmp2_sameKind _ _ _ _ hk, valEq_sameKind a b hk]; rfl

theorem sqlite_ne (i : Bool) (args v) (h : docScalar "!=" args = some v) : ThetaSqlX.scalar i "!=" args = v := by
  have hd : docScalar "!=" args = cmp (fun a b => a != b) args := rfl
  rw [hd] at h
  obtain ⟨a, b, rfl, hk, rfl⟩ := cmp_some h
  show ThetaSql.cmp3 (fun x y => !Theta.valEq x y) a b = _
  rw [cmp3_sameKind _ _ _ hk, valEq_sameKind a b hk]; rfl

theorem pandas_lt (args v) (h : docScalar "<" args = some v) : ThetaX.scalar "<" args = v := by
  have hd : docScalar "<" args = cmp (fun a b => lt a b) args := rfl
  rw [hd] at h
  obtain ⟨a, b, rfl, hk, rfl⟩ := cmp_some h
  show Theta.cmp2 (fun x y => Val.lt x y) false a b = _
  rw [cmp2_sameKind _ _ _ _ hk, lt_sameKind a b hk]

theorem sqlite_lt (i : Bool) (args v) (h : docScalar "<" args = some v) : ThetaSqlX.scalar i "<" args = v := by
  have hd : docScalar "<" args = cmp (fun a b => lt a b) args := rfl
  rw [hd] at h
  obtain ⟨a, b, rfl, hk, rfl⟩ := cmp_some h
  show ThetaSql.cmp3 (fun x y => Val.lt x y) a b = _
  rw [cmp3_sameKind _ _ _ hk, lt_sameKind a b hk]

theorem pandas_le (args v) (h : docScalar "<=" args = some v) : ThetaX.scalar "<=" args = v := by
  have hd : docScalar "<=" args = cmp (fun a b => !lt b a) args := rfl
  rw [hd] at h
  obtain ⟨a, b, rfl, hk, rfl⟩ := cmp_some h
  show Theta.cmp2 (fun x y => !Val.lt y x) false a b = _
  rw [cmp2_sameKind _ _ _ _ hk, lt_sameKind b a (sameKind_symm hk)]

theorem sqlite_le (i : Bool) (args v) (h : docScalar "<=" args = some v) : ThetaSqlX.scalar i "<=" args = v := by
  have hd : docScalar "<=" args = cmp (fun a b => !lt b a) args := rfl
  rw [hd] at h
  obtain ⟨a, b, rfl, hk, rfl⟩ := cmp_some h
  show ThetaSql.cmp3 (fun x y => !Val.lt y x) a b = _
  rw [cmp3_sameKind _ _ _ hk, lt_sameKind b a (sameKind_symm hk)]

theorem pandas_gt (args v) (h : docScalar ">" args = some v) : ThetaX.scalar ">" args = v := by
  have hd : docScalar ">" args = cmp (fun a b => lt b a) args := rfl
  rw [hd] at h
  obtain ⟨a, b, rfl, hk, rfl⟩ := cmp_some h
  show Theta.cmp2 (fun x y => Val.lt y x) false a b = _
  rw [cmp2_sameKind _ _ _ _ hk, lt_sameKind b a (sameKind_symm hk)]

theorem sqlite_gt (i : Bool) (args v) (h : docScalar ">" args = some v) : ThetaSqlX.scalar i ">" args = v := by
  have hd : docScalar ">" args = cmp (fun a b => lt b a) args := rfl
  rw [hd] at h
  obtain ⟨a, b, rfl, hk, rfl⟩ := cmp_some h
  show ThetaSql.cmp3 (fun x y => Val.lt y x) a b = _
  rw [cmp3_sameKind _ _ _ hk, lt_sameKind b a (sameKind_symm hk)]

theorem pandas_ge (args v) (h : docScalar ">=" args = some v) : ThetaX.scalar ">=" args = v := by
  have hd : docScalar ">=" args = cmp (fun a b => !lt a b) args := rfl
  rw [hd] at h
  obtain ⟨a, b, rfl, hk, rfl⟩ := cmp_some h
  show Theta.cmp2 (fun x y => !Val.lt x y) false a b = _
  rw [cmp2_sameKind _ _ _ _ hk, lt_sameKind a b hk]

theorem sqlite_ge (i : Bool) (args v) (h : docScalar ">=" args = some v) : ThetaSqlX.scalar i ">=" args = v := by
  have hd : docScalar ">=" args = cmp (fun a b => !lt a b) args := rfl
  rw [hd] at h
  obtain ⟨a, b, rfl, hk, rfl⟩ := cmp_some h
  show ThetaSql.cmp3 (fun x y => !Val.lt x y) a b = _
  rw [cmp3_sameKind _ _ _ hk, lt_sameKind a b hk]

/-! ### connectives -/

theorem pandas_and (args v) (h : docScalar "and" args = some v) : ThetaX.scalar "and" args = v := by
  have hd : docScalar "and" args = boolK (fun bs => bs.all id) args := rfl
  rw [hd] at h
  obtain ⟨x, y, r, rfl, rfl⟩ := boolK_some h
  show ((((x :: y :: r).map (fun q => ArgV.v (.bool q))).map Theta.cell).tail.foldl ThetaX.pyAnd (.bool x)) = _
  rw [map_cell_bools]
  simp only [List.map, List.tail]
  rw [← List.map, foldl_pyAnd]
  simp

theorem pandas_or (args v) (h : docScalar "or" args = some v) : ThetaX.scalar "or" args = v := by
  have hd : docScalar "or" args = boolK (fun bs => bs.any id) args := rfl
  rw [hd] at h
  obtain ⟨x, y, r, rfl, rfl⟩ := boolK_some h
  show ((((x :: y :: r).map (fun q => ArgV.v (.bool q))).map Theta.cell).tail.foldl ThetaX.pyOr (.bool x)) = _
  rw [map_cell_bools]
  simp only [List.map, List.tail]
  rw [← List.map, foldl_pyOr]
  simp

theorem sqlite_and (i : Bool) (args v) (h : docScalar "and" args = some v) : ThetaSqlX.scalar i "and" args = v := by
  have hd : docScalar "and" args = boolK (fun bs => bs.all id) args := rfl
  rw [hd] at h
  obtain ⟨x, y, r, rfl, rfl⟩ := boolK_some h
  show ThetaSql.and3 (((x :: y :: r).map (fun q => ArgV.v (.bool q))).map Theta.cell) = _
  rw [map_cell_bools, and3_bools]

theorem sqlite_or (i : Bool) (args v) (h : docScalar "or" args = some v) : ThetaSqlX.scalar i "or" args = v := by
  have hd : docScalar "or" args = boolK (fun bs => bs.any id) args := rfl
  rw [hd] at h
  obtain ⟨x, y, r, rfl, rfl⟩ := boolK_some h
  show ThetaSql.or3 (((x :: y :: r).map (fun q => ArgV.v (.bool q))).map Theta.cell) = _
  rw [map_cell_bools, or3_bools]

/-! ### rounding -/

theorem theta_around_closed (x k : Rat) : Theta.scalar "around" [.v (.num x), .v (.num k)] =
    (if (k.den == 1 && decide (k.num ≥ 0)) = true then
      Val.num ((((if x * Theta.ratPow 10 k.num.toNat - ((x * Theta.ratPow 10 k.num.toNat).floor : Int) < 1/2 then (x * Theta.ratPow 10 k.num.toNat).floor
        else if x * Theta.ratPow 10 k.num.toNat - ((x * Theta.ratPow 10 k.num.toNat).floor : Int) > 1/2 then (x * Theta.ratPow 10 k.num.toNat).floor + 1
        else (if (x * Theta.ratPow 10 k.num.toNat).floor % 2 == 0 then (x * Theta.ratPow 10 k.num.toNat).floor else (x * Theta.ratPow 10 k.num.toNat).floor + 1) : Int) : Rat)) / Theta.ratPow 10 k.num.toNat)
     else Theta.aroundNeg x k) := rfl

theorem theta_aroundNeg_closed (x k : Rat) : Theta.aroundNeg x k =
    (if (k.den == 1) = true then
      Val.num ((((if x * (1 / Theta.ratPow 10 (-k.num).toNat) - ((x * (1 / Theta.ratPow 10 (-k.num).toNat)).floor : Int) < 1/2 then (x * (1 / Theta.ratPow 10 (-k.num).toNat)).floor
        else if x * (1 / Theta.ratPow 10 (-k.num).toNat) - ((x * (1 / Theta.ratPow 10 (-k.num).toNat)).floor : Int) > 1/2 then (x * (1 / Theta.ratPow 10 (-k.num).toNat)).floor + 1
        else (if (x * (1 / Theta.ratPow 10 (-k.num).toNat)).floor % 2 == 0 then (x * (1 / Theta.ratPow 10 (-k.num).toNat)).floor else (x * (1 / Theta.ratPow 10 (-k.num).toNat)).floor + 1) : Int) : Rat)) / (1 / Theta.ratPow 10 (-k.num).toNat))
     else .null) := rfl

theorem docAround_eq (args) : docScalar "around" args = num2 (fun x k =>
      if k.den = 1 ∧ 0 ≤ k.num then
        (nearest? (x * ipow 10 k.num.toNat)).map (fun r => .num ((r : Rat) / ipow 10 k.num.toNat))
      else if k.den = 1 then
        (nearest? (x * (1 / ipow 10 (-k.num).toNat))).map (fun r => .num ((r : Rat) / (1 / ipow 10 (-k.num).toNat)))
      else none) args := rfl

theorem pandas_around (args v) (h : docScalar "around" args = some v) : ThetaX.scalar "around" args = v := by
  rw [docAround_eq] at h
  obtain ⟨x, k, rfl, hf⟩ := num2_some h
  show Theta.scalar "around" [.v (.num x), .v (.num k)] = v
  rw [theta_around_closed, ratPow_eq_ipow]
  by_cases hc : k.den = 1 ∧ 0 ≤ k.num
  · have hc' : (k.den == 1 && decide (k.num ≥ 0)) = true := by simp [hc.1, hc.2]
    rw [if_pos hc']
    rw [if_pos hc] at hf
    unfold nearest? at hf
    by_cases h1 : x * ipow 10 k.num.toNat - ((x * ipow 10 k.num.toNat).floor : Int) < 1/2
    · simp [h1] at hf ⊢; exact hf
    · by_cases h2 : 1/2 < x * ipow 10 k.num.toNat - ((x * ipow 10 k.num.toNat).floor : Int)
      · simp [h1, h2] at hf ⊢; exact hf
      · simp [h1, h2] at hf
  · have hc' : ¬ ((k.den == 1 && decide (k.num ≥ 0)) = true) := by
      intro hh; apply hc; simpa using hh
    rw [if_neg hc', theta_aroundNeg_closed, ratPow_eq_ipow]
    rw [if_neg hc] at hf
    by_cases hd : k.den = 1
    · have hd' : (k.den == 1) = true := by simp [hd]
      rw [if_pos hd']
      rw [if_pos hd] at hf
      unfold nearest? at hf
      by_cases h1 : x * (1 / ipow 10 (-k.num).toNat) - ((x * (1 / ipow 10 (-k.num).toNat)).floor : Int) < 1/2
      · simp [h1] at hf ⊢; exact hf
      · by_cases h2 : 1/2 < x * (1 / ipow 10 (-k.num).toNat) - ((x * (1 / ipow 10 (-k.num).toNat)).floor : Int)
        · simp [h1, h2] at hf ⊢; exact hf
        · simp [h1, h2] at hf
    · rw [if_neg hd] at hf; simp at hf

theorem theta_round_closed (x : Rat) : Theta.scalar "around" [.v (.num x), .v (.num 0)] =
      Val.num ((((if x * 1 - ((x * 1).floor : Int) < 1/2 then (x * 1).floor
        else if x * 1 - ((x * 1).floor : Int) > 1/2 then (x * 1).floor + 1
        else (if (x * 1).floor % 2 == 0 then (x * 1).floor else (x * 1).floor + 1) : Int) : Rat)) / 1) := rfl

theorem div_one' (r : Rat) : r / 1 = r := by grind

theorem pandas_round (args v) (h : docScalar "round" args = some v) : ThetaX.scalar "round" args = v := by
  have hd : docScalar "round" args = num1 (fun x => (nearest? x).map (fun r => .num (r : Rat))) args := rfl
  rw [hd] at h
  obtain ⟨x, rfl, hf⟩ := num1_some h
  show Theta.scalar "around" [.v (.num x), .v (.num 0)] = v
  rw [theta_round_closed, Rat.mul_one, div_one']
  unfold nearest? at hf
  by_cases h1 : x - (x.floor : Int) < 1/2
  · simp [h1] at hf ⊢; exact hf
  · by_cases h2 : 1/2 < x - (x.floor : Int)
    · simp [h1, h2] at hf ⊢; exact hf
    · simp [h1, h2] at hf

theorem sql_around_closed (x k : Rat) : ThetaSql.scalar "around" [.v (.num x), .v (.num k)] =
    (if (k.den == 1 && decide (k.num ≥ 0)) = true then
      Val.num ((if x < 0 then -1 else 1) *
        (((if (if x < 0 then -x else x) * Theta.ratPow 10 k.num.toNat - (((if x < 0 then -x else x) * Theta.ratPow 10 k.num.toNat).floor : Int) < 1/2
            then ((if x < 0 then -x else x) * Theta.ratPow 10 k.num.toNat).floor
            else ((if x < 0 then -x else x) * Theta.ratPow 10 k.num.toNat).floor + 1 : Int) : Rat)) / Theta.ratPow 10 k.num.toNat)
     else ThetaSql.aroundNegSql x k) := rfl

theorem sql_aroundNeg_closed (x k : Rat) : ThetaSql.aroundNegSql x k =
    (if (k.den == 1) = true then
      Val.num ((if x < 0 then -1 else 1) *
        (((if (if x < 0 then -x else x) * (1 / Theta.ratPow 10 (-k.num).toNat) - (((if x < 0 then -x else x) * (1 / Theta.ratPow 10 (-k.num).toNat)).floor : Int) < 1/2
            then ((if x < 0 then -x else x) * (1 / Theta.ratPow 10 (-k.num).toNat)).floor
            else ((if x < 0 then -x else x) * (1 / Theta.ratPow 10 (-k.num).toNat)).floor + 1 : Int) : Rat)) / (1 / Theta.ratPow 10 (-k.num).toNat))
     else .null) := rfl

theorem sql_round_closed (x : Rat) : ThetaSql.scalar "around" [.v (.num x), .v (.num 0)] =
      Val.num ((if x < 0 then -1 else 1) *
        (((if (if x < 0 then -x else x) * 1 - (((if x < 0 then -x else x) * 1).floor : Int) < 1/2
            then ((if x < 0 then -x else x) * 1).floor
            else ((if x < 0 then -x else x) * 1).floor + 1 : Int) : Rat)) / 1) := rfl

/-! ### null structure -/

theorem pandas_maximum (args v) : docScalar "maximum" args = some v → ThetaX.scalar "maximum" args = v := by
  have hd : docScalar "maximum" args = propagate2 maxR args := rfl
  rw [hd]; intro h
  unfold propagate2 at h
  split at h <;> simp at h <;> subst h <;> rfl

theorem pandas_minimum (args v) : docScalar "minimum" args = some v → ThetaX.scalar "minimum" args = v := by
  have hd : docScalar "minimum" args = propagate2 minR args := rfl
  rw [hd]; intro h
  unfold propagate2 at h
  split at h <;> simp at h <;> subst h <;> rfl

theorem pandas_fmax (args v) : docScalar "fmax" args = some v → ThetaX.scalar "fmax" args = v := by
  have hd : docScalar "fmax" args = ignore2 maxR args := rfl
  rw [hd]; intro h
  unfold ignore2 at h
  split at h <;> simp at h <;> subst h <;> rfl

theorem pandas_fmin (args v) : docScalar "fmin" args = some v → ThetaX.scalar "fmin" args = v := by
  have hd : docScalar "fmin" args = ignore2 minR args := rfl
  rw [hd]; intro h
  unfold ignore2 at h
  split at h <;> simp at h <;> subst h <;> rfl

theorem pandas_is_null (args v) : docScalar "is_null" args = some v → ThetaX.scalar "is_null" args = v := by
  have hd : docScalar "is_null" args = (match args with | [.v a] => some (.bool (a == .null)) | _ => none) := rfl
  rw [hd]; intro h
  split at h
  · rename_i a; simp at h; subst h; cases a <;> rfl
  · simp at h

theorem pandas_is_nan (args v) : docScalar "is_nan" args = some v → ThetaX.scalar "is_nan" args = v := by
  have hd : docScalar "is_nan" args = test1 true args := rfl
  rw [hd]; intro h
  unfold test1 at h
  split at h <;> simp at h <;> subst h <;> rfl

theorem pandas_is_inf (args v) : docScalar "is_inf" args = some v → ThetaX.scalar "is_inf" args = v := by
  have hd : docScalar "is_inf" args = test1 false args := rfl
  rw [hd]; intro h
  unfold test1 at h
  split at h <;> simp at h <;> subst h <;> rfl

theorem pandas_is_bad (args v) : docScalar "is_bad" args = some v → ThetaX.scalar "is_bad" args = v := by
  have hd : docScalar "is_bad" args = test1 true args := rfl
  rw [hd]; intro h
  unfold test1 at h
  split at h <;> simp at h <;> subst h <;> rfl

theorem pandas_if_else (args v) : docScalar "if_else" args = some v → ThetaX.scalar "if_else" args = v := by
  have hd : docScalar "if_else" args = (match args with
    | [.v (.bool true), .v a, .v _] => some a
    | [.v (.bool false), .v _, .v b] => some b
    | [.v .null, .v _, .v _] => some .null
    | _ => none) := rfl
  rw [hd]; intro h
  split at h <;> simp at h <;> subst h <;> rfl

theorem pandas_where (args v) : docScalar "where" args = some v → ThetaX.scalar "where" args = v := by
  have hd : docScalar "where" args = (match args with
    | [.v (.bool true), .v a, .v _] => some a
    | [.v (.bool false), .v _, .v b] => some b
    | [.v .null, .v _, .v b] => some b
    | _ => none) := rfl
  rw [hd]; intro h
  split at h <;> simp at h <;> subst h <;> rfl

theorem sqlite_where (i : Bool) (args v) : docScalar "where" args = some v → ThetaSqlX.scalar i "where" args = v := by
  have hd : docScalar "where" args = (match args with
    | [.v (.bool true), .v a, .v _] => some a
    | [.v (.bool false), .v _, .v b] => some b
    | [.v .null, .v _, .v b] => some b
    | _ => none) := rfl
  rw [hd]; intro h
  split at h <;> simp at h <;> subst h <;> rfl

theorem pandas_coalesce (args v) : docScalar "coalesce" args = some v → ThetaX.scalar "coalesce" args = v := by
  have hd : docScalar "coalesce" args = (match args with
    | [.v a, .v b] => some (if a == .null then b else a)
    | _ => none) := rfl
  rw [hd]; intro h
  split at h
  · rename_i a b; simp at h; subst h; cases a <;> rfl
  · simp at h

/-! ### sets and maps -/

theorem any_valEq_contains (a : Val) (xs : List Val) (h : xs.all (sameKind a) = true) :
    xs.any (fun x => Theta.valEq a x) = xs.contains a := by
  induction xs with
  | nil => rfl
  | cons x r ih =>
    simp only [List.all_cons, Bool.and_eq_true] at h
    simp only [List.any_cons, List.contains_cons, ih h.2, valEq_sameKind a x h.1]

theorem pandas_is_in (args v) : docScalar "is_in" args = some v → ThetaX.scalar "is_in" args = v := by
  have hd : docScalar "is_in" args = (match args with
    | [.v a, .l xs] => if xs.all (sameKind a) then some (.bool (xs.contains a)) else none
    | _ => none) := rfl
  rw [hd]; intro h
  split at h
  · rename_i a xs
    by_cases hk : xs.all (sameKind a) = true
    · rw [if_pos hk] at h
      have := Option.some.inj h; subst this
      show Val.bool (xs.any (fun x => Theta.valEq a x)) = _
      rw [any_valEq_contains a xs hk]
    · rw [if_neg hk] at h; simp at h
  · simp at h

/-- a non-missing cell of the kind of the (non-empty) set: SQL's `IN` answers the documented membership; for an empty set
the cell may be missing in the documentation's reading (`False`) while SQL says NULL – excluded by `hne` -/
theorem sqlite_is_in (i : Bool) (args v) :
    docScalar "is_in" args = some v → (∀ a, args ≠ [.v a, .l []]) → ThetaSqlX.scalar i "is_in" args = v := by
  have hd : docScalar "is_in" args = (match args with
    | [.v a, .l xs] => if xs.all (sameKind a) then some (.bool (xs.contains a)) else none
    | _ => none) := rfl
  rw [hd]; intro h hne
  split at h
  · rename_i a xs
    by_cases hk : xs.all (sameKind a) = true
    · rw [if_pos hk] at h
      have := Option.some.inj h; subst this
      show (if a.isNull then Val.null else Val.bool (xs.any (fun x => Theta.valEq a x))) = _
      have ha : a.isNull = false := by
        cases xs with
        | nil => exact absurd rfl (hne a)
        | cons x r =>
          simp only [List.all_cons, Bool.and_eq_true] at hk
          exact (notNull_of_sameKind hk.1).1
      rw [ha, any_valEq_contains a xs hk]; rfl
    · rw [if_neg hk] at h; simp at h
  · simp at h

theorem valEq_comm_sameKind (a k : Val) (hk : sameKind a k = true) : Theta.valEq k a = (k == a) :=
  valEq_sameKind k a (sameKind_symm hk)

theorem find_lookup (a : Val) (kvs : List (Val × Val)) (h : keysOk a kvs = true) :
    (kvs.find? (fun kv => Theta.valEq kv.1 a)).map (·.2) = kvs.lookup a := by
  induction kvs with
  | nil => rfl
  | cons kv r ih =>
    obtain ⟨k, w⟩ := kv
    simp only [keysOk, List.all_cons, Bool.and_eq_true] at h
    have ih' := ih (by simpa [keysOk] using h.2)
    have hk : Theta.valEq k a = (a == k) := by
      cases ha : a with
      | null =>
        have : k ≠ .null := by simpa using h.1.1
        cases k <;> first | (exact absurd rfl this) | rfl
      | bool b => rw [← ha]; have := h.1.2; rw [ha] at this; simp at this; rw [ha, valEq_comm_sameKind _ _ this]; exact Bool.beq_comm
      | num q => rw [← ha]; have := h.1.2; rw [ha] at this; simp at this; rw [ha, valEq_comm_sameKind _ _ this]; exact Bool.beq_comm
      | str s => rw [← ha]; have := h.1.2; rw [ha] at this; simp at this; rw [ha, valEq_comm_sameKind _ _ this]; exact Bool.beq_comm
    simp only [List.find?_cons, List.lookup_cons, hk]
    cases hak : (a == k) with
    | true => rfl
    | false => exact ih'

theorem pandas_mapv (args v) : docScalar "mapv" args = some v → ThetaX.scalar "mapv" args = v := by
  have hd : docScalar "mapv" args = (match args with
    | [.v a, .d kvs] => if keysOk a kvs then some ((kvs.lookup a).getD .null) else none
    | [.v a, .d kvs, .v dflt] => if keysOk a kvs then some ((kvs.lookup a).getD dflt) else none
    | _ => none) := rfl
  rw [hd]; intro h
  split at h
  · rename_i a kvs
    by_cases hk : keysOk a kvs = true
    · rw [if_pos hk] at h; simp at h; subst h
      show ((kvs.find? (fun kv => Theta.valEq kv.1 a)).map (·.2)).getD .null = _
      rw [find_lookup a kvs hk]
    · rw [if_neg hk] at h; simp at h
  · rename_i a kvs dflt
    by_cases hk : keysOk a kvs = true
    · rw [if_pos hk] at h; simp at h; subst h
      show ((kvs.find? (fun kv => Theta.valEq kv.1 a)).map (·.2)).getD dflt = _
      rw [find_lookup a kvs hk]
    · rw [if_neg hk] at h; simp at h
  · simp at h

/-! ### strings and casts -/

theorem pandas_concat (args v) : docScalar "concat" args = some v → ThetaX.scalar "concat" args = v := by
  have hd : docScalar "concat" args = (match args with
    | [.v (.str a), .v (.str b)] => some (.str (a ++ b))
    | _ => none) := rfl
  rw [hd]; intro h
  split at h <;> simp at h <;> subst h <;> rfl

theorem sqlite_concat (i : Bool) (args v) : docScalar "concat" args = some v → ThetaSqlX.scalar i "concat" args = v := by
  have hd : docScalar "concat" args = (match args with
    | [.v (.str a), .v (.str b)] => some (.str (a ++ b))
    | _ => none) := rfl
  rw [hd]; intro h
  split at h <;> simp at h <;> subst h <;> rfl

theorem pandas_trimstr (args v) : docScalar "trimstr" args = some v → ThetaX.scalar "trimstr" args = v := by
  have hd : docScalar "trimstr" args = (match args with
    | [.v (.str s), .v (.num i), .v (.num j)] =>
      if i.den = 1 ∧ j.den = 1 ∧ 0 ≤ i.num ∧ i.num ≤ j.num then
        some (.str (String.ofList ((s.toList.drop i.num.toNat).take (j.num.toNat - i.num.toNat))))
      else none
    | _ => none) := rfl
  rw [hd]; intro h
  split at h
  · rename_i s i j
    by_cases hc : i.den = 1 ∧ j.den = 1 ∧ 0 ≤ i.num ∧ i.num ≤ j.num
    · rw [if_pos hc] at h; simp at h; subst h
      show (if (i.den == 1 && j.den == 1 && decide (i.num ≥ 0) && decide (j.num ≥ 0)) = true then
        Val.str (String.ofList ((s.toList.drop i.num.toNat).take (j.num.toNat - i.num.toNat))) else .null) = _
      have hj : 0 ≤ j.num := Int.le_trans hc.2.2.1 hc.2.2.2
      simp [hc.1, hc.2.1, hc.2.2.1, hj]
    · rw [if_neg hc] at h; simp at h
  · simp at h

theorem pandas_as_str (args v) : docScalar "as_str" args = some v → ThetaX.scalar "as_str" args = v := by
  have hd : docScalar "as_str" args = (match args with | [.v (.str s)] => some (.str s) | _ => none) := rfl
  rw [hd]; intro h
  split at h <;> simp at h <;> subst h <;> rfl

theorem sqlite_as_str (i : Bool) (args v) : docScalar "as_str" args = some v → ThetaSqlX.scalar i "as_str" args = v := by
  have hd : docScalar "as_str" args = (match args with | [.v (.str s)] => some (.str s) | _ => none) := rfl
  rw [hd]; intro h
  split at h <;> simp at h <;> subst h <;> rfl

end DAVerif.C05
