import DAVerif.Proofs.RenameNear
import DAVerif.Proofs.RenameSqlSem
import DAVerif.Proofs.WithText
/-!
Renaming, WITH form (without CTE elimination): `toWithForm none` and the model's `semWith` commute with an injective
renaming of columns and base tables; the names of the common table expressions stay.  Hence the model's meaning of the
WITH form of a pipeline is equivariant (`withMeaning_ren`).
-/
namespace DAVerif
namespace Ren

open Function (Injective)
open DAVerif.Sql

variable {ρc : ColRen} {ρt : TabRen}

/-- a WITH entry, renamed: the entry's name stays -/
def WithStep.rename (ρc : ColRen) (ρt : TabRen) (st : WithStep) : WithStep :=
  ⟨st.name, st.near.rename ρc ρt, st.cols.map (·.map ρc), st.force⟩

theorem name_rename (n : Near) (h : n.isTable = false) : (n.rename ρc ρt).name = n.name := by
  cases n <;> first | rfl | (simp [Near.isTable] at h)
theorem isTable_rename (n : Near) : (n.rename ρc ρt).isTable = n.isTable := by cases n <;> rfl

theorem rename_eraseKeys (n : Near) : (n.rename ρc ρt).eraseKeys = (n.eraseKeys).rename ρc ρt := by
  induction n with
  | table _ _ => rfl
  | cte _ => rfl
  | unary name terms agg sub subCols suffix mg deps key ih => simp only [Near.rename, Near.eraseKeys, ih]
  | join name terms l lc ln r rc rn jt oa ob key ihl ihr => simp only [Near.rename, Near.eraseKeys, ihl, ihr]
  | union name terms l r cols key ihl ihr => simp only [Near.rename, Near.eraseKeys, ihl, ihr]

theorem appendUnseen_rename (s1 s2 : List WithStep) :
    appendUnseen (s1.map (WithStep.rename ρc ρt)) (s2.map (WithStep.rename ρc ρt))
      = (appendUnseen s1 s2).map (WithStep.rename ρc ρt) := by
  unfold appendUnseen
  induction s2 generalizing s1 with
  | nil => rfl
  | cons st s2 ih =>
    simp only [List.map_cons, List.foldl_cons]
    have hany : (s1.map (WithStep.rename ρc ρt)).any (fun x => x.name == (WithStep.rename ρc ρt st).name)
        = s1.any (fun x => x.name == st.name) := by
      rw [List.any_map]
      rfl
    rw [hany]
    split
    · exact ih s1
    · have : s1.map (WithStep.rename ρc ρt) ++ [WithStep.rename ρc ρt st] = (s1 ++ [st]).map (WithStep.rename ρc ρt) := by
        simp
      rw [this]
      exact ih _

/-- the result triple of `toWithForm none` / `withStub none`, renamed -/
def renTriple (ρc : ColRen) (ρt : TabRen) (r : Near × List WithStep × Option Cache) : Near × List WithStep × Option Cache :=
  (r.1.rename ρc ρt, r.2.1.map (WithStep.rename ρc ρt), r.2.2)

/-- the statement carried through the induction: renamed result, no cache, a non-table stays a non-table -/
def WFok (ρc : ColRen) (ρt : TabRen) (x' x : Near × List WithStep × Option Cache) : Prop :=
  x' = renTriple ρc ρt x ∧ x.2.2 = none

theorem toWithForm_notTable (cache : Option Cache) (n : Near) (h : n.isTable = false) :
    (toWithForm cache n).1.isTable = false := by
  cases n with
  | table _ _ => simp [Near.isTable] at h
  | cte _ => simp [Near.isTable] at h
  | unary name terms agg sub subCols suffix mg deps key =>
    rw [toWithForm.eq_3]
    split
    · rfl
    · rcases withStub cache sub subCols false with ⟨a, b, c⟩
      rfl
  | join name terms l lc ln r rc rn jt oa ob key =>
    rw [toWithForm.eq_4]
    split
    · rfl
    · rcases withStub cache l (some lc) false with ⟨a, b, c⟩
      rcases withStub c r (some rc) false with ⟨a2, b2, c2⟩
      rfl
  | union name terms l r cols key =>
    rw [toWithForm.eq_5]
    split
    · rfl
    · rcases withStub cache l (some cols) true with ⟨a, b, c⟩
      rcases withStub c r (some cols) true with ⟨a2, b2, c2⟩
      rfl

theorem withStub_of_toWithForm (n : Near)
    (h : WFok ρc ρt (toWithForm none (n.rename ρc ρt)) (toWithForm none n))
    (cols : Option (List String)) (force : Bool) :
    WFok ρc ρt (withStub none (n.rename ρc ρt) (cols.map (·.map ρc)) force) (withStub none n cols force) := by
  rw [withStub.eq_1, withStub.eq_1, isTable_rename]
  cases ht : n.isTable with
  | true => simp only [if_true]; exact ⟨rfl, rfl⟩
  | false =>
    simp only [Bool.false_eq_true, if_false]
    obtain ⟨h1, h2⟩ := h
    have hnt := toWithForm_notTable none n ht
    rw [h1]
    rcases hw : toWithForm none n with ⟨stub, seq, cache1⟩
    rw [hw] at h2 hnt
    simp only at h2 hnt
    subst h2
    simp only [renTriple, Option.bind_none, Option.map_none, name_rename stub hnt]
    have hany : (seq.map (WithStep.rename ρc ρt)).any (fun st => st.name == stub.name)
        = seq.any (fun st => st.name == stub.name) := by
      rw [List.any_map]
      rfl
    rw [hany]
    refine ⟨?_, ?_⟩
    · split
      · rfl
      · simp [WithStep.rename, renTriple, Near.rename]
    · split <;> rfl

theorem toWithForm_ren (n : Near) : WFok ρc ρt (toWithForm none (n.rename ρc ρt)) (toWithForm none n) := by
  induction n with
  | table name terms =>
    simp only [Near.rename, toWithForm.eq_1]
    exact ⟨rfl, rfl⟩
  | cte name =>
    simp only [Near.rename, toWithForm.eq_2]
    exact ⟨rfl, rfl⟩
  | unary name terms agg sub subCols suffix mg deps key ih =>
    simp only [Near.rename]
    rw [toWithForm.eq_3, toWithForm.eq_3, isTable_rename]
    split
    · exact ⟨rfl, rfl⟩
    · obtain ⟨h1, h2⟩ := withStub_of_toWithForm sub ih subCols false
      rw [h1]
      rcases hw : withStub none sub subCols false with ⟨stub, seq, cache'⟩
      rw [hw] at h2
      simp only at h2
      subst h2
      exact ⟨rfl, rfl⟩
  | join name terms l lc ln r rc rn jt oa ob key ihl ihr =>
    simp only [Near.rename]
    rw [toWithForm.eq_4, toWithForm.eq_4, isTable_rename, isTable_rename]
    split
    · exact ⟨rfl, rfl⟩
    · obtain ⟨h1, h2⟩ := withStub_of_toWithForm l ihl (some lc) false
      simp only [Option.map_some] at h1
      rw [h1]
      rcases hw : withStub none l (some lc) false with ⟨s1, q1, c1⟩
      rw [hw] at h2
      simp only at h2
      subst h2
      simp only [renTriple]
      obtain ⟨h3, h4⟩ := withStub_of_toWithForm r ihr (some rc) false
      simp only [Option.map_some] at h3
      rw [h3]
      rcases hw2 : withStub none r (some rc) false with ⟨s2, q2, c2⟩
      rw [hw2] at h4
      simp only at h4
      subst h4
      simp only [renTriple, appendUnseen_rename]
      exact ⟨rfl, rfl⟩
  | union name terms l r cols key ihl ihr =>
    simp only [Near.rename]
    rw [toWithForm.eq_5, toWithForm.eq_5, isTable_rename, isTable_rename]
    split
    · exact ⟨rfl, rfl⟩
    · obtain ⟨h1, h2⟩ := withStub_of_toWithForm l ihl (some cols) true
      simp only [Option.map_some] at h1
      rw [h1]
      rcases hw : withStub none l (some cols) true with ⟨s1, q1, c1⟩
      rw [hw] at h2
      simp only at h2
      subst h2
      simp only [renTriple]
      obtain ⟨h3, h4⟩ := withStub_of_toWithForm r ihr (some cols) true
      simp only [Option.map_some] at h3
      rw [h3]
      rcases hw2 : withStub none r (some cols) true with ⟨s2, q2, c2⟩
      rw [hw2] at h4
      simp only at h4
      subst h4
      simp only [renTriple, appendUnseen_rename]
      exact ⟨rfl, rfl⟩

/-! ### the model's meaning of a WITH sequence -/
theorem semWith_fold_ren (Θ : Interp) (ec : EngineCfg) (hc : Injective ρc) (ht : Injective ρt) (env : Env)
    (steps : List WithStep) :
    ∀ ctes : List (String × Table),
      (steps.map (WithStep.rename ρc ρt)).foldlM (fun (ctes : List (String × Table)) st => do
          let t ← semNear Θ ec (Env.rename ρc ρt env) ctes st.near st.cols st.force
          return ctes ++ [(st.name, t)]) (ctes.map (fun kv => (kv.1, kv.2.rename ρc)))
        = ((steps.foldlM (fun (ctes : List (String × Table)) st => do
          let t ← semNear Θ ec env ctes st.near st.cols st.force
          return ctes ++ [(st.name, t)]) ctes : Except Err _)).map
            (fun cs => cs.map (fun kv => (kv.1, kv.2.rename ρc))) := by
  induction steps with
  | nil => intro ctes; rfl
  | cons st steps ih =>
    intro ctes
    simp only [List.map_cons, List.foldlM_cons, WithStep.rename, semNear_ren Θ ec hc ht env ctes st.near st.cols st.force]
    cases hsem : semNear Θ ec env ctes st.near st.cols st.force with
    | error e => rfl
    | ok t =>
      have := ih (ctes ++ [(st.name, t)])
      simpa [bind, Except.bind, pure, Except.pure, Except.map] using this

theorem semWith_ren (Θ : Interp) (ec : EngineCfg) (hc : Injective ρc) (ht : Injective ρt) (env : Env)
    (steps : List WithStep) (last : Near) :
    semWith Θ ec (Env.rename ρc ρt env) (steps.map (WithStep.rename ρc ρt)) (last.rename ρc ρt)
      = (semWith Θ ec env steps last).map (Table.rename ρc) := by
  unfold semWith
  have h := semWith_fold_ren Θ ec hc ht env steps []
  simp only [List.map_nil] at h
  rw [h]
  cases hres : (steps.foldlM (fun (ctes : List (String × Table)) st => do
          let t ← semNear Θ ec env ctes st.near st.cols st.force
          return ctes ++ [(st.name, t)]) [] : Except Err _) with
  | error e => rfl
  | ok ctes =>
    have := semNear_ren Θ ec hc ht env ctes last none true
    simpa [bind, Except.bind, Except.map] using this

/-- the WITH form of the renamed pipeline is the renamed WITH form -/
theorem withFormOf_ren (cfg : SqlCfg) (hc : Injective ρc) (ht : Injective ρt) (p : Ops) :
    withFormOf cfg (p.ren ρc ρt)
      = (withFormOf cfg p).map (fun ls => (ls.1.rename ρc ρt, ls.2.map (WithStep.rename ρc ρt))) := by
  have h := toNearSql_ren cfg hc ht p
  unfold withFormOf
  cases h' : toNearSql cfg (p.ren ρc ρt) with
  | error e' =>
    cases h0 : toNearSql cfg p with
    | error e => rw [h', h0] at h; cases h; rfl
    | ok n => rw [h', h0] at h; cases h
  | ok n' =>
    cases h0 : toNearSql cfg p with
    | error e => rw [h', h0] at h; cases h
    | ok n =>
      rw [h', h0] at h
      simp only [Except.map, Except.ok.injEq] at h ⊢
      rw [h, rename_eraseKeys, (toWithForm_ren (ρc := ρc) (ρt := ρt) n.eraseKeys).1]
      rfl

/-- **the model's meaning of the WITH form is equivariant** -/
theorem withMeaning_ren (Θ : Interp) (ec : EngineCfg) (cfg : SqlCfg) (hc : Injective ρc) (ht : Injective ρt)
    (env : Env) (p : Ops) :
    withMeaning Θ ec cfg (Env.rename ρc ρt env) (p.ren ρc ρt)
      = (withMeaning Θ ec cfg env p).map (Table.rename ρc) := by
  unfold withMeaning
  rw [withFormOf_ren cfg hc ht p]
  cases withFormOf cfg p with
  | error e => rfl
  | ok ls => exact semWith_ren Θ ec hc ht env ls.2 ls.1

end Ren
end DAVerif
