import DAVerif.Proofs.C06Chain
/-!
C06, the exact case: when no `order_rows` without limit is skipped (none at the top of the receiver, nor – for
`select_columns` – below the column selections / deletions at its top), chained and step-by-step evaluation
give *equal* results (same rows in the same order), up to the declared column order only.
-/
namespace DAVerif

variable {Θ : Interp} {cfg : SemCfg} {env : Env}

/-- no `order_rows` without limit at the top of the pipeline, looking through column selections / deletions -/
def Ops.noTrivialOrderTop : Ops → Bool
  | .order _ _ _ none => false
  | .selectCols s _ => noTrivialOrderTop s
  | .dropCols s _ => noTrivialOrderTop s
  | _ => true

theorem Ops.strip_of_noTrivialOrderTop {p : Ops} (h : p.noTrivialOrderTop = true) : p.strip = p := by
  apply Ops.strip_of_not_trivial
  cases p with
  | order s cs rv lim => cases lim with
    | none => cases h
    | some n => rfl
  | _ => rfl

/-- `select_collapse_sound`, exact form: without a skipped `order_rows` the collapsed selection evaluates to the
same table (same rows in the same order) -/
theorem select_collapse_exact (Θ : Interp) (cfg : SemCfg) (env : Env) (self : Ops) (cs : List String)
    (hg : self.selectGuards.all (fun g => subset cs g) = true) (hno : self.noTrivialOrderTop = true) :
    (sem Θ cfg env self.selectBase >>= fun t => .ok (t.selectCols cs)) =
      (sem Θ cfg env self >>= fun t => (.ok (t.selectCols cs) : Except Err Table)) := by
  induction self with
  | order s cs' rv lim ih =>
    cases lim with
    | some n => rfl
    | none => cases hno
  | selectCols s cs0 ih =>
    simp only [Ops.selectGuards, List.all_cons, Bool.and_eq_true] at hg
    simp only [Ops.selectBase, sem]
    rw [ih hg.2 hno, bind_assoc]
    apply except_bind_congr
    intro t _
    show (Except.ok (t.selectCols cs) : Except Err Table) = .ok ((t.selectCols cs0).selectCols cs)
    rw [Table.selectCols_selectCols _ (subset_iffC.mp hg.1)]
  | dropCols s ds ih =>
    simp only [Ops.selectGuards, List.all_cons, Bool.and_eq_true] at hg
    simp only [Ops.selectBase, sem]
    rw [ih hg.2 hno, bind_assoc]
    apply except_bind_congr
    intro t _
    show (Except.ok (t.selectCols cs) : Except Err Table) = .ok ((t.selectCols _).selectCols cs)
    rw [Table.selectCols_selectCols _ (subset_iffC.mp hg.1)]
  | _ => rfl

/-- **C06, exact form in operator terms.** -/
theorem shape_sem_exact (hΘ : ConvertOK Θ) {p p' leaf : Ops} {s : Step} {N : Ops} (hv : p.valid = true)
    (hshape : BuildShape p p' leaf s N) (hp'v : p'.valid = true) (hno : p.noTrivialOrderTop = true)
    (hcols : ∀ t, sem Θ cfg env p = .ok t → ∀ t2, applyStep Θ cfg env N t = .ok t2 → t2.cols = p'.cols) :
    sem Θ cfg env p' = sem Θ cfg env p >>= applyStep Θ cfg env N := by
  have hstrip := Ops.strip_of_noTrivialOrderTop hno
  cases hshape with
  | ident hNl hp =>
    subst hp
    obtain ⟨n, cs, rfl⟩ := hNl
    cases sem Θ cfg env p' <;> rfl
  | plain hp hT =>
    rw [hstrip] at hp
    cases hsb : N.srcB with
    | none =>
      rw [sem_eq_applyNode_unary Θ hΘ cfg env p' (by rw [hp, reSrc_srcB]; exact hsb)
        (by rw [hp]; exact reSrc_ne_table _ hT), hp, reSrc_srcA _ hT]
      apply except_bind_congr
      intro t _
      simp only [applyStep, hsb, applyNode_reSrc]
    | some b =>
      rw [sem_eq_applyNode_binary Θ hΘ cfg env p' b (by rw [hp, reSrc_srcB]; exact hsb), hp, reSrc_srcA _ hT]
      apply except_bind_congr
      intro t _
      simp only [applyStep, hsb]
      apply except_bind_congr
      intro tb _
      rw [applyNode_reSrc]
  | extend ops pa od rv hse hne htop hNe =>
    subst hse
    rw [hstrip] at htop
    obtain ⟨hsem, _⟩ := extendTop_sem (Θ := Θ) (cfg := cfg) (env := env) hΘ hv
      (by rw [← hstrip]; exact Ops.strip_not_trivial p) htop
    rw [hsem]
    apply except_bind_congr
    intro t ht
    have hwn := sem_wf_nodup hΘ hv ht
    have happ : applyStep Θ cfg env N t
        = applyNode Θ cfg (.extend p ops pa.cols' od rv (stepWindowed ops pa od)) t t := by
      simp only [applyStep, hNe, Ops.srcB]; rfl
    have hcols' := hcols t ht
    rw [happ] at hcols' ⊢
    cases hres : applyNode Θ cfg (.extend p ops pa.cols' od rv (stepWindowed ops pa od)) t t with
    | error e => rfl
    | ok t2 =>
      simp only [ok_bind]
      have hc := hcols' t2 hres
      have hw : t2.WF ∧ t2.cols.Nodup := by
        simp only [applyNode] at hres
        split at hres <;> cases hres
        · exact ⟨semExtendWindow_wf _ _ _ _ _ _ _, nodup_appendNewC hwn.2⟩
        · exact ⟨semExtendPlain_wf _ _ _ _, nodup_appendNewC hwn.2⟩
      rw [← hc, Table.selectCols_self hw.1 hw.2]
  | select cs hse hsel hNe =>
    subst hse
    have hrhs : (sem Θ cfg env p >>= applyStep Θ cfg env N)
        = (sem Θ cfg env p >>= fun t => (.ok (t.selectCols cs) : Except Err Table)) := by
      apply except_bind_congr; intro t _; simp only [applyStep, hNe, Ops.srcB]; rfl
    rw [hrhs]
    rw [selectColsB_eq] at hsel
    obtain ⟨u, hg, h2⟩ := except_bind_eq_ok.mp hsel
    rw [ok?_eq_ok] at hg
    rw [mkSelectCols_eq] at h2
    obtain ⟨u', _, h3⟩ := except_bind_eq_ok.mp h2
    rw [selectNode_selectBase] at h3
    cases h3
    simp only [sem]
    exact select_collapse_exact Θ cfg env p cs hg hno

/-- **C06, one step, exact form** (valid pipelines): when no `order_rows` without limit is skipped and the chained
pipeline declares its columns in the raw node's order, the two evaluations are *equal*; no scope hypothesis. -/
theorem build_sem_exact (hΘ : ConvertOK Θ) {p p' : Ops} {s : Step} (n : String) (hv : p.valid = true)
    (hb : ∀ b ∈ Step.argOps s, b.valid = true) (h : build p s = .ok p') (hf : Step.Fresh n s)
    (hno : p.noTrivialOrderTop = true)
    (hcols : ∀ N, buildRaw (.table n p.cols) s = .ok N → N.cols = p'.cols) :
    sem Θ cfg env p' = sem Θ cfg env p >>= semStep Θ cfg env n s := by
  have hcons : ∀ b ∈ Step.argOps s, tablesConsistent p.tables b.tables = true ∧
      tablesConsistent [(n, p.cols)] b.tables = true := by
    intro b hbm
    refine ⟨?_, tablesConsistent_fresh (hf b hbm)⟩
    cases s with
    | join b' oa ob jt chk =>
      simp only [Step.argOps, List.mem_singleton] at hbm
      subst hbm
      simp only [build] at h
      rw [joinB_strip, mkJoin_eq] at h
      obtain ⟨t, hchk, _⟩ := except_bind_eq_ok.mp h
      simp only [joinChk, ok?_bind_eq_ok] at hchk
      rw [← Ops.strip_tables]; exact hchk.1
    | concat b' idc an bn =>
      cases b' with
      | none => simp [Step.argOps] at hbm
      | some b' =>
        simp only [Step.argOps, List.mem_singleton] at hbm
        subst hbm
        simp only [build] at h
        rw [concatB_strip, mkConcat_eq] at h
        obtain ⟨t, hchk, _⟩ := except_bind_eq_ok.mp h
        simp only [concatChk, ok?_bind_eq_ok] at hchk
        rw [← Ops.strip_tables]; exact hchk.1
    | _ => simp [Step.argOps] at hbm
  have hacc := build_errOf hv n s hcons
  rw [h] at hacc
  obtain ⟨N, hr⟩ := errOf_eq_none.mp hacc.symm
  have hstep : ∀ t, sem Θ cfg env p = .ok t → semStep Θ cfg env n s t = applyStep Θ cfg env N t := by
    intro t ht
    have hwn := sem_wf_nodup hΘ hv ht
    exact semStep_eq hΘ hwn.1 hwn.2 (by rw [sem_cols hΘ ht]; exact hr) hf
  rw [except_bind_congr hstep]
  refine shape_sem_exact hΘ hv (build_shape h hr) (valid_build hv hb h) hno ?_
  intro t ht t2 ht2
  -- the columns of the raw step's result are the raw node's declared columns
  have hwn := sem_wf_nodup hΘ hv ht
  have hr' : buildRaw (.table n t.cols) s = .ok N := by rw [sem_cols hΘ ht]; exact hr
  rw [← semStep_eq hΘ hwn.1 hwn.2 hr' hf] at ht2
  simp only [semStep, hr'] at ht2
  have : sem Θ cfg ((n, t) :: env) N = .ok t2 := ht2
  rw [sem_cols hΘ this]
  exact hcols N hr

end DAVerif
