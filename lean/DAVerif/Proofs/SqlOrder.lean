import DAVerif.Proofs.SqlSemG
import DAVerif.Proofs.Perm
import DAVerif.Proofs.SqlWindow
/-!
C01/C02, stage B: the operators under the engine's row ordering (`semE ec`) against the reference semantics `sem`
(pandas' ordering: nulls last).

* On rows whose order columns are null free the two comparisons coincide (`sqlRowLe_eq_rowLe`), hence so do the
  sorts, `order_rows` and the ordered windows: under `OrdersNullFree` the two semantics are **equal**
  (`semE_eq_sem_of_nullFree`).
* Under the scope of C18 (`AggsOrderFree`, `WindowsTotal`) and `SqlScope` (null-free order columns at ordered
  windows – unless all window functions are order free, `Proofs/SqlWindow.lean` – and at `order_rows` with a limit) they agree **up to row order** (`sem_equiv_semE`); a final `order_rows`
  whose order is total and null free then yields the same row list (`semE_final_order_eq`).
-/
namespace DAVerif
namespace Sql

theorem sqlCellLe_eq_cellLe (ec : EngineCfg) (rev : Bool) {a b : Val} (ha : a.isNull = false) (hb : b.isNull = false) :
    sqlCellLe ec rev a b = cellLe rev a b := by
  cases rev <;> simp [sqlCellLe, cellLe, ha, hb]

/-- on rows without nulls in the order columns the engine's and pandas' comparisons agree -/
theorem sqlRowLe_eq_rowLe (ec : EngineCfg) {cs rev : List String} {a b : Row}
    (ha : ∀ c ∈ cs, (a.get c).isNull = false) (hb : ∀ c ∈ cs, (b.get c).isNull = false) :
    sqlRowLe ec cs rev a b = rowLe cs rev a b := by
  induction cs with
  | nil => rfl
  | cons k cs ih =>
    simp only [sqlRowLe, rowLe, cellEq]
    rw [ih (fun c hc => ha c (List.mem_cons_of_mem _ hc)) (fun c hc => hb c (List.mem_cons_of_mem _ hc)),
      sqlCellLe_eq_cellLe ec _ (ha k List.mem_cons_self) (hb k List.mem_cons_self)]
    rfl

theorem mergeSort_congr {α : Type} {le le' : α → α → Bool} {l : List α}
    (h : ∀ a ∈ l, ∀ b ∈ l, le a b = le' a b) : l.mergeSort le = l.mergeSort le' := by
  have := List.map_mergeSort (r := le) (s := le') (f := id) (l := l) (fun a ha b hb => h a ha b hb)
  simpa using this

theorem semOrderG_eq_of_nullFree (ec : EngineCfg) (cs rev : List String) (lim : Option Nat) (t : Table)
    (h : NullFreeOn cs t.rows) : semOrderG (sqlRowLe ec) cs rev lim t = semOrder cs rev lim t := by
  simp only [semOrderG, semOrder, sortRows]
  rw [mergeSort_congr (le' := fun a b => rowLe cs rev a b)
    (fun a ha b hb => sqlRowLe_eq_rowLe ec (h a ha) (h b hb))]
  rfl

theorem semExtendWindowG_eq_of_nullFree (ec : EngineCfg) (Θ : Interp) (ops : Assign) (p o rv : List String)
    (t : Table) (oc : List String) (h : NullFreeOn o t.rows) :
    semExtendWindowG (sqlRowLe ec) Θ ops p o rv t oc = semExtendWindow Θ ops p o rv t oc := by
  simp only [semExtendWindowG, semExtendWindow, winCell, sortIdx]
  congr 1
  apply List.map_congr_left
  intro ri _
  have hs : (t.rows.zipIdx.filter (fun rj => keyOf rj.1 p == keyOf ri.1 p)).mergeSort
      (fun a b => sqlRowLe ec o rv a.1 b.1) =
      (t.rows.zipIdx.filter (fun rj => keyOf rj.1 p == keyOf ri.1 p)).mergeSort
      (fun a b => rowLe o rv a.1 b.1) := by
    apply mergeSort_congr
    intro a ha b hb
    exact sqlRowLe_eq_rowLe ec (h a.1 (List.fst_mem_of_mem_zipIdx (List.mem_filter.mp ha).1))
      (h b.1 (List.fst_mem_of_mem_zipIdx (List.mem_filter.mp hb).1))
  rw [hs]

/-- **Stage B, strong scope.**  If at every `order_rows` and every ordered window of the pipeline the order
columns of the rows reaching it are null free, the operators under the engine's ordering compute exactly what the
reference semantics computes (any `Θ`, any semantic configuration, any engine). -/
theorem semE_eq_sem_of_nullFree (ec : EngineCfg) (Θ : Interp) (cfg : SemCfg) (env : Env) (p : Ops)
    (h : OrdersNullFree Θ cfg env p) : semE ec Θ cfg env p = sem Θ cfg env p := by
  induction p with
  | table name cs => rfl
  | extend src ops part od rv w ih =>
    obtain ⟨h1, h2⟩ := h
    simp only [semG, sem, ih h1]
    cases hs : sem Θ cfg env src with
    | error e => simp only [bind, Except.bind]
    | ok t =>
      simp only [bind, Except.bind]
      rw [semExtendWindowG_eq_of_nullFree ec Θ ops part od rv t _ (h2 t hs)]
  | project src ops g ih => simp only [semG, sem, ih h]
  | selectRows src e ih => simp only [semG, sem, ih h]
  | selectCols src cs ih => simp only [semG, sem, ih h]
  | dropCols src dels ih => simp only [semG, sem, ih h]
  | order src cs rv lim ih =>
    obtain ⟨h1, h2⟩ := h
    simp only [semG, sem, ih h1]
    cases hs : sem Θ cfg env src with
    | error e => simp only [bind, Except.bind]
    | ok t =>
      simp only [bind, Except.bind]
      rw [semOrderG_eq_of_nullFree ec cs rv lim t (h2 t hs)]
  | rename src m ih => simp only [semG, sem, ih h]
  | mapCols src m dels ih => simp only [semG, sem, ih h]
  | join a b oa ob jt iha ihb => simp only [semG, sem, iha h.1, ihb h.2]
  | concat a b idc an bn iha ihb => simp only [semG, sem, iha h.1, ihb h.2]
  | convert src rm ih => simp only [semG, sem, ih h]

theorem NullFreeOn.perm {cs : List String} {rows rows' : List Row} (h : NullFreeOn cs rows) (hp : rows.Perm rows') :
    NullFreeOn cs rows' := fun r hr => h r (hp.mem_iff.mpr hr)

/-- **Stage B, multiset scope.**  Within the scope of C18 (order-free aggregates, total window orders, clean limit
cuts) and with null-free order columns at ordered windows and at `order_rows` with a limit, the operators under
the engine's ordering and the reference semantics agree up to row order (the same error, or the same columns and
the same multiset of rows). -/
theorem sem_equiv_semE (ec : EngineCfg) (Θ : Interp) (cfg : SemCfg) (env : Env) (p : Ops)
    (hA : AggsOrderFree Θ p) (hC : InFrag p = true ∨ ConvertPermInvariant Θ) (hW : WindowsTotal Θ cfg env p)
    (hS : SqlScope Θ cfg env p) : ResEquiv (sem Θ cfg env p) (semE ec Θ cfg env p) := by
  induction p with
  | table name cs => exact ResEquiv.refl _
  | extend src ops part od rv w ih =>
    obtain ⟨hW1, hW2⟩ := hW
    obtain ⟨hS1, hS2⟩ := hS
    cases w with
    | true =>
      simp only [sem, semG, if_true]
      refine ResEquiv.bind (ih hA hC hW1 hS1) (fun t t' hx ht => ?_)
      simp only [pure, Except.pure]
      rcases hS2 rfl t hx with hnull | hfree
      · rw [semExtendWindowG_eq_of_nullFree ec Θ ops part od rv t' _ (hnull.perm ht.2)]
        exact semExtendWindow_equiv Θ ops part od rv ht _ (hW2 rfl t hx)
      · exact semExtendWindowG_equiv_free rowLe (sqlRowLe ec) Θ ops part od rv ht _ hfree
    | false =>
      simp only [sem, semG, Bool.false_eq_true, if_false]
      exact ResEquiv.bind (ih hA hC hW1 hS1) (fun t t' _ ht => semExtendPlain_equiv Θ ops ht _)
  | project src ops g ih =>
    simp only [sem, semG]
    exact ResEquiv.bind (ih hA.1 hC hW hS) (fun t t' _ ht => semProject_equiv Θ ops g ht _ hA.2)
  | selectRows src e ih =>
    simp only [sem, semG]
    exact ResEquiv.bind (ih hA hC hW hS) (fun t t' _ ht => semSelectRows_equiv Θ e ht)
  | selectCols src cs ih =>
    simp only [sem, semG]
    exact ResEquiv.bind (ih hA hC hW hS) (fun t t' _ ht => ht.selectCols cs)
  | dropCols src dels ih =>
    simp only [sem, semG]
    exact ResEquiv.bind (ih hA hC hW hS) (fun t t' _ ht => ht.selectCols _)
  | order src cs rv lim ih =>
    obtain ⟨hW1, hW2⟩ := hW
    obtain ⟨hS1, hS2⟩ := hS
    simp only [sem, semG]
    refine ResEquiv.bind (ih hA hC hW1 hS1) (fun t t' hx ht => ?_)
    simp only [pure, Except.pure]
    cases lim with
    | none =>
      exact ⟨ht.1, (sortRows_perm cs rv t.rows).trans (ht.2.trans (List.mergeSort_perm _ _).symm)⟩
    | some n =>
      rw [semOrderG_eq_of_nullFree ec cs rv (some n) t' ((hS2 (by simp) t hx).perm ht.2)]
      exact semOrder_limit_equiv cs rv n ht (hW2 n rfl t hx)
  | rename src m ih =>
    simp only [sem, semG]
    exact ResEquiv.bind (ih hA hC hW hS) (fun t t' _ ht => semRename_equiv ht _ _)
  | mapCols src m dels ih =>
    simp only [sem, semG]
    exact ResEquiv.bind (ih hA hC hW hS) (fun t t' _ ht => semMapCols_equiv ht _ dels _)
  | join a b oa ob jt iha ihb =>
    simp only [sem, semG]
    have hC' : ConvertPermInvariant Θ := hC.resolve_left (by simp [InFrag])
    refine ResEquiv.bind (iha hA.1 (Or.inr hC') hW.1 hS.1) (fun ta ta' _ hta => ?_)
    exact ResEquiv.bind (ihb hA.2 (Or.inr hC') hW.2 hS.2) (fun tb tb' _ htb =>
      (semJoin_equiv cfg jt oa ob hta htb _).selectCols _)
  | concat a b idc an bn iha ihb =>
    simp only [sem, semG]
    have hC' : ConvertPermInvariant Θ := hC.resolve_left (by simp [InFrag])
    refine ResEquiv.bind (iha hA.1 (Or.inr hC') hW.1 hS.1) (fun ta ta' _ hta => ?_)
    exact ResEquiv.bind (ihb hA.2 (Or.inr hC') hW.2 hS.2) (fun tb tb' _ htb => semConcat_equiv idc an bn hta htb _)
  | convert src rm ih =>
    simp only [sem, semG]
    have hC' : ConvertPermInvariant Θ := hC.resolve_left (by simp [InFrag])
    exact ResEquiv.bind (ih hA (Or.inr hC') hW hS) (fun t t' _ ht => hC' rm t t' ht)

/-- a final `order_rows` whose order columns are null free and whose order is total on the rows that reach it
produces the same row **list** under both orderings, when its source is in the multiset scope -/
theorem semE_final_order_eq (ec : EngineCfg) (Θ : Interp) (cfg : SemCfg) (env : Env) (src : Ops)
    (cs rv : List String) (lim : Option Nat)
    (hA : AggsOrderFree Θ src) (hC : InFrag src = true ∨ ConvertPermInvariant Θ) (hW : WindowsTotal Θ cfg env src)
    (hS : SqlScope Θ cfg env src) {t : Table} (ht : sem Θ cfg env src = .ok t)
    (hnull : NullFreeOn cs t.rows) (htot : TotalOn cs rv t.rows) :
    semE ec Θ cfg env (.order src cs rv lim) = sem Θ cfg env (.order src cs rv lim) := by
  have h := sem_equiv_semE ec Θ cfg env src hA hC hW hS
  rw [ht] at h
  cases hs : semE ec Θ cfg env src with
  | error e => rw [hs] at h; exact h.elim
  | ok t' =>
    rw [hs] at h
    have heq : t ≈ t' := h
    simp only [sem, semG, ht, hs, bind, Except.bind, pure, Except.pure]
    rw [semOrderG_eq_of_nullFree ec cs rv lim t' (hnull.perm heq.2)]
    exact congrArg Except.ok (semOrder_total_eq cs rv lim heq htot).symm

end Sql
end DAVerif
