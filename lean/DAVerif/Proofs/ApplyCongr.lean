import DAVerif.Proofs.ApplyNode
/-!
`applyNode` respects `≈ᶜ` (same table up to row order and column order), under the scope condition of the node
(C18's conditions) – the congruence behind C06's chains and C07's composition.
-/
namespace DAVerif

/-- C18's scope condition for one node, on the rows of its (first) evaluated source -/
def NodeScope (Θ : Interp) (N : Ops) (rows : List Row) : Prop :=
  match N with
  | .extend _ ops part od rv w => w = true → WinOK Θ ops part od rv rows
  | .project _ ops _ => ∀ kv ∈ ops, AggOrderFree Θ (opName kv.2)
  | .order _ cs rv (some n) => LimitOK cs rv n rows
  | _ => True

/-- what makes the output of the node a table with pairwise different columns, given the columns `ca` of its
first source -/
def NodeColsOK (N : Ops) (ca : List String) : Prop :=
  match N with
  | .project _ _ g => g.Nodup
  | .selectCols _ cs => cs.Nodup ∧ ∀ c ∈ cs, c ∈ ca
  | .rename _ m => (ca.map (renameFn m)).Nodup
  | .mapCols _ m ds => ((ca.filter (fun c => !ds.contains c)).map (mapFn m)).Nodup
  | .concat _ _ idc _ _ => (concatCols ca idc).Nodup
  | .convert _ rm => rm.produced.Nodup
  | _ => True

theorem semJoin_wf (cfg : SemCfg) (jt : JoinType) (oa ob : List String) (ta tb : Table) (oc : List String) :
    (semJoin cfg jt oa ob ta tb oc).WF := by
  have hk : ∀ ra rb, Row.keys (joinRow ta.cols tb.cols oc ra rb) = oc := by
    intro ra rb
    simp [joinRow, Row.keys, List.map_map, Function.comp_def]
  intro r hr
  simp only [semJoin, List.mem_append, List.mem_flatMap, List.mem_map] at hr
  rcases hr with (⟨a, _, b, _, rfl⟩ | hr) | hr
  · exact hk _ _
  · split at hr
    · simp only [List.mem_map] at hr
      obtain ⟨a, _, rfl⟩ := hr
      exact hk _ _
    · cases hr
  · split at hr
    · simp only [List.mem_map] at hr
      obtain ⟨a, _, rfl⟩ := hr
      exact hk _ _
    · cases hr

theorem semSelectRows_wf (Θ : Interp) (e : Term) {t : Table} (hw : t.WF) : (semSelectRows Θ e t).WF :=
  fun r hr => hw r (List.mem_filter.mp hr).1

theorem semOrder_wf (cs rv : List String) (lim : Option Nat) {t : Table} (hw : t.WF) :
    (semOrder cs rv lim t).WF := by
  intro r hr
  have hmem : r ∈ sortRows cs rv t.rows := by
    simp only [semOrder] at hr
    cases lim with
    | none => exact hr
    | some n => exact List.mem_of_mem_take hr
  exact hw r (mem_sortRows.mp hmem)

theorem Table.eta (t : Table) : (⟨t.cols, t.rows⟩ : Table) = t := rfl

/-- the general pattern for operators that build their output rows as `… |>.select outCols` from what `get`
reads in the input rows -/
theorem getOnly_congrC (F : Table → List String → Table) (S : List Row → Prop)
    (hcols : ∀ t oc, (F t oc).cols = oc) (hwf : ∀ t oc, (F t oc).WF)
    (hequiv : ∀ t t' oc, t ≈ t' → S t.rows → F t oc ≈ F t' oc)
    (hmap : ∀ cs1 cs2 rows f oc, GetEq rows f → F ⟨cs1, rows.map f⟩ oc = F ⟨cs2, rows⟩ oc)
    (hsel : ∀ t oc oc', (∀ c ∈ oc, c ∈ oc') → (F t oc').selectCols oc = F t oc)
    {ta ta' : Table} (ha : ta ≈ᶜ ta') {oc oc' : List String} (hn : oc.Nodup) (hp : oc.Perm oc')
    (hs : S ta.rows) : F ta oc ≈ᶜ F ta' oc' := by
  refine Table.EquivC.of_equiv_select (hwf _ _) (hwf _ _) (by rw [hcols]; exact hn)
    (by rw [hcols, hcols]; exact hp) ?_
  rw [hcols, hsel ta' oc oc' (fun c hc => hp.mem_iff.mp hc)]
  have h1 := hequiv ta (ta'.selectCols ta.cols) oc ha.equiv_select hs
  have h2 : F (ta'.selectCols ta.cols) oc = F ta' oc :=
    hmap ta.cols ta'.cols ta'.rows (fun r => r.select ta.cols) oc
      (getEq_select ha.wf_right (fun c => ha.mem_cols c))
  rwa [h2] at h1

theorem perm_of_mem_iff {l l' : List String} (hn : l.Nodup) (hn' : l'.Nodup) (h : ∀ c, c ∈ l ↔ c ∈ l') :
    l.Perm l' := (List.perm_ext_iff_of_nodup hn hn').mpr h

theorem rename_select_eq {r : Row} {cs : List String} {F : String → String}
    (hinj : ∀ c ∈ cs, ∀ k ∈ r.keys, F k = F c → k = c) :
    (r.select cs).rename F = (r.rename F).select (cs.map F) := by
  simp only [Row.select, Row.rename, List.map_map]
  apply List.map_congr_left
  intro c hc
  simp only [Function.comp, Prod.mk.injEq, true_and]
  exact (Row.get_rename_of_injC (r := r) (hinj c hc)).symm

theorem drop_select_eq (r : Row) (cs ds : List String) :
    (r.select cs).drop ds = r.select (cs.filter (fun c => !ds.contains c)) := by
  simp only [Row.select, Row.drop, List.filter_map]
  rfl

/-- **`applyNode` respects `≈ᶜ`.** -/
theorem applyNode_congrC (Θ : Interp) (cfg : SemCfg) (hC : ConvertInvariant Θ) (N : Ops)
    {ta ta' tb tb' : Table} (ha : ta ≈ᶜ ta') (hb : tb ≈ᶜ tb') (hs : NodeScope Θ N ta.rows)
    (hc : NodeColsOK N ta.cols) :
    ResEquivC (applyNode Θ cfg N ta tb) (applyNode Θ cfg N ta' tb') := by
  have hmem := ha.mem_cols
  cases N with
  | table n cs => exact ha
  | extend s ops part od rv w =>
    have hn : (appendNew ta.cols (ops.map (·.1))).Nodup := nodup_appendNewC ha.nodup_left
    have hp : (appendNew ta.cols (ops.map (·.1))).Perm (appendNew ta'.cols (ops.map (·.1))) :=
      appendNew_perm ha.nodup_left ha.nodup_right (fun c => by rw [hmem c])
    cases w with
    | true =>
      simp only [applyNode, if_true]
      exact getOnly_congrC (fun t oc => semExtendWindow Θ ops part od rv t oc) (WinOK Θ ops part od rv)
        (fun _ _ => rfl) (fun t oc => semExtendWindow_wf Θ ops part od rv t oc)
        (fun t t' oc h hs => semExtendWindow_equiv Θ ops part od rv h oc hs)
        (fun cs1 cs2 rows f oc h => semExtendWindow_map Θ ops part od rv cs1 cs2 rows f oc h)
        (fun t oc oc' h => semExtendWindow_selectCols Θ ops part od rv t h) ha hn hp (hs rfl)
    | false =>
      simp only [applyNode, Bool.false_eq_true, if_false]
      exact getOnly_congrC (fun t oc => semExtendPlain Θ ops t oc) (fun _ => True)
        (fun _ _ => rfl) (fun t oc => semExtendPlain_wf Θ ops t oc)
        (fun t t' oc h _ => semExtendPlain_equiv Θ ops h oc)
        (fun cs1 cs2 rows f oc h => semExtendPlain_map Θ ops cs1 cs2 rows f oc h)
        (fun t oc oc' h => semExtendPlain_selectCols Θ ops t h) ha hn hp trivial
  | project s ops g =>
    simp only [applyNode]
    exact getOnly_congrC (fun t oc => semProject Θ ops g t oc) (fun _ => True)
      (fun t oc => (semProject_wf Θ ops g t oc).2) (fun t oc => (semProject_wf Θ ops g t oc).1)
      (fun t t' oc h _ => semProject_equiv Θ ops g h oc hs)
      (fun cs1 cs2 rows f oc h => semProject_map Θ ops g cs1 cs2 rows f oc h)
      (fun t oc oc' h => semProject_selectCols Θ ops g t h) ha (nodup_appendNewC hc) (List.Perm.refl _) trivial
  | selectRows s e =>
    simp only [applyNode]
    refine Table.EquivC.of_equiv_select (semSelectRows_wf Θ e ha.wf_left) (semSelectRows_wf Θ e ha.wf_right)
      ha.nodup_left ha.cols_perm ?_
    have h1 := semSelectRows_equiv Θ e ha.equiv_select
    have h2 := semSelectRows_map Θ e ta.cols ta'.cols ta'.rows (fun r => r.select ta.cols)
      (getEq_select ha.wf_right (fun c => hmem c))
    exact h1.trans (Table.Equiv.of_eq h2)
  | selectCols s cs =>
    simp only [applyNode]
    exact Table.EquivC.of_equiv (ha.selectCols hc.2) (Table.wf_selectCols _ _) hc.1
  | dropCols s ds =>
    simp only [applyNode]
    have hn : (ta.cols.filter (fun c => !ds.contains c)).Nodup := nodup_filter _ ha.nodup_left
    have hp : (ta.cols.filter (fun c => !ds.contains c)).Perm (ta'.cols.filter (fun c => !ds.contains c)) :=
      ha.cols_perm.filter _
    refine Table.EquivC.of_equiv_select (Table.wf_selectCols _ _) (Table.wf_selectCols _ _) hn hp ?_
    rw [Table.cols_selectCols, Table.selectCols_selectCols _ (fun c hc => hp.mem_iff.mp hc)]
    exact ha.selectCols (fun c hc => (List.mem_filter.mp hc).1)
  | order s cs rv lim =>
    simp only [applyNode]
    refine Table.EquivC.of_equiv_select (semOrder_wf cs rv lim ha.wf_left) (semOrder_wf cs rv lim ha.wf_right)
      ha.nodup_left ha.cols_perm ?_
    have h1 : semOrder cs rv lim ta ≈ semOrder cs rv lim (ta'.selectCols ta.cols) := by
      cases lim with
      | none => exact semOrder_equiv cs rv ha.equiv_select
      | some n => exact semOrder_limit_equiv cs rv n ha.equiv_select hs
    have h2 := semOrder_map cs rv lim ta.cols ta'.cols ta'.rows (fun r => r.select ta.cols)
      (getEq_select ha.wf_right (fun c => hmem c))
    exact h1.trans (Table.Equiv.of_eq h2)
  | rename s m =>
    simp only [applyNode]
    have hinj : ∀ c ∈ ta.cols, ∀ k ∈ ta'.cols, renameFn m k = renameFn m c → k = c :=
      fun c hcc k hk e => inj_of_nodup_mapC hc k ((hmem k).mpr hk) c hcc e
    refine ⟨?_, ?_, hc, ha.cols_perm.map _, ?_⟩
    · intro r hr
      simp only [List.mem_map] at hr
      obtain ⟨r0, hr0, rfl⟩ := hr
      rw [Row.keys_rename, ha.wf_left r0 hr0]
    · intro r hr
      simp only [List.mem_map] at hr
      obtain ⟨r0, hr0, rfl⟩ := hr
      rw [Row.keys_rename, ha.wf_right r0 hr0]
    · simp only [List.map_map]
      have h1 := ha.2.2.2.2.map (fun r => r.rename (renameFn m))
      rw [List.map_map] at h1
      refine h1.trans (List.Perm.of_eq ?_)
      apply List.map_congr_left
      intro r hr
      simp only [Function.comp]
      exact rename_select_eq (fun c hc k hk => hinj c hc k (by rw [← ha.wf_right r hr]; exact hk))
  | mapCols s m ds =>
    simp only [applyNode]
    have hinj : ∀ c ∈ ta.cols.filter (fun c => !ds.contains c), ∀ k ∈ ta'.cols.filter (fun c => !ds.contains c),
        mapFn m k = mapFn m c → k = c :=
      fun c hcc k hk e => inj_of_nodup_mapC (f := mapFn m) hc k
        ((ha.cols_perm.filter _).mem_iff.mpr hk) c hcc e
    refine ⟨?_, ?_, hc, (ha.cols_perm.filter _).map _, ?_⟩
    · intro r hr
      simp only [List.mem_map] at hr
      obtain ⟨r0, hr0, rfl⟩ := hr
      rw [Row.keys_rename, Row.keys_drop, ha.wf_left r0 hr0]
    · intro r hr
      simp only [List.mem_map] at hr
      obtain ⟨r0, hr0, rfl⟩ := hr
      rw [Row.keys_rename, Row.keys_drop, ha.wf_right r0 hr0]
    · simp only [List.map_map]
      have h1 := ha.2.2.2.2.map (fun r => (r.drop ds).rename (mapFn m))
      rw [List.map_map] at h1
      refine h1.trans (List.Perm.of_eq ?_)
      apply List.map_congr_left
      intro r hr
      simp only [Function.comp]
      rw [drop_select_eq]
      have hsel : r.select (ta.cols.filter (fun c => !ds.contains c))
          = (r.drop ds).select (ta.cols.filter (fun c => !ds.contains c)) := by
        apply Row.select_congr
        intro c hcc
        rw [Row.get_dropC]
        have : ds.contains c = false := by simpa using (List.mem_filter.mp hcc).2
        simp only [this, Bool.false_eq_true, if_false]
      rw [hsel]
      exact rename_select_eq (fun c hc k hk => hinj c hc k (by
        rw [Row.keys_drop, ha.wf_right r hr] at hk; exact hk))
  | join a b oa ob jt =>
    simp only [applyNode]
    have hmb := hb.mem_cols
    have hjn : (joinCols ta.cols tb.cols).Nodup := nodup_joinCols ha.nodup_left hb.nodup_left
    have hjp : (joinCols ta.cols tb.cols).Perm (joinCols ta'.cols tb'.cols) :=
      perm_of_mem_iff hjn (nodup_joinCols ha.nodup_right hb.nodup_right)
        (fun c => by rw [mem_joinCols, mem_joinCols, hmem c, hmb c])
    have hsub : ∀ {x y : List String}, ∀ c ∈ joinCols x y, c ∈ appendNew x y :=
      fun c hc => mem_appendNewC.mpr (mem_joinCols.mp hc)
    rw [semJoin_selectCols cfg jt oa ob ta tb hsub, semJoin_selectCols cfg jt oa ob ta' tb' hsub]
    refine Table.EquivC.of_equiv_select (semJoin_wf _ _ _ _ _ _ _) (semJoin_wf _ _ _ _ _ _ _) hjn hjp ?_
    show semJoin cfg jt oa ob ta tb (joinCols ta.cols tb.cols) ≈
      (semJoin cfg jt oa ob ta' tb' (joinCols ta'.cols tb'.cols)).selectCols (joinCols ta.cols tb.cols)
    rw [semJoin_selectCols cfg jt oa ob ta' tb' (fun c hc => hjp.mem_iff.mp hc)]
    have h1 := semJoin_equiv cfg jt oa ob ha.equiv_select hb.equiv_select (joinCols ta.cols tb.cols)
    have h2 := semJoin_map cfg jt oa ob ta.cols ta'.cols tb.cols tb'.cols ta'.rows tb'.rows
      (fun r => r.select ta.cols) (fun r => r.select tb.cols) (joinCols ta.cols tb.cols)
      (fun c => hmem c) (fun c => hmb c) (getEq_select ha.wf_right (fun c => hmem c))
      (getEq_select hb.wf_right (fun c => hmb c))
    exact h1.trans (Table.Equiv.of_eq h2)
  | concat a b idc an bn =>
    simp only [applyNode]
    have hp : (concatCols ta.cols idc).Perm (concatCols ta'.cols idc) := by
      cases idc with
      | none => exact ha.cols_perm
      | some c => exact ha.cols_perm.append_right _
    refine Table.EquivC.of_equiv_select (semConcat_wf _ _ _ _ _ _) (semConcat_wf _ _ _ _ _ _) hc hp ?_
    show semConcat idc an bn ta tb (concatCols ta.cols idc) ≈
      (semConcat idc an bn ta' tb' (concatCols ta'.cols idc)).selectCols (concatCols ta.cols idc)
    rw [semConcat_selectCols idc an bn ta' tb' (fun c hc => hp.mem_iff.mp hc)]
    have h1 := semConcat_equiv idc an bn ha.equiv_select hb.equiv_select (concatCols ta.cols idc)
    have h2 := semConcat_map idc an bn ta.cols ta'.cols tb.cols tb'.cols ta'.rows tb'.rows
      (fun r => r.select ta.cols) (fun r => r.select tb.cols) (concatCols ta.cols idc)
      (getEq_select ha.wf_right (fun c => hmem c)) (getEq_select hb.wf_right (fun c => hb.mem_cols c))
    exact h1.trans (Table.Equiv.of_eq h2)
  | convert s rm => exact hC rm ta ta' hc ha

end DAVerif
