import DAVerif.Proofs.SqlJoinSqlite
/-!
C16, SQLite FULL join emulation, the combinatorial core (no tables, no SQL): for a duplicate-free list `D` of key
carriers that covers exactly the keys of two lists `ta`, `tb`,

  (`D` ⟕ `ta`) ⟕ `tb`   and   `ta` ⟗ `tb`

pair the same elements, up to order (`full_emulation_perm`).  Keys are compared by plain equality: this is the
situation of null-free join keys.
-/
namespace DAVerif
namespace Sql

variable {α β δ κ γ : Type} [BEq κ] [LawfulBEq κ]

theorem flatMap_const_ite {l : List α} (c : Bool) (g : α → γ) :
    l.flatMap (fun x => if c then [g x] else []) = if c then l.map g else [] := by
  cases c
  · simp
  · simp only [↓reduceIte]
    induction l with
    | nil => rfl
    | cons x l ih => simp [List.flatMap_cons, ih]

theorem filter_flatMap_ite (l : List α) (p : α → Bool) (f : α → List γ) :
    (l.filter p).flatMap f = l.flatMap (fun x => if p x then f x else []) := by
  induction l with
  | nil => rfl
  | cons x l ih =>
    simp only [List.filter_cons, List.flatMap_cons]
    cases p x <;> simp [ih]

theorem flatMap_flatMap' (l : List α) (f : α → List β) (g : β → List γ) :
    (l.flatMap f).flatMap g = l.flatMap (fun x => (f x).flatMap g) := by
  induction l with
  | nil => rfl
  | cons x l ih => simp [List.flatMap_cons, List.flatMap_append, ih]

/-- exactly one carrier of a duplicate-free key list has a given key of the list -/
theorem flatMap_unique_key (D : List δ) (kD : δ → κ) (hn : (D.map kD).Nodup) {k : κ} (hk : k ∈ D.map kD)
    (X : List γ) : D.flatMap (fun d => if kD d == k then X else []) = X := by
  induction D with
  | nil => cases hk
  | cons d D ih =>
    simp only [List.map_cons, List.nodup_cons] at hn
    simp only [List.flatMap_cons]
    by_cases hd : kD d = k
    · subst hd
      have hrest : D.flatMap (fun d' => if kD d' == kD d then X else []) = [] := by
        have : ∀ d' ∈ D, (if kD d' == kD d then X else []) = [] := by
          intro d' hd'
          have : kD d' ≠ kD d := fun e => hn.1 (e ▸ List.mem_map.mpr ⟨d', hd', rfl⟩)
          simp [this]
        rw [flatMap_congr' this]
        clear this ih hk hn
        induction D with
        | nil => rfl
        | cons _ _ ih => simp
      simp [hrest]
    · have : (kD d == k) = false := by simpa using hd
      simp only [this, Bool.false_eq_true, ↓reduceIte, List.nil_append]
      apply ih hn.2
      simp only [List.map_cons, List.mem_cons] at hk
      exact hk.resolve_left (fun e => hd e.symm)

/-- **partition by key**: a `flatMap` over `ta` regrouped by the key carriers -/
theorem perm_partition_by_key (D : List δ) (kD : δ → κ) (hn : (D.map kD).Nodup) (ta : List α) (kA : α → κ)
    (hA : ∀ ra ∈ ta, kA ra ∈ D.map kD) (f : α → List γ) :
    (ta.flatMap f).Perm (D.flatMap (fun d => (ta.filter (fun ra => kD d == kA ra)).flatMap f)) := by
  induction ta with
  | nil =>
    have : D.flatMap (fun d => (([] : List α).filter (fun ra => kD d == kA ra)).flatMap f) = [] := by
      induction D with
      | nil => rfl
      | cons _ _ ih => simp
    rw [this]
    exact List.Perm.refl _
  | cons ra ta ih =>
    have hinner : ∀ d, ((ra :: ta).filter (fun ra => kD d == kA ra)).flatMap f =
        (if kD d == kA ra then f ra else []) ++ (ta.filter (fun ra => kD d == kA ra)).flatMap f := by
      intro d
      simp only [List.filter_cons]
      cases kD d == kA ra <;> simp
    simp only [List.flatMap_cons, hinner]
    refine List.Perm.trans ?_ (flatMap_append_perm D _ _).symm
    rw [flatMap_unique_key D kD hn (hA ra List.mem_cons_self)]
    exact List.Perm.append_left _ (ih (fun r hr => hA r (List.mem_cons_of_mem _ hr)))

theorem filter_eq_nil_iff_any {l : List α} {p : α → Bool} : (l.filter p).isEmpty = !l.any p := by
  induction l with
  | nil => rfl
  | cons x l ih =>
    simp only [List.filter_cons, List.any_cons]
    cases p x <;> simp [ih]

/-- the block of one key in either join: the pairs, the unmatched `a`-elements, the unmatched `b`-elements -/
def keyBlock (ta : List α) (tb : List β) (kA : α → κ) (kB : β → κ) (k : κ) : List (Option α × Option β) :=
  ((ta.filter (fun ra => k == kA ra)).flatMap (fun ra =>
      (tb.filter (fun rb => k == kB rb)).map (fun rb => (some ra, some rb))))
  ++ (if !tb.any (fun rb => k == kB rb) then (ta.filter (fun ra => k == kA ra)).map (fun ra => (some ra, none)) else [])
  ++ (if !ta.any (fun ra => k == kA ra) then (tb.filter (fun rb => k == kB rb)).map (fun rb => (none, some rb)) else [])

/-- the FULL join of two lists on key equality -/
def fullPairs (ta : List α) (tb : List β) (kA : α → κ) (kB : β → κ) : List (Option α × Option β) :=
  ta.flatMap (fun ra => (tb.filter (fun rb => kA ra == kB rb)).map (fun rb => (some ra, some rb)))
  ++ (ta.filter (fun ra => !tb.any (fun rb => kA ra == kB rb))).map (fun ra => (some ra, none))
  ++ (tb.filter (fun rb => !ta.any (fun ra => kA ra == kB rb))).map (fun rb => (none, some rb))

theorem beq_comm' (a b : κ) : (a == b) = (b == a) := by
  by_cases h : a = b
  · subst h; rfl
  · have h1 : (a == b) = false := by simpa using h
    have h2 : (b == a) = false := by simpa using fun e : b = a => h e.symm
    rw [h1, h2]

/-- the FULL join regrouped by key -/
theorem fullPairs_perm_blocks (D : List δ) (kD : δ → κ) (hn : (D.map kD).Nodup) (ta : List α) (tb : List β)
    (kA : α → κ) (kB : β → κ) (hA : ∀ ra ∈ ta, kA ra ∈ D.map kD) (hB : ∀ rb ∈ tb, kB rb ∈ D.map kD) :
    (fullPairs ta tb kA kB).Perm (D.flatMap (fun d => keyBlock ta tb kA kB (kD d))) := by
  unfold fullPairs keyBlock
  refine List.Perm.trans ?_ (flatMap_append_perm D _ _).symm
  refine List.Perm.append ?_ ?_
  · refine List.Perm.trans ?_ (flatMap_append_perm D _ _).symm
    refine List.Perm.append ?_ ?_
    · refine (perm_partition_by_key D kD hn ta kA hA _).trans ?_
      apply List.Perm.of_eq
      apply flatMap_congr'
      intro d _
      apply flatMap_congr'
      intro ra hra
      have hk : kD d = kA ra := by simpa using (List.mem_filter.mp hra).2
      rw [hk]
    · rw [← flatMap_ite_eq_filter_map]
      refine (perm_partition_by_key D kD hn ta kA hA _).trans ?_
      apply List.Perm.of_eq
      apply flatMap_congr'
      intro d _
      rw [← flatMap_const_ite]
      apply flatMap_congr'
      intro ra hra
      have hk : kD d = kA ra := by simpa using (List.mem_filter.mp hra).2
      rw [hk]
  · rw [← flatMap_ite_eq_filter_map]
    refine (perm_partition_by_key D kD hn tb kB hB _).trans ?_
    apply List.Perm.of_eq
    apply flatMap_congr'
    intro d _
    rw [← flatMap_const_ite]
    apply flatMap_congr'
    intro rb hrb
    have hk : kD d = kB rb := by simpa using (List.mem_filter.mp hrb).2
    have : (ta.any fun ra => kA ra == kB rb) = (ta.any fun ra => kD d == kA ra) := by
      apply any_congr'
      intro ra _
      rw [hk, beq_comm']
    rw [this]

/-- `D ⟕ ta`: key carriers paired with their `a`-elements, unmatched carriers kept -/
def leftPairs1 (D : List δ) (ta : List α) (kD : δ → κ) (kA : α → κ) : List (δ × Option α) :=
  D.flatMap (fun d => (ta.filter (fun ra => kD d == kA ra)).map (fun ra => (d, some ra)))
  ++ (D.filter (fun d => !ta.any (fun ra => kD d == kA ra))).map (fun d => (d, none))

/-- `(D ⟕ ta) ⟕ tb` -/
def leftPairs2 (R1 : List (δ × Option α)) (tb : List β) (kD : δ → κ) (kB : β → κ) : List (δ × Option α × Option β) :=
  R1.flatMap (fun r => (tb.filter (fun rb => kD r.1 == kB rb)).map (fun rb => (r.1, r.2, some rb)))
  ++ (R1.filter (fun r => !tb.any (fun rb => kD r.1 == kB rb))).map (fun r => (r.1, r.2, none))

omit [LawfulBEq κ] in
/-- the emulation regrouped by key -/
theorem leftPairs2_perm_blocks (D : List δ) (kD : δ → κ) (ta : List α) (tb : List β) (kA : α → κ) (kB : β → κ)
    (hcov : ∀ d ∈ D, (ta.any (fun ra => kD d == kA ra) || tb.any (fun rb => kD d == kB rb)) = true) :
    ((leftPairs2 (leftPairs1 D ta kD kA) tb kD kB).map (fun t => (t.2.1, t.2.2))).Perm
      (D.flatMap (fun d => keyBlock ta tb kA kB (kD d))) := by
  unfold leftPairs2 leftPairs1 keyBlock
  simp only [List.flatMap_append, List.filter_append, List.map_append, List.map_flatMap, List.map_map]
  -- the four parts
  have p1 : (D.flatMap (fun d => (ta.filter (fun ra => kD d == kA ra)).map (fun ra => (d, some ra)))).flatMap
        (fun r => ((tb.filter (fun rb => kD r.1 == kB rb)).map
          ((fun t : δ × Option α × Option β => (t.2.1, t.2.2)) ∘ fun rb => (r.1, r.2, some rb)))) =
      D.flatMap (fun d => (ta.filter (fun ra => kD d == kA ra)).flatMap (fun ra =>
        (tb.filter (fun rb => kD d == kB rb)).map (fun rb => (some ra, some rb)))) := by
    rw [flatMap_flatMap']
    apply flatMap_congr'
    intro d _
    rw [List.flatMap_map]
    rfl
  have p2 : ((D.filter (fun d => !ta.any (fun ra => kD d == kA ra))).map (fun d => (d, (none : Option α)))).flatMap
        (fun r => ((tb.filter (fun rb => kD r.1 == kB rb)).map
          ((fun t : δ × Option α × Option β => (t.2.1, t.2.2)) ∘ fun rb => (r.1, r.2, some rb)))) =
      D.flatMap (fun d => if !ta.any (fun ra => kD d == kA ra) then
        (tb.filter (fun rb => kD d == kB rb)).map (fun rb => (none, some rb)) else []) := by
    rw [List.flatMap_map, filter_flatMap_ite]
    rfl
  have p3 : ((D.flatMap (fun d => (ta.filter (fun ra => kD d == kA ra)).map (fun ra => (d, some ra)))).filter
        (fun r => !tb.any (fun rb => kD r.1 == kB rb))).map
          ((fun t : δ × Option α × Option β => (t.2.1, t.2.2)) ∘ fun r => (r.1, r.2, none)) =
      D.flatMap (fun d => if !tb.any (fun rb => kD d == kB rb) then
        (ta.filter (fun ra => kD d == kA ra)).map (fun ra => (some ra, none)) else []) := by
    rw [← flatMap_ite_eq_filter_map, flatMap_flatMap']
    apply flatMap_congr'
    intro d _
    rw [List.flatMap_map, ← flatMap_const_ite]
    rfl
  have p4 : (((D.filter (fun d => !ta.any (fun ra => kD d == kA ra))).map (fun d => (d, (none : Option α)))).filter
        (fun r => !tb.any (fun rb => kD r.1 == kB rb))).map
          ((fun t : δ × Option α × Option β => (t.2.1, t.2.2)) ∘ fun r => (r.1, r.2, none)) = [] := by
    rw [List.map_eq_nil_iff, List.filter_eq_nil_iff]
    intro r hr
    obtain ⟨d, hd, rfl⟩ := List.mem_map.mp hr
    obtain ⟨hdD, hda⟩ := List.mem_filter.mp hd
    have := hcov d hdD
    simp only [Bool.not_eq_eq_eq_not, Bool.not_true] at hda
    rw [hda, Bool.false_or] at this
    simp [this]
  rw [p1, p2, p3, p4, List.append_nil]
  refine List.Perm.trans ?_ (flatMap_append_perm D _ _).symm
  refine List.Perm.trans ?_ (List.Perm.append_right _ (flatMap_append_perm D _ _).symm)
  rw [List.append_assoc, List.append_assoc]
  exact List.Perm.append_left _ List.perm_append_comm

/-- **The combinatorial core of the FULL join emulation.**  `D`: duplicate-free key carriers covering exactly the
keys of `ta` and `tb`.  Pairing `D` with `ta` by a LEFT join and the result with `tb` by another LEFT join pairs the
same `(a, b)` elements as the FULL join of `ta` and `tb`, up to order. -/
theorem full_emulation_perm (D : List δ) (kD : δ → κ) (hn : (D.map kD).Nodup) (ta : List α) (tb : List β)
    (kA : α → κ) (kB : β → κ) (hA : ∀ ra ∈ ta, kA ra ∈ D.map kD) (hB : ∀ rb ∈ tb, kB rb ∈ D.map kD)
    (hcov : ∀ d ∈ D, (ta.any (fun ra => kD d == kA ra) || tb.any (fun rb => kD d == kB rb)) = true) :
    ((leftPairs2 (leftPairs1 D ta kD kA) tb kD kB).map (fun t => (t.2.1, t.2.2))).Perm (fullPairs ta tb kA kB) :=
  (leftPairs2_perm_blocks D kD ta tb kA kB hcov).trans (fullPairs_perm_blocks D kD hn ta tb kA kB hA hB).symm

/-- every triple of the emulation is consistent: its elements carry the key of its carrier -/
theorem leftPairs2_consistent {D : List δ} {kD : δ → κ} {ta : List α} {tb : List β} {kA : α → κ} {kB : β → κ}
    {t : δ × Option α × Option β} (ht : t ∈ leftPairs2 (leftPairs1 D ta kD kA) tb kD kB) :
    t.1 ∈ D ∧ (∀ ra, t.2.1 = some ra → ra ∈ ta ∧ kD t.1 = kA ra) ∧ (∀ rb, t.2.2 = some rb → rb ∈ tb ∧ kD t.1 = kB rb) := by
  have h1 : ∀ r ∈ leftPairs1 D ta kD kA, r.1 ∈ D ∧ (∀ ra, r.2 = some ra → ra ∈ ta ∧ kD r.1 = kA ra) := by
    intro r hr
    simp only [leftPairs1, List.mem_append, List.mem_flatMap, List.mem_map, List.mem_filter] at hr
    rcases hr with ⟨d, hd, ra, ⟨hra, hk⟩, rfl⟩ | ⟨d, ⟨hd, _⟩, rfl⟩
    · refine ⟨hd, ?_⟩
      intro ra' e
      cases e
      exact ⟨hra, by simpa using hk⟩
    · exact ⟨hd, fun _ e => by cases e⟩
  simp only [leftPairs2, List.mem_append, List.mem_flatMap, List.mem_map, List.mem_filter] at ht
  rcases ht with ⟨r, hr, rb, ⟨hrb, hk⟩, rfl⟩ | ⟨r, ⟨hr, _⟩, rfl⟩
  · refine ⟨(h1 r hr).1, (h1 r hr).2, ?_⟩
    intro rb' e
    cases e
    exact ⟨hrb, by simpa using hk⟩
  · exact ⟨(h1 r hr).1, (h1 r hr).2, fun _ e => by cases e⟩

end Sql
end DAVerif
