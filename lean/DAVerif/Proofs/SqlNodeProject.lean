import DAVerif.Proofs.SqlReach
import DAVerif.Proofs.SqlNodeUnary
/-!
C01/C02/C16, nested emulation: the `project` node against an arbitrary reference table of its source
(`Sql.transOK_project` with the reference table as a parameter, see `Proofs/SqlNodeUnary.lean`).
-/
namespace DAVerif
namespace Sql
namespace SqlE
open DAVerif.Ops (usedFromSources unionL)
open Rules26 (usedBy keys)

variable {Θ : Interp} {ec : EngineCfg} {env : Env} {scfg : SemCfg} {G : Near → Prop} {cfg : SqlCfg}

theorem nodeOK_project (hG : ShapeOK Θ ec env G) (fuel : Nat) (src : Ops) (ops : Assign) (group : List String)
    (hgsrc : ∀ c ∈ group, c ∈ src.cols) (hused : ∀ c ∈ usedBy ops, c ∈ src.cols)
    (hnd : (ops.map (·.1)).Nodup) (hdis : ∀ k ∈ ops.map (·.1), k ∉ group) (hne : group ≠ [] ∨ ops ≠ [])
    {ts : Table} (ih : NodeOK Θ ec env G cfg fuel src ts) :
    NodeOK Θ ec env G cfg (fuel + 1) (.project src ops group)
      (semProject Θ ops group ts (Ops.project src ops group).cols) := by
  intro u st q st' hu h
  rw [toNear] at h
  simp only [Option.getD_some] at h
  have hncols : ∀ c, c ∈ (Ops.project src ops group).cols ↔ c ∈ group ∨ c ∈ ops.map (·.1) := by
    intro c; simp only [Ops.cols]; exact mem_appendNew
  -- the kept assignments and the enlarged request (fix D14)
  generalize hpair : (if ((ops.filter (fun kv => u.contains kv.1)).isEmpty && group.isEmpty && !ops.isEmpty) = true
      then (ops.take 1, u ++ (ops.take 1).map (·.1)) else (ops.filter (fun kv => u.contains kv.1), u)) = pr at h
  have hF1 : ∀ kv ∈ pr.1, kv ∈ ops ∧ kv.1 ∈ pr.2 := by
    intro kv hkv
    rw [← hpair] at hkv ⊢
    split at hkv
    · rw [if_pos (by assumption)]
      refine ⟨List.mem_of_mem_take hkv, ?_⟩
      simp only [List.mem_append, List.mem_map]
      exact Or.inr ⟨kv, hkv, rfl⟩
    · rw [if_neg (by assumption)]
      have := List.mem_filter.mp hkv
      exact ⟨this.1, by simpa using this.2⟩
  have hF2 : ∀ c ∈ u, lookupLast pr.1 c = lookupLast ops c := by
    intro c hc
    rw [← hpair]
    split
    · rename_i hD
      simp only [Bool.and_eq_true, List.isEmpty_iff] at hD
      have hnone : lookupLast ops c = none := by
        apply lookupLast_eq_none_iff.mpr
        intro hk
        obtain ⟨kv, hkv, e⟩ := List.mem_map.mp hk
        have : kv ∈ ops.filter (fun kv => u.contains kv.1) :=
          List.mem_filter.mpr ⟨hkv, by simpa [e] using hc⟩
        rw [hD.1.1] at this
        cases this
      rw [hnone]
      apply lookupLast_eq_none_iff.mpr
      intro hk
      obtain ⟨kv, hkv, e⟩ := List.mem_map.mp hk
      exact lookupLast_eq_none_iff.mp hnone (List.mem_map.mpr ⟨kv, List.mem_of_mem_take hkv, e⟩)
    · simp only
      rw [lookupLast_filter_key ops (fun k => u.contains k), if_pos (by simpa using hc)]
  have hF3 : pr.1 = [] → group ≠ [] := by
    intro he hg
    rw [← hpair] at he
    have hops : ops ≠ [] := hne.resolve_left (fun h => h hg)
    split at he
    · cases ops with
      | nil => exact hops rfl
      | cons a as => simp at he
    · rename_i hD
      apply hD
      simp only [Bool.and_eq_true, List.isEmpty_iff, Bool.not_eq_eq_eq_not, Bool.not_true, List.isEmpty_eq_false_iff]
      exact ⟨⟨he, hg⟩, hops⟩
  have hsubkeys : ∀ k ∈ pr.1.map (·.1), k ∈ ops.map (·.1) := by
    intro k hk
    obtain ⟨kv, hkv, e⟩ := List.mem_map.mp hk
    exact List.mem_map.mpr ⟨kv, (hF1 kv hkv).1, e⟩
  obtain ⟨sub, st1, h1, h2⟩ := bindM_ok.mp h
  obtain ⟨i, st2, _, h4⟩ := bindM_ok.mp h2
  rw [pureM_ok] at h4
  cases h4
  generalize hSdef : ((Ops.project src ops group).usedFromSources pr.2).headD [] = S at h1 ⊢
  have hS0 : S = unionL group (Term.colsUsedOps (ops.filter (fun kv => pr.2.contains kv.1))) := by
    rw [← hSdef]; rfl
  have hgS : ∀ c ∈ group, c ∈ S := fun c hc => by rw [hS0, mem_unionL]; exact Or.inl hc
  have hSsrc : ∀ c ∈ S, c ∈ src.cols := by
    intro c hc
    rw [hS0, mem_unionL] at hc
    rcases hc with hc | hc
    · exact hgsrc c hc
    · obtain ⟨kv, hkv, hx⟩ := mem_colsUsedOps.mp hc
      exact hused c (List.mem_flatMap.mpr ⟨kv, (List.mem_filter.mp hkv).1, hx⟩)
  have hargsS : ∀ c ∈ u, ∀ t, lookupLast ops c = some t → ∀ x ∈ argCols t, x ∈ S := by
    intro c hc t hl x hx
    rw [← hF2 c hc] at hl
    have hkv := lookupLast_mem hl
    obtain ⟨hkvo, hkv2⟩ := hF1 _ hkv
    rw [hS0, mem_unionL]
    right
    exact mem_colsUsedOps.mpr ⟨(c, t), List.mem_filter.mpr ⟨hkvo, by simpa using hkv2⟩,
      argCols_subset_colsRaw t x hx⟩
  obtain ⟨_, S₁, hS₁, _, hsound⟩ := ih S st sub st1 hSsrc h1
  obtain ⟨T0, g1, g2, g4⟩ := hsound.req S hS₁ false
  refine ⟨hG.simple _ rfl, u, fun c hc => hc, hu, ?_⟩
  generalize hterms : pr.1.map (fun kv => (kv.1, STerm.expr kv.2 none)) ++
      (group.filter (fun g => !(pr.1.map (·.1)).contains g)).map (fun g => (g, STerm.pass)) = terms
  have hkeysT : ∀ c, c ∈ terms.map (·.1) ↔ c ∈ group ∨ c ∈ pr.1.map (·.1) := by
    intro c
    rw [← lookupLast_isSome_iff, ← hterms, look_project_terms ops pr.1 group hdis hsubkeys c]
    by_cases hc : c ∈ group
    · simp [hc]
    · simp only [hc, ↓reduceIte, Option.isSome_map, false_or]
      exact lookupLast_isSome_iff
  have htne : terms ≠ [] := by
    intro e
    by_cases hp : pr.1 = []
    · obtain ⟨g, hg⟩ := List.exists_mem_of_ne_nil _ (hF3 hp)
      have := (hkeysT g).mpr (Or.inl hg)
      rw [e] at this; cases this
    · obtain ⟨kv, hkv⟩ := List.exists_mem_of_ne_nil _ hp
      have := (hkeysT kv.1).mpr (Or.inr (List.mem_map.mpr ⟨kv, hkv, rfl⟩))
      rw [e] at this; cases this
  have hmk : mkTerms terms = some terms := by simp [mkTerms, htne]
  rw [hmk]
  refine ⟨?_, fun _ => ⟨terms.map (·.1), rfl, ?_, ?_⟩⟩
  · intro u' hu' force
    refine ⟨_, semNear_unary_ok g1 (some u') force, subset_outCols_some (fc := T0.cols), ?_⟩
    simp only
    rw [stepRows_select _ _ _ _ _ (subset_outCols_some (fc := T0.cols))]
    have hcell : ∀ (gL gLp : List Row) (k : List Val), gL.map (fun r => r.select S) = gLp.map (fun r => r.select S) →
        (group ≠ [] → ∃ r1, gL.head? = some r1 ∧ keyOf r1 group = k) →
        u'.map (fun c => (c, aggVal Θ gL c (lookT (some terms) c))) =
          (Row.select (group.zip k ++ ops.map (fun kv => (kv.1, Θ.agg (opName kv.2) (argValues kv.2 gLp))))
            (Ops.project src ops group).cols).select u' := by
      intro gL gLp k hg hk
      unfold Row.select
      apply List.map_congr_left
      intro c hc
      have hcu := hu' c hc
      have hcn := hu c hcu
      rw [show Row.get (List.map (fun c => (c, Row.get (group.zip k ++ ops.map (fun kv =>
          (kv.1, Θ.agg (opName kv.2) (argValues kv.2 gLp)))) c)) (Ops.project src ops group).cols) c
          = Row.get (group.zip k ++ ops.map (fun kv => (kv.1, Θ.agg (opName kv.2) (argValues kv.2 gLp)))) c
        from Row.get_select_mem hcn]
      rw [← hterms]
      rw [project_cell ops pr.1 group S gL gLp k hnd hdis hsubkeys hg hk ((hncols c).mp hcn) (hF2 c hcu)
        (hargsS c hcu)]
    by_cases hg : group = []
    · subst hg
      unfold stepRows
      simp only [List.isEmpty_nil, ↓reduceIte, suffixRows, semProject, List.map_cons, List.map_nil]
      rw [hcell T0.rows ts.rows [] g4 (fun h => absurd rfl h)]
      rfl
    · have hge : group.isEmpty = false := by simpa using hg
      unfold stepRows
      simp only [hge, Bool.false_eq_true, ↓reduceIte, suffixRows, semProject]
      have hkeysEq : T0.rows.map (fun r => keyOf r group) = ts.rows.map (fun r => keyOf r group) :=
        map_transport g4 (fun a _ b _ hab => keyOf_congr (fun c hc => Row.get_of_select_eq hab (hgS c hc)))
      rw [hkeysEq, List.map_map]
      apply List.map_congr_left
      intro k hk
      simp only [Function.comp]
      have hfilt := filter_transport (p := fun r => keyOf r group == k) (p' := fun r => keyOf r group == k) g4
        (fun a _ b _ hab => by
          rw [keyOf_congr (fun c hc => Row.get_of_select_eq hab (hgS c hc))])
      apply hcell _ _ k hfilt
      intro _
      rw [List.mem_eraseDups, ← hkeysEq, List.mem_map] at hk
      obtain ⟨r0, hr0, hk0⟩ := hk
      have hr0' : r0 ∈ T0.rows.filter (fun r => keyOf r group == k) :=
        List.mem_filter.mpr ⟨hr0, by simpa using hk0⟩
      cases hh : (T0.rows.filter (fun r => keyOf r group == k)).head? with
      | none => rw [List.head?_eq_none_iff.mp hh] at hr0'; cases hr0'
      | some r1 =>
        refine ⟨r1, rfl, ?_⟩
        have := List.mem_of_mem_head? (by rw [hh]; rfl : r1 ∈ (T0.rows.filter (fun r => keyOf r group == k)).head?)
        simpa using (List.mem_filter.mp this).2
  · intro k hk
    rcases (hkeysT k).mp hk with h | h
    · exact (hncols k).mpr (Or.inl h)
    · exact (hncols k).mpr (Or.inr (hsubkeys k h))
  · intro c hc
    apply (hkeysT c).mpr
    rcases (hncols c).mp (hu c hc) with h | h
    · exact Or.inl h
    · right
      rw [← lookupLast_isSome_iff, hF2 c hc, lookupLast_isSome_iff]
      exact h

end SqlE
end Sql
end DAVerif
