import DAVerif.Proofs.CDataMap
/-!
Helper lemmas for C17, part 5: `compose` (as repaired) agrees with sequential application.
-/
namespace DAVerif.CData
open List

/-! ### specifications with the same layout carry the same blocks -/

theorem blockRow_congr_cr {s : Spec} (f : Facts s) {cr cr' : Row} (u : Row)
    (h : ∀ c ∈ s.ct.cols, look cr c = look cr' c) : blockRow s cr u = blockRow s cr' u := by
  unfold blockRow
  have h1 : proj s.ctKeys cr = proj s.ctKeys cr' := proj_congr fun c hc => h c (f.ck_sub c hc)
  have h2 : (s.valueCols.map fun vc => (vc, look u (look cr vc).toName)) =
      s.valueCols.map fun vc => (vc, look u (look cr' vc).toName) := by
    apply map_congr_left
    intro vc hvc
    rw [h vc (mem_valueCols.1 hvc).1]
  rw [h1, h2]

theorem eRows_sim {a b : Spec} (fa : Facts a) (fb : Facts b) (hck : a.ctKeys = b.ctKeys)
    (hcols : a.ct.cols.Perm b.ct.cols)
    (hrows : (a.ct.rows.map (proj b.ct.cols)).Perm (b.ct.rows.map (proj b.ct.cols)))
    (_h1 : ∀ k ∈ a.recordKeys, k ∈ b.recordKeys) (h2 : ∀ k ∈ b.recordKeys, k ∈ a.recordKeys) (U : List Row) :
    ((eRows a U).map (proj b.blockColumns)).Perm (eRows b U) := by
  have hsub : ∀ c ∈ a.ct.cols, c ∈ b.ct.cols := fun c hc => hcols.mem_iff.1 hc
  -- step 1: control rows only matter through the control-table columns
  have e1 : eRows a U = (a.ct.rows.map (proj b.ct.cols)).flatMap fun x => U.map (bRow a x) := by
    rw [eRows, flatMap_map]
    apply flatMap_congr'
    intro cr _
    apply map_congr_left
    intro u _
    unfold bRow
    rw [blockRow_congr_cr fa u fun c hc => (look_proj cr (hsub c hc)).symm]
  have e2 : ((b.ct.rows.map (proj b.ct.cols)).flatMap fun x => U.map (bRow a x)) =
      b.ct.rows.flatMap fun cr => U.map (bRow a cr) := by
    rw [flatMap_map]
    apply flatMap_congr'
    intro cr _
    apply map_congr_left
    intro u _
    unfold bRow
    rw [blockRow_congr_cr fa u fun c hc => look_proj cr (hsub c hc)]
  rw [e1]
  refine ((hrows.flatMap_right _).map _).trans ?_
  rw [e2, eRows, map_flatMap]
  refine Perm.of_eq ?_
  apply flatMap_congr'
  intro cr _
  rw [map_map]
  apply map_congr_left
  intro u _
  simp only [Function.comp_apply]
  unfold bRow
  apply proj_congr
  intro c hc
  have hca : c ∈ a.blockColumns := by
    rcases mem_blockColumns.1 hc with h | h
    · exact mem_blockColumns.2 (Or.inl (h2 c h))
    · exact mem_blockColumns.2 (Or.inr (hcols.symm.mem_iff.1 h))
  rw [look_proj _ hca]
  rcases mem_blockColumns.1 hc with h | h
  · rw [look_blockRow_rk _ _ h, look_blockRow_rk _ _ (h2 c h)]
  · by_cases hk : c ∈ b.ctKeys
    · rw [look_blockRow_ck fb _ _ hk, look_blockRow_ck fa _ _ (hck ▸ hk)]
    · have hvb : c ∈ b.valueCols := mem_valueCols.2 ⟨h, hk⟩
      have hva : c ∈ a.valueCols := mem_valueCols.2 ⟨hcols.symm.mem_iff.1 h, hck ▸ hk⟩
      rw [look_blockRow_vc fb _ _ hvb, look_blockRow_vc fa _ _ hva]

theorem isBlocks_sim {a b : Spec} (fa : Facts a) (fb : Facts b) (hck : a.ctKeys = b.ctKeys)
    (hcols : a.ct.cols.Perm b.ct.cols)
    (hrows : (a.ct.rows.map (proj b.ct.cols)).Perm (b.ct.rows.map (proj b.ct.cols)))
    (h1 : ∀ k ∈ a.recordKeys, k ∈ b.recordKeys) (h2 : ∀ k ∈ b.recordKeys, k ∈ a.recordKeys)
    {U : List Row} {t : Table} (h : IsBlocks a U t) : IsBlocks b U t := by
  have hbc : ∀ c ∈ b.blockColumns, c ∈ a.blockColumns := by
    intro c hc
    rcases mem_blockColumns.1 hc with h | h
    · exact mem_blockColumns.2 (Or.inl (h2 c h))
    · exact mem_blockColumns.2 (Or.inr (hcols.symm.mem_iff.1 h))
  refine ⟨fun c hc => h.1 c (hbc c hc), ?_⟩
  rw [eRows_eq]
  have := h.2
  rw [eRows_eq] at this
  have := this.map (proj b.blockColumns)
  rw [map_map] at this
  refine Perm.trans (Perm.of_eq ?_) (this.trans (eRows_sim fa fb hck hcols hrows h1 h2 U))
  exact map_congr_left fun r _ => (proj_proj r hbc).symm

theorem sameLayout_symm {a b : Spec} (h : SameLayout a b) : SameLayout b a := by
  obtain ⟨h1, h2, h3⟩ := h
  refine ⟨h1.symm, h2.symm, ?_⟩
  have := (h3.map (proj a.ct.cols)).symm
  rw [map_map, map_map] at this
  have hsub : ∀ c ∈ a.ct.cols, c ∈ b.ct.cols := fun c hc => h2.mem_iff.1 hc
  refine Perm.trans (Perm.of_eq ?_) (this.trans (Perm.of_eq ?_))
  · exact map_congr_left fun r _ => (proj_proj r hsub).symm
  · exact map_congr_left fun r _ => proj_proj r hsub

/-- same layout ⇒ same content keys (as a set) -/
theorem sameLayout_content {a b : Spec} (_fa : Facts a) (h : SameLayout a b) :
    ∀ n ∈ a.rawContent, n ∈ b.rawContent := by
  obtain ⟨h1, h2, h3⟩ := h
  intro n hn
  unfold Spec.rawContent at hn ⊢
  obtain ⟨vc, hvc, hn⟩ := mem_flatMap.1 hn
  obtain ⟨cr, hcr, rfl⟩ := mem_map.1 hn
  have hvb : vc ∈ b.valueCols := mem_valueCols.2 ⟨h2.mem_iff.1 (mem_valueCols.1 hvc).1, h1 ▸ (mem_valueCols.1 hvc).2⟩
  obtain ⟨cr', hcr', e⟩ := mem_map.1 (h3.mem_iff.1 (mem_map_of_mem (f := proj b.ct.cols) hcr))
  refine mem_flatMap.2 ⟨vc, hvb, mem_map.2 ⟨cr', hcr', ?_⟩⟩
  rw [proj_eq_iff.1 e vc (mem_valueCols.1 hvb).1]

/-! ### sequential application in terms of the record view -/

theorem rk_out_sub {m : RecordMap} (gm : m.Good) {b : Spec} (hb : m.blocksOut = some b) :
    (∀ k ∈ b.recordKeys, k ∈ m.recordKeys) ∧ (∀ k ∈ m.recordKeys, k ∈ b.recordKeys) := by
  obtain ⟨bi, bo, st⟩ := m
  have hst : st = true := gm.strict
  subst hst
  simp only at hb
  subst hb
  cases bi with
  | none => exact ⟨fun k hk => hk, fun k hk => hk⟩
  | some a =>
    obtain ⟨_, k1, k2, _⟩ := mkMap_both_inv (gm.goodIn a rfl) (gm.goodOut b rfl) gm.valid
    exact ⟨k1, k2⟩

theorem good_has_side {m : RecordMap} (gm : m.Good) : m.blocksIn ≠ none ∨ m.blocksOut ≠ none := by
  obtain ⟨bi, bo, st⟩ := m
  cases bi with
  | some a => exact Or.inl (by simp)
  | none =>
    cases bo with
    | some b => exact Or.inr (by simp)
    | none =>
      have := gm.valid
      simp [mkMap, normSide] at this

theorem seq_spec {m₁ m₂ : RecordMap} (gm₁ : m₁.Good) (gm₂ : m₂.Good) (hi : Interface m₁ m₂)
    (hrk1 : ∀ k ∈ m₁.recordKeys, k ∈ m₂.recordKeys) (hrk2 : ∀ k ∈ m₂.recordKeys, k ∈ m₁.recordKeys)
    (hneed : ∀ a₁ b₂, m₁.blocksIn = some a₁ → m₁.blocksOut = none → m₂.blocksOut = some b₂ →
      ∀ c ∈ b₂.rowColumns, c ∈ a₁.rowColumns)
    {U : List Row} {t : Table} (hU : RecKeys m₁.recordKeys U) (ht : InRep m₁ U t) :
    ∃ u v, m₁.transform t = .ok u ∧ m₂.transform u = .ok v ∧ OutRep m₁ U u ∧ OutRep m₂ U v := by
  obtain ⟨u, hu, hout⟩ := transform_spec gm₁ hU ht
  have hU2 : RecKeys m₂.recordKeys U := hU.of_sameSet hrk2 hrk1
  have hin : InRep m₂ U u := by
    obtain ⟨i₁, o₁, st₁⟩ := m₁
    obtain ⟨i₂, o₂, st₂⟩ := m₂
    unfold Interface at hi
    simp only at hi
    cases o₁ with
    | none =>
      cases i₂ with
      | some a₂ => exact absurd hi (by simp)
      | none =>
        cases i₁ with
        | none => exact absurd (good_has_side gm₁) (by simp)
        | some a₁ =>
          cases o₂ with
          | none => exact absurd (good_has_side gm₂) (by simp)
          | some b₂ =>
            simp only [OutRep] at hout
            simp only [InRep]
            exact hout.1.mono (hneed a₁ b₂ rfl rfl rfl)
    | some b₁ =>
      cases i₂ with
      | none => exact absurd hi (by simp)
      | some a₂ =>
        simp only at hi
        have hb : IsBlocks b₁ U u := by
          cases i₁ <;> simp only [OutRep] at hout <;> exact hout.1
        have hrkb := rk_out_sub gm₁ (b := b₁) rfl
        have hl := sameLayout_symm hi
        have : IsBlocks a₂ U u := by
          apply isBlocks_sim (gm₁.goodOut b₁ rfl).facts (gm₂.goodIn a₂ rfl).facts hl.1 hl.2.1 hl.2.2 _ _ hb
          · intro k hk; exact hrk1 k (hrkb.1 k hk)
          · intro k hk; exact hrkb.2 k (hrk2 k hk)
        simpa [InRep] using this
  obtain ⟨v, hv, hvout⟩ := transform_spec gm₂ hU2 hin
  exact ⟨u, v, hu, hv, hout, hvout⟩

/-! ### the example input -/

def exKeyCells (rk : List String) : Row := rk.map fun k => (k, Val.str (k ++ " record key"))

/-- the example record: record key cells `"<k> record key"`, every content key holds its own name -/
def exRec (rk names : List String) : Row := exKeyCells rk ++ names.map fun n => (n, Val.str n)

theorem exKeyCells_keys (rk : List String) : (exKeyCells rk).map Prod.fst = rk := by
  simp [exKeyCells, Function.comp_def]

theorem look_exRec_rk {rk names : List String} {k : String} (hk : k ∈ rk) :
    look (exRec rk names) k = .str (k ++ " record key") := by
  unfold exRec
  rw [look_append, exKeyCells_keys, if_pos hk]
  exact look_map_pair (fun k => Val.str (k ++ " record key")) hk

theorem look_exRec_name {rk names : List String} {n : String} (hn : n ∈ names) (hk : n ∉ rk) :
    look (exRec rk names) n = .str n := by
  unfold exRec
  rw [look_append, exKeyCells_keys, if_neg hk]
  exact look_map_pair (fun n => Val.str n) hn

theorem exRec_recKeys (rk names : List String) : RecKeys rk [exRec rk names] := by
  refine ⟨?_, by simp⟩
  intro r hr
  rw [mem_singleton] at hr
  subst hr
  rw [noNull_iff]
  intro v hv
  obtain ⟨k, hk, rfl⟩ := mem_map.1 hv
  rw [look_exRec_rk hk]
  simp

theorem exampleInput_in {m : RecordMap} {a : Spec} (h : m.blocksIn = some a) :
    m.exampleInput "" " record key" = ⟨a.recordKeys ++ a.ct.cols, a.ct.rows.map fun cr =>
      exKeyCells a.recordKeys ++ a.ct.cols.map fun c =>
        (c, if c ∈ a.ctKeys then look cr c else .str ((look cr c).toName))⟩ := by
  obtain ⟨bi, bo, st⟩ := m
  simp only at h
  subst h
  unfold RecordMap.exampleInput
  simp only [RecordMap.recordKeys, String.append_empty]
  split
  · rename_i e
    simp [e, exKeyCells]
  · simp [exKeyCells]

theorem filter_not_mem_self (rk cs : List String) (h : ∀ k ∈ rk, k ∉ cs) :
    (rk ++ cs).filter (fun c => c ∉ rk) = cs := by
  rw [filter_append]
  have h1 : rk.filter (fun c => decide (c ∉ rk)) = [] := by
    apply filter_eq_nil_iff.2
    intro c hc
    simp [hc]
  have h2 : cs.filter (fun c => decide (c ∉ rk)) = cs := by
    apply filter_eq_self.2
    intro c hc
    simp only [decide_not, Bool.not_eq_eq_eq_not, Bool.not_true, decide_eq_false_iff_not]
    exact fun hk => h c hk hc
  rw [h1, h2, nil_append]

theorem exampleInput_out {m : RecordMap} {b : Spec} (f : Facts b) (h1 : m.blocksIn = none) (h2 : m.blocksOut = some b) :
    m.exampleInput "" " record key" = ⟨b.rowColumns, [exRec b.recordKeys b.rawContent]⟩ := by
  obtain ⟨bi, bo, st⟩ := m
  simp only at h1 h2
  subst h1 h2
  unfold RecordMap.exampleInput
  rw [show (⟨none, some b, st⟩ : RecordMap).recordKeys = b.recordKeys from rfl]
  have hf : b.rowColumns.filter (fun k => k ∉ b.recordKeys) = b.rawContent := by
    rw [Spec.rowColumns, contentKeys_eq f]
    exact filter_not_mem_self _ _ f.rk_content
  simp only [hf, String.append_empty]
  split
  · rename_i e
    simp [e, exRec, exKeyCells, Spec.rowColumns, contentKeys_eq f]
  · simp [exRec, exKeyCells, Spec.rowColumns, contentKeys_eq f]

/-- the example input of a map carries the one example record, in the incoming form -/
theorem exampleInput_rep {m : RecordMap} (gm : m.Good) :
    ∃ names, InRep m [exRec m.recordKeys names] (m.exampleInput "" " record key") ∧
      (∀ a, m.blocksIn = some a → names = a.rawContent) ∧
      (∀ b, m.blocksIn = none → m.blocksOut = some b → names = b.rawContent) := by
  obtain ⟨bi, bo, st⟩ := m
  cases bi with
  | none =>
    cases bo with
    | none => exact absurd (good_has_side gm) (by simp)
    | some b =>
      have f := (gm.goodOut b rfl).facts
      refine ⟨b.rawContent, ?_, fun a ha => (by cases ha), fun b' _ hb => (by cases hb; rfl)⟩
      rw [exampleInput_out f rfl rfl]
      simp only [InRep, RecordMap.recordKeys]
      exact ⟨fun c hc => hc, Perm.refl _⟩
  | some a =>
    have f := (gm.goodIn a rfl).facts
    refine ⟨a.rawContent, ?_, fun a' ha => (by cases ha; rfl), fun b' h _ => (by cases h)⟩
    rw [exampleInput_in (a := a) rfl]
    simp only [InRep, RecordMap.recordKeys]
    refine ⟨fun c hc => hc, ?_⟩
    rw [eRows_eq, eRows]
    refine Perm.of_eq ?_
    simp only [map_map, map_cons, map_nil]
    have : (a.ct.rows.flatMap fun cr => [bRow a cr (exRec a.recordKeys a.rawContent)]) =
        a.ct.rows.map fun cr => bRow a cr (exRec a.recordKeys a.rawContent) := by
      induction a.ct.rows <;> simp_all
    rw [this]
    apply map_congr_left
    intro cr hcr
    simp only [Function.comp_apply]
    unfold bRow
    apply proj_congr
    intro c hc
    rcases mem_blockColumns.1 hc with h | h
    · rw [look_blockRow_rk _ _ h, look_exRec_rk h, look_append, exKeyCells_keys, if_pos h]
      exact look_map_pair (fun k => Val.str (k ++ " record key")) h
    · have hnk : c ∉ a.recordKeys := fun hk => f.rk_disj c hk h
      rw [look_append, exKeyCells_keys, if_neg hnk]
      rw [look_map_pair (fun c => if c ∈ a.ctKeys then look cr c else Val.str ((look cr c).toName)) h]
      by_cases hk : c ∈ a.ctKeys
      · rw [if_pos hk, look_blockRow_ck f _ _ hk]
      · have hv : c ∈ a.valueCols := mem_valueCols.2 ⟨h, hk⟩
        rw [if_neg hk, look_blockRow_vc f _ _ hv]
        have hmem := contentName_mem hcr hv
        rw [look_exRec_name hmem (fun hk' => f.rk_content _ hk' hmem)]
        rfl

/-! ### the specifications `compose` reads off the example -/

theorem mkSpec_ok_eq {ct : Table} {rk ck : List String} {st : Bool} {s : Spec}
    (h : mkSpec ct rk (some ck) st = .ok s) : s = ⟨ct, rk, ck, st⟩ := by
  unfold mkSpec at h
  simp only at h
  repeat' (first | (split at h) | (cases h; done) | (cases h; rfl))

theorem filter_not_mem_append {rk rk' cs : List String} (h1 : ∀ k ∈ rk', k ∈ rk) (h2 : ∀ c ∈ cs, c ∉ rk) :
    (rk' ++ cs).filter (fun c => c ∉ rk) = cs := by
  rw [filter_append]
  have e1 : rk'.filter (fun c => decide (c ∉ rk)) = [] := by
    apply filter_eq_nil_iff.2
    intro c hc
    simp [h1 c hc]
  have e2 : cs.filter (fun c => decide (c ∉ rk)) = cs := by
    apply filter_eq_self.2
    intro c hc
    simp only [decide_not, Bool.not_eq_eq_eq_not, Bool.not_true, decide_eq_false_iff_not]
    exact h2 c hc
  rw [e1, e2, nil_append]

/-- the outgoing specification `compose` reads off the example output has the layout of `m₂`'s outgoing one -/
theorem rso_sim {b : Spec} (gb : b.Good) {rk : List String} (hrkn : rk.Nodup)
    (h1 : ∀ k ∈ rk, k ∈ b.recordKeys) (h2 : ∀ k ∈ b.recordKeys, k ∈ rk)
    {u₀ : Row} (hu₀ : ∀ n ∈ b.rawContent, look u₀ n = .str n)
    {out : Table} (hout : IsBlocks b [u₀] out) (hcols : out.cols.Perm b.blockColumns)
    (hlen : 2 ≤ out.rows.length) {B' : Spec} (hB : mkSpec (out.drop rk) rk (some b.ctKeys) true = .ok B') :
    B'.Good ∧ SameLayout B' b ∧ B'.recordKeys = rk := by
  have f := gb.facts
  have e := mkSpec_ok_eq hB
  subst e
  have hdisj : ∀ c ∈ b.ct.cols, c ∉ rk := fun c hc hk => f.rk_disj c (h1 c hk) hc
  have hkeep : (out.cols.filter fun c => c ∉ rk).Perm b.ct.cols := by
    have := hcols.filter (fun c => c ∉ rk)
    rw [Spec.blockColumns, filter_not_mem_append h2 hdisj] at this
    exact this
  have hsubk : ∀ c ∈ b.ct.cols, c ∈ out.cols.filter fun c => c ∉ rk := fun c hc => hkeep.symm.mem_iff.1 hc
  have hrows : (((out.drop rk).rows).map (proj b.ct.cols)).Perm (b.ct.rows.map (proj b.ct.cols)) := by
    unfold Table.drop
    simp only [map_map]
    have e1 : (out.rows.map (proj b.ct.cols ∘ proj (out.cols.filter fun c => c ∉ rk))) =
        (out.rows.map (proj b.blockColumns)).map (proj b.ct.cols) := by
      rw [map_map]
      apply map_congr_left
      intro r _
      simp only [Function.comp_apply]
      rw [proj_proj r hsubk, proj_proj r fun c hc => mem_blockColumns.2 (Or.inr hc)]
    rw [e1]
    have := hout.2
    rw [eRows_eq] at this
    refine (this.map _).trans (Perm.of_eq ?_)
    rw [eRows, map_flatMap]
    have : (b.ct.rows.flatMap fun cr => map (proj b.ct.cols) (map (bRow b cr) [u₀])) =
        b.ct.rows.map fun cr => proj b.ct.cols (bRow b cr u₀) := by
      induction b.ct.rows <;> simp_all
    rw [this]
    apply map_congr_left
    intro cr hcr
    apply proj_congr
    intro c hc
    unfold bRow
    rw [look_proj _ (mem_blockColumns.2 (Or.inr hc))]
    by_cases hk : c ∈ b.ctKeys
    · exact look_blockRow_ck f _ _ hk
    · have hv : c ∈ b.valueCols := mem_valueCols.2 ⟨hc, hk⟩
      rw [look_blockRow_vc f _ _ hv, hu₀ _ (contentName_mem hcr hv)]
      obtain ⟨n, hn⟩ := f.cells_str cr hcr c hv
      unfold contentName
      rw [hn]
      rfl
  refine ⟨⟨hB, rfl, ?_, ?_, gb.ckNodup⟩, ⟨rfl, hkeep, hrows⟩, rfl⟩
  · show 2 ≤ ((out.drop rk).rows).length
    unfold Table.drop
    simpa using hlen
  · show (rk ++ (out.drop rk).cols).Nodup
    unfold Table.drop
    simp only
    rw [nodup_append]
    refine ⟨hrkn, (hkeep.nodup_iff).2 f.cols_nodup, ?_⟩
    intro a ha b' hb' e
    subst e
    rw [mem_filter] at hb'
    simp only [decide_not, Bool.not_eq_eq_eq_not, Bool.not_true, decide_eq_false_iff_not] at hb'
    exact hb'.2 ha

theorem proj_self : ∀ {cs : List String} {r : Row}, r.map Prod.fst = cs → cs.Nodup → proj cs r = r
  | [], [], _, _ => rfl
  | [], _ :: _, h, _ => by simp at h
  | _ :: _, [], h, _ => by simp at h
  | c :: cs, (k, v) :: r, h, hn => by
    simp only [map_cons, cons.injEq] at h
    have hk : k = c := h.1
    subst hk
    rw [nodup_cons] at hn
    have ih := proj_self h.2 hn.2
    show (k, look ((k, v) :: r) k) :: cs.map (fun c => (c, look ((k, v) :: r) c)) = (k, v) :: r
    rw [look_cons, if_pos rfl]
    congr 1
    have : cs.map (fun c => (c, look ((k, v) :: r) c)) = proj cs r := by
      apply map_congr_left
      intro c hc
      rw [look_cons, if_neg (fun e : k = c => hn.1 (e ▸ hc))]
    rw [this, ih]

/-- the incoming control table `compose` reads off the example input is the incoming control table itself -/
theorem exampleInput_drop {m : RecordMap} {a : Spec} (ga : a.Good) (hn : a.ct.Normal) (h : m.blocksIn = some a) :
    (m.exampleInput "" " record key").drop a.recordKeys = a.ct := by
  have f := ga.facts
  rw [exampleInput_in h]
  unfold Table.drop
  simp only
  rw [filter_not_mem_self _ _ f.rk_disj, map_map]
  have : a.ct.rows.map (proj a.ct.cols ∘ fun cr => exKeyCells a.recordKeys ++ a.ct.cols.map fun c =>
      (c, if c ∈ a.ctKeys then look cr c else Val.str ((look cr c).toName))) = a.ct.rows := by
    conv => rhs; rw [← map_id a.ct.rows]
    apply map_congr_left
    intro cr hcr
    simp only [Function.comp_apply, id]
    refine Eq.trans (proj_congr ?_) (proj_self (hn cr hcr) f.cols_nodup)
    intro c hc
    have hnk : c ∉ a.recordKeys := fun hk => f.rk_disj c hk hc
    rw [look_append, exKeyCells_keys, if_neg hnk]
    rw [look_map_pair (fun c => if c ∈ a.ctKeys then look cr c else Val.str ((look cr c).toName)) hc]
    by_cases hk : c ∈ a.ctKeys
    · rw [if_pos hk]
    · rw [if_neg hk]
      obtain ⟨n, hn'⟩ := f.cells_str cr hcr c (mem_valueCols.2 ⟨hc, hk⟩)
      rw [hn']
      rfl
  rw [this]

theorem transform_ok_cols {m : RecordMap} {x y : Table} (h : m.transform x = .ok y) :
    ∀ c ∈ m.columnsNeeded, c ∈ x.cols := by
  unfold RecordMap.transform at h
  split at h
  · cases h
  · rename_i hn
    exact Decidable.not_not.1 hn

/-- what a successful `compose` went through -/
theorem compose_inv {m₁ m₂ m : RecordMap} (hc : compose m₂ m₁ = .ok (some m)) :
    sameSet m₁.recordKeys m₂.recordKeys = true ∧
    ∃ mid out, m₁.transform (m₁.exampleInput "" " record key") = .ok mid ∧ m₂.transform mid = .ok out ∧
      ((((m₁.exampleInput "" " record key").rows.length < 2 ∧ ¬ out.rows.length < 2) ∧
          ∃ b₂ bo, m₂.blocksOut = some b₂ ∧
            mkSpec (out.drop m₁.recordKeys) m₁.recordKeys (some b₂.ctKeys) (m₂.strict && m₁.strict) = .ok bo ∧
            mkMap none (some bo) (m₂.strict && m₁.strict) = .ok m) ∨
       ((¬ (m₁.exampleInput "" " record key").rows.length < 2 ∧ out.rows.length < 2) ∧
          ∃ a₁ rsi' bi, m₁.blocksIn = some a₁ ∧
            renameThroughLanding ((m₁.exampleInput "" " record key").drop m₁.recordKeys)
              (out.drop m₁.recordKeys) a₁.ctKeys = .ok rsi' ∧
            mkSpec rsi' m₁.recordKeys (some a₁.ctKeys) (m₂.strict && m₁.strict) = .ok bi ∧
            mkMap (some bi) none (m₂.strict && m₁.strict) = .ok m) ∨
       ((¬ (m₁.exampleInput "" " record key").rows.length < 2 ∧ ¬ out.rows.length < 2) ∧
          ∃ a₁ b₂ bi bo, m₁.blocksIn = some a₁ ∧ m₂.blocksOut = some b₂ ∧
            mkSpec ((m₁.exampleInput "" " record key").drop m₁.recordKeys) m₁.recordKeys (some a₁.ctKeys)
              (m₂.strict && m₁.strict) = .ok bi ∧
            mkSpec (out.drop m₁.recordKeys) m₁.recordKeys (some b₂.ctKeys) (m₂.strict && m₁.strict) = .ok bo ∧
            mkMap (some bi) (some bo) (m₂.strict && m₁.strict) = .ok m)) := by
  unfold compose at hc
  simp only at hc
  split at hc
  · cases hc
  rename_i hss
  split at hc
  · cases hc
  rename_i mid hmid
  split at hc
  · cases hc
  rename_i out hout
  refine ⟨by simpa using hss, mid, out, hmid, hout, ?_⟩
  split at hc
  · rename_i hi
    split at hc
    · cases hc
    rename_i ho
    refine Or.inl ⟨⟨hi, ho⟩, ?_⟩
    cases hb : m₂.blocksOut with
    | none => simp [hb] at hc
    | some b₂ =>
      simp only [hb] at hc
      split at hc
      · cases hc
      rename_i bo hbo
      split at hc
      · cases hc
      rename_i m' hm'
      cases hc
      exact ⟨b₂, bo, rfl, hbo, hm'⟩
  · rename_i hi
    cases ha : m₁.blocksIn with
    | none => simp [ha] at hc
    | some a₁ =>
      simp only [ha] at hc
      split at hc
      · rename_i ho
        refine Or.inr (Or.inl ⟨⟨hi, ho⟩, ?_⟩)
        split at hc
        · cases hc
        rename_i rsi' hrsi
        split at hc
        · cases hc
        rename_i bi hbi
        split at hc
        · cases hc
        rename_i m' hm'
        cases hc
        exact ⟨a₁, rsi', bi, rfl, hrsi, hbi, hm'⟩
      · rename_i ho
        refine Or.inr (Or.inr ⟨⟨hi, ho⟩, ?_⟩)
        split at hc
        · cases hc
        rename_i bi hbi
        cases hb : m₂.blocksOut with
        | none => simp [hb] at hc
        | some b₂ =>
          simp only [hb] at hc
          split at hc
          · cases hc
          rename_i bo hbo
          split at hc
          · cases hc
          rename_i m' hm'
          cases hc
          exact ⟨a₁, b₂, bi, bo, rfl, rfl, hbi, hbo, hm'⟩

/-! ### sizes of the example tables -/

theorem exampleInput_length_in {m : RecordMap} {a : Spec} (h : m.blocksIn = some a) :
    (m.exampleInput "" " record key").rows.length = a.ct.rows.length := by
  rw [exampleInput_in h]; simp

theorem exampleInput_length_out {m : RecordMap} {b : Spec} (f : Facts b) (h1 : m.blocksIn = none)
    (h2 : m.blocksOut = some b) : (m.exampleInput "" " record key").rows.length = 1 := by
  rw [exampleInput_out f h1 h2]; rfl

theorem isBlocks_single_length {b : Spec} {u₀ : Row} {out : Table} (h : IsBlocks b [u₀] out) :
    out.rows.length = b.ct.rows.length := by
  have := h.2.length_eq
  rw [eRows_eq, length_map] at this
  rw [this, eRows]
  induction b.ct.rows <;> simp_all

theorem isRows_single {a : Spec} {u₀ : Row} {out : Table} (h : IsRows a [u₀] out) :
    ∃ x, out.rows = [x] ∧ proj a.rowColumns x = proj a.rowColumns u₀ := by
  have := h.2
  simp only [map_cons, map_nil] at this
  have h1 := perm_singleton.1 this
  match hr : out.rows, h1 with
  | [x], h1 =>
    simp only [map_cons, map_nil, cons.injEq, and_true] at h1
    exact ⟨x, rfl, h1⟩
  | [], h1 => simp at h1
  | _ :: _ :: _, h1 => simp at h1

/-! ### the repaired renaming step is the identity when the interface layouts agree -/

theorem landing_str {keep : List String} {r0 : Row} (h : ∀ c ∈ keep, look r0 c = .str c) {n c' : String}
    (hl : landing ⟨keep, [r0]⟩ (.str n) = some c') : c' = n ∧ n ∈ keep := by
  unfold landing at hl
  simp only at hl
  have h1 := find?_some hl
  have h2 : c' ∈ keep := mem_reverse.1 (mem_of_find?_eq_some hl)
  simp only [decide_eq_true_eq] at h1
  rw [h c' h2] at h1
  have : c' = n := by injection h1
  exact ⟨this, this ▸ h2⟩

theorem rename_id {a : Spec} (ga : a.Good) (hn : a.ct.Normal) {keep : List String} {r0 : Row}
    (h : ∀ c ∈ keep, look r0 c = .str c) {rsi' : Table}
    (hr : renameThroughLanding a.ct ⟨keep, [r0]⟩ a.ctKeys = .ok rsi') :
    rsi' = a.ct ∧ ∀ n ∈ a.rawContent, n ∈ keep := by
  have f := ga.facts
  unfold renameThroughLanding at hr
  simp only at hr
  split at hr
  · cases hr
  rename_i hany
  cases hr
  have hall : ∀ cr ∈ a.ct.rows, ∀ c ∈ a.valueCols, ∃ n, look cr c = .str n ∧ landing ⟨keep, [r0]⟩ (.str n) = some n ∧ n ∈ keep := by
    intro cr hcr c hc
    obtain ⟨n, hcell⟩ := f.cells_str cr hcr c hc
    have : (landing ⟨keep, [r0]⟩ (look cr c)).isNone = false := by
      simp only [any_eq_true, not_exists, not_and, Bool.not_eq_true] at hany
      exact hany cr hcr c hc
    rw [hcell] at this
    cases hl : landing ⟨keep, [r0]⟩ (.str n) with
    | none => simp [hl] at this
    | some c' =>
      obtain ⟨e, hk⟩ := landing_str h hl
      subst e
      exact ⟨c', hcell, hl, hk⟩
  constructor
  · have hext : ∀ T : Table, T.cols = a.ct.cols → T.rows = a.ct.rows → T = a.ct := by
      intro T h1 h2
      cases T
      simp only at h1 h2
      rw [h1, h2]
    refine hext _ rfl ?_
    simp only
    conv => rhs; rw [← map_id a.ct.rows]
    apply map_congr_left
    intro cr hcr
    simp only [id]
    refine Eq.trans ?_ (proj_self (hn cr hcr) f.cols_nodup)
    unfold proj
    apply map_congr_left
    intro c hc
    by_cases hk : c ∈ a.ctKeys
    · rw [if_pos hk]
    · rw [if_neg hk]
      obtain ⟨n, hcell, hl, _⟩ := hall cr hcr c (mem_valueCols.2 ⟨hc, hk⟩)
      rw [hcell, hl]
  · intro n hn'
    unfold Spec.rawContent at hn'
    obtain ⟨vc, hvc, hn'⟩ := mem_flatMap.1 hn'
    obtain ⟨cr, hcr, rfl⟩ := mem_map.1 hn'
    obtain ⟨n, hcell, _, hk⟩ := hall cr hcr vc hvc
    rw [hcell]
    exact hk

/-! ### assembling -/

theorem perm_of_sameSet {l₁ l₂ : List String} (h1 : l₁.Nodup) (h2 : l₂.Nodup) (a : ∀ k ∈ l₁, k ∈ l₂)
    (b : ∀ k ∈ l₂, k ∈ l₁) : l₁.Perm l₂ := perm_of_nodup_mem h1 h2 fun k => ⟨a k, b k⟩

theorem finish_blocks {bo b₂ : Spec} (gbo : bo.Good) (gb₂ : b₂.Good) (hl : SameLayout bo b₂)
    (h1 : ∀ k ∈ bo.recordKeys, k ∈ b₂.recordKeys) (h2 : ∀ k ∈ b₂.recordKeys, k ∈ bo.recordKeys)
    {U : List Row} {w v : Table} (hw : IsBlocks bo U w ∧ w.cols.Perm bo.blockColumns)
    (hv : IsBlocks b₂ U v ∧ v.cols.Perm b₂.blockColumns) : w ≈ₜ v := by
  have hb := isBlocks_sim gbo.facts gb₂.facts hl.1 hl.2.1 hl.2.2 h1 h2 hw.1
  have hc : bo.blockColumns.Perm b₂.blockColumns :=
    (perm_of_sameSet gbo.facts.rk_nodup gb₂.facts.rk_nodup h1 h2).append hl.2.1
  exact equiv_of_isBlocks hb hv.1 (hw.2.trans hc) hv.2

/-- `mkSpec` on the fields of a good specification returns it -/
theorem mkSpec_good {a : Spec} (ga : a.Good) {bi : Spec}
    (h : mkSpec a.ct a.recordKeys (some a.ctKeys) true = .ok bi) : bi = a := by
  have := ga.valid
  rw [ga.strict, h] at this
  cases this
  rfl

theorem compose_spec {m₁ m₂ m : RecordMap} (gm₁ : m₁.Good) (gm₂ : m₂.Good) (hn : NormalIn m₁)
    (hi : Interface m₁ m₂) (hc : compose m₂ m₁ = .ok (some m)) {t : Table} (ht : Conforms m₁ t) :
    ∃ u v w, m₁.transform t = .ok u ∧ m₂.transform u = .ok v ∧ m.transform t = .ok w ∧ w ≈ₜ v := by
  obtain ⟨hss, mid, out, hmid, hout, hbr⟩ := compose_inv hc
  have hst₁ : m₁.strict = true := gm₁.strict
  have hst₂ : m₂.strict = true := gm₂.strict
  rw [hst₁, hst₂] at hbr
  simp only [Bool.and_self] at hbr
  simp only [sameSet, Bool.and_eq_true, all_eq_true, decide_eq_true_eq] at hss
  obtain ⟨hrk1, hrk2⟩ := hss
  obtain ⟨names, hex, hn1, hn2⟩ := exampleInput_rep gm₁
  have hU₀ := exRec_recKeys m₁.recordKeys names
  obtain ⟨mid', hmid', hmidrep⟩ := transform_spec gm₁ hU₀ hex
  have emid : mid' = mid := by rw [hmid] at hmid'; cases hmid'; rfl
  subst emid
  have hneed : ∀ a₁ b₂, m₁.blocksIn = some a₁ → m₁.blocksOut = none → m₂.blocksOut = some b₂ →
      ∀ c ∈ b₂.rowColumns, c ∈ a₁.rowColumns := by
    intro a₁ b₂ h1 h2 h3 c hcm
    have hcols := transform_ok_cols hout
    have hi₂ : m₂.blocksIn = none := by
      unfold Interface at hi
      rw [h2] at hi
      cases h : m₂.blocksIn with
      | none => rfl
      | some a₂ => rw [h] at hi; exact absurd hi (by simp)
    have hneeded : m₂.columnsNeeded = b₂.rowColumns := by
      unfold RecordMap.columnsNeeded; rw [hi₂, h3]
    have hmc : mid'.cols.Perm a₁.rowColumns := by
      unfold OutRep at hmidrep
      rw [h1, h2] at hmidrep
      exact hmidrep.2
    exact hmc.mem_iff.1 (hcols c (hneeded ▸ hcm))
  obtain ⟨mid'', out', e1, e2, _, houtrep⟩ := seq_spec gm₁ gm₂ hi hrk1 hrk2 hneed hU₀ hex
  have emid : mid'' = mid' := by rw [hmid] at e1; cases e1; rfl
  subst emid
  have eout : out = out' := by rw [hout] at e2; cases e2; rfl
  subst eout
  obtain ⟨U, hU, hrep⟩ := conforms_rep gm₁ ht
  obtain ⟨u, v, hu, hv, hurep, hvrep⟩ := seq_spec gm₁ gm₂ hi hrk1 hrk2 hneed hU hrep
  refine ⟨u, v, ?_⟩
  -- shapes
  obtain ⟨i₁, o₁, st₁⟩ := m₁
  obtain ⟨i₂, o₂, st₂⟩ := m₂
  simp only at hst₁ hst₂
  subst hst₁ hst₂
  unfold Interface at hi
  simp only at hi
  cases i₁ with
  | none =>
    cases o₁ with
    | none => exact absurd (good_has_side gm₁) (by simp)
    | some b₁ =>
      cases i₂ with
      | none => exact absurd hi (by simp)
      | some a₂ =>
        have gb₁ := gm₁.goodOut b₁ rfl
        have ga₂ := gm₂.goodIn a₂ rfl
        have hinp := exampleInput_length_out gb₁.facts (m := ⟨none, some b₁, true⟩) rfl rfl
        have hnames : names = b₁.rawContent := hn2 b₁ rfl rfl
        cases o₂ with
        | none =>
          -- rows → blocks → rows: compose returns None
          simp only [OutRep] at houtrep
          obtain ⟨x, hx, _⟩ := isRows_single houtrep.1
          rcases hbr with ⟨⟨_, ho⟩, _⟩ | ⟨⟨hi', _⟩, _⟩ | ⟨⟨hi', _⟩, _⟩
          · rw [hx] at ho; simp at ho
          · rw [hinp] at hi'; simp at hi'
          · rw [hinp] at hi'; simp at hi'
        | some b₂ =>
          have gb₂ := gm₂.goodOut b₂ rfl
          obtain ⟨_, k1, k2, k3⟩ := mkMap_both_inv ga₂ gb₂ gm₂.valid
          simp only [OutRep] at houtrep hvrep
          rcases hbr with ⟨⟨_, ho⟩, b₂', bo, hb₂, hbo, hm⟩ | ⟨⟨hi', _⟩, _⟩ | ⟨⟨hi', _⟩, _⟩
          · simp only [Option.some.injEq] at hb₂
            subst hb₂
            simp only [RecordMap.recordKeys] at hbo hrk1 hrk2 hU
            have hcont : ∀ n ∈ b₂.rawContent, n ∈ b₁.rawContent := by
              intro n hn'
              have := k3 n (by rw [contentKeys_eq gb₂.facts]; exact hn')
              rw [contentKeys_eq ga₂.facts] at this
              exact sameLayout_content ga₂.facts hi n this
            have hu₀ : ∀ n ∈ b₂.rawContent, look (exRec b₁.recordKeys names) n = .str n := by
              intro n hn'
              rw [hnames]
              exact look_exRec_name (hcont n hn') (fun hk => gb₁.facts.rk_content n hk (hcont n hn'))
            have hrkb : (∀ k ∈ b₁.recordKeys, k ∈ b₂.recordKeys) ∧ (∀ k ∈ b₂.recordKeys, k ∈ b₁.recordKeys) :=
              ⟨fun k hk => k2 k (hrk1 k hk), fun k hk => hrk2 k (k1 k hk)⟩
            obtain ⟨gbo, hlay, hbork⟩ := rso_sim gb₂ gb₁.facts.rk_nodup hrkb.1 hrkb.2 hu₀ houtrep.1 houtrep.2
              (by omega) hbo
            have em : m = ⟨none, some bo, true⟩ := by
              rw [mkMap_out_ok' gbo] at hm; cases hm; rfl
            subst em
            have gm : (⟨none, some bo, true⟩ : RecordMap).Good :=
              ⟨mkMap_out_ok' gbo, rfl, fun a h => (by cases h), fun b h => (by cases h; exact gbo)⟩
            have hrepm : InRep ⟨none, some bo, true⟩ U t := by
              simp only [InRep] at hrep ⊢
              apply hrep.mono
              intro c hcm
              rcases mem_rowColumns.1 hcm with h | h
              · exact mem_rowColumns.2 (Or.inl (hbork ▸ h))
              · rw [contentKeys_eq gbo.facts] at h
                have := hcont c (sameLayout_content gbo.facts hlay c h)
                exact mem_rowColumns.2 (Or.inr (by rw [contentKeys_eq gb₁.facts]; exact this))
            have hUm : RecKeys (RecordMap.recordKeys ⟨none, some bo, true⟩) U := by
              simp only [RecordMap.recordKeys]; rw [hbork]; exact hU
            obtain ⟨w, hw, hwrep⟩ := transform_spec gm hUm hrepm
            simp only [OutRep] at hwrep
            refine ⟨w, hu, hv, hw, finish_blocks gbo gb₂ hlay ?_ ?_ hwrep hvrep⟩
            · intro k hk; exact hrkb.1 k (hbork ▸ hk)
            · intro k hk; exact hbork ▸ hrkb.2 k hk
          · rw [hinp] at hi'; simp at hi'
          · rw [hinp] at hi'; simp at hi'
  | some a₁ =>
    have ga₁ := gm₁.goodIn a₁ rfl
    have hna : a₁.ct.Normal := by simpa [NormalIn] using hn
    have hinp := exampleInput_length_in (m := ⟨some a₁, o₁, true⟩) (a := a₁) rfl
    have hdrop := exampleInput_drop (m := ⟨some a₁, o₁, true⟩) ga₁ hna rfl
    have hnames : names = a₁.rawContent := hn1 a₁ rfl
    have hinp2 : ¬ (RecordMap.exampleInput ⟨some a₁, o₁, true⟩ "" " record key").rows.length < 2 := by
      rw [hinp]; have := ga₁.multi; omega
    simp only [RecordMap.recordKeys] at hrk1 hrk2 hU hbr
    rw [hdrop] at hbr
    -- content keys of m₂'s sides flow from a₁'s
    have hflow_in : ∀ a₂, i₂ = some a₂ → ∀ n ∈ a₂.rawContent, n ∈ a₁.rawContent := by
      intro a₂ h n hn'
      subst h
      cases o₁ with
      | none => exact absurd hi (by simp)
      | some b₁ =>
        have gb₁ := gm₁.goodOut b₁ rfl
        obtain ⟨_, _, _, j3⟩ := mkMap_both_inv ga₁ gb₁ gm₁.valid
        have := sameLayout_content (gm₂.goodIn a₂ rfl).facts hi n hn'
        have := j3 n (by rw [contentKeys_eq gb₁.facts]; exact this)
        rw [contentKeys_eq ga₁.facts] at this
        exact this
    have hflow_out : ∀ b₂, o₂ = some b₂ → ∀ n ∈ b₂.rawContent, n ∈ a₁.rawContent := by
      intro b₂ h n hn'
      subst h
      have gb₂ := gm₂.goodOut b₂ rfl
      cases i₂ with
      | some a₂ =>
        obtain ⟨_, _, _, k3⟩ := mkMap_both_inv (gm₂.goodIn a₂ rfl) gb₂ gm₂.valid
        have := k3 n (by rw [contentKeys_eq gb₂.facts]; exact hn')
        rw [contentKeys_eq (gm₂.goodIn a₂ rfl).facts] at this
        exact hflow_in a₂ rfl n this
      | none =>
        cases o₁ with
        | some b₁ => exact absurd hi (by simp)
        | none =>
          have := hneed a₁ b₂ rfl rfl rfl n (mem_rowColumns.2 (Or.inr (by rw [contentKeys_eq gb₂.facts]; exact hn')))
          rcases mem_rowColumns.1 this with h | h
          · exact absurd hn' (gb₂.facts.rk_content n (hrk1 n h))
          · rw [contentKeys_eq ga₁.facts] at h; exact h
    have hu₀name : ∀ n ∈ a₁.rawContent, look (exRec a₁.recordKeys names) n = .str n := by
      intro n hn'
      rw [hnames]
      exact look_exRec_name hn' (fun hk => ga₁.facts.rk_content n hk hn')
    cases o₂ with
    | some b₂ =>
      have gb₂ := gm₂.goodOut b₂ rfl
      have hrkb := rk_out_sub gm₂ (b := b₂) rfl
      simp only [RecordMap.recordKeys] at hrkb
      have hrk2' : (∀ k ∈ a₁.recordKeys, k ∈ b₂.recordKeys) ∧ (∀ k ∈ b₂.recordKeys, k ∈ a₁.recordKeys) := by
        constructor
        · intro k hk
          have := hrk1 k hk
          cases i₂ <;> exact hrkb.2 k this
        · intro k hk
          have := hrkb.1 k hk
          cases i₂ <;> exact hrk2 k this
      have houtb : IsBlocks b₂ [exRec a₁.recordKeys names] out ∧ out.cols.Perm b₂.blockColumns := by
        cases i₂ <;> simp only [OutRep] at houtrep <;> exact houtrep
      have hvb : IsBlocks b₂ U v ∧ v.cols.Perm b₂.blockColumns := by
        cases i₂ <;> simp only [OutRep] at hvrep <;> exact hvrep
      have holen : ¬ out.rows.length < 2 := by
        rw [isBlocks_single_length houtb.1]; have := gb₂.multi; omega
      rcases hbr with ⟨⟨hi', _⟩, _⟩ | ⟨⟨_, ho⟩, _⟩ | ⟨_, a₁', b₂', bi, bo, ha₁, hb₂, hbi, hbo, hm⟩
      · exact absurd hi' hinp2
      · exact absurd ho holen
      · simp only [Option.some.injEq] at ha₁ hb₂
        subst ha₁ hb₂
        have ebi := mkSpec_good ga₁ hbi
        subst ebi
        obtain ⟨gbo, hlay, hbork⟩ := rso_sim gb₂ ga₁.facts.rk_nodup hrk2'.1 hrk2'.2
          (fun n hn' => hu₀name n (hflow_out b₂ rfl n hn')) houtb.1 houtb.2 (by omega) hbo
        obtain ⟨em, _, _, _⟩ := mkMap_both_inv ga₁ gbo hm
        subst em
        have gm : (⟨some bi, some bo, true⟩ : RecordMap).Good :=
          ⟨hm, rfl, fun a h => (by cases h; exact ga₁), fun b h => (by cases h; exact gbo)⟩
        have hrepm : InRep ⟨some bi, some bo, true⟩ U t := by
          simp only [InRep] at hrep ⊢; exact hrep
        obtain ⟨w, hw, hwrep⟩ := transform_spec gm (by simpa [RecordMap.recordKeys] using hU) hrepm
        simp only [OutRep] at hwrep
        refine ⟨w, hu, hv, hw, finish_blocks gbo gb₂ hlay ?_ ?_ hwrep hvb⟩
        · intro k hk; exact hrk2'.1 k (hbork ▸ hk)
        · intro k hk; exact hbork ▸ hrk2'.2 k hk
    | none =>
      cases i₂ with
      | none => exact absurd (good_has_side gm₂) (by simp)
      | some a₂ =>
        have ga₂ := gm₂.goodIn a₂ rfl
        cases o₁ with
        | none => exact absurd hi (by simp)
        | some b₁ =>
          have gb₁ := gm₁.goodOut b₁ rfl
          simp only [OutRep] at houtrep hvrep
          obtain ⟨x, hx, hxe⟩ := isRows_single houtrep.1
          have holen : out.rows.length < 2 := by rw [hx]; simp

          rcases hbr with ⟨⟨hi', _⟩, _⟩ | ⟨_, a₁', rsi', bi, ha₁, hrsi, hbi, hm⟩ | ⟨⟨_, ho⟩, _⟩
          · exact absurd hi' hinp2
          · simp only [Option.some.injEq] at ha₁
            subst ha₁
            -- the dropped example output: one row holding every column's own name
            have hkeepmem : ∀ c ∈ out.cols.filter (fun c => c ∉ a₁.recordKeys), c ∈ a₂.rawContent := by
              intro c hcm
              rw [mem_filter] at hcm
              simp only [decide_not, Bool.not_eq_eq_eq_not, Bool.not_true, decide_eq_false_iff_not] at hcm
              rcases mem_rowColumns.1 (houtrep.2.mem_iff.1 hcm.1) with h | h
              · exact absurd (hrk2 c h) hcm.2
              · rw [contentKeys_eq ga₂.facts] at h; exact h
            have hr0 : ∀ c ∈ out.cols.filter (fun c => c ∉ a₁.recordKeys),
                look (proj (out.cols.filter fun c => c ∉ a₁.recordKeys) x) c = .str c := by
              intro c hcm
              rw [look_proj _ hcm]
              have hc2 := hkeepmem c hcm
              have hrc : c ∈ a₂.rowColumns :=
                mem_rowColumns.2 (Or.inr (by rw [contentKeys_eq ga₂.facts]; exact hc2))
              rw [proj_eq_iff.1 hxe c hrc]
              exact hu₀name c (hflow_in a₂ rfl c hc2)
            have hdropout : out.drop a₁.recordKeys =
                ⟨out.cols.filter (fun c => c ∉ a₁.recordKeys),
                 [proj (out.cols.filter fun c => c ∉ a₁.recordKeys) x]⟩ := by
              unfold Table.drop; rw [hx]; rfl
            rw [hdropout] at hrsi
            obtain ⟨ersi, hall⟩ := rename_id ga₁ hna hr0 hrsi
            subst ersi
            have ebi := mkSpec_good ga₁ hbi
            subst ebi
            have em : m = ⟨some bi, none, true⟩ := by
              rw [mkMap_in_ok ga₁] at hm; cases hm; rfl
            subst em
            have gm : (⟨some bi, none, true⟩ : RecordMap).Good :=
              ⟨mkMap_in_ok ga₁, rfl, fun a h => (by cases h; exact ga₁), fun b h => (by cases h)⟩
            have hrepm : InRep ⟨some bi, none, true⟩ U t := by
              simp only [InRep] at hrep ⊢; exact hrep
            obtain ⟨w, hw, hwrep⟩ := transform_spec gm (by simpa [RecordMap.recordKeys] using hU) hrepm
            simp only [OutRep] at hwrep
            refine ⟨w, hu, hv, hw, ?_⟩
            have hcp : bi.rowColumns.Perm a₂.rowColumns := by
              unfold Spec.rowColumns
              refine (perm_of_sameSet ga₁.facts.rk_nodup ga₂.facts.rk_nodup hrk1 hrk2).append ?_
              rw [contentKeys_eq ga₁.facts, contentKeys_eq ga₂.facts]
              apply perm_of_sameSet ga₁.facts.content_nodup ga₂.facts.content_nodup
              · intro n hn'; exact hkeepmem n (hall n hn')
              · intro n hn'; exact hflow_in a₂ rfl n hn'
            have hw2 : IsRows a₂ U w := hwrep.1.mono fun c hcm => hcp.symm.mem_iff.1 hcm
            exact equiv_of_isRows hw2 hvrep.1 (hwrep.2.trans hcp) hvrep.2
          · exact absurd holen ho

end DAVerif.CData
