import DAVerif.Proofs.WithSound
/-
The WITH form of the code as it is (`toWithFormG` / `stubStep` of Sql/WithFormG.lean = the shared `toWithForm` /
`withStub` with the key as a parameter; after fix N28 the cache is consulted before the sub-query is converted):
structure of the emitted sequence, and the simulation argument `semWith (toWithFormG key cache q) = semSql q`.
The invariant needs only the semantic faithfulness of the key function: a cache hit visits nothing below the node,
so every cache entry belongs to an emitted step.
-/
namespace DAVerif.Sql
open DAVerif

/-- the generalised definition with the model's key is the shared definition -/
theorem toWithFormG_cacheKey (near : Near) :
    (∀ cache, toWithForm cache near = toWithFormG cacheKey cache near) ∧
    (∀ cache cols force, withStub cache near cols force =
      stubStep cacheKey cache near cols force (toWithFormG cacheKey cache near)) := by
  induction near with
  | table n ts =>
    refine ⟨fun cache => by simp only [toWithForm, toWithFormG], fun cache cols force => ?_⟩
    rw [withStub]; simp [stubStep, Near.isTable, toWithFormG]
  | cte n =>
    refine ⟨fun cache => by simp only [toWithForm, toWithFormG], fun cache cols force => ?_⟩
    rw [withStub]; simp [stubStep, Near.isTable, toWithFormG]
  | unary name terms agg sub sc sf mg deps k ih =>
    have h1 : ∀ cache, toWithForm cache (.unary name terms agg sub sc sf mg deps k)
        = toWithFormG cacheKey cache (.unary name terms agg sub sc sf mg deps k) := by
      intro cache
      rw [toWithForm, toWithFormG]
      split
      · rfl
      · rw [ih.2]
    refine ⟨h1, fun cache cols force => ?_⟩
    rw [withStub, h1]
    simp only [stubStep]
    split
    · rename_i h; simp [Near.isTable] at h
    · rfl
  | join name terms l lc ln r rc rn jt oa ob k ihl ihr =>
    have h1 : ∀ cache, toWithForm cache (.join name terms l lc ln r rc rn jt oa ob k)
        = toWithFormG cacheKey cache (.join name terms l lc ln r rc rn jt oa ob k) := by
      intro cache
      rw [toWithForm, toWithFormG]
      split
      · rfl
      · rw [ihl.2]
        simp only
        rw [ihr.2]
    refine ⟨h1, fun cache cols force => ?_⟩
    rw [withStub, h1]
    simp only [stubStep]
    split
    · rename_i h; simp [Near.isTable] at h
    · rfl
  | union name terms l r cs k ihl ihr =>
    have h1 : ∀ cache, toWithForm cache (.union name terms l r cs k)
        = toWithFormG cacheKey cache (.union name terms l r cs k) := by
      intro cache
      rw [toWithForm, toWithFormG]
      split
      · rfl
      · rw [ihl.2]
        simp only
        rw [ihr.2]
    refine ⟨h1, fun cache cols force => ?_⟩
    rw [withStub, h1]
    simp only [stubStep]
    split
    · rename_i h; simp [Near.isTable] at h
    · rfl

theorem stubStep_isTable (key : KeyFn) (cache0 : Option Cache) {near : Near} (cols : Option (List String)) (force : Bool)
    (r : Near × List WithStep × Option Cache) (h : near.isTable = true) : stubStep key cache0 near cols force r = r := by
  simp [stubStep, h]

theorem toWithFormG_isTable (key : KeyFn) (cache : Option Cache) {near : Near} (h : near.isTable = true) :
    toWithFormG key cache near = (near, [], cache) := by
  cases near <;> simp_all [Near.isTable, toWithFormG]

theorem toWithFormG_name (key : KeyFn) (cache : Option Cache) (near : Near) :
    (toWithFormG key cache near).1.name = near.name := by
  cases near <;> simp only [toWithFormG] <;> (try split) <;> rfl

theorem stubStep_hit (key : KeyFn) (cache0 : Option Cache) {near : Near} (cols : Option (List String)) (force : Bool)
    (r : Near × List WithStep × Option Cache) (ht : ¬ near.isTable = true) {nm : String}
    (h : (cache0.bind fun c => lookupLast c (key near cols)) = some nm) :
    stubStep key cache0 near cols force r = (.cte nm, [], cache0) := by
  simp only [stubStep, if_neg ht, h]

theorem stubStep_miss (key : KeyFn) (cache0 : Option Cache) {near : Near} (cols : Option (List String)) (force : Bool)
    (r : Near × List WithStep × Option Cache) (ht : ¬ near.isTable = true)
    (h : (cache0.bind fun c => lookupLast c (key near cols)) = none) :
    stubStep key cache0 near cols force r = (.cte r.1.name,
       if r.2.1.any (fun st => st.name == r.1.name) then r.2.1 else r.2.1 ++ [⟨r.1.name, r.1, cols, force⟩],
       r.2.2.map (fun c => c ++ [(key near cols, r.1.name)])) := by
  simp only [stubStep, if_neg ht, h]

/-- the sequence a container contributes: names are those of the sub-tree, without repetition -/
theorem stubStep_names (key : KeyFn) (near : Near) (cols : Option (List String)) (force : Bool) (cache : Option Cache)
    (hnd : near.names.Nodup)
    (ih : (stepNames (toWithFormG key cache near).2.1).Nodup ∧
          ∀ n ∈ stepNames (toWithFormG key cache near).2.1, n ∈ near.names.tail) :
    (stepNames (stubStep key cache near cols force (toWithFormG key cache near)).2.1).Nodup ∧
      ∀ n ∈ stepNames (stubStep key cache near cols force (toWithFormG key cache near)).2.1, n ∈ near.names := by
  by_cases ht : near.isTable = true
  · rw [stubStep_isTable key _ cols force _ ht, toWithFormG_isTable key cache ht]
    simp [stepNames]
  · have hn := Near.names_of_not_isTable ht
    have hnotin : near.name ∉ near.names.tail := by
      rw [hn] at hnd; exact (List.nodup_cons.mp hnd).1
    cases hl : (cache.bind fun c => lookupLast c (key near cols)) with
    | some nm => rw [stubStep_hit key _ cols force _ ht hl]; simp [stepNames]
    | none =>
      rw [stubStep_miss key _ cols force _ ht hl]
      simp only [toWithFormG_name]
      have hany : ((toWithFormG key cache near).2.1.any fun st => st.name == near.name) = false := by
        rw [Bool.eq_false_iff]
        intro h
        rw [List.any_eq_true] at h
        obtain ⟨x, hx, hxe⟩ := h
        have hxe' : x.name = near.name := by simpa using hxe
        apply hnotin
        rw [← hxe']
        exact ih.2 _ (by simp only [stepNames, List.mem_map]; exact ⟨x, hx, rfl⟩)
      simp only [hany, Bool.false_eq_true, if_false]
      constructor
      · simp only [stepNames, List.map_append, List.map_cons, List.map_nil]
        rw [List.nodup_append]
        refine ⟨ih.1, by simp, ?_⟩
        intro a ha b hb
        simp only [List.mem_singleton] at hb
        subst hb
        intro he; subst he
        exact hnotin (ih.2 _ ha)
      · intro n hn'
        simp only [stepNames, List.map_append, List.map_cons, List.map_nil, List.mem_append, List.mem_singleton] at hn'
        rw [hn]
        cases hn' with
        | inl h => exact List.mem_cons_of_mem _ (ih.2 _ h)
        | inr h => subst h; exact List.mem_cons_self

theorem toWithFormG_names (key : KeyFn) (near : Near) : near.names.Nodup → ∀ cache,
    (stepNames (toWithFormG key cache near).2.1).Nodup ∧
      ∀ n ∈ stepNames (toWithFormG key cache near).2.1, n ∈ near.names.tail := by
  induction near with
  | table n ts => intro _ cache; simp [toWithFormG, stepNames]
  | cte n => intro _ cache; simp [toWithFormG, stepNames]
  | unary name terms agg sub sc sf mg deps k ih =>
    intro hnd cache
    simp only [Near.names, List.nodup_cons] at hnd
    simp only [toWithFormG]
    split
    · simp [stepNames]
    · simpa [Near.names] using stubStep_names key sub sc false cache hnd.2 (ih hnd.2 cache)
  | join name terms l lc ln r rc rn jt oa ob k ihl ihr =>
    intro hnd cache
    simp only [Near.names, List.nodup_cons] at hnd
    have hl := (List.nodup_append.mp hnd.2).1
    have hr := (List.nodup_append.mp hnd.2).2.1
    simp only [toWithFormG]
    split
    · simp [stepNames]
    · have h1 := stubStep_names key l (some lc) false cache hl (ihl hl cache)
      have h2 := stubStep_names key r (some rc) false
        (stubStep key cache l (some lc) false (toWithFormG key cache l)).2.2 hr (ihr hr _)
      have := pair_names _ _ _ _ hnd.2 h1 h2
      simp only [Near.names, List.tail_cons]
      rw [this.1]
      exact this.2
  | union name terms l r cs k ihl ihr =>
    intro hnd cache
    simp only [Near.names, List.nodup_cons] at hnd
    have hl := (List.nodup_append.mp hnd.2).1
    have hr := (List.nodup_append.mp hnd.2).2.1
    simp only [toWithFormG]
    split
    · simp [stepNames]
    · have h1 := stubStep_names key l (some cs) true cache hl (ihl hl cache)
      have h2 := stubStep_names key r (some cs) true
        (stubStep key cache l (some cs) true (toWithFormG key cache l)).2.2 hr (ihr hr _)
      have := pair_names _ _ _ _ hnd.2 h1 h2
      simp only [Near.names, List.tail_cons]
      rw [this.1]
      exact this.2

/-! ### normal forms: the `is_table` shortcuts of `to_with_form` do not change the outcome -/

theorem toWithFormG_join (key : KeyFn) (cache : Option Cache) (name : String) (terms : Terms) (l : Near) (lc : List String)
    (ln : String) (r : Near) (rc : List String) (rn : String) (jt : JoinType) (oa ob : List String) (k : Option String) :
    toWithFormG key cache (.join name terms l lc ln r rc rn jt oa ob k) =
      (.join name terms (stubStep key cache l (some lc) false (toWithFormG key cache l)).1 lc ln
          (stubStep key (stubStep key cache l (some lc) false (toWithFormG key cache l)).2.2 r (some rc) false (toWithFormG key (stubStep key cache l (some lc) false (toWithFormG key cache l)).2.2 r)).1
          rc rn jt oa ob k,
        appendUnseen (stubStep key cache l (some lc) false (toWithFormG key cache l)).2.1
          (stubStep key (stubStep key cache l (some lc) false (toWithFormG key cache l)).2.2 r (some rc) false (toWithFormG key (stubStep key cache l (some lc) false (toWithFormG key cache l)).2.2 r)).2.1,
        (stubStep key (stubStep key cache l (some lc) false (toWithFormG key cache l)).2.2 r (some rc) false (toWithFormG key (stubStep key cache l (some lc) false (toWithFormG key cache l)).2.2 r)).2.2) := by
  simp only [toWithFormG]
  split
  · rename_i h
    simp only [Bool.and_eq_true] at h
    simp only [stubStep_isTable key _ _ _ _ h.1, stubStep_isTable key _ _ _ _ h.2, toWithFormG_isTable key _ h.1,
      toWithFormG_isTable key _ h.2, appendUnseen, List.foldl_nil]
  · rfl

theorem toWithFormG_union (key : KeyFn) (cache : Option Cache) (name : String) (terms : List String) (l r : Near)
    (cs : List String) (k : Option String) :
    toWithFormG key cache (.union name terms l r cs k) =
      (.union name terms (stubStep key cache l (some cs) true (toWithFormG key cache l)).1
          (stubStep key (stubStep key cache l (some cs) true (toWithFormG key cache l)).2.2 r (some cs) true (toWithFormG key (stubStep key cache l (some cs) true (toWithFormG key cache l)).2.2 r)).1 cs k,
        appendUnseen (stubStep key cache l (some cs) true (toWithFormG key cache l)).2.1
          (stubStep key (stubStep key cache l (some cs) true (toWithFormG key cache l)).2.2 r (some cs) true (toWithFormG key (stubStep key cache l (some cs) true (toWithFormG key cache l)).2.2 r)).2.1,
        (stubStep key (stubStep key cache l (some cs) true (toWithFormG key cache l)).2.2 r (some cs) true (toWithFormG key (stubStep key cache l (some cs) true (toWithFormG key cache l)).2.2 r)).2.2) := by
  simp only [toWithFormG]
  split
  · rename_i h
    simp only [Bool.and_eq_true] at h
    simp only [stubStep_isTable key _ _ _ _ h.1, stubStep_isTable key _ _ _ _ h.2, toWithFormG_isTable key _ h.1,
      toWithFormG_isTable key _ h.2, appendUnseen, List.foldl_nil]
  · rfl

theorem toWithFormG_unary (key : KeyFn) (cache : Option Cache) (name : String) (terms : Option Terms) (agg : Bool) (sub : Near)
    (sc : Option (List String)) (sf : Suffix) (mg : Bool) (deps : Option (List (String × List String))) (k : Option String) :
    ∃ mg' deps', toWithFormG key cache (.unary name terms agg sub sc sf mg deps k) =
      (.unary name terms agg (stubStep key cache sub sc false (toWithFormG key cache sub)).1 sc sf mg' deps' k,
        (stubStep key cache sub sc false (toWithFormG key cache sub)).2.1,
        (stubStep key cache sub sc false (toWithFormG key cache sub)).2.2) := by
  simp only [toWithFormG]
  split
  · rename_i h
    exact ⟨mg, deps, by simp only [stubStep_isTable key _ _ _ _ h, toWithFormG_isTable key _ h]⟩
  · exact ⟨false, none, rfl⟩


section SoundFix
variable (Θ : Interp) (ec : EngineCfg) (env : Env) (key : KeyFn) (q : Near)

/-- bound sub-queries with equal keys denote the same table -/
def KeyFaith : Prop :=
  ∀ x ∈ q.desc, ∀ y ∈ q.desc, bkey key x = bkey key y → den Θ ec env x = den Θ ec env y

/-- the invariant of the repaired code: every cache entry names an evaluated CTE denoting its key's sub-queries -/
def Inv (ctes : List (String × Table)) : Option Cache → Prop
  | none => True
  | some c => KeyFaith Θ ec env key q ∧
      (∀ e ∈ c, ∃ t, lookupLast ctes e.2 = some t ∧ ∀ x ∈ q.desc, bkey key x = e.1 → den Θ ec env x = .ok t)

/-- outcome of `to_with_form` on `near`, started with the CTE context `ctes` and the cache `cache` -/
def TWPost (ctes : List (String × Table)) (cache : Option Cache) (near : Near) : Prop :=
  (∃ extra, runSteps Θ ec env ctes (toWithFormG key cache near).2.1 = .ok (ctes ++ extra) ∧
      (∀ e ∈ extra, e.1 ∈ near.names.tail) ∧
      Inv Θ ec env key q (ctes ++ extra) (toWithFormG key cache near).2.2 ∧
      ∀ c f, semNear Θ ec env (ctes ++ extra) (toWithFormG key cache near).1 c f = semNear Θ ec env [] near c f)
  ∨ (runSteps Θ ec env ctes (toWithFormG key cache near).2.1 = .error .other ∧
      ∀ c f, semNear Θ ec env [] near c f = .error .other)

/-- outcome of `to_with_form_stub` on the container `(near, cols, force)` -/
def STPost (ctes : List (String × Table)) (cache : Option Cache) (near : Near) (cols : Option (List String))
    (force : Bool) : Prop :=
  (∃ extra, runSteps Θ ec env ctes (stubStep key cache near cols force (toWithFormG key cache near)).2.1 = .ok (ctes ++ extra) ∧
      (∀ e ∈ extra, e.1 ∈ near.names) ∧
      Inv Θ ec env key q (ctes ++ extra) (stubStep key cache near cols force (toWithFormG key cache near)).2.2 ∧
      ∀ more : List (String × Table), (∀ e ∈ more, e.1 ∉ (ctes ++ extra).map (·.1)) →
        semNear Θ ec env (ctes ++ extra ++ more) (stubStep key cache near cols force (toWithFormG key cache near)).1 cols force
          = semNear Θ ec env [] near cols force)
  ∨ (runSteps Θ ec env ctes (stubStep key cache near cols force (toWithFormG key cache near)).2.1 = .error .other ∧
      semNear Θ ec env [] near cols force = .error .other)

theorem seq_any_false (cache : Option Cache) (near : Near) (hnd : near.names.Nodup) (ht : ¬ near.isTable = true) :
    ((toWithFormG key cache near).2.1.any fun st => st.name == (toWithFormG key cache near).1.name) = false := by
  have hn := Near.names_of_not_isTable ht
  have hnotin : near.name ∉ near.names.tail := by
    rw [hn] at hnd; exact (List.nodup_cons.mp hnd).1
  rw [Bool.eq_false_iff]
  intro h
  rw [List.any_eq_true] at h
  obtain ⟨x, hx, hxe⟩ := h
  rw [toWithFormG_name] at hxe
  have hxe' : x.name = near.name := by simpa using hxe
  apply hnotin
  rw [← hxe']
  exact (toWithFormG_names key near hnd cache).2 _ (by simp only [stepNames, List.mem_map]; exact ⟨x, hx, rfl⟩)

/-- `to_with_form_stub` from `to_with_form` on the same node -/
theorem stub_sem (ctes : List (String × Table)) (cache : Option Cache) (near : Near) (cols : Option (List String))
    (force : Bool)
    (hb : ∀ x ∈ bdesc near cols force, x ∈ q.desc) (hnc : near.noCte = true) (hnd : near.names.Nodup)
    (hdis : ∀ n ∈ near.names, n ∉ ctes.map (·.1)) (hinv : Inv Θ ec env key q ctes cache)
    (htw : TWPost Θ ec env key q ctes cache near) :
    STPost Θ ec env key q ctes cache near cols force := by
  unfold STPost
  by_cases ht : near.isTable = true
  · rw [stubStep_isTable key _ cols force _ ht, toWithFormG_isTable key _ ht]
    left
    refine ⟨[], by simp [runSteps_nil], by simp, by simpa using hinv, ?_⟩
    intro more _
    cases near with
    | table n ts => exact semNear_table_ctes Θ ec env _ _ n ts cols force
    | cte n => simp [Near.noCte] at hnc
    | _ => simp [Near.isTable] at ht
  · have hx : (near, cols, force) ∈ q.desc := hb _ (by rw [bdesc_of_not_isTable _ _ ht]; exact List.mem_cons_self)
    have hsubq : ∀ m ∈ near.desc, m ∈ q.desc := fun m hm => desc_trans q _ hx m hm
    have hn := Near.names_of_not_isTable ht
    have hnotin : near.name ∉ near.names.tail := by
      rw [hn] at hnd; exact (List.nodup_cons.mp hnd).1
    cases hl : (cache.bind fun c => lookupLast c (key near cols)) with
    | some nm =>
      -- a hit: nothing below is visited, the entry names an evaluated CTE
      cases cache with
      | none => simp at hl
      | some c =>
        simp only [Option.bind_some] at hl
        obtain ⟨hfa, hI1⟩ := hinv
        obtain ⟨t, hlk, hden⟩ := hI1 _ (lookupLast_some_mem _ _ _ hl)
        rw [stubStep_hit key _ cols force _ ht (by simpa using hl)]
        left
        refine ⟨[], by simp [runSteps_nil], by simp, (by rw [List.append_nil]; exact ⟨hfa, hI1⟩), ?_⟩
        intro more hmore
        rw [semNear_cte]
        have hnm : nm ∉ more.map (·.1) := by
          intro hmem'
          simp only [List.mem_map] at hmem'
          obtain ⟨e, he, hee⟩ := hmem'
          apply hmore e he
          rw [hee]
          simpa using lookupLast_some_fst_mem _ _ _ hlk
        simp only [List.append_nil]
        rw [lookupLast_append_of_notMem _ _ _ hnm, hlk]
        exact (hden _ hx rfl).symm
    | none =>
      rw [stubStep_miss key _ cols force _ ht hl]
      have hany := seq_any_false key cache near hnd ht
      rw [toWithFormG_name] at hany
      simp only [toWithFormG_name, hany, Bool.false_eq_true, if_false]
      cases htw with
      | inr herr =>
        right
        refine ⟨?_, herr.2 cols force⟩
        rw [runSteps_append, herr.1]; rfl
      | inl hok =>
        obtain ⟨extra1, hrun, hnames, hinv1, hsem⟩ := hok
        cases hd : semNear Θ ec env [] near cols force with
        | error e =>
          right
          have he := semNear_err Θ ec env [] near _ _ _ hd
          subst he
          refine ⟨?_, rfl⟩
          rw [runSteps_append, hrun]
          simp only [bind, Except.bind, runSteps_single, hsem, hd]
        | ok t =>
          left
          refine ⟨extra1 ++ [(near.name, t)], ?_, ?_, ?_, ?_⟩
          · rw [runSteps_append, hrun]
            simp only [bind, Except.bind, runSteps_single, hsem, hd, pure, Except.pure, List.append_assoc]
          · intro e he
            simp only [List.mem_append, List.mem_singleton] at he
            rw [hn]
            cases he with
            | inl h => exact List.mem_cons_of_mem _ (hnames e h)
            | inr h => subst h; exact List.mem_cons_self
          · cases hc1 : (toWithFormG key cache near).2.2 with
            | none => simp [Inv]
            | some c1 =>
              rw [hc1] at hinv1
              obtain ⟨hfa, hI1⟩ := hinv1
              simp only [Option.map_some, Inv]
              have hfresh : near.name ∉ (ctes ++ extra1).map (·.1) := by
                simp only [List.map_append, List.mem_append, not_or]
                refine ⟨hdis _ (by rw [hn]; exact List.mem_cons_self), ?_⟩
                intro hmem
                simp only [List.mem_map] at hmem
                obtain ⟨e, he, hee⟩ := hmem
                exact hnotin (hee ▸ hnames e he)
              refine ⟨hfa, ?_⟩
              intro e he
              simp only [List.mem_append, List.mem_singleton] at he
              cases he with
              | inl h =>
                obtain ⟨t', hlk, hden⟩ := hI1 e h
                refine ⟨t', ?_, hden⟩
                rw [← List.append_assoc, lookupLast_append_of_notMem _ _ _ ?_]
                · exact hlk
                · simp only [List.map_cons, List.map_nil, List.mem_singleton]
                  intro he2
                  exact hfresh (he2 ▸ lookupLast_some_fst_mem _ _ _ hlk)
              | inr h =>
                subst h
                refine ⟨t, ?_, ?_⟩
                · rw [← List.append_assoc]; exact lookupLast_append_single _ _ _
                · intro y hy hye
                  rw [hfa y hy _ hx hye]
                  exact hd
          · intro more hmore
            rw [semNear_cte]
            have hnm : near.name ∉ more.map (·.1) := by
              intro hmem
              simp only [List.mem_map] at hmem
              obtain ⟨e, he, hee⟩ := hmem
              apply hmore e he
              rw [hee]
              simp
            rw [lookupLast_append_of_notMem _ _ _ hnm, ← List.append_assoc, lookupLast_append_single]

/-- two containers processed one after the other (the two sides of a binary step) -/
theorem pair_sem (ctes : List (String × Table)) (cache : Option Cache) (l r : Near) (lc rc : Option (List String))
    (fl fr : Bool)
    (hbl : ∀ x ∈ bdesc l lc fl, x ∈ q.desc) (hbr : ∀ x ∈ bdesc r rc fr, x ∈ q.desc)
    (hncl : l.noCte = true) (hncr : r.noCte = true) (hnd : (l.names ++ r.names).Nodup)
    (hdis : ∀ n ∈ l.names ++ r.names, n ∉ ctes.map (·.1)) (hinv : Inv Θ ec env key q ctes cache)
    (ihl : ∀ ctes cache, (∀ n ∈ l.names, n ∉ ctes.map (·.1)) → Inv Θ ec env key q ctes cache →
      TWPost Θ ec env key q ctes cache l)
    (ihr : ∀ ctes cache, (∀ n ∈ r.names, n ∉ ctes.map (·.1)) → Inv Θ ec env key q ctes cache →
      TWPost Θ ec env key q ctes cache r) :
    (∃ extra, runSteps Θ ec env ctes (appendUnseen (stubStep key cache l lc fl (toWithFormG key cache l)).2.1
          (stubStep key (stubStep key cache l lc fl (toWithFormG key cache l)).2.2 r rc fr (toWithFormG key (stubStep key cache l lc fl (toWithFormG key cache l)).2.2 r)).2.1)
          = .ok (ctes ++ extra) ∧
        (∀ e ∈ extra, e.1 ∈ l.names ++ r.names) ∧
        Inv Θ ec env key q (ctes ++ extra)
          (stubStep key (stubStep key cache l lc fl (toWithFormG key cache l)).2.2 r rc fr (toWithFormG key (stubStep key cache l lc fl (toWithFormG key cache l)).2.2 r)).2.2 ∧
        semNear Θ ec env (ctes ++ extra) (stubStep key cache l lc fl (toWithFormG key cache l)).1 lc fl
          = semNear Θ ec env [] l lc fl ∧
        semNear Θ ec env (ctes ++ extra)
          (stubStep key (stubStep key cache l lc fl (toWithFormG key cache l)).2.2 r rc fr (toWithFormG key (stubStep key cache l lc fl (toWithFormG key cache l)).2.2 r)).1 rc fr
          = semNear Θ ec env [] r rc fr)
    ∨ (runSteps Θ ec env ctes (appendUnseen (stubStep key cache l lc fl (toWithFormG key cache l)).2.1
          (stubStep key (stubStep key cache l lc fl (toWithFormG key cache l)).2.2 r rc fr (toWithFormG key (stubStep key cache l lc fl (toWithFormG key cache l)).2.2 r)).2.1)
          = .error .other ∧
        (semNear Θ ec env [] l lc fl = .error .other ∨ semNear Θ ec env [] r rc fr = .error .other)) := by
  have hndl := (List.nodup_append.mp hnd).1
  have hndr := (List.nodup_append.mp hnd).2.1
  have hlr := (List.nodup_append.mp hnd).2.2
  have hdisl : ∀ n ∈ l.names, n ∉ ctes.map (·.1) := fun n hn => hdis n (List.mem_append_left _ hn)
  have hn1 := stubStep_names key l lc fl cache hndl (toWithFormG_names key l hndl cache)
  have hn2 := stubStep_names key r rc fr (stubStep key cache l lc fl (toWithFormG key cache l)).2.2 hndr
    (toWithFormG_names key r hndr _)
  rw [(pair_names _ _ _ _ hnd hn1 hn2).1]
  have STl := stub_sem Θ ec env key q ctes cache l lc fl hbl hncl hndl hdisl hinv (ihl ctes cache hdisl hinv)
  cases STl with
  | inr herr =>
    right
    refine ⟨?_, Or.inl herr.2⟩
    rw [runSteps_append, herr.1]; rfl
  | inl hok =>
    obtain ⟨extra1, hrun1, hnames1, hinv1, hsem1⟩ := hok
    have hdisr : ∀ n ∈ r.names, n ∉ (ctes ++ extra1).map (·.1) := by
      intro n hn
      simp only [List.map_append, List.mem_append, not_or]
      refine ⟨hdis n (List.mem_append_right _ hn), ?_⟩
      intro hmem
      simp only [List.mem_map] at hmem
      obtain ⟨e, he, hee⟩ := hmem
      exact hlr _ (hnames1 e he) n hn hee
    have STr := stub_sem Θ ec env key q (ctes ++ extra1) _ r rc fr hbr hncr hndr hdisr hinv1
      (ihr (ctes ++ extra1) _ hdisr hinv1)
    cases STr with
    | inr herr =>
      right
      refine ⟨?_, Or.inr herr.2⟩
      rw [runSteps_append, hrun1]
      exact herr.1
    | inl hok2 =>
      obtain ⟨extra2, hrun2, hnames2, hinv2, hsem2⟩ := hok2
      left
      refine ⟨extra1 ++ extra2, ?_, ?_, ?_, ?_, ?_⟩
      · rw [runSteps_append, hrun1, ← List.append_assoc]
        exact hrun2
      · intro e he
        simp only [List.mem_append] at he ⊢
        cases he with
        | inl h => exact Or.inl (hnames1 e h)
        | inr h => exact Or.inr (hnames2 e h)
      · rw [← List.append_assoc]; exact hinv2
      · rw [← List.append_assoc]
        exact hsem1 extra2 (fun e he => hdisr _ (hnames2 e he))
      · have := hsem2 [] (by simp)
        rw [List.append_nil] at this
        rw [← List.append_assoc]
        exact this

/-- **simulation**: `to_with_form` on a sub-tree of `q` -/
theorem tw_sem (near : Near) : (∀ x ∈ near.desc, x ∈ q.desc) → near.noCte = true → near.names.Nodup →
    ∀ ctes cache, (∀ n ∈ near.names, n ∉ ctes.map (·.1)) → Inv Θ ec env key q ctes cache →
      TWPost Θ ec env key q ctes cache near := by
  induction near with
  | table n ts =>
    intro _ _ _ ctes cache _ hinv
    left
    refine ⟨[], by simp [toWithFormG, runSteps_nil], by simp, by simpa [toWithFormG] using hinv, ?_⟩
    intro c f
    simp only [toWithFormG]
    exact semNear_table_ctes Θ ec env _ _ n ts c f
  | cte n => intro _ h; simp [Near.noCte] at h
  | unary name terms agg sub sc sf mg deps k ih =>
    intro hsub hnc hnd ctes cache hdis hinv
    simp only [Near.names, List.nodup_cons] at hnd
    simp only [Near.noCte] at hnc
    rw [desc_unary] at hsub
    have hdis' : ∀ n ∈ sub.names, n ∉ ctes.map (·.1) := fun n hn => hdis n (by simp [Near.names, hn])
    have hsub' : ∀ x ∈ sub.desc, x ∈ q.desc := fun x hx => hsub x (by simp [bdesc, hx])
    have ST := stub_sem Θ ec env key q ctes cache sub sc false hsub hnc hnd.2 hdis' hinv
      (ih hsub' hnc hnd.2 ctes cache hdis' hinv)
    obtain ⟨mg', deps', he⟩ := toWithFormG_unary key cache name terms agg sub sc sf mg deps k
    unfold TWPost
    rw [he]
    cases ST with
    | inr herr =>
      right
      exact ⟨herr.1, fun c f => semNear_unary_err Θ ec env _ _ _ _ _ _ _ _ _ _ _ _ herr.2⟩
    | inl hok =>
      obtain ⟨extra, hrun, hnames, hinv', hsem⟩ := hok
      left
      refine ⟨extra, hrun, by simpa [Near.names] using hnames, hinv', ?_⟩
      intro c f
      apply semNear_unary_congr
      have := hsem [] (by simp)
      rw [List.append_nil] at this
      exact this
  | join name terms l lc ln r rc rn jt oa ob k ihl ihr =>
    intro hsub hnc hnd ctes cache hdis hinv
    simp only [Near.names, List.nodup_cons] at hnd
    simp only [Near.noCte, Bool.and_eq_true] at hnc
    rw [desc_join] at hsub
    have hbl : ∀ x ∈ bdesc l (some lc) false, x ∈ q.desc := fun x hx => hsub x (List.mem_append_left _ hx)
    have hbr : ∀ x ∈ bdesc r (some rc) false, x ∈ q.desc := fun x hx => hsub x (List.mem_append_right _ hx)
    have hdis' : ∀ n ∈ l.names ++ r.names, n ∉ ctes.map (·.1) := fun n hn => hdis n (by simp only [Near.names]; exact List.mem_cons_of_mem _ hn)
    have P := pair_sem Θ ec env key q ctes cache l r (some lc) (some rc) false false hbl hbr hnc.1 hnc.2 hnd.2 hdis' hinv
      (fun ctes cache => ihl (fun x hx => hbl x (by simp [bdesc, hx])) hnc.1 (List.nodup_append.mp hnd.2).1 ctes cache)
      (fun ctes cache => ihr (fun x hx => hbr x (by simp [bdesc, hx])) hnc.2 (List.nodup_append.mp hnd.2).2.1 ctes cache)
    unfold TWPost
    rw [toWithFormG_join]
    cases P with
    | inr herr =>
      right
      exact ⟨herr.1, fun c f => semNear_join_err Θ ec env _ _ _ _ _ _ _ _ _ _ _ _ _ _ _ herr.2⟩
    | inl hok =>
      obtain ⟨extra, hrun, hnames, hinv', hs1, hs2⟩ := hok
      left
      refine ⟨extra, hrun, by simpa [Near.names] using hnames, hinv', ?_⟩
      intro c f
      exact semNear_join_congr Θ ec env _ _ _ _ _ _ _ _ _ _ _ _ _ _ _ _ _ _ _ _ _ _ _ hs1 hs2
  | union name terms l r cs k ihl ihr =>
    intro hsub hnc hnd ctes cache hdis hinv
    simp only [Near.names, List.nodup_cons] at hnd
    simp only [Near.noCte, Bool.and_eq_true] at hnc
    rw [desc_union] at hsub
    have hbl : ∀ x ∈ bdesc l (some cs) true, x ∈ q.desc := fun x hx => hsub x (List.mem_append_left _ hx)
    have hbr : ∀ x ∈ bdesc r (some cs) true, x ∈ q.desc := fun x hx => hsub x (List.mem_append_right _ hx)
    have hdis' : ∀ n ∈ l.names ++ r.names, n ∉ ctes.map (·.1) := fun n hn => hdis n (by simp only [Near.names]; exact List.mem_cons_of_mem _ hn)
    have P := pair_sem Θ ec env key q ctes cache l r (some cs) (some cs) true true hbl hbr hnc.1 hnc.2 hnd.2 hdis' hinv
      (fun ctes cache => ihl (fun x hx => hbl x (by simp [bdesc, hx])) hnc.1 (List.nodup_append.mp hnd.2).1 ctes cache)
      (fun ctes cache => ihr (fun x hx => hbr x (by simp [bdesc, hx])) hnc.2 (List.nodup_append.mp hnd.2).2.1 ctes cache)
    unfold TWPost
    rw [toWithFormG_union]
    cases P with
    | inr herr =>
      right
      exact ⟨herr.1, fun c f => semNear_union_err Θ ec env _ _ _ _ _ _ _ _ _ herr.2⟩
    | inl hok =>
      obtain ⟨extra, hrun, hnames, hinv', hs1, hs2⟩ := hok
      left
      refine ⟨extra, hrun, by simpa [Near.names] using hnames, hinv', ?_⟩
      intro c f
      exact semNear_union_congr Θ ec env _ _ _ _ _ _ _ _ _ _ _ _ _ _ _ hs1 hs2

/-- **soundness of the repaired WITH form**: semantic faithfulness of the key function suffices -/
theorem toWithFormG_sound (cache : Option Cache) (hc : cache = none ∨ (cache = some [] ∧ KeyFaith Θ ec env key q))
    (hnc : q.noCte = true) (hnd : q.names.Nodup) :
    semWith Θ ec env (toWithFormG key cache q).2.1 (toWithFormG key cache q).1 = semSql Θ ec env q := by
  have hinv : Inv Θ ec env key q [] cache := by
    cases hc with
    | inl h => subst h; trivial
    | inr h => obtain ⟨h1, h2⟩ := h; subst h1; exact ⟨h2, by simp⟩
  have T := tw_sem Θ ec env key q q (fun _ h => h) hnc hnd [] cache (by simp) hinv
  rw [semWith_eq]
  unfold semSql
  cases T with
  | inr herr => rw [herr.1, herr.2]; rfl
  | inl hok =>
    obtain ⟨extra, hrun, -, -, hsem⟩ := hok
    rw [hrun]
    exact hsem none true


end SoundFix
end DAVerif.Sql
