import DAVerif.Proofs.ExprPrint
/-!
(P) the parser maps the printed tokens of a well-formed term to `cst t` — lemmas about `Expr/Parse.lean`.

Fuel: every lemma has the form `∀ f, f ≥ bound → parser f … = .ok …` with `bound` linear in the number of tokens
of the phrase (`16·n + 16` for a phrase parsed at some level, `16·n + 4` for an atom with trailers), which is what
`parseToks` supplies (`fuelFor toks = 16·(|toks| + 1)`).
-/
namespace DAVerif.Expr

/-! ## unfolding the level function -/

/-- atom with trailers (what level 11 parses before looking for `**`) -/
def pPostfix (f : Nat) (toks : List Token) : E (Cst × List Token) := do
  let (a0, r0) ← pAtom f toks
  pTrailers f a0 r0

theorem pLevel_succ_11 (f : Nat) (toks : List Token) :
    pLevel (f + 1) 11 toks = (do
      let (a, r) ← pPostfix f toks
      match r with
      | t :: r' =>
        if t.isOp "**" then do
          let (b, r2) ← pLevel f 10 r'
          return (.node "power" [a, b], r2)
        else return (a, r)
      | [] => return (a, r)) := by
  rw [pLevel.eq_def]
  simp only [show (11 == 2) = false by decide, show (11 == 10) = false by decide, beq_self_eq_true,
    Bool.false_eq_true, ↓reduceIte, pPostfix, bind_assoc]
  rfl

theorem pLevel_succ_2 (f : Nat) (toks : List Token) :
    pLevel (f + 1) 2 toks =
      match toks with
      | t :: rest =>
        if t.isOp "not" then do
          let (x, r) ← pLevel f 2 rest
          return (.node "not" [x], r)
        else pLevel f 3 toks
      | [] => .error .syntax := by
  rw [pLevel.eq_def]
  simp only [beq_self_eq_true, ↓reduceIte]
  rfl

theorem pLevel_succ_10 (f : Nat) (toks : List Token) :
    pLevel (f + 1) 10 toks =
      match toks with
      | t :: rest =>
        if opIn t ["+", "-", "~"] then do
          let (x, r) ← pLevel f 10 rest
          return (.node "factor" [.tok t, x], r)
        else pLevel f 11 toks
      | [] => .error .syntax := by
  rw [pLevel.eq_def]
  simp only [show (10 == 2) = false by decide, beq_self_eq_true, Bool.false_eq_true, ↓reduceIte]
  rfl

theorem pLevel_succ_bin (f l : Nat) (rule : String) (toks : List Token) (h : binRule l = some rule) :
    pLevel (f + 1) l toks = (do
      let (first, r) ← pLevel f (l + 1) toks
      let (chs, r') ← pLoop f l [first] r
      if chs.length == 1 then return (first, r') else return (.node rule chs, r')) := by
  have h2 : (l == 2) = false := by
    cases hl : l == 2
    · rfl
    · have : l = 2 := by simpa using hl
      subst this; simp [binRule] at h
  have h10 : (l == 10) = false := by
    cases hl : l == 10
    · rfl
    · have : l = 10 := by simpa using hl
      subst this; simp [binRule] at h
  have h11 : (l == 11) = false := by
    cases hl : l == 11
    · rfl
    · have : l = 11 := by simpa using hl
      subst this; simp [binRule] at h
  rw [pLevel.eq_def]
  simp only [h2, h10, h11, Bool.false_eq_true, ↓reduceIte, h]

/-- the head token is an operator of level `l` (or could start a two-token one) -/
def headOp (l : Nat) (t : Token) : Bool :=
  match l with
  | 0 => t.isOp "or"
  | 1 => t.isOp "and"
  | 3 => opIn t ["<", ">", "==", ">=", "<=", "<>", "!=", "in"] || t.isOp "not" || t.isOp "is"
  | 4 => t.isOp "|"
  | 5 => t.isOp "^"
  | 6 => t.isOp "&"
  | 7 => opIn t ["<<", ">>"]
  | 8 => opIn t ["+", "-"]
  | 9 => opIn t ["*", "/", "%+%", "%?%", "%", "//", "%/%"]
  | _ => false

theorem matchOp_none_of_headOp {l : Nat} {t : Token} {rest : List Token} (h : headOp l t = false) :
    matchOp l (t :: rest) = none := by
  unfold matchOp
  unfold headOp at h
  split at h <;> simp_all

theorem matchOp_nil (l : Nat) : matchOp l [] = none := by simp [matchOp]


/-! ## closed phrases parse at every level -/

/-- the token after a phrase lets every level from `l` up to the atom stop -/
def stopTok (l : Nat) (t : Token) : Bool :=
  t.kind == .op && !(t.isOp "(") && !(t.isOp ".") && !(t.isOp "[") && !(t.isOp "**") &&
  (List.range 10).all (fun l' => l' < l || !headOp l' t)

def StopOk (l : Nat) : List Token → Prop
  | [] => True
  | t :: _ => stopTok l t = true

/-- a token that starts an atom_expr (so the `not` and factor levels pass it on) -/
def startTok (t : Token) : Bool := !(t.isOp "not") && !(opIn t ["+", "-", "~"])

theorem stopTok_mono {l l' : Nat} {t : Token} (h : stopTok l t = true) (hl : l ≤ l') : stopTok l' t = true := by
  unfold stopTok at h ⊢
  simp only [Bool.and_eq_true, List.all_eq_true, Bool.or_eq_true, decide_eq_true_eq] at h ⊢
  refine ⟨h.1, fun x hx => ?_⟩
  rcases h.2 x hx with h1 | h1
  · left; omega
  · right; exact h1

theorem StopOk_mono {l l' : Nat} {rest : List Token} (h : StopOk l rest) (hl : l ≤ l') : StopOk l' rest := by
  cases rest with
  | nil => trivial
  | cons t _ => exact stopTok_mono h hl

theorem StopOk_matchOp {l : Nat} {rest : List Token} (h : StopOk l rest) (hl : l < 10) : matchOp l rest = none := by
  cases rest with
  | nil => exact matchOp_nil l
  | cons t r =>
    apply matchOp_none_of_headOp
    unfold StopOk stopTok at h
    simp only [Bool.and_eq_true, List.all_eq_true, Bool.or_eq_true, decide_eq_true_eq] at h
    have := h.2 l (by simp [List.mem_range]; exact hl)
    rcases this with h1 | h1
    · omega
    · simpa using h1

theorem pLoop_stop {l : Nat} {rest : List Token} (h : matchOp l rest = none) (f : Nat) (acc : List Cst) :
    pLoop (f + 1) l acc rest = .ok (acc, rest) := by
  rw [pLoop.eq_def]
  simp only [h]

theorem binRule_cases (l : Nat) (hl : l ≤ 9) (h2 : l ≠ 2) : ∃ rule, binRule l = some rule := by
  have : l = 0 ∨ l = 1 ∨ l = 3 ∨ l = 4 ∨ l = 5 ∨ l = 6 ∨ l = 7 ∨ l = 8 ∨ l = 9 := by omega
  rcases this with rfl | rfl | rfl | rfl | rfl | rfl | rfl | rfl | rfl <;> exact ⟨_, rfl⟩

/-- from a phrase parsed at level `L`, every looser level parses the same phrase when the following token stops them -/
theorem descend {toks : List Token} {c : Cst} {rest : List Token} {b L : Nat} (hL : L ≤ 11)
    (hbase : ∀ f, f ≥ b → pLevel f L (toks ++ rest) = .ok (c, rest))
    (hstart : ∃ h tl, toks = h :: tl ∧ h.isOp "not" = false ∧ (L = 11 → opIn h ["+", "-", "~"] = false)) :
    ∀ (d l : Nat), l + d = L → StopOk l rest → ∀ f, f ≥ b + d → pLevel f l (toks ++ rest) = .ok (c, rest) := by
  obtain ⟨h, tl, rfl, hnot, hfac⟩ := hstart
  intro d
  induction d with
  | zero =>
    intro l hl _ f hf
    have : l = L := by omega
    subst this
    exact hbase f (by omega)
  | succ d ih =>
    intro l hl hstop f hf
    obtain ⟨f', rfl⟩ : ∃ f', f = f' + 1 := ⟨f - 1, by omega⟩
    have ih' := ih (l + 1) (by omega) (StopOk_mono hstop (by omega)) f' (by omega)
    by_cases h10 : l = 10
    · subst h10
      have : L = 11 := by omega
      rw [pLevel_succ_10]
      simp only [List.cons_append, hfac this, Bool.false_eq_true, ↓reduceIte]
      exact ih'
    · by_cases h2 : l = 2
      · subst h2
        rw [pLevel_succ_2]
        simp only [List.cons_append, hnot, Bool.false_eq_true, ↓reduceIte]
        exact ih'
      · obtain ⟨rule, hr⟩ := binRule_cases l (by omega) h2
        rw [pLevel_succ_bin f' l rule _ hr, ih']
        have hb1 : f' ≥ 1 := by
          cases f' with
          | zero => simp [pLevel] at ih'
          | succ n => omega
        obtain ⟨f'', rfl⟩ : ∃ f'', f' = f'' + 1 := ⟨f' - 1, by omega⟩
        simp only [ok_bind, pLoop_stop (StopOk_matchOp hstop (by omega)), List.length_cons, List.length_nil,
          Nat.zero_add, beq_self_eq_true, ↓reduceIte]
        rfl

theorem level11_of_postfix {toks : List Token} {c : Cst} {rest : List Token} {b : Nat}
    (hpost : ∀ f, f ≥ b → pPostfix f (toks ++ rest) = .ok (c, rest)) (hstop : StopOk 11 rest) :
    ∀ f, f ≥ b + 1 → pLevel f 11 (toks ++ rest) = .ok (c, rest) := by
  intro f hf
  obtain ⟨f', rfl⟩ : ∃ f', f = f' + 1 := ⟨f - 1, by omega⟩
  rw [pLevel_succ_11, hpost f' (by omega)]
  cases rest with
  | nil => rfl
  | cons t r =>
    unfold StopOk stopTok at hstop
    simp only [Bool.and_eq_true, Bool.not_eq_true'] at hstop
    simp [hstop.1.2]
    rfl

theorem closed_at_level {toks : List Token} {c : Cst} {rest : List Token} {b : Nat}
    (hpost : ∀ f, f ≥ b → pPostfix f (toks ++ rest) = .ok (c, rest))
    (hstart : ∃ h tl, toks = h :: tl ∧ startTok h = true) (l : Nat) (hl : l ≤ 11) (hstop : StopOk l rest) :
    ∀ f, f ≥ b + 12 → pLevel f l (toks ++ rest) = .ok (c, rest) := by
  intro f hf
  obtain ⟨h, tl, rfl, hst⟩ := hstart
  simp only [startTok, Bool.and_eq_true, Bool.not_eq_true'] at hst
  exact descend (Nat.le_refl 11) (level11_of_postfix hpost (StopOk_mono hstop hl))
    ⟨h, tl, rfl, hst.1, fun _ => hst.2⟩ (11 - l) l (by omega) hstop f (by omega)

/-! ## end tokens -/

def isEndTok (t : Token) : Bool := t.kind == .op && [")", ",", "]", "}", ":"].contains t.text

def EndOk : List Token → Prop
  | [] => True
  | t :: _ => isEndTok t = true

theorem stopTok_of_end {t : Token} (h : isEndTok t = true) (l : Nat) : stopTok l t = true := by
  obtain ⟨k, s⟩ := t
  simp only [isEndTok, Bool.and_eq_true, beq_iff_eq, List.contains_cons, List.contains_nil, Bool.or_false,
    Bool.or_eq_true] at h
  obtain ⟨rfl, hs⟩ := h
  apply stopTok_mono (l := 0) _ (Nat.zero_le l)
  rcases hs with rfl | rfl | rfl | rfl | rfl <;> decide

theorem StopOk_of_EndOk {rest : List Token} (h : EndOk rest) (l : Nat) : StopOk l rest := by
  cases rest with
  | nil => trivial
  | cons t _ => exact stopTok_of_end h l

theorem EndOk_closer {t : Token} {rest : List Token} (h : isCloser t = true) : EndOk (t :: rest) := by
  obtain ⟨k, s⟩ := t
  simp only [isCloser, opIn, Bool.and_eq_true, beq_iff_eq, List.contains_cons, List.contains_nil, Bool.or_false,
    Bool.or_eq_true] at h
  obtain ⟨rfl, hs⟩ := h
  rcases hs with rfl | rfl | rfl <;> (show isEndTok _ = true; decide)

/-! ## atoms, parentheses, trailers -/

/-- the token after an atom is no trailer opener (and, being an operator-kind token, no string to concatenate) -/
def trailTok (t : Token) : Bool := t.kind == .op && !(t.isOp "(") && !(t.isOp ".") && !(t.isOp "[")

def TrailOk : List Token → Prop
  | [] => True
  | t :: _ => trailTok t = true

theorem TrailOk_of_StopOk {l : Nat} {rest : List Token} (h : StopOk l rest) : TrailOk rest := by
  cases rest with
  | nil => trivial
  | cons t r =>
    unfold StopOk stopTok at h
    simp only [Bool.and_eq_true] at h
    simp only [TrailOk, trailTok, Bool.and_eq_true]
    exact ⟨⟨⟨h.1.1.1.1.1, h.1.1.1.1.2⟩, h.1.1.1.2⟩, h.1.1.2⟩

theorem pTrailers_stop {a : Cst} {rest : List Token} (h : TrailOk rest) (f : Nat) :
    pTrailers (f + 1) a rest = .ok (a, rest) := by
  rw [pTrailers.eq_def]
  cases rest with
  | nil => rfl
  | cons t r =>
    unfold TrailOk trailTok at h
    simp only [Bool.and_eq_true, Bool.not_eq_true'] at h
    simp [h.1.1.2, h.1.2, h.2]

/-- a parenthesised phrase is an atom: `( X )` with `X` parsed as a test -/
theorem pAtom_paren {X : List Token} {c : Cst} {b : Nat}
    (htest : ∀ f rest, f ≥ b → EndOk rest → pLevel f 0 (X ++ rest) = .ok (c, rest))
    (hhead : ∃ h tl, X = h :: tl ∧ h.isOp ")" = false) (rest : List Token) :
    ∀ f, f ≥ b + 2 → pAtom f (parenToks X ++ rest) = .ok (c, rest) := by
  intro f hf
  obtain ⟨h, tl, rfl, hh⟩ := hhead
  obtain ⟨f', rfl⟩ : ∃ f', f = f' + 2 := ⟨f - 2, by omega⟩
  have ht := htest f' (o ")" :: rest) (by omega) (show isEndTok _ = true by decide)
  rw [pAtom.eq_def]
  simp only [parenToks, List.cons_append, o, Token.op, beq_self_eq_true, show ("(" == "None") = false by decide,
    show ("(" == "True") = false by decide, show ("(" == "False") = false by decide, Bool.false_eq_true,
    ↓reduceIte, hh]
  rw [pItems.eq_def]
  simp only [List.cons_append, List.append_assoc, o, Token.op] at ht
  simp only [List.append_assoc, List.cons_append, List.nil_append, ht, ok_bind, Token.isOp, beq_self_eq_true,
    show ("," == ")") = false by decide, show (")" == ",") = false by decide, Bool.and_false, Bool.false_eq_true,
    ↓reduceIte, Bool.and_self, pure, Except.pure, expect]


/-! ## what is proved of every well-formed term -/

/-- printed with `want_inline_parens=False` and followed by an end token, the term parses as a `test` -/
def TestParses (t : Term) : Prop :=
  ∀ f rest, f ≥ 16 * (tk t false).length + 16 → EndOk rest → pLevel f 0 (tk t false ++ rest) = .ok (cst t, rest)

/-- printed with `want_inline_parens=True`, the term is an atom with trailers, whatever follows that is no trailer -/
def ClosedParses (t : Term) : Prop :=
  ∀ f rest, f ≥ 16 * (tk t true).length + 4 → TrailOk rest → pPostfix f (tk t true ++ rest) = .ok (cst t, rest)

/-- the first token of the phrase printed with `want = True` starts an atom -/
def ClosedHead (t : Term) : Prop :=
  ∃ h tl, tk t true = h :: tl ∧ startTok h = true ∧ isCloser h = false ∧ h.isOp "," = false

/-- the first token of the phrase printed with `want = False` -/
def TestHead (t : Term) : Prop :=
  ∃ h tl, tk t false = h :: tl ∧ isCloser h = false ∧ h.isOp "not" = false ∧ h.isOp "," = false

/-! ## comma-separated items -/

theorem commaToks_cons_cons (x y : List Token) (ys : List (List Token)) :
    commaToks (x :: y :: ys) = x ++ o "," :: commaToks (y :: ys) := by simp [commaToks]

theorem pItems_args : ∀ (ts : List Term), ts ≠ [] → (∀ t ∈ ts, TestParses t ∧ TestHead t) →
    ∀ (close : Token) (rest : List Token) (f : Nat), isCloser close = true →
      f ≥ 16 * (commaToks (tkArgs ts false)).length + 17 →
      pItems f (commaToks (tkArgs ts false) ++ close :: rest) = .ok (csts ts, false, close :: rest)
  | [], h, _, _, _, _, _, _ => absurd rfl h
  | [t], _, hall, close, rest, f, hc, hf => by
    obtain ⟨f', rfl⟩ : ∃ f', f = f' + 1 := ⟨f - 1, by omega⟩
    have ht := (hall t (by simp)).1
    simp only [tkArgs, commaToks] at hf ⊢
    rw [pItems.eq_def]
    simp only [ht f' (close :: rest) (by omega) (EndOk_closer hc), ok_bind]
    have hcomma : close.isOp "," = false := by
      obtain ⟨k, s⟩ := close
      simp only [isCloser, opIn, Bool.and_eq_true, beq_iff_eq, List.contains_cons, List.contains_nil, Bool.or_false,
        Bool.or_eq_true] at hc
      obtain ⟨rfl, hs⟩ := hc
      rcases hs with rfl | rfl | rfl <;> decide
    simp [hcomma, csts, pure, Except.pure]
  | t :: u :: us, _, hall, close, rest, f, hc, hf => by
    obtain ⟨f', rfl⟩ : ∃ f', f = f' + 1 := ⟨f - 1, by omega⟩
    have ht := (hall t (by simp)).1
    obtain ⟨h, tl, hu, hcl, _, _⟩ := (hall u (by simp)).2
    have ih := pItems_args (u :: us) (by simp) (fun x hx => hall x (by simp [hx])) close rest f' hc (by
      simp only [tkArgs, commaToks_cons_cons, List.length_append, List.length_cons] at hf ⊢
      omega)
    simp only [tkArgs, commaToks_cons_cons, List.append_assoc, List.cons_append] at hf ⊢
    rw [pItems.eq_def]
    have hend : EndOk (o "," :: (commaToks (tk u false :: tkArgs us false) ++ close :: rest)) := by
      show isEndTok _ = true; decide
    simp only [ht f' _ (by simp only [List.length_append, List.length_cons] at hf; omega) hend, ok_bind]
    obtain ⟨tl', hnext⟩ : ∃ tl', commaToks (tk u false :: tkArgs us false) ++ close :: rest = h :: tl' := by
      cases us with
      | nil => exact ⟨tl ++ close :: rest, by simp [commaToks, tkArgs, hu]⟩
      | cons v vs =>
        exact ⟨tl ++ o "," :: (commaToks (tk v false :: tkArgs vs false) ++ close :: rest),
          by simp [commaToks_cons_cons, tkArgs, hu]⟩
    simp only [tkArgs] at ih
    rw [hnext] at ih ⊢
    simp only [o, Token.op, Token.isOp, beq_self_eq_true, Bool.and_self, ↓reduceIte, hcl, Bool.false_eq_true, ih,
      ok_bind, csts, pure, Except.pure]


/-! ## operands of an inline operator -/

/-- `(op X)*`: the tokens after the first operand -/
def loopToks (op : String) : List Term → List Token
  | [] => []
  | t :: ts => o op :: tk t true ++ loopToks op ts

def loopCsts (keep : List Cst) : List Term → List Cst
  | [] => []
  | t :: ts => keep ++ cst t :: loopCsts keep ts

theorem opToks_eq (op : String) : ∀ (a : Term) (ts : List Term),
    opToks op (tkArgs (a :: ts) true) = tk a true ++ loopToks op ts
  | a, [] => by simp [tkArgs, opToks, loopToks]
  | a, b :: ts => by
    have := opToks_eq op b ts
    simp only [tkArgs] at this
    simp only [tkArgs, opToks, loopToks, this]
    simp

theorem loopCsts_nil : ∀ ts : List Term, loopCsts [] ts = csts ts
  | [] => rfl
  | t :: ts => by simp [loopCsts, csts, loopCsts_nil ts]

theorem loopCsts_tok (op : String) : ∀ ts : List Term, loopCsts [.tok (o op)] ts = tails op (csts ts)
  | [] => rfl
  | t :: ts => by simp [loopCsts, csts, tails, loopCsts_tok op ts]

theorem pLoop_operands {L : Nat} {op : String} {keep : List Cst} (hL : L ≤ 9)
    (hmatch : ∀ rest, matchOp L (o op :: rest) = some (keep, rest))
    (hstopop : stopTok (L + 1) (o op) = true) :
    ∀ (ts : List Term), (∀ t ∈ ts, ClosedParses t ∧ ClosedHead t) → ∀ (acc : List Cst) (rest : List Token) (f : Nat),
      StopOk L rest → f ≥ 16 * (loopToks op ts).length + 1 →
      pLoop f L acc (loopToks op ts ++ rest) = .ok (acc ++ loopCsts keep ts, rest)
  | [], _, acc, rest, f, hstop, hf => by
    obtain ⟨f', rfl⟩ : ∃ f', f = f' + 1 := ⟨f - 1, by omega⟩
    simp [loopToks, loopCsts, pLoop_stop (StopOk_matchOp hstop (by omega))]
  | t :: ts, hall, acc, rest, f, hstop, hf => by
    obtain ⟨f', rfl⟩ : ∃ f', f = f' + 1 := ⟨f - 1, by omega⟩
    obtain ⟨hcl, hhd⟩ := hall t (by simp)
    obtain ⟨h, tl, hh, hst, _⟩ := hhd
    simp only [loopToks, List.length_cons, List.length_append] at hf
    have hnext : StopOk (L + 1) (loopToks op ts ++ rest) := by
      cases ts with
      | nil => simpa [loopToks] using StopOk_mono hstop (Nat.le_succ L)
      | cons u us => simp only [loopToks, List.cons_append]; exact hstopop
    have hx := closed_at_level (b := 16 * (tk t true).length + 4) (c := cst t)
      (toks := tk t true) (rest := loopToks op ts ++ rest)
      (fun g hg => hcl g _ hg (TrailOk_of_StopOk hnext)) ⟨h, tl, hh, hst⟩ (L + 1) (by omega) hnext f' (by omega)
    have ih := pLoop_operands hL hmatch hstopop ts (fun x hx => hall x (by simp [hx])) (acc ++ (keep ++ [cst t])) rest
      f' hstop (by omega)
    rw [pLoop.eq_def]
    simp only [loopToks, List.cons_append, List.append_assoc, hmatch, hx, ok_bind, loopCsts, List.cons_append,
      List.nil_append]
    simp only [List.append_assoc] at ih
    rw [ih]
    simp

/-- `X1 op X2 op … Xk` (k ≥ 2) at the level of `op` -/
theorem inline_level {L : Nat} {op rule : String} {keep : List Cst} (hL : L ≤ 9) (hrule : binRule L = some rule)
    (hmatch : ∀ rest, matchOp L (o op :: rest) = some (keep, rest))
    (hstopop : stopTok (L + 1) (o op) = true)
    (a b : Term) (ts : List Term) (hall : ∀ t ∈ a :: b :: ts, ClosedParses t ∧ ClosedHead t)
    (rest : List Token) (hend : EndOk rest) :
    ∀ f, f ≥ 16 * (tk a true ++ loopToks op (b :: ts)).length + 6 →
      pLevel f L (tk a true ++ loopToks op (b :: ts) ++ rest) = .ok (.node rule (cst a :: loopCsts keep (b :: ts)), rest) := by
  intro f hf
  obtain ⟨f', rfl⟩ : ∃ f', f = f' + 1 := ⟨f - 1, by omega⟩
  obtain ⟨hcl, h, tl, hh, hst, _⟩ := hall a (by simp)
  have hlen : (loopToks op (b :: ts)).length ≥ 2 := by
    obtain ⟨_, hb, tlb, hhb, _, _⟩ := hall b (by simp)
    simp [loopToks, hhb]
  simp only [List.length_append] at hf
  have hnext : StopOk (L + 1) (loopToks op (b :: ts) ++ rest) := by
    simp only [loopToks, List.cons_append]; exact hstopop
  have hx := closed_at_level (b := 16 * (tk a true).length + 4) (c := cst a)
    (toks := tk a true) (rest := loopToks op (b :: ts) ++ rest)
    (fun g hg => hcl g _ hg (TrailOk_of_StopOk hnext)) ⟨h, tl, hh, hst⟩ (L + 1) (by omega) hnext f' (by omega)
  have hloop := pLoop_operands hL hmatch hstopop (b :: ts) (fun x hx => hall x (by simp [hx])) [cst a] rest f'
    (StopOk_of_EndOk hend L) (by omega)
  rw [pLevel_succ_bin f' L rule _ hrule]
  simp only [List.append_assoc, hx, ok_bind, hloop]
  have : loopCsts keep (b :: ts) ≠ [] := by simp [loopCsts]
  simp [this, pure, Except.pure]


/-! ## dictionary entries -/

theorem tk_value_false (l : Lit) : tk (.value l) false = litToks l := by simp [tk]
theorem cst_value (l : Lit) : cst (.value l) = litCst l := by simp [cst]

theorem pKVs_items : ∀ (kvs : List (Lit × Lit)), kvs ≠ [] →
    (∀ kv ∈ kvs, (TestParses (.value kv.1) ∧ TestHead (.value kv.1)) ∧ TestParses (.value kv.2)) →
    ∀ (rest : List Token) (f : Nat), f ≥ 16 * (commaToks (kvs.map kvToks)).length + 17 →
      pKVs f (commaToks (kvs.map kvToks) ++ o "}" :: rest)
        = .ok (kvs.map (fun kv => Cst.node "key_value" [litCst kv.1, litCst kv.2]), o "}" :: rest)
  | [], h, _, _, _, _ => absurd rfl h
  | [kv], _, hall, rest, f, hf => by
    obtain ⟨f', rfl⟩ : ∃ f', f = f' + 1 := ⟨f - 1, by omega⟩
    obtain ⟨⟨hk, _⟩, hv⟩ := hall kv (by simp)
    simp only [List.map_cons, List.map_nil, commaToks, kvToks, List.length_append, List.length_cons] at hf ⊢
    have h1 := hk f' (o ":" :: (litToks kv.2 ++ o "}" :: rest)) (by rw [tk_value_false]; omega)
      (show isEndTok _ = true by decide)
    have h2 := hv f' (o "}" :: rest) (by rw [tk_value_false]; omega) (show isEndTok _ = true by decide)
    rw [tk_value_false, cst_value] at h1 h2
    simp only [o, Token.op] at h1 h2
    rw [pKVs.eq_def]
    simp only [List.append_assoc, List.cons_append, o, Token.op, h1, ok_bind, expect, Token.isOp, beq_self_eq_true,
      Bool.and_self, ↓reduceIte]
    simp [h2, pure, Except.pure]
  | kv :: kv2 :: kvs, _, hall, rest, f, hf => by
    obtain ⟨f', rfl⟩ : ∃ f', f = f' + 1 := ⟨f - 1, by omega⟩
    obtain ⟨⟨hk, _⟩, hv⟩ := hall kv (by simp)
    obtain ⟨⟨_, h, tl, hu, hcl, _, _⟩, _⟩ := hall kv2 (by simp)
    rw [tk_value_false] at hu
    have hlen : (commaToks (List.map kvToks (kv :: kv2 :: kvs))).length
        = (litToks kv.1).length + 1 + (litToks kv.2).length + 1 + (commaToks (List.map kvToks (kv2 :: kvs))).length := by
      simp only [List.map_cons, commaToks_cons_cons, kvToks, List.length_append, List.length_cons]; omega
    have ih := pKVs_items (kv2 :: kvs) (by simp) (fun x hx => hall x (by simp [hx])) rest f' (by omega)
    obtain ⟨R, hR⟩ : ∃ R, R = commaToks (List.map kvToks (kv2 :: kvs)) ++ o "}" :: rest := ⟨_, rfl⟩
    rw [← hR] at ih
    have h1 := hk f' (o ":" :: (litToks kv.2 ++ o "," :: R)) (by rw [tk_value_false]; omega)
      (show isEndTok _ = true by decide)
    have h2 := hv f' (o "," :: R) (by rw [tk_value_false]; omega) (show isEndTok _ = true by decide)
    rw [tk_value_false, cst_value] at h1 h2
    obtain ⟨tl', hnext⟩ : ∃ tl', R = h :: tl' := by
      rw [hR]
      cases kvs with
      | nil => exact ⟨tl ++ o ":" :: litToks kv2.2 ++ o "}" :: rest, by simp [commaToks, kvToks, hu]⟩
      | cons v vs =>
        exact ⟨tl ++ o ":" :: litToks kv2.2 ++ o "," :: (commaToks (kvToks v :: List.map kvToks vs) ++ o "}" :: rest),
          by simp [commaToks_cons_cons, kvToks, hu]⟩
    have htoks : commaToks (List.map kvToks (kv :: kv2 :: kvs)) ++ o "}" :: rest
        = litToks kv.1 ++ o ":" :: (litToks kv.2 ++ o "," :: R) := by
      simp only [List.map_cons, commaToks_cons_cons, kvToks, hR, List.append_assoc, List.cons_append]
    rw [htoks, pKVs.eq_def]
    rw [hnext] at ih h1 h2 ⊢
    simp only [o, Token.op] at h1 h2
    simp only [o, Token.op, h1, ok_bind, expect, Token.isOp, beq_self_eq_true, Bool.and_self, ↓reduceIte, h2, hcl,
      Bool.false_eq_true, ih, List.map_cons, pure, Except.pure]


/-! ## literals -/

theorem takeWhile_string_of_TrailOk {rest : List Token} (h : TrailOk rest) :
    rest.takeWhile isStringTok = [] ∧ rest.dropWhile isStringTok = rest := by
  cases rest with
  | nil => simp
  | cons t r =>
    unfold TrailOk trailTok at h
    simp only [Bool.and_eq_true, beq_iff_eq] at h
    have : isStringTok t = false := by simp [isStringTok, h.1.1.1]
    simp [List.takeWhile, List.dropWhile, this]

/-- a number token is an atom -/
theorem pAtom_num (nt : Token) (hk : nt.kind = .dec ∨ nt.kind = .float) (rest : List Token) (f : Nat) :
    pAtom (f + 1) (nt :: rest) = .ok (.node "number" [.tok nt], rest) := by
  rw [pAtom.eq_def]
  rcases hk with hk | hk <;> simp [hk]

theorem pPostfix_num (nt : Token) (hk : nt.kind = .dec ∨ nt.kind = .float) (rest : List Token) (htr : TrailOk rest)
    (f : Nat) (hf : f ≥ 1) : pPostfix f ([nt] ++ rest) = .ok (.node "number" [.tok nt], rest) := by
  obtain ⟨f', rfl⟩ : ∃ f', f = f' + 1 := ⟨f - 1, by omega⟩
  simp [pPostfix, pAtom_num nt hk, pTrailers_stop htr]

theorem startTok_num (nt : Token) (hk : nt.kind = .dec ∨ nt.kind = .float) : startTok nt = true := by
  rcases hk with hk | hk <;> simp [startTok, Token.isOp, opIn, hk]

/-- `- number` is a factor, parsed as a test when an end token follows -/
theorem neg_num_test (nt : Token) (hk : nt.kind = .dec ∨ nt.kind = .float) (rest : List Token) (hend : EndOk rest) :
    ∀ f, f ≥ 40 → pLevel f 0 ([o "-", nt] ++ rest) = .ok (.node "factor" [.tok (o "-"), .node "number" [.tok nt]], rest) := by
  have hbase : ∀ f, f ≥ 24 → pLevel f 10 ([o "-", nt] ++ rest)
      = .ok (.node "factor" [.tok (o "-"), .node "number" [.tok nt]], rest) := by
    intro f hf
    obtain ⟨f', rfl⟩ : ∃ f', f = f' + 1 := ⟨f - 1, by omega⟩
    have hx := closed_at_level (b := 1) (toks := [nt]) (rest := rest) (c := .node "number" [.tok nt])
      (fun g hg => pPostfix_num nt hk rest (TrailOk_of_StopOk (StopOk_of_EndOk hend 11)) g hg)
      ⟨nt, [], rfl, startTok_num nt hk⟩ 10 (by omega) (StopOk_of_EndOk hend 10) f' (by omega)
    rw [pLevel_succ_10]
    simp only [List.cons_append, List.nil_append, show opIn (o "-") ["+", "-", "~"] = true by decide, ↓reduceIte]
    simp only [List.cons_append, List.nil_append] at hx
    simp [hx, pure, Except.pure]
  intro f hf
  exact descend (L := 10) (by omega) hbase ⟨o "-", [nt], rfl, by decide, by omega⟩ 10 0 (by omega)
    (StopOk_of_EndOk hend 0) f (by omega)

theorem pAtom_lit (l : Lit) (hneg : isNegNum l = false) (hok : litOk l = true) (rest : List Token)
    (htr : TrailOk rest) (f : Nat) : pAtom (f + 1) (litToks l ++ rest) = .ok (litCst l, rest) := by
  obtain ⟨htw, hdw⟩ := takeWhile_string_of_TrailOk htr
  cases l with
  | none => rw [pAtom.eq_def]; simp [litToks, litCst, o, Token.op]
  | bool b => cases b <;> (rw [pAtom.eq_def]; simp [litToks, litCst, o, Token.op])
  | int i =>
    have : ¬ i < 0 := by simpa [isNegNum] using hneg
    simp only [litToks, litCst, this, ↓reduceIte, List.cons_append, List.nil_append]
    exact pAtom_num _ (Or.inl rfl) rest f
  | flt q =>
    have : ¬ q < 0 := by simpa [isNegNum] using hneg
    simp only [litToks, litCst, this, ↓reduceIte, List.cons_append, List.nil_append]
    exact pAtom_num _ (Or.inr rfl) rest f
  | str s => rw [pAtom.eq_def]; simp [litToks, litCst, htw, hdw]
  | nan => simp [litOk] at hok
  | inf => simp [litOk] at hok
  | ninf => simp [litOk] at hok

theorem litToks_single (l : Lit) (hneg : isNegNum l = false) :
    ∃ t, litToks l = [t] ∧ startTok t = true ∧ isCloser t = false ∧ t.isOp "," = false := by
  cases l with
  | none => exact ⟨_, rfl, by decide, by decide, by decide⟩
  | bool b => cases b <;> exact ⟨_, rfl, by decide, by decide, by decide⟩
  | int i =>
    have : ¬ i < 0 := by simpa [isNegNum] using hneg
    simp only [litToks, this, ↓reduceIte]
    exact ⟨_, rfl, by simp [startTok, Token.isOp, opIn], by simp [isCloser, opIn], by simp [Token.isOp]⟩
  | flt q =>
    have : ¬ q < 0 := by simpa [isNegNum] using hneg
    simp only [litToks, this, ↓reduceIte]
    exact ⟨_, rfl, by simp [startTok, Token.isOp, opIn], by simp [isCloser, opIn], by simp [Token.isOp]⟩
  | str s => exact ⟨_, rfl, by simp [startTok, Token.isOp, opIn], by simp [isCloser, opIn], by simp [Token.isOp]⟩
  | nan => exact ⟨_, rfl, by simp [startTok, Token.isOp, opIn, Token.nm], by simp [isCloser, opIn, Token.nm],
      by simp [Token.isOp, Token.nm]⟩
  | inf => exact ⟨_, rfl, by simp [startTok, Token.isOp, opIn, Token.nm], by simp [isCloser, opIn, Token.nm],
      by simp [Token.isOp, Token.nm]⟩
  | ninf => simp [isNegNum] at hneg

/-- a negative number literal is `-` followed by one number token, and its tree is the factor -/
theorem litToks_neg (l : Lit) (hneg : isNegNum l = true) (hok : litOk l = true) :
    ∃ nt, (nt.kind = .dec ∨ nt.kind = .float) ∧ litToks l = [o "-", nt] ∧
      litCst l = .node "factor" [.tok (o "-"), .node "number" [.tok nt]] := by
  cases l with
  | int i =>
    have : i < 0 := by simpa [isNegNum] using hneg
    exact ⟨⟨.dec, reprInt (-i)⟩, Or.inl rfl, by simp [litToks, this], by simp [litCst, this]⟩
  | flt q =>
    have : q < 0 := by simpa [isNegNum] using hneg
    exact ⟨⟨.float, reprFloat (-q)⟩, Or.inr rfl, by simp [litToks, this], by simp [litCst, this]⟩
  | ninf => simp [litOk] at hok
  | none => simp [isNegNum] at hneg
  | bool b => simp [isNegNum] at hneg
  | str s => simp [isNegNum] at hneg
  | nan => simp [isNegNum] at hneg
  | inf => simp [isNegNum] at hneg


/-! ## generic phrase lemmas -/

/-- a phrase printed the same with and without `want` that is an atom with trailers parses as a test -/
theorem test_of_closed {t : Term} (heq : tk t false = tk t true) (hc : ClosedParses t) (hh : ClosedHead t) :
    TestParses t ∧ TestHead t := by
  obtain ⟨h, tl, hh1, hst, hcl, hcomma⟩ := hh
  refine ⟨?_, ⟨h, tl, by rw [heq, hh1], hcl, ?_, hcomma⟩⟩
  · intro f rest hf hend
    rw [heq] at hf ⊢
    exact closed_at_level (b := 16 * (tk t true).length + 4)
      (fun g hg => hc g rest hg (TrailOk_of_StopOk (StopOk_of_EndOk hend 11))) ⟨h, tl, hh1, hst⟩ 0 (by omega)
      (StopOk_of_EndOk hend 0) f (by omega)
  · simp only [startTok, Bool.and_eq_true, Bool.not_eq_true'] at hst; exact hst.1

/-- a phrase that is parenthesised when `want` is an atom -/
theorem closed_of_paren {t : Term} (heq : tk t true = parenToks (tk t false)) (ht : TestParses t) (hh : TestHead t) :
    ClosedParses t ∧ ClosedHead t := by
  obtain ⟨h, tl, hh1, hcl, _, _⟩ := hh
  refine ⟨?_, ⟨o "(", tk t false ++ [o ")"], by rw [heq]; rfl, by decide, by decide, by decide⟩⟩
  intro f rest hf htr
  rw [heq] at hf ⊢
  simp only [parenToks, List.length_cons, List.length_append, List.length_nil] at hf
  obtain ⟨f', rfl⟩ : ∃ f', f = f' + 1 := ⟨f - 1, by omega⟩
  have hclose : h.isOp ")" = false := by
    obtain ⟨k, s⟩ := h
    simp only [isCloser, opIn, Token.isOp] at hcl ⊢
    cases k <;> simp_all
  have := pAtom_paren (X := tk t false) (c := cst t) (b := 16 * (tk t false).length + 16)
    (fun g r hg he => ht g r hg he) ⟨h, tl, hh1, hclose⟩ rest (f' + 1) (by omega)
  simp only [pPostfix, this, ok_bind, pTrailers_stop htr]

/-! ## call trailers -/

theorem pTrailers_call0 (a : Cst) (rest : List Token) (htr : TrailOk rest) (f : Nat) :
    pTrailers (f + 2) a (o "(" :: o ")" :: rest) = .ok (.node "funccall" [a, .none], rest) := by
  rw [pTrailers.eq_def]
  simp only [o, Token.op, Token.isOp, beq_self_eq_true, Bool.and_self, ↓reduceIte]
  exact pTrailers_stop htr f

theorem pTrailers_attr (a : Cst) (name : String) (more : List Token) (f : Nat) :
    pTrailers (f + 1) a (o "." :: Token.nm name :: more) = pTrailers f (.node "getattr" [a, .tok (Token.nm name)]) more := by
  rw [pTrailers.eq_def]
  simp [o, Token.op, Token.isOp, Token.nm]

theorem pTrailers_callN (a : Cst) (ts : List Term) (hne : ts ≠ []) (hall : ∀ t ∈ ts, TestParses t ∧ TestHead t)
    (rest : List Token) (htr : TrailOk rest) (f : Nat) (hf : f ≥ 16 * (commaToks (tkArgs ts false)).length + 19) :
    pTrailers f a (o "(" :: (commaToks (tkArgs ts false) ++ o ")" :: rest))
      = .ok (.node "funccall" [a, .node "arguments" (csts ts)], rest) := by
  obtain ⟨f', rfl⟩ : ∃ f', f = f' + 2 := ⟨f - 2, by omega⟩
  have hit := pItems_args ts hne hall (o ")") rest (f' + 1) (by decide) (by omega)
  obtain ⟨h, tl', hhead, hcl⟩ : ∃ h tl', commaToks (tkArgs ts false) ++ o ")" :: rest = h :: tl' ∧ h.isOp ")" = false := by
    match ts, hne, hall with
    | [t], _, hall =>
      obtain ⟨_, h, tl, hu, hcl, _, _⟩ := hall t (by simp)
      refine ⟨h, tl ++ o ")" :: rest, by simp [tkArgs, commaToks, hu], ?_⟩
      obtain ⟨k, s⟩ := h
      simp only [isCloser, opIn, Token.isOp] at hcl ⊢
      cases k <;> simp_all
    | t :: u :: us, _, hall =>
      obtain ⟨_, h, tl, hu, hcl, _, _⟩ := hall t (by simp)
      refine ⟨h, tl ++ o "," :: (commaToks (tkArgs (u :: us) false) ++ o ")" :: rest),
        by simp [tkArgs, commaToks_cons_cons, hu], ?_⟩
      obtain ⟨k, s⟩ := h
      simp only [isCloser, opIn, Token.isOp] at hcl ⊢
      cases k <;> simp_all
  rw [pTrailers.eq_def]
  rw [hhead] at hit ⊢
  simp only [o, Token.op, Token.isOp, beq_self_eq_true, Bool.and_self, ↓reduceIte]
  simp only [Token.isOp] at hcl
  simp only [hcl, Bool.false_eq_true, ↓reduceIte, hit, ok_bind, expect, o, Token.op, Token.isOp, beq_self_eq_true,
    Bool.and_self, List.append_nil]
  exact pTrailers_stop htr f'


/-! ## the main induction -/

def Parses (t : Term) : Prop := (TestParses t ∧ ClosedParses t) ∧ (TestHead t ∧ ClosedHead t)

theorem parses_value (l : Lit) (hok : litOk l = true) : Parses (.value l) := by
  by_cases hneg : isNegNum l = true
  · obtain ⟨nt, hk, htoks, hcst⟩ := litToks_neg l hneg hok
    have htk : tk (.value l) false = [o "-", nt] := by rw [tk_value_false, htoks]
    have htest : TestParses (.value l) := by
      intro f rest hf hend
      rw [htk] at hf ⊢
      rw [cst_value, hcst]
      exact neg_num_test nt hk rest hend f (by simp at hf; omega)
    have hhead : TestHead (.value l) := ⟨o "-", [nt], htk, by decide, by decide, by decide⟩
    have hparen : tk (.value l) true = parenToks (tk (.value l) false) := by simp [tk, hneg]
    obtain ⟨hc, hch⟩ := closed_of_paren hparen htest hhead
    exact ⟨⟨htest, hc⟩, hhead, hch⟩
  · have hneg' : isNegNum l = false := by simpa using hneg
    obtain ⟨tok, htoks, hst, hcl, hcomma⟩ := litToks_single l hneg'
    have htk : tk (.value l) true = litToks l := by simp [tk, hneg']
    have hc : ClosedParses (.value l) := by
      intro f rest hf htr
      obtain ⟨f', rfl⟩ : ∃ f', f = f' + 1 := ⟨f - 1, by omega⟩
      rw [htk, cst_value]
      simp only [pPostfix, pAtom_lit l hneg' hok rest htr f', ok_bind, pTrailers_stop htr]
    have hch : ClosedHead (.value l) := ⟨tok, [], by rw [htk, htoks], hst, hcl, hcomma⟩
    obtain ⟨ht, hth⟩ := test_of_closed (by rw [htk, tk_value_false]) hc hch
    exact ⟨⟨ht, hc⟩, hth, hch⟩

theorem parses_col (c : String) : Parses (.col c) := by
  have hc : ClosedParses (.col c) := by
    intro f rest hf htr
    obtain ⟨f', rfl⟩ : ∃ f', f = f' + 1 := ⟨f - 1, by omega⟩
    simp only [tk, cst, pPostfix, List.cons_append, List.nil_append]
    rw [pAtom.eq_def]
    simp [Token.nm, pTrailers_stop htr]
  have hch : ClosedHead (.col c) :=
    ⟨Token.nm c, [], by simp [tk], by simp [startTok, Token.isOp, opIn, Token.nm], by simp [isCloser, opIn, Token.nm],
      by simp [Token.isOp, Token.nm]⟩
  obtain ⟨ht, hth⟩ := test_of_closed (by simp [tk]) hc hch
  exact ⟨⟨ht, hc⟩, hth, hch⟩

theorem tkArgs_values (vs : List Lit) : tkArgs (vs.map Term.value) false = vs.map litToks := by
  induction vs with
  | nil => rfl
  | cons v vs ih => simp [tkArgs, tk_value_false, ih]

theorem csts_values (vs : List Lit) : csts (vs.map Term.value) = vs.map litCst := by
  induction vs with
  | nil => rfl
  | cons v vs ih => simp [csts, cst_value, ih]

theorem not_close_of_not_closer {h : Token} (s : String) (hs : s = ")" ∨ s = "]" ∨ s = "}")
    (hcl : isCloser h = false) : h.isOp s = false := by
  obtain ⟨k, t⟩ := h
  simp only [isCloser, opIn, Token.isOp] at hcl ⊢
  rcases hs with rfl | rfl | rfl <;> cases k <;> simp_all

theorem parses_list (vs : List Lit) (hne : vs ≠ []) (hall : vs.all litOk = true) : Parses (.list vs) := by
  have hitems : ∀ t ∈ vs.map Term.value, TestParses t ∧ TestHead t := by
    intro t ht
    simp only [List.mem_map] at ht
    obtain ⟨l, hl, rfl⟩ := ht
    have := parses_value l (by rw [List.all_eq_true] at hall; exact hall l hl)
    exact ⟨this.1.1, this.2.1⟩
  have hc : ClosedParses (.list vs) := by
    intro f rest hf htr
    simp only [tk, List.length_cons, List.length_append, List.length_nil] at hf
    obtain ⟨f', rfl⟩ : ∃ f', f = f' + 2 := ⟨f - 2, by omega⟩
    have hit := pItems_args (vs.map Term.value) (by simpa using hne) hitems (o "]") rest (f' + 1) (by decide)
      (by rw [tkArgs_values]; omega)
    rw [tkArgs_values, csts_values] at hit
    obtain ⟨h, tl', hhead, hcl⟩ : ∃ h tl', commaToks (vs.map litToks) ++ o "]" :: rest = h :: tl' ∧ h.isOp "]" = false := by
      match vs, hne, hitems with
      | [v], _, hitems =>
        obtain ⟨_, h, tl, hu, hcl, _, _⟩ := hitems (.value v) (by simp)
        rw [tk_value_false] at hu
        exact ⟨h, tl ++ o "]" :: rest, by simp [commaToks, hu], not_close_of_not_closer "]" (by simp) hcl⟩
      | v :: w :: ws, _, hitems =>
        obtain ⟨_, h, tl, hu, hcl, _, _⟩ := hitems (.value v) (by simp)
        rw [tk_value_false] at hu
        exact ⟨h, tl ++ o "," :: (commaToks (List.map litToks (w :: ws)) ++ o "]" :: rest),
          by simp [commaToks_cons_cons, hu], not_close_of_not_closer "]" (by simp) hcl⟩
    simp only [tk, pPostfix, List.cons_append, List.append_assoc, List.nil_append]
    rw [pAtom.eq_def]
    rw [hhead] at hit ⊢
    simp only [Token.isOp] at hcl
    simp only [o, Token.op, show ("[" == "None") = false by decide, show ("[" == "True") = false by decide,
      show ("[" == "False") = false by decide, show ("[" == "(") = false by decide, beq_self_eq_true,
      Bool.false_eq_true, ↓reduceIte, Token.isOp, Bool.and_self, hcl, hit, ok_bind, expect]
    match vs, hne with
    | [v], _ => simp [cst, pure, Except.pure, pTrailers_stop htr]
    | v :: w :: ws, _ => simp [cst, pure, Except.pure, pTrailers_stop htr]
  have hch : ClosedHead (.list vs) := ⟨o "[", _, by simp [tk]; rfl, by decide, by decide, by decide⟩
  obtain ⟨ht, hth⟩ := test_of_closed (by simp [tk]) hc hch
  exact ⟨⟨ht, hc⟩, hth, hch⟩


theorem parses_dict (kvs : List (Lit × Lit)) (hne : kvs ≠ [])
    (hall : kvs.all (fun kv => litOk kv.1 && litOk kv.2) = true) : Parses (.dict kvs) := by
  have hitems : ∀ kv ∈ kvs, (TestParses (.value kv.1) ∧ TestHead (.value kv.1)) ∧ TestParses (.value kv.2) := by
    intro kv hkv
    rw [List.all_eq_true] at hall
    have := hall kv hkv
    simp only [Bool.and_eq_true] at this
    have h1 := parses_value kv.1 this.1
    have h2 := parses_value kv.2 this.2
    exact ⟨⟨h1.1.1, h1.2.1⟩, h2.1.1⟩
  have hc : ClosedParses (.dict kvs) := by
    intro f rest hf htr
    simp only [tk, List.length_cons, List.length_append, List.length_nil] at hf
    obtain ⟨f', rfl⟩ : ∃ f', f = f' + 2 := ⟨f - 2, by omega⟩
    have hkv := pKVs_items kvs hne hitems rest (f' + 1) (by omega)
    obtain ⟨kv, kvs', rfl⟩ : ∃ kv kvs', kvs = kv :: kvs' := by
      cases kvs with
      | nil => exact absurd rfl hne
      | cons kv kvs' => exact ⟨kv, kvs', rfl⟩
    obtain ⟨⟨hk, h, tl, hu, hcl, _, _⟩, _⟩ := hitems kv (by simp)
    rw [tk_value_false] at hu
    obtain ⟨R, hR⟩ : ∃ R, commaToks (List.map kvToks (kv :: kvs')) ++ o "}" :: rest = litToks kv.1 ++ o ":" :: R := by
      cases kvs' with
      | nil => exact ⟨litToks kv.2 ++ o "}" :: rest, by simp [commaToks, kvToks]⟩
      | cons kv2 kvs'' =>
        exact ⟨litToks kv.2 ++ o "," :: (commaToks (List.map kvToks (kv2 :: kvs'')) ++ o "}" :: rest),
          by simp [commaToks_cons_cons, kvToks]⟩
    have hprobe := hk (f' + 1) (o ":" :: R) (by
      rw [tk_value_false]
      have : (commaToks (List.map kvToks (kv :: kvs'))).length ≥ (litToks kv.1).length := by
        cases kvs' with
        | nil => simp [commaToks, kvToks]
        | cons kv2 kvs'' => simp only [List.map_cons, commaToks_cons_cons, kvToks, List.length_append]; omega
      omega) (show isEndTok _ = true by decide)
    rw [tk_value_false, cst_value] at hprobe
    simp only [tk, pPostfix, List.cons_append, List.append_assoc, List.nil_append]
    rw [pAtom.eq_def]
    rw [hR] at hkv ⊢
    have hcl' := not_close_of_not_closer "}" (by simp) hcl
    simp only [Token.isOp] at hcl'
    simp only [hu, List.cons_append] at hkv hprobe ⊢
    simp only [o, Token.op] at hkv hprobe
    simp only [o, Token.op, show ("{" == "None") = false by decide, show ("{" == "True") = false by decide,
      show ("{" == "False") = false by decide, show ("{" == "(") = false by decide,
      show ("{" == "[") = false by decide, beq_self_eq_true, Bool.false_eq_true, ↓reduceIte, Token.isOp,
      Bool.and_self, hcl', hprobe, ok_bind, hkv, expect]
    simp [cst, pure, Except.pure, pTrailers_stop htr]
  have hch : ClosedHead (.dict kvs) := ⟨o "{", _, by simp [tk]; rfl, by decide, by decide, by decide⟩
  obtain ⟨ht, hth⟩ := test_of_closed (by simp [tk]) hc hch
  exact ⟨⟨ht, hc⟩, hth, hch⟩


/-! ## call forms -/

theorem pAtom_name (name : String) (rest : List Token) (f : Nat) :
    pAtom (f + 1) (Token.nm name :: rest) = .ok (.node "var" [.tok (Token.nm name)], rest) := by
  rw [pAtom.eq_def]; simp [Token.nm]

theorem closedHead_name (name : String) (tl : List Token) :
    startTok (Token.nm name) = true ∧ isCloser (Token.nm name) = false ∧ (Token.nm name).isOp "," = false := by
  simp [startTok, Token.isOp, opIn, Token.nm, isCloser]

theorem parses_app0 (op : String) : Parses (.app op [] false false) := by
  have hc : ClosedParses (.app op [] false false) := by
    intro f rest hf htr
    simp only [tk, List.length_cons, List.length_nil] at hf
    obtain ⟨f', rfl⟩ : ∃ f', f = f' + 2 := ⟨f - 2, by omega⟩
    simp only [tk, cst, pPostfix, List.cons_append, List.nil_append, pAtom_name, ok_bind]
    exact pTrailers_call0 _ rest htr f'
  have hch : ClosedHead (.app op [] false false) :=
    ⟨Token.nm op, _, by simp [tk]; rfl, (closedHead_name op []).1, (closedHead_name op []).2.1,
      (closedHead_name op []).2.2⟩
  obtain ⟨ht, hth⟩ := test_of_closed (by simp [tk]) hc hch
  exact ⟨⟨ht, hc⟩, hth, hch⟩

/-- the receiver of a method call as printed: the column name, or the parenthesised phrase -/
def recvToks (a : Term) : List Token := if isCol a then tk a false else parenToks (tk a false)

theorem pAtom_recv (a : Term) (ha : Parses a) (more : List Token) :
    ∀ f, f ≥ 16 * (recvToks a).length + 2 → pAtom f (recvToks a ++ more) = .ok (cst a, more) := by
  intro f hf
  unfold recvToks at hf ⊢
  split at hf
  · rename_i hcol
    cases a with
    | col c =>
      obtain ⟨f', rfl⟩ : ∃ f', f = f' + 1 := ⟨f - 1, by omega⟩
      simp only [hcol, ↓reduceIte, tk, cst, List.cons_append, List.nil_append, pAtom_name]
    | _ => simp [isCol] at hcol
  · rename_i hcol
    simp only [hcol, Bool.false_eq_true, ↓reduceIte]
    obtain ⟨h, tl, hu, hcl, _, _⟩ := ha.2.1
    simp only [parenToks, List.length_cons, List.length_append, List.length_nil] at hf
    exact pAtom_paren (X := tk a false) (c := cst a) (b := 16 * (tk a false).length + 16)
      (fun g r hg he => ha.1.1 g r hg he) ⟨h, tl, hu, not_close_of_not_closer ")" (by simp) hcl⟩ more f (by omega)

theorem recvToks_head (a : Term) (ha : Parses a) :
    ∃ h tl, recvToks a = h :: tl ∧ startTok h = true ∧ isCloser h = false ∧ h.isOp "," = false := by
  unfold recvToks
  split
  · rename_i hcol
    cases a with
    | col c => exact ⟨Token.nm c, [], by simp [tk], (closedHead_name c []).1, (closedHead_name c []).2.1,
        (closedHead_name c []).2.2⟩
    | _ => simp [isCol] at hcol
  · exact ⟨o "(", _, rfl, by decide, by decide, by decide⟩

theorem tk_method (op : String) (a : Term) (rest : List Term) :
    tk (.app op (a :: rest) false true) true = tk (.app op (a :: rest) false true) false ∧
    tk (.app op (a :: rest) false true) false =
      recvToks a ++ o "." :: Token.nm op :: o "(" :: (match rest with
        | [] => [o ")"]
        | _ :: _ => commaToks (tkArgs rest false) ++ [o ")"]) := by
  cases rest with
  | nil => simp [tk, recvToks]
  | cons b bs => simp [tk, recvToks]

theorem parses_method (op : String) (a : Term) (rest : List Term) (ha : Parses a) (hrest : ∀ t ∈ rest, Parses t) :
    Parses (.app op (a :: rest) false true) := by
  obtain ⟨heq, htk⟩ := tk_method op a rest
  have hc : ClosedParses (.app op (a :: rest) false true) := by
    intro f more hf htr
    rw [heq, htk] at hf ⊢
    cases rest with
    | nil =>
      simp only [List.length_append, List.length_cons, List.length_nil] at hf
      obtain ⟨f', rfl⟩ : ∃ f', f = f' + 3 := ⟨f - 3, by omega⟩
      have hat := pAtom_recv a ha (o "." :: Token.nm op :: o "(" :: ([o ")"] ++ more)) (f' + 3) (by omega)
      simp only [List.append_assoc, List.cons_append, List.nil_append] at hat ⊢
      simp only [pPostfix, hat, ok_bind, pTrailers_attr, pTrailers_call0 _ more htr f', cst, Bool.false_eq_true,
        ↓reduceIte]
    | cons b bs =>
      simp only [List.length_append, List.length_cons, List.length_nil] at hf
      obtain ⟨f', rfl⟩ : ∃ f', f = f' + 1 := ⟨f - 1, by omega⟩
      have hat := pAtom_recv a ha (o "." :: Token.nm op :: o "(" :: (commaToks (tkArgs (b :: bs) false) ++ [o ")"] ++ more))
        (f' + 1) (by omega)
      have hcall := pTrailers_callN (.node "getattr" [cst a, .tok (Token.nm op)]) (b :: bs) (by simp)
        (fun t ht => ⟨(hrest t ht).1.1, (hrest t ht).2.1⟩) more htr f' (by omega)
      simp only [List.append_assoc, List.cons_append, List.nil_append] at hat hcall ⊢
      simp only [pPostfix, hat, ok_bind, pTrailers_attr, hcall, cst, Bool.false_eq_true, ↓reduceIte]
  have hch : ClosedHead (.app op (a :: rest) false true) := by
    obtain ⟨h, tl, hr, h1, h2, h3⟩ := recvToks_head a ha
    exact ⟨h, _, by rw [heq, htk, hr]; rfl, h1, h2, h3⟩
  obtain ⟨ht, hth⟩ := test_of_closed heq.symm hc hch
  exact ⟨⟨ht, hc⟩, hth, hch⟩

theorem parses_func (op : String) (a : Term) (rest : List Term) (hall : ∀ t ∈ a :: rest, Parses t) :
    Parses (.app op (a :: rest) false false) := by
  have htk : ∀ w, tk (.app op (a :: rest) false false) w
      = Token.nm op :: o "(" :: (commaToks (tkArgs (a :: rest) false) ++ [o ")"]) := by
    intro w
    cases rest with
    | nil => simp [tk, tkArgs, commaToks]
    | cons b bs => simp [tk, tkArgs]
  have hcst : cst (.app op (a :: rest) false false)
      = .node "funccall" [.node "var" [.tok (Token.nm op)], .node "arguments" (csts (a :: rest))] := by
    cases rest with
    | nil => simp [cst, csts]
    | cons b bs => simp [cst]
  have hc : ClosedParses (.app op (a :: rest) false false) := by
    intro f more hf htr
    rw [htk] at hf ⊢
    simp only [List.length_append, List.length_cons, List.length_nil] at hf
    obtain ⟨f', rfl⟩ : ∃ f', f = f' + 1 := ⟨f - 1, by omega⟩
    have hcall := pTrailers_callN (.node "var" [.tok (Token.nm op)]) (a :: rest) (by simp)
      (fun t ht => ⟨(hall t ht).1.1, (hall t ht).2.1⟩) more htr (f' + 1) (by omega)
    simp only [List.append_assoc, List.cons_append, List.nil_append] at hcall ⊢
    simp only [pPostfix, pAtom_name, ok_bind, hcall, hcst]
  have hch : ClosedHead (.app op (a :: rest) false false) :=
    ⟨Token.nm op, _, by rw [htk], (closedHead_name op []).1, (closedHead_name op []).2.1, (closedHead_name op []).2.2⟩
  obtain ⟨ht, hth⟩ := test_of_closed (by rw [htk, htk]) hc hch
  exact ⟨⟨ht, hc⟩, hth, hch⟩


/-! ## inline operators -/

theorem parses_neg (a : Term) (ha : Parses a) : Parses (.app "-" [a] true false) := by
  have htkf : tk (.app "-" [a] true false) false = o "-" :: parenToks (tk a false) := by simp [tk]
  have htkt : tk (.app "-" [a] true false) true = parenToks (tk (.app "-" [a] true false) false) := by simp [tk]
  have hcst : cst (.app "-" [a] true false) = .node "factor" [.tok (o "-"), cst a] := by simp [cst]
  obtain ⟨h, tl, hu, hcl, _, _⟩ := ha.2.1
  have hpost : ∀ rest, TrailOk rest → ∀ g, g ≥ 16 * (tk a false).length + 19 →
      pPostfix g (parenToks (tk a false) ++ rest) = .ok (cst a, rest) := by
    intro rest htr g hg
    obtain ⟨g', rfl⟩ : ∃ g', g = g' + 1 := ⟨g - 1, by omega⟩
    have := pAtom_paren (X := tk a false) (c := cst a) (b := 16 * (tk a false).length + 16)
      (fun g r hg he => ha.1.1 g r hg he) ⟨h, tl, hu, not_close_of_not_closer ")" (by simp) hcl⟩ rest (g' + 1) (by omega)
    simp only [pPostfix, this, ok_bind, pTrailers_stop htr]
  have htest : TestParses (.app "-" [a] true false) := by
    intro f rest hf hend
    rw [htkf] at hf ⊢
    rw [hcst]
    simp only [parenToks, List.length_cons, List.length_append, List.length_nil] at hf
    have hbase : ∀ g, g ≥ 16 * (tk a false).length + 32 →
        pLevel g 10 ((o "-" :: parenToks (tk a false)) ++ rest) = .ok (.node "factor" [.tok (o "-"), cst a], rest) := by
      intro g hg
      obtain ⟨g', rfl⟩ : ∃ g', g = g' + 1 := ⟨g - 1, by omega⟩
      have hx := closed_at_level (b := 16 * (tk a false).length + 19) (toks := parenToks (tk a false)) (rest := rest)
        (c := cst a) (fun g hg => hpost rest (TrailOk_of_StopOk (StopOk_of_EndOk hend 11)) g hg)
        ⟨o "(", _, rfl, by decide⟩ 10 (by omega) (StopOk_of_EndOk hend 10) g' (by omega)
      rw [pLevel_succ_10]
      simp only [List.cons_append, show opIn (o "-") ["+", "-", "~"] = true by decide, ↓reduceIte, hx, ok_bind,
        pure, Except.pure]
    exact descend (L := 10) (by omega) hbase ⟨o "-", _, rfl, by decide, by omega⟩ 10 0 (by omega)
      (StopOk_of_EndOk hend 0) f (by omega)
  have hhead : TestHead (.app "-" [a] true false) := ⟨o "-", _, htkf, by decide, by decide, by decide⟩
  obtain ⟨hc, hch⟩ := closed_of_paren htkt htest hhead
  exact ⟨⟨htest, hc⟩, hhead, hch⟩

/-- the printed inline operators that are parsed by a binary level, with the facts the loop lemma needs -/
theorem inline_op_facts (op : String)
    (h : op = "or" ∨ op = "and" ∨ op = "+" ∨ op = "*" ∨ op = "-" ∨ op = "/" ∨ op = "//" ∨ op = "%" ∨ op = "%/%" ∨
      op = "==" ∨ op = "!=" ∨ op = "<" ∨ op = "<=" ∨ op = ">" ∨ op = ">=") :
    ∃ (L : Nat) (rule : String) (keep : List Cst), L ≤ 9 ∧ binRule L = some rule ∧
      (∀ rest, matchOp L (o op :: rest) = some (keep, rest)) ∧ stopTok (L + 1) (o op) = true ∧
      (∀ a b ts, cst (.app op (a :: b :: ts) true false) = .node rule (cst a :: loopCsts keep (b :: ts))) := by
  have hk : ∀ (op' : String) (a b : Term) (ts : List Term),
      cst a :: loopCsts [.tok (o op')] (b :: ts) = interleave op' (csts (a :: b :: ts)) := by
    intro op' a b ts
    rw [loopCsts_tok, show csts (a :: b :: ts) = cst a :: csts (b :: ts) by simp [csts], interleave_cons]
  rcases h with rfl | rfl | rfl | rfl | rfl | rfl | rfl | rfl | rfl | rfl | rfl | rfl | rfl | rfl | rfl
  · refine ⟨0, "or_test", [], by omega, rfl, fun rest => by simp [matchOp, o, Token.op, Token.isOp], by decide, ?_⟩
    intro a b ts; rw [cst_inline, loopCsts_nil]; simp [csts]
  · refine ⟨1, "and_test", [], by omega, rfl, fun rest => by simp [matchOp, o, Token.op, Token.isOp], by decide, ?_⟩
    intro a b ts; rw [cst_inline, loopCsts_nil]; simp [csts]
  · refine ⟨8, "arith_expr", [.tok (o "+")], by omega, rfl,
      fun rest => by simp [matchOp, o, Token.op, Token.isOp, opIn], by decide, ?_⟩
    intro a b ts; rw [cst_inline, hk]; simp [opLevel]
  · refine ⟨9, "term", [.tok (o "*")], by omega, rfl,
      fun rest => by simp [matchOp, o, Token.op, Token.isOp, opIn], by decide, ?_⟩
    intro a b ts; rw [cst_inline, hk]; simp [opLevel]
  · refine ⟨8, "arith_expr", [.tok (o "-")], by omega, rfl,
      fun rest => by simp [matchOp, o, Token.op, Token.isOp, opIn], by decide, ?_⟩
    intro a b ts; rw [cst_inline, hk]; simp [opLevel]
  · refine ⟨9, "term", [.tok (o "/")], by omega, rfl,
      fun rest => by simp [matchOp, o, Token.op, Token.isOp, opIn], by decide, ?_⟩
    intro a b ts; rw [cst_inline, hk]; simp [opLevel]
  · refine ⟨9, "term", [.tok (o "//")], by omega, rfl,
      fun rest => by simp [matchOp, o, Token.op, Token.isOp, opIn], by decide, ?_⟩
    intro a b ts; rw [cst_inline, hk]; simp [opLevel]
  · refine ⟨9, "term", [.tok (o "%")], by omega, rfl,
      fun rest => by simp [matchOp, o, Token.op, Token.isOp, opIn], by decide, ?_⟩
    intro a b ts; rw [cst_inline, hk]; simp [opLevel]
  · refine ⟨9, "term", [.tok (o "%/%")], by omega, rfl,
      fun rest => by simp [matchOp, o, Token.op, Token.isOp, opIn], by decide, ?_⟩
    intro a b ts; rw [cst_inline, hk]; simp [opLevel]
  · refine ⟨3, "comparison", [.tok (o "==")], by omega, rfl,
      fun rest => by simp [matchOp, o, Token.op, Token.isOp, opIn], by decide, ?_⟩
    intro a b ts; rw [cst_inline, hk]; simp [opLevel]
  · refine ⟨3, "comparison", [.tok (o "!=")], by omega, rfl,
      fun rest => by simp [matchOp, o, Token.op, Token.isOp, opIn], by decide, ?_⟩
    intro a b ts; rw [cst_inline, hk]; simp [opLevel]
  · refine ⟨3, "comparison", [.tok (o "<")], by omega, rfl,
      fun rest => by simp [matchOp, o, Token.op, Token.isOp, opIn], by decide, ?_⟩
    intro a b ts; rw [cst_inline, hk]; simp [opLevel]
  · refine ⟨3, "comparison", [.tok (o "<=")], by omega, rfl,
      fun rest => by simp [matchOp, o, Token.op, Token.isOp, opIn], by decide, ?_⟩
    intro a b ts; rw [cst_inline, hk]; simp [opLevel]
  · refine ⟨3, "comparison", [.tok (o ">")], by omega, rfl,
      fun rest => by simp [matchOp, o, Token.op, Token.isOp, opIn], by decide, ?_⟩
    intro a b ts; rw [cst_inline, hk]; simp [opLevel]
  · refine ⟨3, "comparison", [.tok (o ">=")], by omega, rfl,
      fun rest => by simp [matchOp, o, Token.op, Token.isOp, opIn], by decide, ?_⟩
    intro a b ts; rw [cst_inline, hk]; simp [opLevel]


theorem tk_inline (op : String) (a b : Term) (ts : List Term) :
    tk (.app op (a :: b :: ts) true false) false = tk a true ++ loopToks op (b :: ts) ∧
    tk (.app op (a :: b :: ts) true false) true = parenToks (tk (.app op (a :: b :: ts) true false) false) := by
  have := opToks_eq op a (b :: ts)
  simp only [tkArgs] at this
  simp [tk, tkArgs, this]

theorem testHead_of_closedHead {t : Term} {toks : List Token} (hh : ClosedHead a) (htk : ∃ tl, toks = tk a true ++ tl) :
    ∃ h tl, toks = h :: tl ∧ isCloser h = false ∧ h.isOp "not" = false ∧ h.isOp "," = false := by
  obtain ⟨h, tl, hu, hst, hcl, hcomma⟩ := hh
  obtain ⟨tl2, rfl⟩ := htk
  simp only [startTok, Bool.and_eq_true, Bool.not_eq_true'] at hst
  exact ⟨h, tl ++ tl2, by simp [hu], hcl, hst.1, hcomma⟩

theorem parses_inline (op : String)
    (hop : op = "or" ∨ op = "and" ∨ op = "+" ∨ op = "*" ∨ op = "-" ∨ op = "/" ∨ op = "//" ∨ op = "%" ∨ op = "%/%" ∨
      op = "==" ∨ op = "!=" ∨ op = "<" ∨ op = "<=" ∨ op = ">" ∨ op = ">=")
    (a b : Term) (ts : List Term) (hall : ∀ t ∈ a :: b :: ts, Parses t) :
    Parses (.app op (a :: b :: ts) true false) := by
  obtain ⟨L, rule, keep, hL, hrule, hmatch, hstopop, hcst⟩ := inline_op_facts op hop
  obtain ⟨htkf, htkt⟩ := tk_inline op a b ts
  have hall' : ∀ t ∈ a :: b :: ts, ClosedParses t ∧ ClosedHead t := fun t ht => ⟨(hall t ht).1.2, (hall t ht).2.2⟩
  obtain ⟨h, tl, hu, hst, hcl, hcomma⟩ := (hall a (by simp)).2.2
  have hst' := hst
  simp only [startTok, Bool.and_eq_true, Bool.not_eq_true'] at hst'
  have htest : TestParses (.app op (a :: b :: ts) true false) := by
    intro f rest hf hend
    rw [htkf] at hf ⊢
    rw [hcst]
    have hbase := inline_level hL hrule hmatch hstopop a b ts hall' rest hend
    exact descend (L := L) (by omega) hbase ⟨h, tl ++ loopToks op (b :: ts), by simp [hu], hst'.1, by omega⟩ L 0
      (by omega) (StopOk_of_EndOk hend 0) f (by omega)
  have hhead : TestHead (.app op (a :: b :: ts) true false) :=
    ⟨h, tl ++ loopToks op (b :: ts), by rw [htkf, hu]; rfl, hcl, hst'.1, hcomma⟩
  obtain ⟨hc, hch⟩ := closed_of_paren htkt htest hhead
  exact ⟨⟨htest, hc⟩, hhead, hch⟩

theorem parses_pow (a b : Term) (ha : Parses a) (hb : Parses b) : Parses (.app "**" [a, b] true false) := by
  obtain ⟨htkf, htkt⟩ := tk_inline "**" a b []
  simp only [loopToks, List.append_nil] at htkf
  have hcst : cst (.app "**" [a, b] true false) = .node "power" [cst a, cst b] := by
    rw [cst_inline]; simp [csts]
  obtain ⟨h, tl, hu, hst, hcl, hcomma⟩ := ha.2.2
  obtain ⟨hb1, tlb, hub, hstb, _, _⟩ := hb.2.2
  have hst' := hst
  simp only [startTok, Bool.and_eq_true, Bool.not_eq_true'] at hst'
  have htest : TestParses (.app "**" [a, b] true false) := by
    intro f rest hf hend
    rw [htkf] at hf ⊢
    rw [hcst]
    simp only [List.length_append, List.length_cons] at hf
    have hbase : ∀ g, g ≥ 16 * ((tk a true).length + (tk b true).length) + 18 →
        pLevel g 11 ((tk a true ++ o "**" :: tk b true) ++ rest) = .ok (.node "power" [cst a, cst b], rest) := by
      intro g hg
      obtain ⟨g', rfl⟩ : ∃ g', g = g' + 1 := ⟨g - 1, by omega⟩
      have h1 := ha.1.2 g' (o "**" :: (tk b true ++ rest)) (by omega) (show trailTok _ = true by decide)
      have h2 := closed_at_level (b := 16 * (tk b true).length + 4) (toks := tk b true) (rest := rest) (c := cst b)
        (fun g hg => hb.1.2 g rest hg (TrailOk_of_StopOk (StopOk_of_EndOk hend 11))) ⟨hb1, tlb, hub, hstb⟩ 10
        (by omega) (StopOk_of_EndOk hend 10) g' (by omega)
      rw [pLevel_succ_11]
      simp only [List.append_assoc, List.cons_append, h1, ok_bind, show (o "**").isOp "**" = true by decide,
        ↓reduceIte, h2, pure, Except.pure]
    exact descend (L := 11) (by omega) hbase ⟨h, tl ++ o "**" :: tk b true, by simp [hu], hst'.1, fun _ => hst'.2⟩ 11 0
      (by omega) (StopOk_of_EndOk hend 0) f (by omega)
  have hhead : TestHead (.app "**" [a, b] true false) :=
    ⟨h, tl ++ o "**" :: tk b true, by rw [htkf, hu]; rfl, hcl, hst'.1, hcomma⟩
  obtain ⟨hc, hch⟩ := closed_of_paren htkt htest hhead
  exact ⟨⟨htest, hc⟩, hhead, hch⟩

mutual
/-- **(P)** every well-formed term's printed tokens parse (as a test, and as an atom when printed with
`want_inline_parens`) to `cst t` -/
theorem parses_all (env : Env) : ∀ (t : Term), wf env t = true → Parses t
  | .value l, h => parses_value l (by simpa [wf] using h)
  | .col c, _ => parses_col c
  | .list vs, h => by
    simp only [wf, Bool.and_eq_true, Bool.not_eq_true', List.isEmpty_eq_false_iff] at h
    exact parses_list vs h.1.1.1 h.1.1.2
  | .dict kvs, h => by
    simp only [wf, Bool.and_eq_true, Bool.not_eq_true', List.isEmpty_eq_false_iff] at h
    exact parses_dict kvs h.1.1.1.1.1 h.1.1.1.1.2
  | .app op args inline method, h => by
    simp only [wf, Bool.and_eq_true] at h
    obtain ⟨hargs, hshape⟩ := h
    have ih : ∀ t ∈ args, Parses t := parses_args env args hargs
    match args, inline, method, hshape, ih with
    | [], false, false, _, _ => exact parses_app0 op
    | [a], true, false, hshape, ih =>
      simp only [shapeOk, Bool.and_eq_true, beq_iff_eq] at hshape
      obtain ⟨rfl, _⟩ := hshape
      exact parses_neg a (ih a (by simp))
    | a :: b :: ts, true, false, hshape, ih =>
      simp only [shapeOk] at hshape
      split at hshape
      · rename_i hk
        simp only [karyOps, List.contains_cons, List.contains_nil, Bool.or_false, Bool.or_eq_true, beq_iff_eq] at hk
        exact parses_inline op (by rcases hk with h | h | h | h <;> simp [h]) a b ts ih
      · simp only [Bool.and_eq_true, List.isEmpty_iff] at hshape
        obtain ⟨⟨rfl, hop⟩, _⟩ := hshape
        simp only [bin2Ops, List.contains_cons, List.contains_nil, Bool.or_false, Bool.or_eq_true, beq_iff_eq] at hop
        by_cases hpow : op = "**"
        · subst hpow
          exact parses_pow a b (ih a (by simp)) (ih b (by simp))
        · exact parses_inline op (by rcases hop with h | h | h | h | h | h | h | h | h | h | h | h <;> simp_all) a b [] ih
    | a :: rest, false, true, _, ih => exact parses_method op a rest (ih a (by simp)) (fun t ht => ih t (by simp [ht]))
    | a :: rest, false, false, _, ih => exact parses_func op a rest ih
    | [], true, _, hshape, _ => simp [shapeOk] at hshape
    | [], false, true, hshape, _ => simp [shapeOk] at hshape
    | [a], true, true, hshape, _ => simp [shapeOk] at hshape
    | a :: b :: ts, true, true, hshape, _ => simp [shapeOk] at hshape
theorem parses_args (env : Env) : ∀ (ts : List Term), wfs env ts = true → ∀ t ∈ ts, Parses t
  | [], _, t, ht => by simp at ht
  | x :: xs, h, t, ht => by
    simp only [wfs, Bool.and_eq_true] at h
    rcases List.mem_cons.1 ht with h1 | h2
    · rw [h1]; exact parses_all env x h.1
    · exact parses_args env xs h.2 t h2
end

end DAVerif.Expr
