import DAVerif.Proofs.BuilderWF
/-
C26 – every builder call computes the documented verdict: for each kind of step,
`(build p s).map (fun _ => ()) = Rules26.verdict p.cols p.tables s`
(accepted iff every documented rule holds; otherwise the error class of the first violated rule).
-/
namespace DAVerif
open Rules26

theorem map_ok?_bind {α β : Type} (c : Bool) (e : Err) (f : Unit → Except Err α) (g : α → β) :
    Except.map g (ok? c e >>= f) = if c then Except.map g (f ()) else .error e := by
  cases c <;> rfl

theorem subset_eq_decide (a b : List String) : subset a b = decide (∀ x ∈ a, x ∈ b) := by
  rw [Bool.eq_iff_iff, subset_iff]; simp
theorem disjoint_eq_decide (a b : List String) : disjoint a b = decide (∀ x ∈ a, x ∉ b) := by
  rw [Bool.eq_iff_iff, disjoint_iff]; simp
theorem nodupB_eq_decide (a : List String) : nodupB a = decide a.Nodup := by
  rw [Bool.eq_iff_iff, nodupB_iff]; simp

/-- the unit-valued outcome of a builder call -/
abbrev outcome (r : Except Err Ops) : Except Err Unit := r.map (fun _ => ())

/-! ### steps without expressions -/

theorem build_selectRows_none (p : Ops) : outcome (build p (.selectRows none)) = verdict p.cols p.tables (.selectRows none) := rfl

theorem build_dropCols (p : Ops) (cs : List String) :
    outcome (build p (.dropCols cs)) = verdict p.cols p.tables (.dropCols cs) := by
  unfold build verdict stepRules outcome
  by_cases h : cs.isEmpty = true
  · simp only [h, ↓reduceIte]; rfl
  · have h2 : ∀ L : List String, (!(List.filter (fun c => !cs.contains c) L).isEmpty)
        = decide (∃ c ∈ L, c ∉ cs) := by
      intro L; rw [Bool.eq_iff_iff]; simp [List.filter_eq_nil_iff]
    simp only [h, Bool.false_eq_true, ↓reduceIte, dropColsB_eq, mkDropCols, map_ok?_bind, verdictOf,
      subset_eq_decide, h2, strip_cols]
    rfl

theorem build_order (p : Ops) (cs rev : List String) (lim : Option Nat) :
    outcome (build p (.order cs rev lim)) = verdict p.cols p.tables (.order cs rev lim) := by
  unfold build verdict stepRules outcome
  by_cases h : (cs.isEmpty && lim.isNone) = true
  · simp only [h, ↓reduceIte]; rfl
  · simp only [h, Bool.false_eq_true, ↓reduceIte, orderB_eq, mkOrder, map_ok?_bind, verdictOf,
      subset_eq_decide, strip_cols]
    rfl

theorem build_convert (p : Ops) (rm : Option RecMap) :
    outcome (build p (.convert rm)) = verdict p.cols p.tables (.convert rm) := by
  cases rm with
  | none => rfl
  | some rm =>
    unfold build verdict stepRules outcome
    have h2 : decide (rm.produced ≠ [] ∧ rm.produced.Nodup) = (!rm.produced.isEmpty && nodupB rm.produced) := by
      rw [Bool.eq_iff_iff]; simp [nodupB_iff]
    simp only [convertB_eq, mkConvert, map_ok?_bind, verdictOf, subset_eq_decide, strip_cols, h2]
    cases rm.produced.isEmpty <;> simp <;> rfl

/-! ### two-table steps -/

theorem tablesConsistent_eq_decide (ta tb : List (String × List String)) :
    tablesConsistent ta tb = decide (TablesAgree ta tb) := by
  rw [Bool.eq_iff_iff, decide_eq_true_eq]
  simp only [tablesConsistent, TablesAgree, List.all_eq_true, Bool.or_eq_true, bne_iff_ne, ne_eq, beq_iff_eq]
  constructor
  · intro h x hx y hy hxy
    rcases h x hx y hy with h | h
    · exact absurd hxy h
    · exact h
  · intro h x hx y hy
    by_cases hxy : x.1 = y.1
    · exact Or.inr (h x hx y hy hxy)
    · exact Or.inl hxy

theorem parse_spec (jt : String) :
    (JoinType.parse jt = none ∧ knownJoinTypes.contains jt.toUpper = false) ∨
    (∃ t, JoinType.parse jt = some t ∧ knownJoinTypes.contains jt.toUpper = true ∧
      (t == JoinType.cross) = (jt.toUpper == "CROSS")) := by
  unfold JoinType.parse
  generalize jt.toUpper = u
  split
  all_goals first
    | (right; exact ⟨_, rfl, by decide, by decide⟩)
    | skip
  rename_i h1 h2 h3 h4 h5 h6
  left
  refine ⟨rfl, ?_⟩
  simp only [knownJoinTypes, List.contains_cons, List.contains_nil, Bool.or_false, Bool.or_eq_false_iff,
    beq_eq_false_iff_ne, ne_eq]
  exact ⟨h1, h2, h3, h4, h5, h6⟩

theorem build_join (p b : Ops) (onA onB : List String) (jt : String) (check : Bool) :
    outcome (build p (.join b onA onB jt check)) = verdict p.cols p.tables (.join b onA onB jt check) := by
  unfold build verdict stepRules outcome
  have hc : (List.filter (fun c => !(inter onA onB).contains c) (inter p.cols b.cols)).isEmpty
      = decide (∀ c ∈ p.cols, c ∈ b.cols → c ∈ onA ∧ c ∈ onB) := by
    rw [Bool.eq_iff_iff]
    simp only [List.isEmpty_iff, List.filter_eq_nil_iff, mem_inter, Bool.not_eq_eq_eq_not, Bool.not_true,
      List.contains_eq_mem, decide_eq_false_iff_not, Decidable.not_not, and_imp, decide_eq_true_eq]
  simp only [joinB_eq, mkJoin, map_ok?_bind, verdictOf, subset_eq_decide, strip_cols, strip_tables,
    tablesConsistent_eq_decide]
  rcases parse_spec jt with ⟨h1, h2⟩ | ⟨t, h1, h2, h3⟩
  · cases check <;> simp only [h1, h2, hc, map_ok?_bind, Bool.false_eq_true, ↓reduceIte, Bool.not_false,
      Bool.true_or, Bool.not_true, Bool.false_or] <;> rfl
  · have h4 : (!(t == JoinType.cross && !onA.isEmpty)) = (!jt.toUpper == "CROSS" || onA.isEmpty) := by
      rw [h3]; cases (jt.toUpper == "CROSS") <;> cases onA.isEmpty <;> rfl
    cases check <;> simp only [h1, h2, h4, hc, map_ok?_bind, Bool.false_eq_true, ↓reduceIte, Bool.not_false,
      Bool.true_or, Bool.not_true, Bool.false_or] <;> rfl

theorem build_concat (p : Ops) (b : Option Ops) (idc : Option String) (an bn : String) :
    outcome (build p (.concat b idc an bn)) = verdict p.cols p.tables (.concat b idc an bn) := by
  cases b with
  | none => rfl
  | some b =>
    unfold build verdict stepRules outcome
    have h2 : (subset p.cols b.cols && subset b.cols p.cols)
        = decide ((∀ c ∈ p.cols, c ∈ b.cols) ∧ ∀ c ∈ b.cols, c ∈ p.cols) := by
      rw [Bool.eq_iff_iff]; simp [subset_iff]
    simp only [concatB_eq, mkConcat, map_ok?_bind, verdictOf, strip_cols, strip_tables,
      tablesConsistent_eq_decide, h2]
    cases idc <;> simp only [map_ok?_bind] <;> rfl

/-! ### renaming -/

theorem rename_cols_eq (src : Ops) (m : List (String × String)) :
    (Ops.rename src m).cols = renamed src.cols m := by
  simp only [Ops.cols, renamed]
  apply List.map_congr_left
  intro c _
  simp only [lookupLast, ← List.map_reverse, List.find?_map]
  cases h : List.find? ((fun kv => kv.1 == c) ∘ fun kv : String × String => (kv.2, kv.1)) m.reverse with
  | none =>
    have : List.find? (fun kv : String × String => kv.2 == c) m.reverse = none := h
    simp [this]
  | some kv =>
    have : List.find? (fun kv : String × String => kv.2 == c) m.reverse = some kv := h
    simp [this]

theorem build_rename (p : Ops) (m : List (String × String)) :
    outcome (build p (.rename m)) = verdict p.cols p.tables (.rename m) := by
  unfold build verdict stepRules outcome
  by_cases h : m.isEmpty = true
  · simp only [h, ↓reduceIte]; rfl
  · have h1 : ∀ L : List String, decide (∀ x ∈ m.map (fun kv : String × String => kv.2), x ∈ L)
        = decide (∀ kv ∈ m, kv.2 ∈ L) := by
      intro L; rw [Bool.eq_iff_iff]; simp
      exact ⟨fun h a b hab => h b a hab, fun h x y hxy => h y x hxy⟩
    have h2 : ∀ L : List String,
        (List.filter (fun c => (m.map (·.1)).contains c)
          (List.filter (fun c => !(inter (m.map (·.1)) (m.map (·.2))).contains c) L)).isEmpty
        = decide (∀ kv ∈ m, kv.1 ∈ L → kv.1 ∈ m.map (·.2)) := by
      intro L
      rw [Bool.eq_iff_iff]
      simp only [List.isEmpty_iff, List.filter_eq_nil_iff, List.mem_filter, mem_inter, List.contains_eq_mem,
        List.mem_map, Prod.exists, exists_and_right, exists_eq_right, Bool.not_eq_eq_eq_not, Bool.not_true,
        decide_eq_false_iff_not, not_and, not_exists, decide_eq_true_eq, and_imp, forall_exists_index, Prod.forall]
      constructor
      · intro hh a b hab haL
        apply Classical.byContradiction
        intro hne
        exact hh a haL (fun _ _ => fun y hy => hne ⟨y, hy⟩) b hab
      · intro hh c hcL hnot b hcb
        obtain ⟨y, hy⟩ := hh c b hcb hcL
        exact hnot b hcb y hy
    simp only [h, Bool.false_eq_true, ↓reduceIte, renameB_eq, mkRename, map_ok?_bind, verdictOf,
      subset_eq_decide, strip_cols, h1, h2, nodupB_eq_decide, rename_cols_eq]
    rfl

theorem mapCols_cols_eq (src : Ops) (m : List (String × Option String)) :
    (Ops.mapCols src (m.filterMap (fun kv => kv.2.map (fun v => (kv.1, v))))
      ((m.filter (fun kv => kv.2.isNone)).map (·.1))).cols = mapped src.cols m := by
  simp only [Ops.cols, mapped]
  apply List.map_congr_left
  intro c _
  simp only [lookupLast]
  cases List.find? (fun kv : String × String => kv.1 == c)
    (List.filterMap (fun kv : String × Option String => Option.map (fun v => (kv.1, v)) kv.2) m).reverse <;> rfl

theorem remap_targets (m : List (String × Option String)) :
    (m.filterMap (fun kv => kv.2.map (fun v => (kv.1, v)))).map (fun kv : String × String => kv.2) = mapTargets m := by
  unfold mapTargets
  induction m with
  | nil => rfl
  | cons kv m ih =>
    obtain ⟨k, v⟩ := kv
    cases v <;> simp [ih]

theorem build_mapCols (p : Ops) (m : List (String × Option String)) :
    outcome (build p (.mapCols m)) = verdict p.cols p.tables (.mapCols m) := by
  unfold build verdict stepRules outcome
  by_cases h : m.isEmpty = true
  · simp only [h, ↓reduceIte]; rfl
  · have h1 : ∀ L : List String, decide (∀ x ∈ m.map (fun kv : String × Option String => kv.1), x ∈ L)
        = decide (∀ kv ∈ m, kv.1 ∈ L) := by
      intro L; rw [Bool.eq_iff_iff]; simp
    have h2 : ∀ L : List String,
        (List.filter (fun c => (mapTargets m).contains c)
          (List.filter (fun c => !(inter (mapTargets m) (m.map (·.1))).contains c) L)).isEmpty
        = decide (∀ v ∈ mapTargets m, v ∈ L → v ∈ mapSources m) := by
      intro L
      rw [Bool.eq_iff_iff, decide_eq_true_eq]
      simp only [List.isEmpty_iff, List.filter_eq_nil_iff, List.mem_filter, mem_inter, List.contains_eq_mem,
        Bool.not_eq_eq_eq_not, Bool.not_true, decide_eq_false_iff_not, not_and, decide_eq_true_eq, and_imp,
        mapSources]
      constructor
      · intro hh v hv hvL
        apply Classical.byContradiction
        intro hne
        exact hh v hvL (fun _ => hne) hv
      · intro hh c hcL hnot hc
        exact hnot hc (hh c hc hcL)
    simp only [h, Bool.false_eq_true, ↓reduceIte, mapColsB_eq, mkMapCols, map_ok?_bind, verdictOf,
      subset_eq_decide, strip_cols, h1, remap_targets, h2, nodupB_eq_decide, mapCols_cols_eq]
    rfl

/-! ### select_rows -/

theorem build_selectRows (p : Ops) (e : Option Term) :
    outcome (build p (.selectRows e)) = verdict p.cols p.tables (.selectRows e) := by
  cases e with
  | none => rfl
  | some e =>
    unfold build verdict stepRules outcome
    have h3 : disjoint ["expr"] (List.filter (fun c => c != "expr") (Term.colsRaw e)) = true := by
      simp [disjoint]
    simp only [parseAssignments, List.map_cons, List.map_nil, forIn_ok?, map_ok?_bind, verdictOf, List.all_cons,
      List.all_nil, Bool.and_true, subset_eq_decide, List.flatMap_cons, List.flatMap_nil, List.append_nil, h3,
      selectRowsB_eq, bind_assoc]
    have : nodupB ["expr"] = true := by decide
    simp only [this, ↓reduceIte]
    rfl

/-! ### select_columns (collapses through select/drop nodes) -/

theorem outcome_ok?_bind (c : Bool) (e : Err) (f : Unit → Except Err Ops) :
    outcome (ok? c e >>= f) = if c then outcome (f ()) else .error e := map_ok?_bind c e f _

theorem selectColsB_verdict (p : Ops) (hp : WF p) (cs : List String) (hne : cs ≠ []) :
    outcome (selectColsB p cs) =
      if decide (∀ c ∈ cs, c ∈ p.cols) then (if decide cs.Nodup then .ok () else .error .assertionError)
      else .error .keyError := by
  fun_induction selectColsB p cs with
  | case1 src _ _ cs ih => exact ih hp hne
  | case2 src cs0 cs ih =>
    have hw : WF src ∧ cs0 ≠ [] ∧ cs0.Nodup ∧ ∀ c ∈ cs0, c ∈ src.cols := hp
    rw [outcome_ok?_bind, ih hw.1 hne, subset_eq_decide]
    by_cases h : ∀ c ∈ cs, c ∈ (Ops.selectCols src cs0).cols
    · have h' : ∀ c ∈ cs, c ∈ cs0 := h
      have : ∀ c ∈ cs, c ∈ src.cols := fun c hc => hw.2.2.2 c (h c hc)
      rw [decide_eq_true h, decide_eq_true h', decide_eq_true this]; rfl
    · have h' : ¬ ∀ c ∈ cs, c ∈ cs0 := h
      rw [decide_eq_false h, decide_eq_false h']; rfl
  | case3 src dels cs ih =>
    have hw : WF src ∧ _ := hp
    rw [outcome_ok?_bind, ih hw.1 hne, subset_eq_decide]
    by_cases h : ∀ c ∈ cs, c ∈ (Ops.dropCols src dels).cols
    · have : ∀ c ∈ cs, c ∈ src.cols := fun c hc => by
        have := h c hc
        simp only [Ops.cols, List.mem_filter] at this
        exact this.1
      rw [decide_eq_true h, decide_eq_true this]; rfl
    · rw [decide_eq_false h]; rfl
  | case4 self cs h1 h2 h3 =>
    have hne' : (!cs.isEmpty) = true := by cases cs <;> simp_all
    simp only [mkSelectCols, outcome_ok?_bind, hne', ↓reduceIte, subset_eq_decide, nodupB_eq_decide]
    split <;> rfl

theorem build_selectCols (p : Ops) (hp : WF p) (cs : List String) :
    outcome (build p (.selectCols cs)) = verdict p.cols p.tables (.selectCols cs) := by
  unfold build verdict stepRules
  by_cases hne : cs = []
  · subst hne; rfl
  · have hne' : (!cs.isEmpty) = true := by cases cs <;> simp_all
    simp only [outcome_ok?_bind, hne', ↓reduceIte, selectColsB_verdict p hp cs hne, verdictOf]

/-! ### project -/

theorem parseAssignments_eq (cols : List String) (ops : Assign) :
    parseAssignments cols ops =
      if decide ((keys ops).Nodup) then
        if decide (∀ c ∈ usedBy ops, c ∈ cols) then
          if decide (∀ kv ∈ ops, ∀ c ∈ Term.colsRaw kv.2, c ≠ kv.1 → c ∉ keys ops) then .ok ops
          else .error .valueError
        else .error .nameError
      else .error .valueError := by
  have h2 : (ops.all fun kv => subset (Term.colsRaw kv.2) cols) = decide (∀ c ∈ usedBy ops, c ∈ cols) := by
    rw [Bool.eq_iff_iff, decide_eq_true_eq]; simp only [List.all_eq_true, subset_iff, usedBy, List.mem_flatMap]
    constructor
    · rintro h c ⟨kv, hkv, hc⟩; exact h kv hkv c hc
    · intro h kv hkv c hc; exact h c ⟨kv, hkv, hc⟩
  have h3 : disjoint (ops.map (·.1)) (ops.flatMap fun kv => (Term.colsRaw kv.2).filter (fun c => c != kv.1))
      = decide (∀ kv ∈ ops, ∀ c ∈ Term.colsRaw kv.2, c ≠ kv.1 → c ∉ keys ops) := by
    rw [Bool.eq_iff_iff, disjoint_iff, decide_eq_true_eq]
    simp only [keys, List.mem_flatMap, List.mem_filter, bne_iff_ne, ne_eq, not_exists, not_and]
    constructor
    · intro h kv hkv c hc hne hmem; exact h c hmem kv hkv hc hne
    · intro h c hmem kv hkv hc hne; exact h kv hkv c hc hne hmem
  simp only [parseAssignments, forIn_ok?]
  simp only [ok?_bind, nodupB_eq_decide, h2, h3, keys]
  rfl

theorem except_bind_idem {α : Type} (m : Except Err Unit) (f : Except Err α) :
    (m >>= fun _ => m >>= fun _ => f) = (m >>= fun _ => f) := by
  cases m <;> rfl

/-- the checks `project_parsed_` makes before looking at the node -/
def projectPre (cols : List String) (ops : Assign) (group : List String) : Except Err Unit := do
  workColGroup group cols
  ok? (!(ops.isEmpty && group.isEmpty)) .valueError
  ok? (disjoint (ops.map (·.1)) group) .valueError

def projectPost (self : Ops) (ops : Assign) (group : List String) : Except Err Ops :=
  match self with
  | .order src _ _ none => projectParsed src ops group
  | _ => mkProject self ops group

theorem projectParsed_unfold (self : Ops) (ops : Assign) (group : List String) :
    projectParsed self ops group = (projectPre self.cols ops group >>= fun _ => projectPost self ops group) := by
  rw [projectParsed.eq_def]
  simp only [projectPre, bind_assoc]
  cases self with
  | order src cs rev lim => cases lim <;> rfl
  | _ => rfl

theorem projectParsed_strip (self : Ops) (ops : Assign) (group : List String) :
    projectParsed self ops group = (projectPre self.cols ops group >>= fun _ => mkProject (strip self) ops group) := by
  fun_induction strip self with
  | case1 src cs rev ih =>
    rw [projectParsed_unfold]
    simp only [Ops.cols, projectPost]
    rw [ih, except_bind_idem]
  | case2 p h =>
    rw [projectParsed_unfold]
    congr 1
    funext _
    unfold projectPost
    split
    · rename_i src cs rev; exact absurd rfl (h src cs rev)
    · rfl

theorem projectOpOk_eq (t : Term) : projectOpOk t = projectExprOk t := by
  unfold projectOpOk projectExprOk projectExprOk.nameOk
  cases t with
  | app op args i m =>
    cases args with
    | nil => simp
    | cons a rest =>
      cases rest with
      | nil => cases a <;> simp
      | cons b rest => cases a <;> simp
  | _ => rfl

/-- case split on the condition of an `if`: the negative branch must close by `rfl` -/
macro "ifc " h:ident " : " t:term : tactic =>
  `(tactic| (by_cases $h : $t
             case neg => (simp only [if_neg $h]; try rfl)
             simp only [if_pos $h]))

theorem ite_and' {α : Type} (P Q : Prop) [Decidable P] [Decidable Q] (a b : α) :
    (if P ∧ Q then a else b) = if P then (if Q then a else b) else b := by
  by_cases hp : P <;> by_cases hq : Q <;> simp [hp, hq]

theorem build_project (p : Ops) (ops : Assign) (group : List String) :
    outcome (build p (.project ops group)) = verdict p.cols p.tables (.project ops group) := by
  unfold build verdict stepRules assignRules outcome
  simp only [parseAssignments_eq, projectParsed_strip, projectPre, workColGroup, mkProject, forIn_ok?, bind_assoc]
  simp only [ok?_bind, verdictOf, List.cons_append, List.nil_append, subset_eq_decide,
    disjoint_eq_decide, nodupB_eq_decide, strip_cols, projectOpOk_eq, keys]
  simp only [decide_eq_true_eq]
  ifc h1 : (List.map (fun x : String × Term => x.1) ops).Nodup
  ifc h2 : ∀ c ∈ usedBy ops, c ∈ p.cols
  ifc h3 : ∀ kv ∈ ops, ∀ c ∈ Term.colsRaw kv.2, c ≠ kv.1 → c ∉ List.map (fun x : String × Term => x.1) ops
  simp only [bind, Except.bind, ite_and']
  ifc h4 : group.Nodup
  ifc h5 : ∀ c ∈ group, c ∈ p.cols
  ifc h6 : (!(List.isEmpty ops && group.isEmpty)) = true
  ifc h7 : ∀ x ∈ List.map (fun x : String × Term => x.1) ops, x ∉ group
  have h8 : ∀ x ∈ group ++ Term.colsUsedOps ops, x ∈ p.cols := by
    intro x hx
    rcases List.mem_append.mp hx with hx | hx
    · exact h5 x hx
    · obtain ⟨kv, hkv, hc⟩ := mem_colsUsedOps.mp hx
      exact h2 x (List.mem_flatMap.mpr ⟨kv, hkv, hc⟩)
  have h9 : (!(appendNew group (List.map (fun x : String × Term => x.1) ops)).isEmpty) = true := by
    simp only [Bool.not_eq_eq_eq_not, Bool.not_true, List.isEmpty_eq_false_iff]
    cases ops with
    | nil =>
      cases group with
      | nil => simp at h6
      | cons g gs => exact appendNew_ne_nil_left (by simp)
    | cons kv ops =>
      intro he
      have : kv.1 ∈ appendNew group (List.map (fun x : String × Term => x.1) (kv :: ops)) :=
        mem_appendNew.mpr (Or.inr (by simp))
      rw [he] at this; simp at this
  simp only [if_pos h8, if_pos h9]
  split <;> rfl


/-! ### extend -/

set_option linter.unusedSimpArgs false

def extendPre (cols : List String) (ops : Assign) (partition : PartArg) (order reverse : List String) :
    Except Err Unit := do
  workColGroup (partCols partition) cols
  workColGroup order cols
  workColGroup reverse cols
  ok? (disjoint (ops.map (·.1)) (partCols partition)) .valueError
  ok? (disjoint (partCols partition) order) .valueError
  ok? (disjoint (ops.map (·.1)) order) .valueError
  ok? (subset reverse order) .valueError

/-- `compatible_partition` of `extend_parsed_` -/
def compatB (partition : PartArg) (part1 : List String) : Bool :=
  (match partition with
    | .none => part1.isEmpty | .one => false | .cols cs => cs == part1)
  || ((match partition with
    | .none => true | .one => true | .cols cs => cs.isEmpty) && part1.isEmpty)

/-- the condition under which `extend_parsed_` attempts to merge into an existing `ExtendNode` -/
def mergeCond (part1 order1 reverse1 : List String) (windowed1 : Bool)
    (ops : Assign) (partition : PartArg) (order reverse : List String) : Bool :=
  compatB partition part1 && (impliesWindowed ops || (match partition with
      | .none => false | .one => true | .cols cs => !cs.isEmpty) || !order.isEmpty) == windowed1
    && order == order1 && reverse == reverse1

/-- the merge attempt of `extend_parsed_` on an `ExtendNode` -/
def extendMerge (src : Ops) (ops1 : Assign) (part1 order1 reverse1 : List String) (windowed1 : Bool)
    (ops : Assign) (partition : PartArg) (order reverse : List String) : Except Err Ops :=
  if mergeCond part1 order1 reverse1 windowed1 ops partition order reverse then
    match tryMergeOps ops1 ops with
    | some newOps => mkExtend src newOps partition order reverse
    | none => mkExtend (Ops.extend src ops1 part1 order1 reverse1 windowed1) ops partition order reverse
  else mkExtend (Ops.extend src ops1 part1 order1 reverse1 windowed1) ops partition order reverse

def extendPost (self : Ops) (ops : Assign) (partition : PartArg) (order reverse : List String) : Except Err Ops :=
  match self with
  | .order src _ _ none => extendParsed src ops partition order reverse
  | .extend src ops1 part1 order1 reverse1 windowed1 =>
      extendMerge src ops1 part1 order1 reverse1 windowed1 ops partition order reverse
  | _ => mkExtend self ops partition order reverse

theorem workColGroup_nil (cols : List String) : workColGroup [] cols = .ok () := rfl

theorem extendParsed_unfold (self : Ops) (ops : Assign) (partition : PartArg) (order reverse : List String)
    (hne : ops.isEmpty = false) :
    extendParsed self ops partition order reverse =
      (extendPre self.cols ops partition order reverse >>= fun _ => extendPost self ops partition order reverse) := by
  rw [extendParsed.eq_def]
  simp only [hne, Bool.false_eq_true, ↓reduceIte, extendPre, bind_assoc]
  have d1 : ∀ xs : List String, disjoint xs [] = true := by intro xs; simp [disjoint]
  have d2 : ∀ xs : List String, disjoint [] xs = true := by intro xs; simp [disjoint]
  have okb : ∀ (f : Unit → Except Err Ops), ((Except.ok () : Except Err Unit) >>= f) = f () := fun f => rfl
  cases partition with
  | none =>
    simp only [partCols, workColGroup_nil, d1, d2, ok?_true, okb]
    cases self with
    | order src cs rev lim => cases lim <;> rfl
    | _ => rfl
  | one =>
    simp only [partCols, workColGroup_nil, d1, d2, ok?_true, okb]
    cases self with
    | order src cs rev lim => cases lim <;> rfl
    | _ => rfl
  | cols cs =>
    simp only [partCols]
    cases cs with
    | nil =>
      simp only [List.isEmpty_nil, Bool.not_true, Bool.false_eq_true, ↓reduceIte, d1, d2, ok?_true, okb]
      cases self with
      | order src cs rev lim => cases lim <;> rfl
      | _ => rfl
    | cons c cs =>
      simp only [List.isEmpty_cons, Bool.not_false, ↓reduceIte]
      cases self with
      | order src cs rev lim => cases lim <;> rfl
      | _ => rfl

/-- what `extend_parsed_` does on a node that is not a skipped `order_rows` -/
def extendTop (self : Ops) (ops : Assign) (partition : PartArg) (order reverse : List String) : Except Err Ops :=
  match self with
  | .extend src ops1 part1 order1 reverse1 windowed1 =>
      extendMerge src ops1 part1 order1 reverse1 windowed1 ops partition order reverse
  | _ => mkExtend self ops partition order reverse

theorem extendParsed_strip (self : Ops) (ops : Assign) (partition : PartArg) (order reverse : List String)
    (hne : ops.isEmpty = false) :
    extendParsed self ops partition order reverse =
      (extendPre self.cols ops partition order reverse >>= fun _ =>
        extendTop (strip self) ops partition order reverse) := by
  fun_induction strip self with
  | case1 src cs rev ih =>
    rw [extendParsed_unfold _ _ _ _ _ hne]
    simp only [Ops.cols, extendPost]
    rw [ih, except_bind_idem]
  | case2 p h =>
    rw [extendParsed_unfold _ _ _ _ _ hne]
    congr 1
    funext _
    unfold extendPost extendTop
    cases p with
    | order src cs rev lim =>
      cases lim with
      | none => exact absurd rfl (h src cs rev)
      | some n => rfl
    | _ => rfl

theorem impliesWindowed_eq (ops : Assign) (partition : PartArg) (order : List String) :
    windowedSituation ops partition order =
      (impliesWindowed ops || (match partition with | .none => false | .one => true | .cols cs => !cs.isEmpty)
        || !order.isEmpty) := rfl

theorem windowOpOk_eq (cols : List String) (ordered : Bool) (t : Term) :
    windowOpOk cols ordered t = windowExprOk cols ordered t := by
  unfold windowOpOk windowExprOk windowExprOk.nameOk
  cases t with
  | app op args i m =>
    cases args with
    | nil => cases ordered <;> simp
    | cons a rest =>
      have hv : isValue = isConst := by funext t; cases t <;> rfl
      cases a <;> cases ordered <;> simp [hv] <;> ac_rfl
  | _ => rfl

theorem mkExtend_eq (src : Ops) (ops : Assign) (partition : PartArg) (order reverse : List String) :
    mkExtend src ops partition order reverse = (do
      ok? (subset (Term.colsUsedOps ops) src.cols) .keyError
      ok? (nodupB (partCols partition)) .valueError
      ok? (nodupB order) .valueError
      ok? (nodupB reverse) .valueError
      ok? (subset (partCols partition) src.cols) .valueError
      ok? (subset order src.cols) .valueError
      ok? (subset reverse order) .valueError
      ok? (disjoint (ops.map (·.1)) (partCols partition ++ order ++ reverse)) .valueError
      ok? (!windowedSituation ops partition order
            || ops.all (fun kv => windowExprOk src.cols (!order.isEmpty) kv.2)) .valueError
      pure (.extend src ops (partCols partition) order reverse (windowedSituation ops partition order))) := by
  unfold mkExtend
  cases partition <;> simp only [partCols, impliesWindowed_eq, forIn_ok?, windowOpOk_eq] <;>
    (cases hW : (impliesWindowed ops || _ || !order.isEmpty) <;>
      simp only [hW, Bool.false_eq_true, ↓reduceIte, Bool.not_false, Bool.not_true, Bool.true_or, Bool.false_or,
        ok?_true, List.nil_append] <;> rfl)

/-- the last rule of an extend step (windowed situations admit simple window expressions only) -/
def winCond (cols : List String) (ops : Assign) (partition : PartArg) (order : List String) : Bool :=
  !windowedSituation ops partition order || ops.all (fun kv => windowExprOk cols (!order.isEmpty) kv.2)

theorem all_congr_mem {α : Type} {l : List α} {f g : α → Bool} (h : ∀ x ∈ l, f x = g x) : l.all f = l.all g := by
  induction l with
  | nil => rfl
  | cons a l ih =>
    simp only [List.all_cons]
    rw [h a (by simp), ih (fun x hx => h x (by simp [hx]))]

theorem mkExtend_ok_form (src : Ops) (ops : Assign) (partition : PartArg) (order reverse : List String)
    (h1 : ∀ c ∈ usedBy ops, c ∈ src.cols)
    (h2 : (partCols partition).Nodup) (h3 : order.Nodup) (h4 : reverse.Nodup)
    (h5 : ∀ c ∈ partCols partition, c ∈ src.cols) (h6 : ∀ c ∈ order, c ∈ src.cols)
    (h7 : ∀ c ∈ reverse, c ∈ order)
    (h8 : ∀ k ∈ keys ops, k ∉ partCols partition ∧ k ∉ order) :
    mkExtend src ops partition order reverse =
      if winCond src.cols ops partition order = true
      then .ok (.extend src ops (partCols partition) order reverse (windowedSituation ops partition order))
      else .error .valueError := by
  have e1 : subset (Term.colsUsedOps ops) src.cols = true := by
    rw [subset_iff]; intro c hc
    obtain ⟨kv, hkv, hc⟩ := mem_colsUsedOps.mp hc
    exact h1 c (List.mem_flatMap.mpr ⟨kv, hkv, hc⟩)
  have e8 : disjoint (ops.map (·.1)) (partCols partition ++ order ++ reverse) = true := by
    rw [disjoint_iff]; intro k hk hm
    have := h8 k hk
    simp only [List.append_assoc, List.mem_append] at hm
    rcases hm with hm | hm | hm
    · exact this.1 hm
    · exact this.2 hm
    · exact this.2 (h7 k hm)
  rw [mkExtend_eq]
  simp only [e1, nodupB_iff.mpr h2, nodupB_iff.mpr h3, nodupB_iff.mpr h4, subset_iff.mpr h5, subset_iff.mpr h6,
    subset_iff.mpr h7, e8, ok?_true, ok?_bind]
  rfl

/-- what a successful `try_to_merge_ops` guarantees: the merged assignments are some of the first step's
followed by all of the second step's, and the second step reads no column the first step produced -/
theorem tryMergeOps_some {ops1 ops2 newOps : Assign} (h : tryMergeOps ops1 ops2 = some newOps) :
    (∃ f : String × Term → Bool, newOps = ops1.filter f ++ ops2) ∧
    (∀ c ∈ usedBy ops2, c ∉ keys ops1) := by
  unfold tryMergeOps at h
  have hu : ∀ c ∈ usedBy ops2, c ∈ Term.colsUsedOps ops2 := by
    intro c hc
    obtain ⟨kv, hkv, hc⟩ := List.mem_flatMap.mp hc
    exact mem_colsUsedOps.mpr ⟨kv, hkv, hc⟩
  simp only [] at h
  split at h
  · repeat (split at h; · exact absurd h (by simp))
    rename_i hd _
    simp only [Option.some.injEq] at h
    refine ⟨⟨_, h.symm⟩, ?_⟩
    intro c hc hk
    have := disjoint_iff.mp (by simpa using hd) c (hu c hc)
    exact this hk
  · repeat (split at h; · exact absurd h (by simp))
    rename_i hd
    simp only [Option.some.injEq] at h
    refine ⟨⟨fun _ => true, by rw [← h, List.filter_eq_self.mpr (fun _ _ => rfl)]⟩, ?_⟩
    intro c hc hk
    have := disjoint_iff.mp (by simpa using hd) c (hu c hc)
    exact this hk

/-- … every name the first step produced is still produced, and without a common target the merge is the plain
concatenation -/
theorem tryMergeOps_keys {ops1 ops2 newOps : Assign} (h : tryMergeOps ops1 ops2 = some newOps) :
    (∀ k ∈ keys ops1, k ∈ keys newOps) ∧
    ((∀ k ∈ keys ops2, k ∉ keys ops1) → newOps = ops1 ++ ops2) := by
  unfold tryMergeOps at h
  simp only [] at h
  split at h
  · rename_i hcommon
    repeat (split at h; · exact absurd h (by simp))
    simp only [Option.some.injEq] at h
    subst h
    constructor
    · intro k hk
      obtain ⟨kv, hkv, rfl⟩ := List.mem_map.mp hk
      by_cases hc : kv.1 ∈ inter (List.map (fun x => x.1) ops1) (List.map (fun x => x.1) ops2)
      · have := (mem_inter.mp hc).2
        simp only [keys, List.map_append, List.mem_append]
        exact Or.inr this
      · simp only [keys, List.map_append, List.mem_append, List.mem_map, List.mem_filter]
        exact Or.inl ⟨kv, ⟨hkv, by simpa using hc⟩, rfl⟩
    · intro hno
      exfalso
      simp only [Bool.not_eq_eq_eq_not, Bool.not_true, List.isEmpty_eq_false_iff] at hcommon
      cases hi : inter (List.map (fun x => x.1) ops1) (List.map (fun x => x.1) ops2) with
      | nil => exact hcommon hi
      | cons k ks =>
        have hk : k ∈ inter (List.map (fun x => x.1) ops1) (List.map (fun x => x.1) ops2) := by rw [hi]; simp
        exact hno k (mem_inter.mp hk).2 (mem_inter.mp hk).1
  · repeat (split at h; · exact absurd h (by simp))
    simp only [Option.some.injEq] at h
    subst h
    exact ⟨fun k hk => by simp only [keys, List.map_append, List.mem_append]; exact Or.inl hk, fun _ => rfl⟩

theorem windowExprOk_congr {A B : List String} (o : Bool) (t : Term)
    (h : ∀ c ∈ Term.colsRaw t, (c ∈ A ↔ c ∈ B)) : windowExprOk A o t = windowExprOk B o t := by
  cases t with
  | app op args i m =>
    cases args with
    | nil => rfl
    | cons a rest =>
      cases a with
      | col c =>
        have : (c ∈ A ↔ c ∈ B) := h c (by simp [Term.colsRaw, Term.colsRawList])
        have e : A.contains c = B.contains c := by
          rw [Bool.eq_iff_iff]; simpa using this
        simp only [windowExprOk, e]
      | _ => rfl
  | _ => rfl

theorem impliesWindowed_append (a b : Assign) : impliesWindowed (a ++ b) = (impliesWindowed a || impliesWindowed b) := by
  simp [impliesWindowed, List.any_append]

theorem impliesWindowed_filter_false {a : Assign} (f : String × Term → Bool) (h : impliesWindowed a = false) :
    impliesWindowed (a.filter f) = false := by
  unfold impliesWindowed at h ⊢
  rw [List.any_eq_false] at h ⊢
  intro x hx
  exact h x (List.mem_filter.mp hx).1

theorem compatible_part {partition : PartArg} {part1 : List String}
    (hc : compatB partition part1 = true) : partCols partition = part1 := by
  unfold compatB at hc
  cases partition with
  | none => cases part1 <;> simp_all [partCols]
  | one => cases part1 <;> simp_all [partCols]
  | cols cs =>
    simp only [partCols]
    cases cs <;> cases part1 <;> simp_all

theorem merged_form (src : Ops) (ops1 : Assign) (part1 order1 reverse1 : List String) (windowed1 : Bool)
    (hE : ExtOK src.cols ops1 part1 order1 reverse1 windowed1)
    (ops newOps : Assign) (partition : PartArg) (order reverse : List String)
    (h1 : ∀ c ∈ usedBy ops, c ∈ appendNew src.cols (keys ops1))
    (h2 : (partCols partition).Nodup) (h3 : order.Nodup) (h4 : reverse.Nodup)
    (h7 : ∀ c ∈ reverse, c ∈ order)
    (h8 : ∀ k ∈ keys ops, k ∉ partCols partition ∧ k ∉ order)
    (hp : partCols partition = part1)
    (hs : windowedSituation ops partition order = windowed1) (ho : order = order1)
    (hm : tryMergeOps ops1 ops = some newOps) :
    mkExtend src newOps partition order reverse =
      if winCond (appendNew src.cols (keys ops1)) ops partition order = true
      then .ok (.extend src newOps (partCols partition) order reverse (windowedSituation newOps partition order))
      else .error .valueError := by
  obtain ⟨⟨f, rfl⟩, hdis⟩ := tryMergeOps_some hm
  obtain ⟨e1, e2, e3, e4, e5, e6, e7⟩ := hE
  subst ho
  subst hp
  have hsrc : ∀ c ∈ usedBy ops, c ∈ src.cols := by
    intro c hc
    rcases mem_appendNew.mp (h1 c hc) with h | h
    · exact h
    · exact absurd h (hdis c hc)
  have g1 : ∀ c ∈ usedBy (ops1.filter f ++ ops), c ∈ src.cols := by
    intro c hc
    simp only [List.flatMap_append, List.mem_append, List.mem_flatMap] at hc
    rcases hc with ⟨kv, hkv, hc⟩ | ⟨kv, hkv, hc⟩
    · exact e1 c (List.mem_flatMap.mpr ⟨kv, (List.mem_filter.mp hkv).1, hc⟩)
    · exact hsrc c (List.mem_flatMap.mpr ⟨kv, hkv, hc⟩)
  have g8 : ∀ k ∈ keys (ops1.filter f ++ ops), k ∉ partCols partition ∧ k ∉ order := by
    intro k hk
    simp only [List.map_append, List.mem_append, List.mem_map] at hk
    rcases hk with ⟨kv, hkv, rfl⟩ | ⟨kv, hkv, rfl⟩
    · exact e5 kv.1 (List.mem_map.mpr ⟨kv, (List.mem_filter.mp hkv).1, rfl⟩)
    · exact h8 kv.1 (List.mem_map.mpr ⟨kv, hkv, rfl⟩)
  rw [mkExtend_ok_form src _ partition order reverse g1 h2 h3 h4 e2 e3 h7 g8]
  have hw : winCond src.cols (ops1.filter f ++ ops) partition order
      = winCond (appendNew src.cols (keys ops1)) ops partition order := by
    unfold winCond
    have hcong : ∀ kv ∈ ops, windowExprOk src.cols (!order.isEmpty) kv.2
        = windowExprOk (appendNew src.cols (keys ops1)) (!order.isEmpty) kv.2 := by
      intro kv hkv
      apply windowExprOk_congr
      intro c hc
      have hcu : c ∈ usedBy ops := List.mem_flatMap.mpr ⟨kv, hkv, hc⟩
      constructor
      · intro h; exact mem_appendNew.mpr (Or.inl h)
      · intro _; exact hsrc c hcu
    have hall : ops.all (fun kv => windowExprOk src.cols (!order.isEmpty) kv.2)
        = ops.all (fun kv => windowExprOk (appendNew src.cols (keys ops1)) (!order.isEmpty) kv.2) :=
      all_congr_mem hcong
    cases hw1 : windowed1 with
    | true =>
      have hW2 : windowedSituation ops partition order = true := by rw [hs, hw1]
      have hWm : windowedSituation (ops1.filter f ++ ops) partition order = true := by
        rw [impliesWindowed_eq] at hW2 ⊢
        rw [impliesWindowed_append]
        simp only [Bool.or_eq_true] at hW2 ⊢
        rcases hW2 with (h | h) | h
        · exact Or.inl (Or.inl (Or.inr h))
        · exact Or.inl (Or.inr h)
        · exact Or.inr h
      have hkept : (ops1.filter f).all (fun kv => windowExprOk src.cols (!order.isEmpty) kv.2) = true := by
        rw [List.all_eq_true]
        intro kv hkv
        rw [← windowOpOk_eq]
        exact e7 hw1 kv (List.mem_filter.mp hkv).1
      simp only [hW2, hWm, Bool.not_true, Bool.false_or, List.all_append, hkept, Bool.true_and, hall]
    | false =>
      obtain ⟨i1, _, _⟩ := e6 hw1
      have hW2 : windowedSituation ops partition order = false := by rw [hs, hw1]
      have hk := impliesWindowed_filter_false f i1
      have hWm : windowedSituation (ops1.filter f ++ ops) partition order = false := by
        rw [impliesWindowed_eq] at hW2 ⊢
        rw [impliesWindowed_append, hk]
        simpa using hW2
      simp only [hW2, hWm, Bool.not_false, Bool.true_or]
  rw [hw]


theorem outcome_ite (c : Bool) (n : Ops) (e : Err) :
    outcome (if c = true then .ok n else .error e) = if c = true then .ok () else .error e := by
  cases c <;> rfl

theorem extendTop_outcome (q : Ops) (hq : WF q) (ops : Assign) (partition : PartArg) (order reverse : List String)
    (h1 : ∀ c ∈ usedBy ops, c ∈ q.cols)
    (h2 : (partCols partition).Nodup) (h3 : order.Nodup) (h4 : reverse.Nodup)
    (h5 : ∀ c ∈ partCols partition, c ∈ q.cols) (h6 : ∀ c ∈ order, c ∈ q.cols)
    (h7 : ∀ c ∈ reverse, c ∈ order)
    (h8 : ∀ k ∈ keys ops, k ∉ partCols partition ∧ k ∉ order) :
    outcome (extendTop q ops partition order reverse) =
      if winCond q.cols ops partition order = true then .ok () else .error .valueError := by
  cases q with
  | extend src ops1 part1 order1 reverse1 windowed1 =>
    have hE : ExtOK src.cols ops1 part1 order1 reverse1 windowed1 := hq.2
    simp only [extendTop, extendMerge]
    by_cases hC : mergeCond part1 order1 reverse1 windowed1 ops partition order reverse = true
    · rw [if_pos hC]
      simp only [mergeCond, Bool.and_eq_true, beq_iff_eq] at hC
      obtain ⟨⟨⟨hc, hs⟩, ho⟩, hr⟩ := hC
      cases hm : tryMergeOps ops1 ops with
      | some newOps =>
        simp only []
        rw [merged_form src ops1 part1 order1 reverse1 windowed1 hE ops newOps partition order reverse
          h1 h2 h3 h4 h7 h8 (compatible_part hc) hs ho hm]
        exact outcome_ite _ _ _
      | none =>
        simp only []
        rw [mkExtend_ok_form _ _ _ _ _ h1 h2 h3 h4 h5 h6 h7 h8]
        exact outcome_ite _ _ _
    · rw [if_neg hC]
      rw [mkExtend_ok_form _ _ _ _ _ h1 h2 h3 h4 h5 h6 h7 h8]
      exact outcome_ite _ _ _
  | _ =>
    simp only [extendTop]
    rw [mkExtend_ok_form _ _ _ _ _ h1 h2 h3 h4 h5 h6 h7 h8]
    exact outcome_ite _ _ _

theorem build_extend (p : Ops) (hp : WF p) (ops : Assign) (partition : PartArg) (order reverse : List String) :
    outcome (build p (.extend ops partition order reverse))
      = verdict p.cols p.tables (.extend ops partition order reverse) := by
  unfold build verdict stepRules assignRules
  by_cases hne : ops.isEmpty = true
  · have : ops = [] := by simpa using hne
    subst this
    have e : parseAssignments p.cols [] = .ok [] := by
      rw [parseAssignments_eq]; simp
    simp only [e, bind, Except.bind]
    rw [extendParsed.eq_def]
    rfl
  have hne' : ops.isEmpty = false := by simpa using hne
  simp only [hne', Bool.false_eq_true, ↓reduceIte, parseAssignments_eq]
  simp only [verdictOf, List.cons_append, List.nil_append, decide_eq_true_eq, ite_and']
  ifc h1 : (List.map (fun x : String × Term => x.1) ops).Nodup
  ifc h2 : ∀ c ∈ usedBy ops, c ∈ p.cols
  ifc h3 : ∀ kv ∈ ops, ∀ c ∈ Term.colsRaw kv.2, c ≠ kv.1 → c ∉ List.map (fun x : String × Term => x.1) ops
  simp only [bind, Except.bind]
  rw [extendParsed_strip _ _ _ _ _ hne']
  simp only [extendPre, workColGroup, bind_assoc]
  simp only [outcome_ok?_bind, nodupB_eq_decide, subset_eq_decide, disjoint_eq_decide, decide_eq_true_eq, keys]
  ifc g2 : (partCols partition).Nodup
  ifc g5 : ∀ c ∈ partCols partition, c ∈ p.cols
  ifc g3 : order.Nodup
  ifc g6 : ∀ c ∈ order, c ∈ p.cols
  ifc g4 : reverse.Nodup
  ifc g4' : ∀ c ∈ reverse, c ∈ p.cols
  ifc g8a : ∀ x ∈ List.map (fun x : String × Term => x.1) ops, x ∉ partCols partition
  ifc g9 : ∀ c ∈ partCols partition, c ∉ order
  ifc g8b : ∀ x ∈ List.map (fun x : String × Term => x.1) ops, x ∉ order
  ifc g7 : ∀ c ∈ reverse, c ∈ order
  have hq : WF (strip p) := hp.stripped
  rw [extendTop_outcome (strip p) hq ops partition order reverse (by rw [strip_cols]; exact h2) g2 g3 g4
    (by rw [strip_cols]; exact g5) (by rw [strip_cols]; exact g6) g7 (fun k hk => ⟨g8a k hk, g8b k hk⟩)]
  rw [strip_cols]; rfl

/-! ### all steps -/

/-- **Every builder call computes the documented verdict** (accepted iff all documented rules hold, otherwise
the error class of the first violated rule), for every well-formed prefix. -/
theorem build_verdict (p : Ops) (hp : WF p) (s : Step) :
    outcome (build p s) = verdict p.cols p.tables s := by
  cases s with
  | extend ops partition order reverse => exact build_extend p hp ops partition order reverse
  | project ops group => exact build_project p ops group
  | selectRows e => exact build_selectRows p e
  | selectCols cs => exact build_selectCols p hp cs
  | dropCols cs => exact build_dropCols p cs
  | order cs rev lim => exact build_order p cs rev lim
  | rename m => exact build_rename p m
  | mapCols m => exact build_mapCols p m
  | join b onA onB jt check => exact build_join p b onA onB jt check
  | concat b idc an bn => exact build_concat p b idc an bn
  | convert rm => exact build_convert p rm

end DAVerif
