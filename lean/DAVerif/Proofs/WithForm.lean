import DAVerif.Sql.WithFormG
/-
Lemmas for property C04 shared by the two stubs of `Sql/WithFormG.lean` (list helpers, congruence / strictness / errors
of `semNear`, `runSteps`), and the structure of the WITH form of the stub BEFORE fix N28 (`toWithFormOld`: names, cache
growth).  The code as it is (`toWithFormG`) is treated in Proofs/WithFix.lean.
-/
namespace DAVerif.Sql
open DAVerif

/-! ### list helpers -/
def stepNames (s : List WithStep) : List String := s.map (·.name)

theorem appendUnseen_eq (q2 : List WithStep) : ∀ q1 : List WithStep, (stepNames q2).Nodup →
    (∀ n ∈ stepNames q2, n ∉ stepNames q1) → appendUnseen q1 q2 = q1 ++ q2 := by
  unfold appendUnseen
  induction q2 with
  | nil => intro q1 _ _; simp
  | cons st q2 ih =>
    intro q1 hnd hdis
    simp only [stepNames, List.map_cons, List.nodup_cons] at hnd
    have h1 : (q1.any fun x => x.name == st.name) = false := by
      rw [Bool.eq_false_iff]
      intro h
      rw [List.any_eq_true] at h
      obtain ⟨x, hx, hxe⟩ := h
      have : x.name = st.name := by simpa using hxe
      exact hdis st.name (by simp [stepNames]) (by simp only [stepNames, List.mem_map]; exact ⟨x, hx, this⟩)
    simp only [List.foldl_cons, h1, Bool.false_eq_true, if_false]
    rw [ih (q1 ++ [st]) hnd.2]
    · simp
    · intro n hn
      simp only [stepNames, List.map_append, List.map_cons, List.map_nil, List.mem_append, List.mem_singleton, not_or]
      refine ⟨hdis n (by simp only [stepNames, List.map_cons, List.mem_cons]; exact Or.inr hn), ?_⟩
      intro he; subst he; exact hnd.1 hn

theorem lookupLast_append_single {β : Type} (m : List (String × β)) (k : String) (v : β) :
    lookupLast (m ++ [(k, v)]) k = some v := by
  simp [lookupLast]

theorem lookupLast_append_of_notMem {β : Type} (m more : List (String × β)) (k : String)
    (h : k ∉ more.map (·.1)) : lookupLast (m ++ more) k = lookupLast m k := by
  unfold lookupLast
  rw [List.reverse_append, List.find?_append]
  have : more.reverse.find? (fun kv => kv.1 == k) = none := by
    rw [List.find?_eq_none]
    intro x hx hxe
    apply h
    simp only [List.mem_map]
    exact ⟨x, by simpa using hx, by simpa using hxe⟩
  rw [this]; rfl

theorem lookupLast_some_mem {β : Type} (m : List (String × β)) (k : String) (v : β)
    (h : lookupLast m k = some v) : (k, v) ∈ m := by
  unfold lookupLast at h
  rw [Option.map_eq_some_iff] at h
  obtain ⟨a, ha, rfl⟩ := h
  have h1 := List.mem_of_find?_eq_some ha
  have h2 := List.find?_some ha
  have : a.1 = k := by simpa using h2
  rw [← this]; simpa using h1

theorem lookupLast_none_iff_notMem {β : Type} (m : List (String × β)) (k : String) :
    lookupLast m k = none ↔ k ∉ m.map (·.1) := by
  unfold lookupLast
  rw [Option.map_eq_none_iff, List.find?_eq_none]
  simp only [List.mem_reverse, List.mem_map, not_exists, not_and]
  constructor
  · intro h x hx he; exact h x hx (by simpa using he)
  · intro h x hx he; exact h x hx (by simpa using he)


/-! ### structure: names -/

theorem Near.names_of_isTable {n : Near} (h : n.isTable = true) : n.names = [] := by
  cases n <;> simp_all [Near.isTable, Near.names]

theorem Near.names_of_not_isTable {n : Near} (h : ¬ n.isTable = true) : n.names = n.name :: n.names.tail := by
  cases n <;> simp_all [Near.isTable, Near.names, Near.name]

theorem stubStepOld_isTable (key : KeyFn) {near : Near} (cols : Option (List String)) (force : Bool)
    (r : Near × List WithStep × Option Cache) (h : near.isTable = true) : stubStepOld key near cols force r = r := by
  simp [stubStepOld, h]

theorem toWithFormOld_isTable (key : KeyFn) (cache : Option Cache) {near : Near} (h : near.isTable = true) :
    toWithFormOld key cache near = (near, [], cache) := by
  cases near <;> simp_all [Near.isTable, toWithFormOld]

theorem toWithFormOld_name (key : KeyFn) (cache : Option Cache) (near : Near) :
    (toWithFormOld key cache near).1.name = near.name := by
  cases near <;> simp only [toWithFormOld] <;> (try split) <;> rfl

theorem stubStepOld_hit (key : KeyFn) {near : Near} (cols : Option (List String)) (force : Bool)
    (r : Near × List WithStep × Option Cache) (ht : ¬ near.isTable = true) {nm : String}
    (h : (r.2.2.bind fun c => lookupLast c (key near cols)) = some nm) :
    stubStepOld key near cols force r = (.cte nm, [], r.2.2) := by
  simp only [stubStepOld, if_neg ht, h]

theorem stubStepOld_miss (key : KeyFn) {near : Near} (cols : Option (List String)) (force : Bool)
    (r : Near × List WithStep × Option Cache) (ht : ¬ near.isTable = true)
    (h : (r.2.2.bind fun c => lookupLast c (key near cols)) = none) :
    stubStepOld key near cols force r = (.cte r.1.name,
       if r.2.1.any (fun st => st.name == r.1.name) then r.2.1 else r.2.1 ++ [⟨r.1.name, r.1, cols, force⟩],
       r.2.2.map (fun c => c ++ [(key near cols, r.1.name)])) := by
  simp only [stubStepOld, if_neg ht, h]

/-- the sequence a container contributes: names are those of the sub-tree, without repetition -/
theorem stubStepOld_names (key : KeyFn) (near : Near) (cols : Option (List String)) (force : Bool) (cache : Option Cache)
    (hnd : near.names.Nodup)
    (ih : (stepNames (toWithFormOld key cache near).2.1).Nodup ∧
          ∀ n ∈ stepNames (toWithFormOld key cache near).2.1, n ∈ near.names.tail) :
    (stepNames (stubStepOld key near cols force (toWithFormOld key cache near)).2.1).Nodup ∧
      ∀ n ∈ stepNames (stubStepOld key near cols force (toWithFormOld key cache near)).2.1, n ∈ near.names := by
  by_cases ht : near.isTable = true
  · rw [stubStepOld_isTable key cols force _ ht, toWithFormOld_isTable key cache ht]
    simp [stepNames]
  · have hn := Near.names_of_not_isTable ht
    have hnotin : near.name ∉ near.names.tail := by
      rw [hn] at hnd; exact (List.nodup_cons.mp hnd).1
    cases hl : ((toWithFormOld key cache near).2.2.bind fun c => lookupLast c (key near cols)) with
    | some nm => rw [stubStepOld_hit key cols force _ ht hl]; simp [stepNames]
    | none =>
      rw [stubStepOld_miss key cols force _ ht hl]
      simp only [toWithFormOld_name]
      have hany : ((toWithFormOld key cache near).2.1.any fun st => st.name == near.name) = false := by
        rw [Bool.eq_false_iff]
        intro h
        rw [List.any_eq_true] at h
        obtain ⟨x, hx, hxe⟩ := h
        have hxe' : x.name = near.name := by simpa using hxe
        apply hnotin
        rw [← hxe']
        exact ih.2 _ (by simp only [stepNames, List.mem_map]; exact ⟨x, hx, rfl⟩)
      simp only [hany, Bool.false_eq_true, if_false]
      constructor
      · simp only [stepNames, List.map_append, List.map_cons, List.map_nil]
        rw [List.nodup_append]
        refine ⟨ih.1, by simp, ?_⟩
        intro a ha b hb
        simp only [List.mem_singleton] at hb
        subst hb
        intro he; subst he
        exact hnotin (ih.2 _ ha)
      · intro n hn'
        simp only [stepNames, List.map_append, List.map_cons, List.map_nil, List.mem_append, List.mem_singleton] at hn'
        rw [hn]
        cases hn' with
        | inl h => exact List.mem_cons_of_mem _ (ih.2 _ h)
        | inr h => subst h; exact List.mem_cons_self

theorem pair_names (ln rn : List String) (s1 s2 : List WithStep) (hnd : (ln ++ rn).Nodup)
    (h1 : (stepNames s1).Nodup ∧ ∀ n ∈ stepNames s1, n ∈ ln)
    (h2 : (stepNames s2).Nodup ∧ ∀ n ∈ stepNames s2, n ∈ rn) :
    appendUnseen s1 s2 = s1 ++ s2 ∧ (stepNames (s1 ++ s2)).Nodup ∧ ∀ n ∈ stepNames (s1 ++ s2), n ∈ ln ++ rn := by
  rw [List.nodup_append] at hnd
  have hdis : ∀ n ∈ stepNames s2, n ∉ stepNames s1 := by
    intro n hn2 hn1
    exact hnd.2.2 n (h1.2 n hn1) n (h2.2 n hn2) rfl
  refine ⟨appendUnseen_eq s2 s1 h2.1 hdis, ?_, ?_⟩
  · simp only [stepNames, List.map_append]
    rw [List.nodup_append]
    refine ⟨h1.1, h2.1, ?_⟩
    intro a ha b hb he
    subst he
    exact hdis a hb ha
  · intro n hn
    simp only [stepNames, List.map_append, List.mem_append] at hn ⊢
    cases hn with
    | inl h => exact Or.inl (h1.2 n h)
    | inr h => exact Or.inr (h2.2 n h)

theorem toWithFormOld_names (key : KeyFn) (near : Near) : near.names.Nodup → ∀ cache,
    (stepNames (toWithFormOld key cache near).2.1).Nodup ∧
      ∀ n ∈ stepNames (toWithFormOld key cache near).2.1, n ∈ near.names.tail := by
  induction near with
  | table n ts => intro _ cache; simp [toWithFormOld, stepNames]
  | cte n => intro _ cache; simp [toWithFormOld, stepNames]
  | unary name terms agg sub sc sf mg deps k ih =>
    intro hnd cache
    simp only [Near.names, List.nodup_cons] at hnd
    simp only [toWithFormOld]
    split
    · simp [stepNames]
    · simpa [Near.names] using stubStepOld_names key sub sc false cache hnd.2 (ih hnd.2 cache)
  | join name terms l lc ln r rc rn jt oa ob k ihl ihr =>
    intro hnd cache
    simp only [Near.names, List.nodup_cons] at hnd
    have hl := (List.nodup_append.mp hnd.2).1
    have hr := (List.nodup_append.mp hnd.2).2.1
    simp only [toWithFormOld]
    split
    · simp [stepNames]
    · have h1 := stubStepOld_names key l (some lc) false cache hl (ihl hl cache)
      have h2 := stubStepOld_names key r (some rc) false
        (stubStepOld key l (some lc) false (toWithFormOld key cache l)).2.2 hr (ihr hr _)
      have := pair_names _ _ _ _ hnd.2 h1 h2
      simp only [Near.names, List.tail_cons]
      rw [this.1]
      exact this.2
  | union name terms l r cs k ihl ihr =>
    intro hnd cache
    simp only [Near.names, List.nodup_cons] at hnd
    have hl := (List.nodup_append.mp hnd.2).1
    have hr := (List.nodup_append.mp hnd.2).2.1
    simp only [toWithFormOld]
    split
    · simp [stepNames]
    · have h1 := stubStepOld_names key l (some cs) true cache hl (ihl hl cache)
      have h2 := stubStepOld_names key r (some cs) true
        (stubStepOld key l (some cs) true (toWithFormOld key cache l)).2.2 hr (ihr hr _)
      have := pair_names _ _ _ _ hnd.2 h1 h2
      simp only [Near.names, List.tail_cons]
      rw [this.1]
      exact this.2

/-! ### normal forms: the `is_table` shortcuts of `to_with_form` do not change the outcome -/

theorem toWithFormOld_join (key : KeyFn) (cache : Option Cache) (name : String) (terms : Terms) (l : Near) (lc : List String)
    (ln : String) (r : Near) (rc : List String) (rn : String) (jt : JoinType) (oa ob : List String) (k : Option String) :
    toWithFormOld key cache (.join name terms l lc ln r rc rn jt oa ob k) =
      (.join name terms (stubStepOld key l (some lc) false (toWithFormOld key cache l)).1 lc ln
          (stubStepOld key r (some rc) false (toWithFormOld key (stubStepOld key l (some lc) false (toWithFormOld key cache l)).2.2 r)).1
          rc rn jt oa ob k,
        appendUnseen (stubStepOld key l (some lc) false (toWithFormOld key cache l)).2.1
          (stubStepOld key r (some rc) false (toWithFormOld key (stubStepOld key l (some lc) false (toWithFormOld key cache l)).2.2 r)).2.1,
        (stubStepOld key r (some rc) false (toWithFormOld key (stubStepOld key l (some lc) false (toWithFormOld key cache l)).2.2 r)).2.2) := by
  simp only [toWithFormOld]
  split
  · rename_i h
    simp only [Bool.and_eq_true] at h
    simp only [stubStepOld_isTable key _ _ _ h.1, stubStepOld_isTable key _ _ _ h.2, toWithFormOld_isTable key _ h.1,
      toWithFormOld_isTable key _ h.2, appendUnseen, List.foldl_nil]
  · rfl

theorem toWithFormOld_union (key : KeyFn) (cache : Option Cache) (name : String) (terms : List String) (l r : Near)
    (cs : List String) (k : Option String) :
    toWithFormOld key cache (.union name terms l r cs k) =
      (.union name terms (stubStepOld key l (some cs) true (toWithFormOld key cache l)).1
          (stubStepOld key r (some cs) true (toWithFormOld key (stubStepOld key l (some cs) true (toWithFormOld key cache l)).2.2 r)).1 cs k,
        appendUnseen (stubStepOld key l (some cs) true (toWithFormOld key cache l)).2.1
          (stubStepOld key r (some cs) true (toWithFormOld key (stubStepOld key l (some cs) true (toWithFormOld key cache l)).2.2 r)).2.1,
        (stubStepOld key r (some cs) true (toWithFormOld key (stubStepOld key l (some cs) true (toWithFormOld key cache l)).2.2 r)).2.2) := by
  simp only [toWithFormOld]
  split
  · rename_i h
    simp only [Bool.and_eq_true] at h
    simp only [stubStepOld_isTable key _ _ _ h.1, stubStepOld_isTable key _ _ _ h.2, toWithFormOld_isTable key _ h.1,
      toWithFormOld_isTable key _ h.2, appendUnseen, List.foldl_nil]
  · rfl

theorem toWithFormOld_unary (key : KeyFn) (cache : Option Cache) (name : String) (terms : Option Terms) (agg : Bool) (sub : Near)
    (sc : Option (List String)) (sf : Suffix) (mg : Bool) (deps : Option (List (String × List String))) (k : Option String) :
    ∃ mg' deps', toWithFormOld key cache (.unary name terms agg sub sc sf mg deps k) =
      (.unary name terms agg (stubStepOld key sub sc false (toWithFormOld key cache sub)).1 sc sf mg' deps' k,
        (stubStepOld key sub sc false (toWithFormOld key cache sub)).2.1,
        (stubStepOld key sub sc false (toWithFormOld key cache sub)).2.2) := by
  simp only [toWithFormOld]
  split
  · rename_i h
    exact ⟨mg, deps, by simp only [stubStepOld_isTable key _ _ _ h, toWithFormOld_isTable key _ h]⟩
  · exact ⟨false, none, rfl⟩

/-! ### structure: the cache only grows, by keys of the sub-tree; afterwards every key of the sub-tree is present;
nothing is added when they all were present before -/

/-- the container itself (unless table-like) followed by its bound descendants -/
def bdesc (n : Near) (c : Option (List String)) (f : Bool) : List Bound :=
  (if n.isTable then [] else [(n, c, f)]) ++ n.desc

def bkey (key : KeyFn) (x : Bound) : String := key x.1 x.2.1

theorem desc_unary (name : String) (terms : Option Terms) (agg : Bool) (sub : Near)
    (sc : Option (List String)) (sf : Suffix) (mg : Bool) (deps : Option (List (String × List String))) (k : Option String) :
    (Near.unary name terms agg sub sc sf mg deps k).desc = bdesc sub sc false := rfl

theorem desc_join (name : String) (terms : Terms) (l : Near) (lc : List String)
    (ln : String) (r : Near) (rc : List String) (rn : String) (jt : JoinType) (oa ob : List String) (k : Option String) :
    (Near.join name terms l lc ln r rc rn jt oa ob k).desc = bdesc l (some lc) false ++ bdesc r (some rc) false := rfl

theorem desc_union (name : String) (terms : List String) (l r : Near) (cs : List String) (k : Option String) :
    (Near.union name terms l r cs k).desc = bdesc l (some cs) true ++ bdesc r (some cs) true := rfl

theorem desc_of_isTable {n : Near} (h : n.isTable = true) : n.desc = [] := by
  cases n <;> simp_all [Near.isTable, Near.desc]

theorem bdesc_of_isTable {n : Near} (c : Option (List String)) (f : Bool) (h : n.isTable = true) : bdesc n c f = [] := by
  simp [bdesc, h, desc_of_isTable h]

theorem bdesc_of_not_isTable {n : Near} (c : Option (List String)) (f : Bool) (h : ¬ n.isTable = true) :
    bdesc n c f = (n, c, f) :: n.desc := by
  simp [bdesc, h]

/-- what processing the bound sub-queries `ds` does to the cache `c` (result `res`) -/
def CacheGrow (key : KeyFn) (ds : List Bound) (c : Cache) (res : Option Cache) : Prop :=
  ∃ more : Cache, res = some (c ++ more) ∧ (∀ e ∈ more, e.1 ∈ ds.map (bkey key)) ∧
    (∀ k ∈ ds.map (bkey key), k ∈ (c ++ more).map (·.1)) ∧
    ((∀ k ∈ ds.map (bkey key), k ∈ c.map (·.1)) → more = [])

theorem CacheGrow.nil (key : KeyFn) (c : Cache) : CacheGrow key [] c (some c) :=
  ⟨[], by simp, by simp, by simp, fun _ => rfl⟩

theorem CacheGrow.append {key : KeyFn} {d1 d2 : List Bound} {c c1 : Cache} {res : Option Cache}
    (h1 : CacheGrow key d1 c (some c1)) (h2 : CacheGrow key d2 c1 res) : CacheGrow key (d1 ++ d2) c res := by
  obtain ⟨m1, e1, a1, b1, n1⟩ := h1
  obtain ⟨m2, e2, a2, b2, n2⟩ := h2
  simp only [Option.some.injEq] at e1
  subst e1
  refine ⟨m1 ++ m2, by rw [e2, List.append_assoc], ?_, ?_, ?_⟩
  · intro e he
    simp only [List.map_append, List.mem_append] at he ⊢
    cases he with
    | inl h => exact Or.inl (a1 e h)
    | inr h => exact Or.inr (a2 e h)
  · intro k hk
    simp only [List.map_append, List.mem_append] at hk
    rw [← List.append_assoc]
    cases hk with
    | inl h =>
      have := b1 k h
      simp only [List.map_append, List.mem_append] at this ⊢
      exact Or.inl this
    | inr h => exact b2 k h
  · intro hall
    have hm1 : m1 = [] := n1 (fun k hk => hall k (by simp only [List.map_append, List.mem_append]; exact Or.inl hk))
    subst hm1
    have hm2 : m2 = [] := n2 (fun k hk => by
      simpa using hall k (by simp only [List.map_append, List.mem_append]; exact Or.inr hk))
    subst hm2
    rfl

theorem stubStepOld_cache (key : KeyFn) (near : Near) (cols : Option (List String)) (force : Bool) (c : Cache)
    (ih : CacheGrow key near.desc c (toWithFormOld key (some c) near).2.2) :
    CacheGrow key (bdesc near cols force) c (stubStepOld key near cols force (toWithFormOld key (some c) near)).2.2 := by
  by_cases ht : near.isTable = true
  · rw [stubStepOld_isTable key cols force _ ht, toWithFormOld_isTable key _ ht, bdesc_of_isTable _ _ ht]
    exact CacheGrow.nil key c
  · obtain ⟨m1, e1, a1, b1, n1⟩ := ih
    rw [bdesc_of_not_isTable _ _ ht]
    cases hl : ((toWithFormOld key (some c) near).2.2.bind fun c => lookupLast c (key near cols)) with
    | some nm =>
      rw [stubStepOld_hit key cols force _ ht hl]
      rw [e1] at hl
      simp only [Option.bind_some] at hl
      have hmem := lookupLast_some_mem _ _ _ hl
      refine ⟨m1, e1, ?_, ?_, ?_⟩
      · intro e he; simp only [List.map_cons, List.mem_cons]; exact Or.inr (a1 e he)
      · intro k hk
        simp only [List.map_cons, List.mem_cons] at hk
        cases hk with
        | inl h => subst h; simp only [List.mem_map]; exact ⟨_, hmem, rfl⟩
        | inr h => exact b1 k h
      · intro hall
        exact n1 (fun k hk => hall k (by simp only [List.map_cons, List.mem_cons]; exact Or.inr hk))
    | none =>
      rw [stubStepOld_miss key cols force _ ht hl]
      rw [e1] at hl
      simp only [Option.bind_some] at hl
      simp only [e1, Option.map_some]
      refine ⟨m1 ++ [(key near cols, (toWithFormOld key (some c) near).1.name)], by rw [List.append_assoc], ?_, ?_, ?_⟩
      · intro e he
        simp only [List.mem_append, List.mem_singleton] at he
        simp only [List.map_cons, List.mem_cons]
        cases he with
        | inl h => exact Or.inr (a1 e h)
        | inr h => subst h; exact Or.inl rfl
      · intro k hk
        simp only [List.map_cons, List.mem_cons] at hk
        rw [← List.append_assoc]
        simp only [List.map_append, List.map_cons, List.map_nil, List.mem_append, List.mem_singleton]
        cases hk with
        | inl h => exact Or.inr h
        | inr h =>
          have := b1 k h
          simp only [List.map_append, List.mem_append] at this
          exact Or.inl this
      · intro hall
        exfalso
        have hm1 : m1 = [] :=
          n1 (fun k hk => hall k (by simp only [List.map_cons, List.mem_cons]; exact Or.inr hk))
        subst hm1
        rw [lookupLast_none_iff_notMem] at hl
        apply hl
        simpa using hall (key near cols) (by simp [bkey])

theorem toWithFormOld_cache (key : KeyFn) (near : Near) : ∀ c : Cache,
    CacheGrow key near.desc c (toWithFormOld key (some c) near).2.2 := by
  induction near with
  | table n ts => intro c; simpa [toWithFormOld, Near.desc] using CacheGrow.nil key c
  | cte n => intro c; simpa [toWithFormOld, Near.desc] using CacheGrow.nil key c
  | unary name terms agg sub sc sf mg deps k ih =>
    intro c
    obtain ⟨mg', deps', he⟩ := toWithFormOld_unary key (some c) name terms agg sub sc sf mg deps k
    rw [he, desc_unary]
    exact stubStepOld_cache key sub sc false c (ih c)
  | join name terms l lc ln r rc rn jt oa ob k ihl ihr =>
    intro c
    rw [toWithFormOld_join, desc_join]
    have h1 := stubStepOld_cache key l (some lc) false c (ihl c)
    obtain ⟨m1, e1, -⟩ := id h1
    rw [e1] at h1 ⊢
    exact CacheGrow.append h1 (stubStepOld_cache key r (some rc) false _ (ihr _))
  | union name terms l r cs k ihl ihr =>
    intro c
    rw [toWithFormOld_union, desc_union]
    have h1 := stubStepOld_cache key l (some cs) true c (ihl c)
    obtain ⟨m1, e1, -⟩ := id h1
    rw [e1] at h1 ⊢
    exact CacheGrow.append h1 (stubStepOld_cache key r (some cs) true _ (ihr _))

theorem toWithFormOld_cache_none (key : KeyFn) (near : Near) : (toWithFormOld key none near).2.2 = none := by
  induction near with
  | table n ts => rfl
  | cte n => rfl
  | unary name terms agg sub sc sf mg deps k ih =>
    obtain ⟨mg', deps', he⟩ := toWithFormOld_unary key none name terms agg sub sc sf mg deps k
    rw [he]
    simp only [stubStepOld, ih, Option.bind_none, Option.map_none]
    split <;> simp [ih]
  | join name terms l lc ln r rc rn jt oa ob k ihl ihr =>
    rw [toWithFormOld_join]
    have h1 : (stubStepOld key l (some lc) false (toWithFormOld key none l)).2.2 = none := by
      simp only [stubStepOld, ihl, Option.bind_none, Option.map_none]; split <;> simp [ihl]
    rw [h1]
    simp only [stubStepOld, ihr, Option.bind_none, Option.map_none]; split <;> simp [ihr]
  | union name terms l r cs k ihl ihr =>
    rw [toWithFormOld_union]
    have h1 : (stubStepOld key l (some cs) true (toWithFormOld key none l)).2.2 = none := by
      simp only [stubStepOld, ihl, Option.bind_none, Option.map_none]; split <;> simp [ihl]
    rw [h1]
    simp only [stubStepOld, ihr, Option.bind_none, Option.map_none]; split <;> simp [ihr]

/-! ### semantics: congruence, strictness, errors -/

section Sem
variable (Θ : Interp) (ec : EngineCfg) (env : Env)

theorem semNear_unary_congr (c1 c2 : List (String × Table))
    (n n' : String) (ts : Option Terms) (agg : Bool) (s1 s2 : Near) (sc : Option (List String)) (sf : Suffix)
    (m m' : Bool) (d d' : Option (List (String × List String))) (k k' : Option String) (cols : Option (List String)) (f f' : Bool)
    (h : semNear Θ ec env c1 s1 sc false = semNear Θ ec env c2 s2 sc false) :
    semNear Θ ec env c1 (.unary n ts agg s1 sc sf m d k) cols f =
      semNear Θ ec env c2 (.unary n' ts agg s2 sc sf m' d' k') cols f' := by
  simp only [semNear, h]

theorem semNear_join_congr (c1 c2 : List (String × Table))
    (n n' : String) (ts : Terms) (l1 l2 r1 r2 : Near) (lc rc : List String) (ln rn ln' rn' : String) (jt : JoinType)
    (oa ob : List String) (k k' : Option String) (cols : Option (List String)) (f f' : Bool)
    (hl : semNear Θ ec env c1 l1 (some lc) false = semNear Θ ec env c2 l2 (some lc) false)
    (hr : semNear Θ ec env c1 r1 (some rc) false = semNear Θ ec env c2 r2 (some rc) false) :
    semNear Θ ec env c1 (.join n ts l1 lc ln r1 rc rn jt oa ob k) cols f =
      semNear Θ ec env c2 (.join n' ts l2 lc ln' r2 rc rn' jt oa ob k') cols f' := by
  simp only [semNear, hl, hr]

theorem semNear_union_congr (c1 c2 : List (String × Table))
    (n n' : String) (ts : List String) (l1 l2 r1 r2 : Near) (cs : List String) (k k' : Option String)
    (cols : Option (List String)) (f f' : Bool)
    (hl : semNear Θ ec env c1 l1 (some cs) true = semNear Θ ec env c2 l2 (some cs) true)
    (hr : semNear Θ ec env c1 r1 (some cs) true = semNear Θ ec env c2 r2 (some cs) true) :
    semNear Θ ec env c1 (.union n ts l1 r1 cs k) cols f = semNear Θ ec env c2 (.union n' ts l2 r2 cs k') cols f' := by
  simp only [semNear, hl, hr]

theorem semNear_table_ctes (c1 c2 : List (String × Table)) (n : String) (ts : List String)
    (cols : Option (List String)) (f : Bool) :
    semNear Θ ec env c1 (.table n ts) cols f = semNear Θ ec env c2 (.table n ts) cols f := by
  simp only [semNear]

theorem semNear_cte (c : List (String × Table)) (nm : String) (cols : Option (List String)) (f : Bool) :
    semNear Θ ec env c (.cte nm) cols f = (match lookupLast c nm with | none => .error .other | some t => .ok t) := by
  simp only [semNear]
  cases lookupLast c nm <;> rfl

/-- every error of the SQL semantics is the same value -/
theorem semNear_err (c : List (String × Table)) (q : Near) :
    ∀ cols f e, semNear Θ ec env c q cols f = .error e → e = .other := by
  induction q with
  | table n ts =>
    intro cols f e h
    simp only [semNear] at h
    repeat' split at h
    all_goals first | (cases h; rfl) | cases h
  | cte n =>
    intro cols f e h
    simp only [semNear] at h
    split at h <;> cases h
    rfl
  | unary n ts agg s sc sf m d k ih =>
    intro cols f e h
    simp only [semNear] at h
    cases hs : semNear Θ ec env c s sc false with
    | error e' =>
      rw [hs] at h
      have := ih _ _ _ hs
      subst this
      cases h; rfl
    | ok t =>
      rw [hs] at h
      simp only [bind, Except.bind, pure, Except.pure] at h
      repeat' split at h
      all_goals cases h
  | join n ts l lc ln r rc rn jt oa ob k ihl ihr =>
    intro cols f e h
    simp only [semNear] at h
    cases hl : semNear Θ ec env c l (some lc) false with
    | error e' =>
      rw [hl] at h
      have := ihl _ _ _ hl
      subst this
      cases h; rfl
    | ok tl =>
      cases hr : semNear Θ ec env c r (some rc) false with
      | error e' =>
        rw [hl, hr] at h
        have := ihr _ _ _ hr
        subst this
        cases h; rfl
      | ok tr =>
        rw [hl, hr] at h
        simp only [bind, Except.bind, pure, Except.pure] at h
        repeat' split at h
        all_goals first | (cases h; rfl) | cases h
  | union n ts l r cs k ihl ihr =>
    intro cols f e h
    simp only [semNear] at h
    cases hl : semNear Θ ec env c l (some cs) true with
    | error e' =>
      rw [hl] at h
      have := ihl _ _ _ hl
      subst this
      cases h; rfl
    | ok tl =>
      cases hr : semNear Θ ec env c r (some cs) true with
      | error e' =>
        rw [hl, hr] at h
        have := ihr _ _ _ hr
        subst this
        cases h; rfl
      | ok tr =>
        rw [hl, hr] at h
        simp only [bind, Except.bind, pure, Except.pure] at h
        repeat' split at h
        all_goals first | (cases h; rfl) | cases h

theorem semNear_unary_err (c : List (String × Table))
    (n : String) (ts : Option Terms) (agg : Bool) (s : Near) (sc : Option (List String)) (sf : Suffix)
    (m : Bool) (d : Option (List (String × List String))) (k : Option String) (cols : Option (List String)) (f : Bool)
    (h : semNear Θ ec env c s sc false = .error .other) :
    semNear Θ ec env c (.unary n ts agg s sc sf m d k) cols f = .error .other := by
  simp only [semNear, h]; rfl

theorem semNear_join_err (c : List (String × Table))
    (n : String) (ts : Terms) (l r : Near) (lc rc : List String) (ln rn : String) (jt : JoinType)
    (oa ob : List String) (k : Option String) (cols : Option (List String)) (f : Bool)
    (h : semNear Θ ec env c l (some lc) false = .error .other ∨ semNear Θ ec env c r (some rc) false = .error .other) :
    semNear Θ ec env c (.join n ts l lc ln r rc rn jt oa ob k) cols f = .error .other := by
  simp only [semNear]
  cases hl : semNear Θ ec env c l (some lc) false with
  | error e => rw [semNear_err Θ ec env c l _ _ _ hl]; rfl
  | ok tl =>
    cases h with
    | inl h => rw [hl] at h; cases h
    | inr h => rw [h]; rfl

theorem semNear_union_err (c : List (String × Table))
    (n : String) (ts : List String) (l r : Near) (cs : List String) (k : Option String) (cols : Option (List String)) (f : Bool)
    (h : semNear Θ ec env c l (some cs) true = .error .other ∨ semNear Θ ec env c r (some cs) true = .error .other) :
    semNear Θ ec env c (.union n ts l r cs k) cols f = .error .other := by
  simp only [semNear]
  cases hl : semNear Θ ec env c l (some cs) true with
  | error e => rw [semNear_err Θ ec env c l _ _ _ hl]; rfl
  | ok tl =>
    cases h with
    | inl h => rw [hl] at h; cases h
    | inr h => rw [h]; rfl

/-! ### the WITH entries evaluated in order -/

theorem runSteps_nil (ctes : List (String × Table)) : runSteps Θ ec env ctes [] = .ok ctes := rfl

theorem runSteps_append (ctes : List (String × Table)) (a b : List WithStep) :
    runSteps Θ ec env ctes (a ++ b) = (runSteps Θ ec env ctes a >>= fun c => runSteps Θ ec env c b) := by
  simp only [runSteps, List.foldlM_append]

theorem runSteps_single (ctes : List (String × Table)) (st : WithStep) :
    runSteps Θ ec env ctes [st] =
      (semNear Θ ec env ctes st.near st.cols st.force >>= fun t => pure (ctes ++ [(st.name, t)])) := by
  simp only [runSteps, List.foldlM_cons, List.foldlM_nil, bind_pure]

theorem semWith_eq (steps : List WithStep) (last : Near) :
    semWith Θ ec env steps last = (runSteps Θ ec env [] steps >>= fun ctes => semNear Θ ec env ctes last none true) := rfl

end Sem

end DAVerif.Sql
