import DAVerif.Proofs.SolLocf
/-!
`def_multi_column_map` maps every listed column through the mapping table (proof for the Pandas configuration of the
executor model, with the record transforms of `Solutions/MultiColumnMap.lean`).

un-pivot (one row per record and listed column) → left join with the mapping table on (column name, value) →
optional coalesce → pivot back (blocks aligned by position after sorting on the record keys) → optional rename.
-/
namespace DAVerif.Sol
open DAVerif DAVerif.Solutions DAVerif.Spec21

/-! ### generic facts -/

/-- a left join in which every left row has at most one partner: up to row order, one output row per left row -/
theorem leftJoin_perm {α β γ : Type} (A : List α) (B : List β) (m : α → β → Bool) (mk : α → Option β → γ)
    (h1 : ∀ a ∈ A, (B.filter (m a)).length ≤ 1) :
    (A.flatMap (fun a => (B.filter (m a)).map (fun b => mk a (some b)))
      ++ (A.filter (fun a => !(B.any (m a)))).map (fun a => mk a none)).Perm
    (A.map (fun a => mk a (B.filter (m a)).head?)) := by
  have hp : A.flatMap (fun a => (B.filter (m a)).map (fun b => mk a (some b)))
      = (A.filter (fun a => !((B.filter (m a)).map (fun b => mk a (some b))).isEmpty)).map
          (fun a => mk a (B.filter (m a)).head?) := by
    apply flatMap_le_one
    intro a ha
    have := h1 a ha
    cases hf : B.filter (m a) with
    | nil => exact Or.inl rfl
    | cons b l =>
      rw [hf] at this
      have : l = [] := by
        cases l with
        | nil => rfl
        | cons c l' => simp at this
      subst this
      exact Or.inr rfl
  have hl : (A.filter (fun a => !(B.any (m a)))).map (fun a => mk a none)
      = (A.filter (fun a => !(!((B.filter (m a)).map (fun b => mk a (some b))).isEmpty))).map
          (fun a => mk a (B.filter (m a)).head?) := by
    have hf : A.filter (fun a => !(B.any (m a)))
        = A.filter (fun a => !(!((B.filter (m a)).map (fun b => mk a (some b))).isEmpty)) := by
      apply List.filter_congr
      intro a _
      rw [any_eq_filter_nonempty]
      cases B.filter (m a) <;> rfl
    rw [hf]
    apply List.map_congr_left
    intro a ha
    have := (List.mem_filter.mp ha).2
    cases hf' : B.filter (m a) with
    | nil => rfl
    | cons b l => rw [hf'] at this; simp at this
  rw [hp, hl, ← List.map_append]
  exact (List.filter_append_perm _ _).map _

/-- sorting commutes with a map that keeps the order columns -/
theorem sortRows_map (cs : List String) (f : Row → Row) (l : List Row)
    (hf : ∀ r ∈ l, ∀ c ∈ cs, (f r).get c = r.get c) :
    sortRows cs [] (l.map f) = (sortRows cs [] l).map f := by
  unfold sortRows
  symm
  apply List.map_mergeSort
  intro a ha b hb
  exact (rowLe_congr (hf a ha) (hf b hb)).symm

theorem nodupKeys_iff (l : List (List Val)) : keyedBy.nodupKeys l = true ↔ l.Nodup := by
  induction l with
  | nil => simp [keyedBy.nodupKeys]
  | cons k l ih =>
    simp only [keyedBy.nodupKeys, Bool.and_eq_true, Bool.not_eq_true', List.nodup_cons, ih]
    constructor
    · rintro ⟨h1, h2⟩
      exact ⟨by simpa using h1, h2⟩
    · rintro ⟨h1, h2⟩
      exact ⟨by simpa using h1, h2⟩

/-- rows of a keyed list with equal keys are equal -/
theorem eq_of_key_eq {ks : List String} {rows : List Row} (h : (rows.map (fun r => keyOf r ks)).Nodup)
    {a b : Row} (ha : a ∈ rows) (hb : b ∈ rows) (he : keyOf a ks = keyOf b ks) : a = b := by
  induction rows with
  | nil => cases ha
  | cons x l ih =>
    simp only [List.map_cons, List.nodup_cons] at h
    rcases List.mem_cons.mp ha with e1 | e1 <;> rcases List.mem_cons.mp hb with e2 | e2
    · rw [e1, e2]
    · subst e1
      exact absurd (List.mem_map.mpr ⟨b, e2, he.symm⟩) h.1
    · subst e2
      exact absurd (List.mem_map.mpr ⟨a, e1, he⟩) h.1
    · exact ih h.2 e1 e2

theorem get_append_of_mem_keys (r1 r2 : Row) (c : String) (h : c ∈ r1.keys) :
    Row.get (r1 ++ r2) c = Row.get r1 c := by
  induction r1 with
  | nil => cases h
  | cons kv r ih =>
    obtain ⟨k, x⟩ := kv
    simp only [Row.get, List.cons_append, List.lookup_cons]
    by_cases e : c = k
    · subst e; simp
    · have hb : (c == k) = false := by simpa using e
      simp only [hb]
      have h' : c ∈ Row.keys r := by
        simp only [Row.keys, List.map_cons, List.mem_cons] at h
        rcases h with h | h
        · exact absurd h e
        · exact h
      exact ih h'

theorem get_append_of_not_mem_keys (r1 r2 : Row) (c : String) (h : c ∉ r1.keys) :
    Row.get (r1 ++ r2) c = Row.get r2 c := by
  induction r1 with
  | nil => rfl
  | cons kv r ih =>
    obtain ⟨k, x⟩ := kv
    simp only [Row.keys, List.map_cons, List.mem_cons, not_or] at h
    have hb : (c == k) = false := by simpa using h.1
    simp only [Row.get, List.cons_append, List.lookup_cons, hb]
    exact ih h.2

theorem keys_map_mk (cs : List String) (f : String → Val) : Row.keys (cs.map (fun c => (c, f c))) = cs := by
  simp [Row.keys, List.map_map, Function.comp_def]

theorem nodup_flatMap_of {α β : Type} (l : List α) (f : α → List β) (hl : l.Nodup)
    (h1 : ∀ a ∈ l, (f a).Nodup) (h2 : ∀ a ∈ l, ∀ b ∈ l, a ≠ b → ∀ x ∈ f a, x ∉ f b) :
    (l.flatMap f).Nodup := by
  induction l with
  | nil => simp
  | cons a l ih =>
    obtain ⟨ha, hl'⟩ := List.nodup_cons.mp hl
    rw [List.flatMap_cons, List.nodup_append]
    refine ⟨h1 a List.mem_cons_self, ?_, ?_⟩
    · exact ih hl' (fun b hb => h1 b (List.mem_cons_of_mem _ hb))
        (fun b hb c hc => h2 b (List.mem_cons_of_mem _ hb) c (List.mem_cons_of_mem _ hc))
    · intro x hx y hy e
      subst e
      obtain ⟨b, hb, hxb⟩ := List.mem_flatMap.mp hy
      have hne : a ≠ b := fun e => ha (e ▸ hb)
      exact h2 a List.mem_cons_self b (List.mem_cons_of_mem _ hb) hne x hx hxb

theorem filter_key_length_le_one {ks : List String} {rows : List Row} (h : (rows.map (fun r => keyOf r ks)).Nodup)
    (k : List Val) : (rows.filter (fun r => k == keyOf r ks)).length ≤ 1 := by
  induction rows with
  | nil => simp
  | cons x l ih =>
    simp only [List.map_cons, List.nodup_cons] at h
    rw [List.filter_cons]
    by_cases e : k = keyOf x ks
    · have : l.filter (fun r => k == keyOf r ks) = [] := by
        rw [List.filter_eq_nil_iff]
        intro r hr hk
        have : keyOf r ks = keyOf x ks := by rw [← e]; exact (beq_iff_eq.mp hk).symm
        exact h.1 (List.mem_map.mpr ⟨r, hr, this⟩)
      have hb : (k == keyOf x ks) = true := by simpa using e
      simp only [hb, if_true, this, List.length_cons, List.length_nil]
      omega
    · have : (k == keyOf x ks) = false := by simpa using e
      simp only [this, Bool.false_eq_true, if_false]
      exact ih h.2

/-! ### the pivot step -/

section
variable {keys cmap : List String} {nk mk : String}

/-- the output row of the pivot for a record `r`: its keys, then one cell per listed column -/
def prow (keys cmap : List String) (w : String → Row → Val) (r : Row) : Row :=
  keys.map (fun k => (k, r.get k)) ++ cmap.map (fun c => (c, w c r))

/-- **The pivot step** on a table whose rows are, up to order, one row `R c r` per listed column `c` and record `r`
(records keyed by `keys`; `R c r` carries the record's keys, the name `c` and the value `w c r`): one row per record,
its keys and the values side by side. -/
theorem pivotTable_eq (hnd : (keys ++ [nk, mk] ++ cmap).Nodup) (hne : cmap ≠ []) (Drows : List Row)
    (hD : (Drows.map (fun r => keyOf r keys)).Nodup) (R : String → Row → Row) (w : String → Row → Val)
    (g1 : ∀ c r, ∀ k ∈ keys, (R c r).get k = r.get k) (g2 : ∀ c r, (R c r).get nk = Val.str c)
    (g3 : ∀ c r, (R c r).get mk = w c r) (T : Table) (hsub : subset (keys ++ [nk, mk]) T.cols = true)
    (hkeys : keys ≠ [])
    (hT : T.rows.Perm (cmap.flatMap (fun c => Drows.map (R c)))) :
    pivotTable keys nk mk cmap T
      = .ok ⟨keys ++ cmap, sortRows keys [] ((sortRows keys [] Drows).map (prow keys cmap w))⟩ := by
  have hcn : cmap.Nodup := (List.nodup_append.mp hnd).2.1
  have hmemT : ∀ x ∈ T.rows, ∃ c ∈ cmap, ∃ r ∈ Drows, x = R c r := by
    intro x hx
    obtain ⟨c, hc, hx'⟩ := List.mem_flatMap.mp (hT.mem_iff.mp hx)
    obtain ⟨r, hr, e⟩ := List.mem_map.mp hx'
    exact ⟨c, hc, r, hr, e.symm⟩
  unfold pivotTable
  simp only [hsub, ok?_true, bind, Except.bind, pure, Except.pure]
  by_cases hempty : Drows = []
  · subst hempty
    have : T.rows = [] := by
      have hl : cmap.flatMap (fun c => ([] : List Row).map (R c)) = [] := by
        induction cmap with
        | nil => rfl
        | cons c cs ih => simp
      rw [hl] at hT
      exact List.Perm.eq_nil hT
    simp [this, sortRows, List.mergeSort]
  · have hTne : T.rows.isEmpty = false := by
      cases hc : cmap with
      | nil => exact absurd hc hne
      | cons c cs =>
        cases hd : Drows with
        | nil => exact absurd hd hempty
        | cons r rs =>
          have hlen := hT.length_eq
          rw [hc, hd] at hlen
          simp at hlen
          cases ht : T.rows with
          | nil => rw [ht] at hlen; simp at hlen
          | cons _ _ => rfl
    simp only [hTne, Bool.false_eq_true, if_false]
    -- the table is keyed by keys ++ [nk]
    have hkeyed : keyedBy (keys ++ [nk]) T.rows = true := by
      unfold keyedBy
      have hne' : (keys ++ [nk] != []) = true := by simp
      rw [hne', Bool.true_and, Bool.or_eq_true]
      right
      rw [nodupKeys_iff]
      refine (hT.map _).nodup_iff.mpr ?_
      rw [List.map_flatMap]
      apply nodup_flatMap_of _ _ hcn
      · intro c _
        rw [List.map_map]
        have : (Drows.map ((fun r => keyOf r (keys ++ [nk])) ∘ R c))
            = (Drows.map (fun r => keyOf r keys)).map (fun k => k ++ [Val.str c]) := by
          rw [List.map_map]
          apply List.map_congr_left
          intro r _
          simp only [Function.comp, keyOf_append]
          rw [keyOf_congr (g1 c r)]
          simp [keyOf, Row.vals, g2]
        rw [this]
        unfold List.Nodup at hD ⊢
        rw [List.pairwise_map]
        exact hD.imp (fun h e => h (List.append_cancel_right e))
      · intro c _ c' _ hne x hx hx'
        rw [List.map_map] at hx hx'
        obtain ⟨r, _, rfl⟩ := List.mem_map.mp hx
        obtain ⟨r', _, e⟩ := List.mem_map.mp hx'
        simp only [Function.comp] at e
        rw [keyOf_append, keyOf_append] at e
        have := (List.append_inj' e (by simp [keyOf, Row.vals])).2
        simp only [keyOf, Row.vals, List.map_cons, List.map_nil, g2] at this
        simp only [List.cons.injEq, Val.str.injEq, and_true] at this
        exact hne this.symm
    simp only [hkeyed, ok?_true]
    -- the blocks
    have hblock : ∀ c ∈ cmap, sortRows keys [] (T.rows.filter (fun r => r.get nk == Val.str c))
        = (sortRows keys [] Drows).map (R c) := by
      intro c hc
      have hfp : (T.rows.filter (fun r => r.get nk == Val.str c)).Perm (Drows.map (R c)) := by
        refine (hT.filter _).trans ?_
        rw [flatMap_filter_single cmap (fun c => Drows.map (R c)) _ c hcn hc]
        · intro y hy
          obtain ⟨r, _, rfl⟩ := List.mem_map.mp hy
          simp [g2]
        · intro c' _ hne y hy
          obtain ⟨r, _, rfl⟩ := List.mem_map.mp hy
          rw [g2]
          simpa using hne
      have htot : TotalOn keys [] (T.rows.filter (fun r => r.get nk == Val.str c)) := by
        intro a ha b hb h1 h2
        obtain ⟨ra, hra, rfl⟩ := List.mem_map.mp (hfp.mem_iff.mp ha)
        obtain ⟨rb, hrb, rfl⟩ := List.mem_map.mp (hfp.mem_iff.mp hb)
        have hk := (tie_iff_keyOf keys [] _ _).mp ⟨h1, h2⟩
        rw [keyOf_congr (g1 c ra), keyOf_congr (g1 c rb)] at hk
        rw [eq_of_key_eq hD hra hrb hk]
      rw [sortRows_perm_eq htot hfp, sortRows_map keys (R c) Drows (fun r _ => g1 c r)]
    -- names of the blocks
    have hnames : ∀ n ∈ ((T.rows.map (fun r => r.get nk)).filter (fun v => !v.isNull)).eraseDups,
        ∃ c ∈ cmap, n = Val.str c := by
      intro n hn
      have hn' := List.mem_eraseDups.mp hn
      obtain ⟨hn1, _⟩ := List.mem_filter.mp hn'
      obtain ⟨x, hx, rfl⟩ := List.mem_map.mp hn1
      obtain ⟨c, hc, r, _, rfl⟩ := hmemT x hx
      exact ⟨c, hc, g2 c r⟩
    cases hnm : ((T.rows.map (fun r => r.get nk)).filter (fun v => !v.isNull)).eraseDups with
    | nil =>
      exfalso
      cases ht : T.rows with
      | nil => rw [ht] at hTne; cases hTne
      | cons x xs =>
        obtain ⟨c, _, r, _, e⟩ := hmemT x (by rw [ht]; exact List.mem_cons_self)
        have : x.get nk ∈ ((T.rows.map (fun r => r.get nk)).filter (fun v => !v.isNull)).eraseDups := by
          apply List.mem_eraseDups.mpr
          apply List.mem_filter.mpr
          refine ⟨List.mem_map.mpr ⟨x, by rw [ht]; exact List.mem_cons_self, rfl⟩, ?_⟩
          rw [e, g2]; rfl
        rw [hnm] at this
        cases this
    | cons n0 rest =>
      rw [hnm] at hnames
      obtain ⟨c0, hc0, rfl⟩ := hnames n0 List.mem_cons_self
      simp only []
      have hall1 : ((Val.str c0 :: rest).all (fun n => cmap.any (fun c => Val.str c == n))) = true := by
        rw [List.all_eq_true]
        intro n hn
        obtain ⟨c, hc, rfl⟩ := hnames n hn
        rw [List.any_eq_true]
        exact ⟨c, hc, by simp⟩
      have hall2 : (rest.all (fun n => (sortRows keys [] (T.rows.filter (fun r => r.get nk == n))).length
          == (sortRows keys [] (T.rows.filter (fun r => r.get nk == Val.str c0))).length)) = true := by
        rw [List.all_eq_true]
        intro n hn
        obtain ⟨c, hc, rfl⟩ := hnames n (List.mem_cons_of_mem _ hn)
        rw [hblock c hc, hblock c0 hc0]
        simp
      simp only [hall1, hall2, ok?_true]
      congr 2
      rw [hblock c0 hc0]
      congr 1
      apply List.ext_getElem
      · simp
      · intro i h1 h2
        have hi : i < (sortRows keys [] Drows).length := by simpa using h2
        simp only [List.getElem_map, List.getElem_zipIdx, Nat.zero_add, prow]
        congr 1
        · apply List.map_congr_left
          intro k hk
          rw [g1 c0 _ k hk]
        · apply List.map_congr_left
          intro c hc
          rw [hblock c hc, List.getElem?_map, List.getElem?_eq_getElem hi]
          simp only [Option.map_some, Option.getD_some, g3]

end

/-! ### the un-pivot step -/

/-- the block row for record `r` and listed column `c` -/
def urow (keys : List String) (nk vk : String) (c : String) (r : Row) : Row :=
  keys.map (fun k => (k, r.get k)) ++ [(nk, Val.str c), (vk, r.get c)]

theorem flatMap_map_nil {α β γ : Type} (l : List α) (f : α → β → γ) : l.flatMap (fun c => ([] : List β).map (f c)) = [] := by
  induction l with
  | nil => rfl
  | cons c cs ih => simp

theorem unpivotTable_eq (keys cmap : List String) (nk vk : String) (D : Table)
    (hsub : subset (keys ++ cmap) D.cols = true) (hk : keys ≠ [])
    (hD : (D.rows.map (fun r => keyOf r keys)).Nodup) :
    unpivotTable keys nk vk cmap D
      = .ok ⟨keys ++ [nk, vk], sortRows (keys ++ [nk]) [] (cmap.flatMap (fun c => D.rows.map (urow keys nk vk c)))⟩ := by
  unfold unpivotTable
  simp only [hsub, ok?_true, bind, Except.bind, pure, Except.pure]
  by_cases he : D.rows = []
  · simp only [he, List.isEmpty_nil, if_true, flatMap_map_nil]
    have : sortRows (keys ++ [nk]) [] [] = [] := by simp [sortRows]
    rw [this]
  · have : D.rows.isEmpty = false := by
      cases h : D.rows with
      | nil => exact absurd h he
      | cons _ _ => rfl
    have hkb : keyedBy keys D.rows = true := by
      unfold keyedBy
      have : (keys != []) = true := by simpa using hk
      rw [this, Bool.true_and, Bool.or_eq_true]
      exact Or.inr ((nodupKeys_iff _).mpr hD)
    simp only [this, Bool.false_eq_true, if_false, hkb, ok?_true]
    rfl

/-! ### the whole pipeline -/

/-- the facts about the names that the helper's assertions give, unpacked -/
structure McmNames (keys cmap : List String) (nk vk mk : String) : Prop where
  keys_nd : keys.Nodup
  cmap_nd : cmap.Nodup
  nk_keys : nk ∉ keys
  vk_keys : vk ∉ keys
  mk_keys : mk ∉ keys
  nk_vk : nk ≠ vk
  nk_mk : nk ≠ mk
  vk_mk : vk ≠ mk
  cmap_keys : ∀ c ∈ cmap, c ∉ keys
  nk_cmap : nk ∉ cmap
  vk_cmap : vk ∉ cmap
  mk_cmap : mk ∉ cmap

theorem McmOK.names {dcols mcols keys cmap : List String} {nk vk mk : String} {cv : Option Lit}
    {back : Option (List String)} (h : McmOK dcols mcols keys cmap nk vk mk cv back) :
    McmNames keys cmap nk vk mk := by
  have h1 := h.nodup_mid
  have h2 := h.nodup_pre
  have h3 := h.nodup_to
  have h4 := h.nodup_back
  rw [List.nodup_append] at h1 h2
  obtain ⟨hk, hm, hkm⟩ := h1
  obtain ⟨_, hc, hkc⟩ := h2
  simp only [List.nodup_cons, List.mem_cons, List.not_mem_nil, or_false, not_or, List.nodup_nil, and_true,
    not_false_eq_true] at hm
  have h3' := (List.nodup_append.mp h3).2.2
  have h4' := (List.nodup_append.mp h4).2.2
  refine ⟨hk, hc, ?_, ?_, ?_, hm.1.1, hm.1.2, hm.2, ?_, ?_, ?_, ?_⟩
  · intro e; exact hkm nk e nk (by simp) rfl
  · intro e; exact hkm vk e vk (by simp) rfl
  · intro e; exact hkm mk e mk (by simp) rfl
  · intro c hcc e; exact hkc c e c hcc rfl
  · intro e; exact h3' nk (by simp) nk e rfl
  · intro e; exact h3' vk (by simp) vk e rfl
  · intro e; exact h4' mk (by simp) mk e rfl

set_option linter.unusedSectionVars false
section
variable {keys cmap : List String} {nk vk mk : String} (hn : McmNames keys cmap nk vk mk)
include hn

theorem urow_get_key (c : String) (r : Row) {k : String} (hk : k ∈ keys) : (urow keys nk vk c r).get k = r.get k := by
  unfold urow
  rw [get_append_of_mem_keys _ _ _ (by rw [keys_map_mk]; exact hk)]
  exact get_map_mk keys (fun k => r.get k) hk

theorem urow_get_nk (c : String) (r : Row) : (urow keys nk vk c r).get nk = Val.str c := by
  unfold urow
  rw [get_append_of_not_mem_keys _ _ _ (by rw [keys_map_mk]; exact hn.nk_keys)]
  simp [Row.get]

theorem urow_get_vk (c : String) (r : Row) : (urow keys nk vk c r).get vk = r.get c := by
  unfold urow
  rw [get_append_of_not_mem_keys _ _ _ (by rw [keys_map_mk]; exact hn.vk_keys)]
  have : (vk == nk) = false := by simpa using fun e => hn.nk_vk e.symm
  simp [Row.get, List.lookup_cons, this]

/-- the joined, selected row for record `r` and column `c`, given the matching mapping row (if any) -/
def jrow (keys : List String) (nk vk mk : String) (c : String) (r : Row) (ob : Option Row) : Row :=
  (joinRow (keys ++ [nk, vk]) [nk, vk, mk] (keys ++ [nk, vk, mk]) (some (urow keys nk vk c r)) ob).select
    (keys ++ [nk, vk, mk])

theorem jrow_get_key (c : String) (r : Row) (ob : Option Row) {k : String} (hk : k ∈ keys) :
    (jrow keys nk vk mk c r ob).get k = r.get k := by
  unfold jrow
  rw [Row.select_get_of_mem (List.mem_append_left _ hk), joinRow, get_map_mk _ _ (List.mem_append_left _ hk)]
  have h1 : (keys ++ [nk, vk]).contains k = true := by simp [hk]
  have hne1 : k ≠ nk := fun e => hn.nk_keys (e ▸ hk)
  have hne2 : k ≠ vk := fun e => hn.vk_keys (e ▸ hk)
  have hne3 : k ≠ mk := fun e => hn.mk_keys (e ▸ hk)
  have h2 : [nk, vk, mk].contains k = false := by simp [hne1, hne2, hne3]
  simp only [h1, if_true, urow_get_key hn c r hk]
  cases ob with
  | none =>
    simp only []
    cases h : r.get k <;> simp [Val.isNull]
  | some b =>
    simp only [h2, Bool.false_eq_true, if_false]
    cases h : r.get k <;> simp [Val.isNull]

theorem jrow_get_nk (c : String) (r : Row) (ob : Option Row) :
    (jrow keys nk vk mk c r ob).get nk = Val.str c := by
  unfold jrow
  rw [Row.select_get_of_mem (by simp), joinRow, get_map_mk _ _ (by simp)]
  have h1 : (keys ++ [nk, vk]).contains nk = true := by simp
  simp only [h1, if_true, urow_get_nk hn, Val.isNull, Bool.false_eq_true, if_false]

theorem jrow_get_mk (c : String) (r : Row) (ob : Option Row) :
    (jrow keys nk vk mk c r ob).get mk = (match ob with | some b => b.get mk | none => Val.null) := by
  unfold jrow
  rw [Row.select_get_of_mem (by simp), joinRow, get_map_mk _ _ (by simp)]
  have h1 : (keys ++ [nk, vk]).contains mk = false := by
    simp only [List.contains_eq_mem, List.mem_append, List.mem_cons, List.not_mem_nil, or_false,
      decide_eq_false_iff_not, not_or]
    exact ⟨hn.mk_keys, fun e => hn.nk_mk e.symm, fun e => hn.vk_mk e.symm⟩
  have h2 : [nk, vk, mk].contains mk = true := by simp
  simp only [h1, Bool.false_eq_true, if_false, Val.isNull, if_true]
  cases ob with
  | none => rfl
  | some b => simp only [h2, if_true]

end

/-! #### mapping-table lookup -/

/-- the mapping row the join finds for record `r` and column `c` -/
def mapHit (keys : List String) (nk vk mk : String) (Mrows : List Row) (c : String) (r : Row) : Option Row :=
  ((Mrows.map (fun mr => mr.select [nk, vk, mk])).filter
    (fun b => keyOf (urow keys nk vk c r) [nk, vk] == keyOf b [nk, vk])).head?

theorem mapHit_get {keys cmap : List String} {nk vk mk : String} (hn : McmNames keys cmap nk vk mk)
    (Mrows : List Row) (c : String) (r : Row) :
    (match mapHit keys nk vk mk Mrows c r with | some b => b.get mk | none => Val.null)
      = mapLookup nk vk mk Mrows c (r.get c) := by
  unfold mapHit mapLookup
  rw [List.filter_map, List.head?_map, List.head?_filter]
  have hcongr : Mrows.find? ((fun b => keyOf (urow keys nk vk c r) [nk, vk] == keyOf b [nk, vk]) ∘
        fun mr => mr.select [nk, vk, mk])
      = Mrows.find? (fun mr => mr.get nk == Val.str c && mr.get vk == r.get c) := by
    apply Locf.find?_congr_mem
    intro mr _
    simp only [Function.comp, keyOf, Row.vals, List.map_cons, List.map_nil, urow_get_nk hn, urow_get_vk hn]
    rw [Row.select_get_of_mem (by simp), Row.select_get_of_mem (by simp)]
    rw [Bool.eq_iff_iff]
    simp only [beq_iff_eq, List.cons.injEq, and_true, Bool.and_eq_true]
    constructor
    · rintro ⟨h1, h2⟩; exact ⟨h1.symm, h2.symm⟩
    · rintro ⟨h1, h2⟩; exact ⟨h1.symm, h2.symm⟩
  rw [hcongr]
  cases Mrows.find? (fun mr => mr.get nk == Val.str c && mr.get vk == r.get c) with
  | none => rfl
  | some mr =>
    simp only [Option.map_some]
    exact Row.select_get_of_mem (by simp)

/-! #### up to the join -/

theorem pivot_ne_unpivot {keys cmap : List String} {nk vk mk : String} (hn : McmNames keys cmap nk vk mk) :
    pivotRecMap keys nk mk cmap ≠ unpivotRecMap keys nk vk cmap := by
  intro e
  have := congrArg RecMap.produced e
  simp only [pivotRecMap, unpivotRecMap] at this
  have h2 := List.append_cancel_left this
  have : nk ∈ cmap := by rw [h2]; simp
  exact hn.nk_cmap this

section
variable {dcols mcols keys cmap : List String} {nk vk mk : String} {cv : Option Lit} {back : Option (List String)}
  (hok : McmOK dcols mcols keys cmap nk vk mk cv back)
include hok

omit hok in
theorem mcm_appendNew {keys cmap : List String} {nk vk mk : String} (hn : McmNames keys cmap nk vk mk) :
    appendNew (keys ++ [nk, vk]) [nk, vk, mk] = keys ++ [nk, vk, mk] := by
  have h1 : (keys ++ [nk, vk]).contains nk = true := by simp
  have h2 : (keys ++ [nk, vk]).contains vk = true := by simp
  have h3 : (keys ++ [nk, vk]).contains mk = false := by
    simp only [List.contains_eq_mem, List.mem_append, List.mem_cons, List.not_mem_nil, or_false,
      decide_eq_false_iff_not, not_or]
    exact ⟨hn.mk_keys, fun e => hn.nk_mk e.symm, fun e => hn.vk_mk e.symm⟩
  simp only [appendNew, List.foldl_cons, List.foldl_nil, h1, h2, h3, if_true, Bool.false_eq_true, if_false,
    List.append_assoc]
  rfl

theorem mcm_join_cols (dn mn : String) :
    (Ops.join (.convert (.selectCols (.table dn dcols) (keys ++ cmap)) (unpivotRecMap keys nk vk cmap))
      (.selectCols (.table mn mcols) [nk, vk, mk]) [nk, vk] [nk, vk] .left).cols = keys ++ [nk, vk, mk] := by
  have hn := hok.names
  have h1 : ((keys ++ [nk, vk, mk]).length == (keys ++ [nk, vk]).length) = false := by simp
  have h2 : ((keys ++ [nk, vk, mk]).all (fun c => [nk, vk, mk].contains c)) = false := by
    rw [List.all_eq_false]
    cases hk : keys with
    | nil => exact absurd hk hok.keys_ne
    | cons k ks =>
      have hkm : k ∈ keys := by rw [hk]; exact List.mem_cons_self
      refine ⟨k, by simp, ?_⟩
      have e1 : k ≠ nk := fun e => hn.nk_keys (e ▸ hkm)
      have e2 : k ≠ vk := fun e => hn.vk_keys (e ▸ hkm)
      have e3 : k ≠ mk := fun e => hn.mk_keys (e ▸ hkm)
      simp [e1, e2, e3]
  simp only [Ops.cols, unpivotRecMap, mcm_appendNew hn, h1, h2, Bool.and_false, Bool.false_eq_true, if_false]

/-- **`sem` of the join node**: up to row order, one row per listed column and record -/
theorem sem_mcm_join (env : Env) (dn mn : String) (D0 M0 : Table)
    (hdenv : env.lookup dn = some D0) (hdsub : subset dcols D0.cols = true)
    (hmenv : env.lookup mn = some M0) (hmsub : subset mcols M0.cols = true)
    (hD : ((D0.selectCols dcols).rows.map (fun r => keyOf r keys)).Nodup)
    (hM : ((M0.selectCols mcols).rows.map (fun r => keyOf r [nk, vk])).Nodup) :
    ∃ t, sem (Theta.concrete (mcmConvert keys nk vk mk cmap)) SemCfg.pandas env
        (.join (.convert (.selectCols (.table dn dcols) (keys ++ cmap)) (unpivotRecMap keys nk vk cmap))
          (.selectCols (.table mn mcols) [nk, vk, mk]) [nk, vk] [nk, vk] .left) = .ok t ∧
      t.cols = keys ++ [nk, vk, mk] ∧
      t.rows.Perm (cmap.flatMap (fun c => (D0.selectCols dcols).rows.map (fun r =>
        jrow keys nk vk mk c r (mapHit keys nk vk mk (M0.selectCols mcols).rows c r)))) := by
  have hn := hok.names
  -- the un-pivoted table
  have hDsel : ∀ r : Row, keyOf (r.select (keys ++ cmap)) keys = keyOf r keys := by
    intro r
    exact keyOf_congr (fun k hk => Row.select_get_of_mem (List.mem_append_left _ hk))
  have hD' : ((((D0.selectCols dcols).selectCols (keys ++ cmap)).rows).map (fun r => keyOf r keys)).Nodup := by
    have : (((D0.selectCols dcols).selectCols (keys ++ cmap)).rows).map (fun r => keyOf r keys)
        = (D0.selectCols dcols).rows.map (fun r => keyOf r keys) := by
      simp only [Table.selectCols, List.map_map]
      apply List.map_congr_left
      intro r _
      simp only [Function.comp, hDsel]
    rw [this]
    exact hD
  have hsubD : subset (keys ++ cmap) ((D0.selectCols dcols).selectCols (keys ++ cmap)).cols = true :=
    subset_iff.mpr (fun c hc => hc)
  have hU := unpivotTable_eq keys cmap nk vk ((D0.selectCols dcols).selectCols (keys ++ cmap)) hsubD hok.keys_ne hD'
  have hconvU : (Theta.concrete (mcmConvert keys nk vk mk cmap)).convert (unpivotRecMap keys nk vk cmap)
      ((D0.selectCols dcols).selectCols (keys ++ cmap))
      = unpivotTable keys nk vk cmap ((D0.selectCols dcols).selectCols (keys ++ cmap)) := by
    show mcmConvert keys nk vk mk cmap (unpivotRecMap keys nk vk cmap) _ = _
    simp only [mcmConvert, if_true]
  -- columns
  have hca : (Ops.convert (.selectCols (.table dn dcols) (keys ++ cmap)) (unpivotRecMap keys nk vk cmap)).cols
      = keys ++ [nk, vk] := rfl
  have hcb : (Ops.selectCols (.table mn mcols) [nk, vk, mk]).cols = [nk, vk, mk] := rfl
  have hall := mcm_appendNew hn
  have hjc := mcm_join_cols hok dn mn
  have hK : [nk, vk] ≠ [] := by simp
  refine ⟨(semJoin SemCfg.pandas .left [nk, vk] [nk, vk]
      ⟨keys ++ [nk, vk], sortRows (keys ++ [nk]) [] (cmap.flatMap (fun c =>
        ((D0.selectCols dcols).selectCols (keys ++ cmap)).rows.map (urow keys nk vk c)))⟩
      ((M0.selectCols mcols).selectCols [nk, vk, mk]) (keys ++ [nk, vk, mk])).selectCols (keys ++ [nk, vk, mk]),
    ?_, rfl, ?_⟩
  · simp only [sem, hdenv, hdsub, hmenv, hmsub, if_true, bind, Except.bind, pure, Except.pure, hconvU, hU, hjc, hca,
      hcb, hall]
  · simp only [Table.selectCols]
    rw [semJoin_left_rows _ hK]
    simp only []
    rw [List.map_append]
    -- one output row per un-pivoted row
    have hle : ∀ a ∈ sortRows (keys ++ [nk]) [] (cmap.flatMap (fun c =>
          ((D0.selectCols dcols).selectCols (keys ++ cmap)).rows.map (urow keys nk vk c))),
        (((M0.selectCols mcols).rows.map (fun r => r.select [nk, vk, mk])).filter
          (fun rb => keyOf a [nk, vk] == keyOf rb [nk, vk])).length ≤ 1 := by
      intro a _
      rw [List.filter_map, List.length_map]
      have := filter_key_length_le_one hM (keyOf a [nk, vk])
      refine Nat.le_trans (Nat.le_of_eq ?_) this
      congr 1
      apply List.filter_congr
      intro mr _
      simp only [Function.comp]
      rw [keyOf_congr (a := mr.select [nk, vk, mk]) (b := mr)
        (fun c hc => Row.select_get_of_mem (by
          simp only [List.mem_cons, List.not_mem_nil, or_false] at hc ⊢
          rcases hc with h | h
          · exact Or.inl h
          · exact Or.inr (Or.inl h)))]
    have hperm := leftJoin_perm _ ((M0.selectCols mcols).rows.map (fun r => r.select [nk, vk, mk]))
      (fun a rb => keyOf a [nk, vk] == keyOf rb [nk, vk])
      (fun a ob => joinRow (keys ++ [nk, vk]) [nk, vk, mk] (keys ++ [nk, vk, mk]) (some a) ob) hle
    rw [← List.map_append]
    refine (hperm.map _).trans ?_
    rw [List.map_map]
    refine ((sortRows_perm _ _ _).map _).trans ?_
    rw [List.map_flatMap]
    apply List.Perm.of_eq
    apply flatMap_congr_mem
    intro c hc
    have hsel : ((D0.selectCols dcols).selectCols (keys ++ cmap)).rows
        = (D0.selectCols dcols).rows.map (fun r => r.select (keys ++ cmap)) := rfl
    rw [hsel, List.map_map, List.map_map]
    apply List.map_congr_left
    intro r _
    simp only [Function.comp]
    -- the un-pivoted row of the selected record equals that of the record
    have hu : urow keys nk vk c (r.select (keys ++ cmap)) = urow keys nk vk c r := by
      unfold urow
      congr 1
      · apply List.map_congr_left
        intro k hk
        rw [Row.select_get_of_mem (List.mem_append_left _ hk)]
      · rw [Row.select_get_of_mem (List.mem_append_right _ hc)]
    rw [hu]
    rfl

end

/-! #### coalesce, pivot, rename -/

/-- the optional coalesce step on one row -/
def crow (keys : List String) (nk vk mk : String) (cv : Option Lit) (x : Row) : Row :=
  match cv with
  | none => x
  | some v => (x.set mk (if (x.get mk).isNull then v.toVal else x.get mk)).select (keys ++ [nk, vk, mk])

theorem coalesceTo_map (cv : Option Lit) (x : Val) :
    coalesceTo (cv.map Lit.toVal) x = (match cv with | none => x | some v => if x.isNull then v.toVal else x) := by
  cases cv <;> rfl

theorem crow_get {keys : List String} {nk vk mk : String} (cv : Option Lit) (x : Row) {c : String}
    (hc : c ∈ keys ++ [nk, vk, mk]) :
    (crow keys nk vk mk cv x).get c = if c = mk then coalesceTo (cv.map Lit.toVal) (x.get mk) else x.get c := by
  cases cv with
  | none =>
    simp only [crow, coalesceTo, Option.map_none]
    by_cases h : c = mk
    · simp [h]
    · simp [h]
  | some v =>
    simp only [crow, coalesceTo, Option.map_some]
    rw [Row.select_get_of_mem hc, get_set]

theorem lookupLast_eq_lookup {β : Type} (m : List (String × β)) (hnd : (m.map (·.1)).Nodup) (k : String) :
    lookupLast m k = m.lookup k := by
  induction m with
  | nil => rfl
  | cons a m ih =>
    obtain ⟨a, x⟩ := a
    simp only [List.map_cons, List.nodup_cons] at hnd
    have ih' := ih hnd.2
    simp only [lookupLast, List.reverse_cons, List.find?_append, List.lookup_cons] at ih' ⊢
    by_cases e : k = a
    · subst e
      have hnone : m.reverse.find? (fun kv => kv.1 == k) = none := by
        rw [List.find?_eq_none]
        intro kv hkv
        have hkv' := List.mem_reverse.mp hkv
        have : kv.1 ≠ k := fun e => hnd.1 (e ▸ List.mem_map_of_mem (f := (·.1)) hkv')
        simpa using this
      simp [hnone]
    · have hb : (k == a) = false := by simpa using e
      have hb' : (a == k) = false := by simpa using fun e' => e e'.symm
      simp only [hb, List.find?_cons, hb', List.find?_nil, Option.or_none]
      exact ih'

theorem lookup_zip_nodup (cs bs : List String) (hl : bs.length = cs.length) (hnd : cs.Nodup) :
    cs.map (fun c => ((cs.zip bs).lookup c).getD c) = bs := by
  induction cs generalizing bs with
  | nil =>
    cases bs with
    | nil => rfl
    | cons _ _ => simp at hl
  | cons c cs ih =>
    cases bs with
    | nil => simp at hl
    | cons b bs =>
      obtain ⟨hc, hnd'⟩ := List.nodup_cons.mp hnd
      simp only [List.zip_cons_cons, List.map_cons, List.lookup_cons, beq_self_eq_true, Option.getD_some,
        List.cons.injEq, true_and]
      rw [← ih bs (by simpa using hl) hnd']
      apply List.map_congr_left
      intro c' hc'
      have : (c' == c) = false := by
        have hne : c' ≠ c := fun e => hc (by rw [← e]; exact hc')
        simpa using hne
      simp only [this]
      rw [ih bs (by simpa using hl) hnd']

theorem zip_swap_map {α β : Type} (l : List α) (m : List β) :
    (l.zip m).map (fun kv => (kv.2, kv.1)) = m.zip l := by
  induction l generalizing m with
  | nil => simp
  | cons a l ih =>
    cases m with
    | nil => simp
    | cons b m => simp [ih]

theorem zip_self_map {α β : Type} (l : List α) (f : α × α → β) : (l.zip l).map f = l.map (fun a => f (a, a)) := by
  induction l with
  | nil => rfl
  | cons a l ih => simp [ih]

set_option linter.unusedSectionVars false
section
variable {dcols mcols keys cmap : List String} {nk vk mk : String} {cv : Option Lit} {back : Option (List String)}
  (hok : McmOK dcols mcols keys cmap nk vk mk cv back)
include hok

/-- **`sem` of the tree built by `def_multi_column_map`** (Pandas configuration): the promised table, up to row
order, provided `d` is uniquely keyed by the row keys and the mapping table by (column name, value). -/
theorem sem_mcmTree (env : Env) (dn mn : String) (D0 M0 : Table)
    (hdenv : env.lookup dn = some D0) (hdsub : subset dcols D0.cols = true)
    (hmenv : env.lookup mn = some M0) (hmsub : subset mcols M0.cols = true)
    (hD : ((D0.selectCols dcols).rows.map (fun r => keyOf r keys)).Nodup)
    (hM : ((M0.selectCols mcols).rows.map (fun r => keyOf r [nk, vk])).Nodup) :
    ∃ t, sem (Theta.concrete (mcmConvert keys nk vk mk cmap)) SemCfg.pandas env
        (mcmTree (.table dn dcols) (.table mn mcols) keys cmap nk vk mk cv back) = .ok t ∧
      t ≈ multiMapSpec nk vk mk (M0.selectCols mcols).rows keys (cmap.zip (back.getD cmap)) (cv.map Lit.toVal)
        (D0.selectCols dcols) := by
  have hn := hok.names
  obtain ⟨tJ, hsemJ, hcolsJ, hpermJ⟩ := sem_mcm_join hok env dn mn D0 M0 hdenv hdsub hmenv hmsub hD hM
  -- the coalesce step
  have hmkin : mk ∈ keys ++ [nk, vk, mk] := by simp
  have hsemC : sem (Theta.concrete (mcmConvert keys nk vk mk cmap)) SemCfg.pandas env
      (mcmCoalesce (.join (.convert (.selectCols (.table dn dcols) (keys ++ cmap)) (unpivotRecMap keys nk vk cmap))
          (.selectCols (.table mn mcols) [nk, vk, mk]) [nk, vk] [nk, vk] .left) mk cv)
      = .ok ⟨keys ++ [nk, vk, mk], tJ.rows.map (crow keys nk vk mk cv)⟩ := by
    cases hcv : cv with
    | none =>
      have : tJ.rows.map (crow keys nk vk mk none) = tJ.rows := by
        show tJ.rows.map (fun x => x) = tJ.rows
        exact List.map_id' _
      rw [this, ← hcolsJ]
      exact hsemJ
    | some v =>
      have hJcols := mcm_join_cols hok dn mn
      have hec : (Ops.extend (Ops.join (.convert (.selectCols (.table dn dcols) (keys ++ cmap))
            (unpivotRecMap keys nk vk cmap)) (.selectCols (.table mn mcols) [nk, vk, mk]) [nk, vk] [nk, vk] .left)
          [(mk, mcall "coalesce" (.col mk) [.value v])] [] [] [] false).cols = keys ++ [nk, vk, mk] := by
        show appendNew (Ops.cols _) _ = _
        rw [hJcols]
        exact appendNew_single_mem hmkin
      unfold mcmCoalesce
      rw [sem, hsemJ]
      simp only [bind, Except.bind, pure, Except.pure, Bool.false_eq_true, if_false, hec, semExtendPlain]
      congr 2
  -- rows of the coalesced table, by listed column and record
  have hpermC : (tJ.rows.map (crow keys nk vk mk cv)).Perm (cmap.flatMap (fun c => (D0.selectCols dcols).rows.map
      (fun r => crow keys nk vk mk cv (jrow keys nk vk mk c r (mapHit keys nk vk mk (M0.selectCols mcols).rows c r))))) := by
    refine (hpermJ.map _).trans ?_
    rw [List.map_flatMap]
    apply List.Perm.of_eq
    apply flatMap_congr_mem
    intro c _
    rw [List.map_map]
    rfl
  have g1 : ∀ (c : String) (r : Row), ∀ k ∈ keys,
      (crow keys nk vk mk cv (jrow keys nk vk mk c r (mapHit keys nk vk mk (M0.selectCols mcols).rows c r))).get k
        = r.get k := by
    intro c r k hk
    have hne : k ≠ mk := fun e => hn.mk_keys (e ▸ hk)
    rw [crow_get cv _ (List.mem_append_left _ hk)]
    simp only [hne, if_false]
    exact jrow_get_key hn c r _ hk
  have g2 : ∀ (c : String) (r : Row),
      (crow keys nk vk mk cv (jrow keys nk vk mk c r (mapHit keys nk vk mk (M0.selectCols mcols).rows c r))).get nk
        = Val.str c := by
    intro c r
    rw [crow_get cv _ (by simp)]
    simp only [hn.nk_mk, if_false]
    exact jrow_get_nk hn c r _
  have g3 : ∀ (c : String) (r : Row),
      (crow keys nk vk mk cv (jrow keys nk vk mk c r (mapHit keys nk vk mk (M0.selectCols mcols).rows c r))).get mk
        = coalesceTo (cv.map Lit.toVal) (mapLookup nk vk mk (M0.selectCols mcols).rows c (r.get c)) := by
    intro c r
    rw [crow_get cv _ hmkin]
    simp only [if_true]
    rw [jrow_get_mk hn c r _, mapHit_get hn]
  have hcne : cmap ≠ [] := by
    intro e
    have := hok.two_cols
    rw [e] at this
    simp at this
  have hsubP : subset (keys ++ [nk, mk]) (Table.mk (keys ++ [nk, vk, mk]) (tJ.rows.map (crow keys nk vk mk cv))).cols = true := by
    rw [subset_iff]
    intro c hc
    simp only [List.mem_append, List.mem_cons, List.not_mem_nil, or_false] at hc ⊢
    rcases hc with h | h | h
    · exact Or.inl h
    · exact Or.inr (Or.inl h)
    · exact Or.inr (Or.inr (Or.inr h))
  have hpiv := pivotTable_eq hok.nodup_back hcne (D0.selectCols dcols).rows hD _ _ g1 g2 g3
    ⟨keys ++ [nk, vk, mk], tJ.rows.map (crow keys nk vk mk cv)⟩ hsubP hok.keys_ne hpermC
  have hsemP : sem (Theta.concrete (mcmConvert keys nk vk mk cmap)) SemCfg.pandas env
      (.convert (mcmCoalesce (.join (.convert (.selectCols (.table dn dcols) (keys ++ cmap)) (unpivotRecMap keys nk vk cmap))
          (.selectCols (.table mn mcols) [nk, vk, mk]) [nk, vk] [nk, vk] .left) mk cv) (pivotRecMap keys nk mk cmap))
      = .ok ⟨keys ++ cmap, sortRows keys [] ((sortRows keys [] (D0.selectCols dcols).rows).map
          (prow keys cmap (fun c r => coalesceTo (cv.map Lit.toVal)
            (mapLookup nk vk mk (M0.selectCols mcols).rows c (r.get c)))))⟩ := by
    rw [sem, hsemC]
    simp only [bind, Except.bind]
    show mcmConvert keys nk vk mk cmap (pivotRecMap keys nk mk cmap) _ = _
    simp only [mcmConvert, pivot_ne_unpivot hn, if_false, if_true]
    exact hpiv
  -- the rows before renaming are, up to order, one promised row per record
  have hrowsP : (sortRows keys [] ((sortRows keys [] (D0.selectCols dcols).rows).map
      (prow keys cmap (fun c r => coalesceTo (cv.map Lit.toVal)
        (mapLookup nk vk mk (M0.selectCols mcols).rows c (r.get c)))))).Perm
      ((D0.selectCols dcols).rows.map (prow keys cmap (fun c r => coalesceTo (cv.map Lit.toVal)
        (mapLookup nk vk mk (M0.selectCols mcols).rows c (r.get c))))) :=
    (sortRows_perm _ _ _).trans ((sortRows_perm _ _ _).map _)
  cases hb : back with
  | none =>
    refine ⟨_, by rw [mcmTree, mcmRename]; exact hsemP, ?_, ?_⟩
    · show keys ++ cmap = keys ++ (cmap.zip (Option.getD none cmap)).map (·.2)
      simp only [Option.getD_none]
      rw [zip_self_map]
      simp
    · refine hrowsP.trans ?_
      apply List.Perm.of_eq
      simp only [multiMapSpec, Option.getD_none]
      apply List.map_congr_left
      intro r _
      simp only [prow, multiMapRow]
      rw [zip_self_map]
  | some b =>
    have hlen := hok.back_len b hb
    have hndpost : (keys ++ b).Nodup := by
      have := hok.nodup_post
      rw [hb] at this
      exact this
    -- the renaming function
    have hf : ∀ c, (lookupLast ((b.zip cmap).map (fun kv => (kv.2, kv.1))) c).getD c = ((cmap.zip b).lookup c).getD c := by
      intro c
      have hswap : (b.zip cmap).map (fun kv => (kv.2, kv.1)) = cmap.zip b := zip_swap_map b cmap
      rw [hswap, lookupLast_eq_lookup]
      rw [List.map_fst_zip (by omega)]
      exact hn.cmap_nd
    have hfk : ∀ k ∈ keys, ((cmap.zip b).lookup k).getD k = k := by
      intro k hk
      have : (cmap.zip b).lookup k = none := by
        rw [List.lookup_eq_none_iff]
        intro kv hkv
        have := (List.of_mem_zip hkv).1
        have hne : kv.1 ≠ k := fun e => hn.cmap_keys kv.1 this (e ▸ hk)
        simpa using hne.symm
      rw [this]; rfl
    have hcolsR : (Ops.rename (.convert (mcmCoalesce (.join (.convert (.selectCols (.table dn dcols) (keys ++ cmap))
        (unpivotRecMap keys nk vk cmap)) (.selectCols (.table mn mcols) [nk, vk, mk]) [nk, vk] [nk, vk] .left) mk cv)
        (pivotRecMap keys nk mk cmap)) (b.zip cmap)).cols = keys ++ b := by
      show (keys ++ cmap).map _ = _
      simp only [hf, List.map_append]
      rw [List.map_congr_left (fun k hk => hfk k hk), List.map_id', lookup_zip_nodup cmap b hlen hn.cmap_nd]
    refine ⟨_, by rw [mcmTree, mcmRename, sem, hsemP]; rfl, ?_, ?_⟩
    · show (Ops.rename _ _).cols = keys ++ (cmap.zip (Option.getD (some b) cmap)).map (·.2)
      rw [hcolsR]
      simp only [Option.getD_some]
      rw [List.map_snd_zip (by omega)]
    · show (List.map _ _).Perm _
      refine (hrowsP.map _).trans ?_
      apply List.Perm.of_eq
      simp only [multiMapSpec, Option.getD_some, List.map_map]
      apply List.map_congr_left
      intro r _
      simp only [Function.comp, prow, multiMapRow, Row.rename, List.map_append, List.map_map, hf]
      congr 1
      · apply List.map_congr_left
        intro k hk
        simp only [Function.comp, hfk k hk]
      · -- the listed columns under their new names
        have : ∀ (cs bs : List String), bs.length = cs.length → cs.Nodup → (∀ c ∈ cs, c ∈ cmap) →
            (∀ c ∈ cs, ((cmap.zip b).lookup c).getD c = ((cs.zip bs).lookup c).getD c) →
            cs.map ((fun kv : String × Val => (((cmap.zip b).lookup kv.1).getD kv.1, kv.2)) ∘
              fun c => (c, coalesceTo (cv.map Lit.toVal) (mapLookup nk vk mk (M0.selectCols mcols).rows c (r.get c))))
            = (cs.zip bs).map (fun cb => (cb.2, coalesceTo (cv.map Lit.toVal)
                (mapLookup nk vk mk (M0.selectCols mcols).rows cb.1 (r.get cb.1)))) := by
          intro cs
          induction cs with
          | nil => intro bs _ _ _ _; rfl
          | cons c cs ih =>
            intro bs hl hnd hsub hlk
            cases bs with
            | nil => simp at hl
            | cons b' bs =>
              obtain ⟨hc, hnd'⟩ := List.nodup_cons.mp hnd
              simp only [List.map_cons, List.zip_cons_cons, Function.comp, List.cons.injEq]
              constructor
              · have := hlk c List.mem_cons_self
                simp only [List.zip_cons_cons, List.lookup_cons, beq_self_eq_true, Option.getD_some] at this
                rw [this]
              · apply ih bs (by simpa using hl) hnd' (fun c' hc' => hsub c' (List.mem_cons_of_mem _ hc'))
                intro c' hc'
                have := hlk c' (List.mem_cons_of_mem _ hc')
                have hne : (c' == c) = false := by
                  have : c' ≠ c := fun e => hc (by rw [← e]; exact hc')
                  simpa using this
                simp only [List.zip_cons_cons, List.lookup_cons, hne] at this
                exact this
        exact this cmap b hlen hn.cmap_nd (fun c hc => hc) (fun c _ => rfl)

end

end DAVerif.Sol
