import DAVerif.Proofs.SqlReach
import DAVerif.Proofs.SolReplicate
import DAVerif.Proofs.SolRankSql
import DAVerif.Proofs.SqlJoinMerge
import DAVerif.Proofs.SqlJoinReach
/-!
C21, SQL side of `replicate_rows_query`: a plain `extend`, an INNER join with the table of powers, a `select_rows`
and a `drop_columns` – inside the join fragment of `Proofs/SqlJoinMerge.lean` for every dialect configuration; no
window and no `order_rows`, so the strong scope (`OrdersNullFree`) holds for every input and the SQL result has the
promised rows in the promised order.
-/
namespace DAVerif
namespace Sol21Sql
open DAVerif.Sql DAVerif.Sol DAVerif.Solutions DAVerif.Spec21

/-- the helper's pipeline is reachable: successful builder calls over two table descriptions -/
theorem rep_reachable {powerOf : Nat → Nat} {name : String} {cols : List String} {p : Ops}
    {countCol seqCol joinTemp : String} {maxCount : Nat} {frame : Table} (hnd : cols.Nodup)
    (h : replicateRowsQuery powerOf (.table name cols) countCol seqCol joinTemp maxCount = .ok (p, frame)) :
    Reachable p := by
  simp only [replicateRowsQuery, buildChain, replicateSteps, List.drop_succ_cons, List.drop_zero, List.foldlM,
    bind_ok, pure_ok, asrt, ok?_ok, mkTable] at h
  obtain ⟨_, _, _, hcm, _, _, _, _, _, _, _, _, o1, h1, b, ⟨_, _, _, hbn, hb⟩, q, ⟨q2, h2, q3, h3, q4, h4, rfl⟩, hq⟩ := h
  obtain ⟨rfl, _⟩ := Prod.mk.inj hq
  subst hb
  have hne : cols ≠ [] := by
    intro e
    rw [e] at hcm
    simp [Ops.cols] at hcm
  have hd : Reachable (.table name cols) := Reachable.table name cols hne hnd
  have hb : Reachable (.table joinTemp [powerCol, seqCol]) :=
    Reachable.table _ _ (by simp) (nodupB_iff.mp hbn)
  have r1 : Reachable o1 := Reachable.step hd (by intro b hb; cases hb) h1
  have r2 : Reachable q2 := Reachable.step r1 (by
    intro b' hb'
    simp only [Rules26.stepArgs, List.mem_singleton] at hb'
    exact hb' ▸ hb) h2
  have r3 : Reachable q3 := Reachable.step r2 (by intro b hb; cases hb) h3
  exact Reachable.step r3 (by intro b hb; cases hb) h4

theorem rep_noConcat (name : String) (cols : List String) (cc sc jt : String) :
    noConcat (repTree (.table name cols) cc sc jt) = true := rfl

/-- the scope bundle of the join fragment for the tree of `replicate_rows_query` (every dialect configuration: the
join is an INNER join) -/
theorem rep_good (cfg : SqlCfg) {env : Env} {name jt cc sc : String} {cols : List String} {t0 frame : Table}
    (hr : Reachable (repTree (.table name cols) cc sc jt))
    (henv : env.lookup name = some t0) (hsub : subset cols t0.cols = true)
    (hjt : env.lookup jt = some frame) (hfc : frame.cols = [powerCol, sc]) :
    Good cfg env (repTree (.table name cols) cc sc jt) := by
  refine ⟨rfl, C26_reachable_wf hr, C01_reachable_sqlwf hr, rfl, C16_reachable_joinwf hr, rfl, ?_, rfl, ?_⟩
  · simp [JoinsNative, joinsNativeb, repTree]
  · intro nc hnc
    have : nc = (name, cols) ∨ nc = (jt, [powerCol, sc]) := by simpa [repTree, Ops.tables] using hnc
    rcases this with rfl | rfl
    · exact ⟨t0, henv, subset_iff.mp hsub, fun h => by cases h⟩
    · exact ⟨frame, hjt, by rw [hfc]; exact fun c hc => hc, fun h => by cases h⟩

/-- no ordered window and no `order_rows`: the strong scope holds for every input -/
theorem rep_ordersNullFree (Θ : Interp) (cfg : SemCfg) (env : Env) (name : String) (cols : List String)
    (cc sc jt : String) : OrdersNullFree Θ cfg env (repTree (.table name cols) cc sc jt) :=
  ⟨⟨trivial, fun _ _ _ _ _ hc => by cases hc⟩, trivial⟩

/-- **`replicate_rows_query` on SQL, exact form.**  Every dialect configuration, both engines' NULL placement, every
interpretation with `PowerSem` / `LtSem`, under the hypothesis `hlog` of the Pandas-side theorem: the query `to_sql`
produces for the helper's pipeline evaluates to a table with the column set of `replicateSpec` and, read through its
column list, exactly its rows in its order. -/
theorem rep_sql_exact (Θ : Interp) (ec : EngineCfg) (env : Env) (cfg : SqlCfg) (powerOf : Nat → Nat)
    {name joinTemp countCol seqCol : String} {cols : List String} {maxCount : Nat} {p : Ops} {frame t0 : Table}
    {q : Near}
    (hlog : ∀ c, 1 ≤ c → c ≤ maxCount → powerOf c = clog2 c)
    (hpow : PowerSem Θ countCol powerOf maxCount) (hlt : LtSem Θ) (hcols : cols.Nodup)
    (hbuild : replicateRowsQuery powerOf (.table name cols) countCol seqCol joinTemp maxCount = .ok (p, frame))
    (henv : env.lookup name = some t0) (hsub : subset cols t0.cols = true)
    (hjt : env.lookup joinTemp = some frame)
    (hcounts : ∀ r ∈ t0.rows, ∃ c : Nat, r.get countCol = Val.num (c : Nat) ∧ 1 ≤ c ∧ c ≤ maxCount)
    (hq : toNearSql cfg p = .ok q) :
    ∃ T, semSql Θ ec env q = .ok T ∧ T.EqS (replicateSpec countCol seqCol (t0.selectCols cols)) := by
  have hr := rep_reachable hcols hbuild
  obtain ⟨_, rfl, rfl, hok, hmax⟩ := replicate_ok hbuild
  have hok : RepOK cols countCol seqCol := hok
  obtain ⟨T, t, h1, h2, _, h4⟩ := translation_exact_joins_merges Θ ec env cfg _
    (rep_good cfg hr henv hsub hjt rfl) (rep_noConcat ..) (rep_ordersNullFree ..) hq
  rw [sem_repTree SemCfg.ref env name joinTemp t0 hok hcols hlt hpow hlog hmax henv hsub hjt hcounts] at h2
  cases h2
  exact ⟨T, h1, h4⟩

end Sol21Sql
end DAVerif
