import DAVerif.Proofs.SqlReach
import DAVerif.Proofs.SqlMergeInv
/-!
C01/C04, extend merge: **`merge_sound`**.

The situation of `extend_to_near_sql` when the translated source is a mergeable step `sub`
(`SELECT sterms FROM ssub`, no suffix): instead of emitting

    ours   = SELECT terms  FROM (SELECT sterms FROM ssub) sub

the code writes our non-trivial entries into the dictionary of `sub` and returns

    merged = SELECT mergeDict … terms sterms FROM ssub

provided `contention = ∅`.  `merge_sound`: for every request within our keys, `merged` returns, row by row, what
`ours` returns.  `termsOK_merge`: the merged dictionaries satisfy the invariant of mergeable steps again.

Only two of the three components of `contention` are needed for soundness: `subNT ∩ ourNeeds = ∅` (what our
expressions read – window partition and order columns included – is passed through unchanged by `sub`) and
`ourNT ∩ subNT = ∅` (for pass-through entries of ours that count as non-trivial; there are none in dictionaries built
by `extend_to_near_sql`).  `ourNT ∩ subNeeds = ∅` is conservative: all entries of one SELECT list read the FROM rows,
so overwriting a column that an entry of `sub` reads does not change that entry.
-/
namespace DAVerif
namespace Sql
open DAVerif.Ops (usedFromSources unionL)

/-! ### the merge condition, as the code computes it -/

/-- `set().union(*[deps[k] for k in nt])` -/
def needsOf (ds : List (String × List String)) (nt : List String) : List String :=
  (ds.filter (fun kv => nt.contains kv.1)).flatMap (·.2)

/-- `contention` of `extend_to_near_sql`: `deps`/`terms` are ours, `sdeps`/`sterms` those of the sub step -/
def contention (deps : List (String × List String)) (terms : Terms) (sdeps : List (String × List String))
    (sterms : Terms) : List String :=
  inter (nonTrivialTerms deps terms) (nonTrivialTerms sdeps sterms) ++
    inter (nonTrivialTerms deps terms) (needsOf sdeps (nonTrivialTerms sdeps sterms)) ++
    inter (nonTrivialTerms sdeps sterms) (needsOf deps (nonTrivialTerms deps terms))

theorem mem_needsOf {ds : List (String × List String)} {nt : List String} {x : String} :
    x ∈ needsOf ds nt ↔ ∃ k v, (k, v) ∈ ds ∧ k ∈ nt ∧ x ∈ v := by
  simp only [needsOf, List.mem_flatMap, List.mem_filter, List.contains_eq_mem, decide_eq_true_eq]
  constructor
  · rintro ⟨⟨k, v⟩, ⟨h1, h2⟩, h3⟩; exact ⟨k, v, h1, h2, h3⟩
  · rintro ⟨k, v, h1, h2, h3⟩; exact ⟨(k, v), ⟨h1, h2⟩, h3⟩

private theorem inter_eq_nil {a b : List String} (h : inter a b = []) {x : String} (ha : x ∈ a) : x ∉ b := by
  intro hb
  have : x ∈ inter a b := mem_inter.mpr ⟨ha, hb⟩
  rw [h] at this
  cases this

theorem contention_nil {deps : List (String × List String)} {terms : Terms} {sdeps : List (String × List String)}
    {sterms : Terms} (h : contention deps terms sdeps sterms = []) :
    (∀ x ∈ nonTrivialTerms deps terms, x ∉ nonTrivialTerms sdeps sterms) ∧
    (∀ x ∈ nonTrivialTerms sdeps sterms, x ∉ needsOf deps (nonTrivialTerms deps terms)) := by
  unfold contention at h
  simp only [List.append_eq_nil_iff] at h
  exact ⟨fun x hx => inter_eq_nil h.1.1 hx, fun x hx => inter_eq_nil h.2 hx⟩

/-! ### consequences of the invariant -/

private theorem isPass_eq_true {t : STerm} (h : isPass t = true) : t = .pass := by
  cases t <;> first | rfl | cases h

/-- a key with a non-pass entry is a non-trivial term -/
theorem TermsOK.mem_nt {sc : List String} {ts : Terms} {ds : List (String × List String)} (h : TermsOK sc ts ds)
    {k : String} {t : STerm} (hl : lookupLast ts k = some t) (hp : isPass t = false) : k ∈ nonTrivialTerms ds ts := by
  obtain ⟨_, v, hv, _⟩ := h.declared k t hl hp
  refine mem_nonTrivialTerms.mpr ⟨v, lookupLast_mem hv, ?_, Or.inr (Or.inr ⟨t, hl, hp⟩)⟩
  rw [← lookupLast_isSome_iff, hl]; rfl

/-- a key that is not a non-trivial term is rendered as the column of its name -/
theorem TermsOK.trivial_of_not_nt {sc : List String} {ts : Terms} {ds : List (String × List String)}
    (h : TermsOK sc ts ds) {x : String} (hx : x ∉ nonTrivialTerms ds ts) :
    lookupLast ts x = none ∨ lookupLast ts x = some .pass := by
  cases hl : lookupLast ts x with
  | none => exact Or.inl rfl
  | some t =>
    right
    cases hp : isPass t with
    | true => rw [isPass_eq_true hp]
    | false => exact absurd (h.mem_nt hl hp) hx

/-- what an entry of ours that is written into the sub step reads: columns we request from the sub step, none of
which the sub step computes -/
theorem our_reads {S : List String} {terms : Terms} {deps : List (String × List String)} {sterms : Terms}
    {sdeps : List (String × List String)} (hours : TermsOK S terms deps)
    (hcont : contention deps terms sdeps sterms = []) {c : String} {tm : STerm}
    (hc : c ∈ nonTrivialTerms deps terms) (hl : lookupLast terms c = some tm) :
    ∀ x ∈ termReads c tm, x ∈ S ∧ x ∉ nonTrivialTerms sdeps sterms := by
  intro x hx
  obtain ⟨h1, h3⟩ := contention_nil hcont
  refine ⟨hours.inSrc c tm hl x hx, ?_⟩
  cases hp : isPass tm with
  | true =>
    rw [isPass_eq_true hp] at hx
    simp only [termReads, List.mem_singleton] at hx
    subst hx
    exact h1 x hc
  | false =>
    obtain ⟨_, v, hv, hreads⟩ := hours.declared c tm hl hp
    intro hsub
    exact h3 x hsub (mem_needsOf.mpr ⟨c, v, lookupLast_mem hv, hc, hreads x hx⟩)

/-- an entry of ours that is not written into the sub step is a pass-through entry -/
theorem our_pass {S : List String} {terms : Terms} {deps : List (String × List String)}
    (hours : TermsOK S terms deps) {c : String} {tm : STerm} (hc : c ∉ nonTrivialTerms deps terms)
    (hl : lookupLast terms c = some tm) : tm = .pass := by
  cases hp : isPass tm with
  | true => exact isPass_eq_true hp
  | false => exact absurd (hours.mem_nt hl hp) hc

/-! ### lists with positions -/

private theorem zipIdx_map_zipIdx {α β : Type} (l : List α) (F : α × Nat → β) (k : Nat) :
    ((l.zipIdx k).map F).zipIdx k = (l.zipIdx k).map (fun ri => (F ri, ri.2)) := by
  induction l generalizing k with
  | nil => rfl
  | cons a l ih =>
    simp only [List.zipIdx_cons, List.map_cons, List.cons.injEq, true_and]
    exact ih (k + 1)

private theorem map_zipIdx_map_zipIdx {α β γ : Type} (l : List α) (F : α × Nat → β) (G : β × Nat → γ) :
    ((l.zipIdx.map F).zipIdx).map G = l.zipIdx.map (fun ri => G (F ri, ri.2)) := by
  rw [zipIdx_map_zipIdx, List.map_map]
  rfl

/-! ### merge_sound -/

/-- the row the step `SELECT sterms FROM …` returns for the output columns `out0` on the FROM row `ri` -/
def subRow (Θ : Interp) (ec : EngineCfg) (idx : List (Row × Nat)) (sterms : Terms) (out0 : List String)
    (ri : Row × Nat) : Row :=
  out0.map (fun c => (c, termVal Θ ec idx ri c (lookT (some sterms) c)))

/-- **`merge_sound`.**  `sub = SELECT sterms FROM ssub` is a mergeable step (no suffix, not aggregating) whose
dictionaries satisfy the invariant; `ours = SELECT terms FROM sub` (bound with the columns `S`) is the extend step
the translation would emit on top of it, with dictionaries that satisfy the invariant relative to `S`; the merge
condition holds (`contention = ∅`).  Then for every request `u'` within our keys: whenever `ours` evaluates,
the merged step `SELECT mergeDict … FROM ssub` (the name, the source and the bound columns of `sub`, any key)
evaluates, offers the requested columns, and returns **row by row the same values on `u'`**.

Plain and windowed entries alike: a window entry of ours written next to the entries of `sub` is evaluated over
the rows of `ssub` instead of the rows of `sub`; these are as many rows, in the same order (no WHERE / GROUP BY /
ORDER BY / LIMIT in a mergeable step), and they agree on every column the entry reads – partition and order
columns included – because `sub` passes those columns through. -/
theorem merge_sound {Θ : Interp} {ec : EngineCfg} {env : Env} {sname nm : String} {sterms terms : Terms}
    {ssub : Near} {scols : Option (List String)} {sdeps deps : List (String × List String)}
    {skey key key' : Option String} {S sc : List String} {mg : Bool}
    (hsub : TermsOK sc sterms sdeps) (hours : TermsOK S terms deps)
    (hcont : contention deps terms sdeps sterms = [])
    {u' : List String} (hu' : ∀ c ∈ u', c ∈ terms.map (·.1)) (force : Bool) {T : Table}
    (hT : semNear Θ ec env [] (.unary nm (some terms) false
        (.unary sname (some sterms) false ssub scols .none true (some sdeps) skey) (some S) .none mg (some deps) key)
        (some u') force = .ok T) :
    ∃ T', semNear Θ ec env []
        (.unary sname (some (mergeDict (nonTrivialTerms deps terms) terms sterms (terms.map (·.1)))) false ssub scols
          .none true (some (mergeDict (nonTrivialTerms deps terms) deps sdeps (terms.map (·.1)))) key')
        (some u') force = .ok T' ∧
      (∀ c ∈ u', c ∈ T'.cols) ∧ T'.rows.map (fun r => r.select u') = T.rows.map (fun r => r.select u') := by
  rw [semNear_unary] at hT
  cases h0 : semNear Θ ec env [] (.unary sname (some sterms) false ssub scols .none true (some sdeps) skey)
      (some S) false with
  | error e => rw [h0] at hT; cases hT
  | ok T0 =>
    rw [h0] at hT
    simp only [Except.bind, Except.ok.injEq] at hT
    subst hT
    rw [semNear_unary] at h0
    cases h00 : semNear Θ ec env [] ssub scols false with
    | error e => rw [h00] at h0; cases h0
    | ok T00 =>
      rw [h00] at h0
      simp only [Except.bind, Except.ok.injEq] at h0
      subst h0
      refine ⟨_, semNear_unary_ok h00 (some u') force, subset_outCols_some (fc := T00.cols), ?_⟩
      simp only
      rw [stepRows_select _ _ _ _ _ (subset_outCols_some (fc := T00.cols)),
        stepRows_select _ _ _ _ _ (subset_outCols_some (fc := outCols (some sterms) (some S) T00.cols))]
      generalize hout0 : outCols (some sterms) (some S) T00.cols = out0
      have hSout : ∀ x ∈ S, x ∈ out0 := by
        intro x hx; rw [← hout0]; exact subset_outCols_some x hx
      unfold stepRows
      simp only [Bool.false_eq_true, ↓reduceIte, limitOf, suffixRows]
      rw [map_zipIdx_map_zipIdx]
      -- the columns on which the rows of `sub` and the rows of its FROM clause agree
      generalize hRdef : S.filter (fun x => !(nonTrivialTerms sdeps sterms).contains x) = R
      have hmemR : ∀ x, x ∈ R ↔ x ∈ S ∧ x ∉ nonTrivialTerms sdeps sterms := by
        intro x; rw [← hRdef]; simp
      have hFget : ∀ ri x, x ∈ out0 → Row.get (subRow Θ ec T00.rows.zipIdx sterms out0 ri) x =
          termVal Θ ec T00.rows.zipIdx ri x (lookT (some sterms) x) := by
        intro ri x hx
        unfold subRow
        rw [get_mkRow, if_pos hx]
      have hrowR : ∀ ri : Row × Nat, Row.select (subRow Θ ec T00.rows.zipIdx sterms out0 ri) R = ri.1.select R := by
        intro ri
        apply Row.select_congr.mpr
        intro x hx
        obtain ⟨hxS, hxn⟩ := (hmemR x).mp hx
        rw [hFget ri x (hSout x hxS)]
        rcases hsub.trivial_of_not_nt hxn with e | e <;> simp only [lookT, e] <;> rfl
      have hagree : (T00.rows.zipIdx.map (subRow Θ ec T00.rows.zipIdx sterms out0)).map (fun r => r.select R) =
          T00.rows.map (fun r => r.select R) := by
        rw [List.map_map, ← zipIdx_map_fun_fst T00.rows (fun r => r.select R) 0]
        apply List.map_congr_left
        intro ri _
        exact hrowR ri
      apply List.map_congr_left
      intro ri _
      apply mkRow_congr
      intro c hc
      change termVal Θ ec T00.rows.zipIdx ri c _ =
        termVal Θ ec (T00.rows.zipIdx.map (subRow Θ ec T00.rows.zipIdx sterms out0)).zipIdx
          (subRow Θ ec T00.rows.zipIdx sterms out0 ri, ri.2) c _
      have hck := hu' c hc
      obtain ⟨tm, htm⟩ : ∃ tm, lookupLast terms c = some tm := by
        have := lookupLast_isSome_iff.mpr hck
        cases hl : lookupLast terms c with
        | none => rw [hl] at this; cases this
        | some tm => exact ⟨tm, rfl⟩
      by_cases hnt : c ∈ nonTrivialTerms deps terms
      · -- our entry was written into the sub step
        have hlm : lookT (some (mergeDict (nonTrivialTerms deps terms) terms sterms (terms.map (·.1)))) c = some tm := by
          simp only [lookT, lookupLast_mergeDict, if_pos hck, if_pos hnt, htm, Option.some_or]
        have hlo : lookT (some terms) c = some tm := htm
        rw [hlm, hlo]
        symm
        apply termVal_reads Θ ec c (some tm) (R := R) _ hagree
        · simp only [projIdx, hrowR]
        · intro x hx
          exact (hmemR x).mpr (our_reads hours hcont hnt htm x hx)
      · -- a pass-through entry of ours: the entry of the sub step stays
        have hpass := our_pass hours hnt htm
        subst hpass
        have hlm : lookT (some (mergeDict (nonTrivialTerms deps terms) terms sterms (terms.map (·.1)))) c =
            lookT (some sterms) c := by
          simp only [lookT, lookupLast_mergeDict, if_pos hck, if_neg hnt, Option.none_or]
        have hlo : lookT (some terms) c = some .pass := htm
        rw [hlm, hlo]
        have hcS : c ∈ S := hours.inSrc c .pass htm c (by simp [termReads])
        show _ = Row.get (subRow Θ ec T00.rows.zipIdx sterms out0 ri) c
        rw [hFget ri c (hSout c hcS)]

/-! ### the merged dictionaries satisfy the invariant -/

/-- **The merge keeps the invariant** (`hS`: the columns we request from the sub step are among its keys – part of
`Sound.keys`): the dictionaries of the merged step satisfy `TermsOK` for the bound columns of the sub step. -/
theorem termsOK_merge {S sc : List String} {terms sterms : Terms} {deps sdeps : List (String × List String)}
    (hsub : TermsOK sc sterms sdeps) (hours : TermsOK S terms deps)
    (hcont : contention deps terms sdeps sterms = []) (hS : ∀ x ∈ S, x ∈ sterms.map (·.1)) :
    TermsOK sc (mergeDict (nonTrivialTerms deps terms) terms sterms (terms.map (·.1)))
      (mergeDict (nonTrivialTerms deps terms) deps sdeps (terms.map (·.1))) := by
  have hntkey : ∀ k ∈ nonTrivialTerms deps terms, ∃ tm, lookupLast terms k = some tm := by
    intro k hk
    obtain ⟨_, _, hkey, _⟩ := mem_nonTrivialTerms.mp hk
    have := lookupLast_isSome_iff.mpr hkey
    cases hl : lookupLast terms k with
    | none => rw [hl] at this; cases this
    | some tm => exact ⟨tm, rfl⟩
  refine ⟨?_, ?_⟩
  · intro k t hl hp
    rw [lookupLast_mergeDict] at hl
    split at hl
    · rename_i hkw
      by_cases hk : k ∈ nonTrivialTerms deps terms
      · obtain ⟨tm, htm⟩ := hntkey k hk
        simp only [if_pos hk, htm, Option.some_or, Option.some.injEq] at hl
        subst hl
        obtain ⟨hex, v, hv, hreads⟩ := hours.declared k tm htm hp
        refine ⟨hex, v, ?_, hreads⟩
        simp only [lookupLast_mergeDict, if_pos hkw, if_pos hk, hv, Option.some_or]
      · simp only [if_neg hk, Option.none_or] at hl
        obtain ⟨hex, v, hv, hreads⟩ := hsub.declared k t hl hp
        refine ⟨hex, v, ?_, hreads⟩
        simp only [lookupLast_mergeDict, if_pos hkw, if_neg hk, Option.none_or, hv]
    · cases hl
  · intro k t hl x hx
    rw [lookupLast_mergeDict] at hl
    split at hl
    · by_cases hk : k ∈ nonTrivialTerms deps terms
      · obtain ⟨tm, htm⟩ := hntkey k hk
        simp only [if_pos hk, htm, Option.some_or, Option.some.injEq] at hl
        subst hl
        obtain ⟨hxS, hxn⟩ := our_reads hours hcont hk htm x hx
        have hxkey := hS x hxS
        rcases hsub.trivial_of_not_nt hxn with e | e
        · exact absurd hxkey (lookupLast_eq_none_iff.mp e)
        · exact hsub.inSrc x .pass e x (by simp [termReads])
      · simp only [if_neg hk, Option.none_or] at hl
        exact hsub.inSrc k t hl x hx
    · cases hl

theorem keys_mergeDict {β : Type} (ourNT : List String) (ours sub : List (String × β)) (weUse : List String)
    (k : String) :
    k ∈ (mergeDict ourNT ours sub weUse).map (·.1) ↔
      k ∈ weUse ∧ ((k ∈ ourNT ∧ k ∈ ours.map (·.1)) ∨ k ∈ sub.map (·.1)) := by
  rw [← lookupLast_isSome_iff, lookupLast_mergeDict, ← lookupLast_isSome_iff, ← lookupLast_isSome_iff]
  by_cases h1 : k ∈ weUse
  · by_cases h2 : k ∈ ourNT
    · simp only [h1, h2, true_and]
      cases lookupLast ours k <;> simp
    · simp [h1, h2]
  · simp [h1]

end Sql
end DAVerif
