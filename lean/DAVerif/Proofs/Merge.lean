import DAVerif.Proofs.ApplyCongr
/-!
Soundness of `try_to_merge_ops` (`tryMergeOps`, after fix D5): when two assignment dictionaries merge, the merged
`extend` computes, row by row, what the two `extend`s compute one after the other – for plain extends and for
windowed extends over the same partition and order.
-/
namespace DAVerif

theorem lookupLast_map_val {β γ : Type} (a : List (String × β)) (g : β → γ) (k : String) :
    lookupLast (a.map (fun kv => (kv.1, g kv.2))) k = (lookupLast a k).map g := by
  induction a with
  | nil => rfl
  | cons kv a ih =>
    rw [List.map_cons, lookupLast_consC, lookupLast_consC, ih]
    cases lookupLast a k with
    | some v => rfl
    | none =>
      simp only [Option.map_none, Option.none_or]
      split <;> rfl

/-- **What a successful merge guarantees** (the facts the semantic argument uses): as a last-wins dictionary
the merged assignments are the first ones overridden by the second ones; the second step reads no column the
first step produces; every merged assignment comes from one of the two steps, and all of the second step's
assignments are kept. -/
theorem tryMergeOps_spec {o1 o2 o : Assign} (h : tryMergeOps o1 o2 = some o) :
    (∀ c, lookupLast o c = (lookupLast o2 c).or (lookupLast o1 c)) ∧
    disjoint (Term.colsUsedOps o2) (o1.map (·.1)) = true ∧
    (∀ kv ∈ o, kv ∈ o1 ∨ kv ∈ o2) ∧ (∀ kv ∈ o2, kv ∈ o) ∧
    (∀ c, c ∈ o.map (·.1) ↔ c ∈ o1.map (·.1) ∨ c ∈ o2.map (·.1)) := by
  unfold tryMergeOps at h
  simp only at h
  split at h
  · -- common targets
    rename_i hcommon
    split at h; · cases h
    split at h; · cases h
    split at h; · cases h
    split at h; · cases h
    split at h; · cases h
    rename_i hd
    split at h; · cases h
    cases h
    have hd' : disjoint (Term.colsUsedOps o2) (o1.map (·.1)) = true := by simpa using hd
    let common := inter (o1.map (·.1)) (o2.map (·.1))
    have hkept : ∀ c, c ∉ o2.map (·.1) →
        lookupLast (o1.filter (fun kv => !common.contains kv.1)) c = lookupLast o1 c := by
      intro c hc
      apply lookupLast_filter o1 (fun k => !common.contains k) c
      simp only [Bool.not_eq_true', List.contains_eq_mem, decide_eq_false_iff_not]
      intro hm
      exact hc (mem_interC.mp hm).2
    refine ⟨?_, hd', ?_, ?_, ?_⟩
    · intro c
      rw [lookupLast_append]
      cases h2 : lookupLast o2 c with
      | some v => rfl
      | none =>
        simp only [Option.none_or]
        exact hkept c (lookupLast_eq_none_iff.mp h2)
    · intro kv hkv
      rcases List.mem_append.mp hkv with hk | hk
      · exact Or.inl (List.mem_filter.mp hk).1
      · exact Or.inr hk
    · intro kv hkv
      exact List.mem_append.mpr (Or.inr hkv)
    · intro c
      simp only [List.map_append, List.mem_append]
      constructor
      · rintro (hc | hc)
        · obtain ⟨kv, hkv, rfl⟩ := List.mem_map.mp hc
          exact Or.inl (List.mem_map.mpr ⟨kv, (List.mem_filter.mp hkv).1, rfl⟩)
        · exact Or.inr hc
      · rintro (hc | hc)
        · by_cases hc2 : c ∈ o2.map (·.1)
          · exact Or.inr hc2
          · left
            obtain ⟨kv, hkv, rfl⟩ := List.mem_map.mp hc
            refine List.mem_map.mpr ⟨kv, List.mem_filter.mpr ⟨hkv, ?_⟩, rfl⟩
            simp only [Bool.not_eq_true', List.contains_eq_mem, decide_eq_false_iff_not]
            intro hm
            exact hc2 (mem_interC.mp hm).2
        · exact Or.inr hc
  · split at h; · cases h
    split at h; · cases h
    rename_i hd
    cases h
    have hd' : disjoint (Term.colsUsedOps o2) (o1.map (·.1)) = true := by simpa using hd
    refine ⟨fun c => lookupLast_append o1 o2 c, hd', ?_, ?_, ?_⟩
    · intro kv hkv; exact List.mem_append.mp hkv
    · intro kv hkv; exact List.mem_append.mpr (Or.inr hkv)
    · intro c; simp only [List.map_append, List.mem_append]

/-- the row-level core: assigning the merged values at once reads, on every output column, the same as
assigning the first values, restricting to the first step's output columns, and assigning the second values -/
theorem merge_row_get (r : Row) (kvsN kvs1 kvs2 : List (String × Val)) (oc1 : List String)
    (hd : ∀ c, lookupLast kvsN c = (lookupLast kvs2 c).or (lookupLast kvs1 c)) (c : String)
    (hc : c ∈ oc1 ∨ c ∈ kvs2.map (·.1)) :
    (r.setAll kvsN).get c = (((r.setAll kvs1).select oc1).setAll kvs2).get c := by
  rw [Row.get_setAllC, Row.get_setAllC, hd c]
  cases h2 : lookupLast kvs2 c with
  | some v => rfl
  | none =>
    have hc1 : c ∈ oc1 := hc.elim id (fun h => absurd h (lookupLast_eq_none_iff.mp h2))
    simp only [Option.none_or, Option.getD_none]
    rw [Row.select_get_of_mem hc1, Row.get_setAllC]

/-- the same for the rows as the operators build them: merged row = sequential row, on the merged node's
output columns -/
theorem merge_row (r : Row) (o1 o2 o : Assign) (g1 g2 : Term → Val) (oc1 oc2 oc' : List String)
    (hd : ∀ c, lookupLast o c = (lookupLast o2 c).or (lookupLast o1 c))
    (hg : ∀ kv ∈ o, kv ∈ o2 → g1 kv.2 = g2 kv.2) (ho2 : ∀ kv ∈ o2, kv ∈ o)
    (h1 : ∀ c ∈ oc', c ∈ oc1 ∨ c ∈ o2.map (·.1)) (h2 : ∀ c ∈ oc', c ∈ oc2) :
    (r.setAll (o.map (fun kv => (kv.1, g1 kv.2)))).select oc' =
      (((((r.setAll (o1.map (fun kv => (kv.1, g1 kv.2)))).select oc1).setAll
        (o2.map (fun kv => (kv.1, g2 kv.2)))).select oc2).select oc') := by
  rw [Row.select_select h2]
  apply Row.select_congr
  intro c hc
  have e2 : o2.map (fun kv => (kv.1, g2 kv.2)) = o2.map (fun kv => (kv.1, g1 kv.2)) :=
    List.map_congr_left (fun kv hkv => by rw [hg kv (ho2 kv hkv) hkv])
  rw [e2]
  apply merge_row_get
  · intro c
    rw [lookupLast_map_val, lookupLast_map_val, lookupLast_map_val, hd c]
    cases lookupLast o2 c <;> rfl
  · rcases h1 c hc with h | h
    · exact Or.inl h
    · right
      simpa [List.map_map, Function.comp_def] using h

/-- **`merge_ops_sound`, plain extends.**  If `try_to_merge_ops` merges `o₁` and `o₂` into `o`, then on every
table the single `extend` with `o` computes the table the two `extend`s compute one after the other – with the
merged node's column order (`oc'`; the two-step column list `oc2` has the same columns, possibly in another
order when a column is assigned by both steps). -/
theorem merge_ops_sound (Θ : Interp) {o1 o2 o : Assign} (h : tryMergeOps o1 o2 = some o) (t : Table)
    (oc1 oc2 oc' : List String) (hu : ∀ c ∈ Term.colsUsedOps o2, c ∈ oc1)
    (h1 : ∀ c ∈ oc', c ∈ oc1 ∨ c ∈ o2.map (·.1)) (h2 : ∀ c ∈ oc', c ∈ oc2) :
    semExtendPlain Θ o t oc' =
      (semExtendPlain Θ o2 (semExtendPlain Θ o1 t oc1) oc2).selectCols oc' := by
  obtain ⟨hd, hdis, _, ho2, _⟩ := tryMergeOps_spec h
  simp only [semExtendPlain, Table.selectCols, List.map_map, Table.mk.injEq, true_and]
  apply List.map_congr_left
  intro r _
  simp only [Function.comp]
  have hev : ∀ kv ∈ o2, evalCell Θ ((r.setAll (o1.map (fun kv => (kv.1, evalCell Θ r kv.2)))).select oc1) kv.2
      = evalCell Θ r kv.2 := by
    intro kv hkv
    apply evalCell_congrC
    intro c hc
    have hcu : c ∈ Term.colsUsedOps o2 := mem_colsUsedOpsC.mpr ⟨kv, hkv, hc⟩
    rw [Row.select_get_of_mem (hu c hcu), Row.get_setAllC]
    have : lookupLast (o1.map (fun kv => (kv.1, evalCell Θ r kv.2))) c = none := by
      rw [lookupLast_eq_none_iff]
      simp only [List.map_map, Function.comp_def]
      exact disjoint_iffC.mp hdis c hcu
    rw [this]; rfl
  have e2 : o2.map (fun kv => (kv.1,
        evalCell Θ ((r.setAll (o1.map (fun kv => (kv.1, evalCell Θ r kv.2)))).select oc1) kv.2))
      = o2.map (fun kv => (kv.1, evalCell Θ r kv.2)) :=
    List.map_congr_left (fun kv hkv => by rw [hev kv hkv])
  rw [e2]
  exact merge_row r o1 o2 o (evalCell Θ r) (evalCell Θ r) oc1 oc2 oc' hd (fun _ _ _ => rfl) ho2 h1 h2

theorem zipIdx_map_zipIdx {α β : Type} (l : List α) (g : α × Nat → β) :
    (l.zipIdx.map g).zipIdx = l.zipIdx.map (fun x => (g x, x.2)) := by
  apply List.ext_getElem
  · simp
  · intro i h1 h2
    simp

/-- **`merge_ops_sound`, windowed extends** over the same partition and order (which the first step does not
assign, and which, like the columns the second step reads, are among the first step's output columns). -/
theorem merge_ops_sound_window (Θ : Interp) {o1 o2 o : Assign} (h : tryMergeOps o1 o2 = some o)
    (p od rv : List String) (t : Table) (oc1 oc2 oc' : List String)
    (hu : ∀ c ∈ Term.colsUsedOps o2, c ∈ oc1) (hp : ∀ c ∈ p, c ∈ oc1) (hod : ∀ c ∈ od, c ∈ oc1)
    (hdp : disjoint (o1.map (·.1)) (p ++ od) = true)
    (h1 : ∀ c ∈ oc', c ∈ oc1 ∨ c ∈ o2.map (·.1)) (h2 : ∀ c ∈ oc', c ∈ oc2) :
    semExtendWindow Θ o p od rv t oc' =
      (semExtendWindow Θ o2 p od rv (semExtendWindow Θ o1 p od rv t oc1) oc2).selectCols oc' := by
  obtain ⟨hd, hdis, _, ho2, _⟩ := tryMergeOps_spec h
  rw [semExtendWindow_eq, semExtendWindow_eq, semExtendWindow_eq]
  simp only [Table.selectCols, zipIdx_map_zipIdx, List.map_map, Table.mk.injEq, true_and]
  apply List.map_congr_left
  intro ri hri
  simp only [Function.comp]
  -- the first step's output rows read like the input rows on partition, order and the second step's arguments
  have hG : ∀ x ∈ t.rows.zipIdx, ∀ c, c ∈ oc1 → c ∉ o1.map (·.1) →
      ((x.1.setAll (o1.map (fun kv => (kv.1, winVal Θ p od rv t.rows.zipIdx x kv.2)))).select oc1).get c
        = x.1.get c := by
    intro x _ c hc1 hck
    rw [Row.select_get_of_mem hc1, Row.get_setAllC]
    have : lookupLast (o1.map (fun kv => (kv.1, winVal Θ p od rv t.rows.zipIdx x kv.2))) c = none := by
      rw [lookupLast_eq_none_iff]
      simpa [List.map_map, Function.comp_def] using hck
    rw [this]; rfl
  have hnotk : ∀ c, c ∈ p ∨ c ∈ od → c ∉ o1.map (·.1) := by
    intro c hc hk
    exact disjoint_iffC.mp hdp c hk (by simpa using hc)
  have hwin : ∀ kv ∈ o2,
      winVal Θ p od rv (t.rows.zipIdx.map (fun x =>
        ((x.1.setAll (o1.map (fun kv => (kv.1, winVal Θ p od rv t.rows.zipIdx x kv.2)))).select oc1, x.2)))
        ((ri.1.setAll (o1.map (fun kv => (kv.1, winVal Θ p od rv t.rows.zipIdx ri kv.2)))).select oc1, ri.2) kv.2
      = winVal Θ p od rv t.rows.zipIdx ri kv.2 := by
    intro kv hkv
    have hargs : ∀ c ∈ argCol kv.2, c ∈ Term.colsUsedOps o2 :=
      fun c hc => mem_colsUsedOpsC.mpr ⟨kv, hkv, argCol_subset_colsRaw kv.2 c hc⟩
    exact winVal_map Θ p od rv t.rows.zipIdx (fun x =>
        ((x.1.setAll (o1.map (fun kv => (kv.1, winVal Θ p od rv t.rows.zipIdx x kv.2)))).select oc1, x.2))
      (p ++ od ++ argCol kv.2) (fun _ _ => rfl)
      (fun x hx c hc => by
        simp only [List.mem_append] at hc
        rcases hc with (hc | hc) | hc
        · exact hG x hx c (hp c hc) (hnotk c (Or.inl hc))
        · exact hG x hx c (hod c hc) (hnotk c (Or.inr hc))
        · exact hG x hx c (hu c (hargs c hc)) (disjoint_iffC.mp hdis c (hargs c hc)))
      (fun c hc => by simp [hc]) (fun c hc => by simp [hc]) ri hri kv.2 (fun c hc => by simp [hc])
  have e2 : o2.map (fun kv => (kv.1, winVal Θ p od rv (t.rows.zipIdx.map (fun x =>
        ((x.1.setAll (o1.map (fun kv => (kv.1, winVal Θ p od rv t.rows.zipIdx x kv.2)))).select oc1, x.2)))
        ((ri.1.setAll (o1.map (fun kv => (kv.1, winVal Θ p od rv t.rows.zipIdx ri kv.2)))).select oc1, ri.2) kv.2))
      = o2.map (fun kv => (kv.1, winVal Θ p od rv t.rows.zipIdx ri kv.2)) :=
    List.map_congr_left (fun kv hkv => by rw [hwin kv hkv])
  rw [e2]
  exact merge_row ri.1 o1 o2 o (winVal Θ p od rv t.rows.zipIdx ri) (winVal Θ p od rv t.rows.zipIdx ri)
    oc1 oc2 oc' hd (fun _ _ _ => rfl) ho2 h1 h2

end DAVerif
