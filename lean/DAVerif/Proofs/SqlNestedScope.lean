import DAVerif.Proofs.SqlReach
import DAVerif.Proofs.SqlFullTrans
import DAVerif.Proofs.SqlNodeJoin
/-!
C01/C02/C16, nested emulation: scope of the theorem "SQLite's emulated RIGHT / FULL joins anywhere in the pipeline".

* `GoodE env p` – the structural hypotheses of `Sql.Good` **without** `JoinsNative` (any join type but `OUTER` anywhere),
  plus `JoinKeysLen` (both key lists of a join have the same length: `NaturalJoinNode.__init__` asserts it);
* `FullKeysNullFree Θ env cfg p` – the data-side guard of finding D19: wherever the dialect emulates a FULL join, no
  join key of either side is null;
* `ScopeE` – the data-side scope: C18's `AggsOrderFree`, `WindowsTotal`, C01's `SqlScope`, and `FullKeysNullFree`;
* all of it is inherited by the pipeline `fullSimOps a b K` that `_emit_full_join_as_complex` builds (`goodE_fullSim`,
  `scopeE_fullSim`), and by a pipeline without its trailing `order_rows` (`…_stripped`).
-/
namespace DAVerif
namespace Sql
namespace SqlE
open DAVerif.Ops (usedFromSources unionL)

variable {Θ : Interp} {ec : EngineCfg} {env : Env} {cfg : SqlCfg}

/-! ### structural scope -/

/-- both key lists of every join have the same length (`assert len(on_a) == len(on_b)`) -/
def joinKeysLenb : Ops → Bool
  | .table _ _ => true
  | .extend s _ _ _ _ _ | .project s _ _ | .selectRows s _ | .selectCols s _ | .dropCols s _
  | .order s _ _ _ | .rename s _ | .mapCols s _ _ | .convert s _ => joinKeysLenb s
  | .join a b onA onB _ => joinKeysLenb a && joinKeysLenb b && (onA.length == onB.length)
  | .concat a b _ _ _ => joinKeysLenb a && joinKeysLenb b

def JoinKeysLen (p : Ops) : Prop := joinKeysLenb p = true
instance (p : Ops) : Decidable (JoinKeysLen p) := by unfold JoinKeysLen; exact inferInstance

theorem joinKeysLen_stripped {p : Ops} (h : JoinKeysLen p) : JoinKeysLen (strip p) := by
  fun_induction strip p with
  | case1 src _ _ ih => exact ih h
  | case2 p _ => exact h

/-- the structural hypotheses of the nested-emulation theorem: `Sql.Good` without `JoinsNative`, with `JoinKeysLen` -/
structure GoodE (env : Env) (p : Ops) : Prop where
  frag : InFragJ p = true
  wf : WF p
  sqlwf : SqlWF p
  maps : MapsOK p
  jwf : JoinWF p
  types : JoinTypesSql p
  keylen : JoinKeysLen p
  label : LabelSidesPlain p
  env : EnvOK false env p

theorem GoodE.unary {p s : Ops} (h : GoodE env p)
    (hfrag : InFragJ p = true → InFragJ s = true) (hwf : WF p → WF s) (hsq : SqlWF p → SqlWF s)
    (hmp : MapsOK p → MapsOK s) (hj : JoinWF p → JoinWF s) (ht : JoinTypesSql p → JoinTypesSql s)
    (hk : JoinKeysLen p → JoinKeysLen s) (hl : LabelSidesPlain p → LabelSidesPlain s)
    (htab : ∀ nc ∈ s.tables, nc ∈ p.tables) : GoodE env s :=
  ⟨hfrag h.frag, hwf h.wf, hsq h.sqlwf, hmp h.maps, hj h.jwf, ht h.types, hk h.keylen, hl h.label,
    fun nc hnc => h.env nc (htab nc hnc)⟩

/-- a pipeline whose joins are all rendered natively is in scope -/
theorem GoodE.of_good {p : Ops} (h : Good cfg env p) (hk : JoinKeysLen p) : GoodE env p :=
  ⟨h.frag, h.wf, h.sqlwf, h.maps, h.jwf, h.types, hk, h.label, h.env⟩

theorem GoodE.stripped {p : Ops} (h : GoodE env p) : GoodE env (strip p) :=
  ⟨inFragJ_stripped h.frag, h.wf.stripped, SqlWF.stripped h.sqlwf, mapsOK_stripped h.maps, JoinWF.stripped h.jwf,
    joinTypesSql_stripped h.types, joinKeysLen_stripped h.keylen, labelSidesPlain_stripped h.label,
    fun nc hnc => h.env nc (by rw [← strip_tables]; exact hnc)⟩

theorem GoodE.join_sides {a b : Ops} {oa ob : List String} {jt : JoinType} (hg : GoodE env (.join a b oa ob jt)) :
    GoodE env a ∧ GoodE env b ∧ (∀ c ∈ oa, c ∈ a.cols) ∧ (∀ c ∈ ob, c ∈ b.cols) ∧ jt ≠ .outer ∧
      oa.length = ob.length := by
  have hfr := hg.frag
  have hsq := hg.sqlwf
  have hmp := hg.maps
  have hj := hg.jwf
  have ht := hg.types
  have hk := hg.keylen
  have hl := hg.label
  simp only [InFragJ, Bool.and_eq_true] at hfr
  simp only [SqlWF, sqlWFb, Bool.and_eq_true] at hsq
  simp only [MapsOK, mapsOKb, Bool.and_eq_true] at hmp
  simp only [JoinWF, joinWFb, Bool.and_eq_true, subset_iff] at hj
  simp only [JoinTypesSql, joinTypesSqlb, Bool.and_eq_true, bne_iff_ne, ne_eq] at ht
  simp only [JoinKeysLen, joinKeysLenb, Bool.and_eq_true, beq_iff_eq] at hk
  simp only [LabelSidesPlain, labelSidesPlainb, Bool.and_eq_true] at hl
  exact ⟨⟨hfr.1, hg.wf.1, hsq.1, hmp.1, hj.1.1.1, ht.1.1, hk.1.1, hl.1, fun nc h => hg.env nc (by simp [Ops.tables, h])⟩,
    ⟨hfr.2, hg.wf.2, hsq.2, hmp.2, hj.1.1.2, ht.1.2, hk.1.2, hl.2, fun nc h => hg.env nc (by simp [Ops.tables, h])⟩,
    hj.1.2, hj.2, ht.2, hk.2⟩

theorem GoodE.concat_sides {a b : Ops} {idc : Option String} {an bn : String}
    (hg : GoodE env (.concat a b idc an bn)) :
    GoodE env a ∧ GoodE env b ∧ (∀ c ∈ a.cols, c ∈ b.cols) ∧ (∀ c ∈ b.cols, c ∈ a.cols) ∧
      (idc.isNone = true ∨ (noTrivTop a = true ∧ noTrivTop b = true)) := by
  have hfr := hg.frag
  have hsq := hg.sqlwf
  have hmp := hg.maps
  have hj := hg.jwf
  have ht := hg.types
  have hk := hg.keylen
  have hl := hg.label
  simp only [InFragJ, Bool.and_eq_true] at hfr
  simp only [SqlWF, sqlWFb, Bool.and_eq_true] at hsq
  simp only [MapsOK, mapsOKb, Bool.and_eq_true] at hmp
  simp only [JoinWF, joinWFb, Bool.and_eq_true, subset_iff] at hj
  simp only [JoinTypesSql, joinTypesSqlb, Bool.and_eq_true] at ht
  simp only [JoinKeysLen, joinKeysLenb, Bool.and_eq_true] at hk
  simp only [LabelSidesPlain, labelSidesPlainb, Bool.and_eq_true, Bool.or_eq_true] at hl
  exact ⟨⟨hfr.1, hg.wf.1, hsq.1, hmp.1, hj.1.1.1, ht.1, hk.1, hl.1.1, fun nc h => hg.env nc (by simp [Ops.tables, h])⟩,
    ⟨hfr.2, hg.wf.2.1, hsq.2, hmp.2, hj.1.1.2, ht.2, hk.2, hl.1.2, fun nc h => hg.env nc (by simp [Ops.tables, h])⟩,
    hj.1.2, hj.2, hl.2⟩

/-- the emulation pipeline of a FULL join satisfies the structural hypotheses -/
theorem goodE_fullSim {a b : Ops} {K : List String} (hga : GoodE env a) (hgb : GoodE env b) (hK : K ≠ [])
    (hnd : K.Nodup) (hKa : ∀ c ∈ K, c ∈ a.cols) (hKb : ∀ c ∈ K, c ∈ b.cols) : GoodE env (fullSimOps a b K) := by
  have hsa := hga.stripped
  have hsb := hgb.stripped
  have hKsa : ∀ c ∈ K, c ∈ (strip a).cols := fun c hc => by rw [strip_cols]; exact hKa c hc
  have hKsb : ∀ c ∈ K, c ∈ (strip b).cols := fun c hc => by rw [strip_cols]; exact hKb c hc
  refine ⟨?_, ?_, ?_, ?_, ?_, ?_, ?_, ?_, ?_⟩
  · simp [fullSimOps, InFragJ, hsa.frag, hsb.frag, hga.frag, hgb.frag]
  · exact ⟨⟨⟨⟨⟨hsa.wf, hnd, Or.inl hK⟩, ⟨hsb.wf, hnd, Or.inl hK⟩, fun c h => by cases h⟩, hnd, Or.inl hK⟩, hga.wf⟩,
      hgb.wf⟩
  · have h1 := hsa.sqlwf; have h2 := hsb.sqlwf; have h3 := hga.sqlwf; have h4 := hgb.sqlwf
    simp only [SqlWF] at h1 h2 h3 h4 ⊢
    simp only [fullSimOps, sqlWFb, h1, h2, h3, h4, Bool.and_eq_true, subset_iff, List.flatMap_nil, List.map_nil,
      nodupB_iff, disjoint_iff]
    repeat' apply And.intro
    all_goals first | trivial | exact hKsa | exact hKsb | exact List.nodup_nil | (intro c hc; first | exact hc | cases hc)
  · have h1 := hsa.maps; have h2 := hsb.maps; have h3 := hga.maps; have h4 := hgb.maps
    simp only [MapsOK] at h1 h2 h3 h4 ⊢
    simp [fullSimOps, mapsOKb, h1, h2, h3, h4]
  · have h1 := hsa.jwf; have h2 := hsb.jwf; have h3 := hga.jwf; have h4 := hgb.jwf
    simp only [JoinWF] at h1 h2 h3 h4 ⊢
    simp only [fullSimOps, joinWFb, h1, h2, h3, h4, Bool.and_eq_true, subset_iff]
    repeat' apply And.intro
    all_goals first | trivial | exact hKa | exact hKb | (intro c hc; first | exact hc | exact (mem_joinNodeCols _ _ _ _ _ c).mpr (Or.inl hc))
  · have h1 := hsa.types; have h2 := hsb.types; have h3 := hga.types; have h4 := hgb.types
    simp only [JoinTypesSql] at h1 h2 h3 h4 ⊢
    simp [fullSimOps, joinTypesSqlb, h1, h2, h3, h4]
  · have h1 := hsa.keylen; have h2 := hsb.keylen; have h3 := hga.keylen; have h4 := hgb.keylen
    simp only [JoinKeysLen] at h1 h2 h3 h4 ⊢
    simp [fullSimOps, joinKeysLenb, h1, h2, h3, h4]
  · have h1 := hsa.label; have h2 := hsb.label; have h3 := hga.label; have h4 := hgb.label
    simp only [LabelSidesPlain] at h1 h2 h3 h4 ⊢
    simp [fullSimOps, labelSidesPlainb, h1, h2, h3, h4]
  · intro nc hnc
    simp only [fullSimOps, Ops.tables, List.mem_append] at hnc
    rcases hnc with ((hnc | hnc) | hnc) | hnc
    · exact hsa.env nc hnc
    · exact hsb.env nc hnc
    · exact hga.env nc hnc
    · exact hgb.env nc hnc

/-! ### data-side scope -/

/-- **guard of finding D19**, anywhere in the pipeline: wherever the dialect emulates a FULL join
(`cfg.emulateRightFull`), no join key of either side's table is null -/
def FullKeysNullFree (Θ : Interp) (env : Env) (cfg : SqlCfg) : Ops → Prop
  | .table _ _ => True
  | .extend s _ _ _ _ _ | .project s _ _ | .selectRows s _ | .selectCols s _ | .dropCols s _
  | .order s _ _ _ | .rename s _ | .mapCols s _ _ | .convert s _ => FullKeysNullFree Θ env cfg s
  | .join a b onA onB jt => FullKeysNullFree Θ env cfg a ∧ FullKeysNullFree Θ env cfg b ∧
      (cfg.emulateRightFull = true → jt = .full →
        (∀ ta, sem Θ SemCfg.ref env a = .ok ta → NullFreeOn onA ta.rows) ∧
        (∀ tb, sem Θ SemCfg.ref env b = .ok tb → NullFreeOn onB tb.rows))
  | .concat a b _ _ _ => FullKeysNullFree Θ env cfg a ∧ FullKeysNullFree Θ env cfg b

/-- on a dialect with native RIGHT / FULL joins the guard is empty -/
theorem fullKeysNullFree_of_generic (Θ : Interp) (env : Env) {cfg : SqlCfg} (h : cfg.emulateRightFull = false)
    (p : Ops) : FullKeysNullFree Θ env cfg p := by
  induction p with
  | table => trivial
  | join a b oa ob jt iha ihb => exact ⟨iha, ihb, fun h' => by rw [h] at h'; cases h'⟩
  | concat a b i an bn iha ihb => exact ⟨iha, ihb⟩
  | _ => rename_i ih; exact ih

/-- the data-side scope of the nested-emulation theorem -/
structure ScopeE (Θ : Interp) (env : Env) (cfg : SqlCfg) (p : Ops) : Prop where
  aggs : AggsOrderFree Θ p
  wins : WindowsTotal Θ SemCfg.ref env p
  sql : SqlScope Θ SemCfg.ref env p
  full : FullKeysNullFree Θ env cfg p

theorem aggsOrderFree_stripped {p : Ops} (h : AggsOrderFree Θ p) : AggsOrderFree Θ (strip p) := by
  fun_induction strip p with
  | case1 src _ _ ih => exact ih h
  | case2 p _ => exact h

theorem windowsTotal_stripped {p : Ops} (h : WindowsTotal Θ SemCfg.ref env p) :
    WindowsTotal Θ SemCfg.ref env (strip p) := by
  fun_induction strip p with
  | case1 src _ _ ih => exact ih h.1
  | case2 p _ => exact h

theorem sqlScope_stripped {p : Ops} (h : SqlScope Θ SemCfg.ref env p) : SqlScope Θ SemCfg.ref env (strip p) := by
  fun_induction strip p with
  | case1 src _ _ ih => exact ih h.1
  | case2 p _ => exact h

theorem fullKeysNullFree_stripped {p : Ops} (h : FullKeysNullFree Θ env cfg p) :
    FullKeysNullFree Θ env cfg (strip p) := by
  fun_induction strip p with
  | case1 src _ _ ih => exact ih h
  | case2 p _ => exact h

theorem ScopeE.stripped {p : Ops} (h : ScopeE Θ env cfg p) : ScopeE Θ env cfg (strip p) :=
  ⟨aggsOrderFree_stripped h.aggs, windowsTotal_stripped h.wins, sqlScope_stripped h.sql,
    fullKeysNullFree_stripped h.full⟩

/-- the emulation pipeline of a FULL join is in the data-side scope when its two sides are (its own joins are LEFT
joins, its projections have no aggregates) -/
theorem scopeE_fullSim {a b : Ops} (K : List String) (ha : ScopeE Θ env cfg a) (hb : ScopeE Θ env cfg b) :
    ScopeE Θ env cfg (fullSimOps a b K) := by
  have hsa := ha.stripped
  have hsb := hb.stripped
  refine ⟨?_, ?_, ?_, ?_⟩
  · exact ⟨⟨⟨⟨⟨hsa.aggs, fun _ h => by cases h⟩, ⟨hsb.aggs, fun _ h => by cases h⟩⟩, fun _ h => by cases h⟩, ha.aggs⟩,
      hb.aggs⟩
  · exact ⟨⟨⟨hsa.wins, hsb.wins⟩, ha.wins⟩, hb.wins⟩
  · exact ⟨⟨⟨hsa.sql, hsb.sql⟩, ha.sql⟩, hb.sql⟩
  · exact ⟨⟨⟨hsa.full, hsb.full⟩, ha.full, fun _ h => by cases h⟩, hb.full, fun _ h => by cases h⟩

/-! ### evaluation -/

/-- a pipeline without its trailing `order_rows` nodes evaluates to the same rows in another order (any comparison) -/
theorem semG_strip {le : RowCmp} {scfg : SemCfg} {p : Ops} {tp : Table} (h : semG le Θ scfg env p = .ok tp) :
    ∃ ts, semG le Θ scfg env (strip p) = .ok ts ∧ ∀ r, r ∈ ts.rows ↔ r ∈ tp.rows := by
  fun_induction strip p generalizing tp with
  | case1 src cs rev ih =>
    simp only [semG] at h
    obtain ⟨t0, h0, rfl⟩ := bind_pure_ok h
    obtain ⟨ts, hts, hmem⟩ := ih h0
    refine ⟨ts, hts, fun r => (hmem r).trans ?_⟩
    simp only [semOrderG]
    exact List.mem_mergeSort.symm
  | case2 p _ => exact ⟨tp, h, fun _ => Iff.rfl⟩

end SqlE
end Sql
end DAVerif
