import DAVerif.Proofs.SqlReach
import DAVerif.Proofs.SqlMergeMain
import DAVerif.Proofs.SqlNodeUnary
/-!
C01/C02/C16, nested emulation: the `extend` node **with the extend merge** against an arbitrary reference table of
its source (`Sql.transOK_extend_merge` with the reference table as a parameter, see `Proofs/SqlNodeUnary.lean`), and the
invariant of mergeable steps as a claim that does not mention the semantics (`NodeM`).
-/
namespace DAVerif
namespace Sql
namespace SqlE
open DAVerif.Ops (usedFromSources unionL)
open Rules26 (usedBy keys)

variable {Θ : Interp} {ec : EngineCfg} {env : Env} {scfg : SemCfg} {G : Near → Prop} {cfg : SqlCfg}

/-- every successful translation of `p` (for a request within its columns) satisfies the invariant of mergeable
steps -/
def NodeM (cfg : SqlCfg) (fuel : Nat) (p : Ops) : Prop :=
  ∀ (u : List String) (st : Nat) (q : Near) (st' : Nat),
    (∀ c ∈ u, c ∈ p.cols) → toNear cfg fuel p (some u) st = .ok (q, st') → MergeInv q

theorem nodeM_zero (cfg : SqlCfg) (p : Ops) : NodeM cfg 0 p :=
  fun _ _ _ _ _ h => absurd h toNear_zero_ne_ok

theorem NodeM.transOKM {fuel : Nat} {p : Ops} (h : NodeM cfg fuel p) : TransOKM Θ ec env scfg cfg fuel p :=
  fun u st q st' _ hu ht _ => h u st q st' hu ht

theorem nodeM_of_transOKM {fuel : Nat} {p : Ops} (h : TransOKM Θ ec env scfg cfg fuel p)
    (hex : ∃ tp, semE ec Θ scfg env p = .ok tp) : NodeM cfg fuel p := by
  obtain ⟨tp, htp⟩ := hex
  exact fun u st q st' hu ht => h u st q st' tp hu ht htp

/-- **`extend`, with the merge, against any reference table of the source**: if every translation of the source is
`Sound` against `ts` and satisfies the invariant of mergeable steps, every translation of the extend node – pruned, new
step, or merged into the step of the source – is `Sound` against the extend of `ts` (engine's ordering in windows)
and satisfies the invariant. -/
theorem nodeOK_extend_merge (hG : ShapeOK Θ ec env G) (fuel : Nat) (src : Ops) (ops : Assign)
    (part order rev : List String) (w : Bool) (hext : ExtOK src.cols ops part order rev w) {ts : Table}
    (ih : NodeOK Θ ec env G cfg fuel src ts) (ihM : NodeM cfg fuel src) :
    NodeOK Θ ec env G cfg (fuel + 1) (.extend src ops part order rev w) (extRef Θ ec src ops part order rev w ts) ∧
      NodeM cfg (fuel + 1) (.extend src ops part order rev w) := by
  suffices hboth : ∀ (u : List String) (st : Nat) (q : Near) (st' : Nat),
      (∀ c ∈ u, c ∈ (Ops.extend src ops part order rev w).cols) →
      toNear cfg (fuel + 1) (.extend src ops part order rev w) (some u) st = .ok (q, st') →
      (G q ∧ ∃ u₁, (∀ c ∈ u, c ∈ u₁) ∧ (∀ c ∈ u₁, c ∈ (Ops.extend src ops part order rev w).cols) ∧
        Sound Θ ec env q u₁ (Ops.extend src ops part order rev w).cols (extRef Θ ec src ops part order rev w ts)) ∧
        MergeInv q from
    ⟨fun u st q st' hu h => (hboth u st q st' hu h).1, fun u st q st' hu h => (hboth u st q st' hu h).2⟩
  intro u st q st' hu h
  have hncols : ∀ c, c ∈ (Ops.extend src ops part order rev w).cols ↔ c ∈ src.cols ∨ c ∈ ops.map (·.1) := by
    intro c; simp only [Ops.cols]; exact mem_appendNew
  have huusg : ∀ c ∈ u, c ∈ extUsg u part order rev := fun c hc => mem_usg.mpr (Or.inl hc)
  rcases toNear_extend_inv h with ⟨hempty, h'⟩ | ⟨hne, husgn, sub, st3, h5, hcase⟩
  · -- no assignment is needed: the source is translated for the enlarged column set
    have husgn : ∀ c ∈ extUsg u part order rev, c ∈ (Ops.extend src ops part order rev w).cols := by
      obtain ⟨_, hpart, hord, hrev, _⟩ := hext
      intro c hc
      rcases mem_usg.mp hc with h | h | h | h
      · exact hu c h
      · exact (hncols c).mpr (Or.inl (hpart c h))
      · exact (hncols c).mpr (Or.inl (hord c h))
      · exact (hncols c).mpr (Or.inl (hord c (hrev c h)))
    have hnokey : ∀ c ∈ extUsg u part order rev, c ∉ ops.map (·.1) := by
      intro c hc hk
      obtain ⟨kv, hkv, rfl⟩ := List.mem_map.mp hk
      have : kv ∈ extSubops ops (extUsg u part order rev) := List.mem_filter.mpr ⟨hkv, by simpa using hc⟩
      rw [List.isEmpty_iff.mp hempty] at this
      cases this
    have husgsrc : ∀ c ∈ extUsg u part order rev, c ∈ src.cols := by
      intro c hc
      rcases (hncols c).mp (husgn c hc) with h | h
      · exact h
      · exact absurd h (hnokey c hc)
    obtain ⟨hGq, S₁, hS₁, _, hsound⟩ := ih _ st q st' husgsrc h'
    refine ⟨⟨hGq, extUsg u part order rev, huusg, husgn, ?_⟩, ihM _ st q st' husgsrc h'⟩
    exact (hsound.restrict hS₁).mono (fun c hc => (hncols c).mpr (Or.inl hc))
      (fun u' hu' => extRef_passrows Θ ec src ops part order rev w ts
        (fun c hc => ⟨husgn c (hu' c hc), hnokey c (hu' c hc)⟩))
  · have hF := extFacts hext hu hne
    generalize hSdef : ((Ops.extend src ops part order rev w).usedFromSources (extUsg u part order rev)).headD [] = S
      at h5 hcase hF
    generalize husgdef : extUsg u part order rev = usg at huusg hne husgn hcase hF
    obtain ⟨_, S₁, hS₁, _, hsound⟩ := ih S st sub st3 hF.Ssrc h5
    have hMsub := ihM S st sub st3 hF.Ssrc h5
    have hTok := extend_termsOK hF
    have hmk : mkTerms (extTerms ops usg (extWin part order rev w)) = some (extTerms ops usg (extWin part order rev w)) := by
      simp [mkTerms, hF.tne]
    rcases hcase with ⟨rfl, rfl⟩ | ⟨hmg, sname, sterms, sagg, ssub, scols, sdeps, skey, rfl, hcont, rfl, rfl⟩
    · -- a new step is emitted
      refine ⟨⟨hG.simple _ rfl, usg, huusg, husgn, extend_step_sound hext hF hsound hS₁ st3 _⟩, ?_⟩
      unfold extFallback
      rw [hmk]
      exact mergeInv_unary hTok
    · -- our entries are merged into the step of the source
      obtain ⟨rfl, _, ts', sc, ds', hts', rfl, hds', hsubOK⟩ := hMsub _ _ _ _ _ _ _ _ rfl
      cases hts'
      cases hds'
      have hstep := extend_step_sound (Θ := Θ) (ec := ec) (env := env) hext hF hsound hS₁ st'
        (extDeps ops usg (extWindowVars part order w))
      -- the columns we request from the source step are among its keys
      have hSkeys : ∀ x ∈ S, x ∈ sterms.map (·.1) := by
        intro x hx
        have hne1 : S₁ ≠ [] := by
          intro e; have := hS₁ x hx; rw [e] at this; cases this
        obtain ⟨ks, hk, _, hk2⟩ := hsound.keys hne1
        simp only [Near.termKeys, Option.map_some, Option.some.injEq] at hk
        subst hk
        exact hk2 x (hS₁ x hx)
      have hkeysM : ∀ k, k ∈ (mergeDict (nonTrivialTerms (extDeps ops usg (extWindowVars part order w))
            (extTerms ops usg (extWin part order rev w))) (extTerms ops usg (extWin part order rev w)) sterms
            ((extTerms ops usg (extWin part order rev w)).map (·.1))).map (·.1) ↔ k ∈ usg := by
        intro k
        rw [keys_mergeDict, hF.keysT]
        constructor
        · exact fun h => h.1
        · intro hk
          refine ⟨hk, ?_⟩
          by_cases hnt : k ∈ nonTrivialTerms (extDeps ops usg (extWindowVars part order w))
              (extTerms ops usg (extWin part order rev w))
          · exact Or.inl ⟨hnt, hk⟩
          · right
            have hkt := (hF.keysT (extWin part order rev w) k).mpr hk
            cases hl : lookupLast (extTerms ops usg (extWin part order rev w)) k with
            | none => exact absurd hkt (lookupLast_eq_none_iff.mp hl)
            | some tm =>
              have := our_pass hTok hnt hl
              subst this
              exact hSkeys k (hTok.inSrc k .pass hl k (by simp [termReads]))
      refine ⟨⟨hG.simple _ rfl, usg, huusg, husgn, ?_, ?_⟩, ?_⟩
      · intro u' hu' force
        obtain ⟨T, t1, _, t4⟩ := hstep.req u' hu' force
        unfold extFallback at t1
        rw [hmk] at t1
        obtain ⟨T', m1, m2, m4⟩ := merge_sound (key' := keyOfNode "extend" (.extend src ops part order rev w)
          ((mergeDict (nonTrivialTerms (extDeps ops usg (extWindowVars part order w))
            (extTerms ops usg (extWin part order rev w))) (extTerms ops usg (extWin part order rev w)) sterms
            ((extTerms ops usg (extWin part order rev w)).map (·.1))).map (·.1))) hsubOK hTok hcont
          (fun c hc => (hF.keysT _ c).mpr (hu' c hc)) force t1
        exact ⟨T', m1, m2, m4.trans t4⟩
      · intro _
        exact ⟨_, rfl, fun k hk => husgn k ((hkeysM k).mp hk), fun c hc => (hkeysM c).mpr hc⟩
      · exact mergeInv_unary (termsOK_merge hsubOK hTok hcont hSkeys)

end SqlE
end Sql
end DAVerif
