import DAVerif.Core.OrderedSet
/-! Lemmas about the OrderedSet model (helper lemmas; the property statements are in Props/C24.lean). -/
namespace DAVerif.OSet

variable {α : Type} [DecidableEq α]

/-- Specification-side function: keep the first occurrence of every element. -/
def dedupFirst : List α → List α
  | [] => []
  | x :: xs => x :: (dedupFirst xs).filter (fun y => y ≠ x)

theorem dedupFirst_filter (p : α → Bool) (l : List α) :
    (dedupFirst l).filter p = dedupFirst (l.filter p) := by
  induction l with
  | nil => rfl
  | cons x xs ih =>
    simp only [dedupFirst, List.filter_cons]
    split
    · simp only [dedupFirst, ← ih, List.filter_filter]
      congr 1; congr 1; funext y; exact Bool.and_comm _ _
    · rename_i hx
      rw [← ih, List.filter_filter]
      apply List.filter_congr
      intro y hy
      by_cases hyx : y = x
      · subst hyx; simp [hx]
      · simp [hyx]

@[simp] theorem mem_dedupFirst {x : α} {l : List α} : x ∈ dedupFirst l ↔ x ∈ l := by
  induction l with
  | nil => simp [dedupFirst]
  | cons y ys ih =>
    simp only [dedupFirst, List.mem_cons, List.mem_filter, ih]
    by_cases h : x = y <;> simp [h]

theorem nodup_dedupFirst (l : List α) : (dedupFirst l).Nodup := by
  induction l with
  | nil => simp [dedupFirst]
  | cons y ys ih =>
    simp only [dedupFirst, List.nodup_cons, List.mem_filter]
    refine ⟨by simp, ?_⟩
    exact List.Nodup.sublist List.filter_sublist ih

theorem dedupFirst_of_nodup {l : List α} (h : l.Nodup) : dedupFirst l = l := by
  induction l with
  | nil => rfl
  | cons y ys ih =>
    rw [List.nodup_cons] at h
    simp only [dedupFirst, ih h.2]
    congr 1
    rw [List.filter_eq_self]
    intro a ha; simp; intro e; subst e; exact h.1 ha

theorem dedupFirst_snoc (l : List α) (x : α) :
    dedupFirst (l ++ [x]) = if x ∈ l then dedupFirst l else dedupFirst l ++ [x] := by
  induction l with
  | nil => simp [dedupFirst]
  | cons y ys ih =>
    simp only [List.cons_append, dedupFirst, ih, List.mem_cons]
    by_cases hxy : x = y
    · subst hxy; simp
      split <;> simp_all
    · by_cases hx : x ∈ ys <;> simp [hxy, hx]

/-- Key lemma: adding a sequence appends its not-yet-present elements, first occurrences only. -/
theorem addAll_eq (s v : List α) :
    addAll s v = s ++ dedupFirst (v.filter (fun x => !(s.contains x))) := by
  induction v generalizing s with
  | nil => simp [addAll, dedupFirst]
  | cons x v ih =>
    have ih' := ih
    unfold addAll at ih' ⊢
    simp only [List.foldl_cons]
    by_cases hx : x ∈ s
    · simp [add, hx, ih', List.filter_cons]
    · simp only [add, hx, if_false, ih', List.filter_cons, List.contains_eq_mem, decide_false,
        Bool.not_false, if_true, dedupFirst, List.append_assoc, List.cons_append, List.nil_append]
      rw [dedupFirst_filter, List.filter_filter]
      congr 2
      congr 1
      apply List.filter_congr
      intro y _
      by_cases hyx : y = x
      · subst hyx; simp [hx]
      · simp [hyx]

theorem ofList_eq (v : List α) : ofList v = dedupFirst v := by
  have h : v.filter (fun _ => true) = v := by simp
  simp [ofList, addAll_eq, h]

theorem add_eq_addAll (s : List α) (x : α) : add s x = addAll s [x] := by simp [addAll]

theorem nodup_add {s : List α} (h : s.Nodup) (x : α) : (add s x).Nodup := by
  unfold add; split
  · exact h
  · rename_i hx
    rw [List.nodup_append]
    exact ⟨h, by simp, by intro a ha b hb; simp at hb; subst hb; intro e; subst e; exact hx ha⟩

theorem mem_add {s : List α} {x y : α} : y ∈ add s x ↔ y = x ∨ y ∈ s := by
  unfold add; split
  · rename_i hx; constructor
    · exact Or.inr
    · rintro (rfl | h); exact hx; exact h
  · simp [or_comm]

theorem nodup_discard {s : List α} (h : s.Nodup) (x : α) : (discard s x).Nodup := h.erase x

theorem mem_discard {s : List α} (h : s.Nodup) {x y : α} : y ∈ discard s x ↔ y ∈ s ∧ y ≠ x := by
  unfold discard; rw [h.mem_erase_iff]; exact And.comm

theorem discard_eq_filter {s : List α} (h : s.Nodup) (x : α) :
    discard s x = s.filter (fun y => y ≠ x) := by
  unfold discard; rw [h.erase_eq_filter]; apply List.filter_congr; intro y _; simp [bne, Bool.beq_eq_decide_eq]

theorem nodup_addAll {s : List α} (h : s.Nodup) (v : List α) : (addAll s v).Nodup := by
  induction v generalizing s with
  | nil => exact h
  | cons x v ih => exact ih (nodup_add h x)

theorem mem_addAll {s v : List α} {y : α} : y ∈ addAll s v ↔ y ∈ s ∨ y ∈ v := by
  induction v generalizing s with
  | nil => simp [addAll]
  | cons x v ih =>
    show y ∈ addAll (add s x) v ↔ _
    rw [ih, mem_add]; simp only [List.mem_cons]; constructor
    · rintro ((h | h) | h); exact Or.inr (Or.inl h); exact Or.inl h; exact Or.inr (Or.inr h)
    · rintro (h | h | h); exact Or.inl (Or.inr h); exact Or.inl (Or.inl h); exact Or.inr h

theorem nodup_ofList (v : List α) : (ofList v).Nodup := nodup_addAll List.nodup_nil v
theorem mem_ofList {v : List α} {y : α} : y ∈ ofList v ↔ y ∈ v := by simp [ofList, mem_addAll]

theorem nodup_foldl_discard {s : List α} (h : s.Nodup) (o : List α) : (o.foldl discard s).Nodup := by
  induction o generalizing s with
  | nil => exact h
  | cons x o ih => exact ih (nodup_discard h x)

theorem mem_foldl_discard {s : List α} (h : s.Nodup) (o : List α) {y : α} :
    y ∈ o.foldl discard s ↔ y ∈ s ∧ y ∉ o := by
  induction o generalizing s with
  | nil => simp
  | cons x o ih =>
    simp only [List.foldl_cons, ih (nodup_discard h x), mem_discard h, List.mem_cons, not_or]
    constructor
    · rintro ⟨⟨a, b⟩, c⟩; exact ⟨a, b, c⟩
    · rintro ⟨a, b, c⟩; exact ⟨⟨a, b⟩, c⟩

/-- the guarded add used by `union` and `ordered_union` is just `add` -/
theorem guarded_add (r : List α) (k : α) : (if k ∈ r then r else add r k) = add r k := by
  unfold add; split <;> rfl

theorem union_eq (s : List α) (args : List (List α)) : union s args = update (ofList s) args := by
  unfold union update
  congr 1; funext r o
  show _ = addAll r o
  unfold addAll; congr 1; funext r k; exact guarded_add r k

theorem nodup_update {s : List α} (h : s.Nodup) (args : List (List α)) : (update s args).Nodup := by
  induction args generalizing s with
  | nil => exact h
  | cons a args ih => exact ih (nodup_addAll h a)

theorem mem_update {s : List α} {args : List (List α)} {y : α} :
    y ∈ update s args ↔ y ∈ s ∨ ∃ a ∈ args, y ∈ a := by
  induction args generalizing s with
  | nil => simp [update]
  | cons a args ih =>
    show y ∈ update (addAll s a) args ↔ _
    rw [ih, mem_addAll]; simp only [List.mem_cons, exists_eq_or_imp]; exact or_assoc

theorem pop_spec {s : List α} (h : s.Nodup) {x : α} {s' : List α} (hp : pop s = some (x, s')) :
    s = x :: s' := by
  cases s with
  | nil => simp [pop] at hp
  | cons y ys =>
    simp only [pop, discard, List.erase_cons_head, Option.some.injEq, Prod.mk.injEq] at hp
    rw [hp.1, hp.2]

theorem clearAux_eq (n : Nat) (s : List α) (h : s.Nodup) (hn : s.length ≤ n) : clearAux n s = [] := by
  induction n generalizing s with
  | zero => cases s with
    | nil => rfl
    | cons _ _ => simp at hn
  | succ n ih =>
    cases s with
    | nil => simp [clearAux, pop]
    | cons y ys =>
      simp only [clearAux, pop, discard, List.erase_cons_head]
      exact ih ys (List.nodup_cons.mp h).2 (by simpa using hn)

theorem clear_eq {s : List α} (h : s.Nodup) : clear s = [] := clearAux_eq _ s h (Nat.le_refl _)

end DAVerif.OSet
