import DAVerif.Sql.WithFormG
/-
Query names of the NearSQL translation (property C04, theorem `C04_names_unique`): `temp_id_source` is threaded
monotonically through `toNear`; every step name is `<prefix>_<i>` with `i` taken from the counter exactly once, so the
names of a translated query are pairwise different.  Also: the translation never emits a CTE reference.
-/
namespace DAVerif.Sql
open DAVerif

/-! ### the number at the end of a generated name -/

/-- the decimal number formed by the trailing digits of a string -/
def idxOf (s : String) : Nat := Nat.ofDigitChars 10 ((s.toList.reverse.takeWhile Char.isDigit).reverse) 0

theorem takeWhile_append_stop {α} (p : α → Bool) (a : List α) (x : α) (b : List α) (ha : ∀ y ∈ a, p y = true)
    (hx : p x = false) : (a ++ x :: b).takeWhile p = a := by
  induction a with
  | nil => simp [hx]
  | cons y a ih =>
    simp only [List.cons_append, List.takeWhile_cons, ha y (by simp), if_true]
    rw [ih (fun z hz => ha z (by simp [hz]))]

theorem idxOf_name (pfx : String) (i : Nat) : idxOf (pfx ++ "_" ++ toString i) = i := by
  unfold idxOf
  simp only [String.toList_append, List.reverse_append, Nat.toString_eq_repr, Nat.toList_repr]
  have : ("_" : String).toList.reverse = ['_'] := by decide
  rw [this]
  simp only [List.singleton_append]
  rw [takeWhile_append_stop]
  · simp
  · intro y hy
    simp only [List.mem_reverse] at hy
    exact Nat.isDigit_of_mem_toDigits (by omega) (by omega) hy
  · decide

/-- the generated names: `f"{prefix}_{i}"` -/
theorem idxOf_gen (pfx : String) (i : Nat) : idxOf (toString (pfx ++ "_") ++ toString i) = i :=
  idxOf_name pfx i

/-! ### names with indices in a range, pairwise different -/

def NamesInL (lo hi : Nat) (ns : List String) : Prop :=
  (ns.map idxOf).Nodup ∧ ∀ n ∈ ns, lo ≤ idxOf n ∧ idxOf n < hi

theorem NamesInL.nil (lo hi : Nat) : NamesInL lo hi [] := ⟨by simp, by simp⟩

theorem NamesInL.mono {lo hi lo' hi' : Nat} {ns : List String} (h : NamesInL lo hi ns) (h1 : lo' ≤ lo) (h2 : hi ≤ hi') :
    NamesInL lo' hi' ns :=
  ⟨h.1, fun n hn => ⟨by have := (h.2 n hn).1; omega, by have := (h.2 n hn).2; omega⟩⟩

theorem NamesInL.append {a b c : Nat} {l1 l2 : List String} (h1 : NamesInL a b l1) (h2 : NamesInL b c l2)
    (hab : a ≤ b) (hbc : b ≤ c) : NamesInL a c (l1 ++ l2) := by
  refine ⟨?_, ?_⟩
  · rw [List.map_append, List.nodup_append]
    refine ⟨h1.1, h2.1, ?_⟩
    intro x hx y hy he
    simp only [List.mem_map] at hx hy
    obtain ⟨n1, hn1, rfl⟩ := hx
    obtain ⟨n2, hn2, rfl⟩ := hy
    have := (h1.2 n1 hn1).2
    have := (h2.2 n2 hn2).1
    omega
  · intro n hn
    simp only [List.mem_append] at hn
    cases hn with
    | inl h => have := h1.2 n h; omega
    | inr h => have := h2.2 n h; omega

theorem NamesInL.cons_hi {lo hi : Nat} {l : List String} {n : String} (h : NamesInL lo hi l) (hn : idxOf n = hi)
    (hle : lo ≤ hi) : NamesInL lo (hi + 1) (n :: l) := by
  refine ⟨?_, ?_⟩
  · rw [List.map_cons, List.nodup_cons]
    refine ⟨?_, h.1⟩
    intro hmem
    simp only [List.mem_map] at hmem
    obtain ⟨m, hm, he⟩ := hmem
    have := (h.2 m hm).2
    omega
  · intro m hm
    simp only [List.mem_cons] at hm
    cases hm with
    | inl h' => subst h'; omega
    | inr h' => have := h.2 m h'; omega

theorem NamesInL.cons_lo {lo hi : Nat} {l : List String} {n : String} (h : NamesInL (lo + 1) hi l) (hn : idxOf n = lo)
    (hlt : lo < hi) : NamesInL lo hi (n :: l) := by
  refine ⟨?_, ?_⟩
  · rw [List.map_cons, List.nodup_cons]
    refine ⟨?_, h.1⟩
    intro hmem
    simp only [List.mem_map] at hmem
    obtain ⟨m, hm, he⟩ := hmem
    have := (h.2 m hm).1
    omega
  · intro m hm
    simp only [List.mem_cons] at hm
    cases hm with
    | inl h' => subst h'; omega
    | inr h' => have := h.2 m h'; omega

theorem NamesInL.nodup {lo hi : Nat} {l : List String} (h : NamesInL lo hi l) : l.Nodup := by
  have := h.1
  rw [List.nodup_iff_pairwise_ne, List.pairwise_map] at this
  rw [List.nodup_iff_pairwise_ne]
  exact this.imp (fun hne he => hne (by rw [he]))

/-! ### the state monad of the translation -/

theorem M_bind_ok {α β : Type} (x : M α) (f : α → M β) (s : Nat) (r : β × Nat) :
    (x >>= f) s = .ok r ↔ ∃ a s1, x s = .ok (a, s1) ∧ f a s1 = .ok r := by
  simp only [bind, StateT.bind, Except.bind]
  cases h : x s with
  | error e => simp
  | ok v =>
    cases v with
    | mk a s1 =>
      simp only [Except.ok.injEq, Prod.mk.injEq]
      constructor
      · intro h'; exact ⟨a, s1, ⟨rfl, rfl⟩, h'⟩
      · rintro ⟨a', s1', ⟨rfl, rfl⟩, h'⟩; exact h'

theorem M_pure_ok {α : Type} (a : α) (s : Nat) (r : α × Nat) : (pure a : M α) s = .ok r ↔ r = (a, s) := by
  simp only [pure, StateT.pure, Except.pure]
  constructor
  · intro h; cases h; rfl
  · intro h; subst h; rfl

theorem M_fresh_ok (s : Nat) (r : Nat × Nat) : fresh s = .ok r ↔ r = (s, s + 1) := by
  simp only [fresh, bind, StateT.bind, get, getThe, MonadStateOf.get, StateT.get, set, StateT.set, pure, StateT.pure,
    Except.pure, Except.bind]
  constructor
  · intro h; cases h; rfl
  · intro h; subst h; rfl

theorem M_liftE_ok {α : Type} (e : Except Err α) (s : Nat) (r : α × Nat) :
    liftE e s = .ok r ↔ ∃ a, e = .ok a ∧ r = (a, s) := by
  cases e with
  | error e => simp [liftE, Except.map]
  | ok a =>
    simp only [liftE, Except.map, Except.ok.injEq, exists_eq_left']
    constructor
    · intro h; exact h.symm
    · intro h; exact h.symm

theorem M_guardM_ok (c : Bool) (e : Err) (s : Nat) (r : Unit × Nat) :
    guardM c e s = .ok r ↔ c = true ∧ r = ((), s) := by
  simp only [guardM, M_liftE_ok, ok?]
  cases c
  · simp
  · simp only [if_true, true_and]
    constructor
    · rintro ⟨a, rfl⟩; rfl
    · intro h; exact ⟨(), h⟩

/-! ### the invariant of `toNear` -/

/-- the counter only grows; the names of the result carry the indices taken in between, each once; no CTE node -/
def Spec (m : M Near) : Prop :=
  ∀ s q s', m s = .ok (q, s') → s ≤ s' ∧ NamesInL s s' q.names ∧ q.noCte = true

theorem setTermKeys_names (near : Near) (keys : List String) (b : Bool) (r : Near)
    (h : setTermKeys near keys b = some r) : r.names = near.names ∧ r.noCte = near.noCte := by
  cases near with
  | table n ts =>
    simp only [setTermKeys] at h
    split at h
    · cases h; exact ⟨rfl, rfl⟩
    · split at h
      · cases h; exact ⟨rfl, rfl⟩
      · cases h
  | cte n => simp only [setTermKeys] at h; cases h; exact ⟨rfl, rfl⟩
  | unary n ts agg sub sc sf mg deps key =>
    simp only [setTermKeys] at h
    repeat' split at h
    all_goals first | (cases h; exact ⟨rfl, rfl⟩) | cases h
  | join n ts l lc ln r rc rn jt oa ob key =>
    simp only [setTermKeys] at h
    repeat' split at h
    all_goals first | (cases h; exact ⟨rfl, rfl⟩) | cases h
  | union n ts l r cs key =>
    simp only [setTermKeys] at h
    repeat' split at h
    all_goals first | (cases h; exact ⟨rfl, rfl⟩) | cases h

/-- the common shape "translate the source, take a number, wrap": `<prefix>_<i>` around the sub-query -/
theorem Spec.wrap {m : M Near} (hm : Spec m) (pfx : String) (ts : Option Terms) (agg : Bool) (sc : Option (List String))
    (sf : Suffix) (mg : Bool) (deps : Option (List (String × List String))) (key : Option String) :
    Spec (do
      let sub ← m
      let i ← fresh
      return .unary (toString (pfx ++ "_") ++ toString i) ts agg sub sc sf mg deps key) := by
  intro s q s' h
  simp only [M_bind_ok, M_pure_ok, M_fresh_ok] at h
  obtain ⟨sub, s1, hsub, i, s2, hi, hq⟩ := h
  cases hi
  cases hq
  obtain ⟨h1, h2, h3⟩ := hm s sub s1 hsub
  refine ⟨by omega, ?_, by simpa [Near.noCte] using h3⟩
  simp only [Near.names]
  exact NamesInL.cons_hi h2 (idxOf_gen pfx s1) h1

theorem M_ite_ok {α : Type} (c : Prop) [Decidable c] (x y : M α) (s : Nat) (r : α × Nat) :
    (if c then x else y) s = .ok r ↔ (c ∧ x s = .ok r) ∨ (¬ c ∧ y s = .ok r) := by
  by_cases h : c <;> simp [h]

theorem toNear_spec (cfg : SqlCfg) : ∀ fuel p u, Spec (toNear cfg fuel p u) := by
  intro fuel
  induction fuel with
  | zero =>
    intro p u s q s' h
    simp only [toNear, M_liftE_ok] at h
    obtain ⟨a, ha, -⟩ := h
    cases ha
  | succ fuel ih =>
    intro p u
    cases p with
    | table name cs =>
      intro s q s' h
      simp only [toNear, M_bind_ok, M_guardM_ok] at h
      obtain ⟨a, s1, ⟨-, hs⟩, h⟩ := h
      cases hs
      split at h
      · simp only [M_bind_ok, M_pure_ok, M_fresh_ok] at h
        obtain ⟨i, s2, hi, hq⟩ := h
        cases hi; cases hq
        refine ⟨by omega, ?_, rfl⟩
        simp only [Near.names]
        exact NamesInL.cons_hi (NamesInL.nil _ _) (idxOf_gen "table_reference" s) (Nat.le_refl _)
      · simp only [M_pure_ok] at h
        cases h
        exact ⟨Nat.le_refl _, NamesInL.nil _ _, rfl⟩
    | selectRows src e =>
      simp only [toNear]
      exact Spec.wrap (ih _ _) "select_rows" _ _ _ _ _ _ _
    | project src ops group =>
      simp only [toNear]
      exact Spec.wrap (ih _ _) "project" _ _ _ _ _ _ _
    | order src cs reverse limit =>
      simp only [toNear]
      exact Spec.wrap (ih _ _) "order_rows" _ _ _ _ _ _ _
    | mapCols src m dels =>
      simp only [toNear]
      exact Spec.wrap (ih _ _) "map_columns" _ _ _ _ _ _ _
    | rename src m =>
      simp only [toNear]
      exact Spec.wrap (ih _ _) "rename" _ _ _ _ _ _ _
    | convert src rm =>
      intro s q s' h
      simp only [toNear, M_liftE_ok] at h
      obtain ⟨a, ha, -⟩ := h
      cases ha
    | selectCols src cs =>
      intro s q s' h
      simp only [toNear, M_bind_ok] at h
      obtain ⟨sub, s1, hsub, h⟩ := h
      obtain ⟨h1, h2, h3⟩ := ih _ _ s sub s1 hsub
      revert h
      cases hr : setTermKeys sub _ _ with
      | some r =>
        intro h
        simp only [M_pure_ok] at h
        cases h
        obtain ⟨e1, e2⟩ := setTermKeys_names _ _ _ _ hr
        rw [e1, e2]
        exact ⟨h1, h2, h3⟩
      | none =>
        intro h
        simp only [M_liftE_ok] at h
        obtain ⟨a, ha, -⟩ := h
        cases ha
    | dropCols src dels =>
      intro s q s' h
      simp only [toNear, M_bind_ok] at h
      obtain ⟨sub, s1, hsub, h⟩ := h
      obtain ⟨h1, h2, h3⟩ := ih _ _ s sub s1 hsub
      revert h
      cases hr : setTermKeys sub _ _ with
      | some r =>
        intro h
        simp only [M_pure_ok] at h
        cases h
        obtain ⟨e1, e2⟩ := setTermKeys_names _ _ _ _ hr
        rw [e1, e2]
        exact ⟨h1, h2, h3⟩
      | none =>
        intro h
        simp only [M_liftE_ok] at h
        obtain ⟨a, ha, -⟩ := h
        cases ha
    | concat a b idc an bn =>
      intro s q s' h
      cases idc with
      | none =>
        simp only [toNear, M_bind_ok, M_guardM_ok, M_pure_ok, M_fresh_ok] at h
        obtain ⟨_, _, ⟨-, e0⟩, _, _, ⟨-, e1⟩, nl, s1, hl, nr, s2, hr, i, s3, hi, hq⟩ := h
        cases e0; cases e1; cases hi; cases hq
        have HL := ih _ _ _ _ _ hl
        have HR := ih _ _ _ _ _ hr
        refine ⟨by omega, ?_, by simp [Near.noCte, HL.2.2, HR.2.2]⟩
        simp only [Near.names]
        exact NamesInL.cons_hi (NamesInL.append HL.2.1 HR.2.1 HL.1 HR.1) (idxOf_gen "concat_rows" s2) (by omega)
      | some c =>
        simp only [toNear, M_bind_ok, M_guardM_ok, M_pure_ok, M_fresh_ok, M_liftE_ok] at h
        obtain ⟨_, _, ⟨-, e0⟩, _, _, ⟨-, e1⟩, a', _, ⟨_, -, ea⟩, nl, s1, hl, b', _, ⟨_, -, eb⟩, nr, s2, hr, i, s3, hi, hq⟩ := h
        cases e0; cases e1; cases hi; cases hq; cases ea; cases eb
        have HL := ih _ _ _ _ _ hl
        have HR := ih _ _ _ _ _ hr
        refine ⟨by omega, ?_, by simp [Near.noCte, HL.2.2, HR.2.2]⟩
        simp only [Near.names]
        exact NamesInL.cons_hi (NamesInL.append HL.2.1 HR.2.1 HL.1 HR.1) (idxOf_gen "concat_rows" s2) (by omega)
    | join a b oa ob jt =>
      intro s q s' h
      simp only [toNear] at h
      split at h
      · simp only [M_bind_ok, M_guardM_ok, M_liftE_ok] at h
        obtain ⟨_, _, ⟨-, e0⟩, _, _, ⟨-, e1⟩, sim, _, ⟨_, -, e2⟩, h⟩ := h
        cases e0; cases e1; cases e2
        exact ih _ _ _ _ _ h
      · simp only [M_bind_ok, M_guardM_ok, M_pure_ok, M_fresh_ok] at h
        obtain ⟨i, _, hi, _, _, ⟨-, e0⟩, _, _, ⟨-, e1⟩, h⟩ := h
        cases hi; cases e0; cases e1
        obtain ⟨nl, s1, hl, nr, s2, hr, hq⟩ := h
        cases hq
        have HL := ih _ _ _ _ _ hl
        have HR := ih _ _ _ _ _ hr
        refine ⟨by omega, ?_, by simp [Near.noCte, HL.2.2, HR.2.2]⟩
        simp only [Near.names]
        exact NamesInL.cons_lo (NamesInL.append HL.2.1 HR.2.1 HL.1 HR.1) (idxOf_gen "natural_join" s) (by omega)
    | extend src ops partition order reverse windowed =>
      intro s q s' h
      simp only [toNear] at h
      split at h
      · exact ih _ _ _ _ _ h
      · simp only [M_bind_ok, M_guardM_ok] at h
        obtain ⟨_, _, ⟨-, e0⟩, _, _, ⟨-, e1⟩, sub, s1, hsub, h⟩ := h
        cases e0; cases e1
        have HS := ih _ _ _ _ _ hsub
        have fb : ∀ (sub : Near) (ts : Option Terms) (sc : Option (List String)) (deps : Option (List (String × List String)))
            (key : Option String), s ≤ s1 ∧ NamesInL s s1 sub.names ∧ sub.noCte = true →
            (do let i ← fresh
                pure (Near.unary (toString "extend_" ++ toString i) ts false sub sc Suffix.none true deps key) : M Near) s1
              = .ok (q, s') → s ≤ s' ∧ NamesInL s s' q.names ∧ q.noCte = true := by
          intro sub ts sc deps key HS h
          simp only [M_bind_ok, M_pure_ok, M_fresh_ok] at h
          obtain ⟨i, _, hi, hq⟩ := h
          cases hi; cases hq
          refine ⟨by omega, ?_, by simpa [Near.noCte] using HS.2.2⟩
          simp only [Near.names]
          exact NamesInL.cons_hi HS.2.1 (idxOf_gen "extend" s1) HS.1
        cases hm : cfg.merges with
        | false => simp only [hm] at h; exact fb _ _ _ _ _ HS h
        | true =>
          simp only [hm] at h
          cases sub with
          | unary sname sterms sagg ssub scols ssf smg sdeps skey =>
            cases sterms <;> cases ssf <;> cases smg <;> cases sdeps <;> simp only [] at h
            all_goals first
              | exact fb _ _ _ _ _ HS h
              | (rw [M_ite_ok] at h
                 rcases h with ⟨-, h⟩ | ⟨-, h⟩
                 · simp only [M_pure_ok] at h
                   cases h
                   simp only [Near.names, Near.noCte] at HS ⊢
                   exact HS
                 · exact fb _ _ _ _ _ HS h)
          | _ => exact fb _ _ _ _ _ HS h

/-- the names of a translated query are pairwise different, and it contains no CTE reference -/
theorem toNearSql_wf (cfg : SqlCfg) (p : Ops) (q : Near) (h : toNearSql cfg p = .ok q) :
    q.names.Nodup ∧ q.noCte = true := by
  unfold toNearSql at h
  simp only [StateT.run, bind, Except.bind] at h
  split at h
  · cases h
  · rename_i v hv
    cases v with
    | mk n s' =>
      simp only [pure, Except.pure, Except.ok.injEq] at h
      subst h
      obtain ⟨-, h2, h3⟩ := toNear_spec cfg _ p none 0 n s' hv
      exact ⟨h2.nodup, h3⟩

end DAVerif.Sql
