import DAVerif.Proofs.RenameSem
import DAVerif.Proofs.SemBasic
/-!
Renaming, from "injective on the names involved" to "injective":

* a function that is injective on a finite list of strings agrees on that list with a globally injective function
  (`exists_injective_ext`: outside the list, append a padding longer than every image of the list);
* the renaming action only looks at the names involved (`*_congr`);
* hence the equivariance of `sem` for renamings that are only injective on the names of the pipeline and its inputs.
-/
namespace DAVerif
namespace Ren

open Function (Injective)

/-! ### extension of a finite injection -/
def maxLen (L : List String) : Nat := L.foldr (fun s n => max s.length n) 0

theorem le_maxLen {L : List String} {s : String} (h : s ∈ L) : s.length ≤ maxLen L := by
  induction L with
  | nil => cases h
  | cons a L ih =>
    simp only [maxLen, List.foldr_cons]
    rcases List.mem_cons.mp h with rfl | h
    · exact Nat.le_max_left _ _
    · exact Nat.le_trans (ih h) (Nat.le_max_right _ _)

def pad (n : Nat) : String := String.ofList (List.replicate (n + 1) 'x')

theorem pad_length (n : Nat) : (pad n).length = n + 1 := by
  simp [pad, String.length_ofList]

/-- `ρ` on `L`, and an injection into strings longer than every `ρ a` (`a ∈ L`) elsewhere -/
def extendInj (ρ : String → String) (L : List String) : String → String :=
  fun s => if s ∈ L then ρ s else s ++ pad (maxLen (L.map ρ))

theorem extendInj_agree (ρ : String → String) (L : List String) {a : String} (h : a ∈ L) :
    extendInj ρ L a = ρ a := by
  simp [extendInj, h]

theorem append_right_cancel {s t p : String} (h : s ++ p = t ++ p) : s = t := by
  have := congrArg String.toList h
  simp only [String.toList_append] at this
  exact String.toList_inj.mp (List.append_cancel_right this)

theorem extendInj_injective {ρ : String → String} {L : List String} (h : InjOn ρ L) :
    Injective (extendInj ρ L) := by
  intro a b e
  unfold extendInj at e
  by_cases ha : a ∈ L <;> by_cases hb : b ∈ L
  · simp only [ha, hb, if_true] at e
    exact h a ha b hb e
  · simp only [ha, hb, if_true, if_false] at e
    have h1 : (ρ a).length ≤ maxLen (L.map ρ) := le_maxLen (List.mem_map_of_mem ha)
    have h2 := congrArg String.length e
    rw [String.length_append, pad_length] at h2
    omega
  · simp only [ha, hb, if_true, if_false] at e
    have h1 : (ρ b).length ≤ maxLen (L.map ρ) := le_maxLen (List.mem_map_of_mem hb)
    have h2 := congrArg String.length e
    rw [String.length_append, pad_length] at h2
    omega
  · simp only [ha, hb, if_false] at e
    exact append_right_cancel e

theorem exists_injective_ext {ρ : String → String} {L : List String} (h : InjOn ρ L) :
    ∃ ρ' : String → String, Injective ρ' ∧ ∀ a ∈ L, ρ' a = ρ a :=
  ⟨extendInj ρ L, extendInj_injective h, fun _ ha => extendInj_agree ρ L ha⟩

/-! ### the action only looks at the names involved -/
theorem map_congr_mem {ρ ρ' : String → String} {l : List String} (e : ∀ c ∈ l, ρ c = ρ' c) : l.map ρ = l.map ρ' :=
  List.map_congr_left e

mutual
theorem Term.rename_congr {ρ ρ' : ColRen} : ∀ t : Term, (∀ c ∈ t.allCols, ρ c = ρ' c) → t.rename ρ = t.rename ρ'
  | .value _, _ => rfl
  | .col c, e => by simp only [Term.rename, e c (by simp [Term.allCols])]
  | .list _, _ => rfl
  | .dict _, _ => rfl
  | .app _ args _ _, e => by
    simp only [Term.rename]
    rw [Term.renameList_congr args (fun c hc => e c (by simpa [Term.allCols] using hc))]
theorem Term.renameList_congr {ρ ρ' : ColRen} : ∀ ts : List Term,
    (∀ c ∈ Term.allColsList ts, ρ c = ρ' c) → Term.renameList ρ ts = Term.renameList ρ' ts
  | [], _ => rfl
  | t :: ts, e => by
    simp only [Term.renameList]
    rw [Term.rename_congr t (fun c hc => e c (by simp [Term.allColsList, hc])),
      Term.renameList_congr ts (fun c hc => e c (by simp [Term.allColsList, hc]))]
end

theorem Assign.rename_congr {ρ ρ' : ColRen} (ops : Assign) (e : ∀ c ∈ Assign.allCols ops, ρ c = ρ' c) :
    Assign.rename ρ ops = Assign.rename ρ' ops := by
  unfold Assign.rename
  apply List.map_congr_left
  intro kv hkv
  have hsub : ∀ c ∈ kv.1 :: kv.2.allCols, c ∈ Assign.allCols ops := by
    intro c hc
    exact List.mem_flatMap.mpr ⟨kv, hkv, hc⟩
  rw [e kv.1 (hsub _ (List.mem_cons_self ..)),
    Term.rename_congr kv.2 (fun c hc => e c (hsub c (List.mem_cons_of_mem _ hc)))]

theorem pairs_congr {ρ ρ' : ColRen} (m : List (String × String))
    (e1 : ∀ c ∈ m.map (·.1), ρ c = ρ' c) (e2 : ∀ c ∈ m.map (·.2), ρ c = ρ' c) :
    m.map (fun kv => (ρ kv.1, ρ kv.2)) = m.map (fun kv => (ρ' kv.1, ρ' kv.2)) := by
  apply List.map_congr_left
  intro kv hkv
  rw [e1 kv.1 (List.mem_map_of_mem (f := (·.1)) hkv), e2 kv.2 (List.mem_map_of_mem (f := (·.2)) hkv)]

theorem Ops.ren_congr {ρc ρc' : ColRen} {ρt ρt' : TabRen} (p : Ops)
    (ec : ∀ c ∈ p.colNames, ρc c = ρc' c) (et : ∀ n ∈ p.tables.map (·.1), ρt n = ρt' n) :
    p.ren ρc ρt = p.ren ρc' ρt' := by
  induction p with
  | table name cs =>
    simp only [Ops.ren]
    rw [et name (by simp [Ops.tables]), map_congr_mem (fun c hc => ec c (by simpa [Ops.colNames] using hc))]
  | extend src ops part od rv w ih =>
    simp only [Ops.colNames, List.mem_append] at ec
    simp only [Ops.ren]
    rw [ih (fun c hc => ec c (by simp [hc])) et, Assign.rename_congr ops (fun c hc => ec c (by simp [hc])),
      map_congr_mem (l := part) (fun c hc => ec c (by simp [hc])),
      map_congr_mem (l := od) (fun c hc => ec c (by simp [hc])),
      map_congr_mem (l := rv) (fun c hc => ec c (by simp [hc]))]
  | project src ops g ih =>
    simp only [Ops.colNames, List.mem_append] at ec
    simp only [Ops.ren]
    rw [ih (fun c hc => ec c (by simp [hc])) et, Assign.rename_congr ops (fun c hc => ec c (by simp [hc])),
      map_congr_mem (l := g) (fun c hc => ec c (by simp [hc]))]
  | selectRows src e ih =>
    simp only [Ops.colNames, List.mem_append] at ec
    simp only [Ops.ren]
    rw [ih (fun c hc => ec c (by simp [hc])) et, Term.rename_congr e (fun c hc => ec c (by simp [hc]))]
  | selectCols src cs ih =>
    simp only [Ops.colNames, List.mem_append] at ec
    simp only [Ops.ren]
    rw [ih (fun c hc => ec c (by simp [hc])) et, map_congr_mem (l := cs) (fun c hc => ec c (by simp [hc]))]
  | dropCols src ds ih =>
    simp only [Ops.colNames, List.mem_append] at ec
    simp only [Ops.ren]
    rw [ih (fun c hc => ec c (by simp [hc])) et, map_congr_mem (l := ds) (fun c hc => ec c (by simp [hc]))]
  | order src cs rv lim ih =>
    simp only [Ops.colNames, List.mem_append] at ec
    simp only [Ops.ren]
    rw [ih (fun c hc => ec c (by simp [hc])) et, map_congr_mem (l := cs) (fun c hc => ec c (by simp [hc])),
      map_congr_mem (l := rv) (fun c hc => ec c (by simp [hc]))]
  | rename src m ih =>
    simp only [Ops.colNames, List.mem_append] at ec
    simp only [Ops.ren]
    rw [ih (fun c hc => ec c (by simp [hc])) et,
      pairs_congr m (fun c hc => ec c (by simp [hc])) (fun c hc => ec c (by simp [hc]))]
  | mapCols src m ds ih =>
    simp only [Ops.colNames, List.mem_append] at ec
    simp only [Ops.ren]
    rw [ih (fun c hc => ec c (by simp [hc])) et,
      pairs_congr m (fun c hc => ec c (by simp [hc])) (fun c hc => ec c (by simp [hc])),
      map_congr_mem (l := ds) (fun c hc => ec c (by simp [hc]))]
  | join a b oa ob jt iha ihb =>
    simp only [Ops.colNames, List.mem_append] at ec
    simp only [Ops.tables, List.map_append, List.mem_append] at et
    simp only [Ops.ren]
    rw [iha (fun c hc => ec c (by simp [hc])) (fun n hn => et n (Or.inl hn)),
      ihb (fun c hc => ec c (by simp [hc])) (fun n hn => et n (Or.inr hn)),
      map_congr_mem (l := oa) (fun c hc => ec c (by simp [hc])),
      map_congr_mem (l := ob) (fun c hc => ec c (by simp [hc]))]
  | concat a b idc an bn iha ihb =>
    simp only [Ops.colNames, List.mem_append] at ec
    simp only [Ops.tables, List.map_append, List.mem_append] at et
    simp only [Ops.ren]
    rw [iha (fun c hc => ec c (by simp [hc])) (fun n hn => et n (Or.inl hn)),
      ihb (fun c hc => ec c (by simp [hc])) (fun n hn => et n (Or.inr hn))]
    cases idc with
    | none => rfl
    | some c => simp only [Option.map_some]; rw [ec c (by simp)]
  | convert src rm ih =>
    simp only [Ops.colNames, List.mem_append] at ec
    simp only [Ops.ren, RecMap.rename]
    rw [ih (fun c hc => ec c (by simp [hc])) et, map_congr_mem (l := rm.needed) (fun c hc => ec c (by simp [hc])),
      map_congr_mem (l := rm.produced) (fun c hc => ec c (by simp [hc]))]

theorem Table.rename_congr {ρ ρ' : ColRen} (t : Table)
    (e : ∀ c ∈ t.cols ++ t.rows.flatMap Row.keys, ρ c = ρ' c) : t.rename ρ = t.rename ρ' := by
  simp only [Table.rename, Row.renameCols]
  rw [map_congr_mem (l := t.cols) (fun c hc => e c (by simp [hc]))]
  congr 1
  apply List.map_congr_left
  intro r hr
  apply Row.rename_congr
  intro c hc
  exact e c (List.mem_append_right _ (List.mem_flatMap.mpr ⟨r, hr, hc⟩))

theorem Env.rename_congr {ρc ρc' : ColRen} {ρt ρt' : TabRen} (env : Env)
    (ec : ∀ c ∈ env.colNames, ρc c = ρc' c) (et : ∀ n ∈ env.map (·.1), ρt n = ρt' n) :
    Env.rename ρc ρt env = Env.rename ρc' ρt' env := by
  unfold Env.rename
  apply List.map_congr_left
  intro nt hnt
  rw [et nt.1 (List.mem_map_of_mem (f := (·.1)) hnt),
    Table.rename_congr nt.2 (fun c hc => ec c (List.mem_flatMap.mpr ⟨nt, hnt, hc⟩))]

/-! ### the declared columns of a pipeline are among its names -/
theorem mem_appendNew {xs ys : List String} {c : String} : c ∈ appendNew xs ys → c ∈ xs ∨ c ∈ ys := by
  unfold appendNew
  induction ys generalizing xs with
  | nil => intro h; exact Or.inl h
  | cons y ys ih =>
    intro h
    simp only [List.foldl_cons] at h
    split at h
    · rcases ih h with h | h
      · exact Or.inl h
      · exact Or.inr (List.mem_cons_of_mem _ h)
    · rcases ih h with h | h
      · rcases List.mem_append.mp h with h | h
        · exact Or.inl h
        · simp only [List.mem_singleton] at h
          exact Or.inr (h ▸ List.mem_cons_self ..)
      · exact Or.inr (List.mem_cons_of_mem _ h)

theorem lookupLast_mem {m : List (String × String)} {c v : String} (h : lookupLast m c = some v) :
    v ∈ m.map (·.2) := by
  unfold lookupLast at h
  cases hf : m.reverse.find? (fun kv => kv.1 == c) with
  | none => simp [hf] at h
  | some kv =>
    simp only [hf, Option.map_some, Option.some.injEq] at h
    have := List.mem_of_find?_eq_some hf
    rw [List.mem_reverse] at this
    exact h ▸ List.mem_map_of_mem (f := (·.2)) this

theorem cols_subset_colNames (p : Ops) : ∀ c ∈ p.cols, c ∈ p.colNames := by
  induction p with
  | table name cs => intro c h; exact h
  | extend src ops part od rv w ih =>
    intro c h
    simp only [Ops.colNames, List.mem_append]
    rcases mem_appendNew h with h | h
    · exact Or.inl (Or.inl (Or.inl (Or.inl (ih c h))))
    · refine Or.inl (Or.inl (Or.inl (Or.inr ?_)))
      obtain ⟨kv, hkv, rfl⟩ := List.mem_map.mp h
      exact List.mem_flatMap.mpr ⟨kv, hkv, List.mem_cons_self ..⟩
  | project src ops g ih =>
    intro c h
    simp only [Ops.colNames, List.mem_append]
    rcases mem_appendNew h with h | h
    · exact Or.inr h
    · refine Or.inl (Or.inr ?_)
      obtain ⟨kv, hkv, rfl⟩ := List.mem_map.mp h
      exact List.mem_flatMap.mpr ⟨kv, hkv, List.mem_cons_self ..⟩
  | selectRows src e ih => intro c h; exact List.mem_append_left _ (ih c h)
  | selectCols src cs ih => intro c h; exact List.mem_append_right _ h
  | dropCols src ds ih =>
    intro c h
    exact List.mem_append_left _ (ih c (List.mem_filter.mp h).1)
  | order src cs rv lim ih =>
    intro c h
    simp only [Ops.colNames, List.mem_append]
    exact Or.inl (Or.inl (ih c h))
  | rename src m ih =>
    intro c h
    simp only [Ops.cols, List.mem_map] at h
    obtain ⟨c0, hc0, rfl⟩ := h
    simp only [Ops.colNames, List.mem_append]
    cases hl : lookupLast (m.map (fun kv => (kv.2, kv.1))) c0 with
    | none => exact Or.inl (Or.inl (ih c0 hc0))
    | some v =>
      have := lookupLast_mem hl
      simp only [List.map_map, Function.comp_def] at this
      exact Or.inl (Or.inr this)
  | mapCols src m ds ih =>
    intro c h
    simp only [Ops.cols, List.mem_map] at h
    obtain ⟨c0, hc0, rfl⟩ := h
    simp only [Ops.colNames, List.mem_append]
    cases hl : lookupLast m c0 with
    | none => exact Or.inl (Or.inl (Or.inl (ih c0 (List.mem_filter.mp hc0).1)))
    | some v => exact Or.inl (Or.inr (lookupLast_mem hl))
  | join a b oa ob jt iha ihb =>
    intro c h
    simp only [Ops.colNames, List.mem_append]
    have key : c ∈ a.cols ∨ c ∈ b.cols := by
      simp only [Ops.cols] at h
      split at h
      · exact Or.inl h
      · split at h
        · exact Or.inr h
        · exact mem_appendNew h
    rcases key with h | h
    · exact Or.inl (Or.inl (Or.inl (iha c h)))
    · exact Or.inl (Or.inl (Or.inr (ihb c h)))
  | concat a b idc an bn iha ihb =>
    intro c h
    simp only [Ops.colNames, List.mem_append]
    cases idc with
    | none => exact Or.inl (Or.inl (iha c h))
    | some c' =>
      simp only [Ops.cols, List.mem_append, List.mem_singleton] at h
      rcases h with h | rfl
      · exact Or.inl (Or.inl (iha c h))
      · exact Or.inr (by simp)
  | convert src rm ih =>
    intro c h
    exact List.mem_append_right _ h

theorem injOn_mono {ρ : String → String} {L L' : List String} (h : InjOn ρ L) (hs : ∀ a ∈ L', a ∈ L) : InjOn ρ L' :=
  fun a ha b hb e => h a (hs a ha) b (hs b hb) e

/-! ### equivariance for renamings that are injective on the names involved -/

/-- a well-formed table with known columns is renamed the same way by two renamings that agree on its columns -/
theorem Table.rename_congr_wf {ρ ρ' : ColRen} (t : Table) (hw : t.WF) (e : ∀ c ∈ t.cols, ρ c = ρ' c) :
    t.rename ρ = t.rename ρ' := by
  apply Table.rename_congr
  intro c hc
  rcases List.mem_append.mp hc with hc | hc
  · exact e c hc
  · obtain ⟨r, hr, hcr⟩ := List.mem_flatMap.mp hc
    rw [hw r hr] at hcr
    exact e c hcr

/-- general form: the result is renamed by *some* injective renaming that agrees with `ρc` on all names involved -/
theorem sem_ren_on_ext (Θ : Interp) (hΘ : ConvertEquivariant Θ) (cfg : SemCfg) {ρc : ColRen} {ρt : TabRen}
    (env : Env) (p : Ops) (hc : InjOn ρc (names p env)) (ht : InjOn ρt (tabNames p env)) :
    ∃ ρc' : ColRen, Injective ρc' ∧ (∀ c ∈ names p env, ρc' c = ρc c) ∧
      sem Θ cfg (Env.rename ρc ρt env) (p.ren ρc ρt) = (sem Θ cfg env p).map (Table.rename ρc') := by
  obtain ⟨ρc', hc', ec⟩ := exists_injective_ext hc
  obtain ⟨ρt', ht', et⟩ := exists_injective_ext ht
  refine ⟨ρc', hc', ec, ?_⟩
  have h1 : p.ren ρc ρt = p.ren ρc' ρt' :=
    Ops.ren_congr p (fun c h => (ec c (List.mem_append_left _ h)).symm)
      (fun n h => (et n (List.mem_append_left _ h)).symm)
  have h2 : Env.rename ρc ρt env = Env.rename ρc' ρt' env :=
    Env.rename_congr env (fun c h => (ec c (List.mem_append_right _ h)).symm)
      (fun n h => (et n (List.mem_append_right _ h)).symm)
  rw [h1, h2]
  exact sem_ren Θ hΘ cfg hc' ht' env p

/-- with record transforms that return what they declare: the result is renamed by `ρc` itself -/
theorem sem_ren_on (Θ : Interp) (hΘ : ConvertEquivariant Θ) (hOK : ConvertOK Θ) (cfg : SemCfg) {ρc : ColRen}
    {ρt : TabRen} (env : Env) (p : Ops) (hc : InjOn ρc (names p env)) (ht : InjOn ρt (tabNames p env)) :
    sem Θ cfg (Env.rename ρc ρt env) (p.ren ρc ρt) = (sem Θ cfg env p).map (Table.rename ρc) := by
  obtain ⟨ρc', _, ec, h⟩ := sem_ren_on_ext Θ hΘ cfg env p hc ht
  rw [h]
  cases hs : sem Θ cfg env p with
  | error e => rfl
  | ok t =>
    obtain ⟨hcols, hwf⟩ := sem_cols_wf Θ hOK cfg env p t hs
    simp only [Except.map]
    rw [Table.rename_congr_wf t hwf (fun c hcm => ec c
      (List.mem_append_left _ (cols_subset_colNames p c (hcols ▸ hcm))))]

end Ren
end DAVerif
