import DAVerif.Spec.SqlSem
import DAVerif.Proofs.Perm
/-!
C01/C02, stage B for ordered windows whose functions are all order free: whatever comparison sorts the window
(pandas' or the engine's NULL placement, ties or not), the windowed extend returns the same rows up to row order
(`semExtendWindow_equiv_free`).  Generalises the order-free branch of `semExtendWindow_rows_eq` / `winRow_perm`
(`Proofs/Perm.lean`) from `rowLe` to an arbitrary comparison.
-/
namespace DAVerif
namespace Sql

/-- index-free form of one output row of a windowed extend whose window is sorted with the comparison `le` -/
def winRowG (le : RowCmp) (Θ : Interp) (ops : Assign) (partition order reverse outCols : List String)
    (rows : List Row) (r : Row) : Row :=
  let srows := (partRows partition rows r).mergeSort (fun a b => le order reverse a b)
  (r.setAll (ops.map (fun kv =>
    (kv.1, Θ.win (opName kv.2) (constArgs kv.2) (argValues kv.2 srows) (srows.idxOf r))))).select outCols

theorem semExtendWindowG_rows_eq_free (le : RowCmp) (Θ : Interp) (ops : Assign) (p o rv : List String) (t : Table)
    (oc : List String) (hfree : ∀ kv ∈ ops, WinOrderFree Θ (opName kv.2)) :
    (semExtendWindowG le Θ ops p o rv t oc).rows = t.rows.map (winRowG le Θ ops p o rv oc t.rows) := by
  have key : ∀ ri ∈ t.rows.zipIdx,
      (fun (ri : Row × Nat) =>
        (ri.1.setAll (ops.map (fun kv => (kv.1, winCell le Θ p o rv t.rows.zipIdx ri kv.2)))).select oc) ri
      = winRowG le Θ ops p o rv oc t.rows ri.1 := by
    rintro ⟨r, i⟩ hri
    simp only [winRowG, winCell]
    have hmap : ((t.rows.zipIdx.filter (fun rj => keyOf rj.1 p == keyOf r p)).mergeSort
          (fun a b => le o rv a.1 b.1)).map (·.1)
        = (partRows p t.rows r).mergeSort (fun a b => le o rv a b) := by
      rw [List.map_mergeSort (s := fun a b => le o rv a b) (fun _ _ _ _ => rfl)]
      congr 1
      have := List.filter_map (f := (Prod.fst : Row × Nat → Row))
        (p := fun r' => keyOf r' p == keyOf r p) (l := t.rows.zipIdx)
      rw [List.zipIdx_map_fst] at this
      exact this.symm
    have hsub : ∀ x ∈ (t.rows.zipIdx.filter (fun rj => keyOf rj.1 p == keyOf r p)).mergeSort
        (fun a b => le o rv a.1 b.1), x ∈ t.rows.zipIdx := fun x hx =>
      (List.mem_filter.mp ((List.mergeSort_perm _ _).mem_iff.mp hx)).1
    generalize hs : (t.rows.zipIdx.filter (fun rj => keyOf rj.1 p == keyOf r p)).mergeSort
      (fun a b => le o rv a.1 b.1) = sorted at hmap hsub
    generalize hsr : (partRows p t.rows r).mergeSort (fun a b => le o rv a b) = srows at hmap
    have hmem : (r, i) ∈ sorted := by
      rw [← hs]
      apply (List.mergeSort_perm _ _).mem_iff.mpr
      simp [List.mem_filter, hri]
    have hlt : sorted.findIdx (fun rj => rj.2 == i) < sorted.length :=
      List.findIdx_lt_length_of_exists ⟨(r, i), hmem, by simp⟩
    have hat : (sorted[sorted.findIdx (fun rj => rj.2 == i)]'hlt).1 = r := by
      have h2 : (sorted[sorted.findIdx (fun rj => rj.2 == i)]'hlt).2 = i := by
        have := List.findIdx_getElem (p := fun (rj : Row × Nat) => rj.2 == i) (w := hlt)
        simpa using this
      have hin : sorted[sorted.findIdx (fun rj => rj.2 == i)]'hlt ∈ t.rows.zipIdx :=
        hsub _ (List.getElem_mem _)
      have e1 := List.mem_zipIdx_iff_getElem?.mp hin
      have e2 := List.mem_zipIdx_iff_getElem?.mp hri
      rw [h2] at e1
      simp only at e2
      rw [e2] at e1
      exact (Option.some.inj e1).symm
    have hlt' : sorted.findIdx (fun rj => rj.2 == i) < srows.length := by
      rw [← hmap, List.length_map]; exact hlt
    have hat' : srows[sorted.findIdx (fun rj => rj.2 == i)]? = some r := by
      rw [List.getElem?_eq_getElem hlt']
      simp only [← hmap, List.getElem_map, hat]
    have hrmem : r ∈ srows := List.mem_of_getElem? hat'
    rw [hmap]
    congr 2
    apply List.map_congr_left
    intro kv hkv
    congr 1
    apply hfree kv hkv _ _ _ _ _ (List.Perm.refl _)
    · rw [argValues_eq_map, List.length_map]; exact hlt'
    · have hidx : srows.idxOf r < srows.length := List.idxOf_lt_length_of_mem hrmem
      rw [argValues_eq_map, List.getElem?_map, List.getElem?_map, hat',
        List.getElem?_eq_getElem hidx, List.getElem_idxOf hidx]
  simp only [semExtendWindowG]
  rw [List.map_congr_left key]
  generalize winRowG le Θ ops p o rv oc t.rows = W
  have : t.rows.map W = (t.rows.zipIdx.map Prod.fst).map W := by rw [List.zipIdx_map_fst]
  rw [this, List.map_map]
  rfl

/-- with order-free window functions the index-free row depends neither on the order of the table's rows nor on
the comparison that sorts the window -/
theorem winRowG_perm_free (le le' : RowCmp) (Θ : Interp) (ops : Assign) (p o rv oc : List String)
    {rows rows' : List Row} (hp : rows.Perm rows') (hfree : ∀ kv ∈ ops, WinOrderFree Θ (opName kv.2))
    (r : Row) (hr : r ∈ rows) :
    winRowG le Θ ops p o rv oc rows r = winRowG le' Θ ops p o rv oc rows' r := by
  have hpp : (partRows p rows r).Perm (partRows p rows' r) := hp.filter _
  simp only [winRowG]
  congr 2
  apply List.map_congr_left
  intro kv hkv
  congr 1
  have hsp : ((partRows p rows r).mergeSort (fun a b => le o rv a b)).Perm
      ((partRows p rows' r).mergeSort (fun a b => le' o rv a b)) :=
    (List.mergeSort_perm _ _).trans (hpp.trans (List.mergeSort_perm _ _).symm)
  have hm : r ∈ (partRows p rows r).mergeSort (fun a b => le o rv a b) :=
    List.mem_mergeSort.mpr (mem_partRows_self hr)
  have hm' : r ∈ (partRows p rows' r).mergeSort (fun a b => le' o rv a b) := hsp.mem_iff.mp hm
  have hi := List.idxOf_lt_length_of_mem hm
  have hi' := List.idxOf_lt_length_of_mem hm'
  apply hfree kv hkv _ _ _ _ _ (argValues_perm _ hsp)
  · rw [argValues_eq_map, List.length_map]; exact hi
  · rw [argValues_eq_map, argValues_eq_map, List.getElem?_map, List.getElem?_map,
      List.getElem?_eq_getElem hi, List.getElem?_eq_getElem hi', List.getElem_idxOf hi,
      List.getElem_idxOf hi']

/-- a windowed extend whose functions are all order free: equivalent inputs give equivalent outputs, whichever
comparisons sort the windows on the two sides -/
theorem semExtendWindowG_equiv_free (le le' : RowCmp) (Θ : Interp) (ops : Assign) (p o rv : List String)
    {t t' : Table} (h : t ≈ t') (oc : List String) (hfree : ∀ kv ∈ ops, WinOrderFree Θ (opName kv.2)) :
    semExtendWindowG le Θ ops p o rv t oc ≈ semExtendWindowG le' Θ ops p o rv t' oc := by
  refine ⟨rfl, ?_⟩
  rw [semExtendWindowG_rows_eq_free le Θ ops p o rv t oc hfree,
    semExtendWindowG_rows_eq_free le' Θ ops p o rv t' oc hfree]
  rw [List.map_congr_left (fun r hr => winRowG_perm_free le le' Θ ops p o rv oc h.2 hfree r hr)]
  exact h.2.map _

end Sql
end DAVerif
