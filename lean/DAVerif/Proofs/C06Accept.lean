import DAVerif.Proofs.C06Sem
/-!
Acceptance (C06): a builder call on a pipeline and the raw (unsimplified) call on a table description with the
same column names succeed or fail alike, with the same error class.  `errOf` is the error class of an outcome.
-/
namespace DAVerif

/-- the error class of an outcome (`none` = accepted) -/
def errOf {α : Type} : Except Err α → Option Err
  | .ok _ => none
  | .error e => some e

theorem errOf_eq_none {α : Type} {x : Except Err α} : errOf x = none ↔ ∃ a, x = .ok a := by
  cases x <;> simp [errOf]

theorem errOf_bind_ok {α β : Type} (x : Except Err α) (f : α → β) :
    errOf (x >>= fun a => .ok (f a)) = errOf x := by
  cases x <;> rfl

theorem errOf_bind_congr {α β γ : Type} {x : Except Err α} {f : α → Except Err β} {g : α → Except Err γ}
    (h : ∀ a, x = .ok a → errOf (f a) = errOf (g a)) : errOf (x >>= f) = errOf (x >>= g) := by
  cases x with
  | error e => rfl
  | ok a => exact h a rfl

theorem errOf_bind_unit {β γ : Type} {x y : Except Err Unit} {f : Unit → Except Err β} {g : Unit → Except Err γ}
    (hxy : x = y) (h : x = .ok () → errOf (f ()) = errOf (g ())) : errOf (x >>= f) = errOf (y >>= g) := by
  subst hxy
  exact errOf_bind_congr (fun _ ha => h ha)

/-! ### merged `extend`: the checks on the merged assignments over the source are the checks of the second
`extend` over the first -/

theorem windowOpOk_congr {sc sc' : List String} {ordered : Bool} {t : Term}
    (h : ∀ c ∈ Term.colsRaw t, (c ∈ sc ↔ c ∈ sc')) : windowOpOk sc ordered t = windowOpOk sc' ordered t := by
  cases t with
  | app op args i m =>
    cases args with
    | nil => rfl
    | cons a as =>
      cases a with
      | col c =>
        have hc : sc.contains c = sc'.contains c := by
          rw [Bool.eq_iff_iff]
          simpa using h c (by simp [Term.colsRaw, Term.colsRawList])
        simp only [windowOpOk, List.head?_cons, hc]
      | _ => rfl
  | _ => rfl

theorem extend_nodeOk_win {src : Ops} {ops : Assign} {part od rv : List String} {w : Bool}
    (h : (Ops.extend src ops part od rv w).valid = true) :
    subset (Term.colsUsedOps ops) src.cols = true ∧
    (w = true → ops.all (fun kv => windowOpOk src.cols (!od.isEmpty) kv.2) = true) := by
  have hn := Ops.valid_nodeOk h
  simp only [Ops.nodeOk, Bool.and_eq_true] at hn
  obtain ⟨⟨⟨⟨⟨⟨⟨⟨⟨⟨⟨_, h2⟩, _⟩, _⟩, _⟩, _⟩, _⟩, _⟩, _⟩, _⟩, h10⟩, _⟩ := hn
  refine ⟨h2, ?_⟩
  intro hw
  rw [hw] at h10
  simpa using h10

theorem stepWindowed_merge {o1 ops o : Assign} {pa : PartArg} {od : List String} {w1 : Bool}
    (hunion : ∀ kv ∈ o, kv ∈ o1 ∨ kv ∈ ops) (ho2 : ∀ kv ∈ ops, kv ∈ o)
    (hflag : impliesWindowed o1 = true → w1 = true) (hw : stepWindowed ops pa od = w1) :
    stepWindowed o pa od = w1 := by
  rw [stepWindowed_eq] at hw ⊢
  cases hw1 : w1 with
  | true =>
    rw [hw1] at hw
    cases hi : impliesWindowed ops with
    | true => rw [impliesWindowed_of_subset ho2 hi]; rfl
    | false => rw [hi] at hw; simp only [Bool.false_or] at hw; rw [hw]; simp
  | false =>
    rw [hw1] at hw
    simp only [Bool.or_eq_false_iff] at hw
    rw [hw.2, Bool.or_false]
    cases hi : impliesWindowed o with
    | false => rfl
    | true =>
      rcases impliesWindowed_of_union hunion hi with h1 | h2
      · have := hflag h1
        rw [hw1] at this; cases this
      · rw [hw.1] at h2; cases h2

/-- **Acceptance of a merged `extend`.**  For a valid `extend` node `q` over `src` whose assignments merge with
`ops`: the constructor checks of the merged node (over `src`) and of the second node (over `q`) are the same
check, with the same error class at the first failure. -/
theorem extendChk_merge {src : Ops} {o1 : Assign} {od rv : List String} {w1 : Bool} {ops o : Assign}
    {pa : PartArg} (hq : (Ops.extend src o1 pa.cols' od rv w1).valid = true)
    (hm : tryMergeOps o1 ops = some o) (hw : stepWindowed ops pa od = w1) :
    extendChk src.cols o pa od rv = extendChk (appendNew src.cols (o1.map (·.1))) ops pa od rv := by
  obtain ⟨hd, hdis, hunion, ho2, hkeys⟩ := tryMergeOps_spec hm
  obtain ⟨hq5, hq6, hq8, hqflag⟩ := extend_nodeOk hq
  obtain ⟨hq2, hqwin⟩ := extend_nodeOk_win hq
  have hqc : ∀ c, c ∈ (appendNew src.cols (o1.map (·.1))) ↔ c ∈ src.cols ∨ c ∈ o1.map (·.1) :=
    fun c => mem_appendNewC
  have hww : stepWindowed o pa od = w1 :=
    stepWindowed_merge hunion ho2 (fun h1 => hqflag (by rw [h1]; rfl)) hw
  -- columns read by the second step are not produced by the first
  have hnotk : ∀ c ∈ Term.colsUsedOps ops, c ∉ o1.map (·.1) := disjoint_iffC.mp hdis
  have e1 : subset (Term.colsUsedOps o) src.cols
      = subset (Term.colsUsedOps ops) (appendNew src.cols (o1.map (·.1))) := by
    rw [Bool.eq_iff_iff, subset_iffC, subset_iffC]
    constructor
    · intro h c hc
      obtain ⟨kv, hkv, hcr⟩ := mem_colsUsedOpsC.mp hc
      exact (hqc c).mpr (Or.inl (h c (mem_colsUsedOpsC.mpr ⟨kv, ho2 kv hkv, hcr⟩)))
    · intro h c hc
      obtain ⟨kv, hkv, hcr⟩ := mem_colsUsedOpsC.mp hc
      rcases hunion kv hkv with h1 | h2
      · exact subset_iffC.mp hq2 c (mem_colsUsedOpsC.mpr ⟨kv, h1, hcr⟩)
      · have hcu := mem_colsUsedOpsC.mpr ⟨kv, h2, hcr⟩
        exact ((hqc c).mp (h c hcu)).elim id (fun hk => absurd hk (hnotk c hcu))
  have e5 : subset pa.cols' src.cols = subset pa.cols' (appendNew src.cols (o1.map (·.1))) := by
    rw [hq5]; symm
    exact subset_iffC.mpr (fun c hc => (hqc c).mpr (Or.inl (subset_iffC.mp hq5 c hc)))
  have e6 : subset od src.cols = subset od (appendNew src.cols (o1.map (·.1))) := by
    rw [hq6]; symm
    exact subset_iffC.mpr (fun c hc => (hqc c).mpr (Or.inl (subset_iffC.mp hq6 c hc)))
  have e8 : disjoint (o.map (·.1)) (pa.cols' ++ od ++ rv) = disjoint (ops.map (·.1)) (pa.cols' ++ od ++ rv) := by
    rw [Bool.eq_iff_iff, disjoint_iffC, disjoint_iffC]
    constructor
    · intro h c hc; exact h c ((hkeys c).mpr (Or.inr hc))
    · intro h c hc
      rcases (hkeys c).mp hc with h1 | h2
      · exact disjoint_iffC.mp hq8 c h1
      · exact h c h2
  have e9 : (!stepWindowed o pa od || o.all (fun kv => windowOpOk src.cols (!od.isEmpty) kv.2))
      = (!stepWindowed ops pa od || ops.all (fun kv =>
          windowOpOk (appendNew src.cols (o1.map (·.1))) (!od.isEmpty) kv.2)) := by
    rw [hww, hw]
    cases hw1 : w1 with
    | false => rfl
    | true =>
      simp only [Bool.not_true, Bool.false_or]
      have hall1 := hqwin hw1
      have hcongr : ∀ kv ∈ ops, windowOpOk src.cols (!od.isEmpty) kv.2
          = windowOpOk (appendNew src.cols (o1.map (·.1))) (!od.isEmpty) kv.2 := by
        intro kv hkv
        apply windowOpOk_congr
        intro c hc
        have hcu := mem_colsUsedOpsC.mpr ⟨kv, hkv, hc⟩
        constructor
        · intro h; exact (hqc c).mpr (Or.inl h)
        · intro h
          exact ((hqc c).mp h).elim id (fun hk => absurd hk (hnotk c hcu))
      rw [Bool.eq_iff_iff, List.all_eq_true, List.all_eq_true]
      constructor
      · intro h kv hkv
        rw [← hcongr kv hkv]
        exact h kv (ho2 kv hkv)
      · intro h kv hkv
        rcases hunion kv hkv with h1 | h2
        · exact List.all_eq_true.mp hall1 kv h1
        · rw [hcongr kv h2]
          exact h kv h2
  simp only [extendChk, e1, e5, e6, e8, e9]

theorem extendTop_errOf {q : Ops} {ops : Assign} {pa : PartArg} {od rv : List String} (hq : q.valid = true)
    (hnt : q.isTrivialWhenIntermediate = false) :
    errOf (extendTopC q ops pa od rv) = errOf (extendChk q.cols ops pa od rv) := by
  have plain : errOf (mkExtend q ops pa od rv) = errOf (extendChk q.cols ops pa od rv) := by
    rw [mkExtend_eqC]; exact errOf_bind_ok _ _
  cases q with
  | order s cs rv' lim =>
    cases lim with
    | none => cases hnt
    | some n => exact plain
  | extend src o1 part1 od1 rv1 w1 =>
    simp only [extendTopC]
    rcases extendMerge_cases src o1 part1 od1 rv1 w1 ops pa od rv with
      ⟨o, hm, hpart, hw, hod, hrv, he⟩ | he
    · rw [he, mkExtend_eqC, errOf_bind_ok]
      subst hpart hod hrv
      rw [extendChk_merge hq hm hw]
      rfl
    · rw [he]; exact plain
  | table _ _ => exact plain
  | project _ _ _ => exact plain
  | selectRows _ _ => exact plain
  | selectCols _ _ => exact plain
  | dropCols _ _ => exact plain
  | rename _ _ => exact plain
  | mapCols _ _ _ => exact plain
  | join _ _ _ _ _ => exact plain
  | concat _ _ _ _ _ => exact plain
  | convert _ _ => exact plain

/-- a column list is among the receiver's columns iff it passes all the checks `select_columns` makes on its way
down to the node it finally selects from -/
theorem select_guard_iff {p : Ops} (hv : p.valid = true) (cs : List String) :
    subset cs p.cols = (p.selectGuards.all (fun g => subset cs g) && subset cs p.selectBase.cols) := by
  induction p with
  | order s cs' rv lim ih =>
    cases lim with
    | some n => simp [Ops.selectGuards, Ops.selectBase]
    | none => exact ih (Ops.valid_srcA (p := .order s cs' rv none) hv)
  | selectCols s cs0 ih =>
    have hn := Ops.valid_nodeOk hv
    simp only [Ops.nodeOk, isOk_unit, selectChk, ok?_bind_eq_ok, ok?_eq_ok] at hn
    simp only [Ops.selectGuards, Ops.selectBase, List.all_cons, Bool.and_assoc, Ops.cols]
    rw [← ih (Ops.valid_srcA (p := .selectCols s cs0) hv)]
    cases h : subset cs cs0 with
    | false => rfl
    | true => rw [subset_trans h hn.2.1]; rfl
  | dropCols s ds ih =>
    simp only [Ops.selectGuards, Ops.selectBase, List.all_cons, Bool.and_assoc]
    rw [← ih (Ops.valid_srcA (p := .dropCols s ds) hv)]
    cases h : subset cs (Ops.dropCols s ds).cols with
    | false => rfl
    | true =>
      have : subset cs s.cols = true :=
        subset_iffC.mpr (fun c hc => (List.mem_filter.mp (subset_iffC.mp h c hc)).1)
      rw [this]; rfl
  | _ => simp [Ops.selectGuards, Ops.selectBase]

theorem selectColsB_errOf {p : Ops} (hv : p.valid = true) (cs : List String) (hE : cs.isEmpty = false) :
    errOf (selectColsB p cs) = errOf (selectChk p.cols cs) := by
  rw [selectColsB_eq, mkSelectCols_eq]
  simp only [selectChk, bind_assoc, hE]
  rw [select_guard_iff hv cs]
  cases hA : p.selectGuards.all (fun g => subset cs g) <;> cases hB : subset cs p.selectBase.cols <;>
    cases hN : nodupB cs <;> rfl

/-- **Acceptance only depends on the declared columns** (and, for join / concat, on the consistency of the table
descriptions): a builder call on a valid pipeline `p` and the raw call on a table description with `p`'s columns
have the same error class. -/
theorem build_errOf {p : Ops} (hv : p.valid = true) (n : String) (s : Step)
    (ht : ∀ b ∈ Step.argOps s, tablesConsistent p.tables b.tables = true ∧
      tablesConsistent [(n, p.cols)] b.tables = true) :
    errOf (build p s) = errOf (buildRaw (.table n p.cols) s) := by
  have hq := Ops.valid_strip hv
  have hqc := Ops.strip_cols p
  cases s with
  | extend ops pa od rv =>
    simp only [build, buildRaw, Ops.cols]
    apply errOf_bind_congr
    intro parsed _
    cases hne : parsed.isEmpty with
    | true =>
      rw [extendParsed_eq]
      simp only [hne, if_true]
      rfl
    | false =>
      rw [extendParsed_stripC _ _ _ _ _ hne]
      simp only [Bool.false_eq_true, if_false]
      apply errOf_bind_congr
      intro _ _
      rw [extendTop_errOf hq (Ops.strip_not_trivial p), mkExtend_eqC, errOf_bind_ok, hqc]
      rfl
  | project ops g =>
    simp only [build, buildRaw, Ops.cols]
    apply errOf_bind_congr
    intro parsed _
    rw [projectParsed_stripC]
    apply errOf_bind_congr
    intro _ _
    rw [mkProject_eq, mkProject_eq, errOf_bind_ok, errOf_bind_ok, hqc]
    rfl
  | selectRows e =>
    cases e with
    | none => rfl
    | some e =>
      simp only [build, buildRaw, Ops.cols]
      apply errOf_bind_congr
      intro _ _
      rw [selectRowsB_strip]
      rfl
  | selectCols cs =>
    simp only [build, buildRaw]
    apply errOf_bind_congr
    intro _ hne
    rw [ok?_eq_ok] at hne
    rw [selectColsB_errOf hv cs (by simpa using hne), mkSelectCols_eq, errOf_bind_ok]
    rfl
  | dropCols cs =>
    simp only [build, buildRaw]
    split
    · rfl
    · rw [dropColsB_strip, mkDropCols_eq, mkDropCols_eq, errOf_bind_ok, errOf_bind_ok, hqc]; rfl
  | order cs rv lim =>
    simp only [build, buildRaw]
    split
    · rfl
    · rw [orderB_strip, mkOrder_eq, mkOrder_eq, errOf_bind_ok, errOf_bind_ok, hqc]; rfl
  | rename m =>
    simp only [build, buildRaw]
    split
    · rfl
    · rw [renameB_strip, mkRename_eq, mkRename_eq, errOf_bind_ok, errOf_bind_ok, hqc]; rfl
  | mapCols m =>
    simp only [build, buildRaw]
    split
    · rfl
    · rw [mapColsB_strip, mkMapCols_eq, mkMapCols_eq, errOf_bind_ok, errOf_bind_ok, hqc]; rfl
  | join b oa ob jt chk =>
    obtain ⟨h1, h2⟩ := ht b (by simp [Step.argOps])
    simp only [build, buildRaw]
    rw [joinB_strip, mkJoin_eq, mkJoin_eq, errOf_bind_ok, errOf_bind_ok, hqc, Ops.strip_tables]
    simp only [joinChk, Ops.cols, Ops.tables, h1, h2]
  | concat b idc an bn =>
    cases b with
    | none => rfl
    | some b =>
      obtain ⟨h1, h2⟩ := ht b (by simp [Step.argOps])
      simp only [build, buildRaw]
      rw [concatB_strip, mkConcat_eq, mkConcat_eq, errOf_bind_ok, errOf_bind_ok, hqc, Ops.strip_tables]
      simp only [concatChk, Ops.cols, Ops.tables, h1, h2]
  | convert rm =>
    cases rm with
    | none => rfl
    | some rm =>
      simp only [build, buildRaw]
      rw [convertB_strip, mkConvert_eq, mkConvert_eq, errOf_bind_ok, errOf_bind_ok, hqc]; rfl

end DAVerif
