import DAVerif.Proofs.SqlReach
import DAVerif.Proofs.BuilderReach
import DAVerif.Proofs.EqSqlNear
import DAVerif.Proofs.RenameSqlSem
import DAVerif.Proofs.RenameWith
/-!
C11, SQL half, semantics and WITH form: the SQL semantics of a NearSQL tree (`semNear`, `semSql`, `semWith`) does not
look at the `method` flag of the expressions the tree carries, nor at `ops_key`; the WITH form without CTE elimination
(`toWithForm none`) commutes with forgetting the flags.

Main statements: `semNear_eraseM`, `semSql_sqlShape`, `semSql_congr_shape`, `toWithForm_eraseM`, `withFormOf_erase`,
`semWith_eraseM`.
-/
namespace DAVerif
namespace C11Sql

open DAVerif.Sql

/-! ### `semNear` -/
theorem termVal_eraseM (Θ : Interp) (ec : EngineCfg) (idx : List (Row × Nat)) (ri : Row × Nat) (k : String)
    (t : Option STerm) : termVal Θ ec idx ri k (t.map STerm.eraseM) = termVal Θ ec idx ri k t := by
  cases t with
  | none => rfl
  | some t =>
    cases t with
    | expr t w =>
      cases w <;>
        simp only [Option.map_some, STerm.eraseM, termVal, evalCell_erase, opName_erase, constArgs_erase, argValues_erase]
    | _ => rfl

theorem aggVal_eraseM (Θ : Interp) (g : List Row) (k : String) (t : Option STerm) :
    aggVal Θ g k (t.map STerm.eraseM) = aggVal Θ g k t := by
  cases t with
  | none => rfl
  | some t =>
    cases t with
    | expr t w => simp only [Option.map_some, STerm.eraseM, aggVal, opName_erase, argValues_erase]
    | _ => rfl

theorem outCols_eraseM (terms : Option Terms) (cols? : Option (List String)) (fromCols : List String) :
    outCols (terms.map Terms.eraseM) cols? fromCols = outCols terms cols? fromCols := by
  cases terms with
  | none => rfl
  | some ts => simp only [Option.map_some, outCols, terms_keys]

theorem look_eraseM (terms : Option Terms) (k : String) :
    (match terms.map Terms.eraseM with | none => none | some ts => lookupLast ts k)
      = (match terms with | none => none | some ts => lookupLast ts k).map STerm.eraseM := by
  cases terms with
  | none => rfl
  | some ts => exact lookupLast_eraseM ts k

theorem sqlJoinRow_eraseM (lCols rCols : List String) (terms : Terms) (out : List String) (ra rb : Option Row) :
    sqlJoinRow lCols rCols (Terms.eraseM terms) out ra rb = sqlJoinRow lCols rCols terms out ra rb := by
  unfold sqlJoinRow
  apply List.map_congr_left
  intro c _
  rw [lookupLast_eraseM]
  cases lookupLast terms c with
  | none => rfl
  | some t => cases t <;> rfl

/-- `semNear` never looks at the `method` flags -/
theorem semNear_eraseM (Θ : Interp) (ec : EngineCfg) (env : Env) (ctes : List (String × Table)) (n : Near) :
    ∀ (cols? : Option (List String)) (force : Bool),
    semNear Θ ec env ctes n.eraseM cols? force = semNear Θ ec env ctes n cols? force := by
  induction n with
  | table name terms => intro _ _; rfl
  | cte name => intro _ _; rfl
  | unary name terms agg sub subCols suffix mg deps key ih =>
    intro cols? force
    simp only [Near.eraseM, semNear, ih]
    cases semNear Θ ec env ctes sub subCols false with
    | error e => rfl
    | ok t =>
      cases terms with
      | none => cases suffix <;> simp only [bind, Except.bind, Option.map_none, Suffix.eraseM, evalCell_erase]
      | some ts =>
        have ho := outCols_eraseM (some ts) cols? t.cols
        simp only [Option.map_some] at ho
        cases suffix <;>
          simp only [bind, Except.bind, Option.map_some, ho, lookupLast_eraseM, termVal_eraseM, aggVal_eraseM,
            Suffix.eraseM, evalCell_erase]
  | join name terms l lc ln r rc rn jt oa ob key ihl ihr =>
    intro cols? force
    simp only [Near.eraseM, semNear, ihl, ihr, terms_keys, sqlJoinRow_eraseM]
  | union name terms l r cols key ihl ihr =>
    intro cols? force
    simp only [Near.eraseM, semNear, ihl, ihr]

/-- the nested-form SQL semantics factors through the shape (no flags, no keys) -/
theorem semSql_sqlShape (Θ : Interp) (ec : EngineCfg) (env : Env) (q : Near) :
    semSql Θ ec env q.sqlShape = semSql Θ ec env q := by
  unfold Near.sqlShape
  rw [Ren.semSql_eraseKeys]
  exact semNear_eraseM Θ ec env [] q none true

theorem semSql_congr_shape (Θ : Interp) (ec : EngineCfg) (env : Env) {q q' : Near} (h : q.sqlShape = q'.sqlShape) :
    semSql Θ ec env q = semSql Θ ec env q' := by
  rw [← semSql_sqlShape Θ ec env q, h, semSql_sqlShape]

/-! ### the shape -/
theorem eraseM_eraseKeys (n : Near) : n.eraseM.eraseKeys = n.eraseKeys.eraseM := by
  induction n with
  | table _ _ => rfl
  | cte _ => rfl
  | unary name terms agg sub subCols suffix mg deps key ih => simp only [Near.eraseM, Near.eraseKeys, ih]
  | join name terms l lc ln r rc rn jt oa ob key ihl ihr => simp only [Near.eraseM, Near.eraseKeys, ihl, ihr]
  | union name terms l r cols key ihl ihr => simp only [Near.eraseM, Near.eraseKeys, ihl, ihr]

theorem erase_erase_term : ∀ t : Term, t.erase.erase = t.erase
  | .value _ | .col _ | .list _ | .dict _ => rfl
  | .app op args i m => by
    simp only [Term.erase, eraseList_eq_map, List.map_map]
    congr 1
    apply List.map_congr_left
    intro a _
    exact erase_erase_term a

/-! ### the WITH form without CTE elimination -/
theorem name_eraseM (n : Near) : n.eraseM.name = n.name := by cases n <;> rfl
theorem isTable_eraseM (n : Near) : n.eraseM.isTable = n.isTable := by cases n <;> rfl

theorem appendUnseen_eraseM (s1 s2 : List WithStep) :
    appendUnseen (s1.map WithStep.eraseM) (s2.map WithStep.eraseM) = (appendUnseen s1 s2).map WithStep.eraseM := by
  unfold appendUnseen
  induction s2 generalizing s1 with
  | nil => rfl
  | cons st s2 ih =>
    simp only [List.map_cons, List.foldl_cons]
    have hany : (s1.map WithStep.eraseM).any (fun x => x.name == (WithStep.eraseM st).name)
        = s1.any (fun x => x.name == st.name) := by
      rw [List.any_map]
      rfl
    rw [hany]
    split
    · exact ih s1
    · have : s1.map WithStep.eraseM ++ [WithStep.eraseM st] = (s1 ++ [st]).map WithStep.eraseM := by simp
      rw [this]
      exact ih _

/-- the result triple of `toWithForm none` / `withStub none` with the flags forgotten -/
def eraseTriple (r : Near × List WithStep × Option Cache) : Near × List WithStep × Option Cache :=
  (r.1.eraseM, r.2.1.map WithStep.eraseM, r.2.2)

/-- the statement carried through the induction -/
def WFok (x' x : Near × List WithStep × Option Cache) : Prop := x' = eraseTriple x ∧ x.2.2 = none

theorem withStub_of_toWithForm (n : Near) (h : WFok (toWithForm none n.eraseM) (toWithForm none n))
    (cols : Option (List String)) (force : Bool) :
    WFok (withStub none n.eraseM cols force) (withStub none n cols force) := by
  rw [withStub.eq_1, withStub.eq_1, isTable_eraseM]
  cases ht : n.isTable with
  | true => simp only [if_true]; exact ⟨rfl, rfl⟩
  | false =>
    simp only [Bool.false_eq_true, if_false]
    obtain ⟨h1, h2⟩ := h
    rw [h1]
    rcases hw : toWithForm none n with ⟨stub, seq, cache1⟩
    rw [hw] at h2
    simp only at h2
    subst h2
    simp only [eraseTriple, Option.bind_none, Option.map_none, name_eraseM]
    have hany : (seq.map WithStep.eraseM).any (fun st => st.name == stub.name)
        = seq.any (fun st => st.name == stub.name) := by
      rw [List.any_map]
      rfl
    rw [hany]
    refine ⟨?_, ?_⟩
    · split
      · rfl
      · simp [WithStep.eraseM, eraseTriple, Near.eraseM]
    · split <;> rfl

theorem toWithForm_eraseM (n : Near) : WFok (toWithForm none n.eraseM) (toWithForm none n) := by
  induction n with
  | table name terms =>
    simp only [Near.eraseM, toWithForm.eq_1]
    exact ⟨rfl, rfl⟩
  | cte name =>
    simp only [Near.eraseM, toWithForm.eq_2]
    exact ⟨rfl, rfl⟩
  | unary name terms agg sub subCols suffix mg deps key ih =>
    simp only [Near.eraseM]
    rw [toWithForm.eq_3, toWithForm.eq_3, isTable_eraseM]
    split
    · exact ⟨rfl, rfl⟩
    · obtain ⟨h1, h2⟩ := withStub_of_toWithForm sub ih subCols false
      rw [h1]
      rcases hw : withStub none sub subCols false with ⟨stub, seq, cache'⟩
      rw [hw] at h2
      simp only at h2
      subst h2
      exact ⟨rfl, rfl⟩
  | join name terms l lc ln r rc rn jt oa ob key ihl ihr =>
    simp only [Near.eraseM]
    rw [toWithForm.eq_4, toWithForm.eq_4, isTable_eraseM, isTable_eraseM]
    split
    · exact ⟨rfl, rfl⟩
    · obtain ⟨h1, h2⟩ := withStub_of_toWithForm l ihl (some lc) false
      rw [h1]
      rcases hw : withStub none l (some lc) false with ⟨s1, q1, c1⟩
      rw [hw] at h2
      simp only at h2
      subst h2
      simp only [eraseTriple]
      obtain ⟨h3, h4⟩ := withStub_of_toWithForm r ihr (some rc) false
      rw [h3]
      rcases hw2 : withStub none r (some rc) false with ⟨s2, q2, c2⟩
      rw [hw2] at h4
      simp only at h4
      subst h4
      simp only [eraseTriple, appendUnseen_eraseM]
      exact ⟨rfl, rfl⟩
  | union name terms l r cols key ihl ihr =>
    simp only [Near.eraseM]
    rw [toWithForm.eq_5, toWithForm.eq_5, isTable_eraseM, isTable_eraseM]
    split
    · exact ⟨rfl, rfl⟩
    · obtain ⟨h1, h2⟩ := withStub_of_toWithForm l ihl (some cols) true
      rw [h1]
      rcases hw : withStub none l (some cols) true with ⟨s1, q1, c1⟩
      rw [hw] at h2
      simp only at h2
      subst h2
      simp only [eraseTriple]
      obtain ⟨h3, h4⟩ := withStub_of_toWithForm r ihr (some cols) true
      rw [h3]
      rcases hw2 : withStub none r (some cols) true with ⟨s2, q2, c2⟩
      rw [hw2] at h4
      simp only at h4
      subst h4
      simp only [eraseTriple, appendUnseen_eraseM]
      exact ⟨rfl, rfl⟩

/-- the WITH form (no CTE elimination) of the pipeline without flags is the WITH form of the pipeline, without flags -/
theorem withFormOf_erase (cfg : SqlCfg) (p : Ops) : withFormOf cfg p.erase = (withFormOf cfg p).map withShape := by
  have h := toNearSql_erase cfg p
  unfold withFormOf
  cases h' : toNearSql cfg p.erase with
  | error e' =>
    cases h0 : toNearSql cfg p with
    | error e => rw [h', h0] at h; cases h; rfl
    | ok n => rw [h', h0] at h; cases h
  | ok n' =>
    cases h0 : toNearSql cfg p with
    | error e => rw [h', h0] at h; cases h
    | ok n =>
      rw [h', h0] at h
      simp only [Except.map, Except.ok.injEq] at h ⊢
      rw [h, Near.sqlShape, eraseM_eraseKeys, (toWithForm_eraseM n.eraseKeys).1]
      rfl

/-! ### the model's meaning of a WITH sequence -/
theorem semWith_fold_eraseM (Θ : Interp) (ec : EngineCfg) (env : Env) (steps : List WithStep) :
    ∀ ctes : List (String × Table),
      (steps.map WithStep.eraseM).foldlM (fun (ctes : List (String × Table)) st => do
          let t ← semNear Θ ec env ctes st.near st.cols st.force
          return ctes ++ [(st.name, t)]) ctes
        = (steps.foldlM (fun (ctes : List (String × Table)) st => do
          let t ← semNear Θ ec env ctes st.near st.cols st.force
          return ctes ++ [(st.name, t)]) ctes : Except Err _) := by
  induction steps with
  | nil => intro ctes; rfl
  | cons st steps ih =>
    intro ctes
    simp only [List.map_cons, List.foldlM_cons, WithStep.eraseM, semNear_eraseM Θ ec env ctes st.near st.cols st.force]
    cases hsem : semNear Θ ec env ctes st.near st.cols st.force with
    | error e => rfl
    | ok t =>
      have := ih (ctes ++ [(st.name, t)])
      simpa [bind, Except.bind, pure, Except.pure] using this

theorem semWith_eraseM (Θ : Interp) (ec : EngineCfg) (env : Env) (steps : List WithStep) (last : Near) :
    semWith Θ ec env (steps.map WithStep.eraseM) last.eraseM = semWith Θ ec env steps last := by
  unfold semWith
  rw [semWith_fold_eraseM Θ ec env steps []]
  cases hres : (steps.foldlM (fun (ctes : List (String × Table)) st => do
          let t ← semNear Θ ec env ctes st.near st.cols st.force
          return ctes ++ [(st.name, t)]) [] : Except Err _) with
  | error e => rfl
  | ok ctes =>
    have := semNear_eraseM Θ ec env ctes last none true
    simpa [bind, Except.bind] using this

/-! ### transporting a function of the shape along two translations with the same shape -/
theorem map_congr_of_shape {α : Type} {x y : Except Err Near} (h : x.map Near.sqlShape = y.map Near.sqlShape)
    (f : Near → α) (hf : ∀ n n', x = .ok n → y = .ok n' → n.sqlShape = n'.sqlShape → f n = f n') :
    x.map f = y.map f := by
  cases x with
  | error e =>
    cases y with
    | error e' => simp only [Except.map, Except.error.injEq] at h ⊢; exact h
    | ok n' => simp [Except.map] at h
  | ok n =>
    cases y with
    | error e' => simp [Except.map] at h
    | ok n' =>
      simp only [Except.map, Except.ok.injEq] at h ⊢
      exact hf n n' rfl rfl h

/-- two pipelines with the same `erase` translate to trees of the same shape (or fail alike) -/
theorem toNearSql_shape_of_erase_eq (cfg : SqlCfg) {p q : Ops} (h : p.erase = q.erase) :
    (toNearSql cfg p).map Near.sqlShape = (toNearSql cfg q).map Near.sqlShape := by
  rw [← toNearSql_erase cfg p, ← toNearSql_erase cfg q, h]

theorem withFormOf_shape_of_erase_eq (cfg : SqlCfg) {p q : Ops} (h : p.erase = q.erase) :
    (withFormOf cfg p).map withShape = (withFormOf cfg q).map withShape := by
  rw [← withFormOf_erase cfg p, ← withFormOf_erase cfg q, h]

end C11Sql
end DAVerif
